/-
  C03f — the triangles of `fill_circle` do not overlap: the geometric part.

  * `StrictIn`, `Disj`      strict interior of a triangle; two triangles share no interior point
  * `disj_of_sep`           two triangles on the two closed sides of a line (direction ≠ 0) are disjoint
  * `side_nonpos/nonneg`    a point of the circle at an angle in `[a, b]` is on the outer side of the
                            chord `a → b`, one at an angle in `[b, a + 2π]` on the inner side
                            (`chord_cross`: the cross product is `4r²·sin η·sin((θ−a)/2)·sin((θ−b)/2)`)
  * `capTris`               the triangles one border call emits, as point triples
  * `cap_pairwise`          they are pairwise disjoint: sub-caps are separated by their chords
-/
import LyonVerif.Lemmas.CircleCoverInside

set_option linter.unusedSectionVars false
set_option linter.unusedVariables false

namespace Lyon.C03c
open Lyon Lyon.Shapes Lyon.C03

variable {K : Type} [Field K] [LinearOrder K] [IsStrictOrderedRing K] [Transc K]

abbrev Tri3 (K : Type) := P K × P K × P K

/-- strictly inside the triangle: the three edge functions have the same strict sign -/
def StrictIn (T : Tri3 K) (p : P K) : Prop :=
  (0 < (T.2.1 - T.1).cross (p - T.1) ∧ 0 < (T.2.2 - T.2.1).cross (p - T.2.1) ∧ 0 < (T.1 - T.2.2).cross (p - T.2.2)) ∨
  ((T.2.1 - T.1).cross (p - T.1) < 0 ∧ (T.2.2 - T.2.1).cross (p - T.2.1) < 0 ∧ (T.1 - T.2.2).cross (p - T.2.2) < 0)

/-- no point is strictly inside both triangles -/
def Disj (T1 T2 : Tri3 K) : Prop := ∀ p : P K, ¬ (StrictIn T1 p ∧ StrictIn T2 p)

theorem Disj.symm {T1 T2 : Tri3 K} (h : Disj T1 T2) : Disj T2 T1 := fun p hp => h p ⟨hp.2, hp.1⟩

/-- a point strictly inside a triangle whose vertices satisfy `f ≤ 0` (`f = E × (· − U)`) has
`f ≤ 0`, and `f = 0` only if `f` vanishes at the three vertices; the triangle has non-zero area -/
theorem strict_halfplane (T : Tri3 K) (p U E : P K) (h : StrictIn T p)
    (hA : E.cross (T.1 - U) ≤ 0) (hB : E.cross (T.2.1 - U) ≤ 0) (hC : E.cross (T.2.2 - U) ≤ 0) :
    E.cross (p - U) ≤ 0 ∧
    (E.cross (p - U) = 0 → E.cross (T.1 - U) = 0 ∧ E.cross (T.2.1 - U) = 0 ∧ E.cross (T.2.2 - U) = 0) ∧
    (T.2.1 - T.1).cross (T.2.2 - T.1) ≠ 0 := by
  obtain ⟨A, B, C⟩ := T
  simp only [StrictIn, geom] at h hA hB hC ⊢
  set l1 := (B.x - A.x) * (p.y - A.y) - (B.y - A.y) * (p.x - A.x) with hl1
  set l2 := (C.x - B.x) * (p.y - B.y) - (C.y - B.y) * (p.x - B.x) with hl2
  set l3 := (A.x - C.x) * (p.y - C.y) - (A.y - C.y) * (p.x - C.x) with hl3
  set D := (B.x - A.x) * (C.y - A.y) - (B.y - A.y) * (C.x - A.x) with hDd
  set fA := E.x * (A.y - U.y) - E.y * (A.x - U.x) with hfA
  set fB := E.x * (B.y - U.y) - E.y * (B.x - U.x) with hfB
  set fC := E.x * (C.y - U.y) - E.y * (C.x - U.x) with hfC
  set fp := E.x * (p.y - U.y) - E.y * (p.x - U.x) with hfp
  have hsum : l1 + l2 + l3 = D := by rw [hl1, hl2, hl3, hDd]; ring
  have key : D * fp = l2 * fA + l3 * fB + l1 * fC := by
    rw [hl1, hl2, hl3, hDd, hfA, hfB, hfC, hfp]; ring
  rcases h with ⟨p1, p2, p3⟩ | ⟨p1, p2, p3⟩
  · have hD : 0 < D := by linarith
    have t1 : l2 * fA ≤ 0 := mul_nonpos_of_nonneg_of_nonpos (le_of_lt p2) hA
    have t2 : l3 * fB ≤ 0 := mul_nonpos_of_nonneg_of_nonpos (le_of_lt p3) hB
    have t3 : l1 * fC ≤ 0 := mul_nonpos_of_nonneg_of_nonpos (le_of_lt p1) hC
    refine ⟨?_, ?_, ne_of_gt hD⟩
    · by_contra hc
      rw [not_le] at hc
      have := mul_pos hD hc
      linarith
    · intro h0
      rw [h0, mul_zero] at key
      have e1 : l2 * fA = 0 := by linarith
      have e2 : l3 * fB = 0 := by linarith
      have e3 : l1 * fC = 0 := by linarith
      exact ⟨(mul_eq_zero.1 e1).resolve_left (ne_of_gt p2), (mul_eq_zero.1 e2).resolve_left (ne_of_gt p3),
        (mul_eq_zero.1 e3).resolve_left (ne_of_gt p1)⟩
  · have hD : D < 0 := by linarith
    have t1 : 0 ≤ l2 * fA := mul_nonneg_of_nonpos_of_nonpos (le_of_lt p2) hA
    have t2 : 0 ≤ l3 * fB := mul_nonneg_of_nonpos_of_nonpos (le_of_lt p3) hB
    have t3 : 0 ≤ l1 * fC := mul_nonneg_of_nonpos_of_nonpos (le_of_lt p1) hC
    refine ⟨?_, ?_, ne_of_lt hD⟩
    · by_contra hc
      rw [not_le] at hc
      have := mul_neg_of_neg_of_pos hD hc
      linarith
    · intro h0
      rw [h0, mul_zero] at key
      have e1 : l2 * fA = 0 := by linarith
      have e2 : l3 * fB = 0 := by linarith
      have e3 : l1 * fC = 0 := by linarith
      exact ⟨(mul_eq_zero.1 e1).resolve_left (ne_of_lt p2), (mul_eq_zero.1 e2).resolve_left (ne_of_lt p3),
        (mul_eq_zero.1 e3).resolve_left (ne_of_lt p1)⟩

/-- **two triangles on the two closed sides of a line are disjoint** (`E ≠ 0`) -/
theorem disj_of_sep (T1 T2 : Tri3 K) (U E : P K) (hE : E.x ≠ 0 ∨ E.y ≠ 0)
    (h1 : E.cross (T1.1 - U) ≤ 0 ∧ E.cross (T1.2.1 - U) ≤ 0 ∧ E.cross (T1.2.2 - U) ≤ 0)
    (h2 : 0 ≤ E.cross (T2.1 - U) ∧ 0 ≤ E.cross (T2.2.1 - U) ∧ 0 ≤ E.cross (T2.2.2 - U)) :
    Disj T1 T2 := by
  intro p ⟨s1, s2⟩
  obtain ⟨le1, eq1, hD1⟩ := strict_halfplane T1 p U E s1 h1.1 h1.2.1 h1.2.2
  have hneg : ∀ X : P K, (-E).cross (X - U) = -(E.cross (X - U)) := by
    intro X; simp only [geom]; ring
  obtain ⟨le2, _, _⟩ := strict_halfplane T2 p U (-E) s2 (by rw [hneg]; linarith [h2.1])
    (by rw [hneg]; linarith [h2.2.1]) (by rw [hneg]; linarith [h2.2.2])
  rw [hneg] at le2
  have h0 : E.cross (p - U) = 0 := by linarith
  obtain ⟨zA, zB, zC⟩ := eq1 h0
  apply hD1
  obtain ⟨A, B, C⟩ := T1
  simp only [geom] at zA zB zC ⊢
  rcases hE with hx | hy
  · have : E.x * ((B.x - A.x) * (C.y - A.y) - (B.y - A.y) * (C.x - A.x)) = 0 := by
      linear_combination (B.x - A.x) * zC - (C.x - A.x) * zB + (C.x - B.x) * zA
    exact (mul_eq_zero.1 this).resolve_left hx
  · have : E.y * ((B.x - A.x) * (C.y - A.y) - (B.y - A.y) * (C.x - A.x)) = 0 := by
      linear_combination (B.y - A.y) * zC - (C.y - A.y) * zB + (C.y - B.y) * zA
    exact (mul_eq_zero.1 this).resolve_left hy

/-! ### which side of a chord a point of the circle is on -/

namespace CircTrig
variable (L : CircTrig K)
include L

theorem sin_neg (x : K) : Transc.sin (-x) = -Transc.sin x := by
  have := L.sin_sub 0 x
  rw [zero_sub, L.cos_zero, L.sin_zero] at this
  rw [this]; ring

theorem cos_add_two_pi (x : K) : Transc.cos (x + 2 * Transc.pi) = Transc.cos x := by
  rw [L.cos_add, L.cos_two_pi, L.sin_two_pi]; ring

theorem sin_add_two_pi (x : K) : Transc.sin (x + 2 * Transc.pi) = Transc.sin x := by
  rw [L.sin_add, L.cos_two_pi, L.sin_two_pi]; ring

end CircTrig

noncomputable section

theorem pos_periodic (L : CircTrig K) (c : P K) (r θ : K) : pos c r (θ + 2 * Transc.pi) = pos c r θ := by
  apply P.ext'
  · rw [pos_x, pos_x, L.cos_add_two_pi]
  · rw [pos_y, pos_y, L.sin_add_two_pi]

/-- the side function of the chord `a → b` at the point of angle `θ`, in closed form -/
theorem side_eq (L : CircTrig K) (c : P K) (r a b θ : K) :
    (pos c r b - pos c r a).cross (pos c r θ - pos c r a)
      = 4 * (r * r) * Transc.sin ((b - a) / 2) * (Transc.sin ((θ - a) / 2) * Transc.sin ((θ - b) / 2)) := by
  have eb : b = (a + b) / 2 + (b - a) / 2 := by ring
  have ea : a = (a + b) / 2 - (b - a) / 2 := by ring
  have h := chord_cross L c r ((a + b) / 2) ((b - a) / 2) (pos c r θ)
  rw [← eb, ← ea] at h
  rw [h, pos_x, pos_y]
  have hdot : Transc.cos ((a + b) / 2) * (c.x + Transc.cos θ * r - c.x) + Transc.sin ((a + b) / 2) * (c.y + Transc.sin θ * r - c.y)
      = r * Transc.cos (θ - (a + b) / 2) := by rw [L.cos_sub]; ring
  rw [hdot]
  have h1 := L.cos_sub ((θ - a) / 2) ((θ - b) / 2)
  have h2 := L.cos_add ((θ - a) / 2) ((θ - b) / 2)
  have e1 : (θ - a) / 2 - (θ - b) / 2 = (b - a) / 2 := by ring
  have e2 : (θ - a) / 2 + (θ - b) / 2 = θ - (a + b) / 2 := by ring
  rw [e1] at h1
  rw [e2] at h2
  rw [h1, h2]; ring

/-- angle in `[a, b]` ⟹ outer side (closed) of the chord `a → b` -/
theorem side_nonpos (L : CircTrig K) (c : P K) (r a b θ : K) (h0 : 0 < b - a) (h1 : b - a < 2 * Transc.pi)
    (ha : a ≤ θ) (hb : θ ≤ b) :
    (pos c r b - pos c r a).cross (pos c r θ - pos c r a) ≤ 0 := by
  rw [side_eq L]
  have s1 : 0 ≤ Transc.sin ((b - a) / 2) := L.sin_nonneg _ (by linarith) (by linarith)
  have s2 : 0 ≤ Transc.sin ((θ - a) / 2) := L.sin_nonneg _ (by linarith) (by linarith)
  have s3 : Transc.sin ((θ - b) / 2) ≤ 0 := by
    have := L.sin_nonneg (-((θ - b) / 2)) (by linarith) (by linarith)
    rw [L.sin_neg] at this; linarith
  have hrr : 0 ≤ 4 * (r * r) := by nlinarith [mul_self_nonneg r]
  have : Transc.sin ((θ - a) / 2) * Transc.sin ((θ - b) / 2) ≤ 0 := mul_nonpos_of_nonneg_of_nonpos s2 s3
  exact mul_nonpos_of_nonneg_of_nonpos (mul_nonneg hrr s1) this

/-- angle in `[b, a + 2π]` ⟹ inner side (closed) of the chord `a → b` -/
theorem side_nonneg (L : CircTrig K) (c : P K) (r a b θ : K) (h0 : 0 < b - a) (h1 : b - a < 2 * Transc.pi)
    (hb : b ≤ θ) (ha : θ ≤ a + 2 * Transc.pi) :
    0 ≤ (pos c r b - pos c r a).cross (pos c r θ - pos c r a) := by
  rw [side_eq L]
  have s1 : 0 ≤ Transc.sin ((b - a) / 2) := L.sin_nonneg _ (by linarith) (by linarith)
  have s2 : 0 ≤ Transc.sin ((θ - a) / 2) := L.sin_nonneg _ (by linarith) (by linarith)
  have s3 : 0 ≤ Transc.sin ((θ - b) / 2) := L.sin_nonneg _ (by linarith) (by linarith)
  have hrr : 0 ≤ 4 * (r * r) := by nlinarith [mul_self_nonneg r]
  exact mul_nonneg (mul_nonneg hrr s1) (mul_nonneg s2 s3)

/-- the chord `a → b` is not degenerate (`r ≠ 0`, `0 < b − a < 2π`) -/
theorem chord_ne (L : CircTrig K) (c : P K) (r a b : K) (hr : r ≠ 0) (h0 : 0 < b - a) (h1 : b - a < 2 * Transc.pi) :
    (pos c r b - pos c r a).x ≠ 0 ∨ (pos c r b - pos c r a).y ≠ 0 := by
  by_contra hc
  rw [not_or, not_not, not_not] at hc
  obtain ⟨hx, hy⟩ := hc
  -- then the side function vanishes identically; but at θ = (a+b)/2 it is strictly negative
  have hs := side_eq L c r a b ((a + b) / 2)
  have hz : (pos c r b - pos c r a).cross (pos c r ((a + b) / 2) - pos c r a) = 0 := by
    simp only [P.cross, hx, hy]; ring
  rw [hz] at hs
  have e1 : ((a + b) / 2 - a) / 2 = (b - a) / 4 := by ring
  have e2 : ((a + b) / 2 - b) / 2 = -((b - a) / 4) := by ring
  rw [e1, e2, L.sin_neg] at hs
  have s1 : 0 < Transc.sin ((b - a) / 2) := L.sin_pos _ (by linarith) (by linarith)
  have s2 : 0 < Transc.sin ((b - a) / 4) := L.sin_pos _ (by linarith) (by linarith)
  have hrr : 0 < r * r := mul_self_pos.2 hr
  have : 0 < 4 * (r * r) * Transc.sin ((b - a) / 2) * (Transc.sin ((b - a) / 4) * Transc.sin ((b - a) / 4)) := by positivity
  nlinarith

/-- `X` is the point of the circle at some angle in `[lo, hi]` -/
def OnArc (c : P K) (r lo hi : K) (X : P K) : Prop := ∃ θ : K, lo ≤ θ ∧ θ ≤ hi ∧ X = pos c r θ

/-- all three vertices of the triangle are on the arc `[lo, hi]` -/
def ArcTri (c : P K) (r lo hi : K) (T : Tri3 K) : Prop :=
  OnArc c r lo hi T.1 ∧ OnArc c r lo hi T.2.1 ∧ OnArc c r lo hi T.2.2

theorem OnArc.mono {c : P K} {r lo hi lo' hi' : K} {X : P K} (h : OnArc c r lo hi X) (h1 : lo' ≤ lo) (h2 : hi ≤ hi') :
    OnArc c r lo' hi' X := by
  obtain ⟨θ, a, b, e⟩ := h
  exact ⟨θ, by linarith, by linarith, e⟩

theorem OnArc.shift (L : CircTrig K) {c : P K} {r lo hi : K} {X : P K} (h : OnArc c r lo hi X) :
    OnArc c r (lo + 2 * Transc.pi) (hi + 2 * Transc.pi) X := by
  obtain ⟨θ, a, b, e⟩ := h
  exact ⟨θ + 2 * Transc.pi, by linarith, by linarith, by rw [pos_periodic L]; exact e⟩

theorem ArcTri.mono {c : P K} {r lo hi lo' hi' : K} {T : Tri3 K} (h : ArcTri c r lo hi T) (h1 : lo' ≤ lo) (h2 : hi ≤ hi') :
    ArcTri c r lo' hi' T := ⟨h.1.mono h1 h2, h.2.1.mono h1 h2, h.2.2.mono h1 h2⟩

theorem ArcTri.shift (L : CircTrig K) {c : P K} {r lo hi : K} {T : Tri3 K} (h : ArcTri c r lo hi T) :
    ArcTri c r (lo + 2 * Transc.pi) (hi + 2 * Transc.pi) T := ⟨h.1.shift L, h.2.1.shift L, h.2.2.shift L⟩

/-- **a triangle with vertices on the arc `[a, b]` and one with vertices on the complementary arc
`[b, a + 2π]` are disjoint**: the chord `a → b` separates them -/
theorem disj_of_arcs (L : CircTrig K) (c : P K) (r a b : K) (hr : r ≠ 0) (h0 : 0 < b - a) (h1 : b - a < 2 * Transc.pi)
    (T1 T2 : Tri3 K) (t1 : ArcTri c r a b T1) (t2 : ArcTri c r b (a + 2 * Transc.pi) T2) : Disj T1 T2 := by
  apply disj_of_sep T1 T2 (pos c r a) (pos c r b - pos c r a) (chord_ne L c r a b hr h0 h1)
  · obtain ⟨⟨θ1, x1, y1, e1⟩, ⟨θ2, x2, y2, e2⟩, ⟨θ3, x3, y3, e3⟩⟩ := t1
    rw [e1, e2, e3]
    exact ⟨side_nonpos L c r a b θ1 h0 h1 x1 y1, side_nonpos L c r a b θ2 h0 h1 x2 y2, side_nonpos L c r a b θ3 h0 h1 x3 y3⟩
  · obtain ⟨⟨θ1, x1, y1, e1⟩, ⟨θ2, x2, y2, e2⟩, ⟨θ3, x3, y3, e3⟩⟩ := t2
    rw [e1, e2, e3]
    exact ⟨side_nonneg L c r a b θ1 h0 h1 x1 y1, side_nonneg L c r a b θ2 h0 h1 x2 y2, side_nonneg L c r a b θ3 h0 h1 x3 y3⟩

/-! ### the triangles of one border call -/

/-- the triangles `fill_border_radius` emits (depth `n`, between `A` at angle `a0` and `B` at
angle `a1`), as point triples in emission order -/
def capTris (c : P K) (r : K) : Nat → K → K → P K → P K → List (Tri3 K)
  | 0, _, _, _, _ => []
  | n+1, a0, a1, A, B =>
    (B, pos c r ((a0 + a1) * Scalar.half), A) ::
      (capTris c r n a0 ((a0 + a1) * Scalar.half) A (pos c r ((a0 + a1) * Scalar.half)) ++
       capTris c r n ((a0 + a1) * Scalar.half) a1 (pos c r ((a0 + a1) * Scalar.half)) B)

theorem cap_arc (c : P K) (r : K) (n : Nat) (a0 a1 : K) (h : a0 ≤ a1) :
    ∀ T ∈ capTris c r n a0 a1 (pos c r a0) (pos c r a1), ArcTri c r a0 a1 T := by
  induction n generalizing a0 a1 with
  | zero => intro T hT; simp [capTris] at hT
  | succ n ih =>
    intro T hT
    have hm := mid_eq a0 a1
    simp only [capTris, List.mem_cons, List.mem_append] at hT
    rcases hT with rfl | hT | hT
    · exact ⟨⟨a1, h, le_refl _, rfl⟩, ⟨_, by rw [hm]; linarith, by rw [hm]; linarith, rfl⟩, ⟨a0, le_refl _, h, rfl⟩⟩
    · exact (ih a0 _ (by rw [hm]; linarith) T hT).mono (le_refl _) (by rw [hm]; linarith)
    · exact (ih _ a1 (by rw [hm]; linarith) T hT).mono (by rw [hm]; linarith) (le_refl _)

/-- **the triangles of one border call are pairwise disjoint** -/
theorem cap_pairwise (L : CircTrig K) (c : P K) (r : K) (hr : r ≠ 0) (n : Nat) (a0 a1 : K)
    (h0 : 0 < a1 - a0) (h1 : a1 - a0 < 2 * Transc.pi) :
    (capTris c r n a0 a1 (pos c r a0) (pos c r a1)).Pairwise Disj := by
  induction n generalizing a0 a1 with
  | zero => simp [capTris]
  | succ n ih =>
    have hm := mid_eq a0 a1
    have hpi := L.pi_pos
    simp only [capTris]
    set mid := (a0 + a1) * Scalar.half with hmid
    have m0 : a0 < mid := by rw [hm]; linarith
    have m1 : mid < a1 := by rw [hm]; linarith
    have c1 := cap_arc c r n a0 mid (le_of_lt m0)
    have c2 := cap_arc c r n mid a1 (le_of_lt m1)
    rw [List.pairwise_cons, List.pairwise_append]
    refine ⟨?_, ih a0 mid (by linarith) (by rw [hm]; linarith), ih mid a1 (by linarith) (by rw [hm]; linarith), ?_⟩
    · intro T hT
      rw [List.mem_append] at hT
      rcases hT with hT | hT
      · -- chord a0 → mid: the step triangle is on the complementary arc
        apply (disj_of_arcs L c r a0 mid hr (by linarith) (by linarith) T _ (c1 T hT) _).symm
        exact ⟨⟨a1, by linarith, by linarith, rfl⟩, ⟨mid, le_refl _, by linarith, rfl⟩,
          ⟨a0 + 2 * Transc.pi, by linarith, le_refl _, (pos_periodic L c r a0).symm⟩⟩
      · -- chord mid → a1
        apply (disj_of_arcs L c r mid a1 hr (by linarith) (by linarith) T _ (c2 T hT) _).symm
        exact ⟨⟨a1, le_refl _, by linarith, rfl⟩, ⟨mid + 2 * Transc.pi, by linarith, le_refl _, (pos_periodic L c r mid).symm⟩,
          ⟨a0 + 2 * Transc.pi, by linarith, by linarith, (pos_periodic L c r a0).symm⟩⟩
    · intro T1 hT1 T2 hT2
      exact disj_of_arcs L c r a0 mid hr (by linarith) (by linarith) T1 T2 (c1 T1 hT1)
        ((c2 T2 hT2).mono (le_refl _) (by linarith))

end

end Lyon.C03c
