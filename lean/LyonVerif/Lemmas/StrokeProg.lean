/-
  Programs on one `StrokeBuilder` (`Model/Tess/StrokeBuilderProg.lean`): the machinery that lifts the
  window invariant of the complete stroker model (`Lemmas/StrokeIdx*.lean`) from one event list under
  ONE options record to a list of `Item`s, each executed under ITS OWN options record (the setters
  and the thin rectangle change `builder.options` between - and inside - sub-paths; the merge
  threshold and the intersection routine are those of the builder's creation).

  * `runItems_spec`: the event-loop invariant `RInv` over items, given `Reg` and `EvOK` per item for
    ONE endpoint class `c` (the class may not depend on the item's options).
  * `reg_poly_cls`, `reg_variable_cls`, `reg_field_fixed_cls`: the three instances of `Reg` of
    `Lemmas/StrokeIdxCls.lean` / `StrokeIdxField.lean` for an ARBITRARY class `C` of `(source, half
    width)` pairs (their proofs never look at `C`, only at the `(is_flattening_step, line_join)` part).
  * bookkeeping of `expand`: ids are consecutive, `varWidth` / tolerance never change, the line width
    of an item is the builder's or a thin rectangle's, the join is the builder's or a `set_line_join`
    argument, polyline programs expand to polyline items.
  * `ProgVertexOK`, `progCls`, `evOK_prog`: the endpoint class of a program and the discharge of `EvOK`.
-/
import LyonVerif.Model.Tess.StrokeBuilderProg
import LyonVerif.Lemmas.StrokeIdxField

set_option linter.unusedSectionVars false
set_option linter.unusedVariables false

namespace Lyon.C05e
open Lyon Scalar Lyon.Stroke Lyon.Stroke.Full Lyon.Stroke.Prog Lyon.C05 Lyon.C05b Lyon.C05c

/-! ## `Reg` for an arbitrary class of `(source, half width)` pairs -/

section Regs
variable {α : Type} [Scalar α] [Transc α]

/-- the class with `C` arbitrary and `D` given -/
def clsOf (C : Src α → α → Prop) (D : Bool → LineJoin → Prop) (hD : ∀ f lj, D f lj → D f .miter) : Cls α :=
  ⟨C, D, hD⟩

/-- polylines (no endpoint is a flattening step): `flattened_step` is never called -/
theorem reg_poly_cls (e : Env α) (C : Src α → α → Prop) :
    Reg e (clsOf C (fun f _ => f = false) (fun _ _ h => h)) (fun _ _ _ => True) where
  first := fun _ _ => trivial
  joinFw := fun _ _ _ _ _ => trivial
  flat := fun _ _ _ _ _ => trivial
  noskip := by
    intro _ prev join next d o _ hF hfp
    have h1 : join.isFlat = false := hF.2
    have h2 := fastPath_flat hfp
    rw [h1] at h2; cases h2
  vw := by
    intro _
    refine ⟨fun _ _ _ => trivial, ?_⟩
    intro prev join next hF hfp
    have h1 : join.isFlat = false := hF.2
    have h2 := fastPath_flat hfp
    rw [h1] at h2; cases h2

/-- variable width with curves: `SkipApart` is the only arithmetic fact needed -/
theorem reg_variable_cls (e : Env α) (C : Src α → α → Prop) (hvw : e.o.varWidth = true) (hap : SkipApart e.thr) :
    Reg e (clsOf C (fun _ _ => True) (fun _ _ h => h)) (fun _ _ _ => True) where
  first := fun _ _ => trivial
  joinFw := fun _ _ _ _ _ => trivial
  flat := fun _ _ _ _ _ => trivial
  noskip := by intro h; rw [hvw] at h; cases h
  vw := fun _ => ⟨fun _ _ _ => trivial, fun prev join next _ hfp t1 t2 => skipApart_vw hap prev join next hfp t1 t2⟩

end Regs

section RegField
variable {K : Type} [Field K] [LinearOrder K] [IsStrictOrderedRing K] [Transc K] [Asin K] [FlatConst K]

/-- fixed width, no `MiterClip` endpoint, ordered field: the side points of every endpoint that has
been the middle of a step are symmetric about its position - whatever half width `vertex.half_width`
holds - so `flattened_step` never answers "skip" (`reg_field_fixed` for an arbitrary `C`) -/
theorem reg_field_fixed_cls (e : Env K) (C : Src K → K → Prop) (hfw : e.o.varWidth = false) :
    Reg e (clsOf C NoClip noClip_miter) Sym where
  first := by
    intro first next
    unfold GE Sym firstEdgeSetup
    simp only [geom]
    constructor <;> ring
  joinFw := by
    intro prev join next vhw hF
    have hlj : join.lineJoin ≠ .miterClip := hF.2
    have hb : (join.lineJoin == Lyon.StrokeQuad.Join.miterClip) = false := by
      cases h : join.lineJoin <;> simp_all
    unfold GE Sym joinSidesFw frontFix
    simp only [hb]
    split_ifs <;> first | contradiction | (simp only [geom]; constructor <;> ring)
  flat := by
    intro prev join next d o
    obtain ⟨N, ⟨h1, h2, h3⟩, _⟩ := flattenedStep_geo prev join next d o
    unfold GE Sym
    rw [h1, h2, h3]
    simp only [geom]
    constructor <;> ring
  noskip := by
    intro _ prev join next d o hG _ _
    obtain ⟨N, _, hs⟩ := flattenedStep_geo prev { join with lineJoin := .miter } next d o
    by_contra hne
    have hsk : (flattenedStep prev { join with lineJoin := .miter } next d o).skip = true := by
      simpa using hne
    obtain ⟨d0, d1⟩ := hs hsk
    obtain ⟨hx, hy⟩ := hG
    simp only [geom, Nat.cast_zero] at d0 d1
    have key : (join.position.x - prev.position.x) * (join.position.x + N.x * d.halfWidth - prev.pos.next.x)
        + (join.position.y - prev.position.y) * (join.position.y + N.y * d.halfWidth - prev.pos.next.y)
        + ((join.position.x - prev.position.x) * (join.position.x - N.x * d.halfWidth - prev.neg.next.x)
        + (join.position.y - prev.position.y) * (join.position.y - N.y * d.halfWidth - prev.neg.next.y))
        = 2 * ((join.position.x - prev.position.x) * (join.position.x - prev.position.x)
          + (join.position.y - prev.position.y) * (join.position.y - prev.position.y)) := by
      linear_combination (-(join.position.x - prev.position.x)) * hx - (join.position.y - prev.position.y) * hy
    nlinarith [mul_self_nonneg (join.position.x - prev.position.x), mul_self_nonneg (join.position.y - prev.position.y)]
  vw := by intro h; rw [hfw] at h; cases h

end RegField

/-! ## the event loop over items -/

section Items
variable {α : Type} [Scalar α] [Transc α] [Asin α] [FlatConst α]
variable {c : Cls α} {G : P α → P α → P α → Prop}

/-- the environment an item is executed in -/
def envOf (e0 : Env α) (it : Item α) : Env α := { e0 with o := it.o }

theorem runItems_eq (e0 : Env α) (store : Nat → List α) (its : List (Item α)) :
    runItems e0 store its
      = its.foldl (fun r it => if r.panicked then r else runEvent (envOf e0 it) store r it.ev)
          ⟨St.new, unset, nanP, false⟩ := rfl

/-- **the invariant of the event loop, options changing from item to item**: if the scalar
arithmetic is regular for every item's environment and every item feeds endpoints of the class,
the whole emission sequence is valid and the window invariant holds at the end -/
theorem runItems_spec (e0 : Env α) (store : Nat → List α) {K : Nat → Prop} (hk : K unset)
    (its : List (Item α))
    (h : ∀ it ∈ its, Reg (envOf e0 it) c G ∧ EvOK (envOf e0 it) store c K it.ev) :
    RInv e0 c G K (runItems e0 store its) := by
  rw [runItems_eq]
  suffices hs : ∀ (l : List (Item α)) (r : Run α), RInv e0 c G K r →
      (∀ it ∈ l, Reg (envOf e0 it) c G ∧ EvOK (envOf e0 it) store c K it.ev) →
      RInv e0 c G K (l.foldl (fun r it => if r.panicked then r else runEvent (envOf e0 it) store r it.ev) r) from
    hs its _ (RInv.new e0 hk) h
  intro l
  induction l with
  | nil => intro r hr _; exact hr
  | cons it l ih =>
    intro r hr hl
    refine ih _ ?_ (fun x hx => hl x (by simp [hx]))
    show RInv e0 c G K (if r.panicked = true then r else runEvent (envOf e0 it) store r it.ev)
    split_ifs
    · exact hr
    · obtain ⟨hreg, hev⟩ := hl it (by simp)
      have hr' : RInv (envOf e0 it) c G K r := ⟨hr.inv, hr.steps, hr.cur⟩
      have h1 := runEvent_spec hreg store hr' hev
      exact ⟨h1.inv, h1.steps, h1.cur⟩

end Items

/-! ## bookkeeping of `expand` -/

section Expand
variable {α : Type} [Scalar α]

/-- the events of an item list -/
def evsOf (its : List (Item α)) : List (IdEv α) := its.map (·.ev)

theorem id?_eq (it : Item α) : it.id? = (evId it.ev).head? := by
  unfold Item.id? evId
  cases it.ev <;> rfl

/-- the ids of an item list, in order -/
def idsOf (its : List (Item α)) : List Nat := its.filterMap Item.id?

theorem idsOf_append (a b : List (Item α)) : idsOf (a ++ b) = idsOf a ++ idsOf b := by
  simp [idsOf, List.filterMap_append]

theorem idsOf_items_lineEvents (o : Opts α) (a : List α) : ∀ (pts : List (P α)) (n : Nat),
    idsOf (items o a (lineEvents n pts)) = List.range' n pts.length := by
  intro pts
  induction pts with
  | nil => intro n; rfl
  | cons p r ih =>
    intro n
    have := ih (n + 1)
    simp only [items, lineEvents, List.map_cons, idsOf, List.filterMap_cons, Item.id?, List.length_cons,
      List.range'_succ] at this ⊢
    rw [this]

theorem idsOf_items_polygon (o : Opts α) (a : List α) (n : Nat) (pts : List (P α)) (closed : Bool) :
    idsOf (items o a (polygonEvents n pts closed)) = List.range' n pts.length := by
  cases pts with
  | nil => rfl
  | cons p r =>
    have h := idsOf_items_lineEvents o a r (n + 1)
    simp only [items, polygonEvents, List.map_cons, List.map_append, idsOf, List.filterMap_cons,
      List.filterMap_append, Item.id?, List.length_cons, List.range'_succ, List.map_nil,
      List.filterMap_nil, List.append_nil] at h ⊢
    rw [h]

/-- one call hands out consecutive ids from the builder's counter -/
theorem expandCmd_ids (s : BSt α) (c : Cmd α) :
    idsOf (expandCmd s c).2 = List.range' s.nextId ((expandCmd s c).1.nextId - s.nextId) := by
  cases c with
  | begin p a => simp [expandCmd, idsOf, Item.id?]
  | line p a => simp [expandCmd, idsOf, Item.id?]
  | quad c p a => simp [expandCmd, idsOf, Item.id?]
  | cubic c1 c2 p a => simp [expandCmd, idsOf, Item.id?]
  | end_ cl => simp [expandCmd, idsOf, Item.id?]
  | rect mn mx positive a =>
    simp only [expandCmd]
    split_ifs
    · simp only [idsOf_items_polygon]; simp
    · simp only [idsOf_items_polygon]; simp [rectCorners]; split_ifs <;> rfl
  | polygon pts closed a => simp only [expandCmd, idsOf_items_polygon]; simp
  | segment p q a => simp only [expandCmd, idsOf_items_polygon]; simp
  | point p a => simp only [expandCmd, idsOf_items_polygon]; simp
  | setJoin j => simp [expandCmd, idsOf]
  | setStartCap cp => simp [expandCmd, idsOf]
  | setEndCap cp => simp [expandCmd, idsOf]
  | setMiterLimit ml => simp [expandCmd, idsOf]

theorem expandCmd_next_le (s : BSt α) (c : Cmd α) : s.nextId ≤ (expandCmd s c).1.nextId := by
  cases c <;> simp only [expandCmd] <;> (try split_ifs) <;> simp

theorem finalBSt_next_le : ∀ (cmds : List (Cmd α)) (s : BSt α), s.nextId ≤ (finalBSt s cmds).nextId := by
  intro cmds
  induction cmds with
  | nil => intro s; exact Nat.le_refl _
  | cons c cs ih => intro s; exact Nat.le_trans (expandCmd_next_le s c) (ih _)

/-- **the ids of a program are consecutive**: the k-th endpoint the program creates has id
`s.nextId + k` (on a fresh builder: `k`), whichever calls - raw events, shape helpers, thin or
ordinary rectangles - create the endpoints -/
theorem expand_ids : ∀ (cmds : List (Cmd α)) (s : BSt α),
    idsOf (expand s cmds) = List.range' s.nextId ((finalBSt s cmds).nextId - s.nextId) := by
  intro cmds
  induction cmds with
  | nil => intro s; simp [expand, finalBSt, idsOf]
  | cons c cs ih =>
    intro s
    simp only [expand, finalBSt]
    rw [idsOf_append, expandCmd_ids, ih]
    have h1 := expandCmd_next_le s c
    have h2 := finalBSt_next_le cs (expandCmd s c).1
    obtain ⟨a, ha⟩ := Nat.exists_eq_add_of_le h1
    obtain ⟨b, hb⟩ := Nat.exists_eq_add_of_le h2
    rw [hb, ha]
    have e1 : s.nextId + a - s.nextId = a := by omega
    have e2 : s.nextId + a + b - (s.nextId + a) = b := by omega
    have e3 : s.nextId + a + b - s.nextId = a + b := by omega
    rw [e1, e2, e3]
    exact List.range'_append_1

/-- a property of every item of a program, from a property of the builder state that every call keeps -/
theorem expand_forall {Q : BSt α → Prop} {P : Item α → Prop} : ∀ (l : List (Cmd α)) (s : BSt α),
    (∀ s c, c ∈ l → Q s → Q (expandCmd s c).1 ∧ ∀ it ∈ (expandCmd s c).2, P it) → Q s →
    ∀ it ∈ expand s l, P it := by
  intro l
  induction l with
  | nil => intro s _ _ it hit; simp [expand] at hit
  | cons c cs ih =>
    intro s hstep hs it hit
    simp only [expand, List.mem_append] at hit
    obtain ⟨h1, h2⟩ := hstep s c (by simp) hs
    rcases hit with hit | hit
    · exact h2 it hit
    · exact ih _ (fun s' c' hc' => hstep s' c' (by simp [hc'])) h1 it hit

theorem mem_items {o : Opts α} {a : List α} {evs : List (IdEv α)} {it : Item α} (h : it ∈ items o a evs) :
    it.o = o ∧ it.attrs = a ∧ it.ev ∈ evs := by
  simp only [items, List.mem_map] at h
  obtain ⟨ev, hev, rfl⟩ := h
  exact ⟨rfl, rfl, hev⟩

/-- what a call does to `builder.options`: only the setters change it, and only their own field -/
theorem expandCmd_opts (s : BSt α) (c : Cmd α) :
    (expandCmd s c).1.o.tolerance = s.o.tolerance ∧ (expandCmd s c).1.o.lineWidth = s.o.lineWidth
    ∧ (expandCmd s c).1.o.varWidth = s.o.varWidth ∧ (expandCmd s c).1.o.varIdx = s.o.varIdx
    ∧ ((expandCmd s c).1.o.join = s.o.join ∨ c = .setJoin (expandCmd s c).1.o.join) := by
  cases c <;> simp only [expandCmd] <;> (try split_ifs) <;> simp

/-- the options an item of a call is executed with: the builder's, or - a thin rectangle - the
builder's with the line widened by `d` and the caps replaced -/
theorem expandCmd_item_opts (s : BSt α) (c : Cmd α) : ∀ it ∈ (expandCmd s c).2,
    it.o = s.o ∨ ∃ mn mx positive a, c = .rect mn mx positive a ∧ rectIsThin s.o mn mx = true
      ∧ it.o = thinOpts s.o (thinSegment mn mx).2.2 := by
  intro it hit
  cases c with
  | begin p a => simp only [expandCmd, List.mem_singleton] at hit; subst hit; exact Or.inl rfl
  | line p a => simp only [expandCmd, List.mem_singleton] at hit; subst hit; exact Or.inl rfl
  | quad c p a => simp only [expandCmd, List.mem_singleton] at hit; subst hit; exact Or.inl rfl
  | cubic c1 c2 p a => simp only [expandCmd, List.mem_singleton] at hit; subst hit; exact Or.inl rfl
  | end_ cl => simp only [expandCmd, List.mem_singleton] at hit; subst hit; exact Or.inl rfl
  | rect mn mx positive a =>
    simp only [expandCmd] at hit
    split_ifs at hit with hthin
    · exact Or.inr ⟨mn, mx, positive, a, rfl, hthin, (mem_items hit).1⟩
    · exact Or.inl (mem_items hit).1
  | polygon pts closed a => simp only [expandCmd] at hit; exact Or.inl (mem_items hit).1
  | segment p q a => simp only [expandCmd] at hit; exact Or.inl (mem_items hit).1
  | point p a => simp only [expandCmd] at hit; exact Or.inl (mem_items hit).1
  | setJoin j => simp [expandCmd] at hit
  | setStartCap cp => simp [expandCmd] at hit
  | setEndCap cp => simp [expandCmd] at hit
  | setMiterLimit ml => simp [expandCmd] at hit

theorem thinOpts_fields (o : Opts α) (d : α) :
    (thinOpts o d).tolerance = o.tolerance ∧ (thinOpts o d).lineWidth = o.lineWidth + d
    ∧ (thinOpts o d).varWidth = o.varWidth ∧ (thinOpts o d).varIdx = o.varIdx
    ∧ (thinOpts o d).join = o.join ∧ (thinOpts o d).miterLimit = o.miterLimit := by
  unfold thinOpts; simp

theorem rectIsThin_fixed {o : Opts α} {mn mx : P α} (h : rectIsThin o mn mx = true) : o.varWidth = false := by
  unfold rectIsThin at h
  simp only [Bool.and_eq_true, Bool.not_eq_true'] at h
  exact h.1

/-- **the options of every item of a program**: tolerance, `variable_line_width` never change; the
line width is the builder's, or - for the two endpoints of a thin rectangle, fixed width only - the
builder's plus that rectangle's `d` -/
theorem expand_opts (cmds : List (Cmd α)) (s : BSt α) : ∀ it ∈ expand s cmds,
    it.o.tolerance = s.o.tolerance ∧ it.o.varWidth = s.o.varWidth ∧ it.o.varIdx = s.o.varIdx
    ∧ (it.o.lineWidth = s.o.lineWidth
       ∨ (s.o.varWidth = false ∧ ∃ mn mx positive a, Cmd.rect mn mx positive a ∈ cmds
            ∧ it.o.lineWidth = s.o.lineWidth + (thinSegment mn mx).2.2)) := by
  refine expand_forall (Q := fun s' => s'.o.tolerance = s.o.tolerance ∧ s'.o.lineWidth = s.o.lineWidth
      ∧ s'.o.varWidth = s.o.varWidth ∧ s'.o.varIdx = s.o.varIdx) cmds s ?_ ⟨rfl, rfl, rfl, rfl⟩
  intro s' c hc ⟨q1, q2, q3, q4⟩
  obtain ⟨o1, o2, o3, o4, _⟩ := expandCmd_opts s' c
  refine ⟨⟨o1.trans q1, o2.trans q2, o3.trans q3, o4.trans q4⟩, ?_⟩
  intro it hit
  rcases expandCmd_item_opts s' c it hit with h | ⟨mn, mx, positive, a, rfl, hthin, h⟩
  · rw [h]; exact ⟨q1, q3, q4, Or.inl q2⟩
  · obtain ⟨t1, t2, t3, t4, _, _⟩ := thinOpts_fields s'.o (thinSegment mn mx).2.2
    rw [h]
    refine ⟨t1.trans q1, t3.trans q3, t4.trans q4, Or.inr ⟨?_, mn, mx, positive, a, hc, ?_⟩⟩
    · rw [← q3]; exact rectIsThin_fixed hthin
    · rw [t2, q2]

/-- the join of every item is the builder's or the argument of a `set_line_join` call -/
theorem expand_join (cmds : List (Cmd α)) (s : BSt α) : ∀ it ∈ expand s cmds,
    it.o.join = s.o.join ∨ Cmd.setJoin it.o.join ∈ cmds := by
  refine expand_forall (Q := fun s' => s'.o.join = s.o.join ∨ Cmd.setJoin s'.o.join ∈ cmds) cmds s ?_ (Or.inl rfl)
  intro s' c hc hq
  obtain ⟨_, _, _, _, hj⟩ := expandCmd_opts s' c
  have hq' : (expandCmd s' c).1.o.join = s.o.join ∨ Cmd.setJoin (expandCmd s' c).1.o.join ∈ cmds := by
    rcases hj with hj | hj
    · rw [hj]; exact hq
    · exact Or.inr (hj ▸ hc)
  refine ⟨hq', ?_⟩
  intro it hit
  rcases expandCmd_item_opts s' c it hit with h | ⟨mn, mx, positive, a, _, _, h⟩
  · rw [h]; exact hq
  · rw [h, (thinOpts_fields _ _).2.2.2.2.1]; exact hq

/-- no curve event -/
def ItemPoly (it : Item α) : Prop :=
  match it.ev with
  | .quad _ _ _ => False
  | .cubic _ _ _ _ => False
  | _ => True

/-- no `quadratic_bezier_to` / `cubic_bezier_to` call (every shape helper modelled here - rectangle,
polygon, segment, point - is allowed) -/
def IsPolyProg (cmds : List (Cmd α)) : Prop :=
  ∀ c ∈ cmds, match c with
    | .quad _ _ _ => False
    | .cubic _ _ _ _ => False
    | _ => True

theorem lineEvents_poly : ∀ (pts : List (P α)) (n : Nat), ∀ ev ∈ lineEvents n pts,
    match ev with | .quad _ _ _ => False | .cubic _ _ _ _ => False | _ => True := by
  intro pts
  induction pts with
  | nil => intro n ev h; simp [lineEvents] at h
  | cons p r ih =>
    intro n ev h
    simp only [lineEvents, List.mem_cons] at h
    rcases h with rfl | h
    · trivial
    · exact ih _ ev h

theorem polygonEvents_poly (n : Nat) (pts : List (P α)) (closed : Bool) : ∀ ev ∈ polygonEvents n pts closed,
    match ev with | .quad _ _ _ => False | .cubic _ _ _ _ => False | _ => True := by
  intro ev h
  cases pts with
  | nil => simp [polygonEvents] at h
  | cons p r =>
    simp only [polygonEvents, List.mem_cons, List.mem_append, List.mem_nil_iff, or_false] at h
    rcases h with (rfl | h) | rfl
    · trivial
    · exact lineEvents_poly r _ ev h
    · trivial

theorem expand_poly (cmds : List (Cmd α)) (hp : IsPolyProg cmds) (s : BSt α) : ∀ it ∈ expand s cmds, ItemPoly it := by
  refine expand_forall (Q := fun _ => True) cmds s ?_ trivial
  intro s' c hc _
  refine ⟨trivial, ?_⟩
  intro it hit
  have hcp := hp c hc
  unfold ItemPoly
  cases c with
  | begin p a => simp only [expandCmd, List.mem_singleton] at hit; subst hit; trivial
  | line p a => simp only [expandCmd, List.mem_singleton] at hit; subst hit; trivial
  | quad c p a => exact absurd hcp (by simp)
  | cubic c1 c2 p a => exact absurd hcp (by simp)
  | end_ cl => simp only [expandCmd, List.mem_singleton] at hit; subst hit; trivial
  | rect mn mx positive a =>
    simp only [expandCmd] at hit
    split_ifs at hit
    · exact polygonEvents_poly _ _ _ _ (mem_items hit).2.2
    · exact polygonEvents_poly _ _ _ _ (mem_items hit).2.2
  | polygon pts closed a => simp only [expandCmd] at hit; exact polygonEvents_poly _ _ _ _ (mem_items hit).2.2
  | segment p q a => simp only [expandCmd] at hit; exact polygonEvents_poly _ _ _ _ (mem_items hit).2.2
  | point p a => simp only [expandCmd] at hit; exact polygonEvents_poly _ _ _ _ (mem_items hit).2.2
  | setJoin j => simp [expandCmd] at hit
  | setStartCap cp => simp [expandCmd] at hit
  | setEndCap cp => simp [expandCmd] at hit
  | setMiterLimit ml => simp [expandCmd] at hit

end Expand

/-! ## the endpoint class of a program -/

section Class
variable {α : Type} [Scalar α] [Transc α]

/-- the endpoint id a source belongs to: the endpoint itself, or the end point of the curve -/
def srcTo : Src α → Nat
  | .endpoint id => id
  | .edge _ b _ => b

/-- what every vertex a program emits satisfies: its source names an endpoint the program created -
or an edge between two of them (`from` may be `EndpointId::INVALID` only if a curve comes before any
`begin`) - and, when the line width is fixed, its half width is HALF THE LINE WIDTH THAT WAS IN FORCE
WHEN THAT ENDPOINT WAS CREATED (`it.o` of the item with that id; ids are unique: `expand_ids`) -/
def ProgVertexOK (its : List (Item α)) (s : Src α) (hw : α) : Prop :=
  (match s with
    | .endpoint _ => True
    | .edge a _ _ => a = unset ∨ ∃ it ∈ its, it.id? = some a)
  ∧ ∃ it ∈ its, it.id? = some (srcTo s) ∧ (it.o.varWidth = false → hw = it.o.lineWidth * half)

/-- the endpoint ids seen by the event loop -/
def ProgId (its : List (Item α)) (id : Nat) : Prop := id = unset ∨ ∃ it ∈ its, it.id? = some id

variable [Asin α] [FlatConst α]

/-- every item of `its` feeds endpoints of the program's class -/
theorem evOK_prog (e0 : Env α) (store : Nat → List α) (its : List (Item α))
    (D : Bool → LineJoin → Prop) (hD : ∀ f lj, D f lj → D f .miter) (it : Item α) (hit : it ∈ its)
    (hD0 : D false it.o.join) (hD1 : (∀ f, D f it.o.join) ∨ ItemPoly it) :
    EvOK (envOf e0 it) store (clsOf (ProgVertexOK its) D hD) (ProgId its) it.ev := by
  have hfix : ∀ id, it.o.varWidth = false → (envOf e0 it).hwOf store id = it.o.lineWidth * half := by
    intro id h
    rw [hwOf_eq]; exact hwOfId_fixed (envOf e0 it) store id h
  have hfixT : ∀ a b t, it.o.varWidth = false → (envOf e0 it).hwAt store a b t = it.o.lineWidth * half := by
    intro a b t h
    rw [hwAt_eq]; exact hwAtT_fixed (envOf e0 it) store a b t h
  cases hev : it.ev with
  | begin id p =>
    have hid : it.id? = some id := by simp [Item.id?, hev]
    exact ⟨fun adv => ⟨⟨trivial, it, hit, hid, hfix id⟩, hD0⟩, Or.inr ⟨it, hit, hid⟩⟩
  | line id p =>
    have hid : it.id? = some id := by simp [Item.id?, hev]
    exact ⟨⟨⟨trivial, it, hit, hid, hfix id⟩, hD0⟩, Or.inr ⟨it, hit, hid⟩⟩
  | quad ctrl id p =>
    have hid : it.id? = some id := by simp [Item.id?, hev]
    rcases hD1 with hD1 | hp
    · refine ⟨?_, Or.inr ⟨it, hit, hid⟩⟩
      intro cur curPos l hk hq q hql
      unfold quadPoints at hq
      cases hf : flattenQuad (⟨curPos, ctrl, p⟩ : Quad α) (envOf e0 it).o.tolerance with
      | none => rw [hf] at hq; simp at hq
      | some l0 =>
        rw [hf] at hq
        simp only [Option.map_some, Option.some.injEq] at hq
        subst hq
        simp only [List.mem_map] at hql
        obtain ⟨f, _, rfl⟩ := hql
        refine ⟨?_, hD1 _⟩
        show ProgVertexOK its (if f.t == one then Src.endpoint id else Src.edge cur id f.t)
          ((envOf e0 it).hwAt store cur id f.t)
        split_ifs
        · exact ⟨trivial, it, hit, hid, hfixT cur id f.t⟩
        · exact ⟨hk, it, hit, hid, hfixT cur id f.t⟩
    · unfold ItemPoly at hp; rw [hev] at hp; exact absurd hp (by simp)
  | cubic c1 c2 id p =>
    have hid : it.id? = some id := by simp [Item.id?, hev]
    rcases hD1 with hD1 | hp
    · refine ⟨?_, Or.inr ⟨it, hit, hid⟩⟩
      intro cur curPos l hk hq q hql
      unfold cubicPoints at hq
      cases hf : (⟨curPos, c1, c2, p⟩ : Cubic α).forEachFlattenedWithT (envOf e0 it).o.tolerance with
      | none => rw [hf] at hq; simp at hq
      | some l0 =>
        rw [hf] at hq
        simp only [Option.map_some, Option.some.injEq] at hq
        subst hq
        simp only [List.mem_map] at hql
        obtain ⟨f, _, rfl⟩ := hql
        refine ⟨?_, hD1 _⟩
        show ProgVertexOK its (if f.t1 == one then Src.endpoint id else Src.edge cur id f.t1)
          ((envOf e0 it).hwAt store cur id f.t1)
        split_ifs
        · exact ⟨trivial, it, hit, hid, hfixT cur id f.t1⟩
        · exact ⟨hk, it, hit, hid, hfixT cur id f.t1⟩
    · unfold ItemPoly at hp; rw [hev] at hp; exact absurd hp (by simp)
  | end_ cl => trivial

end Class

end Lyon.C05e
