/-
  C06f, part 1: the clipped `MiterClip` join of the complete model, for use inside `jEP_closed`
  (`clipSide_points`, `clip_between`: the lemma versions of `Props/C06d.lean`; `joinSidesFw_clipped`: the branch of
  `compute_join_side_positions_fixed_width` for `MiterClip` beyond the limit, no fold, as `StrokeQuad.clipSide`).
-/
import LyonVerif.Lemmas.StrokeCoverClip
import LyonVerif.Model.Tess.StrokeFull

set_option linter.unusedSectionVars false
set_option linter.unusedVariables false

namespace Lyon.C06b
open Lyon Scalar Lyon.Stroke Lyon.Stroke.Full
open Lyon.StrokeQuad (Ix clipIntersections lineIntersection clipSide Side2)

section
variable {K : Type} [Field K] [LinearOrder K] [IsStrictOrderedRing K] [Transc K]

/-- **the clipped front side of a `MiterClip` join.**  `t0`, `t1` unit tangents, `F` the front (outer) miter
normal with `F·t0 = T > 0`, `F·t1 = −T`, `perp(t0)·F = perp(t1)·F = −ε` (`ε = ±1`: the front side is the side `−ε`),
`r = |F|`; `hw·T > eps` (the determinant guard of `Line::intersection`). -/
theorem clipSide_points (eps : K) (heps : 0 ≤ eps) (j t0 t1 F : P K) (hw ml ε T : K)
    (hε : ε * ε = 1) (hu0 : t0.sqLen = 1) (hu1 : t1.sqLen = 1) (hT : 0 < T) (hw0 : 0 < hw)
    (hF0 : F.dot t0 = T) (hF1 : F.dot t1 = -T) (hP0 : (perp t0).dot F = -ε) (hP1 : (perp t1).dot F = -ε)
    (hr0 : 0 < Transc.sqrt F.sqLen) (hrr : Transc.sqrt F.sqLen * Transc.sqrt F.sqLen = F.sqLen)
    (hdet : eps < hw * T) :
    ∃ lam : K, lam * T = hw * (ml * Transc.sqrt F.sqLen - 1)
      ∧ (clipSide (lineIntersection eps) ⟨j - (perp t0).smul (ε * hw), j - (perp t1).smul (ε * hw), none⟩ j F (ml * hw)).prev
          = j - (perp t0).smul (ε * hw) + t0.smul lam
      ∧ (clipSide (lineIntersection eps) ⟨j - (perp t0).smul (ε * hw), j - (perp t1).smul (ε * hw), none⟩ j F (ml * hw)).next
          = j - (perp t1).smul (ε * hw) - t1.smul lam
      ∧ (clipSide (lineIntersection eps) ⟨j - (perp t0).smul (ε * hw), j - (perp t1).smul (ε * hw), none⟩ j F (ml * hw)).single = none
      ∧ ((j - (perp t0).smul (ε * hw) + t0.smul lam) - j).dot F = ml * hw * Transc.sqrt F.sqLen
      ∧ ((j - (perp t1).smul (ε * hw) - t1.smul lam) - j).dot F = ml * hw * Transc.sqrt F.sqLen
      ∧ ((j - (perp t0).smul (ε * hw) + t0.smul lam) - j).sqLen = hw * hw + lam * lam
      ∧ ((j - (perp t1).smul (ε * hw) - t1.smul lam) - j).sqLen = hw * hw + lam * lam := by
  have hεabs : |ε| = 1 := by
    rcases mul_self_eq_one_iff.mp hε with h | h <;> rw [h] <;> simp
  have hm : -(ε * hw) ≠ 0 := by
    intro h
    have : ε * hw = 0 := by linarith
    rcases mul_eq_zero.mp this with h1 | h1
    · rw [h1] at hε; simp at hε
    · exact absurd h1 (ne_of_gt hw0)
  have hd0 : eps < |-(ε * hw) * F.dot t0| := by
    rw [hF0, show -(ε * hw) * T = -(ε * (hw * T)) by ring, abs_neg, abs_mul, hεabs, one_mul,
      abs_of_pos (mul_pos hw0 hT)]
    exact hdet
  have hd1 : eps < |-(ε * hw) * F.dot t1| := by
    rw [hF1, show -(ε * hw) * -T = ε * (hw * T) by ring, abs_mul, hεabs, one_mul, abs_of_pos (mul_pos hw0 hT)]
    exact hdet
  obtain ⟨lam0, a1, a2, a3, a4⟩ := clip_point eps heps ((perp t1).smul (-(ε * hw))) F t0 (-(ε * hw)) (ml * hw) hu0 hm hr0 hrr hd0
  obtain ⟨lam1, b1, b2, b3, b4⟩ := clip_point eps heps ((perp t0).smul (-(ε * hw))) F t1 (-(ε * hw)) (ml * hw) hu1 hm hr0 hrr hd1
  rw [hF0, hP0] at a2
  rw [hF1, hP1] at b2
  have hl0 : lam0 * T = hw * (ml * Transc.sqrt F.sqLen - 1) := by
    linear_combination a2 - hw * hε
  have hl1 : lam1 = -lam0 := by
    have : (lam0 + lam1) * T = 0 := by linear_combination a2 - b2
    rcases mul_eq_zero.mp this with h | h
    · linarith
    · exact absurd h (ne_of_gt hT)
  have e0 : (j - (perp t0).smul (ε * hw)) - j = (perp t0).smul (-(ε * hw)) := by
    apply P.ext' <;> simp only [geom] <;> ring
  have e1 : (j - (perp t1).smul (ε * hw)) - j = (perp t1).smul (-(ε * hw)) := by
    apply P.ext' <;> simp only [geom] <;> ring
  have c1 : (clipIntersections (lineIntersection eps) ((perp t0).smul (-(ε * hw))) ((perp t1).smul (-(ε * hw))) F (ml * hw)).1
      = (perp t0).smul (-(ε * hw)) + t0.smul lam0 := a1
  have c2 : (clipIntersections (lineIntersection eps) ((perp t0).smul (-(ε * hw))) ((perp t1).smul (-(ε * hw))) F (ml * hw)).2
      = (perp t1).smul (-(ε * hw)) + t1.smul lam1 := b1
  refine ⟨lam0, hl0, ?_, ?_, rfl, ?_, ?_, ?_, ?_⟩
  · show j + (clipIntersections (lineIntersection eps) ((j - (perp t0).smul (ε * hw)) - j) ((j - (perp t1).smul (ε * hw)) - j) F (ml * hw)).1 = _
    rw [e0, e1, c1]; apply P.ext' <;> simp only [geom] <;> ring
  · show j + (clipIntersections (lineIntersection eps) ((j - (perp t0).smul (ε * hw)) - j) ((j - (perp t1).smul (ε * hw)) - j) F (ml * hw)).2 = _
    rw [e0, e1, c2, hl1]; apply P.ext' <;> simp only [geom] <;> ring
  · have : (j - (perp t0).smul (ε * hw) + t0.smul lam0) - j = (perp t0).smul (-(ε * hw)) + t0.smul lam0 := by
      apply P.ext' <;> simp only [geom] <;> ring
    rw [this, a3]
  · have : (j - (perp t1).smul (ε * hw) - t1.smul lam0) - j = (perp t1).smul (-(ε * hw)) + t1.smul lam1 := by
      rw [hl1]; apply P.ext' <;> simp only [geom] <;> ring
    rw [this, b3]
  · have : (j - (perp t0).smul (ε * hw) + t0.smul lam0) - j = (perp t0).smul (-(ε * hw)) + t0.smul lam0 := by
      apply P.ext' <;> simp only [geom] <;> ring
    rw [this, a4]; linear_combination (hw * hw) * hε
  · have : (j - (perp t1).smul (ε * hw) - t1.smul lam0) - j = (perp t1).smul (-(ε * hw)) + t1.smul lam1 := by
      rw [hl1]; apply P.ext' <;> simp only [geom] <;> ring
    rw [this, b4, hl1]; linear_combination (hw * hw) * hε

/-- the clipped corner lies between the bevel corner (`lam = 0`) and the miter tip (`lam = hw·T`): its distance
from the join is between `w/2` and the miter length `w/2·√(1+T²)`.  `r = |F|`, `r² = 1 + T²`. -/
theorem clip_between (hw ml T r lam : K) (hw0 : 0 < hw) (hT : 0 < T) (hr0 : 0 ≤ r) (hr : r * r = 1 + T * T)
    (hlam : lam * T = hw * (ml * r - 1)) (h1 : 1 ≤ ml * r) (h2 : ml ≤ r) :
    0 ≤ lam ∧ lam ≤ hw * T ∧ hw * hw ≤ hw * hw + lam * lam ∧ hw * hw + lam * lam ≤ hw * hw * (1 + T * T) := by
  have hl0 : 0 ≤ lam := by
    by_contra hneg
    have : lam * T < 0 := mul_neg_of_neg_of_pos (lt_of_not_ge hneg) hT
    have : 0 ≤ hw * (ml * r - 1) := mul_nonneg (le_of_lt hw0) (by linarith)
    linarith
  have hle : lam ≤ hw * T := by
    have : ml * r ≤ r * r := mul_le_mul_of_nonneg_right h2 hr0
    have h3 : lam * T ≤ hw * T * T := by
      rw [hlam]
      have : ml * r - 1 ≤ T * T := by linarith
      nlinarith
    by_contra hgt
    have : hw * T * T < lam * T := mul_lt_mul_of_pos_right (lt_of_not_ge hgt) hT
    linarith
  refine ⟨hl0, hle, by nlinarith [mul_self_nonneg lam], ?_⟩
  have : lam * lam ≤ hw * T * (hw * T) := mul_le_mul hle hle hl0 (le_of_lt (mul_pos hw0 hT))
  nlinarith


/-- the clipped front side in one statement: `F` the front normal (`F·t0 = T ≥ 0`, `F·t1 = −T`,
`perp(t0)·F = perp(t1)·F = −ε`, `|F|² = 1 + T² > (2·miter_limit)²`), `miter_limit ≥ 1`, `eps < hw`: the two clipped points are
`lam` beyond the join on the two outer offset lines, `0 ≤ lam ≤ hw·T` -/
theorem clip_lam (eps : K) (heps : 0 ≤ eps)
    (hs0 : ∀ x : K, 0 ≤ x → 0 ≤ Transc.sqrt x) (hs : ∀ x : K, 0 ≤ x → Transc.sqrt x * Transc.sqrt x = x)
    (j t0 t1 F : P K) (hw ml ε T : K)
    (hε : ε * ε = 1) (hu0 : t0.sqLen = 1) (hu1 : t1.sqLen = 1) (hT0 : 0 ≤ T)
    (hF0 : F.dot t0 = T) (hF1 : F.dot t1 = -T) (hP0 : (perp t0).dot F = -ε) (hP1 : (perp t1).dot F = -ε)
    (hsq : F.sqLen = 1 + T * T) (hexc : F.sqLen > ml * ml * 4) (hml : 1 ≤ ml) (hhw : 0 < hw) (hepsw : eps < hw) :
    ∃ lam : K, 0 ≤ lam ∧ lam ≤ hw * T
      ∧ (clipSide (lineIntersection eps) ⟨j - (perp t0).smul (ε * hw), j - (perp t1).smul (ε * hw), none⟩ j F (ml * hw)).prev
          = j - (perp t0).smul (ε * hw) + t0.smul lam
      ∧ (clipSide (lineIntersection eps) ⟨j - (perp t0).smul (ε * hw), j - (perp t1).smul (ε * hw), none⟩ j F (ml * hw)).next
          = j - (perp t1).smul (ε * hw) - t1.smul lam := by
  rw [hsq] at hexc
  have hτ3 : 3 < T * T := by nlinarith
  have hτ1 : 1 < T := by nlinarith
  have hτpos : 0 < T := by linarith
  have hnn : (0 : K) ≤ F.sqLen := by rw [hsq]; nlinarith
  have hr0' := hs0 _ hnn
  have hrr := hs _ hnn
  have hr0 : 0 < Transc.sqrt F.sqLen := by
    rcases eq_or_lt_of_le hr0' with h | h
    · rw [← h] at hrr; rw [hsq] at hrr; nlinarith
    · exact h
  obtain ⟨lam, c1, c2, c3, _⟩ := clipSide_points eps heps j t0 t1 F hw ml ε T hε hu0 hu1 hτpos hhw
    hF0 hF1 hP0 hP1 hr0 hrr (by nlinarith)
  generalize hrdef : Transc.sqrt F.sqLen = r at hr0 hrr c1
  rw [hsq] at hrr
  have hb := clip_between hw ml T r lam hhw hτpos (le_of_lt hr0) hrr c1 (by nlinarith) (by nlinarith)
  exact ⟨lam, hb.1, hb.2.1, c2, c3⟩

/-- `compute_join_side_positions_fixed_width`, `MiterClip` beyond the limit, no fold: the inner side gets the single
miter vertex, the front side is `clipSide` of the two bevel points -/
theorem joinSidesFw_clipped (ix : Ix K) (prev join next : EP K) (ml hw : K)
    (hlj : join.lineJoin = .miterClip) (hps : join.pos.single = none) (hns : join.neg.single = none)
    (hfold : (fwGeo prev join next ml hw).fold = false) (hunc : (fwGeo prev join next ml hw).unclipped = false) :
    ((fwGeo prev join next ml hw).frontNeg = true →
      (joinSidesFw ix prev join next ml hw).pos.single = some (join.position + (fwGeo prev join next ml hw).normal.smul hw)
      ∧ (joinSidesFw ix prev join next ml hw).pos.prev = join.position + (perp (fwGeo prev join next ml hw).pt).smul hw
      ∧ (joinSidesFw ix prev join next ml hw).pos.next = join.position + (perp (fwGeo prev join next ml hw).nt).smul hw
      ∧ (joinSidesFw ix prev join next ml hw).neg.single = none
      ∧ (joinSidesFw ix prev join next ml hw).neg.prev
          = (clipSide ix ⟨join.position - (perp (fwGeo prev join next ml hw).pt).smul hw,
              join.position - (perp (fwGeo prev join next ml hw).nt).smul hw, none⟩ join.position
              (-(fwGeo prev join next ml hw).normal) (ml * hw)).prev
      ∧ (joinSidesFw ix prev join next ml hw).neg.next
          = (clipSide ix ⟨join.position - (perp (fwGeo prev join next ml hw).pt).smul hw,
              join.position - (perp (fwGeo prev join next ml hw).nt).smul hw, none⟩ join.position
              (-(fwGeo prev join next ml hw).normal) (ml * hw)).next)
    ∧ ((fwGeo prev join next ml hw).frontNeg = false →
      (joinSidesFw ix prev join next ml hw).neg.single = some (join.position - (fwGeo prev join next ml hw).normal.smul hw)
      ∧ (joinSidesFw ix prev join next ml hw).neg.prev = join.position - (perp (fwGeo prev join next ml hw).pt).smul hw
      ∧ (joinSidesFw ix prev join next ml hw).neg.next = join.position - (perp (fwGeo prev join next ml hw).nt).smul hw
      ∧ (joinSidesFw ix prev join next ml hw).pos.single = none
      ∧ (joinSidesFw ix prev join next ml hw).pos.prev
          = (clipSide ix ⟨join.position + (perp (fwGeo prev join next ml hw).pt).smul hw,
              join.position + (perp (fwGeo prev join next ml hw).nt).smul hw, none⟩ join.position
              (fwGeo prev join next ml hw).normal (ml * hw)).prev
      ∧ (joinSidesFw ix prev join next ml hw).pos.next
          = (clipSide ix ⟨join.position + (perp (fwGeo prev join next ml hw).pt).smul hw,
              join.position + (perp (fwGeo prev join next ml hw).nt).smul hw, none⟩ join.position
              (fwGeo prev join next ml hw).normal (ml * hw)).next) := by
  have hfn : ∀ b : Bool, (fwGeo prev join next ml hw).frontNeg = b →
      (fwGeo prev join next ml hw).frontNormal = if b then -(fwGeo prev join next ml hw).normal else (fwGeo prev join next ml hw).normal := by
    intro b hb; rw [← hb]; rfl
  unfold joinSidesFw frontFix
  simp only [hfold, hunc, hlj, Bool.false_eq_true, if_false]
  constructor
  · intro hf
    rw [hf, hfn true hf]
    simp [clipSide, hps, hns]
  · intro hf
    rw [hf, hfn false hf]
    simp [clipSide, hps, hns]

end

end Lyon.C06b
