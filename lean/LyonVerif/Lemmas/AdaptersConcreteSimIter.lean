/-
  C16 with the concrete flatteners — similarities, iterator side: lyon_geom's `Flattened`
  iterators of the transformed curve at `s·tol` yield the transformed points of the iterators
  of the original curve at `tol` (same parameters: `flatParams_sim`), pull for pull; hence
  `iterator::Transformed` then `iterator::Flattened` at `s·tol` = `Flattened` at `tol` then
  `Transformed`.
-/
import LyonVerif.Lemmas.AdaptersConcreteSim

set_option linter.unusedSectionVars false
set_option linter.unusedVariables false

namespace Lyon.Adapt
open Lyon Lyon.Path Scalar Lyon.Flat

/-! ### generic: `iterator::Flattened` commutes with a point map when the curve iterators do -/

section generic
variable {π π' : Type}

theorem chain_map (g : π → π') (a : π) (l : List π) :
    chain (g a) (l.map g) = (chain a l).map (mapEvent g) := by
  induction l generalizing a with
  | nil => rfl
  | cons p r ih => simp [chain, mapEvent, ih]

theorem flatIter_equivariant (g : π → π') (G : IterFlattener π) (G' : IterFlattener π')
    (hq : ∀ a c b, G'.quad (g a) (g c) (g b) = (G.quad a c b).map g)
    (hc : ∀ a c d b, G'.cubic (g a) (g c) (g d) (g b) = (G.cubic a c d b).map g)
    (evs : List (Event π)) :
    flatIter G' (evs.map (mapEvent g)) = (flatIter G evs).map (mapEvent g) := by
  induction evs with
  | nil => rfl
  | cons e r ih =>
    cases e with
    | begin p => simp [flatIter, mapEvent, ih]
    | line a b => simp [flatIter, mapEvent, ih]
    | end_ l f cl => simp [flatIter, mapEvent, ih]
    | quad a c b => simp [flatIter, mapEvent, ih, hq, chain_map]
    | cubic a c d b => simp [flatIter, mapEvent, ih, hc, chain_map]

end generic

section field
variable {K : Type} [Field K] [LinearOrder K] [IsStrictOrderedRing K] [Transc K] [FlatConst K]

/-! ### the quadratic iterator -/

noncomputable def mapQI (m : Xf K) (it : QuadIter K) : QuadIter K :=
  { it with curve := it.curve.transformed m }

theorem quadIter_new_sim (hsq : SqrtScales K) (m : Xf K) (s : K) (h : IsSim m s) (q : Quad K)
    (tol : K) : QuadIter.new (q.transformed m) (s * tol) = mapQI m (QuadIter.new q tol) := by
  simp only [QuadIter.new, mapQI, flatParams_sim hsq m s h]

theorem quadIter_next_xf (m : Xf K) (it : QuadIter K) :
    (mapQI m it).next = (it.next.1.map m.apply, mapQI m it.next.2) := by
  have hdone : (mapQI m it).done = it.done := rfl
  have hat : (mapQI m it).atEnd = it.atEnd := rfl
  unfold QuadIter.next
  rw [hdone, hat]
  by_cases hd : it.done = true
  · rw [if_pos hd, if_pos hd]; rfl
  · rw [if_neg hd, if_neg hd]
    by_cases he : it.atEnd = true
    · rw [if_pos he, if_pos he]; rfl
    · rw [if_neg he, if_neg he]
      simp only [Option.map_some, mapQI, quad_sample_xf]

theorem quadIter_collectDone_xf (m : Xf K) (f : ℕ) (it : QuadIter K) :
    (mapQI m it).collectDone f = (it.collectDone f).map (List.map m.apply) := by
  induction f generalizing it with
  | zero => rfl
  | succ f ih =>
    rw [QuadIter.collectDone, QuadIter.collectDone, quadIter_next_xf]
    cases hn : it.next with
    | mk o it' =>
      cases o with
      | none => rfl
      | some p =>
        simp only [Option.map_some, ih]
        cases it'.collectDone f <;> rfl

theorem quadIter_collect_xf (m : Xf K) (f : ℕ) (it : QuadIter K) :
    (mapQI m it).collect f = (it.collect f).map m.apply := by
  induction f generalizing it with
  | zero => rfl
  | succ f ih =>
    rw [QuadIter.collect, QuadIter.collect, quadIter_next_xf]
    cases hn : it.next with
    | mk o it' =>
      cases o with
      | none => rfl
      | some p => simp [ih]

/-! ### the cubic iterator -/

noncomputable def mapCI (m : Xf K) (s : K) (it : CubicIter K) : CubicIter K :=
  { it with curve := it.curve.transformed m, tolerance := s * it.tolerance }

theorem quadTIter_new_sim (hsq : SqrtScales K) (m : Xf K) (s : K) (h : IsSim m s) (q : Quad K)
    (tol : K) : QuadTIter.new (q.transformed m) (s * tol) = QuadTIter.new q tol := by
  simp only [QuadTIter.new, flatParams_sim hsq m s h]

theorem cubicIter_new_sim (hsq : SqrtScales K) (m : Xf K) (s : K) (h : IsSim m s) (c : Cubic K)
    (tol : K) :
    CubicIter.new (c.transformed m) (s * tol) = (CubicIter.new c tol).map (mapCI m s) := by
  simp only [CubicIter.new, mul_assoc s tol, numQuadraticsImpl_sim m s h, cubic_splitRange_xf,
    toQuadratic_xf, quadTIter_new_sim hsq m s h, Option.map_map]
  congr 1

theorem lastOr_xf (m : Xf K) (c : Cubic K) (rem : ℕ) (tInner t : K) :
    CubicIter.lastOr (c.transformed m) rem tInner t = m.apply (CubicIter.lastOr c rem tInner t) := by
  unfold CubicIter.lastOr
  split
  · rfl
  · exact cubic_sample_xf m c t

theorem cubicIter_next_sim (hsq : SqrtScales K) (m : Xf K) (s : K) (h : IsSim m s)
    (it : CubicIter K) :
    (mapCI m s it).next = (it.next.1.map m.apply, mapCI m s it.next.2) := by
  unfold CubicIter.next
  simp only [show (mapCI m s it).current = it.current from rfl]
  cases hc : it.current.next with
  | mk o cur =>
    cases o with
    | some tInner =>
      simp only [mapCI, lastOr_xf, Option.map_some]
    | none =>
      simp only [show (mapCI m s it).remaining = it.remaining from rfl]
      by_cases hr : it.remaining = 0
      · simp [hr, mapCI]
      · simp only [hr, if_false, CubicIter.advance, mapCI, cubic_splitRange_xf, toQuadratic_xf,
          quadTIter_new_sim hsq m s h, lastOr_xf, Option.map_some]

theorem cubicIter_collectDone_sim (hsq : SqrtScales K) (m : Xf K) (s : K) (h : IsSim m s)
    (f : ℕ) (it : CubicIter K) :
    (mapCI m s it).collectDone f = (it.collectDone f).map (List.map m.apply) := by
  induction f generalizing it with
  | zero => rfl
  | succ f ih =>
    rw [CubicIter.collectDone, CubicIter.collectDone, cubicIter_next_sim hsq m s h]
    cases hn : it.next with
    | mk o it' =>
      cases o with
      | none => rfl
      | some p =>
        simp only [Option.map_some, ih]
        cases it'.collectDone f <;> rfl

theorem cubicIter_collect_sim (hsq : SqrtScales K) (m : Xf K) (s : K) (h : IsSim m s)
    (f : ℕ) (it : CubicIter K) :
    (mapCI m s it).collect f = (it.collect f).map m.apply := by
  induction f generalizing it with
  | zero => rfl
  | succ f ih =>
    rw [CubicIter.collect, CubicIter.collect, cubicIter_next_sim hsq m s h]
    cases hn : it.next with
    | mk o it' =>
      cases o with
      | none => rfl
      | some p => simp [ih]

/-! ### `itModel`, `itOk…` -/

theorem itModel_quad_sim (hsq : SqrtScales K) (m : Xf K) (s : K) (h : IsSim m s) (fuel : ℕ)
    (tol : K) (a c b : P K) :
    (itModel fuel (s * tol)).quad (m.apply a) (m.apply c) (m.apply b)
      = ((itModel fuel tol).quad a c b).map m.apply := by
  have := quadIter_new_sim hsq m s h ⟨a, c, b⟩ tol
  simp only [Quad.transformed] at this
  simp only [itModel, this, quadIter_collect_xf]

theorem itModel_cubic_sim (hsq : SqrtScales K) (m : Xf K) (s : K) (h : IsSim m s) (fuel : ℕ)
    (tol : K) (a c d b : P K) :
    (itModel fuel (s * tol)).cubic (m.apply a) (m.apply c) (m.apply d) (m.apply b)
      = ((itModel fuel tol).cubic a c d b).map m.apply := by
  have := cubicIter_new_sim hsq m s h ⟨a, c, d, b⟩ tol
  simp only [Cubic.transformed] at this
  simp only [itModel, this]
  cases CubicIter.new (⟨a, c, d, b⟩ : Cubic K) tol with
  | none => rfl
  | some it => simp [cubicIter_collect_sim hsq m s h]

theorem itOkEvents_sim (hsq : SqrtScales K) (m : Xf K) (s : K) (h : IsSim m s) (fuel : ℕ)
    (tol : K) (evs : List (Event (P K))) :
    itOkEvents fuel (s * tol) (evs.map (mapEvent m.apply)) = itOkEvents fuel tol evs := by
  induction evs with
  | nil => rfl
  | cons e r ih =>
    cases e with
    | begin p => simpa [itOkEvents, mapEvent] using ih
    | line a b => simpa [itOkEvents, mapEvent] using ih
    | end_ l f cl => simpa [itOkEvents, mapEvent] using ih
    | quad a c b =>
      have := quadIter_new_sim hsq m s h ⟨a, c, b⟩ tol
      simp only [Quad.transformed] at this
      simp only [List.map_cons, mapEvent, itOkEvents, itOkQuad, this, quadIter_collectDone_xf,
        Option.isSome_map, ih]
    | cubic a c d b =>
      have := cubicIter_new_sim hsq m s h ⟨a, c, d, b⟩ tol
      simp only [Cubic.transformed] at this
      simp only [List.map_cons, mapEvent, itOkEvents, itOkCubic, this, ih]
      cases CubicIter.new (⟨a, c, d, b⟩ : Cubic K) tol with
      | none => rfl
      | some it => simp [cubicIter_collectDone_sim hsq m s h]

end field

end Lyon.Adapt
