/-
  Helper lemmas for the tolerance clause of CUBIC flattening (Props/C09b.lean):

  * `sq_triangle`: the triangle inequality in squared form (`|u+v|² ≤ (α+β)²`);
  * `cubic_split_range_sample`, `cubic_split_range_third_diff`: a sub-range of a cubic is the
    re-parametrised cubic, its third difference is `Δ³·(P3 − 3P2 + 3P1 − P0)`;
  * `cubic_piece_deviation`: a sub-range of length `Δ` differs from its `to_quadratic`
    approximation by at most `|P3 − 3P2 + 3P1 − P0|²·Δ⁶/432` (squared);
  * `quads_loop_uniform`: the pieces of `for_each_quadratic_bezier_with_t` all have length `step`
    when `t0 + (k+1)·step = 1`, are the `to_quadratic` of their sub-range and cover `[t0, 1]`;
  * `flatQuadsT_mem`, `flatQuads_mem`: every segment of a piece's flattening appears, with the same
    end points, in the cubic's flattening.
-/
import LyonVerif.Model.Geom.Flatten
import LyonVerif.Lemmas.Field
import LyonVerif.Lemmas.Flatten

set_option linter.unusedSectionVars false
set_option linter.unusedVariables false

namespace Lyon.Flat
open Lyon Scalar

variable {K : Type} [Field K] [LinearOrder K] [IsStrictOrderedRing K]

theorem sqLen_nonneg (v : P K) : 0 ≤ v.sqLen := by
  simp only [P.sqLen]; nlinarith [mul_self_nonneg v.x, mul_self_nonneg v.y]

/-- triangle inequality, squared: `|u|² ≤ α²`, `|v|² ≤ β²`, `α, β ≥ 0` ⟹ `|u + v|² ≤ (α + β)²` -/
theorem sq_triangle (u v : P K) (α β : K) (hα : 0 ≤ α) (hβ : 0 ≤ β)
    (hu : u.sqLen ≤ α * α) (hv : v.sqLen ≤ β * β) : (u + v).sqLen ≤ (α + β) * (α + β) := by
  have hu0 := sqLen_nonneg u
  have hv0 := sqLen_nonneg v
  have hcs : (u.x * v.x + u.y * v.y) ^ 2 ≤ (α * β) ^ 2 := by
    have e : (u.x * v.x + u.y * v.y) ^ 2 + (u.x * v.y - u.y * v.x) ^ 2 = u.sqLen * v.sqLen := by
      simp only [P.sqLen]; ring
    have h1 : u.sqLen * v.sqLen ≤ (α * α) * (β * β) := mul_le_mul hu hv hv0 (mul_self_nonneg α)
    have := sq_nonneg (u.x * v.y - u.y * v.x)
    calc (u.x * v.x + u.y * v.y) ^ 2 ≤ u.sqLen * v.sqLen := by linarith
      _ ≤ (α * α) * (β * β) := h1
      _ = (α * β) ^ 2 := by ring
  have hdot : u.x * v.x + u.y * v.y ≤ α * β := by
    have hab : 0 ≤ α * β := mul_nonneg hα hβ
    exact le_of_sq_le_sq_aux hcs hab
  have e : (u + v).sqLen = u.sqLen + v.sqLen + 2 * (u.x * v.x + u.y * v.y) := by
    simp only [geom]; ring
  rw [e]; nlinarith
where
  le_of_sq_le_sq_aux {a b : K} (h : a ^ 2 ≤ b ^ 2) (hb : 0 ≤ b) : a ≤ b := by
    by_contra hc
    have hlt : b < a := not_le.mp hc
    have : b ^ 2 < a ^ 2 := by nlinarith
    linarith

/-! ## A sub-range of a cubic and its quadratic approximation -/

/-- `split_range(t0..t1)` is the cubic re-parametrised: `sub.sample u = c.sample (t0 + u·(t1 − t0))` -/
theorem cubic_split_range_sample (c : Cubic K) (t0 t1 u : K) :
    (c.splitRange t0 t1).sample u = c.sample (t0 + u * (t1 - t0)) := by
  geom_ring

/-- the third difference of a sub-range is `(t1 − t0)³` times that of the cubic -/
theorem cubic_split_range_third_diff (c : Cubic K) (t0 t1 : K) :
    ((((c.splitRange t0 t1).b - (c.splitRange t0 t1).c2.smul 3) + (c.splitRange t0 t1).c1.smul 3)
        - (c.splitRange t0 t1).a)
      = ((((c.b - c.c2.smul 3) + c.c1.smul 3) - c.a)).smul ((t1 - t0) * (t1 - t0) * (t1 - t0)) := by
  geom_ring

/-- **deviation of one piece**: over `[t0, t1]` the cubic differs from the `to_quadratic` of its
sub-range, at the same local parameter `u ∈ [0,1]`, by at most `|D|²·(t1 − t0)⁶ / 432` (squared),
`D = P3 − 3P2 + 3P1 − P0` — the `432` of `num_quadratics_impl`. -/
theorem cubic_piece_deviation (c : Cubic K) (t0 t1 u : K) (hu0 : 0 ≤ u) (hu1 : u ≤ 1) :
    (c.sample (t0 + u * (t1 - t0)) - (c.splitRange t0 t1).toQuadratic.sample u).sqLen
      ≤ (((c.b - c.c2.smul 3) + c.c1.smul 3) - c.a).sqLen * (t1 - t0) ^ 6 / 432 := by
  rw [← cubic_split_range_sample]
  have hdev : (c.splitRange t0 t1).sample u - (c.splitRange t0 t1).toQuadratic.sample u
      = ((((c.splitRange t0 t1).b - (c.splitRange t0 t1).c2.smul 3) + (c.splitRange t0 t1).c1.smul 3)
          - (c.splitRange t0 t1).a).smul (1 / 2 * (u * (1 - u) * (1 - 2 * u))) := by
    geom_ring
  rw [hdev, cubic_split_range_third_diff]
  set D := (((c.b - c.c2.smul 3) + c.c1.smul 3) - c.a) with hD
  have e : ((D.smul ((t1 - t0) * (t1 - t0) * (t1 - t0))).smul (1 / 2 * (u * (1 - u) * (1 - 2 * u)))).sqLen
      = D.sqLen * (t1 - t0) ^ 6 * ((u * (1 - u) * (1 - 2 * u)) ^ 2 / 4) := by
    simp only [P.sqLen, P.smul]; ring
  rw [e]
  have hf : (u * (1 - u) * (1 - 2 * u)) ^ 2 ≤ 1 / 108 := by
    have hw0 : 0 ≤ u * (1 - u) := mul_nonneg hu0 (by linarith)
    have hw1 : u * (1 - u) ≤ 1 / 4 := chord_factor u
    have e2 : (u * (1 - u) * (1 - 2 * u)) ^ 2 = (u * (1 - u)) ^ 2 * (1 - 4 * (u * (1 - u))) := by ring
    rw [e2]
    nlinarith [mul_nonneg (sq_nonneg (6 * (u * (1 - u)) - 1)) (by linarith : (0:K) ≤ 12 * (u * (1 - u)) + 1)]
  have hD0 : 0 ≤ D.sqLen * (t1 - t0) ^ 6 := by
    apply mul_nonneg (sqLen_nonneg D)
    have : (t1 - t0) ^ 6 = ((t1 - t0) ^ 3) ^ 2 := by ring
    rw [this]; exact sq_nonneg _
  have : (u * (1 - u) * (1 - 2 * u)) ^ 2 / 4 ≤ 1 / 432 := by linarith
  calc D.sqLen * (t1 - t0) ^ 6 * ((u * (1 - u) * (1 - 2 * u)) ^ 2 / 4)
      ≤ D.sqLen * (t1 - t0) ^ 6 * (1 / 432) := mul_le_mul_of_nonneg_left this hD0
    _ = D.sqLen * (t1 - t0) ^ 6 / 432 := by ring

/-! ## The pieces of `for_each_quadratic_bezier_with_t` -/

section loops
variable [Transc K] [FlatConst K]

/-- what the loop guarantees for each piece `(quadratic, t0, t1)` -/
def PieceOK (c : Cubic K) (step : K) (p : Quad K × K × K) : Prop :=
  p.1 = (c.splitRange p.2.1 p.2.2).toQuadratic ∧ p.2.2 - p.2.1 = step ∧ 0 ≤ p.2.1 ∧ p.2.2 ≤ 1

theorem quads_loop_uniform (c : Cubic K) (step : K) (hs : 0 ≤ step) (k : Nat) (t0 : K) (h0 : 0 ≤ t0)
    (hinv : t0 + ((k : K) + 1) * step = 1) :
    (∀ p ∈ c.quadsLoop step k t0, PieceOK c step p)
    ∧ (∀ t, t0 ≤ t → t ≤ 1 → ∃ p ∈ c.quadsLoop step k t0, p.2.1 ≤ t ∧ t ≤ p.2.2) := by
  have o : (one : K) = 1 := sc_one
  induction k generalizing t0 with
  | zero =>
    simp only [Nat.cast_zero, zero_add, one_mul] at hinv
    refine ⟨?_, ?_⟩
    · intro p hp
      simp only [Cubic.quadsLoop, List.mem_singleton] at hp
      subst hp
      exact ⟨rfl, by simp only [o]; linarith, h0, by simp [o]⟩
    · intro t ht0 ht1
      exact ⟨_, List.mem_singleton.mpr rfl, ht0, by simpa [o] using ht1⟩
  | succ k ih =>
    have hinv' : (t0 + step) + ((k : K) + 1) * step = 1 := by push_cast at hinv; linarith
    have hk : 0 ≤ ((k : K) + 1) * step := mul_nonneg (by positivity) hs
    obtain ⟨ih1, ih2⟩ := ih (t0 + step) (by linarith) hinv'
    refine ⟨?_, ?_⟩
    · intro p hp
      simp only [Cubic.quadsLoop, List.mem_cons] at hp
      rcases hp with rfl | hp
      · exact ⟨rfl, by ring, h0, by linarith⟩
      · exact ih1 p hp
    · intro t ht0 ht1
      rcases le_or_gt t (t0 + step) with hle | hgt
      · exact ⟨_, by simp only [Cubic.quadsLoop]; exact List.mem_cons_self, ht0, hle⟩
      · obtain ⟨p, hp, h3, h4⟩ := ih2 t (le_of_lt hgt) ht1
        exact ⟨p, by simp only [Cubic.quadsLoop]; exact List.mem_cons_of_mem _ hp, h3, h4⟩

/-- `rerange` keeps every segment's end points -/
theorem rerange_mem (r0 len : K) (lastQuad : Bool) (l : List (FlatSeg K)) (tFrom : K) :
    ∀ sg ∈ l, ∃ sg2 ∈ (Cubic.rerange r0 len lastQuad l tFrom).1, sg2.a = sg.a ∧ sg2.b = sg.b := by
  induction l generalizing tFrom with
  | nil => intro sg h; cases h
  | cons s l ih =>
    intro sg hsg
    rcases List.mem_cons.mp hsg with rfl | hsg
    · simp only [Cubic.rerange]
      exact ⟨_, List.mem_cons_self, rfl, rfl⟩
    · obtain ⟨sg2, h2, h3⟩ := ih _ sg hsg
      exact ⟨sg2, by simp only [Cubic.rerange]; exact List.mem_cons_of_mem _ h2, h3⟩

/-- every piece of a successfully flattened cubic (`for_each_flattened_with_t`) was flattened, and
each of its segments appears with the same end points in the result -/
theorem flatQuadsT_mem (tol : K) (qs : List (Quad K × K × K)) (tFrom : K) (l : List (FlatSeg K))
    (h : Cubic.flatQuadsT tol qs tFrom = some l) :
    ∀ p ∈ qs, ∃ lq, p.1.forEachFlattenedWithT tol = some lq
      ∧ ∀ sg ∈ lq, ∃ sg2 ∈ l, sg2.a = sg.a ∧ sg2.b = sg.b := by
  induction qs generalizing tFrom l with
  | nil => intro p hp; cases hp
  | cons x rest ih =>
    obtain ⟨q, r0, r1⟩ := x
    obtain ⟨lq, lr, hf, hr, rfl⟩ := flatQuadsT_cons tol q r0 r1 rest tFrom l h
    intro p hp
    rcases List.mem_cons.mp hp with rfl | hp
    · refine ⟨lq, hf, ?_⟩
      intro sg hsg
      obtain ⟨sg2, h2, h3⟩ := rerange_mem r0 (r1 - r0) (r1 == one) lq tFrom sg hsg
      exact ⟨sg2, List.mem_append_left _ h2, h3⟩
    · obtain ⟨lq2, h1, h2⟩ := ih _ lr hr p hp
      refine ⟨lq2, h1, ?_⟩
      intro sg hsg
      obtain ⟨sg2, h3, h4⟩ := h2 sg hsg
      exact ⟨sg2, List.mem_append_right _ h3, h4⟩

/-- the same for `for_each_flattened` (no re-ranging: the segments themselves appear) -/
theorem flatQuads_mem (tol : K) (qs : List (Quad K × K × K)) (l : List (FlatSeg K))
    (h : Cubic.flatQuads tol qs = some l) :
    ∀ p ∈ qs, ∃ lq, p.1.forEachFlattenedWithT tol = some lq ∧ ∀ sg ∈ lq, sg ∈ l := by
  induction qs generalizing l with
  | nil => intro p hp; cases hp
  | cons x rest ih =>
    obtain ⟨q, r0, r1⟩ := x
    unfold Cubic.flatQuads at h
    cases hq : q.forEachFlattenedWithT tol with
    | none => simp [hq] at h
    | some lq =>
      cases hr : Cubic.flatQuads tol rest with
      | none => simp [hq, hr] at h
      | some lr =>
        simp only [hq, hr, Option.some.injEq] at h
        subst h
        intro p hp
        rcases List.mem_cons.mp hp with rfl | hp
        · exact ⟨lq, hq, fun sg hsg => List.mem_append_left _ hsg⟩
        · obtain ⟨lq2, h1, h2⟩ := ih lr hr p hp
          exact ⟨lq2, h1, fun sg hsg => List.mem_append_right _ (h2 sg hsg)⟩

end loops

end Lyon.Flat
