/-
  C16 with the concrete flatteners, callback side (`Model/Path/AdaptersConcrete.lean`):
  `cbModel tol` = `for_each_flattened_with_t` of lyon_geom's quadratic / cubic segments
  (`Model/Geom/Flatten.lean`), as `builder::Flattened` and `for_each_flattened` use it.

  From C09's structure theorems: whenever lyon_geom does not panic the callbacks are a chain
  from `from` whose last one is `(to, t = 1)`
    * quadratic: for EVERY scalar type (`quad_flat_connected`, `quad_flat_ranges`);
    * cubic: over ordered fields (`cubic_flat_connected`: uses `sample 1 = to`).
  `cbTot` makes the flattener total so that C16's hypotheses (`EndsAtTo`, `ChainedToEnd`), which
  quantify over all curves, hold; `flatRun_cbTot` / `flatAttrIter_cbTot`: an adapter whose curves
  are all fine does not see the difference.
-/
import LyonVerif.Model.Path.AdaptersConcrete
import LyonVerif.Lemmas.Adapters
import LyonVerif.Lemmas.AdaptersField
import LyonVerif.Lemmas.Flatten
import LyonVerif.Props.C09

set_option linter.unusedSectionVars false
set_option linter.unusedVariables false

namespace Lyon.Adapt
open Lyon Lyon.Path Scalar Lyon.Flat

section any
variable {α : Type} [Scalar α] [Transc α] [FlatConst α]

theorem snoc_of_ne_nil (p : P α) (t : α) (l : List (FlatSeg α)) (h : l ≠ []) :
    ∃ l' x, l = l' ++ [x] ∧ lastPt p l = x.b ∧ lastT t l = x.t1 := by
  induction l generalizing p t with
  | nil => exact absurd rfl h
  | cons s r ih =>
    cases r with
    | nil => exact ⟨[], s, rfl, rfl, rfl⟩
    | cons s' r' =>
      obtain ⟨l', x, h1, h2, h3⟩ := ih s.b s.t1 (by simp)
      exact ⟨s :: l', x, by rw [h1]; rfl, by simpa [lastPt] using h2, by simpa [lastT] using h3⟩

/-- the callbacks of a quadratic's `for_each_flattened_with_t` end with `(to, 1)` — every scalar
type, every tolerance, every count (C09 `quad_flat_connected` + `quad_flat_ranges`) -/
theorem cbModel_quad_ends (tol : α) (a c b : P α) (h : cbOkQuad tol a c b = true) :
    ∃ l x, (cbModel tol).quad a c b = l ++ [⟨x, b, one⟩] := by
  simp only [cbOkQuad, Option.isSome_iff_exists] at h
  obtain ⟨l0, hl0⟩ := h
  obtain ⟨hne, _, hlast⟩ := C09.quad_flat_connected ⟨a, c, b⟩ tol l0 hl0
  obtain ⟨_, ht⟩ := C09.quad_flat_ranges ⟨a, c, b⟩ tol l0 hl0
  obtain ⟨l', x, rfl, hx, hxt⟩ := snoc_of_ne_nil a zero l0 hne
  refine ⟨l'.map segOf, x.a, ?_⟩
  simp only [cbModel, hl0, Option.getD_some, List.map_append, List.map_cons, List.map_nil, segOf]
  rw [← hx, ← hxt, hlast, ht]

/-! ### generic-scalar core of the endpoint theorem -/

variable {π : Type}

theorem emitAttr_one_any (hone : ((one : α) == one) = true) (prev a : List α) :
    emitAttr prev a one = a := by
  simp [emitAttr, hone]

/-- `keeps_run` of `Props/C16.lean` for an arbitrary scalar type (the attributes of the last
emitted point are the call's own because `t.end == 1.0` holds there) -/
theorem keeps_run_any (hone : ((one : α) == one) = true) (F : Flattener π α)
    (hq : ∀ a c b, ∃ l x, F.quad a c b = l ++ [⟨x, b, one⟩])
    (hc : ∀ a c d b, ∃ l x, F.cubic a c d b = l ++ [⟨x, b, one⟩])
    (s : FlatB π α) (prog : List (Call π (List α))) :
    List.Sublist (endpoints prog) (endpoints (FlatB.run F s prog)) := by
  induction prog generalizing s with
  | nil => simp [endpoints, FlatB.run]
  | cons c r ih =>
    cases c with
    | begin p a => simpa [endpoints, FlatB.run, FlatB.step] using ih _
    | line p a => simpa [endpoints, FlatB.run, FlatB.step] using ih _
    | end_ cl => simpa [endpoints, FlatB.run, FlatB.step] using ih _
    | quad k p a =>
      obtain ⟨l, x, hl⟩ := hq s.cur k p
      simp only [endpoints, FlatB.run, FlatB.step, hl, endpoints_append, endpoints_emitLines_snoc,
        emitAttr_one_any hone]
      exact List.Sublist.append (List.sublist_append_right _ [(p, a)]) (ih _)
    | cubic k1 k2 p a =>
      obtain ⟨l, x, hl⟩ := hc s.cur k1 k2 p
      simp only [endpoints, FlatB.run, FlatB.step, hl, endpoints_append, endpoints_emitLines_snoc,
        emitAttr_one_any hone]
      exact List.Sublist.append (List.sublist_append_right _ [(p, a)]) (ih _)

/-- no `cubic_bezier_to` in the program -/
def noCubic {A : Type} : List (Call π A) → Bool
  | [] => true
  | .cubic .. :: _ => false
  | _ :: r => noCubic r

/-- the callback flattener made total: `cbModel` where lyon_geom does not panic, the single
callback `(from → to, 1)` elsewhere -/
def cbTot (tol : α) : Flattener (P α) α where
  quad a c b := if cbOkQuad tol a c b then (cbModel tol).quad a c b else [⟨a, b, one⟩]
  cubic a c1 c2 b := if cbOkCubic tol a c1 c2 b then (cbModel tol).cubic a c1 c2 b else [⟨a, b, one⟩]

/-- … and with a trivial cubic part (for statements about cubic-free programs over scalar types
where the cubic callback flattener's last point is not known to be `to`) -/
def cbTotQ (tol : α) : Flattener (P α) α where
  quad := (cbTot tol).quad
  cubic a _ _ b := [⟨a, b, one⟩]

theorem cbTot_quad_ends (tol : α) (a c b : P α) :
    ∃ l x, (cbTot tol).quad a c b = l ++ [⟨x, b, one⟩] := by
  by_cases h : cbOkQuad tol a c b = true
  · simpa [cbTot, h] using cbModel_quad_ends tol a c b h
  · exact ⟨[], a, by simp [cbTot, h]⟩

/-- an adapter whose curves are all flattened without a panic does not see the difference
between `cbModel` and `cbTot` -/
theorem flatRun_cbTot (tol : α) (s : FlatB (P α) α) (prog : List (Call (P α) (List α)))
    (h : cbOkRun tol s.cur prog = true) :
    FlatB.run (cbModel tol) s prog = FlatB.run (cbTot tol) s prog := by
  induction prog generalizing s with
  | nil => rfl
  | cons c r ih =>
    cases c with
    | begin p a => simp only [cbOkRun] at h; simp only [FlatB.run, FlatB.step]; rw [ih ⟨p, a⟩ h]
    | line p a => simp only [cbOkRun] at h; simp only [FlatB.run, FlatB.step]; rw [ih ⟨p, a⟩ h]
    | end_ cl => simp only [cbOkRun] at h; simp only [FlatB.run, FlatB.step]; rw [ih s h]
    | quad k p a =>
      simp only [cbOkRun, Bool.and_eq_true] at h
      simp only [FlatB.run, FlatB.step]
      rw [ih ⟨p, a⟩ h.2]
      simp [cbTot, h.1]
    | cubic k1 k2 p a =>
      simp only [cbOkRun, Bool.and_eq_true] at h
      simp only [FlatB.run, FlatB.step]
      rw [ih ⟨p, a⟩ h.2]
      simp [cbTot, h.1]

theorem flatRun_cbTotQ (tol : α) (s : FlatB (P α) α) (prog : List (Call (P α) (List α)))
    (h : cbOkRun tol s.cur prog = true) (hnc : noCubic prog = true) :
    FlatB.run (cbModel tol) s prog = FlatB.run (cbTotQ tol) s prog := by
  induction prog generalizing s with
  | nil => rfl
  | cons c r ih =>
    cases c with
    | begin p a =>
      simp only [cbOkRun] at h; simp only [noCubic] at hnc
      simp only [FlatB.run, FlatB.step]; rw [ih ⟨p, a⟩ h hnc]
    | line p a =>
      simp only [cbOkRun] at h; simp only [noCubic] at hnc
      simp only [FlatB.run, FlatB.step]; rw [ih ⟨p, a⟩ h hnc]
    | end_ cl =>
      simp only [cbOkRun] at h; simp only [noCubic] at hnc
      simp only [FlatB.run, FlatB.step]; rw [ih s h hnc]
    | quad k p a =>
      simp only [cbOkRun, Bool.and_eq_true] at h; simp only [noCubic] at hnc
      simp only [FlatB.run, FlatB.step]
      rw [ih ⟨p, a⟩ h.2 hnc]
      simp [cbTotQ, cbTot, h.1]
    | cubic k1 k2 p a => simp [noCubic] at hnc

theorem flatAttrIter_cbTot (tol : α) (aevs : List (Event (AP (P α) α)))
    (h : cbOkEvents tol aevs = true) :
    flatAttrIter (cbModel tol) aevs = flatAttrIter (cbTot tol) aevs := by
  induction aevs with
  | nil => rfl
  | cons e r ih =>
    cases e with
    | begin p => simp only [cbOkEvents] at h; simp [flatAttrIter, ih h]
    | line a b => simp only [cbOkEvents] at h; simp [flatAttrIter, ih h]
    | end_ l f cl => simp only [cbOkEvents] at h; simp [flatAttrIter, ih h]
    | quad a c b =>
      simp only [cbOkEvents, Bool.and_eq_true] at h
      simp [flatAttrIter, ih h.2, cbTot, h.1]
    | cubic a c d b =>
      simp only [cbOkEvents, Bool.and_eq_true] at h
      simp [flatAttrIter, ih h.2, cbTot, h.1]

/-- for a well-nested program the curves `for_each_flattened` meets on the stored path are the
curves the builder-side adapter met while the path was built -/
theorem cbOkEvents_of_run (tol : α) (st : Option (AP (P α) α × AP (P α) α)) (cur : P α)
    (prog : List (Call (P α) (List α))) (hn : wellNestedFrom st.isSome prog = true)
    (hs : ∀ f c, st = some (f, c) → cur = c.1) (h : cbOkRun tol cur prog = true) :
    cbOkEvents tol (specFrom st (prog.map aCall)) = true := by
  induction prog generalizing st cur with
  | nil => cases st <;> simp [specFrom, cbOkEvents]
  | cons c r ih =>
    cases st with
    | none =>
      cases c with
      | begin p a =>
        simp only [cbOkRun] at h
        have := ih (some ((p, a), (p, a))) p (by simpa [wellNestedFrom] using hn)
          (by intro f c h; cases h; rfl) h
        simpa [specFrom, aCall, cbOkEvents] using this
      | line p a => simp [wellNestedFrom] at hn
      | quad k p a => simp [wellNestedFrom] at hn
      | cubic k1 k2 p a => simp [wellNestedFrom] at hn
      | end_ cl => simp [wellNestedFrom] at hn
    | some fc =>
      obtain ⟨f, c0⟩ := fc
      have hcur : cur = c0.1 := hs f c0 rfl
      cases c with
      | begin p a => simp [wellNestedFrom] at hn
      | line p a =>
        simp only [cbOkRun] at h
        have := ih (some (f, (p, a))) p (by simpa [wellNestedFrom] using hn)
          (by intro f c h; cases h; rfl) h
        simpa [specFrom, aCall, cbOkEvents] using this
      | quad k p a =>
        simp only [cbOkRun, Bool.and_eq_true] at h
        have := ih (some (f, (p, a))) p (by simpa [wellNestedFrom] using hn)
          (by intro f c h; cases h; rfl) h.2
        simp only [List.map_cons, aCall, specFrom, cbOkEvents, Bool.and_eq_true]
        exact ⟨by rw [← hcur]; exact h.1, this⟩
      | cubic k1 k2 p a =>
        simp only [cbOkRun, Bool.and_eq_true] at h
        have := ih (some (f, (p, a))) p (by simpa [wellNestedFrom] using hn)
          (by intro f c h; cases h; rfl) h.2
        simp only [List.map_cons, aCall, specFrom, cbOkEvents, Bool.and_eq_true]
        exact ⟨by rw [← hcur]; exact h.1, this⟩
      | end_ cl =>
        simp only [cbOkRun] at h
        have := ih none cur (by simpa [wellNestedFrom] using hn) (by intro f c h; cases h) h
        simpa [specFrom, aCall, cbOkEvents] using this

end any

/-! ## Ordered fields: the cubic callback flattener, chains -/

section field
variable {K : Type} [Field K] [LinearOrder K] [IsStrictOrderedRing K] [Transc K] [FlatConst K]

/-- the callbacks of a cubic's `for_each_flattened_with_t` end with `(to, 1)`
(C09 `cubic_flat_connected`) -/
theorem cbModel_cubic_ends (tol : K) (a c1 c2 b : P K) (h : cbOkCubic tol a c1 c2 b = true) :
    ∃ l x, (cbModel tol).cubic a c1 c2 b = l ++ [⟨x, b, 1⟩] := by
  simp only [cbOkCubic, Option.isSome_iff_exists] at h
  obtain ⟨l0, hl0⟩ := h
  obtain ⟨hne, _, hlast, ht⟩ := C09.cubic_flat_connected ⟨a, c1, c2, b⟩ tol l0 hl0
  obtain ⟨l', x, rfl, hx, hxt⟩ := snoc_of_ne_nil a (0 : K) l0 hne
  refine ⟨l'.map segOf, x.a, ?_⟩
  simp only [cbModel, hl0, Option.getD_some, List.map_append, List.map_cons, List.map_nil, segOf]
  rw [← hx, ← hxt, hlast, ht]

theorem cbTot_cubic_ends (tol : K) (a c1 c2 b : P K) :
    ∃ l x, (cbTot tol).cubic a c1 c2 b = l ++ [⟨x, b, 1⟩] := by
  by_cases h : cbOkCubic tol a c1 c2 b = true
  · simpa [cbTot, h] using cbModel_cubic_ends tol a c1 c2 b h
  · exact ⟨[], a, by simp [cbTot, h]⟩

theorem cbTot_quad_ends_field (tol : K) (a c b : P K) :
    ∃ l x, (cbTot tol).quad a c b = l ++ [⟨x, b, 1⟩] := by
  obtain ⟨l, x, h⟩ := cbTot_quad_ends tol a c b
  exact ⟨l, x, by rw [h, show (one : K) = 1 from sc_one]⟩

theorem chained_of_chain (a : P K) (t : K) (l : List (FlatSeg K)) (h : Chain a t l) :
    Chained a (l.map segOf) := by
  induction l generalizing a t with
  | nil => trivial
  | cons s r ih => exact ⟨h.1, ih s.b s.t1 h.2.2⟩

theorem cbTot_quad_chained (tol : K) (a c b : P K) : Chained a ((cbTot tol).quad a c b) := by
  by_cases h : cbOkQuad tol a c b = true
  · simp only [cbTot, h, if_true]
    simp only [cbOkQuad, Option.isSome_iff_exists] at h
    obtain ⟨l0, hl0⟩ := h
    simp only [cbModel, hl0, Option.getD_some]
    exact chained_of_chain a _ l0 (C09.quad_flat_connected ⟨a, c, b⟩ tol l0 hl0).2.1
  · simp only [cbTot, h]
    exact ⟨rfl, trivial⟩

theorem cbTot_cubic_chained (tol : K) (a c1 c2 b : P K) :
    Chained a ((cbTot tol).cubic a c1 c2 b) := by
  by_cases h : cbOkCubic tol a c1 c2 b = true
  · simp only [cbTot, h, if_true]
    simp only [cbOkCubic, Option.isSome_iff_exists] at h
    obtain ⟨l0, hl0⟩ := h
    simp only [cbModel, hl0, Option.getD_some]
    exact chained_of_chain a _ l0 (C09.cubic_flat_connected ⟨a, c1, c2, b⟩ tol l0 hl0).2.1
  · simp only [cbTot, h]
    exact ⟨rfl, trivial⟩

end field

end Lyon.Adapt
