/-
  Index validity for the complete stroker model `Lyon.Stroke.Full`, part 3: the two step functions
  `fixed_width_step_impl` (`fwStep`) and `step_impl` (`vwStep`) keep the window invariant and emit
  only valid triangles (`StepRes`).
-/
import LyonVerif.Lemmas.StrokeIdxInv

set_option linter.unusedSectionVars false
set_option linter.unusedVariables false

namespace Lyon.C05c
open Lyon Scalar Lyon.Stroke Lyon.Stroke.Full Lyon.C05 Lyon.C05b

section
variable {α : Type} [Scalar α] [Transc α]

/-! ## frame lemmas: what the geometry functions leave alone -/

theorem joinSidesFw_upd (ix : Lyon.StrokeQuad.Ix α) (prev join next : EP α) (ml vhw : α) :
    Upd join (joinSidesFw ix prev join next ml vhw) := by
  unfold joinSidesFw
  simp only []
  split_ifs <;> exact ⟨rfl, rfl, rfl, rfl, Or.inl rfl⟩

theorem firstEdgeSetup_spec (first next : EP α) :
    Upd first (firstEdgeSetup first next).1 ∧ (firstEdgeSetup first next).1.ids = first.ids
    ∧ Upd next (firstEdgeSetup first next).2 ∧ (firstEdgeSetup first next).2.ids = next.ids :=
  ⟨⟨rfl, rfl, rfl, rfl, Or.inl rfl⟩, rfl, ⟨rfl, rfl, rfl, rfl, Or.inl rfl⟩, rfl⟩

theorem edgeAttach_spec [Asin α] (p0 p1 : EP α) :
    Upd p0 (edgeAttach p0 p1).1 ∧ (edgeAttach p0 p1).1.ids = p0.ids
    ∧ Upd p1 (edgeAttach p0 p1).2 ∧ (edgeAttach p0 p1).2.ids = p1.ids :=
  ⟨⟨rfl, rfl, rfl, rfl, Or.inl rfl⟩, rfl, ⟨rfl, rfl, rfl, rfl, Or.inl rfl⟩, rfl⟩

theorem joinSideVw_upd (ix : Lyon.StrokeQuad.Ix α) (prev join next : EP α) (ml : α) (isNeg : Bool) :
    Upd join (joinSideVw ix prev join next ml isNeg) := by
  unfold joinSideVw
  simp only []
  cases isNeg <;> simp only [EP.setFold, EP.setSide, EP.side, EP.fold] <;>
    split_ifs <;> exact ⟨rfl, rfl, rfl, rfl, Or.inl rfl⟩

theorem joinSidesVw_upd (ix : Lyon.StrokeQuad.Ix α) (prev join next : EP α) (ml : α) :
    Upd join (joinSidesVw ix prev join next ml) := by
  have h1 := joinSideVw_upd ix prev join next ml false
  have h2 := joinSideVw_upd ix prev (joinSideVw ix prev join next ml false) next ml true
  have h12 := h1.trans h2
  unfold joinSidesVw
  simp only []
  split_ifs <;> exact ⟨h12.pos, h12.src, h12.hw, h12.flat, h12.lj⟩

theorem joinInterior_none (i : JoinIds) : joinInterior i false false = [] := by
  unfold joinInterior; split_ifs <;> rfl

theorem tooClose_eq {st : St α} {l : EP α} (h : st.buf.last = some l) (thr : α) (p : P α) :
    st.tooClose thr p = pointsAreTooClose thr l.position p := by
  simp [St.tooClose, h]

theorem tooClose_none {st : St α} (h : st.buf.last = none) (thr : α) (p : P α) :
    st.tooClose thr p = false := by
  simp [St.tooClose, h]

theorem fastPath_dot {prev join next : EP α} (h : fastPath prev join next = true) :
    (join.position - prev.position).dot (next.position - join.position) > zero := by
  unfold fastPath at h
  simp only [Bool.and_eq_true, decide_eq_true_eq] at h
  exact h.2

theorem fastPath_flat {prev join next : EP α} (h : fastPath prev join next = true) : join.isFlat = true := by
  unfold fastPath at h
  simp only [Bool.and_eq_true] at h
  exact h.1

/-- `SkipApart` gives the variable-width clause of `Reg` -/
theorem skipApart_vw {thr : α} (h : SkipApart thr) (prev join next : EP α)
    (hfp : fastPath prev join next = true)
    (t1 : pointsAreTooClose thr prev.position join.position = false)
    (t2 : pointsAreTooClose thr join.position next.position = false) :
    pointsAreTooClose thr prev.position next.position = false :=
  h _ _ _ t1 t2 (fastPath_dot hfp)

/-! ## what a step function has to deliver -/

/-- the result `r` of a step function called in state `st` with the point `next` -/
structure StepRes (thr : α) (c : Cls α) (G : P α → P α → P α → Prop) (st : St α) (next : EP α)
    (r : St α × Bool) : Prop where
  inv : Inv thr c G r.1
  steps : VSteps c.C st.out r.1.out
  merged : r.2 = false → r.1.buf = st.buf ∧ r.1.firsts = st.firsts ∧ r.1.out = st.out
    ∧ st.tooClose thr next.position = true
  added : r.2 = true → st.tooClose thr next.position = false
    ∧ (∃ n', r.1.buf.last = some n' ∧ Upd next n' ∧ n'.ids = next.ids)
    ∧ (3 ≤ st.buf.count → r.1.buf.count = 3 ∧ r.1.firsts = st.firsts)

/-- a step function keeps the invariant: `next` is a fresh point (`Raw`), or — in `close`, window
full — a point that has been a join before -/
def StepSpec (thr : α) (c : Cls α) (G : P α → P α → P α → Prop) (step : StepFn α) : Prop :=
  ∀ (st : St α) (next : EP α), Inv thr c G st → c.F next →
    (Raw next.ids ∨ (3 ≤ st.buf.count ∧ Good st.out.nextId next.ids)) →
    StepRes thr c G st next (step st next)

variable {c : Cls α} {G : P α → P α → P α → Prop}

/-- the state after a committed join, before the new point is pushed -/
def commitSt (st : St α) (prev j' : EP α) (o' : Out α) : St α :=
  { st.setLast j' with out := o', firsts := if st.buf.count == 2 then [prev, j'] else st.firsts }

/-! ## the join part of the fixed-width step -/

theorem fwJoin_spec {e : Env α} (hreg : Reg e c G) (hfw : e.o.varWidth = false)
    {st : St α} {prev join : EP α} (next : EP α)
    (hI : Inv e.thr c G st) (hxy : st.buf.lastTwo = some (prev, join)) :
    ∃ j' n' o', fwJoin e st prev join next = (commitSt st prev j' o', n')
      ∧ Upd join j' ∧ GE G j' ∧ Good o'.nextId j'.ids ∧ VSteps c.C st.out o'
      ∧ Upd next n' ∧ n'.ids = next.ids := by
  have hFj : c.F join := hI.cls1 _ (hI.wf.lastTwo_last _ _ hxy)
  have hprev : st.buf.count > 2 → Good st.out.nextId prev.ids := fun h => (hI.three (by omega) _ _ hxy).1
  by_cases hfp : fastPath prev join next = true
  · -- a flattening step that is not a sharp turn
    have hns := hreg.noskip hfw prev join next (baseVertex join.src join.position join.halfWidth nan) st.out
      (hI.geo _ _ hxy) hFj hfp
    obtain ⟨uj, un, idn, np, nn, _, hgood⟩ := flattenedStep_spec (C := c.C) prev { join with lineJoin := .miter } next
      (baseVertex join.src join.position join.halfWidth nan) st.out hFj.1
    obtain ⟨s1, g1⟩ := hgood hns
    refine ⟨_, _, _, by unfold fwJoin; simp only []; rw [if_pos hfp]; rfl, ?_, hreg.flat _ _ _ _ _, ?_, ?_, un, idn⟩
    · exact Upd.trans (⟨rfl, rfl, rfl, rfl, Or.inr rfl⟩ : Upd join { join with lineJoin := .miter }) uj
    · exact g1.mono (VSteps.next_le (edgeAndJoin_vsteps (C := c.C) _ _ _ _ _ _ hFj.1
        (fun h => ((hprev h).mono s1.next_le).out0) g1
        (by rw [np, nn, joinInterior_none]; simp) (by rw [np]; simp) (by rw [nn]; simp)))
    · exact s1.trans (edgeAndJoin_vsteps (C := c.C) _ _ _ _ _ _ hFj.1
        (fun h => ((hprev h).mono s1.next_le).out0) g1
        (by rw [np, nn, joinInterior_none]; simp) (by rw [np]; simp) (by rw [nn]; simp))
  · -- an ordinary join
    have u1 := joinSidesFw_upd e.ix prev join next e.o.miterLimit join.halfWidth
    have g1 := hreg.joinFw prev join next join.halfWidth hFj
    generalize hj1 : joinSidesFw e.ix prev join next e.o.miterLimit join.halfWidth = j1 at u1 g1
    have hdd : ∃ dd : VData α, dd = { baseVertex join.src join.position join.halfWidth nan with
        advancement := j1.advancement } ∧ c.C dd.src dd.halfWidth := ⟨_, rfl, hFj.1⟩
    obtain ⟨dd, edd, hC⟩ := hdd
    obtain ⟨s1, gd, u2, e1, e2, hint, hp, hn⟩ := baseVertices_spec (C := c.C) j1 dd st.out hC
    refine ⟨(baseVertices j1 dd st.out).1, next,
      edgeAndJoin e.o.tolerance st.buf.count prev (baseVertices j1 dd st.out).1 dd (baseVertices j1 dd st.out).2,
      ?_, u1.trans u2, ?_, ?_, ?_, Upd.refl _, rfl⟩
    · unfold fwJoin; simp only []; rw [if_neg hfp]
      show _ = _
      simp only [show (baseVertex join.src join.position join.halfWidth nan : VData α).halfWidth = join.halfWidth from rfl, hj1]
      rw [edd]; rfl
    · unfold GE at g1 ⊢; rw [u2.pos, e1, e2]; exact g1
    · exact gd.mono (VSteps.next_le (edgeAndJoin_vsteps (C := c.C) _ _ _ _ _ _ hC
        (fun h => ((hprev h).mono s1.next_le).out0) gd hint hp hn))
    · exact s1.trans (edgeAndJoin_vsteps (C := c.C) _ _ _ _ _ _ hC
        (fun h => ((hprev h).mono s1.next_le).out0) gd hint hp hn)

/-! ## `fixed_width_step_impl` -/

theorem fwStep_eq_join {e : Env α} {st : St α} {next prev join : EP α}
    (h1 : st.tooClose e.thr next.position = false) (h2 : st.buf.lastTwo = some (prev, join)) :
    fwStep e st next = ((fwJoin e st prev join next).1.push (fwJoin e st prev join next).2, true) := by
  unfold fwStep; rw [if_neg (by simp [h1])]; simp only [h2]

theorem fwStep_eq_first {e : Env α} {st : St α} {next first : EP α}
    (h1 : st.tooClose e.thr next.position = false) (h2 : st.buf.lastTwo = none) (h3 : st.buf.last = some first) :
    fwStep e st next = ((st.setLast (firstEdgeSetup first next).1).push (firstEdgeSetup first next).2, true) := by
  unfold fwStep; rw [if_neg (by simp [h1])]; simp only [h2, h3]

theorem fwStep_eq_zero {e : Env α} {st : St α} {next : EP α}
    (h1 : st.tooClose e.thr next.position = false) (h2 : st.buf.lastTwo = none) (h3 : st.buf.last = none) :
    fwStep e st next = (st.push next, true) := by
  unfold fwStep; rw [if_neg (by simp [h1])]; simp only [h2, h3]

/-- the part of both step functions that is not a join: merged / first point / second point -/
theorem step_merged {thr : α} {st : St α} (next : EP α) (b : Bool) (hI : Inv thr c G st)
    (hclose : st.tooClose thr next.position = true) :
    StepRes thr c G st next ({ st with mayNeedEmptyCap := b }, false) :=
  ⟨hI, VSteps.refl _, fun _ => ⟨rfl, rfl, rfl, hclose⟩, fun h => by simp at h⟩

theorem step_zero {thr : α} {st : St α} {next : EP α} (hI : Inv thr c G st) (hF : c.F next)
    (hn : Raw next.ids ∨ (3 ≤ st.buf.count ∧ Good st.out.nextId next.ids))
    (hclose : st.tooClose thr next.position = false) (h0 : st.buf.count = 0) :
    StepRes thr c G st next (st.push next, true) := by
  have hr : Raw next.ids := by
    rcases hn with hn | ⟨h3, _⟩
    · exact hn
    · omega
  obtain ⟨b', hb, hI', hc', hl'⟩ := InvC.push_first hI h0 hF hr
  have e : st.push next = { st with buf := b' } := by simp [St.push, hb]
  rw [e]
  exact ⟨hI', VSteps.refl _, fun h => by simp at h,
    fun _ => ⟨hclose, ⟨next, hl', Upd.refl _, rfl⟩, fun h3 => by omega⟩⟩

theorem step_second {thr : α} {st : St α} {next first first' next' : EP α} (hI : Inv thr c G st) (hF : c.F next)
    (hn : Raw next.ids ∨ (3 ≤ st.buf.count ∧ Good st.out.nextId next.ids))
    (hclose : st.tooClose thr next.position = false) (h1 : st.buf.count = 1) (hl : st.buf.last = some first)
    (u1 : Upd first first') (id1 : first'.ids = first.ids) (g1 : GE G first')
    (u2 : Upd next next') (id2 : next'.ids = next.ids) :
    StepRes thr c G st next ((st.setLast first').push next', true) := by
  have hr : Raw next.ids := by
    rcases hn with hn | ⟨h3, _⟩
    · exact hn
    · omega
  rw [tooClose_eq hl] at hclose
  obtain ⟨b1, b2, hb1, hb2, hI', hc', hl'⟩ := InvC.push_second hI h1 hl u1 id1 g1 hF hr u2 id2 hclose
  have e : (st.setLast first').push next' = { st with buf := b2 } := by simp [St.push, St.setLast, hb1, hb2]
  rw [e]
  exact ⟨hI', VSteps.refl _, fun h => by simp at h,
    fun _ => ⟨by rw [tooClose_eq hl]; exact hclose, ⟨next', hl', u2, id2⟩, fun h3 => by omega⟩⟩

/-- a committed join, as both step functions build it -/
theorem step_commit {thr : α} {st : St α} {prev join j' next n' : EP α} {o' : Out α}
    (hI : Inv thr c G st) (hF : c.F next)
    (hn : Raw next.ids ∨ (3 ≤ st.buf.count ∧ Good st.out.nextId next.ids))
    (hxy : st.buf.lastTwo = some (prev, join))
    (uj : Upd join j') (gj : GE G j') (hg : Good o'.nextId j'.ids) (hs : VSteps c.C st.out o')
    (un : Upd next n') (idn : n'.ids = next.ids) :
    Inv thr c G ((commitSt st prev j' o').push n')
    ∧ ((commitSt st prev j' o').push n').out = o'
    ∧ ((commitSt st prev j' o').push n').buf.last = some n'
    ∧ ((commitSt st prev j' o').push n').buf.count = 3
    ∧ (3 ≤ st.buf.count → ((commitSt st prev j' o').push n').firsts = st.firsts) := by
  obtain ⟨b1, b2, hb1, hb2, hI', hc', hl'⟩ := InvC.commit hI hxy hs.next_le uj gj hg hF hn un idn
  have e : ((commitSt st prev j' o').push n')
      = { st with buf := b2, out := o', firsts := if st.buf.count == 2 then [prev, j'] else st.firsts } := by
    simp [commitSt, St.push, St.setLast, hb1, hb2]
  rw [e]
  refine ⟨hI', rfl, hl', hc', fun h3 => ?_⟩
  have : (st.buf.count == 2) = false := by simp; omega
  simp [this]

theorem fwStep_spec {e : Env α} (hreg : Reg e c G) (hfw : e.o.varWidth = false) :
    StepSpec e.thr c G (fwStep e) := by
  intro st next hI hF hn
  by_cases hclose : st.tooClose e.thr next.position = true
  · have : fwStep e st next = ({ st with mayNeedEmptyCap := st.mayNeedEmptyCap || st.buf.count == 1 }, false) := by
      unfold fwStep; rw [if_pos hclose]
    rw [this]; exact step_merged next _ hI hclose
  have hclose' : st.tooClose e.thr next.position = false := by simpa using hclose
  by_cases hc2 : 2 ≤ st.buf.count
  · obtain ⟨prev, join, hxy⟩ := hI.wf.lastTwo_some hc2
    rw [fwStep_eq_join hclose' hxy]
    obtain ⟨j', n', o', ej, uj, gj, hg, hs, un, idn⟩ := fwJoin_spec hreg hfw next hI hxy
    rw [ej]
    obtain ⟨a1, a2, a3, a4, a5⟩ := step_commit hI hF hn hxy uj gj hg hs un idn
    exact ⟨a1, by rw [a2]; exact hs, fun h => by simp at h,
      fun _ => ⟨hclose', ⟨n', a3, un, idn⟩, fun h3 => ⟨a4, a5 h3⟩⟩⟩
  · have hlt : st.buf.lastTwo = none := lastTwo_none (by omega)
    by_cases hc1 : st.buf.count = 1
    · obtain ⟨first, hl⟩ := hI.wf.last_some (by omega)
      rw [fwStep_eq_first hclose' hlt hl]
      obtain ⟨u1, id1, u2, id2⟩ := firstEdgeSetup_spec first next
      exact step_second hI hF hn hclose' hc1 hl u1 id1 (hreg.first first next) u2 id2
    · rw [fwStep_eq_zero hclose' hlt (last_none (by omega))]
      exact step_zero hI hF hn hclose' (by omega)

end

/-! ## `step_impl` (variable line width) -/

section
variable {α : Type} [Scalar α] [Transc α] [Asin α] {c : Cls α} {G : P α → P α → P α → Prop}

/-- the join part of `step_impl`: either the join is skipped (the new point replaces the middle
point, no output), or it is committed as in the fixed-width case -/
theorem vwJoin_spec {e : Env α} (hreg : Reg e c G) (hvw : e.o.varWidth = true)
    {st : St α} {prev join : EP α} (next : EP α)
    (hI : Inv e.thr c G st) (hxy : st.buf.lastTwo = some (prev, join)) :
    (∃ n', vwJoin e st prev join next = st.setLast n' ∧ Upd next n' ∧ n'.ids = next.ids
        ∧ fastPath prev join next = true)
    ∨ (∃ j' n' o', vwJoin e st prev join next =
        (commitSt st prev j' o').push n'
      ∧ Upd join j' ∧ GE G j' ∧ Good o'.nextId j'.ids ∧ VSteps c.C st.out o'
      ∧ Upd next n' ∧ n'.ids = next.ids) := by
  have hFj : c.F join := hI.cls1 _ (hI.wf.lastTwo_last _ _ hxy)
  have hprev : st.buf.count > 2 → Good st.out.nextId prev.ids := fun h => (hI.three (by omega) _ _ hxy).1
  have hG : ∀ x : EP α, GE G x := fun x => (hreg.vw hvw).1 _ _ _
  by_cases hfp : fastPath prev join next = true
  · obtain ⟨uj, un, idn, np, nn, hskip, hgood⟩ := flattenedStep_spec (C := c.C) prev { join with lineJoin := .miter } next
      (baseVertex join.src join.position join.halfWidth join.advancement) st.out hFj.1
    by_cases hs : (flattenedStep prev { join with lineJoin := .miter } next
      (baseVertex join.src join.position join.halfWidth join.advancement) st.out).skip = true
    · left
      refine ⟨_, ?_, un, idn, hfp⟩
      unfold vwJoin; simp only []; rw [if_pos hfp, if_pos hs, hskip hs]
    · right
      have hs' : (flattenedStep prev { join with lineJoin := .miter } next
          (baseVertex join.src join.position join.halfWidth join.advancement) st.out).skip = false := by
        simpa using hs
      obtain ⟨s1, g1⟩ := hgood hs'
      refine ⟨_, _, _, by unfold vwJoin; simp only []; rw [if_pos hfp, if_neg hs]; rfl, ?_, hG _, ?_, ?_, un, idn⟩
      · exact Upd.trans (⟨rfl, rfl, rfl, rfl, Or.inr rfl⟩ : Upd join { join with lineJoin := .miter }) uj
      · exact g1.mono (VSteps.next_le (edgeAndJoin_vsteps (C := c.C) _ _ _ _ _ _ hFj.1
          (fun h => ((hprev h).mono s1.next_le).out0) g1
          (by rw [np, nn, joinInterior_none]; simp) (by rw [np]; simp) (by rw [nn]; simp)))
      · exact s1.trans (edgeAndJoin_vsteps (C := c.C) _ _ _ _ _ _ hFj.1
          (fun h => ((hprev h).mono s1.next_le).out0) g1
          (by rw [np, nn, joinInterior_none]; simp) (by rw [np]; simp) (by rw [nn]; simp))
  · right
    have u1 := joinSidesVw_upd e.ix prev join next e.o.miterLimit
    generalize hj1 : joinSidesVw e.ix prev join next e.o.miterLimit = j1 at u1
    have hdd : ∃ dd : VData α, dd = baseVertex join.src join.position join.halfWidth join.advancement
        ∧ c.C dd.src dd.halfWidth := ⟨_, rfl, hFj.1⟩
    obtain ⟨dd, edd, hC⟩ := hdd
    obtain ⟨s1, gd, u2, e1, e2, hint, hp, hn⟩ := baseVertices_spec (C := c.C) j1 dd st.out hC
    refine ⟨(baseVertices j1 dd st.out).1, next,
      edgeAndJoin e.o.tolerance st.buf.count prev (baseVertices j1 dd st.out).1 dd (baseVertices j1 dd st.out).2,
      ?_, u1.trans u2, hG _, ?_, ?_, Upd.refl _, rfl⟩
    · unfold vwJoin; simp only []; rw [if_neg hfp]
      show _ = _
      simp only [hj1]
      rw [edd]; rfl
    · exact gd.mono (VSteps.next_le (edgeAndJoin_vsteps (C := c.C) _ _ _ _ _ _ hC
        (fun h => ((hprev h).mono s1.next_le).out0) gd hint hp hn))
    · exact s1.trans (edgeAndJoin_vsteps (C := c.C) _ _ _ _ _ _ hC
        (fun h => ((hprev h).mono s1.next_le).out0) gd hint hp hn)

theorem vwStep_eq_zero {e : Env α} {st : St α} {next : EP α}
    (h1 : st.tooClose e.thr next.position = false) (h3 : st.buf.last = none) :
    vwStep e st next = (st.push next, true) := by
  unfold vwStep; simp only []; rw [if_neg (by simp [h1])]; simp only [h3]

theorem vwStep_eq_one {e : Env α} {st : St α} {next join0 : EP α}
    (h1 : st.tooClose e.thr next.position = false) (h3 : st.buf.last = some join0)
    (h2 : (st.setLast (edgeAttach join0 next).1).buf.lastTwo = none) :
    vwStep e st next = ((st.setLast (edgeAttach join0 next).1).push (edgeAttach join0 next).2, true) := by
  unfold vwStep; simp only []; rw [if_neg (by simp [h1])]; simp only [h3, h2]

theorem vwStep_eq_join {e : Env α} {st : St α} {next join0 prev join : EP α}
    (h1 : st.tooClose e.thr next.position = false) (h3 : st.buf.last = some join0)
    (h2 : (st.setLast (edgeAttach join0 next).1).buf.lastTwo = some (prev, join)) :
    vwStep e st next = (vwJoin e (st.setLast (edgeAttach join0 next).1) prev join (edgeAttach join0 next).2, true) := by
  unfold vwStep; simp only []; rw [if_neg (by simp [h1])]; simp only [h3, h2]

theorem vwStep_spec {e : Env α} (hreg : Reg e c G) (hvw : e.o.varWidth = true) :
    StepSpec e.thr c G (vwStep e) := by
  intro st next hI hF hn
  by_cases hclose : st.tooClose e.thr next.position = true
  · have : vwStep e st next = ({ st with mayNeedEmptyCap := st.mayNeedEmptyCap || st.buf.count == 1 }, false) := by
      unfold vwStep; simp only []; rw [if_pos hclose]
    rw [this]; exact step_merged next _ hI hclose
  have hclose' : st.tooClose e.thr next.position = false := by simpa using hclose
  have hG : ∀ x : EP α, GE G x := fun x => (hreg.vw hvw).1 _ _ _
  by_cases hc0 : st.buf.count = 0
  · rw [vwStep_eq_zero hclose' (last_none hc0)]
    exact step_zero hI hF hn hclose' hc0
  obtain ⟨join0, hl⟩ := hI.wf.last_some (by omega)
  obtain ⟨u1, id1, u2, id2⟩ := edgeAttach_spec join0 next
  generalize hj : (edgeAttach join0 next).1 = j0' at u1 id1
  generalize hnn : (edgeAttach join0 next).2 = n0' at u2 id2
  by_cases hc1 : st.buf.count = 1
  · have h2 : (st.setLast (edgeAttach join0 next).1).buf.lastTwo = none := by
      obtain ⟨b', hb, _, hc', _, _⟩ := InvC.setLast hI hl (Cls.F_upd (hI.cls1 _ hl) u1) id1 (fun _ => u1.pos)
      rw [hj]
      simp only [St.setLast, hb, Option.getD_some]
      exact lastTwo_none (by omega)
    rw [vwStep_eq_one hclose' hl h2, hj, hnn]
    exact step_second hI hF hn hclose' hc1 hl u1 id1 (hG _) u2 id2
  -- a join
  obtain ⟨prev, join, hxy⟩ := hI.wf.lastTwo_some (by omega)
  obtain ⟨b', hb, hI1, hc', hl1, hlt1⟩ := InvC.setLast hI hl (Cls.F_upd (hI.cls1 _ hl) u1) id1 (fun _ => u1.pos)
  have hst1 : st.setLast j0' = { st with buf := b' } := by simp [St.setLast, hb]
  have hjoin0 : join = join0 := by
    have := hI.wf.lastTwo_last _ _ hxy
    rw [hl] at this; simp only [Option.some.injEq] at this; exact this.symm
  subst hjoin0
  have hxy1 : ({ st with buf := b' } : St α).buf.lastTwo = some (prev, j0') := hlt1 _ _ hxy
  have hI1' : Inv e.thr c G ({ st with buf := b' } : St α) := hI1
  have h2 : (st.setLast (edgeAttach join next).1).buf.lastTwo = some (prev, j0') := by
    rw [hj, hst1]; exact hxy1
  rw [vwStep_eq_join hclose' hl h2, hj, hnn, hst1]
  have hFn : c.F n0' := Cls.F_upd hF u2
  have hn' : Raw n0'.ids ∨ (3 ≤ ({ st with buf := b' } : St α).buf.count
      ∧ Good ({ st with buf := b' } : St α).out.nextId n0'.ids) := by
    rw [id2]
    rcases hn with hn | ⟨h3, hg⟩
    · exact Or.inl hn
    · exact Or.inr ⟨by show 3 ≤ b'.count; omega, hg⟩
  rcases vwJoin_spec hreg hvw n0' hI1' hxy1 with ⟨n', ej, un, idn, hfp⟩ | ⟨j', n', o', ej, uj, gj, hg, hs, un, idn⟩
  · -- skipped join
    rw [ej]
    have hfar : b'.count = 2 → pointsAreTooClose e.thr prev.position n0'.position = false := by
      intro h2
      obtain ⟨_, _, t⟩ := hI1.two h2 _ _ hxy1
      have t2 : pointsAreTooClose e.thr j0'.position n0'.position = false := by
        rw [u1.pos, u2.pos, ← tooClose_eq hl]; exact hclose'
      exact (hreg.vw hvw).2 prev j0' n0' (hI1.cls1 _ hl1) hfp t t2
    obtain ⟨b1, hb1, hI2, hc2, hl2⟩ := InvC.skip hI1 hxy1 hFn hn' un idn hfar
    have e2 : ({ st with buf := b' } : St α).setLast n' = { st with buf := b1 } := by
      simp [St.setLast, hb1]
    rw [e2]
    exact ⟨hI2, VSteps.refl _, fun h => by simp at h,
      fun _ => ⟨hclose', ⟨n', hl2, u2.trans un, idn.trans id2⟩,
        fun h3 => ⟨by show b1.count = 3; have := hI.wf.count_le; omega, rfl⟩⟩⟩
  · rw [ej]
    obtain ⟨a1, a2, a3, a4, a5⟩ := step_commit hI1' hFn hn' hxy1 uj gj hg hs un idn
    exact ⟨a1, by rw [a2]; exact hs, fun h => by simp at h,
      fun _ => ⟨hclose', ⟨n', a3, u2.trans un, idn.trans id2⟩,
        fun h3 => ⟨a4, a5 (by show 3 ≤ b'.count; omega)⟩⟩⟩

/-- `step` / `fixed_width_step` by `options.variable_line_width` -/
theorem envStep_spec [FlatConst α] {e : Env α} (hreg : Reg e c G) : StepSpec e.thr c G e.step := by
  unfold Env.step
  cases h : e.o.varWidth
  · simpa using fwStep_spec hreg h
  · simpa using vwStep_spec hreg h

end

end Lyon.C05c
