/-
  C06d, part 1: the clipped front side points of a `LineJoin::MiterClip` join (`get_clip_intersections`), in
  vector form: the point the model puts on the side line `{m·perp(nt) + lam·nt}` lies on the clip line
  `{X : X·N = k·|N|}` (distance `k = miter_limit·w/2` from the join along the miter direction) at
  `lam·(N·nt) = k·|N| − m·(perp(nt)·N)`, squared distance `m² + lam²` from the join.
  (`Lemmas/StrokeIdxClipGeo.lean: clip_core` is the coordinate form.)
-/
import LyonVerif.Lemmas.StrokeIdxClipGeo

set_option linter.unusedSectionVars false
set_option linter.unusedVariables false

namespace Lyon.C06b
open Lyon Scalar Lyon.Stroke Lyon.Stroke.Full Lyon.C05 Lyon.C05b Lyon.C05c
open Lyon.StrokeQuad (Ix clipIntersections lineIntersection)

section
variable {K : Type} [Field K] [LinearOrder K] [IsStrictOrderedRing K] [Transc K]

theorem clip_point (eps : K) (heps : 0 ≤ eps) (a N nt : P K) (m k : K)
    (hunit : nt.sqLen = 1) (hm : m ≠ 0)
    (hL0 : 0 < Transc.sqrt N.sqLen) (hL : Transc.sqrt N.sqLen * Transc.sqrt N.sqLen = N.sqLen)
    (hdet : eps < |m * N.dot nt|) :
    ∃ lam : K,
      (clipIntersections (lineIntersection eps) a ((perp nt).smul m) N k).2 = (perp nt).smul m + nt.smul lam
      ∧ lam * N.dot nt = k * Transc.sqrt N.sqLen - m * (perp nt).dot N
      ∧ ((perp nt).smul m + nt.smul lam).dot N = k * Transc.sqrt N.sqLen
      ∧ ((perp nt).smul m + nt.smul lam).sqLen = m * m + lam * lam := by
  have hunit' : nt.x * nt.x + nt.y * nt.y = 1 := by simpa only [geom] using hunit
  have hdet' : eps < |m * (N.x * nt.x + N.y * nt.y)| := by simpa only [geom] using hdet
  obtain ⟨lam, h1, h2⟩ := clip_core eps heps a N nt m k hunit' hm hL0 hL hdet'
  have hb : ((perp nt).smul m : P K) = ⟨-(m * nt.y), m * nt.x⟩ := by
    apply P.ext' <;> simp only [perp, geom] <;> ring
  generalize Transc.sqrt N.sqLen = r at h2 ⊢
  refine ⟨lam, ?_, ?_, ?_, ?_⟩
  · rw [hb, h1]; apply P.ext' <;> simp only [geom] <;> ring
  · simp only [perp, geom]; linear_combination h2
  · simp only [perp, geom]; linear_combination h2
  · simp only [perp, geom]; linear_combination (m * m + lam * lam) * hunit'

end

end Lyon.C06b
