/-
  `ActiveSpan` + parameter range through `process_events` (every step of one event), continuation of
  `Lemmas/SweepSpan{,Ix,Scan}.lean`.
-/
import LyonVerif.Lemmas.SweepSpanIx
import LyonVerif.Lemmas.SweepSpanScan

set_option linter.unusedSectionVars false
set_option linter.unusedVariables false
set_option linter.unusedSimpArgs false
set_option mvcgen.warning false

namespace Lyon.SweepSpan
open Lyon Lyon.Scalar Lyon.Sweep Lyon.EQ Lyon.SweepPos Lyon.SweepIdx
open Std.Do

section field
variable {K : Type} [Field K] [LinearOrder K] [IsStrictOrderedRing K]
variable [w : Wide K]

theorem mark_invN (L : Array Nat) (b : Nat) : ⦃fun s => ⌜InvN L s⌝⦄ (mark b : SM K Unit) ⦃keepsN L⦄ := by
  unfold mark
  mvcgen
  all_goals exact (by assumption : InvN L _).1

theorem nm_of_scan {s : St K} {scan : Scan} (h : scanActiveEdges s = .ok scan) : NM s scan.edgesToSplit :=
  fun ei hm e he => SweepSpanScan.scan_nm h ei hm e he

set_option maxHeartbeats 1600000 in
/-- **one event keeps `ActiveSpan` and the parameter range**: scan, `process_edges_above` (with `split_edge`),
`process_edges_below` (with the split of `merge_coincident_edges`), `update_active_edges` (with
`handle_intersections`) - on success and on failure -/
theorem processEvents_inv {M : w.W → Prop} (hw : SweepRep.WClosure (α := K) U M) :
    ⦃fun s => ⌜Inv s⌝⦄ (processEvents : SM K (Option IErr)) ⦃keeps⦄ := by
  unfold processEvents
  strip_mdata
  have h2 := processEdgesAbove_inv (K := K)
  have h3 := processEdgesBelow_inv (K := K)
  have h4 := updateActiveEdges_inv (K := K) hw
  mvcgen [mark, h2, h3, h4]
  all_goals exact ⟨‹Inv _›, nm_of_scan ‹_›⟩

/-! ### `recover_from_error`: the active list is permuted -/

/-- what `ActiveSpan` and the parameter range say about one active edge, for the vertex `c` -/
def PA (c : P K) (e : ActiveEdge K) : Prop := SpanA c e ∧ U e.rangeEnd

def InvC (c : P K) (s : St K) : Prop := Inv s ∧ s.curPos = c

theorem InvC.pa {c : P K} {s : St K} (h : InvC c s) : ∀ e ∈ s.active, PA c e :=
  fun e he => ⟨h.2 ▸ h.1.1.1 e he, h.1.2.2.1 e he⟩

theorem InvC.setActive {c : P K} {s s' : St K} (h : InvC c s) {act : Array (ActiveEdge K)} (ha : ∀ e ∈ act, PA c e)
    (e1 : s'.active = act) (e2 : s'.q = s.q) (e3 : s'.below = s.below) (e4 : s'.curPos = s.curPos)
    (e5 : s'.out = s.out) : InvC c s' := by
  obtain ⟨⟨⟨_, hb⟩, hq, _, hub, ho⟩, hc⟩ := h
  refine ⟨⟨⟨?_, ?_⟩, ?_, ?_, ?_, ?_⟩, e4.trans hc⟩
  · rw [e1, e4, hc]; exact fun e he => (ha e he).1
  · rw [e3, e4]; exact hb
  · rw [e2]; exact hq
  · rw [e1]; exact fun e he => (ha e he).2
  · rw [e3]; exact hub
  · rw [e5]; exact ho

abbrev keepsC {β : Type} (c : P K) : PostCond β (.except Fail (.arg (St K) .pure)) :=
  post⟨fun _ s => ⌜InvC c s⌝, fun _ s => ⌜Inv s⌝⟩

open Lyon.SweepRep in
theorem sortActiveEdges_invC (c : P K) :
    ⦃fun s => ⌜InvC c s⌝⦄ (sortActiveEdges : SM K Unit) ⦃keepsC c⦄ := by
  unfold sortActiveEdges
  strip_mdata
  mvcgen [mark] invariants
  · post⟨fun _ s => ⌜InvC c s⌝, fun _ s => ⌜Inv s⌝⟩
  · post⟨fun r s => ⌜InvC c s ∧ ∀ e ∈ r.2, PA c e⌝, fun _ s => ⌜Inv s⌝⟩
  · post⟨fun r s => ⌜InvC c s ∧ ∀ e ∈ r.2.1, PA c e⌝, fun _ s => ⌜Inv s⌝⟩
  with skip
  case vc4 | vc5 => exact (by assumption : InvC c _).1
  case vc6 =>
    have h := ‹InvC c _ ∧ _›
    have hm := SweepIdx.mem_of_getElem? ‹_[_]? = some _›
    exact ⟨h.1, all_push h.2 _ (InvC.pa (by assumption) _ hm)⟩
  case vc8 => exact ⟨(by assumption : InvC c _), all_empty⟩
  case vc10 =>
    have h := ‹InvC c _ ∧ _›
    exact ⟨h.1.setActive h.1.pa rfl rfl rfl rfl rfl, swapBack_all' ‹swapBack _ _ _ _ _ = Except.ok _› h.2⟩
  case vc11 => exact (‹InvC c _ ∧ _›).1.1
  case vc15 | vc17 =>
    have h := ‹InvC c _ ∧ _›
    exact h.1.setActive h.2 rfl rfl rfl rfl rfl

open Lyon.SweepRep in
theorem recoverFromError_invC (c : P K) :
    ⦃fun s => ⌜InvC c s⌝⦄ (recoverFromError : SM K Unit) ⦃keeps⦄ := by
  unfold recoverFromError
  strip_mdata
  have h2 := sortActiveEdges_invC (K := K) c
  have h3 := beginSpan_inv (K := K)
  have h4 := emitTris_inv (K := K)
  mvcgen [mark, h2, h3, h4] invariants
  · post⟨fun _ s => ⌜Inv s⌝, fun _ s => ⌜Inv s⌝⟩
  · post⟨fun _ s => ⌜Inv s⌝, fun _ s => ⌜Inv s⌝⟩
  · post⟨fun _ s => ⌜Inv s⌝, fun _ s => ⌜Inv s⌝⟩
  · post⟨fun _ s => ⌜Inv s⌝, fun _ s => ⌜Inv s⌝⟩
  with skip
  case vc10 | vc28 =>
    have h := ‹InvC c _›
    suffices h' : InvC c _ from h'.1
    exact InvC.setActive h (swapLast_all _ _ h.pa) rfl rfl rfl rfl rfl

/-- **`recover_from_error` keeps `ActiveSpan` and the parameter range**: the active list is permuted, spans rebuilt -/
theorem recoverFromError_inv : ⦃fun s => ⌜Inv s⌝⦄ (recoverFromError : SM K Unit) ⦃keeps⦄ := by
  intro s hs
  exact recoverFromError_invC s.curPos s ⟨hs, rfl⟩

/-! ### `initialize_events`: the advance to the next vertex -/

/-- what the advance to the next vertex needs: the next vertex (the position of the current event of the queue)
is spanned by every active edge, and the edge records of its sibling events point down the sweep.  This is
where the ORDER of the index-linked event queue enters (not proved here) -/
def AdvOK (s : St K) : Prop :=
  (∀ e ∈ s.active, SpanA (s.q.position s.curEvent) e) ∧
  (∀ b ∈ s.below, (s.q.position s.curEvent).y ≤ b.to.y) ∧
  (∀ i ∈ s.q.siblings s.q.fuel s.curEvent, (s.q.ed i).isEdge = true → (s.q.position s.curEvent).y ≤ (s.q.ed i).to.y)

open Lyon.SweepRep in
theorem init_below_all (q : Queue K) (cur : P K) (Pb : PendingEdge K → Prop) (sibs : List Nat)
    (hs : ∀ i ∈ sibs, (q.ed i).isEdge = true →
      Pb ⟨(q.ed i).to, slope ((q.ed i).to - cur), i, (q.ed i).winding, (q.ed i).t1⟩) :
    ∀ (b : Array (PendingEdge K)), (∀ e ∈ b, Pb e) →
      ∀ e ∈ sibs.foldl (fun (b : Array (PendingEdge K)) i =>
        let e := q.ed i
        if e.isEdge then b.push ⟨e.to, slope (e.to - cur), i, e.winding, e.t1⟩ else b) b, Pb e := by
  induction sibs with
  | nil => intro b hb; exact hb
  | cons i l ih =>
    intro b hb
    simp only [List.foldl_cons]
    apply ih (fun j hj => hs j (List.mem_cons_of_mem _ hj))
    split
    · rename_i he
      exact all_push hb _ (hs i (List.mem_cons_self) he)
    · exact hb

open Lyon.SweepRep in
/-- **`initialize_events` keeps the parameter range, and `ActiveSpan` when the next vertex is in sweep order**
(`AdvOK`); on failure (NaN position) the parameter range is kept -/
theorem initializeEvents_inv :
    ⦃fun s => ⌜Inv s ∧ AdvOK s⌝⦄ (initializeEvents : SM K Unit)
    ⦃post⟨fun _ s => ⌜Inv s⌝, fun _ s => ⌜UInv s⌝⟩⦄ := by
  unfold initializeEvents
  mvcgen
  all_goals
    have h := ‹Inv _ ∧ AdvOK _›
  all_goals first
    | exact h.1.2
    | skip
  obtain ⟨⟨⟨ha, hb⟩, hq, hua, hub, ho⟩, hA1, hA2, hA3⟩ := h
  refine ⟨⟨hA1, ?_⟩, hq, hua, ?_, ?_⟩
  · exact init_below_all _ _ _ _ (fun i hi he => hA3 i hi he) _ hA2
  · exact init_below_all _ _ (fun b => U b.rangeEnd) _ (fun i hi he => (ed_U hq i).2) _ hub
  · intro pos recs hm r hr
    rcases Array.mem_push.mp hm with hm | hm
    · exact ho pos recs hm r hr
    · cases hm
      rcases List.mem_map.mp hr with ⟨i, _, rfl⟩
      exact ed_U hq i

end field

end Lyon.SweepSpan
