/-
  Helper lemmas for C08 (reset discipline): simulation relations "agree on everything that is read
  before it is written" for the pooled monotone tessellator and for the event-queue builder, and
  the lemmas that every operation preserves them.
-/
import LyonVerif.Model.Tess.Reset

set_option linter.unusedSectionVars false
set_option linter.unusedVariables false
set_option linter.unusedSimpArgs false

namespace Lyon.C08
open Lyon Lyon.Mono Lyon.Reset Scalar

/-- A small integer scalar, used only to evaluate the models in `decide`d witnesses (`x / y` is
integer division; decimal literals are truncated). -/
structure Int' where
  v : Int
deriving DecidableEq, Repr

instance : Scalar Int' where
  add a b := ⟨a.v + b.v⟩
  sub a b := ⟨a.v - b.v⟩
  mul a b := ⟨a.v * b.v⟩
  div a b := ⟨a.v / b.v⟩
  neg a := ⟨-a.v⟩
  lt a b := a.v < b.v
  le a b := a.v ≤ b.v
  beq a b := a.v == b.v
  ofNat n := ⟨n⟩
  ofSci m e := ⟨m / 10 ^ e⟩
  dlt := fun a b => inferInstanceAs (Decidable (a.v < b.v))
  dle := fun a b => inferInstanceAs (Decidable (a.v ≤ b.v))
  abs a := ⟨a.v.natAbs⟩
  min a b := if a.v ≤ b.v then a else b
  max a b := if a.v ≤ b.v then b else a

variable {α : Type} [Scalar α]

/-! ## The monotone tessellator

`SideEvents::prev` is the one field `begin` leaves stale (`push` copies the OLD `last.pos` into it).
It is read in one place, `vertex`'s outward-turn test, under `len >= 2`. -/

/-- two side states agree on everything except a `prev` that cannot be read yet -/
def SideSim (a b : SideEv α) : Prop :=
  a.refPt = b.refPt ∧ a.consRefX = b.consRefX ∧ a.events = b.events ∧ a.last = b.last ∧
    (2 ≤ a.events.length → a.prev = b.prev)

def AdvSim (s t : Adv α) : Prop := s.tess = t.tess ∧ SideSim s.left t.left ∧ SideSim s.right t.right

theorem SideSim.rfl' (a : SideEv α) : SideSim a a := ⟨rfl, rfl, rfl, rfl, fun _ => rfl⟩
theorem AdvSim.rfl' (s : Adv α) : AdvSim s s := ⟨rfl, SideSim.rfl' _, SideSim.rfl' _⟩

theorem flushSide_sim (a b : SideEv α) (r : Bool) (h : SideSim a b) :
    (flushSide a r).2 = (flushSide b r).2 ∧ SideSim (flushSide a r).1 (flushSide b r).1 := by
  obtain ⟨h1, h2, h3, h4, h5⟩ := h
  unfold flushSide
  simp only [h3, h4]
  by_cases hl : b.events.length < 2
  · simp only [hl, if_true]
    exact ⟨trivial, h1, h2, h3, h4, fun h => absurd h (by rw [h3]; omega)⟩
  · simp only [hl, if_false]
    exact ⟨trivial, rfl, h2, rfl, rfl, fun _ => rfl⟩

theorem push_sim (a b : SideEv α) (v : MV α) (h : SideSim a b) : SideSim (a.push v) (b.push v) := by
  obtain ⟨h1, h2, h3, h4, h5⟩ := h
  exact ⟨h1, h2, by simp [SideEv.push, h3], rfl, fun _ => by simp [SideEv.push, h4]⟩

/-! `Adv.vertex` cut into named pieces (definitionally the same function: `vertex_eq` is `rfl`). -/

def outwardTurn (sideEv : SideEv α) (p : P α) (l close : Bool) : Bool :=
  if !close && decide (sideEv.events.length ≥ 2) then
    decide ((sideEv.prev - sideEv.last.pos).cross (p - sideEv.last.pos) * (if l then one else -one) < zero)
  else false

abbrev Trip (α : Type) := Basic α × SideEv α × SideEv α

def flushOpp (tess : Basic α) (sideEv oppEv : SideEv α) (l : Bool) : Trip α :=
  match (flushSide oppEv l).2.2 with
  | some mv => (((tess.pushTris (flushSide oppEv l).2.1).vertex mv), { sideEv with consRefX := sideEv.refPt.x }, (flushSide oppEv l).1)
  | none => (tess, sideEv, oppEv)

/-- lyon 9b7220fb: after its own flush the side's reference abscissa takes the new vertex in again -/
def refold (s : SideEv α) (p : P α) (l : Bool) : SideEv α :=
  { s with refPt := ⟨if l then Scalar.max s.refPt.x p.x else Scalar.min s.refPt.x p.x, s.refPt.y⟩ }

def flushOwn (tess : Basic α) (sideEv oppEv : SideEv α) (p : P α) (l : Bool) : Trip α :=
  match (flushSide sideEv (!l)).2.2 with
  | some mv => (((tess.pushTris (flushSide sideEv (!l)).2.1).vertex mv), refold (flushSide sideEv (!l)).1 p l, { oppEv with consRefX := oppEv.refPt.x })
  | none => (tess, sideEv, oppEv)

theorem refold_sim (a b : SideEv α) (p : P α) (l : Bool) (h : SideSim a b) : SideSim (refold a p l) (refold b p l) := by
  obtain ⟨h1, h2, h3, h4, h5⟩ := h
  exact ⟨by simp [refold, h1], h2, h3, h4, h5⟩

def stepSides (tess : Basic α) (sideEv oppEv : SideEv α) (dx : α) (p : P α) (id : Nat) (l : Bool) : Trip α :=
  let close : Bool := decide (dx < (p.y - sideEv.refPt.y) * ofSci 1 1)
  let r1 := if isAfter sideEv.last.pos oppEv.last.pos then flushOpp tess sideEv oppEv l else (tess, sideEv, oppEv)
  let r := if outwardTurn sideEv p l close || close then flushOwn r1.1 r1.2.1 r1.2.2 p l else (tess, sideEv, oppEv)
  (r.1, r.2.1.push ⟨p, id, l⟩, r.2.2)

def updRef (st : Adv α) (pos : P α) (isLeft : Bool) : Adv α :=
    if isLeft then
      let rx := Scalar.max st.left.refPt.x pos.x
      { st with left := { st.left with refPt := ⟨rx, st.left.refPt.y⟩, consRefX := Scalar.max st.left.consRefX rx } }
    else
      let rx := Scalar.min st.right.refPt.x pos.x
      { st with right := { st.right with refPt := ⟨rx, st.right.refPt.y⟩, consRefX := Scalar.min st.right.consRefX rx } }

def vertex' (st : Adv α) (p : P α) (id : Nat) (l : Bool) : Adv α :=
  let st := updRef st p l
  let dx := st.right.consRefX - st.left.consRefX
  let r := stepSides st.tess (if l then st.left else st.right) (if l then st.right else st.left) dx p id l
  if l then ⟨r.1, r.2.1, r.2.2⟩ else ⟨r.1, r.2.2, r.2.1⟩

theorem vertex_eq (st : Adv α) (p : P α) (id : Nat) (l : Bool) : st.vertex p id l = vertex' st p id l := by
  cases l <;> rfl

def TripSim (x y : Trip α) : Prop := x.1 = y.1 ∧ SideSim x.2.1 y.2.1 ∧ SideSim x.2.2 y.2.2

theorem outwardTurn_sim (a b : SideEv α) (p : P α) (l close : Bool) (h : SideSim a b) :
    outwardTurn a p l close = outwardTurn b p l close := by
  obtain ⟨h1, h2, h3, h4, h5⟩ := h
  unfold outwardTurn
  by_cases hl : 2 ≤ a.events.length
  · rw [h5 hl, h4, h3]
  · have hl' : ¬ 2 ≤ b.events.length := by rw [← h3]; exact hl
    simp [hl, hl']

theorem flushOpp_sim (tess : Basic α) (a b c d : SideEv α) (l : Bool) (h1 : SideSim a b) (h2 : SideSim c d) :
    TripSim (flushOpp tess a c l) (flushOpp tess b d l) := by
  obtain ⟨e, hs⟩ := flushSide_sim c d l h2
  unfold flushOpp
  rw [e]
  cases (flushSide d l).2.2 with
  | none => exact ⟨rfl, h1, h2⟩
  | some mv =>
    obtain ⟨g1, g2, g3, g4, g5⟩ := h1
    exact ⟨rfl, ⟨g1, by simp [g1], g3, g4, g5⟩, hs⟩

theorem flushOwn_sim (tess : Basic α) (a b c d : SideEv α) (p : P α) (l : Bool) (h1 : SideSim a b) (h2 : SideSim c d) :
    TripSim (flushOwn tess a c p l) (flushOwn tess b d p l) := by
  obtain ⟨e, hs⟩ := flushSide_sim a b (!l) h1
  unfold flushOwn
  rw [e]
  cases (flushSide b (!l)).2.2 with
  | none => exact ⟨rfl, h1, h2⟩
  | some mv =>
    obtain ⟨g1, g2, g3, g4, g5⟩ := h2
    exact ⟨rfl, refold_sim _ _ p l hs, ⟨g1, by simp [g1], g3, g4, g5⟩⟩

theorem stepSides_sim (tess : Basic α) (a b c d : SideEv α) (dx : α) (p : P α) (id : Nat) (l : Bool)
    (h1 : SideSim a b) (h2 : SideSim c d) :
    TripSim (stepSides tess a c dx p id l) (stepSides tess b d dx p id l) := by
  unfold stepSides
  obtain ⟨g1, g2, g3, g4, g5⟩ := h1
  have ho : ∀ close, outwardTurn a p l close = outwardTurn b p l close :=
    fun close => outwardTurn_sim a b p l close ⟨g1, g2, g3, g4, g5⟩
  have k4 := h2.2.2.2.1
  simp only [g1, g4, k4, ho]
  have hr1 : TripSim (if isAfter b.last.pos d.last.pos then flushOpp tess a c l else (tess, a, c))
      (if isAfter b.last.pos d.last.pos then flushOpp tess b d l else (tess, b, d)) := by
    split
    · exact flushOpp_sim tess a b c d l ⟨g1, g2, g3, g4, g5⟩ h2
    · exact ⟨rfl, ⟨g1, g2, g3, g4, g5⟩, h2⟩
  generalize (if isAfter b.last.pos d.last.pos then flushOpp tess a c l else (tess, a, c)) = x at hr1
  generalize (if isAfter b.last.pos d.last.pos then flushOpp tess b d l else (tess, b, d)) = y at hr1
  obtain ⟨e1, e2, e3⟩ := hr1
  by_cases hc : (outwardTurn b p l (decide (dx < (p.y - b.refPt.y) * ofSci 1 1)) ||
      decide (dx < (p.y - b.refPt.y) * ofSci 1 1)) = true
  · simp only [hc, if_true]
    have := flushOwn_sim y.1 x.2.1 y.2.1 x.2.2 y.2.2 p l e2 e3
    rw [e1]
    exact ⟨this.1, push_sim _ _ _ this.2.1, this.2.2⟩
  · simp only [hc, if_false]
    exact ⟨rfl, push_sim _ _ _ ⟨g1, g2, g3, g4, g5⟩, h2⟩

theorem vertex_sim (s t : Adv α) (p : P α) (id : Nat) (l : Bool) (h : AdvSim s t) :
    AdvSim (s.vertex p id l) (t.vertex p id l) := by
  obtain ⟨ht, ⟨a1, a2, a3, a4, a5⟩, ⟨b1, b2, b3, b4, b5⟩⟩ := h
  rw [vertex_eq, vertex_eq]
  cases l
  · have hu : AdvSim (updRef s p false) (updRef t p false) :=
      ⟨ht, ⟨a1, a2, a3, a4, a5⟩, ⟨by simp [updRef, b1], by simp [updRef, b1, b2], b3, b4, b5⟩⟩
    obtain ⟨u1, u2, u3⟩ := hu
    have := stepSides_sim (updRef t p false).tess _ _ _ _
      ((updRef t p false).right.consRefX - (updRef t p false).left.consRefX) p id false u3 u2
    simp only [vertex', Bool.false_eq_true, if_false]
    rw [u1, u2.2.1, u3.2.1]
    exact ⟨this.1, this.2.2, this.2.1⟩
  · have hu : AdvSim (updRef s p true) (updRef t p true) :=
      ⟨ht, ⟨by simp [updRef, a1], by simp [updRef, a1, a2], a3, a4, a5⟩, ⟨b1, b2, b3, b4, b5⟩⟩
    obtain ⟨u1, u2, u3⟩ := hu
    have := stepSides_sim (updRef t p true).tess _ _ _ _
      ((updRef t p true).right.consRefX - (updRef t p true).left.consRefX) p id true u2 u3
    simp only [vertex', if_true]
    rw [u1, u2.2.1, u3.2.1]
    exact this

theorem feed_sim (vs : List (VArg α)) : ∀ (s t : Adv α), AdvSim s t → AdvSim (feed s vs) (feed t vs) := by
  induction vs with
  | nil => intro s t h; exact h
  | cons v r ih => intro s t h; exact ih _ _ (vertex_sim s t v.1 v.2.1 v.2.2 h)

/-- `Adv.end_` reads the two sides only through `flushSide … .2` -/
def endCore (tess : Basic α) (fa fb : List Tri × Option (MV α)) (pos : P α) (id : Nat) : Basic α :=
  let tess := (tess.pushTris (if fa.2.isSome then fa.1 else [])).pushTris (if fb.2.isSome then fb.1 else [])
  let tess := match fa.2, fb.2 with
    | some v, none => tess.vertex v
    | none, some v => tess.vertex v
    | some v1, some v2 =>
      if isAfter v1.pos v2.pos then (tess.vertex v2).vertex v1 else (tess.vertex v1).vertex v2
    | none, none => tess
  tess.end_ pos id

theorem end_eq (st : Adv α) (pos : P α) (id : Nat) :
    st.end_ pos id = endCore st.tess (flushSide st.left false).2 (flushSide st.right true).2 pos id := rfl

theorem end_sim (s t : Adv α) (pos : P α) (id : Nat) (h : AdvSim s t) : s.end_ pos id = t.end_ pos id := by
  obtain ⟨ht, hl, hr⟩ := h
  rw [end_eq, end_eq, ht, (flushSide_sim _ _ false hl).1, (flushSide_sim _ _ true hr).1]

theorem begin_sim (old old' : Adv α) (p : P α) (id : Nat) : AdvSim (Adv.begin old p id) (Adv.begin old' p id) :=
  ⟨rfl, ⟨rfl, rfl, rfl, rfl, fun h => absurd h (by simp [Adv.begin])⟩,
        ⟨rfl, rfl, rfl, rfl, fun h => absurd h (by simp [Adv.begin])⟩⟩

/-! ## The event-queue builder

`EventQueueBuilder::reset` clears the queue and `nth` only; `begin` writes `nth, current,
prev_endpoint_id`.  `prev` and `second` stay stale; they are read under `nth > 0` only (`line_segment`,
`end` after its early return, the curve segments' `else` of `is_first_edge`), and `nth` leaves 0 only
through `add_edge`, next to which both are assigned. -/

/-- agree on every field except `prev` / `second` while `nth = 0` (they cannot be read yet) -/
def QBSim (a b : QB α) : Prop :=
  a.current = b.current ∧ a.nth = b.nth ∧ a.queue = b.queue ∧ a.tolerance = b.tolerance ∧
  a.prevEndpointId = b.prevEndpointId ∧ (0 < a.nth → a.prev = b.prev ∧ a.second = b.second)

theorem QBSim.rfl' (a : QB α) : QBSim a a := ⟨rfl, rfl, rfl, rfl, rfl, fun _ => ⟨rfl, rfl⟩⟩

/-- either the same state, or `nth = 0` and they differ in `prev` / `second` only -/
theorem QBSim.split {a b : QB α} (h : QBSim a b) :
    a = b ∨ (a.nth = 0 ∧ b = { a with prev := b.prev, second := b.second }) := by
  obtain ⟨h1, h2, h3, h4, h5, h6⟩ := h
  cases a; cases b
  simp only at h1 h2 h3 h4 h5 h6
  subst h1 h2 h3 h4 h5
  rename_i n _ _ _ _ _
  rcases Nat.eq_zero_or_pos n with hn | hn
  · right; exact ⟨hn, rfl⟩
  · left; obtain ⟨rfl, rfl⟩ := h6 hn; rfl

theorem lineSegment_stale (a : QB α) (p s to : P α) (id : Nat) (t0 t1 : α) (h : a.nth = 0) :
    QBSim (a.lineSegment to id t0 t1) (QB.lineSegment { a with prev := p, second := s } to id t0 t1) := by
  cases a with
  | mk cur pv sc n q tol pid =>
  simp only at h
  subst h
  unfold QB.lineSegment
  by_cases hc : (cur == to) = true
  · simp only [hc, if_true]
    exact ⟨rfl, rfl, rfl, rfl, rfl, fun h => absurd h (by simp)⟩
  · simp only [hc, if_false]
    simp only [QB.addEdge, QB.pushEvent, QB.vertexEvent, hc, if_false, Nat.lt_irrefl, gt_iff_lt, decide_false,
      Bool.and_false, Bool.false_and, Bool.false_eq_true, BEq.rfl, if_true]
    split <;> exact ⟨rfl, rfl, rfl, rfl, rfl, fun _ => ⟨rfl, rfl⟩⟩

theorem lineSegment_sim (a b : QB α) (to : P α) (id : Nat) (t0 t1 : α) (h : QBSim a b) :
    QBSim (a.lineSegment to id t0 t1) (b.lineSegment to id t0 t1) := by
  rcases h.split with rfl | ⟨hn, hb⟩
  · exact QBSim.rfl' _
  · rw [hb]; exact lineSegment_stale a _ _ to id t0 t1 hn

theorem qb_begin_sim (a b : QB α) (p : P α) (id : Nat) (hq : a.queue = b.queue) (ht : a.tolerance = b.tolerance) :
    QBSim (a.begin p id) (b.begin p id) :=
  ⟨rfl, rfl, hq, ht, rfl, fun h => absurd h (by simp [QB.begin])⟩

theorem qb_end_sim (a b : QB α) (f : P α) (id : Nat) (h : QBSim a b) : QBSim (a.end_ f id) (b.end_ f id) := by
  rcases h.split with rfl | ⟨hn, hb⟩
  · exact QBSim.rfl' _
  · have hn' : b.nth = 0 := by rw [hb]; exact hn
    unfold QB.end_
    simp only [hn, hn', BEq.rfl, if_true]
    exact h

theorem addEdge_stale (b : QB α) (p s f t : P α) (w : Int) (i j : Nat) (t0 t1 : α) :
    QB.addEdge { b with prev := p, second := s } f t w i j t0 t1 =
      { (b.addEdge f t w i j t0 t1) with prev := p, second := s } := by
  unfold QB.addEdge
  by_cases h1 : (f == t) = true
  · simp only [h1, if_true]
  · by_cases h2 : isAfter f t = true
    · simp only [h1, h2, if_true, if_false]; rfl
    · simp only [h1, h2, if_false]; rfl

theorem vertexEventOnCurve_stale (b : QB α) (p s at_ : P α) (t : α) (i j : Nat) :
    QB.vertexEventOnCurve { b with prev := p, second := s } at_ t i j =
      { (b.vertexEventOnCurve at_ t i j) with prev := p, second := s } := rfl

/-- the closure of the curve segments neither reads nor writes `prev` / `second` of the builder -/
theorem curvePiece_stale (w : Int) (id : Nat) (b : QB α) (p s : P α) (lp : P α) (f : Option (P α)) (pc : QB.Piece α) :
    QB.curvePiece w id ⟨{ b with prev := p, second := s }, lp, f⟩ pc =
      ⟨{ (QB.curvePiece w id ⟨b, lp, f⟩ pc).b with prev := p, second := s },
       (QB.curvePiece w id ⟨b, lp, f⟩ pc).prev, (QB.curvePiece w id ⟨b, lp, f⟩ pc).first⟩ := by
  unfold QB.curvePiece
  cases hc : (pc.1 == pc.2.1)
  · simp only [Bool.false_eq_true, if_false]
    cases f with
    | none => exact congrArg (fun x => (⟨x, pc.1, some pc.2.1⟩ : QB.CurveSt α)) (addEdge_stale b p s _ _ _ _ _ _ _)
    | some f0 =>
      cases h2 : (isAfter pc.1 pc.2.1 && isAfter pc.1 lp)
      · simp only [Bool.false_eq_true, if_false]
        exact congrArg (fun x => (⟨x, pc.1, some f0⟩ : QB.CurveSt α)) (addEdge_stale b p s _ _ _ _ _ _ _)
      · simp only [if_true]
        exact congrArg (fun x => (⟨x, pc.1, some f0⟩ : QB.CurveSt α))
          (addEdge_stale (b.vertexEventOnCurve pc.1 pc.2.2.1 b.prevEndpointId id) p s _ _ _ _ _ _ _)
  · simp only [if_true]

theorem curveFold_stale (w : Int) (id : Nat) (p s : P α) (pcs : List (QB.Piece α)) :
    ∀ (b : QB α) (lp : P α) (f : Option (P α)),
    pcs.foldl (QB.curvePiece w id) ⟨{ b with prev := p, second := s }, lp, f⟩ =
      ⟨{ (pcs.foldl (QB.curvePiece w id) ⟨b, lp, f⟩).b with prev := p, second := s },
       (pcs.foldl (QB.curvePiece w id) ⟨b, lp, f⟩).prev, (pcs.foldl (QB.curvePiece w id) ⟨b, lp, f⟩).first⟩ := by
  induction pcs with
  | nil => intro b lp f; rfl
  | cons pc r ih =>
    intro b lp f
    simp only [List.foldl_cons]
    rw [curvePiece_stale]
    exact ih _ _ _

/-- as long as the closure has not seen a non-degenerate piece the builder is untouched -/
theorem curveFold_none (w : Int) (id : Nat) (pcs : List (QB.Piece α)) :
    ∀ (st : QB.CurveSt α), (pcs.foldl (QB.curvePiece w id) st).first = none →
      (pcs.foldl (QB.curvePiece w id) st).b = st.b ∧ st.first = none := by
  induction pcs with
  | nil => intro st h; exact ⟨rfl, h⟩
  | cons pc r ih =>
    intro st h
    simp only [List.foldl_cons] at h ⊢
    obtain ⟨e1, e2⟩ := ih _ h
    unfold QB.curvePiece at e1 e2 ⊢
    by_cases hc : (pc.1 == pc.2.1) = true
    · simp only [hc, if_true] at e1 e2 ⊢; exact ⟨e1, e2⟩
    · simp only [hc, if_false] at e2
      cases hf : st.first <;> simp [hf] at e2

theorem curveSegment_stale (a : QB α) (p s : P α) (pcs : List (QB.Piece α)) (swap : Bool) (segFrom origTo : P α)
    (id : Nat) (h : a.nth = 0) :
    QBSim (a.curveSegment pcs swap segFrom origTo id)
      (QB.curveSegment { a with prev := p, second := s } pcs swap segFrom origTo id) := by
  unfold QB.curveSegment
  rw [curveFold_stale (if swap = true then -1 else 1) id p s pcs a segFrom none]
  have hn := curveFold_none (if swap = true then -1 else 1) id pcs ⟨a, segFrom, none⟩
  generalize pcs.foldl (QB.curvePiece (if swap = true then -1 else 1) id) ⟨a, segFrom, none⟩ = r at hn
  have h0 : (a.nth == 0) = true := by rw [h]; rfl
  simp only [h0, if_true]
  cases hf : r.first with
  | none =>
    obtain ⟨e, _⟩ := hn hf
    simp only at e
    exact ⟨rfl, rfl, rfl, rfl, rfl, fun hh => absurd hh (by rw [e, h]; exact Nat.lt_irrefl 0)⟩
  | some f0 => exact ⟨rfl, rfl, rfl, rfl, rfl, fun _ => ⟨rfl, rfl⟩⟩

theorem curveSegment_sim (a b : QB α) (pcs : List (QB.Piece α)) (swap : Bool) (segFrom origTo : P α) (id : Nat)
    (h : QBSim a b) : QBSim (a.curveSegment pcs swap segFrom origTo id) (b.curveSegment pcs swap segFrom origTo id) := by
  rcases h.split with rfl | ⟨hn, hb⟩
  · exact QBSim.rfl' _
  · rw [hb]; exact curveSegment_stale a _ _ pcs swap segFrom origTo id hn

theorem event_sim (F : Flat α) (hz : Bool) (a b : QB α) (e : PEv α) (h : QBSim a b) :
    QBSim (QB.event F hz a e) (QB.event F hz b e) := by
  have hc := h.1
  have ht := h.2.2.2.1
  cases e with
  | begin p id => exact qb_begin_sim a b _ id h.2.2.1 ht
  | line p id => exact lineSegment_sim a b _ id _ _ h
  | quad c p id =>
    simp only [QB.event, QB.quadSegment, hc, ht]
    exact curveSegment_sim a b _ _ _ _ id h
  | cubic c1 c2 p id =>
    simp only [QB.event, QB.cubicSegment, hc, ht]
    exact curveSegment_sim a b _ _ _ _ id h
  | end_ p id => exact qb_end_sim a b _ id h

theorem events_sim (F : Flat α) (hz : Bool) (evs : List (PEv α)) :
    ∀ (a b : QB α), QBSim a b → QBSim (QB.events F hz a evs) (QB.events F hz b evs) := by
  induction evs with
  | nil => intro a b h; exact h
  | cons e r ih => intro a b h; exact ih _ _ (event_sim F hz a b e h)

theorem queue_reset_eq (q : Queue α) : q.reset = Queue.new := rfl

/-! ## The attribute buffer -/

theorem resizeAttrib_length (buf : List α) (a : Option Nat) : (resizeAttrib buf a).length = a.getD 0 := by
  cases a with
  | none => rfl
  | some n => simp only [resizeAttrib, List.length_append, List.length_take, List.length_replicate, Option.getD_some]; omega

theorem interpMain_fresh (st : Nat → List α) (n : Nat) (first : Src α) (rest : List (Src α)) (buf buf' : List α)
    (h : buf.length = buf'.length) :
    (interpMain st n first rest buf).1 = (interpMain st n first rest buf').1 ∧
    (interpMain st n first rest buf).2.length = (interpMain st n first rest buf').2.length := by
  unfold interpMain
  rw [← h]
  cases hc : (!(first.lenOk st n && buf.length == n))
  · simp only [Bool.false_eq_true, if_false]
    have hl : buf.length = n := by
      simp only [Bool.not_eq_false', Bool.and_eq_true, beq_iff_eq] at hc
      exact hc.2
    have d1 : buf.drop n = [] := by rw [← hl]; exact List.drop_length
    have d2 : buf'.drop n = [] := by rw [← hl, h]; exact List.drop_length
    rw [d1, d2]
    exact ⟨rfl, rfl⟩
  · simp only [if_true]; exact ⟨trivial, h⟩

theorem interp_fresh (store : Option (Nat → List α)) (n : Nat) (srcs : List (Src α)) (buf buf' : List α)
    (h : buf.length = buf'.length) :
    (interp store n srcs buf).1 = (interp store n srcs buf').1 ∧
    (interp store n srcs buf).2.length = (interp store n srcs buf').2.length := by
  cases store with
  | none => exact ⟨rfl, h⟩
  | some st =>
    match srcs with
    | [] => exact ⟨rfl, h⟩
    | [.endpoint id] => exact ⟨rfl, h⟩
    | [.edge a b t] => exact interpMain_fresh st n _ _ buf buf' h
    | .endpoint id :: s2 :: r => exact interpMain_fresh st n _ _ buf buf' h
    | .edge a b t :: s2 :: r => exact interpMain_fresh st n _ _ buf buf' h

theorem interpAll_fresh (store : Option (Nat → List α)) (n : Nat) (vs : List (List (Src α))) :
    ∀ (buf buf' : List α), buf.length = buf'.length → interpAll store n vs buf = interpAll store n vs buf' := by
  induction vs with
  | nil => intro _ _ _; rfl
  | cons v r ih =>
    intro buf buf' h
    obtain ⟨e1, e2⟩ := interp_fresh store n v buf buf' h
    simp only [interpAll, e1, ih _ _ e2]

/-! ## Reset disciplines -/

/-- A reset discipline for a machine: every call is `rest ∘ prologue`; the prologue (the writes at
the start of the call) makes ANY two states agree — in the sense of `R`, which may depend on the
input — on whatever the rest of the call reads before it writes; the output of the rest of the
call respects `R`.  Nothing is asked of the state the call leaves behind. -/
structure Discipline {σ ι ο : Type} (m : Machine σ ι ο) where
  R : ι → σ → σ → Prop
  prologue : σ → ι → σ
  rest : σ → ι → σ × ο
  call_eq : ∀ s i, m.call s i = rest (prologue s i) i
  establishes : ∀ s s' i, R i (prologue s i) (prologue s' i)
  respects : ∀ s s' i, R i s s' → (rest s i).2 = (rest s' i).2

/-- the output of a call does not depend on the state it is made in -/
def Stateless {σ ι ο : Type} (m : Machine σ ι ο) : Prop := ∀ s s' i, (m.call s i).2 = (m.call s' i).2

theorem Discipline.stateless {σ ι ο : Type} {m : Machine σ ι ο} (d : Discipline m) : Stateless m := by
  intro s s' i
  rw [d.call_eq, d.call_eq]
  exact d.respects _ _ i (d.establishes s s' i)

theorem Stateless.outputs {σ ι ο : Type} {m : Machine σ ι ο} (h : Stateless m) (fresh : σ) (hist : List ι) :
    ∀ s0, m.outputs s0 hist = hist.map (fun i => (m.call fresh i).2) := by
  induction hist with
  | nil => intro _; rfl
  | cons i r ih => intro s0; simp only [Machine.outputs, List.map_cons, ih, h s0 fresh i]

end Lyon.C08
