/-
  Helper definitions and lemmas for the C05 theorems (`Props/C05.lean`) about
  `Model/Tess/StrokeParts.lean`: proper-triangle predicates, the "output grows by k" relation used
  by `arc_fan`, the representation invariant of `PointBuffer` against its list specification, and
  the apart-invariant of the merge rule.
-/
import LyonVerif.Model.Tess.StrokeParts
import LyonVerif.Lemmas.Field
import Mathlib.Tactic.SplitIfs
import Mathlib.Tactic.IntervalCases
import Mathlib.Algebra.Order.Ring.Abs
import Mathlib.Tactic.NormNum
import Mathlib.Tactic.Positivity

set_option linter.unusedSectionVars false
set_option linter.unusedVariables false

namespace Lyon.C05
open Lyon Scalar Lyon.Stroke

/-! ## proper triangles -/

def Tri.Distinct (t : Tri) : Prop := t.1 ≠ t.2.1 ∧ t.2.1 ≠ t.2.2 ∧ t.1 ≠ t.2.2
/-- all three ids are below `n` (ids handed out so far) -/
def Tri.Below (t : Tri) (n : Nat) : Prop := t.1 < n ∧ t.2.1 < n ∧ t.2.2 < n

instance (t : Tri) : Decidable (Tri.Distinct t) := by unfold Tri.Distinct; infer_instance


/-! ## outputs that grow by `k` unit-normal vertices and `k` proper triangles -/

section Arc
variable {K : Type} [Field K] [LinearOrder K] [IsStrictOrderedRing K] [Transc K]

/-- `r` extends `o` by exactly `k` vertices with unit normals and `k` proper triangles over
ids handed out so far -/
structure Ext (o r : Out K) (k : Nat) : Prop where
  next : r.nextId = o.nextId + k
  verts : ∃ vs, r.verts = o.verts ++ vs ∧ vs.length = k ∧ ∀ v ∈ vs, v.normal.sqLen = 1
  tris : ∃ ts, r.tris = o.tris ++ ts ∧ ts.length = k ∧ ∀ t ∈ ts, Tri.Distinct t ∧ Tri.Below t r.nextId

theorem Ext.refl (o : Out K) : Ext o o 0 :=
  ⟨rfl, ⟨[], by simp⟩, ⟨[], by simp⟩⟩

theorem Tri.Below.mono {t : Tri} {n m : Nat} (h : Tri.Below t n) (hnm : n ≤ m) : Tri.Below t m :=
  ⟨lt_of_lt_of_le h.1 hnm, lt_of_lt_of_le h.2.1 hnm, lt_of_lt_of_le h.2.2 hnm⟩

theorem Ext.trans {o r s : Out K} {k m : Nat} (h1 : Ext o r k) (h2 : Ext r s m) : Ext o s (k + m) := by
  obtain ⟨n1, ⟨vs1, hv1, hl1, hu1⟩, ⟨ts1, ht1, hm1, hd1⟩⟩ := h1
  obtain ⟨n2, ⟨vs2, hv2, hl2, hu2⟩, ⟨ts2, ht2, hm2, hd2⟩⟩ := h2
  refine ⟨by omega, ⟨vs1 ++ vs2, by simp [hv2, hv1], by simp [hl1, hl2], ?_⟩,
    ⟨ts1 ++ ts2, by simp [ht2, ht1], by simp [hm1, hm2], ?_⟩⟩
  · intro v hv
    rcases List.mem_append.mp hv with h | h
    · exact hu1 v h
    · exact hu2 v h
  · intro t ht
    rcases List.mem_append.mp ht with h | h
    · exact ⟨(hd1 t h).1, (hd1 t h).2.mono (by omega)⟩
    · exact hd2 t h

/-- one `add_stroke_vertex` + `add_triangle(va, v, vb)` step -/
theorem Ext.step (o : Out K) (d : VData K) (va vb : Nat) (hn : d.normal.sqLen = 1)
    (hab : va ≠ vb) (ha : va < o.nextId) (hb : vb < o.nextId) :
    Ext o ((o.addVertex d).addTri (va, o.nextId, vb)) 1 := by
  refine ⟨rfl, ⟨[d], rfl, rfl, by simpa using hn⟩, ⟨[(va, o.nextId, vb)], rfl, rfl, ?_⟩⟩
  intro t ht
  simp only [List.mem_singleton] at ht
  subst ht
  simp only [Tri.Distinct, Tri.Below, Out.addTri, Out.addVertex]
  omega


end Arc

/-! ## `PointBuffer` against its specification -/

section Buffer
variable {β : Type}

/-- the specification: the list of points since the last `clear`; `replace_last` overwrites the
newest one and is an error on an empty list -/
def specApply (l : List β) : BufOp β → Option (List β)
  | .push p => some (l ++ [p])
  | .replaceLast p => if l = [] then none else some (l.dropLast ++ [p])
  | .clear => some []

def specRun (l : List β) : List (BufOp β) → Option (List β)
  | [] => some l
  | op :: ops => match specApply l op with
    | none => none
    | some l' => specRun l' ops

/-- the (at most) three newest points, oldest first -/
def window (l : List β) : List β := l.drop (l.length - 3)

/-- representation invariant: which slot holds which of the newest points -/
inductive Rep : PointBuffer β → List β → Prop
  | c0 (s0 s1 s2 : β) : Rep ⟨s0, s1, s2, 0, 0⟩ []
  | c1 (s0 s1 s2 : β) : Rep ⟨s0, s1, s2, 0, 1⟩ [s0]
  | c2 (s0 s1 s2 : β) : Rep ⟨s0, s1, s2, 0, 2⟩ [s0, s1]
  | r0 (s0 s1 s2 : β) (pre : List β) : Rep ⟨s0, s1, s2, 0, 3⟩ (pre ++ [s0, s1, s2])
  | r1 (s0 s1 s2 : β) (pre : List β) : Rep ⟨s0, s1, s2, 1, 3⟩ (pre ++ [s1, s2, s0])
  | r2 (s0 s1 s2 : β) (pre : List β) : Rep ⟨s0, s1, s2, 2, 3⟩ (pre ++ [s2, s0, s1])

theorem Rep.push {b : PointBuffer β} {l : List β} (h : Rep b l) (p : β) :
    ∃ b', b.push p = some b' ∧ Rep b' (l ++ [p]) := by
  cases h with
  | c0 s0 s1 s2 => exact ⟨_, rfl, Rep.c1 p s1 s2⟩
  | c1 s0 s1 s2 => exact ⟨_, rfl, Rep.c2 s0 p s2⟩
  | c2 s0 s1 s2 => exact ⟨_, rfl, by simpa [PointBuffer.bumpCount, PointBuffer.bumpStart] using Rep.r0 s0 s1 p []⟩
  | r0 s0 s1 s2 pre => exact ⟨_, rfl, by simpa [PointBuffer.bumpCount, PointBuffer.bumpStart] using Rep.r1 p s1 s2 (pre ++ [s0])⟩
  | r1 s0 s1 s2 pre => exact ⟨_, rfl, by simpa [PointBuffer.bumpCount, PointBuffer.bumpStart] using Rep.r2 s0 p s2 (pre ++ [s1])⟩
  | r2 s0 s1 s2 pre => exact ⟨_, rfl, by simpa [PointBuffer.bumpCount, PointBuffer.bumpStart] using Rep.r0 s0 s1 p (pre ++ [s2])⟩

theorem Rep.replaceLast {b : PointBuffer β} {l : List β} (h : Rep b l) (p : β) :
    (l = [] → b.replaceLast p = none) ∧
    (l ≠ [] → ∃ b', b.replaceLast p = some b' ∧ Rep b' (l.dropLast ++ [p])) := by
  cases h with
  | c0 s0 s1 s2 => exact ⟨fun _ => rfl, fun h => absurd rfl h⟩
  | c1 s0 s1 s2 => exact ⟨fun h => by simp at h, fun _ => ⟨_, rfl, Rep.c1 p s1 s2⟩⟩
  | c2 s0 s1 s2 => exact ⟨fun h => by simp at h, fun _ => ⟨_, rfl, Rep.c2 s0 p s2⟩⟩
  | r0 s0 s1 s2 pre =>
    refine ⟨fun h => by simp at h, fun _ => ⟨_, rfl, ?_⟩⟩
    have : (pre ++ [s0, s1, s2]).dropLast ++ [p] = pre ++ [s0, s1, p] := by
      simp [List.dropLast_append_of_ne_nil]
    rw [this]; exact Rep.r0 s0 s1 p pre
  | r1 s0 s1 s2 pre =>
    refine ⟨fun h => by simp at h, fun _ => ⟨_, rfl, ?_⟩⟩
    have : (pre ++ [s1, s2, s0]).dropLast ++ [p] = pre ++ [s1, s2, p] := by
      simp [List.dropLast_append_of_ne_nil]
    rw [this]; exact Rep.r1 p s1 s2 pre
  | r2 s0 s1 s2 pre =>
    refine ⟨fun h => by simp at h, fun _ => ⟨_, rfl, ?_⟩⟩
    have : (pre ++ [s2, s0, s1]).dropLast ++ [p] = pre ++ [s2, s0, p] := by
      simp [List.dropLast_append_of_ne_nil]
    rw [this]; exact Rep.r2 s0 p s2 pre

theorem Rep.clear {b : PointBuffer β} {l : List β} (h : Rep b l) : Rep b.clear [] := by
  cases h <;> exact Rep.c0 _ _ _

theorem window_append3 (pre : List β) (a b c : β) : window (pre ++ [a, b, c]) = [a, b, c] := by
  unfold window
  have : (pre ++ [a, b, c]).length - 3 = pre.length := by simp
  rw [this]; simp

/-- what can be observed through `count`, `get`, `last`, `last_two_mut` -/
theorem Rep.observe {b : PointBuffer β} {l : List β} (h : Rep b l) :
    b.count = min 3 l.length ∧ b.count = (window l).length
    ∧ (∀ i, i < b.count → b.get i = (window l)[i]?)
    ∧ b.last = l.getLast?
    ∧ (2 ≤ b.count → ∃ x y, b.lastTwo = some (x, y) ∧ b.get (b.count - 2) = some x ∧ b.last = some y) := by
  cases h with
  | c0 s0 s1 s2 => simp [window, PointBuffer.last]
  | c1 s0 s1 s2 =>
    refine ⟨by simp, by simp [window], ?_, by simp [PointBuffer.last, PointBuffer.get, PointBuffer.slot], by simp⟩
    intro i hi; interval_cases i; simp [window, PointBuffer.get, PointBuffer.slot]
  | c2 s0 s1 s2 =>
    refine ⟨by simp, by simp [window], ?_, by simp [PointBuffer.last, PointBuffer.get, PointBuffer.slot], ?_⟩
    · intro i hi; interval_cases i <;> simp [window, PointBuffer.get, PointBuffer.slot]
    · intro _; exact ⟨s0, s1, by simp [PointBuffer.lastTwo, PointBuffer.slot, PointBuffer.get, PointBuffer.last]⟩
  | r0 s0 s1 s2 pre =>
    refine ⟨by simp, by simp [window_append3], ?_, by simp [PointBuffer.last, PointBuffer.get, PointBuffer.slot], ?_⟩
    · intro i hi; rw [window_append3]; interval_cases i <;> simp [PointBuffer.get, PointBuffer.slot]
    · intro _; exact ⟨s1, s2, by simp [PointBuffer.lastTwo, PointBuffer.slot, PointBuffer.get, PointBuffer.last]⟩
  | r1 s0 s1 s2 pre =>
    refine ⟨by simp, by simp [window_append3], ?_, by simp [PointBuffer.last, PointBuffer.get, PointBuffer.slot], ?_⟩
    · intro i hi; rw [window_append3]; interval_cases i <;> simp [PointBuffer.get, PointBuffer.slot]
    · intro _; exact ⟨s2, s0, by simp [PointBuffer.lastTwo, PointBuffer.slot, PointBuffer.get, PointBuffer.last]⟩
  | r2 s0 s1 s2 pre =>
    refine ⟨by simp, by simp [window_append3], ?_, by simp [PointBuffer.last, PointBuffer.get, PointBuffer.slot], ?_⟩
    · intro i hi; rw [window_append3]; interval_cases i <;> simp [PointBuffer.get, PointBuffer.slot]
    · intro _; exact ⟨s0, s1, by simp [PointBuffer.lastTwo, PointBuffer.slot, PointBuffer.get, PointBuffer.last]⟩

theorem Rep.run {b : PointBuffer β} {l : List β} (h : Rep b l) (ops : List (BufOp β)) :
    match specRun l ops with
    | none => b.run ops = none
    | some l' => ∃ b', b.run ops = some b' ∧ Rep b' l' := by
  induction ops generalizing b l with
  | nil => exact ⟨b, rfl, h⟩
  | cons op ops ih =>
    cases op with
    | push p =>
      obtain ⟨b', hb, hr⟩ := h.push p
      have := ih hr
      simpa [specRun, specApply, PointBuffer.run, PointBuffer.apply, hb] using this
    | replaceLast p =>
      by_cases hl : l = []
      · have := (h.replaceLast p).1 hl
        simp [specRun, specApply, PointBuffer.run, PointBuffer.apply, hl, this]
      · obtain ⟨b', hb, hr⟩ := (h.replaceLast p).2 hl
        have := ih hr
        simpa [specRun, specApply, PointBuffer.run, PointBuffer.apply, hb, hl] using this
    | clear =>
      have := ih h.clear
      simpa [specRun, specApply, PointBuffer.run, PointBuffer.apply] using this


end Buffer

/-! ## the merge rule -/

section Merge
variable {K : Type} [Field K] [LinearOrder K] [IsStrictOrderedRing K]

/-- feed a list of points (none of them a flattening step) through the step functions' window logic -/
noncomputable def feed (thr : K) (w : Window K) : List (P K) → Option (Window K)
  | [] => some w
  | p :: ps => match w.step thr p with
    | none => none
    | some w' => feed thr w' ps

/-- consecutive entries are at least `thr` apart (squared distance) -/
def Apart (thr : K) (l : List (P K)) : Prop :=
  ∀ i p q, l[i]? = some p → l[i + 1]? = some q → thr ≤ (p - q).sqLen

theorem Apart.snoc {thr : K} {l : List (P K)} (h : Apart thr l) (p : P K)
    (hl : ∀ x, l.getLast? = some x → thr ≤ (x - p).sqLen) : Apart thr (l ++ [p]) := by
  intro i a b ha hb
  by_cases h1 : i + 1 < l.length
  · rw [List.getElem?_append_left (by omega)] at ha
    rw [List.getElem?_append_left h1] at hb
    exact h i a b ha hb
  · by_cases h2 : i + 1 = l.length
    · rw [List.getElem?_append_left (by omega)] at ha
      rw [List.getElem?_append_right (by omega)] at hb
      have hb' : b = p := by
        have : i + 1 - l.length = 0 := by omega
        rw [this] at hb; simpa using hb.symm
      subst hb'
      apply hl
      rw [List.getLast?_eq_getElem?]
      have : l.length - 1 = i := by omega
      rw [this]; exact ha
    · have : (l ++ [p])[i + 1]? = none := by
        rw [List.getElem?_eq_none_iff]; simp; omega
      rw [this] at hb; cases hb

theorem step_inv {thr : K} {w : Window K} {l : List (P K)} (hr : Rep w.buf l) (ha : Apart thr l) (p : P K) :
    ∃ w' l', w.step thr p = some w' ∧ Rep w'.buf l' ∧ Apart thr l' := by
  unfold Window.step
  by_cases hm : w.merges thr p = true
  · rw [if_pos hm]; exact ⟨_, l, rfl, hr, ha⟩
  · rw [if_neg hm]
    obtain ⟨b', hb, hr'⟩ := hr.push p
    refine ⟨{ w with buf := b' }, l ++ [p], by simp [hb], hr', ?_⟩
    apply ha.snoc
    intro x hx
    have hlast : w.buf.last = some x := by rw [hr.observe.2.2.2.1]; exact hx
    simp only [Window.merges, hlast, pointsAreTooClose, Bool.not_eq_true, decide_eq_false_iff_not] at hm
    exact not_lt.mp hm

theorem feed_inv (thr : K) (ps : List (P K)) : ∀ (w : Window K) (l : List (P K)), Rep w.buf l → Apart thr l →
    ∃ w' l', feed thr w ps = some w' ∧ Rep w'.buf l' ∧ Apart thr l' := by
  induction ps with
  | nil => intro w l hr ha; exact ⟨w, l, rfl, hr, ha⟩
  | cons p ps ih =>
    intro w l hr ha
    obtain ⟨w1, l1, hs, hr1, ha1⟩ := step_inv hr ha p
    obtain ⟨w2, l2, hf, hr2, ha2⟩ := ih w1 l1 hr1 ha1
    exact ⟨w2, l2, by simp [feed, hs, hf], hr2, ha2⟩


end Merge

section Normal
variable {K : Type} [Field K] [LinearOrder K] [IsStrictOrderedRing K] [Transc K]

theorem normalEpsilon_eq : (normalEpsilon : K) = 1 / 10000 := by
  simp only [normalEpsilon, geom]; norm_num


end Normal

end Lyon.C05
