/-
  Structural well-formedness of the fill tessellator's event queue (`Model/Tess/EventQueue.lean`)
  and its preservation by every queue operation the sweep uses - the pointer-level facts that the
  record invariants of `Lemmas/SweepRepInv.lean` (C07b) rest on:

  `Link n x`   : `x` is `INVALID` or an index `< n`;
  `LinksOk`    : every `next_sibling` / `next_event` link of an event array is a `Link`;
  `QOk q`      : `events` and `edge_data` have the same length, all links are `Link`s, `first` is;
  preserved by `push_unsorted`, `insert_into_sorted_list` (whatever the walk does, also when it
  runs out of fuel), `insert_sorted`, `insert_sibling`, `vertex_event_on_edge_sorted`,
  `push_unlinked`, and established by `ofRecs` + the pointer-level merge `sort`.

  Consequence (`siblings_lt`): every id enumerated by a sibling list that starts at a `Link` is a
  valid index, so `q.ed i` of such an id is a stored record - not the default record.

  No arithmetic law of the scalar type is used.
-/
import LyonVerif.Model.Tess.Sweep

set_option linter.unusedSectionVars false
set_option linter.unusedVariables false
set_option linter.unusedSimpArgs false

namespace Lyon.SweepRep
open Lyon Lyon.Scalar Lyon.EQ Lyon.Sweep

variable {α : Type} [Scalar α]

/-- an id that is `INVALID` or a valid index -/
def Link (n x : Nat) : Prop := x = INVALID ∨ x < n

theorem Link.mono {n m x : Nat} (h : Link n x) (hnm : n ≤ m) : Link m x :=
  h.imp id (fun h => Nat.lt_of_lt_of_le h hnm)

theorem Link.invalid (n : Nat) : Link n INVALID := Or.inl rfl

theorem Link.of_lt {n x : Nat} (h : x < n) : Link n x := Or.inr h

theorem Link.lt_of_ne {n x : Nat} (h : Link n x) (hne : (x == INVALID) = false) : x < n := by
  rcases h with h | h
  · simp [h] at hne
  · exact h

theorem Link.lt_of_ne' {n x : Nat} (h : Link n x) (hne : ¬ (x == INVALID) = true) : x < n :=
  h.lt_of_ne (by simpa using hne)

def LinksOk (evs : Array (Event α)) : Prop :=
  ∀ i (h : i < evs.size), Link evs.size evs[i].nextSibling ∧ Link evs.size evs[i].nextEvent

theorem getD_links {evs : Array (Event α)} (h : LinksOk evs) (i : Nat) :
    Link evs.size (evs.getD i Event.dflt).nextSibling ∧ Link evs.size (evs.getD i Event.dflt).nextEvent := by
  by_cases hi : i < evs.size
  · have : evs.getD i Event.dflt = evs[i] := by simp [Array.getD, hi]
    rw [this]; exact h i hi
  · have : evs.getD i Event.dflt = Event.dflt := by simp [Array.getD, hi]
    rw [this]; exact ⟨Link.invalid _, Link.invalid _⟩

theorem linksOk_modify {evs : Array (Event α)} (h : LinksOk evs) (id : Nat) (f : Event α → Event α)
    (hf : ∀ e, Link evs.size e.nextSibling → Link evs.size e.nextEvent →
      Link evs.size (f e).nextSibling ∧ Link evs.size (f e).nextEvent) : LinksOk (evs.modify id f) := by
  intro i hi
  have hi' : i < evs.size := by simpa using hi
  simp only [Array.size_modify, Array.getElem_modify]
  split
  · exact hf _ (h i hi').1 (h i hi').2
  · exact h i hi'

theorem setNextEvent_ok {evs : Array (Event α)} (h : LinksOk evs) (id nx : Nat) (hn : Link evs.size nx) :
    LinksOk (Queue.setNextEvent evs id nx) :=
  linksOk_modify h id _ (fun e h1 _ => ⟨h1, hn⟩)

theorem setNextSibling_ok {evs : Array (Event α)} (h : LinksOk evs) (id nx : Nat) (hn : Link evs.size nx) :
    LinksOk (Queue.setNextSibling evs id nx) :=
  linksOk_modify h id _ (fun e _ h2 => ⟨hn, h2⟩)

@[simp] theorem size_setNextEvent (evs : Array (Event α)) (id nx : Nat) :
    (Queue.setNextEvent evs id nx).size = evs.size := by simp [Queue.setNextEvent]

@[simp] theorem size_setNextSibling (evs : Array (Event α)) (id nx : Nat) :
    (Queue.setNextSibling evs id nx).size = evs.size := by simp [Queue.setNextSibling]

theorem linksOk_push {evs : Array (Event α)} (h : LinksOk evs) (e : Event α)
    (h1 : Link (evs.size + 1) e.nextSibling) (h2 : Link (evs.size + 1) e.nextEvent) : LinksOk (evs.push e) := by
  intro i hi
  simp only [Array.size_push] at hi ⊢
  rw [Array.getElem_push]
  split
  · rename_i hlt
    exact ⟨(h i hlt).1.mono (Nat.le_succ _), (h i hlt).2.mono (Nat.le_succ _)⟩
  · exact ⟨h1, h2⟩

/-! ### the queue -/

structure QOk (q : Queue α) : Prop where
  size : q.edgeData.size = q.events.size
  links : LinksOk q.events
  first : Link q.events.size q.first

theorem QOk.ev_links {q : Queue α} (h : QOk q) (i : Nat) :
    Link q.events.size (q.ev i).nextSibling ∧ Link q.events.size (q.ev i).nextEvent :=
  getD_links h.links i

theorem QOk.nextId {q : Queue α} (h : QOk q) (i : Nat) : Link q.events.size (q.nextId i) := (h.ev_links i).2

theorem QOk.ed_eq {q : Queue α} (h : QOk q) {i : Nat} (hi : i < q.edgeData.size) : q.ed i = q.edgeData[i] := by
  simp [Queue.ed, Array.getD, hi]

/-- every id of a sibling list that starts at a `Link` is a valid index -/
theorem siblings_lt {q : Queue α} (h : QOk q) : ∀ (f id : Nat), Link q.events.size id →
    ∀ i ∈ q.siblings f id, i < q.events.size
  | 0, _, _, i, hi => by simp [Queue.siblings] at hi
  | f+1, id, hl, i, hi => by
    simp only [Queue.siblings] at hi
    split at hi
    · simp at hi
    · rename_i hne
      rcases List.mem_cons.mp hi with e | e
      · exact e ▸ hl.lt_of_ne' hne
      · exact siblings_lt h f _ (h.ev_links id).1 i e

theorem qok_pushUnsorted {q : Queue α} (h : QOk q) (p : P α) (d : EdgeData α) : QOk (q.pushUnsorted p d) := by
  refine ⟨?_, ?_, ?_⟩
  · simp [Queue.pushUnsorted, h.size]
  · exact linksOk_push h.links _ (Link.invalid _) (Link.invalid _)
  · simpa [Queue.pushUnsorted] using h.first.mono (Nat.le_succ _)

@[simp] theorem pushUnsorted_events_size (q : Queue α) (p : P α) (d : EdgeData α) :
    (q.pushUnsorted p d).events.size = q.events.size + 1 := by simp [Queue.pushUnsorted]

@[simp] theorem pushUnsorted_edgeData (q : Queue α) (p : P α) (d : EdgeData α) :
    (q.pushUnsorted p d).edgeData = q.edgeData.push d := rfl

/-- the walk of `insert_into_sorted_list` -/
theorem insertLoop_ok (idx : Nat) (p : P α) : ∀ (f : Nat) (evs : Array (Event α)) (prev current : Nat)
    (evs' : Array (Event α)), LinksOk evs → idx < evs.size → Link evs.size current →
    Queue.insertLoop idx p f evs prev current = some evs' → LinksOk evs' ∧ evs'.size = evs.size
  | 0, _, _, _, _, _, _, _, e => by simp [Queue.insertLoop] at e
  | f+1, evs, prev, current, evs', h, hidx, hc, e => by
    simp only [Queue.insertLoop] at e
    by_cases hc0 : (current == INVALID) = true
    · rw [if_pos hc0] at e
      cases e
      exact ⟨setNextEvent_ok h _ _ (Link.of_lt hidx), by simp⟩
    · rw [if_neg hc0] at e
      have hcl : current < evs.size := hc.lt_of_ne' hc0
      have gl := getD_links h current
      generalize evs.getD current Event.dflt = ev at e gl
      by_cases hp : (ev.pos == p) = true
      · rw [if_pos hp] at e
        cases e
        refine ⟨setNextSibling_ok (setNextSibling_ok h _ _ gl.1) _ _ ?_, by simp⟩
        simpa using Link.of_lt hidx
      · rw [if_neg hp] at e
        by_cases ha : Sources.isAfter ev.pos p = true
        · rw [if_pos ha] at e
          cases e
          refine ⟨setNextEvent_ok (setNextEvent_ok h _ _ (Link.of_lt hidx)) _ _ ?_, by simp⟩
          simpa using Link.of_lt hcl
        · rw [if_neg ha] at e
          exact insertLoop_ok idx p f evs current _ evs' h hidx gl.2 e

theorem qok_insertIntoSortedList {q : Queue α} (h : QOk q) (idx : Nat) (p : P α) (after : Nat)
    (hidx : idx < q.events.size) (ha : Link q.events.size after) :
    QOk (q.insertIntoSortedList idx p after) ∧
    (q.insertIntoSortedList idx p after).events.size = q.events.size ∧
    (q.insertIntoSortedList idx p after).edgeData = q.edgeData := by
  unfold Queue.insertIntoSortedList
  split
  · rename_i evs he
    obtain ⟨h1, h2⟩ := insertLoop_ok idx p _ _ _ _ _ h.links hidx ha he
    exact ⟨⟨by simp [h.size, h2], h1, by simpa [h2] using h.first⟩, h2, rfl⟩
  · exact ⟨⟨h.size, h.links, h.first⟩, rfl, rfl⟩

theorem qok_insertSorted {q : Queue α} (h : QOk q) (p : P α) (d : EdgeData α) (after : Nat)
    (ha : Link q.events.size after) :
    QOk (q.insertSorted p d after).1 ∧ (q.insertSorted p d after).1.events.size = q.events.size + 1 ∧
    (q.insertSorted p d after).1.edgeData = q.edgeData.push d ∧ (q.insertSorted p d after).2 = q.events.size := by
  unfold Queue.insertSorted
  have h1 := qok_pushUnsorted h p d
  have := qok_insertIntoSortedList h1 q.events.size p after (by simp) (by simpa using ha.mono (Nat.le_succ _))
  exact ⟨this.1, by simpa using this.2.1, by simpa using this.2.2, rfl⟩

theorem qok_vertexEventOnEdgeSorted {q : Queue α} (h : QOk q) (p : P α) (t : α) (f g after : Nat)
    (ha : Link q.events.size after) :
    QOk (q.vertexEventOnEdgeSorted p t f g after) ∧
    (q.vertexEventOnEdgeSorted p t f g after).events.size = q.events.size + 1 ∧
    (q.vertexEventOnEdgeSorted p t f g after).edgeData = q.edgeData.push ⟨Sources.nanPoint, t, t, 0, false, f, g⟩ := by
  unfold Queue.vertexEventOnEdgeSorted
  have h1 := qok_pushUnsorted h p ⟨Sources.nanPoint, t, t, 0, false, f, g⟩
  have := qok_insertIntoSortedList h1 q.events.size p after (by simp) (by simpa using ha.mono (Nat.le_succ _))
  exact ⟨this.1, by simpa using this.2.1, by simpa using this.2.2⟩

theorem qok_insertSibling {q : Queue α} (h : QOk q) (sibling : Nat) (p : P α) (d : EdgeData α) :
    QOk (q.insertSibling sibling p d) ∧ (q.insertSibling sibling p d).events.size = q.events.size + 1 ∧
    (q.insertSibling sibling p d).edgeData = q.edgeData.push d := by
  unfold Queue.insertSibling
  have hp : LinksOk (q.events.push ⟨(q.ev sibling).nextSibling, INVALID, p⟩) :=
    linksOk_push h.links _ ((h.ev_links sibling).1.mono (Nat.le_succ _)) (Link.invalid _)
  refine ⟨⟨by simp [h.size], ?_, ?_⟩, by simp, rfl⟩
  · apply setNextSibling_ok hp
    simp only [Array.size_push]
    exact Link.of_lt (Nat.lt_succ_self _)
  · simpa using h.first.mono (Nat.le_succ _)

/-! ### `sort` -/

theorem findLastSibling_lt {evs : Array (Event α)} (h : LinksOk evs) : ∀ (f id : Nat), id < evs.size →
    Queue.findLastSibling evs f id < evs.size
  | 0, id, hid => by simpa [Queue.findLastSibling] using hid
  | f+1, id, hid => by
    simp only [Queue.findLastSibling]
    have gl := getD_links h id
    generalize evs.getD id Event.dflt = ev at gl
    by_cases hn : (ev.nextSibling == INVALID) = true
    · rw [if_pos hn]; exact hid
    · rw [if_neg hn]
      exact findLastSibling_lt h f _ (gl.1.lt_of_ne' hn)

theorem mergeLoop_ok : ∀ (f : Nat) (evs : Array (Event α)) (a b : Nat) (first : Bool) (head prev : Nat),
    LinksOk evs → Link evs.size a → Link evs.size b → Link evs.size head →
    LinksOk (Queue.mergeLoop f evs a b first head prev).1 ∧
    (Queue.mergeLoop f evs a b first head prev).1.size = evs.size ∧
    Link evs.size (Queue.mergeLoop f evs a b first head prev).2.1 ∧
    Link evs.size (Queue.mergeLoop f evs a b first head prev).2.2
  | 0, evs, a, b, first, head, prev, h, ha, hb, hh => by
    simp only [Queue.mergeLoop]
    exact ⟨h, trivial, hh, ha⟩
  | f+1, evs, a, b, first, head, prev, h, ha, hb, hh => by
    simp only [Queue.mergeLoop]
    by_cases ha0 : (a == INVALID) = true
    · rw [if_pos ha0]
      refine ⟨?_, ?_, hh, ha⟩
      · cases first
        · exact setNextEvent_ok h _ _ hb
        · exact h
      · cases first <;> simp
    · rw [if_neg ha0]
      have hal : a < evs.size := ha.lt_of_ne' ha0
      by_cases hb0 : (b == INVALID) = true
      · rw [if_pos hb0]
        refine ⟨?_, ?_, hh, ha⟩
        · cases first
          · exact setNextEvent_ok h _ _ ha
          · exact h
        · cases first <;> simp
      · rw [if_neg hb0]
        have hbl : b < evs.size := hb.lt_of_ne' hb0
        have gla := getD_links h a
        have glb := getD_links h b
        have hfl := findLastSibling_lt h (evs.size + 1) a hal
        generalize Queue.findLastSibling evs (evs.size + 1) a = ls at hfl
        generalize evs.getD a Event.dflt = ea at gla
        generalize evs.getD b Event.dflt = eb at glb
        cases comparePositions ea.pos eb.pos
        · -- lt
          dsimp only
          cases first
          · have h' := setNextEvent_ok h prev a ha
            have := mergeLoop_ok f (Queue.setNextEvent evs prev a) ea.nextEvent b false head a h'
              (by simpa using gla.2) (by simpa using hb) (by simpa using hh)
            simpa using this
          · exact mergeLoop_ok f evs _ b false a a h gla.2 hb ha
        · -- eq
          dsimp only
          have h' := setNextSibling_ok h ls b hb
          have := mergeLoop_ok f (Queue.setNextSibling evs ls b) a eb.nextEvent first head prev h'
            (by simpa using ha) (by simpa using glb.2) (by simpa using hh)
          simpa using this
        · -- gt
          dsimp only
          cases first
          · have h' := setNextEvent_ok h prev b hb
            have := mergeLoop_ok f (Queue.setNextEvent evs prev b) a eb.nextEvent false head b h'
              (by simpa using ha) (by simpa using glb.2) (by simpa using hh)
            simpa using this
          · exact mergeLoop_ok f evs a _ false b b h ha glb.2 hb

theorem merge_ok {evs : Array (Event α)} (h : LinksOk evs) (a b : Nat) (ha : Link evs.size a) (hb : Link evs.size b) :
    LinksOk (Queue.merge evs a b).1 ∧ (Queue.merge evs a b).1.size = evs.size ∧
    Link evs.size (Queue.merge evs a b).2 := by
  unfold Queue.merge
  split
  · exact ⟨h, rfl, hb⟩
  · split
    · exact ⟨h, rfl, ha⟩
    · have := mergeLoop_ok (2 * evs.size + 4) evs a b true INVALID INVALID h ha hb (Link.invalid _)
      refine ⟨this.1, this.2.1, ?_⟩
      dsimp only
      split
      · exact this.2.2.2
      · exact this.2.2.1

theorem mergeSort_ok : ∀ (k : Nat) (evs : Array (Event α)) (s e : Nat), e - s ≤ k → LinksOk evs → s < e → e ≤ evs.size →
    LinksOk (Queue.mergeSort evs s e).1 ∧ (Queue.mergeSort evs s e).1.size = evs.size ∧
    Link evs.size (Queue.mergeSort evs s e).2
  | 0, evs, s, e, hk, h, hse, hes => by omega
  | k+1, evs, s, e, hk, h, hse, hes => by
    rw [Queue.mergeSort]
    dsimp only
    split
    · exact ⟨h, rfl, Link.of_lt (by omega)⟩
    · split
      · exact ⟨h, rfl, Link.of_lt (by omega)⟩
      · rename_i h1 h2
        have ra := mergeSort_ok k evs s ((s + e) / 2) (by omega) h (by omega) (by omega)
        have rb := mergeSort_ok k (Queue.mergeSort evs s ((s + e) / 2)).1 ((s + e) / 2) e (by omega) ra.1 (by omega)
          (by rw [ra.2.1]; exact hes)
        have rm := merge_ok rb.1 (Queue.mergeSort evs s ((s + e) / 2)).2
          (Queue.mergeSort (Queue.mergeSort evs s ((s + e) / 2)).1 ((s + e) / 2) e).2
          (by rw [rb.2.1, ra.2.1]; exact ra.2.2) (by rw [rb.2.1]; exact rb.2.2)
        refine ⟨rm.1, by rw [rm.2.1, rb.2.1, ra.2.1], ?_⟩
        have := rm.2.2
        rwa [rb.2.1, ra.2.1] at this

/-- `sort` keeps the queue well formed (and does not touch `edge_data`) -/
theorem qok_sort {q : Queue α} (h : QOk q) : QOk q.sort ∧ q.sort.edgeData = q.edgeData ∧
    q.sort.events.size = q.events.size := by
  unfold Queue.sort
  split
  · exact ⟨⟨h.size, h.links, h.first⟩, rfl, rfl⟩
  · rename_i hne
    have hpos : 0 < q.events.size := by
      rcases Nat.eq_zero_or_pos q.events.size with h0 | h0
      · simp [h0] at hne
      · exact h0
    have := mergeSort_ok q.events.size q.events 0 q.events.size (by omega) h.links hpos (Nat.le_refl _)
    exact ⟨⟨by simp [h.size, this.2.1], this.1, by simpa [this.2.1] using this.2.2⟩, rfl, this.2.1⟩

/-- the unsorted queue of the builder's records -/
theorem qok_ofRecs_aux (recs : List (Sources.EdgeRec α)) : ∀ (q : Queue α), QOk q →
    QOk (recs.foldl (fun q r => q.pushUnsorted r.pos ⟨r.to, r.t0, r.t1, r.winding, r.isEdge, r.fromId, r.toId⟩) q) := by
  induction recs with
  | nil => intro q h; exact h
  | cons r rs ih => intro q h; exact ih _ (qok_pushUnsorted h _ _)

theorem qok_empty : QOk (Queue.empty : Queue α) :=
  ⟨rfl, by intro i hi; simp [Queue.empty] at hi, Link.invalid _⟩

theorem qok_ofRecs (recs : List (Sources.EdgeRec α)) : QOk (Queue.ofRecs recs) := by
  unfold Queue.ofRecs
  exact qok_ofRecs_aux recs _ qok_empty

/-- the records of `ofRecs`, as `EdgeData` -/
def dataOf (r : Sources.EdgeRec α) : EdgeData α := ⟨r.to, r.t0, r.t1, r.winding, r.isEdge, r.fromId, r.toId⟩

theorem ofRecs_edgeData_aux (recs : List (Sources.EdgeRec α)) : ∀ (q : Queue α),
    (recs.foldl (fun q r => q.pushUnsorted r.pos ⟨r.to, r.t0, r.t1, r.winding, r.isEdge, r.fromId, r.toId⟩) q).edgeData
      = q.edgeData ++ (recs.map dataOf).toArray := by
  induction recs with
  | nil => intro q; simp
  | cons r rs ih =>
    intro q
    simp only [List.foldl_cons, List.map_cons]
    rw [ih]
    simp [dataOf]

theorem ofRecs_edgeData (recs : List (Sources.EdgeRec α)) :
    (Queue.ofRecs recs).edgeData = (recs.map dataOf).toArray := by
  unfold Queue.ofRecs
  rw [ofRecs_edgeData_aux]
  simp [Queue.empty]

end Lyon.SweepRep
