/-
  C02 growth 4 (`Props/C02g.lean`), part 12: helpers for the flush-and-forward step of the advanced
  tessellator as a `Tiles0` step on the FINE remaining polygon (inner stack, buffered chains,
  future chains): the chain polygon of a buffered chain inside both full chains
  (`chain_poly_full`), the full chain from a buffered chain's head on (`chainIn_from_head`), the
  angular lemma `turn_fan_le`, and the invariant bundle `W3`.
-/
import LyonVerif.Lemmas.MonotoneTileAdvSetCut

set_option linter.unusedSectionVars false
set_option linter.unusedVariables false
set_option linter.unusedSimpArgs false

namespace Lyon.C02f
open Lyon Lyon.Mono Lyon.C02 Lyon.C02c

section Geometry
variable {K : Type} [Field K] [LinearOrder K] [IsStrictOrderedRing K]

/-- directions from `p`: `r` weakly on side `c` of `p → m`, `d` weakly on the other side ⟹ `r` weakly
on side `c` of `p → d` -/
theorem turn_fan_le (c : Bool) {p r m d : P K} (hr : After r p) (hm : After m p) (hd : After d p)
    (h1 : 0 ≤ sg c * wind p r m) (h2 : 0 ≤ sg (!c) * wind p d m) : 0 ≤ sg c * wind p r d := by
  have hρ := after_hv hr
  have hμ := after_hv hm
  have hδ := after_hv hd
  rw [sg_not] at h2
  rw [wind_cross_a] at h1 h2 ⊢
  cases c
  · simp only [sg, Bool.false_eq_true, if_false, neg_one_mul] at h1 h2 ⊢
    -- ρ×μ ≥ 0 (from μ×ρ ≤ 0), μ×δ ≥ 0 ⟹ ρ×δ ≥ 0
    have a1 : 0 ≤ (r - p).cross (m - p) := by rw [cross_flip]; linarith
    have a2 : 0 ≤ (m - p).cross (d - p) := by linarith
    have := cross_trans_le hρ hμ hδ a1 a2
    rw [cross_flip] at this; linarith
  · simp only [sg, if_true, one_mul] at h1 h2 ⊢
    have a2 : 0 ≤ (d - p).cross (m - p) := by rw [cross_flip]; linarith
    exact cross_trans_le hδ hμ hρ a2 h1

variable (seq : List (P K × Bool))

/-- the chain polygon of a buffered chain lies inside BOTH chains of the polygon -/
theorem chain_poly_full (hval : SweepValid seq) (hnc : NoCollinear seq) (h2 : 2 ≤ seq.length) {l : Bool} {k : Nat}
    {s : SideEv K} (hc : SideChain seq l k s) (hk' : k + 1 ≤ seq.length) (hcc : ChordClear seq l s)
    (hci : CInv (posOf seq) l s) (hl2' : 2 ≤ s.events.length) (x : P K)
    (hx' : InPoly l (s.events.map (posOf seq)) [posOf seq (headId s), s.last.pos] x) :
    ChainIn l ((0 :: futIds seq l 1).map (posOf seq)) x ∧ ChainIn (!l) ((0 :: futIds seq (!l) 1).map (posOf seq)) x := by
  have hg := chainGeneral_of seq hnc hc (by omega)
  refine chain_poly_inside seq hval h2 hc hk' hcc hl2' x hx' ?_
  intro i' j hi hj hjn hf
  have hcov := (flush_side_fan_tiles hci hg).cover x (by rw [chain_poly_eq seq hc]; exact hx')
  rcases hcov with g | ⟨t, ht, hin⟩
  · exact absurd g id
  have hge : ∀ v ∈ s.events, headId s ≤ v := by
    intro v hv
    have hinc := hc.inc
    rw [hc.head_mem seq] at hinc hv
    rcases List.mem_cons.mp hv with g | g
    · omega
    · exact Nat.le_of_lt (List.rel_of_pairwise_cons hinc g)
  have hid : ∀ p, p < s.events.length → i' < s.events.toArray.getD p 0 ∧ s.events.toArray.getD p 0 < j := by
    intro p hp
    have e : s.events.toArray.getD p 0 = s.events[p] := by simp [hp]
    have hm : s.events[p] ∈ s.events := List.getElem_mem hp
    have h1 := hc.le_last seq _ hm
    have h3 := hge _ hm
    rw [e]; omega
  have hpos : 0 < triW (posOf seq) t := by
    have h1 := flush_tris_nonneg hci t ht
    obtain ⟨a, b, c, hab, hbc, hcl', hshape⟩ := flushLevels_ids s.events.toArray s.events.length (!l) t ht
    have ge : ∀ p, posOf seq (s.events.toArray.getD p 0) = evPos (posOf seq) s.events p := by
      intro p; simp [evPos, List.getD_eq_getElem?_getD]
    have hne := hg a b c hab hbc hcl'
    refine lt_of_le_of_ne h1 (Ne.symm ?_)
    cases l
    · simp only [Bool.not_false, if_true] at hshape
      rcases hshape with e | e <;> rw [e] <;> simp only [triW, ge]
      · rw [wind_swap]; exact neg_ne_zero.mpr hne
      · rw [wind_swap23]; exact neg_ne_zero.mpr hne
    · simp only [Bool.not_true, Bool.false_eq_true, if_false] at hshape
      rw [hshape]; simp only [triW, ge]; exact hne
  obtain ⟨a, b, c, hab, hbc, hcl', hshape⟩ := flushLevels_ids s.events.toArray s.events.length (!l) t ht
  have fa := hf _ (hid a (by omega)).1 (hid a (by omega)).2
  have fb := hf _ (hid b (by omega)).1 (hid b (by omega)).2
  have fc := hf _ (hid c hcl').1 (hid c hcl').2
  unfold TriInC at hin
  unfold triW at hpos
  cases l
  · simp only [Bool.not_false, if_true] at hshape
    rcases hshape with e | e <;> rw [e] at hin hpos
    · exact inTriC_side hin hpos fb fa fc
    · exact inTriC_side hin hpos fa fc fb
  · simp only [Bool.not_true, Bool.false_eq_true, if_false] at hshape
    rw [hshape] at hin hpos
    exact inTriC_side hin hpos fa fb fc

/-- a point of the polygon's chain of side `τ` at or after the head of a buffered chain of that side is
spanned by the buffered chain or the not yet fed part -/
theorem chainIn_from_head (hval : SweepValid seq) {τ : Bool} {k : Nat} {s : SideEv K} (hc : SideChain seq τ k s)
    (hk : k + 1 ≤ seq.length) (h2 : 2 ≤ seq.length) (hk1 : 1 ≤ k) (c : Bool) (x : P K)
    (hx : ChainIn c ((0 :: futIds seq τ 1).map (posOf seq)) x) (hq : AfterEq x (posOf seq (headId s))) :
    ChainIn c (s.events.map (posOf seq) ++ fut seq τ k) x := by
  obtain ⟨Pre, e, hlt, hsorted⟩ := fullchain_split seq hc hk h2 hk1
  rw [e] at hx
  have hev := hc.head_mem seq
  rw [hev] at hx ⊢
  simp only [List.map_append, List.map_cons, List.append_assoc, List.cons_append, fut] at hx ⊢
  refine chainIn_suffix c _ _ _ x ?_ hq hx
  have hhk : headId s < k := hc.lt _ (by rw [hev]; simp)
  have := sortedP_ids seq hval (Pre ++ [headId s]) (by
      rw [List.pairwise_append]
      refine ⟨hsorted, by simp, ?_⟩
      intro a ha b hb
      simp only [List.mem_singleton] at hb
      rw [hb]; exact hlt a ha) (by
      intro j hj
      rcases List.mem_append.mp hj with g | g
      · have := hlt j g; omega
      · simp only [List.mem_singleton] at g; omega)
  simpa using this

/-- the invariants of a reached state, bundled -/
structure W3 (l : Bool) (k : Nat) (tess : Basic K) (a b : SideEv K) : Prop where
  y : Y3 seq l k tess a b
  ha : ChordClear seq l a
  hb : ChordClear seq (!l) b
  na : CInv (posOf seq) l a
  nb : CInv (posOf seq) (!l) b

theorem W3.symm {l : Bool} {k : Nat} {tess : Basic K} {a b : SideEv K} (h : W3 seq l k tess a b) :
    W3 seq (!l) k tess b a :=
  ⟨Y3.symm seq h.y, h.hb, by rw [Bool.not_not]; exact h.ha, h.nb, by rw [Bool.not_not]; exact h.na⟩

/-- every vertex of a buffered chain lies weakly on the chain's side of its chord -/
theorem chain_convex_mem {c : Bool} {s : SideEv K} (hci : CInv (posOf seq) c s) :
    ∀ j ∈ s.events, 0 ≤ sg c * wind (posOf seq (headId s)) (posOf seq j) s.last.pos := by
  intro j hj
  obtain ⟨i, hi, e⟩ := List.mem_iff_getElem.mp hj
  have hl : 1 ≤ s.events.length := by omega
  have g := convex_global c (evPos (posOf seq) s.events) s.events.length hci.sorted hci.conv 0 i (s.events.length - 1)
    (by omega) (by omega) (by omega)
  have e0 : evPos (posOf seq) s.events 0 = posOf seq (headId s) := by
    simp only [evPos, headId]
    cases hs : s.events with
    | nil => rw [hs] at hl; simp at hl
    | cons a r => simp
  have ei : evPos (posOf seq) s.events i = posOf seq j := by
    simp [evPos, List.getD_eq_getElem?_getD, hi, e]
  have el : evPos (posOf seq) s.events (s.events.length - 1) = s.last.pos := by
    rw [evPos_last (posOf seq) s.events s.last.id hci.last]; exact hci.good.symm
  rw [e0, ei, el] at g
  exact g

/-- events = head :: middle ++ [last] for a chain of ≥ 2 ids -/
theorem SideChain.split_last {l : Bool} {k : Nat} {s : SideEv K} (hc : SideChain seq l k s) (h2 : 2 ≤ s.events.length) :
    s.events = headId s :: s.events.tail.dropLast ++ [s.last.id] ∧ s.events.tail = s.events.tail.dropLast ++ [s.last.id] := by
  have hev := hc.head_mem seq
  have hl := hc.last
  have htl : s.events.tail ≠ [] := by
    intro e
    rw [hev, e] at h2; simp at h2
  have hlt : s.events.tail.getLast? = some s.last.id := by
    rw [hev] at hl
    rwa [List.getLast?_cons_of_ne_nil htl] at hl
  have e2 : s.events.tail = s.events.tail.dropLast ++ [s.last.id] := by
    have := List.dropLast_append_getLast? s.last.id hlt
    exact this.symm
  refine ⟨?_, e2⟩
  conv_lhs => rw [hev, e2]
  simp

end Geometry

end Lyon.C02f
