/-
  C06b, part 5: the side points of a fixed-width join of the complete stroker model in closed form
  (ordered field, `sqrt` laws, Bevel or Miter join, no fold): with `t0`, `t1` the unit tangents,
  `c = t0·t1`, `s = t0×t1`, `τ = s/(1+c)` (the signed tangent of half the turn angle) the miter vector
  `compute_normal` returns is `m = perp t0 − τ·t0 = perp t1 + τ·t1`, the inner side gets the single
  vertex `j ± m·w/2`, the outer side keeps `j ∓ perp(t0)·w/2`, `j ∓ perp(t1)·w/2` or, for a kept
  miter, the single vertex `j ∓ m·w/2`.
-/
import LyonVerif.Lemmas.StrokeCoverRun
import LyonVerif.Lemmas.StrokeCoverGeo
import LyonVerif.Lemmas.StrokeCoverClipJoin

set_option linter.unusedSectionVars false
set_option linter.unusedVariables false

namespace Lyon.C06b
open Lyon Scalar Lyon.Stroke Lyon.Stroke.Full Lyon.C05 Lyon.C05b Lyon.C05c Lyon.C06
open Lyon.StrokeQuad (lineIntersection)

section
variable {K : Type} [Field K] [LinearOrder K] [IsStrictOrderedRing K] [Transc K]

/-- `compute_join_side_positions_fixed_width` on a fresh endpoint, Bevel or Miter join, no fold -/
theorem joinSidesFw_closed (ix : Lyon.StrokeQuad.Ix K) (prev join next : EP K) (ml hw : K)
    (hlj : join.lineJoin = .bevel ∨ join.lineJoin = .miter
      ∨ (join.lineJoin = .miterClip ∧ (fwGeo prev join next ml hw).unclipped = true)
      ∨ join.lineJoin = .round)
    (hps : join.pos.single = none) (hns : join.neg.single = none)
    (hfold : (fwGeo prev join next ml hw).fold = false) :
    (joinSidesFw ix prev join next ml hw).pos.prev = join.position + (perp (fwGeo prev join next ml hw).pt).smul hw
    ∧ (joinSidesFw ix prev join next ml hw).pos.next = join.position + (perp (fwGeo prev join next ml hw).nt).smul hw
    ∧ (joinSidesFw ix prev join next ml hw).neg.prev = join.position - (perp (fwGeo prev join next ml hw).pt).smul hw
    ∧ (joinSidesFw ix prev join next ml hw).neg.next = join.position - (perp (fwGeo prev join next ml hw).nt).smul hw
    ∧ ((fwGeo prev join next ml hw).frontNeg = true →
        (joinSidesFw ix prev join next ml hw).pos.single
          = some (join.position + (fwGeo prev join next ml hw).normal.smul hw)
        ∧ (joinSidesFw ix prev join next ml hw).neg.single
          = if (fwGeo prev join next ml hw).unclipped then some (join.position - (fwGeo prev join next ml hw).normal.smul hw) else none)
    ∧ ((fwGeo prev join next ml hw).frontNeg = false →
        (joinSidesFw ix prev join next ml hw).neg.single
          = some (join.position - (fwGeo prev join next ml hw).normal.smul hw)
        ∧ (joinSidesFw ix prev join next ml hw).pos.single
          = if (fwGeo prev join next ml hw).unclipped then some (join.position + (fwGeo prev join next ml hw).normal.smul hw) else none) := by
  unfold joinSidesFw frontFix
  simp only [hfold, Bool.false_eq_true, if_false]
  rcases hlj with h | h | ⟨h, hu⟩ | h
  · rw [h]; split_ifs <;> simp_all
  · rw [h]; split_ifs <;> simp_all
  · rw [h, hu]; simp
  · rw [h]; split_ifs <;> simp_all

/-- `perp t1 = c·perp t0 − s·t0`, `t1 = c·t0 + s·perp t0` for a unit `t0` -/
theorem rot_of_unit (t0 t1 : P K) (h0 : t0.sqLen = 1) :
    t1 = t0.smul (t0.dot t1) + (perp t0).smul (t0.cross t1) := by
  simp only [perp, geom] at h0 ⊢
  apply P.ext' <;> simp only []
  · linear_combination (-t1.x) * h0
  · linear_combination (-t1.y) * h0

/-- `c² + s² = 1` for unit vectors -/
theorem cs_unit (t0 t1 : P K) (h0 : t0.sqLen = 1) (h1 : t1.sqLen = 1) :
    t0.dot t1 * t0.dot t1 + t0.cross t1 * t0.cross t1 = 1 := by
  simp only [geom] at h0 h1 ⊢
  linear_combination (t1.x * t1.x + t1.y * t1.y) * h0 + h1

/-- the miter vector `compute_normal` returns, in closed form.  Laws of `sqrt` used: `≥ 0`, squares back. -/
theorem normal_closed (hs0 : ∀ x : K, 0 ≤ x → 0 ≤ Transc.sqrt x)
    (hs : ∀ x : K, 0 ≤ x → Transc.sqrt x * Transc.sqrt x = x) (t0 t1 : P K)
    (h0 : t0.sqLen = 1) (h1 : t1.sqLen = 1) (hg : ¬ (t0 + t1).sqLen < normalEpsilon) :
    0 < 1 + t0.dot t1
    ∧ computeNormal t0 t1 = perp t0 - t0.smul (t0.cross t1 / (1 + t0.dot t1))
    ∧ computeNormal t0 t1 = perp t1 + t1.smul (t0.cross t1 / (1 + t0.dot t1)) := by
  have hnn : (0 : K) ≤ (t0 + t1).sqLen := by
    simp only [geom]; exact add_nonneg (mul_self_nonneg _) (mul_self_nonneg _)
  obtain ⟨m1, m2, m3⟩ := compute_normal_miter t0 t1 h0 h1 hg (hs0 _ hnn) (hs _ hnn)
  have hsum : (t0 + t1).sqLen = 2 * (1 + t0.dot t1) := by
    simp only [geom] at h0 h1 ⊢; linear_combination h0 + h1
  have hge : (1 : K) / 10000 ≤ (t0 + t1).sqLen := by
    have := not_lt.mp hg; rw [normalEpsilon_eq] at this; exact this
  have hc : 0 < 1 + t0.dot t1 := by rw [hsum] at hge; linarith
  have hcne : 1 + t0.dot t1 ≠ 0 := ne_of_gt hc
  have hcs := cs_unit t0 t1 h0 h1
  -- the component of the normal along `t0`
  generalize hN : computeNormal t0 t1 = N at m1 m2 m3
  have hdec : N = t0.smul (N.dot t0) + (perp t0).smul (N.dot (perp t0)) := by
    simp only [perp, geom] at h0 ⊢
    apply P.ext' <;> simp only []
    · linear_combination (-N.x) * h0
    · linear_combination (-N.y) * h0
  have hrot := rot_of_unit t0 t1 h0
  -- `N·perp t1 = c·(N·perp t0) − s·(N·t0)`
  have hrel : N.dot (perp t1) = t0.dot t1 * N.dot (perp t0) - t0.cross t1 * N.dot t0 := by
    simp only [perp, geom] at h0 ⊢
    linear_combination (-(N.x * -t1.y + N.y * t1.x)) * h0
  rw [m1, m2] at hrel
  have hNt0 : N.dot t0 = -(t0.cross t1 / (1 + t0.dot t1)) := by
    have hsq : N.sqLen = N.dot t0 * N.dot t0 + 1 := by
      have : N.sqLen = N.dot t0 * N.dot t0 + N.dot (perp t0) * N.dot (perp t0) := by
        simp only [perp, geom] at h0 ⊢
        linear_combination (-(N.x * N.x + N.y * N.y)) * h0
      rw [this, m1]; ring
    rw [hsq] at m3
    -- s·(N·t0) = c − 1 and ((N·t0)² + 1)(1 + c) = 2
    have e1 : t0.cross t1 * N.dot t0 = t0.dot t1 - 1 := by linarith
    rw [eq_neg_iff_add_eq_zero, ← sub_eq_zero]
    have : (N.dot t0 + t0.cross t1 / (1 + t0.dot t1)) * (1 + t0.dot t1) = N.dot t0 * (1 + t0.dot t1) + t0.cross t1 := by
      field_simp
    have hz : (N.dot t0 * (1 + t0.dot t1) + t0.cross t1) * (N.dot t0 * (1 + t0.dot t1) + t0.cross t1) = 0 := by
      linear_combination (1 + t0.dot t1) * m3 + (2 * (1 + t0.dot t1)) * e1 + hcs
    have hz' : N.dot t0 * (1 + t0.dot t1) + t0.cross t1 = 0 := by
      rcases mul_self_eq_zero.mp hz with h; exact h
    have h3 : (N.dot t0 + t0.cross t1 / (1 + t0.dot t1)) * (1 + t0.dot t1) = 0 := by rw [this, hz']
    rcases mul_eq_zero.mp h3 with h | h
    · simpa using h
    · exact absurd h hcne
  have hA : N = perp t0 - t0.smul (t0.cross t1 / (1 + t0.dot t1)) := by
    rw [hdec, hNt0, m1]
    apply P.ext' <;> simp only [perp, geom] <;> ring
  refine ⟨hc, hA, ?_⟩
  rw [hA]
  obtain ⟨τ, hτd⟩ : ∃ τ : K, τ = t0.cross t1 / (1 + t0.dot t1) := ⟨_, rfl⟩
  have hτ : τ * (1 + t0.dot t1) = t0.cross t1 := by rw [hτd]; exact div_mul_cancel₀ _ hcne
  rw [← hτd]
  apply P.ext' <;> simp only [perp, geom]
  · apply mul_right_cancel₀ hcne
    simp only [geom] at h0 h1 hτ ⊢
    linear_combination (-t1.y) * h0 + t0.y * h1 + (-t0.x - t1.x) * hτ
  · apply mul_right_cancel₀ hcne
    simp only [geom] at h0 h1 hτ ⊢
    linear_combination t1.x * h0 - t0.x * h1 + (-t0.y - t1.y) * hτ

/-! ## the polyline by index: unit tangents, edge lengths, half-turn tangents -/

/-- length of the edge `pt k → pt (k+1)` (`Vector::length`) -/
noncomputable def eL (pt : Nat → P K) (k : Nat) : K := len (pt (k + 1) - pt k)
/-- its unit tangent, as the model computes it (`edge / edge.length()`) -/
noncomputable def eT (pt : Nat → P K) (k : Nat) : P K := (pt (k + 1) - pt k).sdiv (len (pt (k + 1) - pt k))
/-- signed tangent of half the turn angle at `pt (k+1)`: `(t_k × t_{k+1}) / (1 + t_k · t_{k+1})` -/
noncomputable def jtau (pt : Nat → P K) (k : Nat) : K :=
  (eT pt k).cross (eT pt (k + 1)) / (1 + (eT pt k).dot (eT pt (k + 1)))

/-- the miter of the join between `p, j, n` is within the miter limit (`!miter_limit_is_exceeded`: the model's
own test; only meaningful for `Miter` / `MiterClip`) -/
def keptAt (e : Env K) (p j n : P K) : Prop :=
  (fwGeo (EP.mk' p e.hwFw nan e.o.join (.endpoint 0) false) (EP.mk' j e.hwFw nan e.o.join (.endpoint 0) false)
    (EP.mk' n e.hwFw nan e.o.join (.endpoint 0) false) e.o.miterLimit e.hwFw).unclipped = true

/-- the side points of the join at `pt (k+1)` in closed form; `ps` / `ns`: the positive / negative side
has a single vertex -/
structure JClosed0 (e : Env K) (pt : Nat → P K) (k : Nat) (ps ns : Bool) : Prop where
  cpos : 0 < 1 + (eT pt k).dot (eT pt (k + 1))
  inner_pos : 0 ≤ (eT pt k).cross (eT pt (k + 1)) → ps = true
  inner_neg : (eT pt k).cross (eT pt (k + 1)) < 0 → ns = true
  bevel : (e.o.join = .bevel ∨ e.o.join = .round) → ¬ (ps = true ∧ ns = true)
  psingle : (jEP e pt (k + 1)).pos.single.isSome = ps
  nsingle : (jEP e pt (k + 1)).neg.single.isSome = ns
  posPrev : (jEP e pt (k + 1)).pos.prev = pt (k + 1) + (perp (eT pt k)).smul e.hwFw
  posNext : (jEP e pt (k + 1)).pos.next = pt (k + 1) + (perp (eT pt (k + 1))).smul e.hwFw
  negPrev : (jEP e pt (k + 1)).neg.prev = pt (k + 1) - (perp (eT pt k)).smul e.hwFw
  negNext : (jEP e pt (k + 1)).neg.next = pt (k + 1) - (perp (eT pt (k + 1))).smul e.hwFw
  sPosPrev : sPrev (jEP e pt (k + 1)).pos
    = pt (k + 1) + (perp (eT pt k)).smul e.hwFw + (eT pt k).smul (e.hwFw * (if ps then -jtau pt k else 0))
  sPosNext : sNext (jEP e pt (k + 1)).pos
    = pt (k + 1) + (perp (eT pt (k + 1))).smul e.hwFw + (eT pt (k + 1)).smul (e.hwFw * (if ps then jtau pt k else 0))
  sNegPrev : sPrev (jEP e pt (k + 1)).neg
    = pt (k + 1) - (perp (eT pt k)).smul e.hwFw + (eT pt k).smul (e.hwFw * (if ns then jtau pt k else 0))
  sNegNext : sNext (jEP e pt (k + 1)).neg
    = pt (k + 1) - (perp (eT pt (k + 1))).smul e.hwFw + (eT pt (k + 1)).smul (e.hwFw * (if ns then -jtau pt k else 0))

theorem jEP_closed0 (e : Env K)
    (hs0 : ∀ x : K, 0 ≤ x → 0 ≤ Transc.sqrt x) (hs : ∀ x : K, 0 ≤ x → Transc.sqrt x * Transc.sqrt x = x)
    (pt : Nat → P K) (k : Nat)
    (hj : e.o.join = .bevel ∨ e.o.join = .miter
      ∨ (e.o.join = .miterClip ∧ keptAt e (pt k) (pt (k + 1)) (pt (k + 1 + 1))) ∨ e.o.join = .round)
    (hL0 : 0 < (pt (k + 1) - pt k).sqLen) (hL1 : 0 < (pt (k + 1 + 1) - pt (k + 1)).sqLen)
    (hg : ¬ (eT pt k + eT pt (k + 1)).sqLen < normalEpsilon)
    (hnf : noFoldAt e (pt k) (pt (k + 1)) (pt (k + 1 + 1))) :
    JClosed0 e pt k (jEP e pt (k + 1)).pos.single.isSome (jEP e pt (k + 1)).neg.single.isSome := by
  have hu0 : (eT pt k).sqLen = 1 := (sdiv_unit hs0 hs _ hL0).2
  have hu1 : (eT pt (k + 1)).sqLen = 1 := (sdiv_unit hs0 hs _ hL1).2
  obtain ⟨hc, hN0, hN1⟩ := normal_closed hs0 hs _ _ hu0 hu1 hg
  have hJ : jEP e pt (k + 1) = joinSidesFw e.ix (linePt e (k, pt k)) (linePt e (k + 1, pt (k + 1)))
      (linePt e (k + 1 + 1, pt (k + 1 + 1))) e.o.miterLimit e.hwFw := rfl
  have hcongr := fwGeo_congr (prev := linePt e (k, pt k)) (join := linePt e (k + 1, pt (k + 1)))
      (next := linePt e (k + 1 + 1, pt (k + 1 + 1)))
      (prev' := EP.mk' (pt k) e.hwFw nan e.o.join (.endpoint 0) false)
      (join' := EP.mk' (pt (k + 1)) e.hwFw nan e.o.join (.endpoint 0) false)
      (next' := EP.mk' (pt (k + 1 + 1)) e.hwFw nan e.o.join (.endpoint 0) false) e.o.miterLimit e.hwFw rfl rfl rfl rfl
  have hfold : (fwGeo (linePt e (k, pt k)) (linePt e (k + 1, pt (k + 1))) (linePt e (k + 1 + 1, pt (k + 1 + 1)))
      e.o.miterLimit e.hwFw).fold = false := by
    rw [hcongr]
    exact hnf
  have hlj : (linePt e (k + 1, pt (k + 1))).lineJoin = .bevel ∨ (linePt e (k + 1, pt (k + 1))).lineJoin = .miter
      ∨ ((linePt e (k + 1, pt (k + 1))).lineJoin = .miterClip
        ∧ (fwGeo (linePt e (k, pt k)) (linePt e (k + 1, pt (k + 1))) (linePt e (k + 1 + 1, pt (k + 1 + 1)))
            e.o.miterLimit e.hwFw).unclipped = true)
      ∨ (linePt e (k + 1, pt (k + 1))).lineJoin = .round := by
    rcases hj with h | h | ⟨h, hk⟩ | h
    · exact Or.inl h
    · exact Or.inr (Or.inl h)
    · exact Or.inr (Or.inr (Or.inl ⟨h, by rw [hcongr]; exact hk⟩))
    · exact Or.inr (Or.inr (Or.inr h))
  obtain ⟨c1, c2, c3, c4, c5, c6⟩ := joinSidesFw_closed e.ix (linePt e (k, pt k)) (linePt e (k + 1, pt (k + 1)))
    (linePt e (k + 1 + 1, pt (k + 1 + 1))) e.o.miterLimit e.hwFw hlj rfl rfl hfold
  rw [← hJ] at c1 c2 c3 c4 c5 c6
  have gpt : (fwGeo (linePt e (k, pt k)) (linePt e (k + 1, pt (k + 1))) (linePt e (k + 1 + 1, pt (k + 1 + 1)))
      e.o.miterLimit e.hwFw).pt = eT pt k := rfl
  have gnt : (fwGeo (linePt e (k, pt k)) (linePt e (k + 1, pt (k + 1))) (linePt e (k + 1 + 1, pt (k + 1 + 1)))
      e.o.miterLimit e.hwFw).nt = eT pt (k + 1) := rfl
  have gn : (fwGeo (linePt e (k, pt k)) (linePt e (k + 1, pt (k + 1))) (linePt e (k + 1 + 1, pt (k + 1 + 1)))
      e.o.miterLimit e.hwFw).normal = computeNormal (eT pt k) (eT pt (k + 1)) := rfl
  have gf : (fwGeo (linePt e (k, pt k)) (linePt e (k + 1, pt (k + 1))) (linePt e (k + 1 + 1, pt (k + 1 + 1)))
      e.o.miterLimit e.hwFw).frontNeg = decide ((eT pt k).cross (eT pt (k + 1)) ≥ Scalar.zero) := rfl
  have gu : (e.o.join = .bevel ∨ e.o.join = .round) → (fwGeo (linePt e (k, pt k)) (linePt e (k + 1, pt (k + 1))) (linePt e (k + 1 + 1, pt (k + 1 + 1)))
      e.o.miterLimit e.hwFw).unclipped = false := by
    intro hb
    show ((e.o.join == Lyon.StrokeQuad.Join.miter || e.o.join == Lyon.StrokeQuad.Join.miterClip) && _) = false
    rcases hb with hb | hb <;> rw [hb] <;> rfl
  have hjp : (linePt e (k + 1, pt (k + 1))).position = pt (k + 1) := rfl
  rw [gpt, hjp] at c1 c3
  rw [gnt, hjp] at c2 c4
  rw [gn, gf, hjp] at c5 c6
  -- the two forms of the miter point
  have hMp0 : pt (k + 1) + (computeNormal (eT pt k) (eT pt (k + 1))).smul e.hwFw
      = pt (k + 1) + (perp (eT pt k)).smul e.hwFw + (eT pt k).smul (e.hwFw * -jtau pt k) := by
    rw [hN0]; unfold jtau; apply P.ext' <;> simp only [geom] <;> ring
  have hMp1 : pt (k + 1) + (computeNormal (eT pt k) (eT pt (k + 1))).smul e.hwFw
      = pt (k + 1) + (perp (eT pt (k + 1))).smul e.hwFw + (eT pt (k + 1)).smul (e.hwFw * jtau pt k) := by
    rw [hN1]; unfold jtau; apply P.ext' <;> simp only [geom] <;> ring
  have hMn0 : pt (k + 1) - (computeNormal (eT pt k) (eT pt (k + 1))).smul e.hwFw
      = pt (k + 1) - (perp (eT pt k)).smul e.hwFw + (eT pt k).smul (e.hwFw * jtau pt k) := by
    rw [hN0]; unfold jtau; apply P.ext' <;> simp only [geom] <;> ring
  have hMn1 : pt (k + 1) - (computeNormal (eT pt k) (eT pt (k + 1))).smul e.hwFw
      = pt (k + 1) - (perp (eT pt (k + 1))).smul e.hwFw + (eT pt (k + 1)).smul (e.hwFw * -jtau pt k) := by
    rw [hN1]; unfold jtau; apply P.ext' <;> simp only [geom] <;> ring
  have hz : ∀ (a v : P K), a + v.smul (e.hwFw * 0) = a := by
    intro a v; apply P.ext' <;> simp only [geom] <;> ring
  by_cases hx : (eT pt k).cross (eT pt (k + 1)) ≥ 0
  · have hx' : (eT pt k).cross (eT pt (k + 1)) ≥ Scalar.zero := by simpa [geom] using hx
    obtain ⟨d1, d2⟩ := c5 (decide_eq_true hx')
    have hps : (jEP e pt (k + 1)).pos.single.isSome = true := by rw [d1]; rfl
    have d2' : (jEP e pt (k + 1)).neg.single = some (pt (k + 1) - (computeNormal (eT pt k) (eT pt (k + 1))).smul e.hwFw)
        ∨ (jEP e pt (k + 1)).neg.single = none := by
      rw [d2]; split_ifs
      · exact Or.inl rfl
      · exact Or.inr rfl
    refine ⟨hc, fun _ => hps, fun h => absurd hx (not_le.mpr h), ?_, rfl, rfl, c1, c2, c3, c4, ?_, ?_, ?_, ?_⟩
    · intro hb hboth
      rw [d2, gu hb] at hboth
      simp at hboth
    · rw [hps, if_pos rfl]; simp only [sPrev, d1, Option.getD_some]; exact hMp0
    · rw [hps, if_pos rfl]; simp only [sNext, d1, Option.getD_some]; exact hMp1
    · rcases d2' with d | d
      · simp only [sPrev, d, Option.getD_some, Option.isSome_some, if_true]; exact hMn0
      · simp only [sPrev, d, Option.getD_none, Option.isSome_none, Bool.false_eq_true, if_false, hz]; exact c3
    · rcases d2' with d | d
      · simp only [sNext, d, Option.getD_some, Option.isSome_some, if_true]; exact hMn1
      · simp only [sNext, d, Option.getD_none, Option.isSome_none, Bool.false_eq_true, if_false, hz]; exact c4
  · have hx' : ¬ (eT pt k).cross (eT pt (k + 1)) ≥ Scalar.zero := by simpa [geom] using hx
    obtain ⟨d1, d2⟩ := c6 (decide_eq_false hx')
    have hns : (jEP e pt (k + 1)).neg.single.isSome = true := by rw [d1]; rfl
    have d2' : (jEP e pt (k + 1)).pos.single = some (pt (k + 1) + (computeNormal (eT pt k) (eT pt (k + 1))).smul e.hwFw)
        ∨ (jEP e pt (k + 1)).pos.single = none := by
      rw [d2]; split_ifs
      · exact Or.inl rfl
      · exact Or.inr rfl
    refine ⟨hc, fun h => absurd h hx, fun _ => hns, ?_, rfl, rfl, c1, c2, c3, c4, ?_, ?_, ?_, ?_⟩
    · intro hb hboth
      rw [d2, gu hb] at hboth
      simp at hboth
    · rcases d2' with d | d
      · simp only [sPrev, d, Option.getD_some, Option.isSome_some, if_true]; exact hMp0
      · simp only [sPrev, d, Option.getD_none, Option.isSome_none, Bool.false_eq_true, if_false, hz]; exact c1
    · rcases d2' with d | d
      · simp only [sNext, d, Option.getD_some, Option.isSome_some, if_true]; exact hMp1
      · simp only [sNext, d, Option.getD_none, Option.isSome_none, Bool.false_eq_true, if_false, hz]; exact c2
    · rw [hns, if_pos rfl]; simp only [sPrev, d1, Option.getD_some]; exact hMn0
    · rw [hns, if_pos rfl]; simp only [sNext, d1, Option.getD_some]; exact hMn1

/-- a miter whose squared length `1 + tan²(θ/2)` is at most `(2·miter_limit)²` is kept (lyon's test) -/
theorem keptAt_of_limit (e : Env K) (hs0 : ∀ x : K, 0 ≤ x → 0 ≤ Transc.sqrt x)
    (hs : ∀ x : K, 0 ≤ x → Transc.sqrt x * Transc.sqrt x = x) (p j n : P K)
    (hL0 : 0 < (j - p).sqLen) (hL1 : 0 < (n - j).sqLen)
    (hg : ¬ ((j - p).sdiv (len (j - p)) + (n - j).sdiv (len (n - j))).sqLen < normalEpsilon)
    (hjn : e.o.join = .miter ∨ e.o.join = .miterClip)
    (hlim : 1 + (((j - p).sdiv (len (j - p))).cross ((n - j).sdiv (len (n - j)))
        / (1 + ((j - p).sdiv (len (j - p))).dot ((n - j).sdiv (len (n - j)))))
        * (((j - p).sdiv (len (j - p))).cross ((n - j).sdiv (len (n - j)))
        / (1 + ((j - p).sdiv (len (j - p))).dot ((n - j).sdiv (len (n - j)))))
      ≤ e.o.miterLimit * e.o.miterLimit * 4) : keptAt e p j n := by
  have hu0 := (sdiv_unit hs0 hs _ hL0).2
  have hu1 := (sdiv_unit hs0 hs _ hL1).2
  obtain ⟨hc, hN0, hN1⟩ := normal_closed hs0 hs _ _ hu0 hu1 hg
  set t0 := (j - p).sdiv (len (j - p)) with ht0
  set t1 := (n - j).sdiv (len (n - j)) with ht1
  obtain ⟨τ, hτ⟩ : ∃ τ, τ = t0.cross t1 / (1 + t0.dot t1) := ⟨_, rfl⟩
  rw [← hτ] at hN0 hlim
  have hsq : (computeNormal t0 t1).sqLen = 1 + τ * τ := by
    rw [hN0]; simp only [perp, geom] at hu0 ⊢; linear_combination (1 + τ * τ) * hu0
  have hsqn : (-computeNormal t0 t1).sqLen = 1 + τ * τ := by
    rw [← hsq]; simp only [geom]; ring
  have hnot : ∀ v : P K, v.sqLen = 1 + τ * τ → miterLimitIsExceeded v e.o.miterLimit = false := by
    intro v hv
    unfold miterLimitIsExceeded
    refine decide_eq_false ?_
    rw [hv]
    have : (four : K) = 4 := by simp only [geom]; norm_num
    rw [this]
    exact not_lt.mpr hlim
  unfold keptAt fwGeo
  simp only [EP.mk']
  have hlj : (e.o.join == Lyon.StrokeQuad.Join.miter || e.o.join == Lyon.StrokeQuad.Join.miterClip) = true := by
    rcases hjn with h | h <;> rw [h] <;> rfl
  rw [hlj]
  simp only [Bool.true_and, Bool.not_eq_true', ← ht0, ← ht1]
  split_ifs
  · exact hnot _ hsqn
  · exact hnot _ hsq

/-! ## the cap corners in closed form -/

/-- an edge is its unit tangent times its length -/
theorem edge_eq (hs0 : ∀ x : K, 0 ≤ x → 0 ≤ Transc.sqrt x) (hs : ∀ x : K, 0 ≤ x → Transc.sqrt x * Transc.sqrt x = x)
    (pt : Nat → P K) (k : Nat) (hL : 0 < (pt (k + 1) - pt k).sqLen) :
    0 < eL pt k ∧ (eT pt k).sqLen = 1 ∧ pt (k + 1) - pt k = (eT pt k).smul (eL pt k) := by
  obtain ⟨h1, h2⟩ := sdiv_unit hs0 hs _ hL
  refine ⟨h1, h2, ?_⟩
  have hne : len (pt (k + 1) - pt k) ≠ 0 := ne_of_gt h1
  unfold eT eL
  generalize len (pt (k + 1) - pt k) = L0 at hne
  apply P.ext' <;> simp only [geom] <;> exact (div_mul_cancel₀ _ hne).symm

theorem clipSidePos_round (ix : Lyon.StrokeQuad.Ix K) (p q : P K) (hw : K) (sp other : P K) :
    clipSidePos ix .round p q hw sp other = sp := rfl

/-- **end cap**: the two vertices of `tessellate_last_edge` sit at `p ± perp(t)·w/2 + t·shift`
(`shift = 0` butt or round, `w/2` square), given that the `next` side points of the point before are
`q ± perp(t)·w/2` -/
theorem endCap_closed (e : Env K) (eps : K) (hix : e.ix = lineIntersection eps) (heps : 0 ≤ eps)
    (hs0 : ∀ x : K, 0 ≤ x → 0 ≤ Transc.sqrt x) (hs : ∀ x : K, 0 ≤ x → Transc.sqrt x * Transc.sqrt x = x)
    (pt : Nat → P K) (m : Nat)
    (hL : 0 < (pt (m + 1) - pt m).sqLen) (hlen : eps < eL pt m)
    (hprev : prevNext e pt (m + 1) = (pt m + (perp (eT pt m)).smul e.hwFw, pt m - (perp (eT pt m)).smul e.hwFw)) :
    endPos e pt (m + 1) = pt (m + 1) + (perp (eT pt m)).smul e.hwFw + (eT pt m).smul (capShift e.o.endCap e.hwFw)
    ∧ endNeg e pt (m + 1) = pt (m + 1) - (perp (eT pt m)).smul e.hwFw + (eT pt m).smul (capShift e.o.endCap e.hwFw) := by
  by_cases hec : e.o.endCap = .round
  · have hc0 : capShift e.o.endCap e.hwFw = 0 := by rw [hec]; rfl
    have ht : normalize (pt (m + 1) - pt m) = eT pt m := rfl
    unfold endPos endNeg endN
    rw [hc0, hec]
    simp only [clipSidePos_round, Nat.add_sub_cancel, ht]
    constructor <;> (apply P.ext' <;> simp only [geom] <;> ring)
  obtain ⟨hL0, hunit, hE⟩ := edge_eq hs0 hs pt m hL
  have hmu : eps < |eL pt m| := by rw [abs_of_pos hL0]; exact hlen
  have ht : normalize (pt (m + 1) - pt m) = eT pt m := rfl
  have hx : (pt (m + 1)).x - (pt m).x = (eT pt m).x * eL pt m := by
    have := congrArg P.x hE; simpa only [geom] using this
  have hy : (pt (m + 1)).y - (pt m).y = (eT pt m).y * eL pt m := by
    have := congrArg P.y hE; simpa only [geom] using this
  constructor
  · unfold endPos endN
    rw [hprev, hix]
    show clipSidePos (lineIntersection eps) e.o.endCap (pt (m + 1)) (pt m) e.hwFw
      (pt (m + 1) + (perp (normalize (pt (m + 1) - pt m))).smul e.hwFw) _ = _
    have := clip_side_value eps heps e.o.endCap hec (pt (m + 1)) (pt m) (pt m + (perp (eT pt m)).smul e.hwFw)
      e.hwFw e.hwFw (eL pt m) (by rw [ht]; exact hunit)
      (by rw [ht]; apply P.ext' <;> simp only [geom] <;> linarith) hmu
    rw [ht] at this ⊢; exact this
  · unfold endNeg endN
    rw [hprev, hix]
    show clipSidePos (lineIntersection eps) e.o.endCap (pt (m + 1)) (pt m) e.hwFw
      (pt (m + 1) - (perp (normalize (pt (m + 1) - pt m))).smul e.hwFw) _ = _
    have e1 : pt (m + 1) - (perp (normalize (pt (m + 1) - pt m))).smul e.hwFw
        = pt (m + 1) + (perp (normalize (pt (m + 1) - pt m))).smul (-e.hwFw) := by
      apply P.ext' <;> simp only [geom] <;> ring
    rw [e1]
    have := clip_side_value eps heps e.o.endCap hec (pt (m + 1)) (pt m) (pt m - (perp (eT pt m)).smul e.hwFw)
      (-e.hwFw) e.hwFw (eL pt m) (by rw [ht]; exact hunit)
      (by rw [ht]; apply P.ext' <;> simp only [geom] <;> linarith) hmu
    rw [ht] at this ⊢
    rw [this]
    apply P.ext' <;> simp only [geom] <;> ring

/-- **start cap**: the two vertices of `tessellate_first_edge` sit at `p ± perp(t)·w/2 − t·shift`, given
that the `prev` side points of the second point are `q ± perp(t)·w/2 + t·μ`, `μ ≥ 0` -/
theorem startCap_closed (e : Env K) (eps : K) (hix : e.ix = lineIntersection eps) (heps : 0 ≤ eps)
    (hs0 : ∀ x : K, 0 ≤ x → 0 ≤ Transc.sqrt x) (hs : ∀ x : K, 0 ≤ x → Transc.sqrt x * Transc.sqrt x = x)
    (pt : Nat → P K) (n : Nat)
    (hL : 0 < (pt 1 - pt 0).sqLen) (hlen : eps < eL pt 0) (μ : K) (hμ : 0 ≤ μ)
    (hsec : secondPrev e pt n = (pt 1 + (perp (eT pt 0)).smul e.hwFw + (eT pt 0).smul μ,
      pt 1 - (perp (eT pt 0)).smul e.hwFw + (eT pt 0).smul μ)) :
    startPos e pt n = pt 0 + (perp (eT pt 0)).smul e.hwFw + (eT pt 0).smul (-(capShift e.o.startCap e.hwFw))
    ∧ startNeg e pt n = pt 0 - (perp (eT pt 0)).smul e.hwFw + (eT pt 0).smul (-(capShift e.o.startCap e.hwFw)) := by
  by_cases hsc : e.o.startCap = .round
  · have hc0 : capShift e.o.startCap e.hwFw = 0 := by rw [hsc]; rfl
    have hfp : (fPt e pt).pos.next = pt 0 + (perp (eT pt 0)).smul e.hwFw := rfl
    have hfn : (fPt e pt).neg.next = pt 0 - (perp (eT pt 0)).smul e.hwFw := rfl
    unfold startPos startNeg
    rw [hc0, hsc]
    simp only [clipSidePos_round, hfp, hfn]
    constructor <;> (apply P.ext' <;> simp only [geom] <;> ring)
  obtain ⟨hL0, hunit, hE⟩ := edge_eq hs0 hs pt 0 hL
  have ht : normalize (pt (0 + 1) - pt 0) = eT pt 0 := rfl
  have hswap : normalize (pt 0 - pt (0 + 1)) = (eT pt 0).smul (-1) := by rw [normalize_swap, ht]
  have hunit' : (normalize (pt 0 - pt (0 + 1))).sqLen = 1 := by
    rw [hswap]; simp only [geom] at hunit ⊢; linear_combination hunit
  have hmu : eps < |eL pt 0 + μ| := by rw [abs_of_pos (by linarith)]; linarith
  have hx : (pt (0 + 1)).x - (pt 0).x = (eT pt 0).x * eL pt 0 := by
    have := congrArg P.x hE; simpa only [geom] using this
  have hy : (pt (0 + 1)).y - (pt 0).y = (eT pt 0).y * eL pt 0 := by
    have := congrArg P.y hE; simpa only [geom] using this
  have hfp : (fPt e pt).pos.next = pt 0 + (perp (eT pt 0)).smul e.hwFw := rfl
  have hfn : (fPt e pt).neg.next = pt 0 - (perp (eT pt 0)).smul e.hwFw := rfl
  constructor
  · unfold startPos
    rw [hsec, hix, hfp]
    have e1 : pt 0 + (perp (eT pt 0)).smul e.hwFw = pt 0 + (perp (normalize (pt 0 - pt (0 + 1)))).smul (-e.hwFw) := by
      rw [hswap]; apply P.ext' <;> simp only [perp, geom] <;> ring
    rw [e1]
    have := clip_side_value eps heps e.o.startCap hsc (pt 0) (pt (0 + 1))
      (pt (0 + 1) + (perp (eT pt 0)).smul e.hwFw + (eT pt 0).smul μ) (-e.hwFw) e.hwFw (eL pt 0 + μ) hunit'
      (by rw [hswap]; apply P.ext' <;> simp only [perp, geom] <;> linarith) hmu
    rw [this, hswap]
    apply P.ext' <;> simp only [perp, geom] <;> ring
  · unfold startNeg
    rw [hsec, hix, hfn]
    have e1 : pt 0 - (perp (eT pt 0)).smul e.hwFw = pt 0 + (perp (normalize (pt 0 - pt (0 + 1)))).smul e.hwFw := by
      rw [hswap]; apply P.ext' <;> simp only [perp, geom] <;> ring
    rw [e1]
    have := clip_side_value eps heps e.o.startCap hsc (pt 0) (pt (0 + 1))
      (pt (0 + 1) - (perp (eT pt 0)).smul e.hwFw + (eT pt 0).smul μ) e.hwFw e.hwFw (eL pt 0 + μ) hunit'
      (by rw [hswap]; apply P.ext' <;> simp only [perp, geom] <;> linarith) hmu
    rw [this, hswap]
    apply P.ext' <;> simp only [perp, geom] <;> ring

/-! ## the cap lemmas with shifted `other` ends of the side lines (a clipped join next to the cap) -/

/-- **end cap**: the two vertices of `tessellate_last_edge` sit at `p ± perp(t)·w/2 + t·shift`
(`shift = 0` butt, `w/2` square), given that the `next` side points of the point before are
`q ± perp(t)·w/2` -/
theorem endCap_closedG (e : Env K) (eps : K) (hix : e.ix = lineIntersection eps) (heps : 0 ≤ eps)
    (hs0 : ∀ x : K, 0 ≤ x → 0 ≤ Transc.sqrt x) (hs : ∀ x : K, 0 ≤ x → Transc.sqrt x * Transc.sqrt x = x)
    (pt : Nat → P K) (m : Nat)
    (hL : 0 < (pt (m + 1) - pt m).sqLen) (hlen : eps < eL pt m) (νp νn : K) (hνp : νp ≤ 0) (hνn : νn ≤ 0)
    (hprev : prevNext e pt (m + 1) = (pt m + (perp (eT pt m)).smul e.hwFw + (eT pt m).smul νp,
      pt m - (perp (eT pt m)).smul e.hwFw + (eT pt m).smul νn)) :
    endPos e pt (m + 1) = pt (m + 1) + (perp (eT pt m)).smul e.hwFw + (eT pt m).smul (capShift e.o.endCap e.hwFw)
    ∧ endNeg e pt (m + 1) = pt (m + 1) - (perp (eT pt m)).smul e.hwFw + (eT pt m).smul (capShift e.o.endCap e.hwFw) := by
  by_cases hec : e.o.endCap = .round
  · have hc0 : capShift e.o.endCap e.hwFw = 0 := by rw [hec]; rfl
    have ht : normalize (pt (m + 1) - pt m) = eT pt m := rfl
    unfold endPos endNeg endN
    rw [hc0, hec]
    simp only [clipSidePos_round, Nat.add_sub_cancel, ht]
    constructor <;> (apply P.ext' <;> simp only [geom] <;> ring)
  obtain ⟨hL0, hunit, hE⟩ := edge_eq hs0 hs pt m hL
  have hmup : eps < |eL pt m - νp| := by rw [abs_of_pos (by linarith)]; linarith
  have hmun : eps < |eL pt m - νn| := by rw [abs_of_pos (by linarith)]; linarith
  have ht : normalize (pt (m + 1) - pt m) = eT pt m := rfl
  have hx : (pt (m + 1)).x - (pt m).x = (eT pt m).x * eL pt m := by
    have := congrArg P.x hE; simpa only [geom] using this
  have hy : (pt (m + 1)).y - (pt m).y = (eT pt m).y * eL pt m := by
    have := congrArg P.y hE; simpa only [geom] using this
  constructor
  · unfold endPos endN
    rw [hprev, hix]
    show clipSidePos (lineIntersection eps) e.o.endCap (pt (m + 1)) (pt m) e.hwFw
      (pt (m + 1) + (perp (normalize (pt (m + 1) - pt m))).smul e.hwFw) _ = _
    have := clip_side_value eps heps e.o.endCap hec (pt (m + 1)) (pt m) (pt m + (perp (eT pt m)).smul e.hwFw + (eT pt m).smul νp)
      e.hwFw e.hwFw (eL pt m - νp) (by rw [ht]; exact hunit)
      (by rw [ht]; apply P.ext' <;> simp only [geom] <;> linarith) hmup
    rw [ht] at this ⊢; exact this
  · unfold endNeg endN
    rw [hprev, hix]
    show clipSidePos (lineIntersection eps) e.o.endCap (pt (m + 1)) (pt m) e.hwFw
      (pt (m + 1) - (perp (normalize (pt (m + 1) - pt m))).smul e.hwFw) _ = _
    have e1 : pt (m + 1) - (perp (normalize (pt (m + 1) - pt m))).smul e.hwFw
        = pt (m + 1) + (perp (normalize (pt (m + 1) - pt m))).smul (-e.hwFw) := by
      apply P.ext' <;> simp only [geom] <;> ring
    rw [e1]
    have := clip_side_value eps heps e.o.endCap hec (pt (m + 1)) (pt m) (pt m - (perp (eT pt m)).smul e.hwFw + (eT pt m).smul νn)
      (-e.hwFw) e.hwFw (eL pt m - νn) (by rw [ht]; exact hunit)
      (by rw [ht]; apply P.ext' <;> simp only [geom] <;> linarith) hmun
    rw [ht] at this ⊢
    rw [this]
    apply P.ext' <;> simp only [geom] <;> ring

/-- **start cap**: the two vertices of `tessellate_first_edge` sit at `p ± perp(t)·w/2 − t·shift`, given
that the `prev` side points of the second point are `q ± perp(t)·w/2 + t·μ`, `μ ≥ 0` -/
theorem startCap_closedG (e : Env K) (eps : K) (hix : e.ix = lineIntersection eps) (heps : 0 ≤ eps)
    (hs0 : ∀ x : K, 0 ≤ x → 0 ≤ Transc.sqrt x) (hs : ∀ x : K, 0 ≤ x → Transc.sqrt x * Transc.sqrt x = x)
    (pt : Nat → P K) (n : Nat)
    (hL : 0 < (pt 1 - pt 0).sqLen) (hlen : eps < eL pt 0) (μ μn : K) (hμ : 0 ≤ μ) (hμn : 0 ≤ μn)
    (hsec : secondPrev e pt n = (pt 1 + (perp (eT pt 0)).smul e.hwFw + (eT pt 0).smul μ,
      pt 1 - (perp (eT pt 0)).smul e.hwFw + (eT pt 0).smul μn)) :
    startPos e pt n = pt 0 + (perp (eT pt 0)).smul e.hwFw + (eT pt 0).smul (-(capShift e.o.startCap e.hwFw))
    ∧ startNeg e pt n = pt 0 - (perp (eT pt 0)).smul e.hwFw + (eT pt 0).smul (-(capShift e.o.startCap e.hwFw)) := by
  by_cases hsc : e.o.startCap = .round
  · have hc0 : capShift e.o.startCap e.hwFw = 0 := by rw [hsc]; rfl
    have hfp : (fPt e pt).pos.next = pt 0 + (perp (eT pt 0)).smul e.hwFw := rfl
    have hfn : (fPt e pt).neg.next = pt 0 - (perp (eT pt 0)).smul e.hwFw := rfl
    unfold startPos startNeg
    rw [hc0, hsc]
    simp only [clipSidePos_round, hfp, hfn]
    constructor <;> (apply P.ext' <;> simp only [geom] <;> ring)
  obtain ⟨hL0, hunit, hE⟩ := edge_eq hs0 hs pt 0 hL
  have ht : normalize (pt (0 + 1) - pt 0) = eT pt 0 := rfl
  have hswap : normalize (pt 0 - pt (0 + 1)) = (eT pt 0).smul (-1) := by rw [normalize_swap, ht]
  have hunit' : (normalize (pt 0 - pt (0 + 1))).sqLen = 1 := by
    rw [hswap]; simp only [geom] at hunit ⊢; linear_combination hunit
  have hmu : eps < |eL pt 0 + μ| := by rw [abs_of_pos (by linarith)]; linarith
  have hmun : eps < |eL pt 0 + μn| := by rw [abs_of_pos (by linarith)]; linarith
  have hx : (pt (0 + 1)).x - (pt 0).x = (eT pt 0).x * eL pt 0 := by
    have := congrArg P.x hE; simpa only [geom] using this
  have hy : (pt (0 + 1)).y - (pt 0).y = (eT pt 0).y * eL pt 0 := by
    have := congrArg P.y hE; simpa only [geom] using this
  have hfp : (fPt e pt).pos.next = pt 0 + (perp (eT pt 0)).smul e.hwFw := rfl
  have hfn : (fPt e pt).neg.next = pt 0 - (perp (eT pt 0)).smul e.hwFw := rfl
  constructor
  · unfold startPos
    rw [hsec, hix, hfp]
    have e1 : pt 0 + (perp (eT pt 0)).smul e.hwFw = pt 0 + (perp (normalize (pt 0 - pt (0 + 1)))).smul (-e.hwFw) := by
      rw [hswap]; apply P.ext' <;> simp only [perp, geom] <;> ring
    rw [e1]
    have := clip_side_value eps heps e.o.startCap hsc (pt 0) (pt (0 + 1))
      (pt (0 + 1) + (perp (eT pt 0)).smul e.hwFw + (eT pt 0).smul μ) (-e.hwFw) e.hwFw (eL pt 0 + μ) hunit'
      (by rw [hswap]; apply P.ext' <;> simp only [perp, geom] <;> linarith) hmu
    rw [this, hswap]
    apply P.ext' <;> simp only [perp, geom] <;> ring
  · unfold startNeg
    rw [hsec, hix, hfn]
    have e1 : pt 0 - (perp (eT pt 0)).smul e.hwFw = pt 0 + (perp (normalize (pt 0 - pt (0 + 1)))).smul e.hwFw := by
      rw [hswap]; apply P.ext' <;> simp only [perp, geom] <;> ring
    rw [e1]
    have := clip_side_value eps heps e.o.startCap hsc (pt 0) (pt (0 + 1))
      (pt (0 + 1) - (perp (eT pt 0)).smul e.hwFw + (eT pt 0).smul μn) e.hwFw e.hwFw (eL pt 0 + μn) hunit'
      (by rw [hswap]; apply P.ext' <;> simp only [perp, geom] <;> linarith) hmun
    rw [this, hswap]
    apply P.ext' <;> simp only [perp, geom] <;> ring

/-! ## joins with a shifted outer side: clipped `MiterClip` -/

/-- the shift (in half widths) of the two-vertex side of the join at `pt i` beyond the join, read off the model's
own side points and clamped to `[0, |tan(θ/2)|]`: `0` for bevel-shaped joins, the clip shift for a clipped `MiterClip` -/
noncomputable def lamAt (e : Env K) (pt : Nat → P K) (i : Nat) : K :=
  Max.max 0 (Min.min
    ((((jEP e pt i).pos.prev - (pt i + (perp (eT pt (i - 1))).smul e.hwFw)).dot (eT pt (i - 1))
      + ((jEP e pt i).neg.prev - (pt i - (perp (eT pt (i - 1))).smul e.hwFw)).dot (eT pt (i - 1))) / e.hwFw)
    |jtau pt (i - 1)|)

theorem lamAt_nonneg (e : Env K) (pt : Nat → P K) (i : Nat) : 0 ≤ lamAt e pt i := le_max_left _ _

theorem lamAt_le (e : Env K) (pt : Nat → P K) (i : Nat) : lamAt e pt (i + 1) ≤ |jtau pt i| := by
  unfold lamAt
  exact max_le (abs_nonneg _) (min_le_right _ _)

/-- the side points of the join at `pt (k+1)` in closed form, outer shift `lam` included -/
structure JClosed (e : Env K) (pt : Nat → P K) (k : Nat) (ps ns : Bool) (lam : K) : Prop where
  cpos : 0 < 1 + (eT pt k).dot (eT pt (k + 1))
  inner_pos : 0 ≤ (eT pt k).cross (eT pt (k + 1)) → ps = true
  inner_neg : (eT pt k).cross (eT pt (k + 1)) < 0 → ns = true
  bevel : (e.o.join = .bevel ∨ e.o.join = .round) → ¬ (ps = true ∧ ns = true)
  bevel0 : (e.o.join = .bevel ∨ e.o.join = .round) → lam = 0
  psingle : (jEP e pt (k + 1)).pos.single.isSome = ps
  nsingle : (jEP e pt (k + 1)).neg.single.isSome = ns
  posPrev : (jEP e pt (k + 1)).pos.prev
    = pt (k + 1) + (perp (eT pt k)).smul e.hwFw + (eT pt k).smul (e.hwFw * (if ps then 0 else lam))
  posNext : (jEP e pt (k + 1)).pos.next
    = pt (k + 1) + (perp (eT pt (k + 1))).smul e.hwFw + (eT pt (k + 1)).smul (e.hwFw * (if ps then 0 else -lam))
  negPrev : (jEP e pt (k + 1)).neg.prev
    = pt (k + 1) - (perp (eT pt k)).smul e.hwFw + (eT pt k).smul (e.hwFw * (if ns then 0 else lam))
  negNext : (jEP e pt (k + 1)).neg.next
    = pt (k + 1) - (perp (eT pt (k + 1))).smul e.hwFw + (eT pt (k + 1)).smul (e.hwFw * (if ns then 0 else -lam))
  sPosPrev : sPrev (jEP e pt (k + 1)).pos
    = pt (k + 1) + (perp (eT pt k)).smul e.hwFw + (eT pt k).smul (e.hwFw * (if ps then -jtau pt k else lam))
  sPosNext : sNext (jEP e pt (k + 1)).pos
    = pt (k + 1) + (perp (eT pt (k + 1))).smul e.hwFw + (eT pt (k + 1)).smul (e.hwFw * (if ps then jtau pt k else -lam))
  sNegPrev : sPrev (jEP e pt (k + 1)).neg
    = pt (k + 1) - (perp (eT pt k)).smul e.hwFw + (eT pt k).smul (e.hwFw * (if ns then jtau pt k else lam))
  sNegNext : sNext (jEP e pt (k + 1)).neg
    = pt (k + 1) - (perp (eT pt (k + 1))).smul e.hwFw + (eT pt (k + 1)).smul (e.hwFw * (if ns then -jtau pt k else -lam))

/-- an unshifted join (`JClosed0`) is a `JClosed` with `lam = 0` -/
theorem jclosed_of_zero {e : Env K} {pt : Nat → P K} {k : Nat} {ps ns : Bool} (J : JClosed0 e pt k ps ns) :
    JClosed e pt k ps ns 0 := by
  have hz : ∀ (a v : P K) (b : Bool), a + v.smul (e.hwFw * (if b then 0 else 0)) = a := by
    intro a v b; apply P.ext' <;> simp only [geom, ite_self] <;> ring
  have hz' : ∀ (a v : P K) (b : Bool), a + v.smul (e.hwFw * (if b then 0 else -0)) = a := by
    intro a v b; apply P.ext' <;> simp only [geom, neg_zero, ite_self] <;> ring
  refine ⟨J.cpos, J.inner_pos, J.inner_neg, J.bevel, fun _ => rfl, J.psingle, J.nsingle, ?_, ?_, ?_, ?_, J.sPosPrev,
    ?_, J.sNegPrev, ?_⟩
  · rw [hz]; exact J.posPrev
  · rw [hz']; exact J.posNext
  · rw [hz]; exact J.negPrev
  · rw [hz']; exact J.negNext
  · rw [neg_zero]; exact J.sPosNext
  · rw [neg_zero]; exact J.sNegNext

/-- `lamAt = 0` when both raw `prev` side points of the join are the unshifted bevel points -/
theorem lamAt_zero {e : Env K} {pt : Nat → P K} {k : Nat}
    (h1 : (jEP e pt (k + 1)).pos.prev = pt (k + 1) + (perp (eT pt k)).smul e.hwFw)
    (h2 : (jEP e pt (k + 1)).neg.prev = pt (k + 1) - (perp (eT pt k)).smul e.hwFw) : lamAt e pt (k + 1) = 0 := by
  unfold lamAt
  simp only [Nat.add_sub_cancel]
  rw [h1, h2]
  have z1 : ((pt (k + 1) + (perp (eT pt k)).smul e.hwFw) - (pt (k + 1) + (perp (eT pt k)).smul e.hwFw)).dot (eT pt k) = 0 := by
    simp only [geom]; ring
  have z2 : ((pt (k + 1) - (perp (eT pt k)).smul e.hwFw) - (pt (k + 1) - (perp (eT pt k)).smul e.hwFw)).dot (eT pt k) = 0 := by
    simp only [geom]; ring
  rw [z1, z2]
  simp [abs_nonneg]

/-- `lamAt` is the shift `lam / hw` of the one shifted raw `prev` point when `0 ≤ lam ≤ hw·|tan(θ/2)|` -/
theorem lamAt_clip {e : Env K} {pt : Nat → P K} {k : Nat} (hhw : 0 < e.hwFw) (hu0 : (eT pt k).sqLen = 1) (lam : K)
    (hl0 : 0 ≤ lam) (hl1 : lam ≤ e.hwFw * |jtau pt k|)
    (h : ((jEP e pt (k + 1)).pos.prev = pt (k + 1) + (perp (eT pt k)).smul e.hwFw
          ∧ (jEP e pt (k + 1)).neg.prev = pt (k + 1) - (perp (eT pt k)).smul e.hwFw + (eT pt k).smul lam)
        ∨ ((jEP e pt (k + 1)).pos.prev = pt (k + 1) + (perp (eT pt k)).smul e.hwFw + (eT pt k).smul lam
          ∧ (jEP e pt (k + 1)).neg.prev = pt (k + 1) - (perp (eT pt k)).smul e.hwFw)) :
    lamAt e pt (k + 1) = lam / e.hwFw := by
  have hne : e.hwFw ≠ 0 := ne_of_gt hhw
  have hraw : (((jEP e pt (k + 1)).pos.prev - (pt (k + 1) + (perp (eT pt k)).smul e.hwFw)).dot (eT pt k)
      + ((jEP e pt (k + 1)).neg.prev - (pt (k + 1) - (perp (eT pt k)).smul e.hwFw)).dot (eT pt k)) = lam := by
    rcases h with ⟨h1, h2⟩ | ⟨h1, h2⟩ <;>
      (rw [h1, h2]; simp only [geom] at hu0 ⊢; linear_combination lam * hu0)
  unfold lamAt
  simp only [Nat.add_sub_cancel]
  rw [hraw]
  have hb0 : 0 ≤ lam / e.hwFw := div_nonneg hl0 (le_of_lt hhw)
  have hb1 : lam / e.hwFw ≤ |jtau pt k| := by rw [div_le_iff₀ hhw]; linarith [mul_comm e.hwFw |jtau pt k|]
  rw [min_eq_left hb1, max_eq_right hb0]

/-- **the join at `pt (k+1)` in closed form, every non-round join kind**: Bevel, Miter (kept or beyond the limit),
MiterClip (kept or CLIPPED, `miter_limit ≥ 1`, `eps < w/2`, exact `Line::intersection`) -/
theorem jEP_closed (e : Env K) (eps : K) (hix : e.ix = lineIntersection eps) (heps : 0 ≤ eps)
    (hs0 : ∀ x : K, 0 ≤ x → 0 ≤ Transc.sqrt x) (hs : ∀ x : K, 0 ≤ x → Transc.sqrt x * Transc.sqrt x = x)
    (pt : Nat → P K) (k : Nat)
    (hj : e.o.join = .bevel ∨ e.o.join = .miter ∨ e.o.join = .miterClip ∨ e.o.join = .round)
    (hclip : e.o.join = .miterClip → 1 ≤ e.o.miterLimit ∧ eps < e.hwFw) (hhw : 0 < e.hwFw)
    (hL0 : 0 < (pt (k + 1) - pt k).sqLen) (hL1 : 0 < (pt (k + 1 + 1) - pt (k + 1)).sqLen)
    (hg : ¬ (eT pt k + eT pt (k + 1)).sqLen < normalEpsilon)
    (hnf : noFoldAt e (pt k) (pt (k + 1)) (pt (k + 1 + 1))) :
    JClosed e pt k (jEP e pt (k + 1)).pos.single.isSome (jEP e pt (k + 1)).neg.single.isSome (lamAt e pt (k + 1)) := by
  by_cases hcase : e.o.join = .miterClip ∧ ¬ keptAt e (pt k) (pt (k + 1)) (pt (k + 1 + 1))
  swap
  · -- no clipping: the unshifted closed form
    have hj0 : e.o.join = .bevel ∨ e.o.join = .miter
        ∨ (e.o.join = .miterClip ∧ keptAt e (pt k) (pt (k + 1)) (pt (k + 1 + 1))) ∨ e.o.join = .round := by
      rcases hj with h | h | h | h
      · exact Or.inl h
      · exact Or.inr (Or.inl h)
      · refine Or.inr (Or.inr (Or.inl ⟨h, ?_⟩))
        by_contra hk
        exact hcase ⟨h, hk⟩
      · exact Or.inr (Or.inr (Or.inr h))
    have J0 := jEP_closed0 e hs0 hs pt k hj0 hL0 hL1 hg hnf
    rw [lamAt_zero J0.posPrev J0.negPrev]
    exact jclosed_of_zero J0
  · obtain ⟨hmc, hnk⟩ := hcase
    obtain ⟨hml, hepsw⟩ := hclip hmc
    have hu0 : (eT pt k).sqLen = 1 := (sdiv_unit hs0 hs _ hL0).2
    have hu1 : (eT pt (k + 1)).sqLen = 1 := (sdiv_unit hs0 hs _ hL1).2
    obtain ⟨hc, hN0, hN1⟩ := normal_closed hs0 hs _ _ hu0 hu1 hg
    have hJ : jEP e pt (k + 1) = joinSidesFw e.ix (linePt e (k, pt k)) (linePt e (k + 1, pt (k + 1)))
        (linePt e (k + 1 + 1, pt (k + 1 + 1))) e.o.miterLimit e.hwFw := rfl
    have hcongr := fwGeo_congr (prev := linePt e (k, pt k)) (join := linePt e (k + 1, pt (k + 1)))
        (next := linePt e (k + 1 + 1, pt (k + 1 + 1)))
        (prev' := EP.mk' (pt k) e.hwFw nan e.o.join (.endpoint 0) false)
        (join' := EP.mk' (pt (k + 1)) e.hwFw nan e.o.join (.endpoint 0) false)
        (next' := EP.mk' (pt (k + 1 + 1)) e.hwFw nan e.o.join (.endpoint 0) false) e.o.miterLimit e.hwFw rfl rfl rfl rfl
    have hfold : (fwGeo (linePt e (k, pt k)) (linePt e (k + 1, pt (k + 1))) (linePt e (k + 1 + 1, pt (k + 1 + 1)))
        e.o.miterLimit e.hwFw).fold = false := by rw [hcongr]; exact hnf
    have hunc : (fwGeo (linePt e (k, pt k)) (linePt e (k + 1, pt (k + 1))) (linePt e (k + 1 + 1, pt (k + 1 + 1)))
        e.o.miterLimit e.hwFw).unclipped = false := by
      rw [hcongr]
      cases hh : (fwGeo (EP.mk' (pt k) e.hwFw nan e.o.join (.endpoint 0) false)
        (EP.mk' (pt (k + 1)) e.hwFw nan e.o.join (.endpoint 0) false)
        (EP.mk' (pt (k + 1 + 1)) e.hwFw nan e.o.join (.endpoint 0) false) e.o.miterLimit e.hwFw).unclipped with
      | false => rfl
      | true => exact absurd hh hnk
    obtain ⟨cl, cr⟩ := joinSidesFw_clipped e.ix (linePt e (k, pt k)) (linePt e (k + 1, pt (k + 1)))
      (linePt e (k + 1 + 1, pt (k + 1 + 1))) e.o.miterLimit e.hwFw hmc rfl rfl hfold hunc
    rw [← hJ, hix] at cl cr
    have gpt : (fwGeo (linePt e (k, pt k)) (linePt e (k + 1, pt (k + 1))) (linePt e (k + 1 + 1, pt (k + 1 + 1)))
        e.o.miterLimit e.hwFw).pt = eT pt k := rfl
    have gnt : (fwGeo (linePt e (k, pt k)) (linePt e (k + 1, pt (k + 1))) (linePt e (k + 1 + 1, pt (k + 1 + 1)))
        e.o.miterLimit e.hwFw).nt = eT pt (k + 1) := rfl
    have gn : (fwGeo (linePt e (k, pt k)) (linePt e (k + 1, pt (k + 1))) (linePt e (k + 1 + 1, pt (k + 1 + 1)))
        e.o.miterLimit e.hwFw).normal = computeNormal (eT pt k) (eT pt (k + 1)) := rfl
    have gf : (fwGeo (linePt e (k, pt k)) (linePt e (k + 1, pt (k + 1))) (linePt e (k + 1 + 1, pt (k + 1 + 1)))
        e.o.miterLimit e.hwFw).frontNeg = decide ((eT pt k).cross (eT pt (k + 1)) ≥ Scalar.zero) := rfl
    have gu : (fwGeo (linePt e (k, pt k)) (linePt e (k + 1, pt (k + 1))) (linePt e (k + 1 + 1, pt (k + 1 + 1)))
        e.o.miterLimit e.hwFw).unclipped
        = ((e.o.join == Lyon.StrokeQuad.Join.miter || e.o.join == Lyon.StrokeQuad.Join.miterClip)
          && !miterLimitIsExceeded (if decide ((eT pt k).cross (eT pt (k + 1)) ≥ Scalar.zero)
              then -computeNormal (eT pt k) (eT pt (k + 1)) else computeNormal (eT pt k) (eT pt (k + 1))) e.o.miterLimit) := rfl
    have hjp : (linePt e (k + 1, pt (k + 1))).position = pt (k + 1) := rfl
    rw [gpt, gnt, gn, gf, hjp] at cl cr
    rw [gu, hmc] at hunc
    have hτd : jtau pt k = (eT pt k).cross (eT pt (k + 1)) / (1 + (eT pt k).dot (eT pt (k + 1))) := rfl
    rw [← hτd] at hN0 hN1
    have h4 : (four : K) = 4 := by simp only [geom]; norm_num
    have hne : e.hwFw ≠ 0 := ne_of_gt hhw
    have hz : ∀ (a v : P K), a + v.smul (e.hwFw * 0) = a := by
      intro a v; apply P.ext' <;> simp only [geom] <;> ring
    generalize hNdef : computeNormal (eT pt k) (eT pt (k + 1)) = N at hN0 hN1 hunc cl cr
    have hsq : N.sqLen = 1 + jtau pt k * jtau pt k := by
      rw [hN0]; simp only [perp, geom] at hu0 ⊢; linear_combination (1 + jtau pt k * jtau pt k) * hu0
    have hsqn : (-N).sqLen = 1 + jtau pt k * jtau pt k := by rw [← hsq]; simp only [geom]; ring
    by_cases hx : (eT pt k).cross (eT pt (k + 1)) ≥ 0
    · -- left turn: the negative side is clipped
      have hx' : (eT pt k).cross (eT pt (k + 1)) ≥ Scalar.zero := by simpa [geom] using hx
      obtain ⟨d1, d2, d3, d4, d5, d6⟩ := cl (decide_eq_true hx')
      rw [decide_eq_true hx'] at hunc
      have hexc : miterLimitIsExceeded (-N) e.o.miterLimit = true := by simpa using hunc
      have hexc' : (-N).sqLen > e.o.miterLimit * e.o.miterLimit * 4 := by
        unfold miterLimitIsExceeded at hexc; rw [h4] at hexc; exact of_decide_eq_true hexc
      have hτ0 : 0 ≤ jtau pt k := by rw [hτd]; exact div_nonneg hx (le_of_lt hc)
      have hF0 : (-N).dot (eT pt k) = jtau pt k := by
        rw [hN0]; simp only [perp, geom] at hu0 ⊢; linear_combination (jtau pt k) * hu0
      have hF1 : (-N).dot (eT pt (k + 1)) = -jtau pt k := by
        rw [hN1]; simp only [perp, geom] at hu1 ⊢; linear_combination (-jtau pt k) * hu1
      have hP0 : (perp (eT pt k)).dot (-N) = -1 := by
        rw [hN0]; simp only [perp, geom] at hu0 ⊢; linear_combination (-1 : K) * hu0
      have hP1 : (perp (eT pt (k + 1))).dot (-N) = -1 := by
        rw [hN1]; simp only [perp, geom] at hu1 ⊢; linear_combination (-1 : K) * hu1
      obtain ⟨lam, l0, l1, l2, l3⟩ := clip_lam eps heps hs0 hs (pt (k + 1)) (eT pt k) (eT pt (k + 1)) (-N) e.hwFw
        e.o.miterLimit 1 (jtau pt k) (by ring) hu0 hu1 hτ0 hF0 hF1 hP0 hP1 hsqn hexc' hml hhw hepsw
      simp only [one_mul] at l2 l3
      rw [l2] at d5
      rw [l3] at d6
      have hps : (jEP e pt (k + 1)).pos.single.isSome = true := by rw [d1]; rfl
      have hns : (jEP e pt (k + 1)).neg.single.isSome = false := by rw [d4]; rfl
      have hlam : lamAt e pt (k + 1) = lam / e.hwFw :=
        lamAt_clip hhw hu0 lam l0 (by rw [abs_of_nonneg hτ0]; exact l1) (Or.inl ⟨d2, d5⟩)
      have hmul : e.hwFw * (lam / e.hwFw) = lam := by field_simp
      rw [hps, hns, hlam]
      refine ⟨hc, fun _ => rfl, fun h => absurd hx (not_le.mpr h), (fun _ h => by simp at h),
        (fun hb => by rcases hb with hb | hb <;> rw [hb] at hmc <;> cases hmc), hps, hns, ?_, ?_, ?_, ?_, ?_, ?_, ?_, ?_⟩
      · simp only [if_true, hz]; exact d2
      · simp only [if_true, hz]; exact d3
      · simp only [Bool.false_eq_true, if_false, hmul]; exact d5
      · simp only [Bool.false_eq_true, if_false, mul_neg, hmul]; rw [d6]
        apply P.ext' <;> simp only [geom] <;> ring
      · simp only [if_true, sPrev, d1, Option.getD_some]
        rw [hN0]; apply P.ext' <;> simp only [geom] <;> ring
      · simp only [if_true, sNext, d1, Option.getD_some]
        rw [hN1]; apply P.ext' <;> simp only [geom] <;> ring
      · simp only [Bool.false_eq_true, if_false, sPrev, d4, Option.getD_none, hmul]; exact d5
      · simp only [Bool.false_eq_true, if_false, sNext, d4, Option.getD_none, mul_neg, hmul]; rw [d6]
        apply P.ext' <;> simp only [geom] <;> ring
    · -- right turn: the positive side is clipped
      have hx' : ¬ (eT pt k).cross (eT pt (k + 1)) ≥ Scalar.zero := by simpa [geom] using hx
      obtain ⟨d1, d2, d3, d4, d5, d6⟩ := cr (decide_eq_false hx')
      rw [decide_eq_false hx'] at hunc
      have hexc : miterLimitIsExceeded N e.o.miterLimit = true := by simpa using hunc
      have hexc' : N.sqLen > e.o.miterLimit * e.o.miterLimit * 4 := by
        unfold miterLimitIsExceeded at hexc; rw [h4] at hexc; exact of_decide_eq_true hexc
      have hτneg : jtau pt k < 0 := by rw [hτd]; exact div_neg_of_neg_of_pos (lt_of_not_ge hx) hc
      have hF0 : N.dot (eT pt k) = -jtau pt k := by
        rw [hN0]; simp only [perp, geom] at hu0 ⊢; linear_combination (-jtau pt k) * hu0
      have hF1 : N.dot (eT pt (k + 1)) = -(-jtau pt k) := by
        rw [hN1]; simp only [perp, geom] at hu1 ⊢; linear_combination (jtau pt k) * hu1
      have hP0 : (perp (eT pt k)).dot N = -(-1) := by
        rw [hN0]; simp only [perp, geom] at hu0 ⊢; linear_combination hu0
      have hP1 : (perp (eT pt (k + 1))).dot N = -(-1) := by
        rw [hN1]; simp only [perp, geom] at hu1 ⊢; linear_combination hu1
      have hsq' : N.sqLen = 1 + -jtau pt k * -jtau pt k := by rw [hsq]; ring
      obtain ⟨lam, l0, l1, l2, l3⟩ := clip_lam eps heps hs0 hs (pt (k + 1)) (eT pt k) (eT pt (k + 1)) N e.hwFw
        e.o.miterLimit (-1) (-jtau pt k) (by ring) hu0 hu1 (by linarith) hF0 hF1 hP0 hP1 hsq' hexc' hml hhw hepsw
      have eS0 : pt (k + 1) - (perp (eT pt k)).smul (-1 * e.hwFw) = pt (k + 1) + (perp (eT pt k)).smul e.hwFw := by
        apply P.ext' <;> simp only [geom] <;> ring
      have eS1 : pt (k + 1) - (perp (eT pt (k + 1))).smul (-1 * e.hwFw) = pt (k + 1) + (perp (eT pt (k + 1))).smul e.hwFw := by
        apply P.ext' <;> simp only [geom] <;> ring
      rw [eS0, eS1] at l2 l3
      rw [l2] at d5
      rw [l3] at d6
      have hns : (jEP e pt (k + 1)).neg.single.isSome = true := by rw [d1]; rfl
      have hps : (jEP e pt (k + 1)).pos.single.isSome = false := by rw [d4]; rfl
      have hlam : lamAt e pt (k + 1) = lam / e.hwFw :=
        lamAt_clip hhw hu0 lam l0 (by rw [abs_of_neg hτneg]; exact l1) (Or.inr ⟨d5, d2⟩)
      have hmul : e.hwFw * (lam / e.hwFw) = lam := by field_simp
      rw [hps, hns, hlam]
      refine ⟨hc, fun h => absurd h hx, fun _ => rfl, (fun _ h => by simp at h),
        (fun hb => by rcases hb with hb | hb <;> rw [hb] at hmc <;> cases hmc), hps, hns, ?_, ?_, ?_, ?_, ?_, ?_, ?_, ?_⟩
      · simp only [Bool.false_eq_true, if_false, hmul]; exact d5
      · simp only [Bool.false_eq_true, if_false, mul_neg, hmul]; rw [d6]
        apply P.ext' <;> simp only [geom] <;> ring
      · simp only [if_true, hz]; exact d2
      · simp only [if_true, hz]; exact d3
      · simp only [Bool.false_eq_true, if_false, sPrev, d4, Option.getD_none, hmul]; exact d5
      · simp only [Bool.false_eq_true, if_false, sNext, d4, Option.getD_none, mul_neg, hmul]; rw [d6]
        apply P.ext' <;> simp only [geom] <;> ring
      · simp only [if_true, sPrev, d1, Option.getD_some]
        rw [hN0]; apply P.ext' <;> simp only [geom] <;> ring
      · simp only [if_true, sNext, d1, Option.getD_some]
        rw [hN1]; apply P.ext' <;> simp only [geom] <;> ring

end

end Lyon.C06b
