/-
  C02 growth 3 (`Props/C02f.lean`), part 4: the diagonal `top → cur` drawn at a change of side
  splits the remaining polygon `P` into the fan polygon `U` and the new remaining polygon `P'`
  (`split_*`), and the whole change-of-side step is one `Tiles` step (`fan_step_tiles`).

  Notation: `S' ++ [top]` the stack bottom-first (`bot` its first entry), `f :: F''` the future
  part of the stack's chain (`f = cur` at the last vertex, otherwise `f` comes after `cur` and `cur`
  is strictly inside of `top → f`), `bot :: d :: F'` the opposite chain (`d = cur`).
-/
import LyonVerif.Lemmas.MonotoneTileFan

set_option linter.unusedSectionVars false
set_option linter.unusedVariables false
set_option linter.unusedSimpArgs false

namespace Lyon.C02f
open Lyon Lyon.Mono Lyon.C02 Lyon.C02c

section Geometry
variable {K : Type} [Field K] [LinearOrder K] [IsStrictOrderedRing K]

variable (c : Bool) (S' F'' F' : List (P K)) {top bot d f : P K}

/-- the fan polygon is part of the remaining polygon -/
theorem split_sub_U (hdt : After d top) (hf : f = d ∨ (After f d ∧ 0 < sg c * wind top f d)) (q : P K)
    (h : InPoly c (S' ++ top :: d :: []) (bot :: d :: F') q) :
    InPoly c (S' ++ top :: f :: F'') (bot :: d :: F') q := by
  refine ⟨?_, h.2⟩
  have h1 := h.1
  rw [chainIn_append] at h1 ⊢
  rcases h1 with g | ⟨⟨hqt, hdq⟩, hin⟩ | g
  · exact Or.inl g
  · right; left
    rcases hf with e | ⟨hfd, hw⟩
    · rw [e]; exact ⟨⟨hqt, hdq⟩, hin⟩
    · exact ⟨⟨hqt, after_trans hfd hdq⟩, turn_from_x c (after_trans hfd hdt) hdt hqt hw hin⟩
  · exact absurd g (chainIn_single c d q)

/-- the new remaining polygon is part of the old one -/
theorem split_sub_P (hdt : After d top) (htb : top = bot ∨ (After top bot ∧ 0 < sg c * wind bot top d)) (q : P K)
    (h : InPoly c (top :: f :: F'') (top :: d :: F') q) :
    InPoly c (S' ++ top :: f :: F'') (bot :: d :: F') q := by
  refine ⟨(chainIn_append c S' top (f :: F'') q).mpr (Or.inr h.1), ?_⟩
  rcases htb with e | ⟨htb, hw⟩
  · rw [← e]; exact h.2
  rcases h.2 with ⟨⟨hqt, hdq⟩, hin⟩ | g
  · left
    refine ⟨⟨Or.inr (afterEq_trans_after hqt htb), hdq⟩, ?_⟩
    rw [sg_not] at hin ⊢
    have := turn_outer c (after_trans hdt htb) hdt hdq hw (by linarith)
    linarith
  · exact Or.inr g

/-- the two parts are disjoint -/
theorem split_apart (hS : SortedP (S' ++ [top])) (hFc : SortedP (top :: f :: F'')) (hO : SortedP (d :: F'))
    (q : P K) (hu : InPoly c (S' ++ top :: d :: []) (bot :: d :: F') q) :
    ¬ InPoly c (top :: f :: F'') (top :: d :: F') q := by
  rintro ⟨hp1, hp2⟩
  have hqt := chainIn_lower c top (f :: F'') q hFc hp1
  have h1 := hu.1
  rw [chainIn_append] at h1
  rcases h1 with g | ⟨⟨_, hdq⟩, hin⟩ | g
  · exact not_after_of_afterEq hqt (chainIn_upper c _ q top hS (by simp) g)
  · rcases hp2 with ⟨_, hin'⟩ | g
    · rw [sg_not] at hin'; linarith
    · exact not_after_of_afterEq (chainIn_lower (!c) d F' q hO g) hdq
  · exact absurd g (chainIn_single c d q)

/-- every point of the remaining polygon is in the fan polygon, in the new remaining polygon, or
on the diagonal, which is an edge of the topmost fan triangle -/
theorem split_cover (hdt : After d top) (hf : f = d ∨ After f d) (hFc : SortedP (f :: F''))
    (hcase : (S' = [] ∧ top = bot) ∨
      ∃ S'' x, S' = S'' ++ [x] ∧ After top x ∧ 0 < sg c * wind x top d) (q : P K)
    (h : InPoly c (S' ++ top :: f :: F'') (bot :: d :: F') q) :
    InPoly c (S' ++ top :: d :: []) (bot :: d :: F') q ∨ InPoly c (top :: f :: F'') (top :: d :: F') q ∨
      ∃ S'' x, S' = S'' ++ [x] ∧ InTriSC c x top d q := by
  obtain ⟨h1, h2⟩ := h
  rw [chainIn_append] at h1
  rcases h1 with g | g
  · exact Or.inl ⟨(chainIn_append c S' top [d] q).mpr (Or.inl g), h2⟩
  rcases h2 with ⟨⟨hqb, hdq⟩, hin2⟩ | g2
  · -- `q` is before `d`: the chain edge is `top → f`
    rcases g with ⟨⟨hqt, hfq⟩, hin⟩ | g
    · rcases lt_trichotomy 0 (sg c * wind top d q) with t | t | t
      · exact Or.inl ⟨(chainIn_append c S' top [d] q).mpr (Or.inr (Or.inl ⟨⟨hqt, hdq⟩, t⟩)),
          Or.inl ⟨⟨hqb, hdq⟩, hin2⟩⟩
      · right; right
        rcases hcase with ⟨_, e⟩ | ⟨S'', x, e, htx, hconv⟩
        · exfalso
          rw [e] at t
          rw [sg_not] at hin2
          linarith
        · refine ⟨S'', x, e, diag_closed c htx hdt hqt hdq hconv ?_⟩
          rcases mul_eq_zero.mp t.symm with z | z
          · cases c <;> simp [sg] at z
          · exact z
      · right; left
        exact ⟨Or.inl ⟨⟨hqt, hfq⟩, hin⟩, Or.inl ⟨⟨hqt, hdq⟩, by rw [sg_not]; linarith⟩⟩
    · exfalso
      have hqf := chainIn_lower c f F'' q hFc g
      rcases hf with e | e
      · rw [e] at hqf; exact not_after_of_afterEq hqf hdq
      · exact not_after_of_afterEq hqf (after_trans e hdq)
  · right; left
    exact ⟨g, Or.inr g2⟩

/-- the fully popped fan polygon is empty -/
theorem fan_rest_empty (hO : SortedP (d :: F')) (q : P K) : ¬ InPoly c [bot, d] (bot :: d :: F') q := by
  rintro ⟨h1, h2⟩
  rcases h1 with ⟨⟨_, hdq⟩, hin⟩ | g
  · rcases h2 with ⟨_, hin'⟩ | g
    · rw [sg_not] at hin'; linarith
    · exact not_after_of_afterEq (chainIn_lower (!c) d F' q hO g) hdq
  · exact absurd g (chainIn_single c d q)

/-- **the change-of-side step**: the stack `st` (top first, last entry `bot`) is on side `c`, the
vertex `cur` on the other side (or the last vertex).  The fan `fanTris cur st.reverse` — in lyon's
emission order — tiles the part of the remaining polygon above the diagonal `top → cur`. -/
theorem fan_step_tiles (pos : Nat → P K) (c : Bool) (cur bot topv : MV K) (rest : List (MV K)) (f : P K)
    (F'' F' : List (P K))
    (hgood : ∀ v ∈ topv :: rest, Good pos v) (hcur : Good pos cur)
    (hlast : (topv :: rest).getLast? = some bot)
    (hsort : ((topv :: rest).map (·.pos)).Pairwise (fun a b => After a b))
    (hcs : ∀ v ∈ topv :: rest, After cur.pos v.pos)
    (hside : ∀ v ∈ topv :: rest, v.pos = bot.pos ∨ 0 < sg c * wind bot.pos v.pos cur.pos)
    (hfan : FanPosT c cur.pos ((topv :: rest).map (·.pos)))
    (hf : f = cur.pos ∨ (After f cur.pos ∧ 0 < sg c * wind topv.pos f cur.pos))
    (hFc : SortedP (topv.pos :: f :: F'')) (hO : SortedP (cur.pos :: F')) :
    Tiles (InPoly c (((topv :: rest).map (·.pos)).reverse ++ f :: F'') (bot.pos :: cur.pos :: F'))
      (TriIn pos) (TriInC pos) (fanTris cur (topv :: rest).reverse)
      (InPoly c (topv.pos :: f :: F'') (topv.pos :: cur.pos :: F')) := by
  have hdt : After cur.pos topv.pos := hcs topv (by simp)
  have t1 := fan_tiles pos c cur bot F' (topv :: rest) hgood hcur hlast hsort hcs hside hfan
  have t2 := t1.reverse
  rw [← fanTris_reverse] at t2
  have eS : ((topv :: rest).map (·.pos)).reverse = (rest.map (·.pos)).reverse ++ [topv.pos] := by simp
  have hS : SortedP ((rest.map (·.pos)).reverse ++ [topv.pos]) := by
    rw [← eS]; exact sortedP_reverse _ hsort
  rw [eS, List.append_assoc] at t2 ⊢
  simp only [List.singleton_append] at t2 ⊢
  have t3 := t2.frame (InPoly c (topv.pos :: f :: F'') (topv.pos :: cur.pos :: F'))
    (split_apart c _ F'' F' hS hFc hO)
  have htb : topv.pos = bot.pos ∨ (After topv.pos bot.pos ∧ 0 < sg c * wind bot.pos topv.pos cur.pos) := by
    rcases hside topv (by simp) with e | e
    · exact Or.inl e
    · right
      refine ⟨?_, e⟩
      rcases last_le _ bot.pos hsort (by rw [List.getLast?_map, hlast]; rfl) topv.pos (by simp) with g | g
      · rw [g, wind_self_mid] at e; simp at e
      · exact g
  refine t3.rebase ?_ ?_ ?_
  · rintro q (g | g)
    · exact split_sub_U c _ F'' F' hdt hf q g
    · exact split_sub_P c _ F'' F' hdt htb q g
  · intro q hq
    have hcase : ((rest.map (·.pos)).reverse = [] ∧ topv.pos = bot.pos) ∨
        ∃ S'' x, (rest.map (·.pos)).reverse = S'' ++ [x] ∧ After topv.pos x ∧ 0 < sg c * wind x topv.pos cur.pos := by
      cases rest with
      | nil =>
        left
        simp only [List.getLast?_singleton, Option.some.injEq] at hlast
        exact ⟨by simp, by rw [hlast]⟩
      | cons xv r =>
        right
        refine ⟨(r.map (·.pos)).reverse, xv.pos, by simp, ?_, hfan.1⟩
        exact List.rel_of_pairwise_cons hsort (by simp)
    rcases split_cover c _ F'' F' hdt (hf.imp id (·.1)) (List.Pairwise.of_cons hFc) hcase q hq with g | g | ⟨S'', x, e, g⟩
    · exact Or.inl (Or.inl g)
    · exact Or.inl (Or.inr g)
    · right
      cases rest with
      | nil => simp at e
      | cons xv r =>
        have ex : x = xv.pos := by
          have : (r.map (·.pos)).reverse ++ [xv.pos] = S'' ++ [x] := by simpa using e
          exact ((List.append_inj' this rfl).2 |> List.singleton_inj.mp).symm
        refine ⟨fanTri cur xv topv, ?_, ?_⟩
        · rw [fanTris_reverse]
          simp [fanTop]
        · rw [ex] at g
          exact (fanTri_in pos c cur xv topv hcur (hgood xv (by simp)) (hgood topv (by simp)) hfan.1 q).2 g
  · intro q
    constructor
    · intro h; exact Or.inr h
    · rintro (h | h)
      · exact absurd h (fan_rest_empty c F' hO q)
      · exact h

end Geometry

end Lyon.C02f
