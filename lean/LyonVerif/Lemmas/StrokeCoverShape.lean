/-
  C06b, part 2: the EMISSION SHAPE of one fixed-width join of the complete stroker model.

  `PosAt o id p`: the vertex with id `id` of the output `o` was emitted at position `p`
  (`StrokeVertex::position` = `position_on_path + normal · half_width`).
  `EmTri o (P1, P2, P3)`: `o` contains an index triple whose three vertices sit at `P1 P2 P3`.

  `fwJoin_shape`: a join of a fresh endpoint that does not fold (`fixed_width_step_impl`, `count > 1`)
  emits its base vertices exactly at the side points `compute_join_side_positions_fixed_width` stored
  (`single` if the side has a single vertex, else `prev` / `next`), the two triangles of
  `add_edge_triangles` between the previous point's `next` vertices and its own `prev` vertices
  (when the window is full), and the join triangle of `tessellate_join`.
-/
import LyonVerif.Lemmas.StrokeIdxTris
import LyonVerif.Lemmas.StrokeIdxClipSeg

set_option linter.unusedSectionVars false
set_option linter.unusedVariables false

namespace Lyon.C06b
open Lyon Scalar Lyon.Stroke Lyon.Stroke.Full Lyon.C05 Lyon.C05b Lyon.C05c

section
variable {K : Type} [Field K] [LinearOrder K] [IsStrictOrderedRing K]

/-- the vertex `id` of `o` was emitted at `p` -/
def PosAt (o : Out K) (id : Nat) (p : P K) : Prop := ∃ v, o.verts[id]? = some v ∧ v.position = p

/-- `o` contains a triangle (index triple) whose vertices were emitted at the three given positions -/
def EmTri (o : Out K) (T : P K × P K × P K) : Prop :=
  ∃ t ∈ o.tris, PosAt o t.1 T.1 ∧ PosAt o t.2.1 T.2.1 ∧ PosAt o t.2.2 T.2.2

/-- `o'` extends `o`: more vertices, more triangles, nothing changed -/
def Ext (o o' : Out K) : Prop := (∃ vs, o'.verts = o.verts ++ vs) ∧ (∃ ts, o'.tris = o.tris ++ ts)

theorem Ext.refl (o : Out K) : Ext o o := ⟨⟨[], by simp⟩, ⟨[], by simp⟩⟩

theorem Ext.trans {a b c : Out K} (h1 : Ext a b) (h2 : Ext b c) : Ext a c := by
  obtain ⟨⟨v1, e1⟩, ⟨t1, f1⟩⟩ := h1
  obtain ⟨⟨v2, e2⟩, ⟨t2, f2⟩⟩ := h2
  exact ⟨⟨v1 ++ v2, by rw [e2, e1, List.append_assoc]⟩, ⟨t1 ++ t2, by rw [f2, f1, List.append_assoc]⟩⟩

theorem Ext.len_le {o o' : Out K} (h : Ext o o') : o.verts.length ≤ o'.verts.length := by
  obtain ⟨⟨vs, e⟩, _⟩ := h; rw [e, List.length_append]; omega

theorem Ext.addVertex (o : Out K) (d : VData K) : Ext o (o.addVertex d) := ⟨⟨[d], rfl⟩, ⟨[], by simp [Out.addVertex]⟩⟩
theorem Ext.addTris (o : Out K) (t : List Stroke.Tri) : Ext o (o.addTris t) := ⟨⟨[], by simp [Out.addTris]⟩, ⟨t, rfl⟩⟩

theorem Ext.of_eq {o o' : Out K} (hv : o'.verts = o.verts) (ht : ∃ ts, o'.tris = o.tris ++ ts) : Ext o o' :=
  ⟨⟨[], by simp [hv]⟩, ht⟩

theorem PosAt.ext {o o' : Out K} (h : Ext o o') {id : Nat} {p : P K} (hp : PosAt o id p) : PosAt o' id p := by
  obtain ⟨⟨vs, e⟩, _⟩ := h
  obtain ⟨v, hv, hq⟩ := hp
  refine ⟨v, ?_, hq⟩
  rw [e]
  have hlt : id < o.verts.length := by
    by_contra hge
    rw [List.getElem?_eq_none (by omega)] at hv; cases hv
  rw [List.getElem?_append_left hlt]; exact hv

theorem EmTri.ext {o o' : Out K} (h : Ext o o') {T : P K × P K × P K} (hT : EmTri o T) : EmTri o' T := by
  obtain ⟨t, ht, h1, h2, h3⟩ := hT
  obtain ⟨ts, e⟩ := h.2
  exact ⟨t, by rw [e]; exact List.mem_append_left _ ht, h1.ext h, h2.ext h, h3.ext h⟩

/-- the three vertices of the index triple `t` were emitted at positions that all belong to `S` -/
def TriIn (o : Out K) (S : List (P K)) (t : Stroke.Tri) : Prop :=
  ∃ p1 p2 p3, PosAt o t.1 p1 ∧ PosAt o t.2.1 p2 ∧ PosAt o t.2.2 p3 ∧ p1 ∈ S ∧ p2 ∈ S ∧ p3 ∈ S

theorem TriIn.ext {o o' : Out K} (h : Ext o o') {S : List (P K)} {t : Stroke.Tri} (hT : TriIn o S t) : TriIn o' S t := by
  obtain ⟨p1, p2, p3, a, b, c, d⟩ := hT
  exact ⟨p1, p2, p3, a.ext h, b.ext h, c.ext h, d⟩

theorem TriIn.mono {o : Out K} {S S' : List (P K)} (hS : ∀ p ∈ S, p ∈ S') {t : Stroke.Tri} (hT : TriIn o S t) : TriIn o S' t := by
  obtain ⟨p1, p2, p3, a, b, c, d1, d2, d3⟩ := hT
  exact ⟨p1, p2, p3, a, b, c, hS _ d1, hS _ d2, hS _ d3⟩

/-- the three vertices of `t` were emitted at positions that belong to `S` or lie on the circle of squared radius
`r2` around `c` (the triangles of a round join's fan) -/
def TriFan (o : Out K) (S : List (P K)) (c : P K) (r2 : K) (t : Stroke.Tri) : Prop :=
  ∃ p1 p2 p3, PosAt o t.1 p1 ∧ PosAt o t.2.1 p2 ∧ PosAt o t.2.2 p3
    ∧ (p1 ∈ S ∨ (p1 - c).sqLen = r2) ∧ (p2 ∈ S ∨ (p2 - c).sqLen = r2) ∧ (p3 ∈ S ∨ (p3 - c).sqLen = r2)

theorem TriFan.ext {o o' : Out K} (h : Ext o o') {S : List (P K)} {c : P K} {r2 : K} {t : Stroke.Tri}
    (hT : TriFan o S c r2 t) : TriFan o' S c r2 t := by
  obtain ⟨p1, p2, p3, a, b, c', d⟩ := hT
  exact ⟨p1, p2, p3, a.ext h, b.ext h, c'.ext h, d⟩

theorem posAt_new (o : Out K) (d : VData K) (hn : o.nextId = o.verts.length) :
    PosAt (o.addVertex d) o.nextId d.position := by
  refine ⟨d, ?_, rfl⟩
  rw [hn]; simp [Out.addVertex]

theorem posAt_lt {o : Out K} {id : Nat} {p : P K} (h : PosAt o id p) : id < o.verts.length := by
  obtain ⟨v, hv, _⟩ := h
  by_contra hge
  rw [List.getElem?_eq_none (by omega)] at hv; cases hv

/-- the vertex a side is joined to on the previous / next edge: its single vertex, else `prev` / `next` -/
def sPrev (s : SideGeom K) : P K := s.single.getD s.prev
def sNext (s : SideGeom K) : P K := s.single.getD s.next

variable [Transc K]

/-- `add_join_base_vertices` for one side: the vertices sit at the stored side points -/
theorem baseVerticesSide_pos (j : Join K) (s : SideGeom K) (d : VData K) (o : Out K)
    (hp : d.positionOnPath = j.position) (hh : d.halfWidth = j.halfWidth) (h0 : j.halfWidth ≠ 0)
    (hn : o.nextId = o.verts.length) :
    Ext o (baseVerticesSide j s d o).2
    ∧ (baseVerticesSide j s d o).2.nextId = (baseVerticesSide j s d o).2.verts.length
    ∧ PosAt (baseVerticesSide j s d o).2 (baseVerticesSide j s d o).1.prevVertex (sPrev s)
    ∧ PosAt (baseVerticesSide j s d o).2 (baseVerticesSide j s d o).1.nextVertex (sNext s)
    ∧ (baseVerticesSide j s d o).1.prev = s.prev ∧ (baseVerticesSide j s d o).1.next = s.next
    ∧ (baseVerticesSide j s d o).1.single = s.single := by
  have hpos : ∀ x : P K, ({ d with normal := joinNormal j x } : VData K).position = x := by
    intro x
    show d.positionOnPath + ((x - j.position).sdiv j.halfWidth).smul d.halfWidth = x
    rw [hp, hh]; exact emit_position _ _ _ h0
  rcases s with ⟨sp, sn, ss, i1, i2⟩
  cases ss with
  | some p =>
    simp only [baseVerticesSide, sPrev, sNext, Option.getD_some]
    refine ⟨Ext.addVertex _ _, by simp [Out.addVertex, hn], ?_, ?_, trivial, trivial, trivial⟩
    · have := posAt_new o { d with normal := joinNormal j p } hn
      rw [hpos] at this; exact this
    · have := posAt_new o { d with normal := joinNormal j p } hn
      rw [hpos] at this; exact this
  | none =>
    simp only [baseVerticesSide, sPrev, sNext, Option.getD_none]
    have hn1 : (o.addVertex { d with normal := joinNormal j sp }).nextId
        = (o.addVertex { d with normal := joinNormal j sp }).verts.length := by simp [Out.addVertex, hn]
    refine ⟨(Ext.addVertex _ _).trans (Ext.addVertex _ _), by simp [Out.addVertex, hn], ?_, ?_, trivial, trivial, trivial⟩
    · have := posAt_new o { d with normal := joinNormal j sp } hn
      rw [hpos] at this; exact this.ext (Ext.addVertex _ _)
    · have := posAt_new (o.addVertex { d with normal := joinNormal j sp }) { d with normal := joinNormal j sn } hn1
      rw [hpos] at this; exact this

/-- both sides -/
theorem baseVertices_pos (j : EP K) (d : VData K) (o : Out K)
    (hp : d.positionOnPath = j.position) (hh : d.halfWidth = j.halfWidth) (h0 : j.halfWidth ≠ 0)
    (hn : o.nextId = o.verts.length) :
    Ext o (baseVertices j d o).2
    ∧ (baseVertices j d o).2.nextId = (baseVertices j d o).2.verts.length
    ∧ PosAt (baseVertices j d o).2 (baseVertices j d o).1.neg.prevVertex (sPrev j.neg)
    ∧ PosAt (baseVertices j d o).2 (baseVertices j d o).1.neg.nextVertex (sNext j.neg)
    ∧ PosAt (baseVertices j d o).2 (baseVertices j d o).1.pos.prevVertex (sPrev j.pos)
    ∧ PosAt (baseVertices j d o).2 (baseVertices j d o).1.pos.nextVertex (sNext j.pos)
    ∧ (baseVertices j d o).1.pos.prev = j.pos.prev ∧ (baseVertices j d o).1.pos.next = j.pos.next
    ∧ (baseVertices j d o).1.pos.single = j.pos.single
    ∧ (baseVertices j d o).1.neg.prev = j.neg.prev ∧ (baseVertices j d o).1.neg.next = j.neg.next
    ∧ (baseVertices j d o).1.neg.single = j.neg.single := by
  obtain ⟨a1, a2, a3, a4, a5, a6, a7⟩ := baseVerticesSide_pos j.toJoin j.neg { d with side := .negative } o hp hh h0 hn
  obtain ⟨b1, b2, b3, b4, b5, b6, b7⟩ := baseVerticesSide_pos j.toJoin j.pos { d with side := .positive }
    (baseVerticesSide j.toJoin j.neg { d with side := .negative } o).2 hp hh h0 a2
  refine ⟨a1.trans b1, b2, a3.ext b1, a4.ext b1, b3, b4, b5, b6, b7, a5, a6, a7⟩

/-- `add_edge_triangles` between two joins without folds whose relevant ids are pairwise distinct: the
two triangles `(p0.neg.next, p0.pos.next, p1.pos.prev)`, `(p0.neg.next, p1.pos.prev, p1.neg.prev)` -/
theorem edgeTris_eq (p0 p1 : JoinIds) (hf0 : p0.foldPos = false) (hg0 : p0.foldNeg = false)
    (hf1 : p1.foldPos = false) (hg1 : p1.foldNeg = false)
    (h1 : p0.negNext ≠ p1.posPrev) (h2 : p0.negNext ≠ p0.posNext) (h3 : p0.posNext ≠ p1.posPrev)
    (h4 : p0.negNext ≠ p1.negPrev) (h5 : p1.posPrev ≠ p1.negPrev) :
    addEdgeTriangles p0 p1 = [(p0.negNext, p0.posNext, p1.posPrev), (p0.negNext, p1.posPrev, p1.negPrev)] := by
  simp [addEdgeTriangles, edgeP0Neg, edgeP0Pos, edgeP1Neg, edgeP1Pos, edgeTri1, edgeTri2, hf0, hg0, hf1, hg1,
    h1, h2, h3, h4, h5]

/-- `tessellate_join`'s interior triangles use only the four ids of the join -/
theorem joinInterior_ids (i : JoinIds) (a b : Bool) : ∀ t ∈ joinInterior i a b,
    (t.1 = i.posPrev ∨ t.1 = i.posNext ∨ t.1 = i.negPrev ∨ t.1 = i.negNext)
    ∧ (t.2.1 = i.posPrev ∨ t.2.1 = i.posNext ∨ t.2.1 = i.negPrev ∨ t.2.1 = i.negNext)
    ∧ (t.2.2 = i.posPrev ∨ t.2.2 = i.posNext ∨ t.2.2 = i.negPrev ∨ t.2.2 = i.negNext) := by
  intro t ht
  unfold joinInterior at ht
  split_ifs at ht
  · cases a <;> cases b <;> simp at ht
    · obtain rfl := ht; simp
    · obtain rfl := ht; simp
    · rcases ht with rfl | rfl <;> simp
  · simp at ht

/-! ## round joins: the arc fan -/

/-- the hypothesis under which round joins are admitted: `cos² + sin² = 1` -/
def RoundOK (e : Env K) : Prop :=
  e.o.join ≠ .round ∨ ∀ x : K, Transc.cos x * Transc.cos x + Transc.sin x * Transc.sin x = 1

/-- a vertex position that is one of the join's own vertices or lies on the join's circle -/
def FanPt (S : List (P K)) (c : P K) (r2 : K) (p : P K) : Prop := p ∈ S ∨ (p - c).sqLen = r2

/-- `tessellate_arc`: only vertices on the circle around `position_on_path` with radius `half_width`, only triangles
between such vertices and the two end vertices -/
theorem arc_shape (hcs : ∀ x : K, Transc.cos x * Transc.cos x + Transc.sin x * Transc.sin x = 1)
    (S : List (P K)) (c : P K) (hw : K) (n : Nat) :
    ∀ (a0 a1 : K) (va vb : Nat) (d : VData K) (o : Out K) (pa pb : P K),
      d.positionOnPath = c → d.halfWidth = hw → o.nextId = o.verts.length →
      PosAt o va pa → FanPt S c (hw * hw) pa → PosAt o vb pb → FanPt S c (hw * hw) pb →
      Ext o (tessellateArc a0 a1 va vb n d o)
      ∧ (tessellateArc a0 a1 va vb n d o).nextId = (tessellateArc a0 a1 va vb n d o).verts.length
      ∧ ∃ ts, (tessellateArc a0 a1 va vb n d o).tris = o.tris ++ ts
          ∧ ∀ t ∈ ts, TriFan (tessellateArc a0 a1 va vb n d o) S c (hw * hw) t := by
  induction n with
  | zero =>
    intro a0 a1 va vb d o pa pb _ _ hn _ _ _ _
    exact ⟨Ext.refl _, hn, [], by simp [tessellateArc], by simp⟩
  | succ n ih =>
    intro a0 a1 va vb d o pa pb hc hh hn hpa hfa hpb hfb
    simp only [tessellateArc]
    set mid := (a0 + a1) * half with hmid
    set d1 : VData K := { d with normal := ⟨Transc.cos mid, Transc.sin mid⟩ } with hd1
    have hpos : (d1.position - c).sqLen = hw * hw := by
      show ((d.positionOnPath + (⟨Transc.cos mid, Transc.sin mid⟩ : P K).smul d.halfWidth) - c).sqLen = _
      rw [hc, hh]
      have := hcs mid
      simp only [geom]
      linear_combination (hw * hw) * this
    set o1 := (o.addVertex d1).addTri (va, o.nextId, vb) with ho1
    have hx1 : Ext o o1 := ⟨⟨[d1], rfl⟩, ⟨[(va, o.nextId, vb)], rfl⟩⟩
    have hn1 : o1.nextId = o1.verts.length := by simp [ho1, Out.addVertex, Out.addTri, hn]
    have hpv : PosAt o1 o.nextId d1.position := by
      refine ⟨d1, ?_, rfl⟩
      simp [ho1, Out.addVertex, Out.addTri, hn]
    have hfv : FanPt S c (hw * hw) d1.position := Or.inr hpos
    obtain ⟨x2, n2, ts2, e2, t2⟩ := ih a0 mid va o.nextId d1 o1 pa d1.position hc hh hn1 (hpa.ext hx1) hfa hpv hfv
    obtain ⟨x3, n3, ts3, e3, t3⟩ := ih mid a1 o.nextId vb d1 (tessellateArc a0 mid va o.nextId n d1 o1) d1.position pb hc hh n2
      (hpv.ext x2) hfv ((hpb.ext hx1).ext x2) hfb
    refine ⟨(hx1.trans x2).trans x3, n3, [(va, o.nextId, vb)] ++ ts2 ++ ts3, ?_, ?_⟩
    · rw [e3, e2]
      show o.tris ++ [(va, o.nextId, vb)] ++ ts2 ++ ts3 = _
      simp [List.append_assoc]
    · intro t ht
      rcases List.mem_append.mp ht with h | h
      · rcases List.mem_append.mp h with h | h
        · simp only [List.mem_singleton] at h
          subst h
          exact ⟨pa, d1.position, pb, ((hpa.ext hx1).ext x2).ext x3, (hpv.ext x2).ext x3, ((hpb.ext hx1).ext x2).ext x3,
            hfa, hfv, hfb⟩
        · exact (t2 t h).ext x3
      · exact t3 t h

/-- `tessellate_round_cap`: the middle vertex and two fans; every new vertex on the circle around `center`
(`edgeNormal` normalises to a unit vector), only triangles between such vertices and the two given ones -/
theorem roundCap_shape (hcs : ∀ x : K, Transc.cos x * Transc.cos x + Transc.sin x * Transc.sin x = 1)
    (S : List (P K)) (center : P K) (radius : K) (sn en : P K) (va vb : Nat) (tol : K) (isStart : Bool)
    (d : VData K) (o : Out K) (pa pb : P K) (hunit : (normalize en).sqLen = 1)
    (hn : o.nextId = o.verts.length)
    (hpa : PosAt o va pa) (hfa : FanPt S center (radius * radius) pa)
    (hpb : PosAt o vb pb) (hfb : FanPt S center (radius * radius) pb) :
    Ext o (tessellateRoundCap center radius sn va vb en tol isStart d o)
    ∧ (tessellateRoundCap center radius sn va vb en tol isStart d o).nextId
        = (tessellateRoundCap center radius sn va vb en tol isStart d o).verts.length
    ∧ ∃ ts, (tessellateRoundCap center radius sn va vb en tol isStart d o).tris = o.tris ++ ts
        ∧ ∀ t ∈ ts, TriFan (tessellateRoundCap center radius sn va vb en tol isStart d o) S center (radius * radius) t := by
  unfold tessellateRoundCap
  split_ifs with hlt
  · exact ⟨Ext.refl _, hn, [], by simp, by simp⟩
  · unfold roundCapBody
    simp only []
    set d1 : VData K := { d with positionOnPath := center, halfWidth := radius, side := capFirstSide isStart en sn, normal := normalize en } with hd1
    have hpos : (d1.position - center).sqLen = radius * radius := by
      show ((center + (normalize en).smul radius) - center).sqLen = _
      simp only [geom] at hunit ⊢
      linear_combination (radius * radius) * hunit
    set o1 := (o.addVertex d1).addTri (va, o.nextId, vb) with ho1
    have hx1 : Ext o o1 := ⟨⟨[d1], rfl⟩, ⟨[(va, o.nextId, vb)], rfl⟩⟩
    have hn1 : o1.nextId = o1.verts.length := by simp [ho1, Out.addVertex, Out.addTri, hn]
    have hpv : PosAt o1 o.nextId d1.position := by
      refine ⟨d1, ?_, rfl⟩
      simp [ho1, Out.addVertex, Out.addTri, hn]
    have hfv : FanPt S center (radius * radius) d1.position := Or.inr hpos
    obtain ⟨x2, n2, ts2, e2, t2⟩ := arc_shape hcs S center radius _ _ _ va o.nextId d1 o1 pa d1.position rfl rfl hn1
      (hpa.ext hx1) hfa hpv hfv
    obtain ⟨x3, n3, ts3, e3, t3⟩ := arc_shape hcs S center radius
      (numSubdivisions (ArcConv.angleAngleTo (ArcConv.angleFromXAxis sn) (ArcConv.angleFromXAxis en)) radius tol)
      (ArcConv.angleFromXAxis sn + ArcConv.angleAngleTo (ArcConv.angleFromXAxis sn) (ArcConv.angleFromXAxis en))
      (ArcConv.angleFromXAxis sn + ArcConv.angleAngleTo (ArcConv.angleFromXAxis sn) (ArcConv.angleFromXAxis en)
        + ArcConv.angleAngleTo (ArcConv.angleFromXAxis sn) (ArcConv.angleFromXAxis en))
      o.nextId vb ({ d1 with side := (capFirstSide isStart en sn).opposite } : VData K) _ d1.position pb rfl rfl n2
      (hpv.ext x2) hfv ((hpb.ext hx1).ext x2) hfb
    refine ⟨(hx1.trans x2).trans x3, n3, (va, o.nextId, vb) :: (ts2 ++ ts3), ?_, ?_⟩
    · rw [e3, e2]
      show o.tris ++ [(va, o.nextId, vb)] ++ ts2 ++ ts3 = _
      simp [List.append_assoc]
    · intro t ht
      rcases List.mem_cons.mp ht with h | h
      · subst h
        exact ⟨pa, d1.position, pb, ((hpa.ext hx1).ext x2).ext x3, (hpv.ext x2).ext x3, ((hpb.ext hx1).ext x2).ext x3,
          hfa, hfv, hfb⟩
      · rcases List.mem_append.mp h with h | h
        · exact (t2 t h).ext x3
        · exact t3 t h

/-- `tessellate_round_join` on one side (if requested): a fan over the side's two vertices -/
theorem roundJoinIf_shape (c : Bool)
    (hcs : c = true → ∀ x : K, Transc.cos x * Transc.cos x + Transc.sin x * Transc.sin x = 1) (j : Join K) (isNeg : Bool) (tol : K) (d : VData K) (o : Out K) (S : List (P K)) (pp pn : P K)
    (hpop : d.positionOnPath = j.position) (hhw : d.halfWidth = j.halfWidth) (hn : o.nextId = o.verts.length)
    (hP : PosAt o (if isNeg then j.neg else j.pos).prevVertex pp) (hpS : pp ∈ S)
    (hN : PosAt o (if isNeg then j.neg else j.pos).nextVertex pn) (hnS : pn ∈ S) :
    Ext o (roundJoinIf c j isNeg tol d o)
    ∧ (roundJoinIf c j isNeg tol d o).nextId = (roundJoinIf c j isNeg tol d o).verts.length
    ∧ ∃ ts, (roundJoinIf c j isNeg tol d o).tris = o.tris ++ ts
        ∧ ∀ t ∈ ts, TriFan (roundJoinIf c j isNeg tol d o) S j.position (j.halfWidth * j.halfWidth) t := by
  cases c with
  | false => exact ⟨Ext.refl _, hn, [], by simp [roundJoinIf], by simp⟩
  | true =>
    unfold roundJoinIf tessellateRoundJoin
    simp only [if_true]
    cases isNeg with
    | true =>
      simp only [if_true] at hP hN ⊢
      exact arc_shape (hcs rfl) S j.position j.halfWidth _ _ _ _ _ _ _ pn pp hpop hhw hn hN (Or.inl hnS) hP (Or.inl hpS)
    | false =>
      simp only [Bool.false_eq_true, if_false] at hP hN ⊢
      exact arc_shape (hcs rfl) S j.position j.halfWidth _ _ _ _ _ _ _ pp pn hpop hhw hn hP (Or.inl hpS) hN (Or.inl hnS)

/-- `tessellate_join`, any join kind: the interior triangles, then (round joins) fans over the sides that need a join -/
theorem tessJoin_shape (j : Join K)
    (hcs : j.round = true → ∀ x : K, Transc.cos x * Transc.cos x + Transc.sin x * Transc.sin x = 1) (tol : K) (d : VData K) (o : Out K) (S : List (P K)) (p1 p2 p3 p4 : P K)
    (hpop : d.positionOnPath = j.position) (hhw : d.halfWidth = j.halfWidth) (hn : o.nextId = o.verts.length)
    (h1 : PosAt o j.pos.prevVertex p1) (h2 : PosAt o j.pos.nextVertex p2)
    (h3 : PosAt o j.neg.prevVertex p3) (h4 : PosAt o j.neg.nextVertex p4)
    (m1 : p1 ∈ S) (m2 : p2 ∈ S) (m3 : p3 ∈ S) (m4 : p4 ∈ S) :
    Ext o (tessellateJoin j tol d o)
    ∧ (tessellateJoin j tol d o).nextId = (tessellateJoin j tol d o).verts.length
    ∧ ∃ ts, (tessellateJoin j tol d o).tris = o.tris ++ joinInterior j.ids (needsJoinPos j) (needsJoinNeg j) ++ ts
      ∧ ∀ t ∈ ts, TriFan (tessellateJoin j tol d o) S j.position (j.halfWidth * j.halfWidth) t := by
  unfold tessellateJoin
  set o1 := o.addTris (joinInterior j.ids (needsJoinPos j) (needsJoinNeg j)) with ho1
  have hx1 : Ext o o1 := Ext.addTris _ _
  have hn1 : o1.nextId = o1.verts.length := hn
  have hc1 : ∀ b : Bool, (b && j.round) = true → ∀ x : K, Transc.cos x * Transc.cos x + Transc.sin x * Transc.sin x = 1 := by
    intro b hb; simp only [Bool.and_eq_true] at hb; exact hcs hb.2
  obtain ⟨x2, n2, ts2, e2, t2⟩ := roundJoinIf_shape (needsJoinPos j && j.round) (hc1 _) j false tol d o1 S p1 p2 hpop hhw hn1
    (h1.ext hx1) m1 (h2.ext hx1) m2
  obtain ⟨x3, n3, ts3, e3, t3⟩ := roundJoinIf_shape (needsJoinNeg j && j.round) (hc1 _) j true tol d
    (roundJoinIf (needsJoinPos j && j.round) j false tol d o1) S p3 p4 hpop hhw n2
    ((h3.ext hx1).ext x2) m3 ((h4.ext hx1).ext x2) m4
  refine ⟨(hx1.trans x2).trans x3, n3, ts2 ++ ts3, ?_, ?_⟩
  · rw [e3, e2]
    show o.tris ++ joinInterior j.ids (needsJoinPos j) (needsJoinNeg j) ++ ts2 ++ ts3 = _
    simp [List.append_assoc]
  · intro t ht
    rcases List.mem_append.mp ht with h | h
    · exact (t2 t h).ext x3
    · exact t3 t h

/-- what one join leaves behind -/
structure JoinShape (st : St K) (prev j1 j2 : EP K) (o' : Out K) : Prop where
  ext : Ext st.out o'
  next : o'.nextId = o'.verts.length
  sides : Sides2 o'.nextId j2.ids
  pNegPrev : PosAt o' j2.neg.prevVertex (sPrev j1.neg)
  pNegNext : PosAt o' j2.neg.nextVertex (sNext j1.neg)
  pPosPrev : PosAt o' j2.pos.prevVertex (sPrev j1.pos)
  pPosNext : PosAt o' j2.pos.nextVertex (sNext j1.pos)
  gPos : j2.pos.prev = j1.pos.prev ∧ j2.pos.next = j1.pos.next ∧ j2.pos.single = j1.pos.single
  gNeg : j2.neg.prev = j1.neg.prev ∧ j2.neg.next = j1.neg.next ∧ j2.neg.single = j1.neg.single
  pos : j2.position = j1.position
  hw : j2.halfWidth = j1.halfWidth
  edge : st.buf.count > 2 →
    EmTri o' (sNext prev.neg, sNext prev.pos, sPrev j1.pos) ∧ EmTri o' (sNext prev.neg, sPrev j1.pos, sPrev j1.neg)
  joinNeg : j1.pos.single.isSome = true → j1.neg.single = none → EmTri o' (j1.neg.prev, sPrev j1.pos, j1.neg.next)
  joinPos : j1.neg.single.isSome = true → j1.pos.single = none → EmTri o' (sPrev j1.neg, j1.pos.prev, j1.pos.next)
  trisNew : ∃ ts, o'.tris = st.out.tris ++ ts ∧ ∀ t ∈ ts,
    (st.buf.count > 2 ∧ TriIn o' [sNext prev.neg, sNext prev.pos, sPrev j1.pos, sPrev j1.neg] t)
    ∨ TriIn o' [sPrev j1.neg, sNext j1.neg, sPrev j1.pos, sNext j1.pos] t
    ∨ TriFan o' [sPrev j1.neg, sNext j1.neg, sPrev j1.pos, sNext j1.pos] j1.position (j1.halfWidth * j1.halfWidth) t

theorem baseVertices_hw (j : EP K) (d : VData K) (o : Out K) :
    (baseVertices j d o).1.halfWidth = j.halfWidth ∧ (baseVertices j d o).1.foldPos = j.foldPos
    ∧ (baseVertices j d o).1.foldNeg = j.foldNeg := ⟨rfl, rfl, rfl⟩

theorem joinSidesFw_hw (ix : Lyon.StrokeQuad.Ix K) (prev join next : EP K) (ml vhw : K) :
    (joinSidesFw ix prev join next ml vhw).halfWidth = join.halfWidth := by
  unfold joinSidesFw; simp only []; split_ifs <;> rfl

/-- **emission shape of one join** (fixed width, fresh endpoint, no fold) -/
theorem fwJoin_shape {e : Env K} (hj : RoundOK e) (st : St K) (prev join next : EP K) (hf : Fresh e join)
    (hfp : join.foldPos = false) (hfn : join.foldNeg = false)
    (hnf : noFoldAt e prev.position join.position next.position)
    (hw0 : e.hwFw ≠ 0) (hn : st.out.nextId = st.out.verts.length)
    (hprev : st.buf.count > 2 → Sides2 st.out.nextId prev.ids
      ∧ PosAt st.out prev.neg.nextVertex (sNext prev.neg) ∧ PosAt st.out prev.pos.nextVertex (sNext prev.pos)) :
    ∃ j2 o', fwJoin e st prev join next = (commitSt st prev j2 o', next)
      ∧ JoinShape st prev (joinSidesFw e.ix prev join next e.o.miterLimit e.hwFw) j2 o' := by
  have hgeo : fwGeo prev join next e.o.miterLimit join.halfWidth
      = fwGeo (EP.mk' prev.position e.hwFw nan e.o.join (.endpoint 0) false)
          (EP.mk' join.position e.hwFw nan e.o.join (.endpoint 0) false)
          (EP.mk' next.position e.hwFw nan e.o.join (.endpoint 0) false) e.o.miterLimit e.hwFw := by
    rw [hf.hw]; exact fwGeo_congr _ _ rfl rfl hf.lj rfl
  have hfold : (fwGeo prev join next e.o.miterLimit join.halfWidth).fold = false := by rw [hgeo]; exact hnf
  obtain ⟨s1, s2, s3⟩ := joinSidesFw_singles e.ix prev join next e.o.miterLimit join.halfWidth hf.ps hf.ns
  obtain ⟨f1, f2⟩ := joinSidesFw_nofold e.ix prev join next e.o.miterLimit join.halfWidth hfold
  have hhw1 := joinSidesFw_hw e.ix prev join next e.o.miterLimit join.halfWidth
  rw [← hf.hw]
  generalize hj1 : joinSidesFw e.ix prev join next e.o.miterLimit join.halfWidth = j1 at s1 s2 s3 f1 f2 hhw1
  have hdd : ∃ dd : VData K, dd = { baseVertex join.src join.position join.halfWidth nan with
      advancement := j1.advancement } := ⟨_, rfl⟩
  obtain ⟨dd, edd⟩ := hdd
  have hddp : dd.positionOnPath = j1.position := by rw [edd, s2]; rfl
  have hddh : dd.halfWidth = j1.halfWidth := by rw [edd, hhw1]; rfl
  have hj1w : j1.halfWidth ≠ 0 := by rw [hhw1, hf.hw]; exact hw0
  obtain ⟨i1, i2, i3, i4, i5, i6⟩ := baseVertices_ids j1 dd st.out (f1.trans hfp) (f2.trans hfn)
  obtain ⟨q1, q2, q3, q4, q5, q6, q7, q8, q9, q10, q11, q12⟩ := baseVertices_pos j1 dd st.out hddp hddh hj1w hn
  obtain ⟨_, b2, b3⟩ := baseVertices_verts j1 dd st.out
  obtain ⟨hhw2, hfp2, hfn2⟩ := baseVertices_hw j1 dd st.out
  generalize hj2 : (baseVertices j1 dd st.out).1 = j2 at i1 i2 i3 i6 q3 q4 q5 q6 q7 q8 q9 q10 q11 q12 b2 b3 hfp2 hfn2 hhw2
  generalize ho1 : (baseVertices j1 dd st.out).2 = o1 at i1 i4 i5 q1 q2 q3 q4 q5 q6
  -- the edge triangles, then `tessellate_join`
  obtain ⟨o1', ho1'⟩ : ∃ o1' : Out K, o1' = (if st.buf.count > 2 then o1.addTris (addEdgeTriangles prev.ids j2.ids) else o1) :=
    ⟨_, rfl⟩
  have hx1' : Ext o1 o1' := by rw [ho1']; split_ifs; exact Ext.addTris _ _; exact Ext.refl _
  have hn1' : o1'.nextId = o1'.verts.length := by rw [ho1']; split_ifs <;> exact q2
  have ht1' : o1'.tris = o1.tris ++ (if st.buf.count > 2 then addEdgeTriangles prev.ids j2.ids else []) := by
    rw [ho1']; split_ifs <;> simp [Out.addTris]
  have hround : j2.toJoin.round = true → ∀ x : K, Transc.cos x * Transc.cos x + Transc.sin x * Transc.sin x = 1 := by
    intro hr
    rcases hj with h | h
    · exfalso
      have : (j2.lineJoin == Lyon.StrokeQuad.Join.round) = true := hr
      rw [b3, s3, hf.lj] at this
      cases hh : e.o.join <;> simp_all
    · exact h
  obtain ⟨hxj, hnj, ts, ets, tfan⟩ := tessJoin_shape j2.toJoin hround e.o.tolerance dd o1'
    [sPrev j1.neg, sNext j1.neg, sPrev j1.pos, sNext j1.pos] (sPrev j1.pos) (sNext j1.pos) (sPrev j1.neg) (sNext j1.neg)
    (by show dd.positionOnPath = j2.position; rw [b2]; exact hddp) (by show dd.halfWidth = j2.halfWidth; rw [hhw2]; exact hddh)
    hn1' (q5.ext hx1') (q6.ext hx1') (q3.ext hx1') (q4.ext hx1') (by simp) (by simp) (by simp) (by simp)
  have hedge : edgeAndJoin e.o.tolerance st.buf.count prev j2 dd o1 = tessellateJoin j2.toJoin e.o.tolerance dd o1' := by
    rw [ho1']; rfl
  generalize ho' : edgeAndJoin e.o.tolerance st.buf.count prev j2 dd o1 = o' at hedge
  rw [← hedge] at hxj hnj ets tfan
  have hext1 : Ext o1 o' := hx1'.trans hxj
  have t1 : o'.tris = o1.tris ++ (if st.buf.count > 2 then addEdgeTriangles prev.ids j2.ids else [])
      ++ joinInterior j2.ids (needsJoinPos j2.toJoin) (needsJoinNeg j2.toJoin) ++ ts := by
    rw [ets, ht1']; rfl
  have hle : o1.nextId ≤ o'.nextId := by rw [hnj, q2]; exact hext1.len_le
  have hfp2' : j2.foldPos = false := by rw [hfp2]; exact f1.trans hfp
  have hfn2' : j2.foldNeg = false := by rw [hfn2]; exact f2.trans hfn
  refine ⟨j2, o', ?_, ?_⟩
  · unfold fwJoin; simp only []; rw [if_neg (by rw [fastPath_fresh hf]; simp)]
    show _ = _
    simp only [show (baseVertex join.src join.position join.halfWidth nan : VData K).halfWidth = join.halfWidth from rfl, hj1]
    subst ho' ho1 hj2
    rw [edd]; rfl
  · refine ⟨q1.trans hext1, hnj, i1.mono hle, q3.ext hext1, q4.ext hext1, q5.ext hext1,
      q6.ext hext1, ⟨q7, q8, q9⟩, ⟨q10, q11, q12⟩, b2, hhw2, ?_, ?_, ?_, ?_⟩
    · intro h3
      obtain ⟨⟨p1, p2, pg, p4, p5⟩, pa, pb⟩ := hprev h3
      obtain ⟨r1, r2, rg, r4, r5⟩ := i1
      obtain ⟨g1, g2, g3, g4⟩ := pg
      have hi2 : st.out.nextId ≤ j2.ids.posPrev := i2
      have hi3 : st.out.nextId ≤ j2.ids.negPrev := i3
      have he := edgeTris_eq prev.ids j2.ids p1 p2 r1 r2 (by omega) p4 (by omega) (by omega) r5
      have hmem : ∀ t ∈ addEdgeTriangles prev.ids j2.ids, t ∈ o'.tris := by
        intro t ht; rw [t1, if_pos h3]; simp [ht]
      have hx := q1.trans hext1
      refine ⟨⟨(prev.ids.negNext, prev.ids.posNext, j2.ids.posPrev), hmem _ (by rw [he]; simp),
          pa.ext hx, pb.ext hx, q5.ext hext1⟩,
        ⟨(prev.ids.negNext, j2.ids.posPrev, j2.ids.negPrev), hmem _ (by rw [he]; simp),
          pa.ext hx, q5.ext hext1, q3.ext hext1⟩⟩
    · intro hps hns
      have hnp : needsJoinPos j2.toJoin = false := by
        show (j2.pos.single.isNone && !j2.foldNeg) = false
        rw [q9]; cases h : j1.pos.single <;> simp_all
      have hnn : needsJoinNeg j2.toJoin = true := by
        show (j2.neg.single.isNone && !j2.foldPos) = true
        rw [q12, hns, hfp2']; rfl
      have hmem : (j2.ids.negPrev, j2.ids.posPrev, j2.ids.negNext) ∈ o'.tris := by
        rw [t1, hnp, hnn]
        have : j2.ids.foldPos = false := hfp2'
        have : j2.ids.foldNeg = false := hfn2'
        simp [joinInterior, *]
      refine ⟨_, hmem, ?_, q5.ext hext1, ?_⟩
      · have : PosAt o' j2.neg.prevVertex j1.neg.prev := by simpa [sPrev, hns] using q3.ext hext1
        exact this
      · have : PosAt o' j2.neg.nextVertex j1.neg.next := by simpa [sNext, hns] using q4.ext hext1
        exact this
    · intro hns hps
      have hnn : needsJoinNeg j2.toJoin = false := by
        show (j2.neg.single.isNone && !j2.foldPos) = false
        rw [q12]; cases h : j1.neg.single <;> simp_all
      have hnp : needsJoinPos j2.toJoin = true := by
        show (j2.pos.single.isNone && !j2.foldNeg) = true
        rw [q9, hps, hfn2']; rfl
      have hmem : (j2.ids.negPrev, j2.ids.posPrev, j2.ids.posNext) ∈ o'.tris := by
        rw [t1, hnp, hnn]
        have : j2.ids.foldPos = false := hfp2'
        have : j2.ids.foldNeg = false := hfn2'
        simp [joinInterior, *]
      refine ⟨_, hmem, q3.ext hext1, ?_, ?_⟩
      · have : PosAt o' j2.pos.prevVertex j1.pos.prev := by simpa [sPrev, hps] using q5.ext hext1
        exact this
      · have : PosAt o' j2.pos.nextVertex j1.pos.next := by simpa [sNext, hps] using q6.ext hext1
        exact this
    · refine ⟨(if st.buf.count > 2 then addEdgeTriangles prev.ids j2.ids else [])
          ++ joinInterior j2.ids (needsJoinPos j2.toJoin) (needsJoinNeg j2.toJoin) ++ ts,
        by rw [t1, i4]; simp [List.append_assoc], ?_⟩
      intro t ht
      rcases List.mem_append.mp ht with ht | ht
      swap
      · right; right
        have := tfan t ht
        rw [show j2.toJoin.position = j1.position from b2, show j2.toJoin.halfWidth = j1.halfWidth from hhw2] at this
        exact this
      rcases List.mem_append.mp ht with ht | ht
      · left
        by_cases h3 : st.buf.count > 2
        · rw [if_pos h3] at ht
          obtain ⟨⟨p1, p2, pg, p4, p5⟩, pa, pb⟩ := hprev h3
          obtain ⟨r1, r2, rg, r4, r5⟩ := i1
          obtain ⟨g1, g2, g3, g4⟩ := pg
          have hi2 : st.out.nextId ≤ j2.ids.posPrev := i2
          have hi3 : st.out.nextId ≤ j2.ids.negPrev := i3
          have he := edgeTris_eq prev.ids j2.ids p1 p2 r1 r2 (by omega) p4 (by omega) (by omega) r5
          rw [he] at ht
          have hx := q1.trans hext1
          simp only [List.mem_cons, List.mem_nil_iff, or_false] at ht
          rcases ht with rfl | rfl
          · exact ⟨h3, _, _, _, pa.ext hx, pb.ext hx, q5.ext hext1, by simp, by simp, by simp⟩
          · exact ⟨h3, _, _, _, pa.ext hx, q5.ext hext1, q3.ext hext1, by simp, by simp, by simp⟩
        · rw [if_neg h3] at ht; simp at ht
      · right; left
        obtain ⟨c1, c2, c3⟩ := joinInterior_ids _ _ _ t ht
        have hP : ∀ id, (id = j2.ids.posPrev ∨ id = j2.ids.posNext ∨ id = j2.ids.negPrev ∨ id = j2.ids.negNext) →
            ∃ p, PosAt o' id p ∧ p ∈ [sPrev j1.neg, sNext j1.neg, sPrev j1.pos, sNext j1.pos] := by
          intro id hid
          rcases hid with rfl | rfl | rfl | rfl
          · exact ⟨_, q5.ext hext1, by simp⟩
          · exact ⟨_, q6.ext hext1, by simp⟩
          · exact ⟨_, q3.ext hext1, by simp⟩
          · exact ⟨_, q4.ext hext1, by simp⟩
        obtain ⟨p1, a1, m1⟩ := hP _ c1
        obtain ⟨p2, a2, m2⟩ := hP _ c2
        obtain ⟨p3, a3, m3⟩ := hP _ c3
        exact ⟨p1, p2, p3, a1, a2, a3, m1, m2, m3⟩

end

end Lyon.C06b
