/-
  C03c/d — the quarter-circle cubic of the path-builder helpers.

  builder.rs `add_circle` and `add_rounded_rectangle` draw every quarter circle as ONE cubic Bézier
  with the magic constant `CONSTANT_FACTOR = 0.55191505` (not the `4/3·tan(θ/4)` of the arc code of
  C13): from `ctr + ρ·u` to `ctr + ρ·v` (`u ⟂ v` unit vectors) with control points
  `ctr + ρ·(u + k·v)`, `ctr + ρ·(v + k·u)`.

  * `QuarterArc`                 that shape, as a predicate on a `Cubic`
  * `QuarterArc.sample_eq`       `B(t) = ctr + ρ·(b(t)·u + b(1−t)·v)`, `b` = `bern k`
  * `bern_sq_sum`                `b(t)² + b(1−t)² = 1 + s²·(κ² − 8κ + 9 − 2(κ − 1)²·s)`, `s = t(1−t)`,
                                 `κ = 3(1 − k)` — for every `k`
  * `radial_poly_bounds`         for `k = 0.55191505`, `t ∈ [0,1]`:
                                 `(1 − 2·10⁻⁴)² ≤ b(t)² + b(1−t)² ≤ (1 + 2·10⁻⁴)²`
  * `QuarterArc.radial`          hence `(ρ(1 − 2·10⁻⁴))² ≤ |B(t) − ctr|² ≤ (ρ(1 + 2·10⁻⁴))²`
  * `QuarterArc.in_corner`       and `0 ≤ b(t), b(1−t) ≤ 1`: the curve stays in the corner square
-/
import LyonVerif.Model.Path.Shapes
import LyonVerif.Lemmas.Field
import Mathlib.Tactic.Positivity
import Mathlib.Tactic.NormNum

set_option linter.unusedSectionVars false
set_option linter.unusedVariables false


namespace Lyon.C03d
open Lyon Lyon.Path Lyon.PathShapes

variable {K : Type} [Field K] [LinearOrder K] [IsStrictOrderedRing K]

/-- the weight of the start direction: `(1−t)³ + 3(1−t)²t + 3k(1−t)t²` -/
def bern (k t : K) : K := (1 - t) ^ 3 + 3 * (1 - t) ^ 2 * t + 3 * k * (1 - t) * t ^ 2

/-- `CONSTANT_FACTOR` as a field element -/
def kC : K := 55191505 / 10 ^ 8

theorem circleK_eq : (circleK : K) = kC := by simp [circleK, kC, ofSci_eq]

theorem bern_nonneg (k t : K) (hk : 0 ≤ k) (h0 : 0 ≤ t) (h1 : t ≤ 1) : 0 ≤ bern k t := by
  have : 0 ≤ 1 - t := by linarith
  unfold bern; positivity

theorem bern_le_one (k t : K) (hk : k ≤ 1) (h0 : 0 ≤ t) (h1 : t ≤ 1) : bern k t ≤ 1 := by
  have hw : 0 ≤ 1 - t := by linarith
  have e : bern k t = 1 - t ^ 3 - 3 * (1 - k) * ((1 - t) * t ^ 2) := by unfold bern; ring
  rw [e]
  have : 0 ≤ 3 * (1 - k) * ((1 - t) * t ^ 2) := by
    have : 0 ≤ 1 - k := by linarith
    positivity
  have : 0 ≤ t ^ 3 := by positivity
  linarith

/-- **the squared radius of the quarter cubic, for every constant `k`** -/
theorem bern_sq_sum (k t : K) :
    bern k t ^ 2 + bern k (1 - t) ^ 2
      = 1 + (t * (1 - t)) ^ 2 * ((3 * (1 - k)) ^ 2 - 8 * (3 * (1 - k)) + 9
          - 2 * (3 * (1 - k) - 1) ^ 2 * (t * (1 - t))) := by
  unfold bern; ring

/-- **radial deviation of the quarter cubic with lyon's constant**: within `±2·10⁻⁴` -/
theorem radial_poly_bounds (t : K) (h0 : 0 ≤ t) (h1 : t ≤ 1) :
    (1 - 2 / 10 ^ 4 : K) ^ 2 ≤ bern kC t ^ 2 + bern kC (1 - t) ^ 2 ∧
    bern kC t ^ 2 + bern kC (1 - t) ^ 2 ≤ (1 + 2 / 10 ^ 4 : K) ^ 2 := by
  rw [bern_sq_sum]
  set s := t * (1 - t) with hs
  have hs0 : 0 ≤ s := mul_nonneg h0 (by linarith)
  have hs4 : s ≤ 1 / 4 := by nlinarith [sq_nonneg (t - 1 / 2)]
  set al : K := (3 * (1 - kC)) ^ 2 - 8 * (3 * (1 - kC)) + 9 with hal
  set be : K := 2 * (3 * (1 - kC) - 1) ^ 2 with hbe
  have hbe0 : 0 ≤ be := by rw [hbe]; positivity
  have hss : 0 ≤ s ^ 2 := by positivity
  have hss16 : s ^ 2 ≤ 1 / 16 := by nlinarith
  constructor
  · -- lower bound: s²(α − β s) ≥ s²(α − β/4) ≥ (α − β/4)/16
    have hneg : al - be / 4 ≤ 0 := by rw [hal, hbe]; simp only [kC]; norm_num
    have hlo : -(4 / 10 ^ 4 : K) + 4 / 10 ^ 8 ≤ (al - be / 4) / 16 := by
      rw [hal, hbe]; simp only [kC]; norm_num
    have h1 : s ^ 2 * (al - be / 4) ≤ s ^ 2 * (al - be * s) := by
      apply mul_le_mul_of_nonneg_left _ hss
      nlinarith
    have h2 : (1 / 16) * (al - be / 4) ≤ s ^ 2 * (al - be / 4) := by
      nlinarith
    nlinarith
  · -- upper bound: hi − s²(α − β s) = β (s − s₀)²(s + s₀/2) + c₁ s² + c₀ with s₀ = 0.1491
    have key : (4 / 10 ^ 4 + 4 / 10 ^ 8 : K) - s ^ 2 * (al - be * s)
        = be * ((s - 1491 / 10 ^ 4) ^ 2 * (s + 1491 / 10 ^ 4 / 2))
          + (3 / 2 * be * (1491 / 10 ^ 4) - al) * s ^ 2
          + (4 / 10 ^ 4 + 4 / 10 ^ 8 - be * (1491 / 10 ^ 4) ^ 3 / 2) := by ring
    have c1 : (0 : K) ≤ 3 / 2 * be * (1491 / 10 ^ 4) - al := by
      rw [hal, hbe]; simp only [kC]; norm_num
    have c0 : (0 : K) ≤ 4 / 10 ^ 4 + 4 / 10 ^ 8 - be * (1491 / 10 ^ 4) ^ 3 / 2 := by
      rw [hbe]; simp only [kC]; norm_num
    have t1 : 0 ≤ be * ((s - 1491 / 10 ^ 4) ^ 2 * (s + 1491 / 10 ^ 4 / 2)) := by positivity
    have t2 : 0 ≤ (3 / 2 * be * (1491 / 10 ^ 4) - al) * s ^ 2 := mul_nonneg c1 hss
    nlinarith

/-- a cubic that is lyon's quarter circle of radius `ρ` about `ctr` from direction `u` to
direction `v` (orthonormal) -/
structure QuarterArc (ctr : P K) (ρ : K) (u v : P K) (q : Cubic K) : Prop where
  hu : u.x * u.x + u.y * u.y = 1
  hv : v.x * v.x + v.y * v.y = 1
  huv : u.x * v.x + u.y * v.y = 0
  ax : q.a.x = ctr.x + ρ * u.x
  ay : q.a.y = ctr.y + ρ * u.y
  c1x : q.c1.x = ctr.x + ρ * (u.x + kC * v.x)
  c1y : q.c1.y = ctr.y + ρ * (u.y + kC * v.y)
  c2x : q.c2.x = ctr.x + ρ * (v.x + kC * u.x)
  c2y : q.c2.y = ctr.y + ρ * (v.y + kC * u.y)
  bx : q.b.x = ctr.x + ρ * v.x
  bY : q.b.y = ctr.y + ρ * v.y

namespace QuarterArc
variable {ctr : P K} {ρ : K} {u v : P K} {q : Cubic K}

/-- the same curve drawn backwards (the `Winding::Negative` order) -/
theorem flip (h : QuarterArc ctr ρ u v q) : QuarterArc ctr ρ v u ⟨q.b, q.c2, q.c1, q.a⟩ :=
  ⟨h.hv, h.hu, by have := h.huv; linarith, h.bx, h.bY, h.c2x, h.c2y, h.c1x, h.c1y, h.ax, h.ay⟩

theorem sample_x (h : QuarterArc ctr ρ u v q) (t : K) :
    (q.sample t).x = ctr.x + ρ * (bern kC t * u.x + bern kC (1 - t) * v.x) := by
  simp only [Cubic.sample, geom, Nat.cast_ofNat, Nat.cast_one, h.ax, h.c1x, h.c2x, h.bx, bern]
  ring

theorem sample_y (h : QuarterArc ctr ρ u v q) (t : K) :
    (q.sample t).y = ctr.y + ρ * (bern kC t * u.y + bern kC (1 - t) * v.y) := by
  simp only [Cubic.sample, geom, Nat.cast_ofNat, Nat.cast_one, h.ay, h.c1y, h.c2y, h.bY, bern]
  ring

/-- `B(t) = ctr + ρ·(b(t)·u + b(1−t)·v)` -/
theorem sample_eq (h : QuarterArc ctr ρ u v q) (t : K) :
    q.sample t = ⟨ctr.x + ρ * (bern kC t * u.x + bern kC (1 - t) * v.x),
                  ctr.y + ρ * (bern kC t * u.y + bern kC (1 - t) * v.y)⟩ :=
  P.ext' (h.sample_x t) (h.sample_y t)

/-- `|B(t) − ctr|² = ρ²·(b(t)² + b(1−t)²)` -/
theorem sqDist (h : QuarterArc ctr ρ u v q) (t : K) :
    (q.sample t - ctr).sqLen = ρ ^ 2 * (bern kC t ^ 2 + bern kC (1 - t) ^ 2) := by
  simp only [P.sub_def, P.sqLen, h.sample_x, h.sample_y]
  linear_combination (ρ ^ 2 * bern kC t ^ 2) * h.hu + (ρ ^ 2 * bern kC (1 - t) ^ 2) * h.hv
    + (2 * ρ ^ 2 * bern kC t * bern kC (1 - t)) * h.huv

/-- **radial error of the quarter cubic**: every point is within `2·10⁻⁴·ρ` of the circle of
radius `ρ` about `ctr` (squared form) -/
theorem radial (h : QuarterArc ctr ρ u v q) (t : K) (h0 : 0 ≤ t) (h1 : t ≤ 1) :
    (ρ * (1 - 2 / 10 ^ 4)) ^ 2 ≤ (q.sample t - ctr).sqLen ∧
    (q.sample t - ctr).sqLen ≤ (ρ * (1 + 2 / 10 ^ 4)) ^ 2 := by
  obtain ⟨lo, hi⟩ := radial_poly_bounds t h0 h1
  rw [h.sqDist, mul_pow, mul_pow]
  have : 0 ≤ ρ ^ 2 := sq_nonneg ρ
  exact ⟨mul_le_mul_of_nonneg_left lo this, mul_le_mul_of_nonneg_left hi this⟩

/-- the end points are exactly on the circle and the end tangents are perpendicular to the radii -/
theorem ends (h : QuarterArc ctr ρ u v q) :
    (q.a - ctr).sqLen = ρ ^ 2 ∧ (q.b - ctr).sqLen = ρ ^ 2 ∧
    (q.c1 - q.a).dot (q.a - ctr) = 0 ∧ (q.b - q.c2).dot (q.b - ctr) = 0 := by
  simp only [P.sub_def, P.sqLen, P.dot, h.ax, h.ay, h.bx, h.bY, h.c1x, h.c1y, h.c2x, h.c2y]
  refine ⟨?_, ?_, ?_, ?_⟩
  · linear_combination (ρ ^ 2) * h.hu
  · linear_combination (ρ ^ 2) * h.hv
  · linear_combination (ρ ^ 2 * kC) * h.huv
  · linear_combination (-(ρ ^ 2 * kC)) * h.huv

/-- the weights are in `[0,1]`: the curve stays in the square spanned by `ρ·u`, `ρ·v` at `ctr` -/
theorem in_corner (h : QuarterArc ctr ρ u v q) (t : K) (h0 : 0 ≤ t) (h1 : t ≤ 1) :
    ∃ a b : K, 0 ≤ a ∧ a ≤ 1 ∧ 0 ≤ b ∧ b ≤ 1 ∧
      q.sample t = ⟨ctr.x + ρ * (a * u.x + b * v.x), ctr.y + ρ * (a * u.y + b * v.y)⟩ := by
  have hk0 : (0 : K) ≤ kC := by unfold kC; positivity
  have hk1 : (kC : K) ≤ 1 := by unfold kC; norm_num
  exact ⟨bern kC t, bern kC (1 - t), bern_nonneg _ _ hk0 h0 h1, bern_le_one _ _ hk1 h0 h1,
    bern_nonneg _ _ hk0 (by linarith) (by linarith), bern_le_one _ _ hk1 (by linarith) (by linarith),
    h.sample_eq t⟩

end QuarterArc

end Lyon.C03d

/-! ## the eighth-circle quadratic of `FillBuilder::add_circle` (fill.rs)

`FillBuilder::add_circle` draws the circle as eight quadratics with the decimal constants
`tan(π/8) = 0.41421357` and `FRAC_1_SQRT_2`: from `ctr + ρ·u` with control point `ctr + ρ·(u + τ·v)` to
`ctr + ρ·k·(u + v)` (and the mirror image from there on to `ctr + ρ·v`). -/


namespace Lyon.C03d
open Lyon Lyon.Path Lyon.PathShapes

variable {K : Type} [Field K] [LinearOrder K] [IsStrictOrderedRing K]

/-- `tan_pi_over_8 = 0.41421357` as a field element -/
def tC : K := 41421357 / 10 ^ 8
/-- `FRAC_1_SQRT_2` (the decimal of the model) as a field element -/
def kS : K := 70710678118654752440 / 10 ^ 20

theorem tanPi8_eq : (tanPi8 : K) = tC := by simp [tanPi8, tC, ofSci_eq]
theorem frac1Sqrt2_eq : (frac1Sqrt2 : K) = kS := by simp [frac1Sqrt2, kS, ofSci_eq]

/-- weights of `u` and `v` along the eighth-circle quadratic -/
def qa (t : K) : K := 1 - (1 - kS) * t ^ 2
def qb (t : K) : K := 2 * tC * t - (2 * tC - kS) * t ^ 2

/-- **squared radius of the eighth-circle quadratic**: `1 + A·(t(1−t))² + e₂t² + e₄t⁴` with
`A ≈ 0.1005`, `|e₂|, |e₄| < 10⁻⁷` (they vanish for the exact `tan(π/8)`, `1/√2`) -/
theorem eighth_poly (t : K) :
    qa t ^ 2 + qb t ^ 2 = 1 + (2 * tC * (2 * tC - kS)) * (t * (1 - t)) ^ 2
      + (4 * tC ^ 2 - 2 * (1 - kS) - 2 * tC * (2 * tC - kS)) * t ^ 2
      + ((1 - kS) ^ 2 + (2 * tC - kS) ^ 2 - 2 * tC * (2 * tC - kS)) * t ^ 4 := by
  unfold qa qb; ring

/-- **radial deviation of the eighth-circle quadratic**: `1 − 10⁻⁷ ≤ |Q|² ≤ 1.0032²` -/
theorem eighth_poly_bounds (t : K) (h0 : 0 ≤ t) (h1 : t ≤ 1) :
    (1 - 1 / 10 ^ 7 : K) ≤ qa t ^ 2 + qb t ^ 2 ∧ qa t ^ 2 + qb t ^ 2 ≤ (1 + 32 / 10 ^ 4 : K) ^ 2 := by
  rw [eighth_poly]
  set s := t * (1 - t) with hs
  have hs0 : 0 ≤ s := mul_nonneg h0 (by linarith)
  have hs4 : s ≤ 1 / 4 := by nlinarith [sq_nonneg (t - 1 / 2)]
  have hss : 0 ≤ s ^ 2 := by positivity
  have hss16 : s ^ 2 ≤ 1 / 16 := by nlinarith
  have ht2 : 0 ≤ t ^ 2 := by positivity
  have ht2' : t ^ 2 ≤ 1 := by nlinarith
  have ht4 : 0 ≤ t ^ 4 := by positivity
  have ht4' : t ^ 4 ≤ 1 := by
    have : t ^ 4 = t ^ 2 * t ^ 2 := by ring
    rw [this]; nlinarith
  set A : K := 2 * tC * (2 * tC - kS) with hA
  set e2 : K := 4 * tC ^ 2 - 2 * (1 - kS) - 2 * tC * (2 * tC - kS) with he2
  set e4 : K := (1 - kS) ^ 2 + (2 * tC - kS) ^ 2 - 2 * tC * (2 * tC - kS) with he4
  have hA0 : 0 ≤ A := by rw [hA]; simp only [tC, kS]; norm_num
  have hA1 : A ≤ 1006 / 10 ^ 4 := by rw [hA]; simp only [tC, kS]; norm_num
  have he2a : -(4 / 10 ^ 8 : K) ≤ e2 := by rw [he2]; simp only [tC, kS]; norm_num
  have he2b : e2 ≤ 4 / 10 ^ 8 := by rw [he2]; simp only [tC, kS]; norm_num
  have he4a : -(4 / 10 ^ 8 : K) ≤ e4 := by rw [he4]; simp only [tC, kS]; norm_num
  have he4b : e4 ≤ 4 / 10 ^ 8 := by rw [he4]; simp only [tC, kS]; norm_num
  have b2lo : -(4 / 10 ^ 8 : K) ≤ e2 * t ^ 2 := by nlinarith
  have b2hi : e2 * t ^ 2 ≤ 4 / 10 ^ 8 := by nlinarith
  have b4lo : -(4 / 10 ^ 8 : K) ≤ e4 * t ^ 4 := by nlinarith
  have b4hi : e4 * t ^ 4 ≤ 4 / 10 ^ 8 := by nlinarith
  have bA0 : 0 ≤ A * s ^ 2 := mul_nonneg hA0 hss
  have bA1 : A * s ^ 2 ≤ 1006 / 10 ^ 4 / 16 := by nlinarith
  constructor
  · linarith
  · have : (1 + 32 / 10 ^ 4 : K) ^ 2 = 1 + 64 / 10 ^ 4 + 1024 / 10 ^ 8 := by ring
    rw [this]; linarith

/-- a quadratic that is the first half of lyon's quarter circle: from direction `u` to the
diagonal `k·(u + v)` (orthonormal `u`, `v`) -/
structure EighthArc (ctr : P K) (ρ : K) (u v : P K) (q : Quad K) : Prop where
  hu : u.x * u.x + u.y * u.y = 1
  hv : v.x * v.x + v.y * v.y = 1
  huv : u.x * v.x + u.y * v.y = 0
  ax : q.a.x = ctr.x + ρ * u.x
  ay : q.a.y = ctr.y + ρ * u.y
  cx : q.c.x = ctr.x + ρ * (u.x + tC * v.x)
  cy : q.c.y = ctr.y + ρ * (u.y + tC * v.y)
  bx : q.b.x = ctr.x + ρ * (kS * (u.x + v.x))
  bY : q.b.y = ctr.y + ρ * (kS * (u.y + v.y))

namespace EighthArc
variable {ctr : P K} {ρ : K} {u v : P K} {q : Quad K}

theorem sample_x (h : EighthArc ctr ρ u v q) (t : K) :
    (q.sample t).x = ctr.x + ρ * (qa t * u.x + qb t * v.x) := by
  simp only [Quad.sample, geom, Nat.cast_ofNat, Nat.cast_one, h.ax, h.cx, h.bx, qa, qb]
  ring

theorem sample_y (h : EighthArc ctr ρ u v q) (t : K) :
    (q.sample t).y = ctr.y + ρ * (qa t * u.y + qb t * v.y) := by
  simp only [Quad.sample, geom, Nat.cast_ofNat, Nat.cast_one, h.ay, h.cy, h.bY, qa, qb]
  ring

theorem sqDist (h : EighthArc ctr ρ u v q) (t : K) :
    (q.sample t - ctr).sqLen = ρ ^ 2 * (qa t ^ 2 + qb t ^ 2) := by
  simp only [P.sub_def, P.sqLen, h.sample_x, h.sample_y]
  linear_combination (ρ ^ 2 * qa t ^ 2) * h.hu + (ρ ^ 2 * qb t ^ 2) * h.hv
    + (2 * ρ ^ 2 * qa t * qb t) * h.huv

/-- **radial error of the eighth-circle quadratic**: `ρ²(1 − 10⁻⁷) ≤ |Q(t) − ctr|² ≤ (1.0032·ρ)²` -/
theorem radial (h : EighthArc ctr ρ u v q) (t : K) (h0 : 0 ≤ t) (h1 : t ≤ 1) :
    ρ ^ 2 * (1 - 1 / 10 ^ 7) ≤ (q.sample t - ctr).sqLen ∧
    (q.sample t - ctr).sqLen ≤ (ρ * (1 + 32 / 10 ^ 4)) ^ 2 := by
  obtain ⟨lo, hi⟩ := eighth_poly_bounds t h0 h1
  rw [h.sqDist, mul_pow]
  have : 0 ≤ ρ ^ 2 := sq_nonneg ρ
  exact ⟨mul_le_mul_of_nonneg_left lo this, mul_le_mul_of_nonneg_left hi this⟩

end EighthArc

/-- `flip().sample(t) = sample(1 − t)` -/
theorem quad_flip_sample (q : Quad K) (t : K) : q.flip.sample t = q.sample (1 - t) := by
  apply P.ext' <;> simp only [Quad.sample, Quad.flip, geom, Nat.cast_ofNat, Nat.cast_one] <;> ring

end Lyon.C03d
