/-
  C06b, part 9: the length condition of the regime implies the model's "no fold" answer.
  `compute_join_side_positions_fixed_width` folds a sharp join only if the front miter point lies beyond
  BOTH neighbouring edges (`min(d_next, d_prev) > 0`, `d_next = w/2·|tan(θ/2)| − |next edge|`) or the
  miter vector is (nearly) zero; with `w/2·|tan(θ/2)| ≤ |next edge|` and `|normal|² = 1 + tan² ≥ 1` neither
  happens.  So `Regime` follows from `RegimeCore` (the same conjunction without the fold test).
-/
import LyonVerif.Lemmas.StrokeCoverAsm

set_option linter.unusedSectionVars false
set_option linter.unusedVariables false

namespace Lyon.C06b
open Lyon Scalar Lyon.Stroke Lyon.Stroke.Full Lyon.C05 Lyon.C05b Lyon.C05c Lyon.C06

section
variable {K : Type} [Field K] [LinearOrder K] [IsStrictOrderedRing K] [Transc K]

theorem noFoldAt_of_len (e : Env K) (hs0 : ∀ x : K, 0 ≤ x → 0 ≤ Transc.sqrt x)
    (hs : ∀ x : K, 0 ≤ x → Transc.sqrt x * Transc.sqrt x = x) (hw : 0 ≤ e.hwFw) (p j n : P K)
    (hL0 : 0 < (j - p).sqLen) (hL1 : 0 < (n - j).sqLen)
    (hg : ¬ ((j - p).sdiv (len (j - p)) + (n - j).sdiv (len (n - j))).sqLen < normalEpsilon)
    (hlen : e.hwFw * |((j - p).sdiv (len (j - p))).cross ((n - j).sdiv (len (n - j)))
        / (1 + ((j - p).sdiv (len (j - p))).dot ((n - j).sdiv (len (n - j))))| ≤ len (n - j)) :
    noFoldAt e p j n := by
  have hu0 := (sdiv_unit hs0 hs _ hL0).2
  have hu1 := (sdiv_unit hs0 hs _ hL1).2
  obtain ⟨hc, hN0, hN1⟩ := normal_closed hs0 hs _ _ hu0 hu1 hg
  unfold noFoldAt fwGeo
  simp [EP.mk']
  intro _ _
  set t0 := (j - p).sdiv (len (j - p)) with ht0
  set t1 := (n - j).sdiv (len (n - j)) with ht1
  obtain ⟨τ, hτ'⟩ : ∃ τ, τ = t0.cross t1 / (1 + t0.dot t1) := ⟨_, rfl⟩
  have hτ := hτ'.symm
  rw [← hτ'] at hN0 hN1 hlen
  have hNt1 : (computeNormal t0 t1).dot t1 = τ := by
    rw [hN1]; simp only [perp, geom] at hu1 ⊢; linear_combination τ * hu1
  have hsq : (computeNormal t0 t1).sqLen = 1 + τ * τ := by
    rw [hN0]; simp only [perp, geom] at hu0 ⊢; linear_combination (1 + τ * τ) * hu0
  constructor
  · rw [sc_min]
    apply min_le_iff.mpr
    left
    by_cases hx : 0 ≤ t0.cross t1
    · rw [if_pos hx]
      have hτ0 : 0 ≤ τ := by rw [← hτ]; exact div_nonneg hx (le_of_lt hc)
      rw [abs_of_nonneg hτ0] at hlen
      have : ((-computeNormal t0 t1).smul e.hwFw).dot (-t1) = e.hwFw * τ := by
        rw [← hNt1]; simp only [geom]; ring
      rw [this]; linarith
    · rw [if_neg hx]
      have hτ0 : τ < 0 := by rw [← hτ]; exact div_neg_of_neg_of_pos (lt_of_not_ge hx) hc
      rw [abs_of_neg hτ0] at hlen
      have : ((computeNormal t0 t1).smul e.hwFw).dot (-t1) = e.hwFw * -τ := by
        rw [← hNt1]; simp only [geom]; ring
      rw [this]; linarith
  · refine decide_eq_false ?_
    show ¬ (computeNormal t0 t1).sqLen < ofSci 1 5
    rw [hsq]
    have : (ofSci 1 5 : K) = 1 / 100000 := by simp only [geom]; norm_num
    rw [this]
    nlinarith [mul_self_nonneg τ]

/-- the regime without the model's fold test -/
def RegimeCore (e : Env K) (eps : K) (pt : Nat → P K) (n : Nat) : Prop :=
  (∀ i, i < n → pointsAreTooClose e.thr (pt i) (pt (i + 1)) = false)
  ∧ (∀ i, i < n → eps < eL pt i)
  ∧ (∀ i, i < n - 1 → ¬ (eT pt i + eT pt (i + 1)).sqLen < normalEpsilon)
  ∧ (∀ i, i < n → e.hwFw * (tauAbs pt n i + tauAbs pt n (i + 1) + 1) ≤ eL pt i)

noncomputable instance (e : Env K) (eps : K) (pt : Nat → P K) (n : Nat) : Decidable (RegimeCore e eps pt n) := by
  unfold RegimeCore; infer_instance

/-- **no join folds in the regime**: the model's fold test is implied by the other conditions -/
theorem regime_of_core {e : Env K} {eps : K} (hs0 : ∀ x : K, 0 ≤ x → 0 ≤ Transc.sqrt x)
    (hs : ∀ x : K, 0 ≤ x → Transc.sqrt x * Transc.sqrt x = x) (heps : 0 ≤ eps) (hw : 0 < e.hwFw)
    {pt : Nat → P K} {n : Nat} (hr : RegimeCore e eps pt n) : Regime e eps pt n := by
  obtain ⟨r1, r2, r3, r4⟩ := hr
  refine ⟨r1, r2, r3, ?_, r4⟩
  intro i hi
  have hsq : ∀ k, k < n → 0 < (pt (k + 1) - pt k).sqLen := by
    intro k hk
    have h1 : eps < eL pt k := r2 k hk
    have hnn : (0 : K) ≤ (pt (k + 1) - pt k).sqLen := by
      simp only [geom]; exact add_nonneg (mul_self_nonneg _) (mul_self_nonneg _)
    have h2 : eL pt k * eL pt k = (pt (k + 1) - pt k).sqLen := hs _ hnn
    have hpos : 0 < eL pt k := lt_of_le_of_lt heps h1
    rw [← h2]; exact mul_pos hpos hpos
  refine noFoldAt_of_len e hs0 hs (le_of_lt hw) _ _ _ (hsq i (by omega)) (hsq (i + 1) (by omega)) (r3 i hi) ?_
  have h4 := r4 (i + 1) (by omega)
  rw [tauAbs_mid pt n i (by omega)] at h4
  have t2 := tauAbs_nonneg pt n (i + 1 + 1)
  have : e.hwFw * |jtau pt i| ≤ eL pt (i + 1) := by nlinarith [mul_nonneg (le_of_lt hw) t2]
  exact this

end

end Lyon.C06b
