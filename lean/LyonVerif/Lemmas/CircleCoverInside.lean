/-
  C03c — the triangles of `fill_circle` lie INSIDE the inscribed regular polygon (so, with
  `circle_tris_cover_polygon`, their union is exactly that polygon).

  * `vertex_inner`         every vertex `V j` of the regular `N`-gon (`N = 4·2ⁿ`, `j ≤ N`) is on the
                           inner side of every side `V k → V (k+1)`: the cross product is
                           `2r²·sin η·(cos η − cos((2(k−j)+1)η)) ≥ 0`, `η = π/N`
  * `inTri_halfplane`      a non-degenerate triangle whose vertices are in a half-plane lies in it
  * `border_tri_verts`     every vertex of every emitted triangle is an end point of a leaf edge
  * `circle_tris_inside_polygon`  a covered point is on the inner side of every side of the polygon
-/
import LyonVerif.Lemmas.CircleCoverDepth

set_option linter.unusedSectionVars false
set_option linter.unusedVariables false

namespace Lyon.C03c
open Lyon Lyon.Shapes Lyon.C03

variable {K : Type} [Field K] [LinearOrder K] [IsStrictOrderedRing K] [Transc K]

namespace CircTrig
variable (L : CircTrig K)
include L

theorem cos_neg (x : K) : Transc.cos (-x) = Transc.cos x := by
  have := L.cos_sub 0 x
  rw [zero_sub, L.cos_zero, L.sin_zero] at this
  rw [this]; ring

theorem sin_nonneg (x : K) (h0 : 0 ≤ x) (h1 : x ≤ Transc.pi) : 0 ≤ Transc.sin x := by
  rcases eq_or_lt_of_le h0 with h | h
  · rw [← h, L.sin_zero]
  · rcases eq_or_lt_of_le h1 with h' | h'
    · rw [h', L.sin_pi]
    · exact le_of_lt (L.sin_pos x h h')

/-- `cos((2m−1)η) ≤ cos η` when `1 ≤ m`, `0 ≤ η`, `m·η ≤ π` -/
theorem cos_odd_le (η : K) (m : Nat) (hm : 1 ≤ m) (hη : 0 ≤ η) (hmπ : (m : K) * η ≤ Transc.pi) :
    Transc.cos ((2 * (m : K) - 1) * η) ≤ Transc.cos η := by
  have h1 := L.cos_sub ((m : K) * η) (((m : K) - 1) * η)
  have h2 := L.cos_add ((m : K) * η) (((m : K) - 1) * η)
  have e1 : (m : K) * η - ((m : K) - 1) * η = η := by ring
  have e2 : (m : K) * η + ((m : K) - 1) * η = (2 * (m : K) - 1) * η := by ring
  rw [e1] at h1
  rw [e2] at h2
  have hm1 : (1 : K) ≤ (m : K) := by exact_mod_cast hm
  have hP : 0 ≤ Transc.sin ((m : K) * η) := L.sin_nonneg _ (by positivity) hmπ
  have hQ : 0 ≤ Transc.sin (((m : K) - 1) * η) :=
    L.sin_nonneg _ (mul_nonneg (by linarith) hη) (by nlinarith)
  have := mul_nonneg hP hQ
  linarith

end CircTrig

noncomputable section

/-- the cross product of a chord with a point, in closed form -/
theorem chord_cross (L : CircTrig K) (c : P K) (r μ η : K) (p : P K) :
    (pos c r (μ + η) - pos c r (μ - η)).cross (p - pos c r (μ - η))
      = 2 * r * Transc.sin η * (r * Transc.cos η - (Transc.cos μ * (p.x - c.x) + Transc.sin μ * (p.y - c.y))) := by
  have hpy := L.cos_sq_add_sin_sq μ
  rw [pos_add L, pos_sub L]
  simp only [geom]
  linear_combination (2 * r * Transc.sin η * (r * Transc.cos η)) * hpy

/-- `V k` and `V (k+1)` as the ends of the chord around the mid angle `(2k+1)η` -/
theorem regVert_chord (c : P K) (r : K) (n k : Nat) :
    regVert c r n k = pos c r ((2 * (k : K) + 1) * halfStep K n - halfStep K n) ∧
    regVert c r n (k + 1) = pos c r ((2 * (k : K) + 1) * halfStep K n + halfStep K n) := by
  have hne : (2 : K) ^ n ≠ 0 := pow_ne_zero _ two_ne_zero
  constructor
  · simp only [regVert]; congr 1; unfold halfStep; field_simp; ring
  · simp only [regVert]; congr 1; unfold halfStep; push_cast; field_simp; ring

theorem halfStep_mul (L : CircTrig K) (n : Nat) : ((4 * 2 ^ n : Nat) : K) * halfStep K n = Transc.pi := by
  unfold halfStep; push_cast; field_simp

/-- **every vertex of the regular polygon is on the inner side of every side** -/
theorem vertex_inner (L : CircTrig K) (c : P K) (r : K) (n j k : Nat) (hj : j ≤ 4 * 2 ^ n) (hk : k < 4 * 2 ^ n) :
    Inner (regVert c r n k, regVert c r n (k + 1)) (regVert c r n j) := by
  obtain ⟨e1, e2⟩ := regVert_chord c r n k
  set η := halfStep K n with hη
  have hη0 := halfStep_pos L n
  have hNη := halfStep_mul L n
  have hs := halfStep_sin_pos L n
  simp only [Inner]
  rw [e1, e2, chord_cross L]
  have hθ : regVert c r n j = pos c r ((2 * (j : K)) * η) := by
    have hne : (2 : K) ^ n ≠ 0 := pow_ne_zero _ two_ne_zero
    simp only [regVert]; congr 1; rw [hη]; unfold halfStep; field_simp; ring
  rw [hθ, pos_x, pos_y]
  have hdot : Transc.cos ((2 * (k : K) + 1) * η) * (c.x + Transc.cos (2 * (j : K) * η) * r - c.x)
      + Transc.sin ((2 * (k : K) + 1) * η) * (c.y + Transc.sin (2 * (j : K) * η) * r - c.y)
      = r * Transc.cos ((2 * (k : K) + 1) * η - 2 * (j : K) * η) := by
    rw [L.cos_sub]; ring
  rw [hdot]
  have hcos : Transc.cos ((2 * (k : K) + 1) * η - 2 * (j : K) * η) ≤ Transc.cos η := by
    by_cases hjk : j ≤ k
    · -- angle (2m−1)η with m = k − j + 1
      obtain ⟨d, rfl⟩ := Nat.exists_eq_add_of_le hjk
      have e : (2 * ((j + d : Nat) : K) + 1) * η - 2 * (j : K) * η = (2 * ((d + 1 : Nat) : K) - 1) * η := by
        push_cast; ring
      rw [e]
      apply L.cos_odd_le η (d + 1) (by omega) (le_of_lt hη0)
      have : ((d + 1 : Nat) : K) ≤ ((4 * 2 ^ n : Nat) : K) := by exact_mod_cast (by omega : d + 1 ≤ 4 * 2 ^ n)
      calc ((d + 1 : Nat) : K) * η ≤ ((4 * 2 ^ n : Nat) : K) * η := mul_le_mul_of_nonneg_right this (le_of_lt hη0)
        _ = Transc.pi := hNη
    · -- angle −(2m−1)η with m = j − k
      have hkj : k + 1 ≤ j := by omega
      obtain ⟨d, rfl⟩ := Nat.exists_eq_add_of_le hkj
      have e : (2 * (k : K) + 1) * η - 2 * ((k + 1 + d : Nat) : K) * η = -((2 * ((d + 1 : Nat) : K) - 1) * η) := by
        push_cast; ring
      rw [e, L.cos_neg]
      apply L.cos_odd_le η (d + 1) (by omega) (le_of_lt hη0)
      have : ((d + 1 : Nat) : K) ≤ ((4 * 2 ^ n : Nat) : K) := by exact_mod_cast (by omega : d + 1 ≤ 4 * 2 ^ n)
      calc ((d + 1 : Nat) : K) * η ≤ ((4 * 2 ^ n : Nat) : K) * η := mul_le_mul_of_nonneg_right this (le_of_lt hη0)
        _ = Transc.pi := hNη
  have hrr : 0 ≤ r * r := mul_self_nonneg r
  have : 2 * r * Transc.sin η * (r * Transc.cos η - r * Transc.cos ((2 * (k : K) + 1) * η - 2 * (j : K) * η))
      = 2 * (r * r) * Transc.sin η * (Transc.cos η - Transc.cos ((2 * (k : K) + 1) * η - 2 * (j : K) * η)) := by ring
  rw [this]
  have h1 : 0 ≤ Transc.cos η - Transc.cos ((2 * (k : K) + 1) * η - 2 * (j : K) * η) := by linarith
  have h2 : 0 ≤ Transc.sin η := le_of_lt hs
  positivity

/-- **a non-degenerate closed triangle whose vertices are in a closed half-plane lies in it** -/
theorem inTri_halfplane (A B C p U E : P K) (hD : (B - A).cross (C - A) ≠ 0) (h : inTri A B C p)
    (hA : 0 ≤ E.cross (A - U)) (hB : 0 ≤ E.cross (B - U)) (hC : 0 ≤ E.cross (C - U)) :
    0 ≤ E.cross (p - U) := by
  simp only [inTri, geom] at h hD hA hB hC ⊢
  set l1 := (B.x - A.x) * (p.y - A.y) - (B.y - A.y) * (p.x - A.x) with hl1
  set l2 := (C.x - B.x) * (p.y - B.y) - (C.y - B.y) * (p.x - B.x) with hl2
  set l3 := (A.x - C.x) * (p.y - C.y) - (A.y - C.y) * (p.x - C.x) with hl3
  set D := (B.x - A.x) * (C.y - A.y) - (B.y - A.y) * (C.x - A.x) with hDd
  set fA := E.x * (A.y - U.y) - E.y * (A.x - U.x) with hfA
  set fB := E.x * (B.y - U.y) - E.y * (B.x - U.x) with hfB
  set fC := E.x * (C.y - U.y) - E.y * (C.x - U.x) with hfC
  have hsum : l1 + l2 + l3 = D := by rw [hl1, hl2, hl3, hDd]; ring
  have key : D * (E.x * (p.y - U.y) - E.y * (p.x - U.x)) = l2 * fA + l3 * fB + l1 * fC := by
    rw [hl1, hl2, hl3, hDd, hfA, hfB, hfC]; ring
  rcases h with ⟨p1, p2, p3⟩ | ⟨p1, p2, p3⟩
  · have hDpos : 0 < D := lt_of_le_of_ne (by linarith) (Ne.symm hD)
    have : 0 ≤ D * (E.x * (p.y - U.y) - E.y * (p.x - U.x)) := by
      rw [key]
      have := mul_nonneg p2 hA
      have := mul_nonneg p3 hB
      have := mul_nonneg p1 hC
      linarith
    exact nonneg_of_mul_nonneg_right this hDpos
  · have hDneg : D < 0 := lt_of_le_of_ne (by linarith) hD
    have : D * (E.x * (p.y - U.y) - E.y * (p.x - U.x)) ≤ 0 := by
      rw [key]
      have := mul_nonneg (neg_nonneg.2 p2) hA
      have := mul_nonneg (neg_nonneg.2 p3) hB
      have := mul_nonneg (neg_nonneg.2 p1) hC
      linarith
    by_contra hneg
    rw [not_le] at hneg
    have := mul_pos_of_neg_of_neg hDneg hneg
    linarith

/-! ### the vertices of the emitted triangles are end points of leaf edges -/

theorem leafEdges_has_first (c : P K) (r : K) (n : Nat) (a0 a1 : K) (A B : P K) :
    ∃ e ∈ leafEdges c r n a0 a1 A B, e.1 = A := by
  induction n generalizing a0 a1 A B with
  | zero => exact ⟨(A, B), by simp [leafEdges], rfl⟩
  | succ n ih =>
    obtain ⟨e, he, h⟩ := ih a0 ((a0 + a1) * Scalar.half) A (pos c r ((a0 + a1) * Scalar.half))
    exact ⟨e, by simp only [leafEdges]; exact List.mem_append_left _ he, h⟩

theorem leafEdges_has_last (c : P K) (r : K) (n : Nat) (a0 a1 : K) (A B : P K) :
    ∃ e ∈ leafEdges c r n a0 a1 A B, e.2 = B := by
  induction n generalizing a0 a1 A B with
  | zero => exact ⟨(A, B), by simp [leafEdges], rfl⟩
  | succ n ih =>
    obtain ⟨e, he, h⟩ := ih ((a0 + a1) * Scalar.half) a1 (pos c r ((a0 + a1) * Scalar.half)) B
    exact ⟨e, by simp only [leafEdges]; exact List.mem_append_right _ he, h⟩

/-- mesh invariant: the vertices of every triangle satisfy `S` -/
def TriVertsIn (S : P K → Prop) (m : Mesh K) : Prop :=
  ∀ t ∈ m.tris, ∀ X : P K, (m.verts[t.1]? = some X ∨ m.verts[t.2.1]? = some X ∨ m.verts[t.2.2]? = some X) → S X

theorem Extends.getElem_of_lt {m m' : Mesh K} (h : Extends m m') {i : Nat} (hi : i < m.verts.length) :
    m'.verts[i]? = m.verts[i]? := by
  obtain ⟨⟨ev, hv⟩, _⟩ := h
  rw [hv, List.getElem?_append_left hi]

/-- **the vertices of the triangles a border call emits are end points of its leaf edges** -/
theorem border_tri_verts (S : P K → Prop) (c : P K) (r : K) (n : Nat) (a0 a1 : K) (va vb : Nat) (m : Mesh K)
    (A B : P K) (hA : m.verts[va]? = some A) (hB : m.verts[vb]? = some B)
    (hS : ∀ e ∈ leafEdges c r n a0 a1 A B, S e.1 ∧ S e.2)
    (hok : ∀ t ∈ m.tris, t.1 < m.verts.length ∧ t.2.1 < m.verts.length ∧ t.2.2 < m.verts.length)
    (hin : TriVertsIn S m) :
    TriVertsIn S (fillBorderRadius c a0 a1 r va vb n m) ∧
    (∀ t ∈ (fillBorderRadius c a0 a1 r va vb n m).tris,
      t.1 < (fillBorderRadius c a0 a1 r va vb n m).verts.length ∧
      t.2.1 < (fillBorderRadius c a0 a1 r va vb n m).verts.length ∧
      t.2.2 < (fillBorderRadius c a0 a1 r va vb n m).verts.length) := by
  induction n generalizing a0 a1 va vb m A B with
  | zero => exact ⟨hin, hok⟩
  | succ n ih =>
    simp only [fillBorderRadius]
    set mid := (a0 + a1) * Scalar.half with hmid
    set M : P K := c + (⟨Transc.cos mid, Transc.sin mid⟩ : P K).smul r with hM
    have hMp : M = pos c r mid := rfl
    set m1 : Mesh K := ⟨m.verts ++ [M], m.tris ++ [(vb, m.verts.length, va)]⟩ with hm1
    have e1 : Extends m m1 := ⟨⟨[M], rfl⟩, ⟨[_], rfl⟩⟩
    have hMv : m1.verts[m.verts.length]? = some M := by simp [hm1]
    have hlen1 : m1.verts.length = m.verts.length + 1 := by simp [hm1]
    have hva : va < m.verts.length := by
      by_contra hc; rw [List.getElem?_eq_none (not_lt.1 hc)] at hA; exact absurd hA (by simp)
    have hvb : vb < m.verts.length := by
      by_contra hc; rw [List.getElem?_eq_none (not_lt.1 hc)] at hB; exact absurd hB (by simp)
    have hS1 : ∀ e ∈ leafEdges c r n a0 mid A M, S e.1 ∧ S e.2 := fun e he =>
      hS e (by simp only [leafEdges]; exact List.mem_append_left _ he)
    have hS2 : ∀ e ∈ leafEdges c r n mid a1 M B, S e.1 ∧ S e.2 := fun e he =>
      hS e (by simp only [leafEdges]; exact List.mem_append_right _ he)
    have sA : S A := by
      obtain ⟨e, he, h⟩ := leafEdges_has_first c r n a0 mid A M
      rw [← h]; exact (hS1 e he).1
    have sM : S M := by
      obtain ⟨e, he, h⟩ := leafEdges_has_last c r n a0 mid A M
      rw [← h]; exact (hS1 e he).2
    have sB : S B := by
      obtain ⟨e, he, h⟩ := leafEdges_has_last c r n mid a1 M B
      rw [← h]; exact (hS2 e he).2
    have hok1 : ∀ t ∈ m1.tris, t.1 < m1.verts.length ∧ t.2.1 < m1.verts.length ∧ t.2.2 < m1.verts.length := by
      intro t ht
      simp only [hm1, List.mem_append, List.mem_cons, List.not_mem_nil, or_false] at ht
      rcases ht with ht | ht
      · obtain ⟨x, y, z⟩ := hok t ht
        rw [hlen1]; exact ⟨by omega, by omega, by omega⟩
      · subst ht; rw [hlen1]
        show vb < m.verts.length + 1 ∧ m.verts.length < m.verts.length + 1 ∧ va < m.verts.length + 1
        exact ⟨by omega, by omega, by omega⟩
    have hin1 : TriVertsIn S m1 := by
      intro t ht X hX
      simp only [hm1, List.mem_append, List.mem_cons, List.not_mem_nil, or_false] at ht
      rcases ht with ht | ht
      · obtain ⟨x, y, z⟩ := hok t ht
        apply hin t ht X
        rw [e1.getElem_of_lt x, e1.getElem_of_lt y, e1.getElem_of_lt z] at hX
        exact hX
      · subst ht
        rcases hX with hX | hX | hX
        · rw [e1.vert hB] at hX; injection hX with hX; rw [← hX]; exact sB
        · rw [hMv] at hX; injection hX with hX; rw [← hX]; exact sM
        · rw [e1.vert hA] at hX; injection hX with hX; rw [← hX]; exact sA
    set m2 := fillBorderRadius c a0 mid r va m.verts.length n m1 with hm2
    have e2 : Extends m1 m2 := border_extends ..
    obtain ⟨hin2, hok2⟩ := ih a0 mid va m.verts.length m1 A M (e1.vert hA) hMv hS1 hok1 hin1
    exact ih mid a1 m.verts.length vb m2 M B (e2.vert hMv) ((e1.trans e2).vert hB) hS2 hok2 hin2

/-- every vertex of every triangle of the circle mesh is an end point of a boundary edge -/
theorem circle_tri_verts (c : P K) (r tol : K) (m : Mesh K) (h : fillCircle c r tol = some m) :
    TriVertsIn (fun X => ∃ e ∈ circleEdges c (Scalar.abs r) (circleRecursions (Scalar.abs r) tol), X = e.1 ∨ X = e.2) m := by
  unfold fillCircle at h
  simp only [] at h
  split at h
  · exact absurd h (by simp)
  · injection h with h
    subst h
    set R := Scalar.abs r with hR
    set n := circleRecursions R tol with hn
    set pi := (Transc.pi : K) with hpi
    set S : P K → Prop := fun X => ∃ e ∈ circleEdges c R n, X = e.1 ∨ X = e.2 with hS
    have hVd : axisVerts c R = [c + (⟨-Scalar.one, Scalar.zero⟩ : P K).smul R, c + (⟨Scalar.zero, -Scalar.one⟩ : P K).smul R,
      c + (⟨Scalar.one, Scalar.zero⟩ : P K).smul R, c + (⟨Scalar.zero, Scalar.one⟩ : P K).smul R] := rfl
    set m0 : Mesh K := ⟨axisVerts c R, [(0, 3, 1), (1, 3, 2)]⟩ with hm0
    have g0 : m0.verts[0]? = some ((axisVerts c R).getD 0 c) := by simp [hm0, hVd]
    have g1 : m0.verts[1]? = some ((axisVerts c R).getD 1 c) := by simp [hm0, hVd]
    have g2 : m0.verts[2]? = some ((axisVerts c R).getD 2 c) := by simp [hm0, hVd]
    have g3 : m0.verts[3]? = some ((axisVerts c R).getD 3 c) := by simp [hm0, hVd]
    -- the leaf edges of the four calls are boundary edges
    have q1 : ∀ e ∈ leafEdges c R n pi (Scalar.ofSci 15 1 * pi) ((axisVerts c R).getD 0 c) ((axisVerts c R).getD 1 c),
        S e.1 ∧ S e.2 := fun e he =>
      ⟨⟨e, by simp only [circleEdges, List.mem_append]; exact Or.inl (Or.inl (Or.inl he)), Or.inl rfl⟩,
       ⟨e, by simp only [circleEdges, List.mem_append]; exact Or.inl (Or.inl (Or.inl he)), Or.inr rfl⟩⟩
    have q2 : ∀ e ∈ leafEdges c R n (Scalar.ofSci 15 1 * pi) (Scalar.two * pi) ((axisVerts c R).getD 1 c) ((axisVerts c R).getD 2 c),
        S e.1 ∧ S e.2 := fun e he =>
      ⟨⟨e, by simp only [circleEdges, List.mem_append]; exact Or.inl (Or.inl (Or.inr he)), Or.inl rfl⟩,
       ⟨e, by simp only [circleEdges, List.mem_append]; exact Or.inl (Or.inl (Or.inr he)), Or.inr rfl⟩⟩
    have q3 : ∀ e ∈ leafEdges c R n Scalar.zero (pi * Scalar.half) ((axisVerts c R).getD 2 c) ((axisVerts c R).getD 3 c),
        S e.1 ∧ S e.2 := fun e he =>
      ⟨⟨e, by simp only [circleEdges, List.mem_append]; exact Or.inl (Or.inr he), Or.inl rfl⟩,
       ⟨e, by simp only [circleEdges, List.mem_append]; exact Or.inl (Or.inr he), Or.inr rfl⟩⟩
    have q4 : ∀ e ∈ leafEdges c R n (pi * Scalar.half) pi ((axisVerts c R).getD 3 c) ((axisVerts c R).getD 0 c),
        S e.1 ∧ S e.2 := fun e he =>
      ⟨⟨e, by simp only [circleEdges, List.mem_append]; exact Or.inr he, Or.inl rfl⟩,
       ⟨e, by simp only [circleEdges, List.mem_append]; exact Or.inr he, Or.inr rfl⟩⟩
    have s0 : S ((axisVerts c R).getD 0 c) := by
      obtain ⟨e, he, h⟩ := leafEdges_has_first c R n pi (Scalar.ofSci 15 1 * pi) ((axisVerts c R).getD 0 c) ((axisVerts c R).getD 1 c)
      rw [← h]; exact (q1 e he).1
    have s1 : S ((axisVerts c R).getD 1 c) := by
      obtain ⟨e, he, h⟩ := leafEdges_has_last c R n pi (Scalar.ofSci 15 1 * pi) ((axisVerts c R).getD 0 c) ((axisVerts c R).getD 1 c)
      rw [← h]; exact (q1 e he).2
    have s2 : S ((axisVerts c R).getD 2 c) := by
      obtain ⟨e, he, h⟩ := leafEdges_has_last c R n (Scalar.ofSci 15 1 * pi) (Scalar.two * pi) ((axisVerts c R).getD 1 c) ((axisVerts c R).getD 2 c)
      rw [← h]; exact (q2 e he).2
    have s3 : S ((axisVerts c R).getD 3 c) := by
      obtain ⟨e, he, h⟩ := leafEdges_has_last c R n Scalar.zero (pi * Scalar.half) ((axisVerts c R).getD 2 c) ((axisVerts c R).getD 3 c)
      rw [← h]; exact (q3 e he).2
    have hok0 : ∀ t ∈ m0.tris, t.1 < m0.verts.length ∧ t.2.1 < m0.verts.length ∧ t.2.2 < m0.verts.length := by
      intro t ht
      simp only [hm0, List.mem_cons, List.not_mem_nil, or_false] at ht
      rcases ht with ht | ht <;> subst ht <;> simp [hm0, hVd]
    have hin0 : TriVertsIn S m0 := by
      intro t ht X hX
      simp only [hm0, List.mem_cons, List.not_mem_nil, or_false] at ht
      rcases ht with ht | ht <;> subst ht
      · rcases hX with hX | hX | hX
        · rw [g0] at hX; injection hX with hX; rw [← hX]; exact s0
        · rw [g3] at hX; injection hX with hX; rw [← hX]; exact s3
        · rw [g1] at hX; injection hX with hX; rw [← hX]; exact s1
      · rcases hX with hX | hX | hX
        · rw [g1] at hX; injection hX with hX; rw [← hX]; exact s1
        · rw [g3] at hX; injection hX with hX; rw [← hX]; exact s3
        · rw [g2] at hX; injection hX with hX; rw [← hX]; exact s2
    set m1 := fillBorderRadius c pi (Scalar.ofSci 15 1 * pi) R 0 1 n m0 with hm1
    set m2 := fillBorderRadius c (Scalar.ofSci 15 1 * pi) (Scalar.two * pi) R 1 2 n m1 with hm2
    set m3 := fillBorderRadius c Scalar.zero (pi * Scalar.half) R 2 3 n m2 with hm3
    have e1 : Extends m0 m1 := border_extends ..
    have e2 : Extends m1 m2 := border_extends ..
    have e3 : Extends m2 m3 := border_extends ..
    obtain ⟨i1, o1⟩ := border_tri_verts S c R n _ _ 0 1 m0 _ _ g0 g1 q1 hok0 hin0
    obtain ⟨i2, o2⟩ := border_tri_verts S c R n _ _ 1 2 m1 _ _ (e1.vert g1) (e1.vert g2) q2 o1 i1
    obtain ⟨i3, o3⟩ := border_tri_verts S c R n _ _ 2 3 m2 _ _ ((e1.trans e2).vert g2) ((e1.trans e2).vert g3) q3 o2 i2
    exact (border_tri_verts S c R n _ _ 3 0 m3 _ _ ((e1.trans (e2.trans e3)).vert g3)
      ((e1.trans (e2.trans e3)).vert g0) q4 o3 i3).1

/-- **the triangles of the circle mesh lie inside the inscribed regular polygon**: a covered point
is on the inner side of every side `V k → V (k+1)` -/
theorem circle_tris_inside_polygon (L : CircTrig K) (c : P K) (r tol : K) (m : Mesh K)
    (h : fillCircle c r tol = some m) (p : P K) (hc : Covered m p) (k : Nat)
    (hk : k < 4 * 2 ^ circleRecursions (Scalar.abs r) tol) :
    Inner (regVert c (Scalar.abs r) (circleRecursions (Scalar.abs r) tol) k,
           regVert c (Scalar.abs r) (circleRecursions (Scalar.abs r) tol) (k + 1)) p := by
  set R := Scalar.abs r with hR
  set n := circleRecursions R tol with hn
  obtain ⟨t, ht, A, B, C, hA, hB, hC, hin⟩ := hc
  obtain ⟨A', B', C', hA', hB', hC', _, _, _, hD⟩ := circle_good L c r tol m h t ht
  rw [hA] at hA'; rw [hB] at hB'; rw [hC] at hC'
  injection hA' with eA; injection hB' with eB; injection hC' with eC
  subst eA eB eC
  have hv := circle_tri_verts c r tol m h t ht
  have isV : ∀ X : P K, (∃ e ∈ circleEdges c R n, X = e.1 ∨ X = e.2) → ∃ j, j ≤ 4 * 2 ^ n ∧ X = regVert c R n j := by
    rintro X ⟨e, he, hX⟩
    obtain ⟨j, hj, rfl⟩ := (mem_circleEdges_iff L c R n e).1 he
    rcases hX with rfl | rfl
    · exact ⟨j, by omega, rfl⟩
    · exact ⟨j + 1, by omega, rfl⟩
  obtain ⟨ja, hja, rfl⟩ := isV A (hv A (Or.inl hA))
  obtain ⟨jb, hjb, rfl⟩ := isV B (hv B (Or.inr (Or.inl hB)))
  obtain ⟨jc, hjc, rfl⟩ := isV C (hv C (Or.inr (Or.inr hC)))
  exact inTri_halfplane _ _ _ p _ _ hD hin (vertex_inner L c R n ja k hja hk)
    (vertex_inner L c R n jb k hjb hk) (vertex_inner L c R n jc k hjc hk)

end

end Lyon.C03c
