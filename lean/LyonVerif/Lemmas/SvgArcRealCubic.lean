/-
  C13 — the cubic Bézier piece of a circular arc, exactly (helper lemmas for `Props/C13b.lean`).

  `arc_to_cubic_beziers` places the two inner control points on the end tangents at the distance
  `α·|tangent|` with `α = sin δ · (√(4 + 3 tan²(δ/2)) − 1) / 3` (L. Maisonobe's formula).  In the
  orthonormal frame (radius, tangent) at the start point of a unit-circle piece of angle `δ`, with
  `c = cos(δ/2)`, `s = sin(δ/2)`:

      P0 = (1, 0)   P1 = (1, α)   P2 = (cos δ + α sin δ, sin δ − α cos δ)   P3 = (cos δ, sin δ)

  and `α` is the positive root of `3α² + 4·s·c·α = 4s²` (`cubicAlpha_rel`) — the value for which the
  cubic has the circle's curvature at both ends.  Then (`cubic_unit_dev`)

      |B(t)|² − 1 = −β²·(4t(1−t))³       β = s/2 − 3αc/4

  a polynomial identity modulo `c² + s² = 1` and the relation for `α` (cofactors computed by
  multivariate division; `{c² + s² − 1, 3α² + 4scα − 4s²}` is a Gröbner basis).  So the piece never
  leaves the disc, touches the circle to third order at both ends, and is farthest from it —
  by `r·(1 − √(1 − β²))` — at `t = 1/2`.
-/
import LyonVerif.Props.C13

set_option linter.unusedSectionVars false
set_option linter.unusedVariables false
set_option linter.unusedSimpArgs false

namespace Lyon.C13
open Lyon Scalar ArcConv

variable {K : Type} [Field K] [LinearOrder K] [IsStrictOrderedRing K] [Transc K] [ArcConv.Eps K]

/-- the `i`-th cubic piece as a function of its start angle and step
(`cubicPiece arc step i = cubicAt arc (angleAt arc step i) step`, `cubicPiece_eq_cubicAt`) -/
noncomputable def cubicAt (arc : Arc K) (a1 d : K) : Cubic K :=
  ⟨pointAt arc a1,
   pointAt arc a1 + (tangentAtAngle arc a1).smul (cubicAlpha d),
   pointAt arc (a1 + d) - (tangentAtAngle arc (a1 + d)).smul (cubicAlpha d),
   pointAt arc (a1 + d)⟩

/-- the pieces emitted by lyon are `cubicAt` at the step angles (in a field `a2 − a1 = step`) -/
theorem cubicPiece_eq_cubicAt (arc : Arc K) (step : K) (i : Nat) :
    cubicPiece arc step i = cubicAt arc (angleAt arc step i) step := by
  have e : angleAt arc step i + step - angleAt arc step i = step := by ring
  simp only [cubicPiece, cubicAt, angleAt_succ, e]

/-- coordinates of the unit-circle cubic in the (radius, tangent) frame at its start point -/
noncomputable def cubX (c sn al t : K) : K :=
  (1 - t) ^ 3 + 3 * (1 - t) ^ 2 * t + 3 * (1 - t) * t ^ 2 * ((1 - 2 * (sn * sn)) + al * (2 * (sn * c)))
    + t ^ 3 * (1 - 2 * (sn * sn))
noncomputable def cubY (c sn al t : K) : K :=
  3 * (1 - t) ^ 2 * t * al + 3 * (1 - t) * t ^ 2 * (2 * (sn * c) - al * (1 - 2 * (sn * sn)))
    + t ^ 3 * (2 * (sn * c))

/-- **the core identity**: `|B(t)|² − 1 = −(s/2 − 3αc/4)²·(4t(1−t))³` -/
theorem cubic_unit_dev (c sn al t : K) (hu : c * c + sn * sn = 1)
    (hal : 3 * (al * al) + 4 * (sn * c) * al = 4 * (sn * sn)) :
    cubX c sn al t * cubX c sn al t + cubY c sn al t * cubY c sn al t - 1
      = -((sn / 2 - 3 * al * c / 4) * (sn / 2 - 3 * al * c / 4)) * (4 * t * (1 - t)) ^ 3 := by
  unfold cubX cubY
  linear_combination
    (12*c*c*sn*sn*t^6 + (-24)*c*c*sn*sn*t^5 + 12*c*c*sn*sn*t^4 + (-12)*c*c*t^6 + 36*c*c*t^5
      + (-36)*c*c*t^4 + 12*c*c*t^3 + 12*sn^4*t^6 + (-24)*sn^4*t^5 + 12*sn^4*t^4 + (-24)*sn*sn*t^6
      + 60*sn*sn*t^5 + (-48)*sn*sn*t^4 + 12*sn*sn*t^3 + 12*t^6 + (-36)*t^5 + 39*t^4 + (-18)*t^3
      + 3*t*t) * hal
    + ((-48)*al*c*sn^3*t^6 + 96*al*c*sn^3*t^5 + (-48)*al*c*sn^3*t^4 + 48*al*c*sn*t^6
      + (-144)*al*c*sn*t^5 + 144*al*c*sn*t^4 + (-48)*al*c*sn*t^3 + 48*sn^4*t^6 + (-96)*sn^4*t^5
      + 48*sn^4*t^4 + (-32)*sn*sn*t^6 + 96*sn*sn*t^5 + (-108)*sn*sn*t^4 + 48*sn*sn*t^3) * hu

/-- **lyon's `α` satisfies `3α² + 4·s·c·α = 4s²`** — from `√(4 + 3T²)² = 4 + 3T²`, `T·c = s`
(`T = tan(δ/2)`), `sin δ = 2sc`, `c² + s² = 1` -/
theorem cubicAlpha_rel (d c sn : K) (hu : c * c + sn * sn = 1)
    (hsin : Transc.sin d = 2 * (sn * c)) (htan : Transc.tan (d * Scalar.half) * c = sn)
    (hA : Transc.sqrt (4 + 3 * Transc.tan (d * Scalar.half) * Transc.tan (d * Scalar.half))
        * Transc.sqrt (4 + 3 * Transc.tan (d * Scalar.half) * Transc.tan (d * Scalar.half))
        = 4 + 3 * Transc.tan (d * Scalar.half) * Transc.tan (d * Scalar.half)) :
    cubicAlpha d = 2 * (sn * c) * (Transc.sqrt (4 + 3 * Transc.tan (d * Scalar.half) * Transc.tan (d * Scalar.half)) - 1) / 3
    ∧ 3 * (cubicAlpha d * cubicAlpha d) + 4 * (sn * c) * cubicAlpha d = 4 * (sn * sn) := by
  have e : cubicAlpha d = 2 * (sn * c) * (Transc.sqrt (4 + 3 * Transc.tan (d * Scalar.half) * Transc.tan (d * Scalar.half)) - 1) / 3 := by
    simp only [cubicAlpha, geom, hsin, Nat.cast_ofNat, Nat.cast_one]
  refine ⟨e, ?_⟩
  rw [e]
  generalize Transc.tan (d * Scalar.half) = T at htan hA ⊢
  generalize Transc.sqrt (4 + 3 * T * T) = A at hA ⊢
  linear_combination (4 * sn * sn * c * c / 3) * hA + (4 * sn * sn * (T * c + sn)) * htan
    + (4 * sn * sn) * hu

/-- **size of `β`** (pure algebra): with `c² ≥ 1/2` (a step of at most 90°), `T·c = s`,
`A = √(4 + 3T²) ≥ 0` and `α = 2sc(A − 1)/3`: `β = s/2 − 3αc/4 = s³ / (2(1 + c² + c²A))`, hence
`β² ≤ (1/2)³ / (4·2.8²) < 0.003996 = 1 − 0.998²`. -/
theorem cubic_beta_bound (s c A T : K) (hu : c * c + s * s = 1) (htan : T * c = s)
    (hA : A * A = 4 + 3 * T * T) (hA0 : 0 ≤ A) (hX : 1 / 2 ≤ c * c) :
    (s / 2 - 3 * (2 * (s * c) * (A - 1) / 3) * c / 4) * (s / 2 - 3 * (2 * (s * c) * (A - 1) / 3) * c / 4)
      ≤ 3996 / 1000000 := by
  have hX1 : c * c ≤ 1 := by nlinarith [mul_self_nonneg s]
  have hm2 : (c * c * A) * (c * c * A) = (c * c) * (3 + c * c) := by
    have hs2 : (T * c) * (T * c) = 1 - c * c := by rw [htan]; linarith
    linear_combination (c * c * (c * c)) * hA + 3 * (c * c) * hs2
  have hm0 : 0 ≤ c * c * A := mul_nonneg (mul_self_nonneg c) hA0
  have hm : 13 / 10 ≤ c * c * A := by
    by_contra hlt
    rw [not_le] at hlt
    have : (c * c * A) * (c * c * A) < (13 / 10) * (13 / 10) := mul_self_lt_mul_self hm0 hlt
    nlinarith
  have eβ : s / 2 - 3 * (2 * (s * c) * (A - 1) / 3) * c / 4 = s / 2 * (1 + c * c - c * c * A) := by ring
  have hs2 : s * s = 1 - c * c := by linarith
  rw [eβ]
  generalize c * c = X at hX hX1 hm2 hm0 hm hs2 ⊢
  generalize X * A = m at hm2 hm0 hm ⊢
  have hprod : (s / 2 * (1 + X - m)) * (1 + X + m) = s / 2 * (1 - X) := by
    linear_combination (-(s / 2)) * hm2
  have hD : 28 / 10 ≤ 1 + X + m := by linarith
  have hsq : ((s / 2 * (1 + X - m)) * (s / 2 * (1 + X - m))) * ((1 + X + m) * (1 + X + m))
      = (1 - X) * (1 - X) * (1 - X) / 4 := by
    have : ((s / 2 * (1 + X - m)) * (1 + X + m)) * ((s / 2 * (1 + X - m)) * (1 + X + m))
        = (s / 2 * (1 - X)) * (s / 2 * (1 - X)) := by rw [hprod]
    linear_combination this + ((1 - X) * (1 - X) / 4) * hs2
  have h0 : 0 ≤ 1 - X := by linarith
  have h1 : 1 - X ≤ 1 / 2 := by linarith
  have hyy : (1 - X) * (1 - X) ≤ 1 / 4 := by nlinarith
  have hcube : (1 - X) * (1 - X) * (1 - X) ≤ 1 / 8 := by
    calc (1 - X) * (1 - X) * (1 - X) ≤ 1 / 4 * (1 - X) := mul_le_mul_of_nonneg_right hyy h0
      _ ≤ 1 / 4 * (1 / 2) := mul_le_mul_of_nonneg_left h1 (by norm_num)
      _ = 1 / 8 := by norm_num
  have hD2 : (28 / 10) * (28 / 10) ≤ (1 + X + m) * (1 + X + m) :=
    mul_self_le_mul_self (by norm_num) hD
  generalize (s / 2 * (1 + X - m)) * (s / 2 * (1 + X - m)) = B2 at hsq ⊢
  have hB0 : 0 ≤ B2 * ((1 + X + m) * (1 + X + m)) := by rw [hsq]; positivity
  have hDpos : 0 < (1 + X + m) * (1 + X + m) := by nlinarith
  have hB : 0 ≤ B2 := by
    by_contra hneg
    rw [not_le] at hneg
    nlinarith [mul_pos_of_neg_of_neg hneg (neg_neg_of_pos hDpos)]
  have := mul_le_mul_of_nonneg_left hD2 hB
  generalize (1 + X + m) * (1 + X + m) = D2 at hsq this
  nlinarith

/-- **a cubic piece of an elliptic arc is the affine image of the piece of the unit circle** (same
start angle and step) under `ellMap`, parameter by parameter. -/
theorem cubic_piece_affine_image (arc : Arc K) (a1 d t : K)
    (h0c : Transc.cos (0 : K) = 1) (h0s : Transc.sin (0 : K) = 0) :
    (cubicAt arc a1 d).sample t = ellMap arc ((cubicAt (unitArc arc) a1 d).sample t) := by
  simp only [cubicAt]
  generalize cubicAlpha d = al
  apply P.ext' <;>
  · simp only [ellMap, unitArc, Cubic.sample, pointAt, tangentAtAngle,
      Arc.sampleEllipse, Arc.rotate, geom, h0c, h0s, Nat.cast_ofNat, Nat.cast_one]
    ring

end Lyon.C13
