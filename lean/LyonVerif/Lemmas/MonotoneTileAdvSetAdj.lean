/-
  C02 growth 4 (`Props/C02g.lean`), part 6: list lemmas about chains of the sweep sequence:
  the spanning edge of a point in a mapped chain (`chainIn_exists`, `span_exists`,
  `chainIn_of_split`) and what two ADJACENT entries of the chain `0 :: futIds seq τ 1` (apex, the
  middle vertices of side `τ`, bottom vertex) are (`adj_props`): ids `i < j`, both on the chain,
  every id in between on the other side.
-/
import LyonVerif.Lemmas.MonotoneTileAdvSetRun

set_option linter.unusedSectionVars false
set_option linter.unusedVariables false
set_option linter.unusedSimpArgs false

namespace Lyon.C02f
open Lyon Lyon.Mono Lyon.C02 Lyon.C02c

section Geometry
variable {K : Type} [Field K] [LinearOrder K] [IsStrictOrderedRing K]

theorem chainIn_exists (c : Bool) (f : Nat → P K) (x : P K) :
    ∀ l : List Nat, ChainIn c (l.map f) x →
      ∃ A a b B, l = A ++ a :: b :: B ∧ Span (f a) (f b) x ∧ 0 < sg c * wind (f a) (f b) x
  | [], h => absurd h (chainIn_nil c x)
  | [_], h => absurd h (chainIn_single c _ x)
  | a :: b :: r, h => by
    rcases h with ⟨h1, h2⟩ | h
    · exact ⟨[], a, b, r, rfl, h1, h2⟩
    · obtain ⟨A, a', b', B, e, h1, h2⟩ := chainIn_exists c f x (b :: r) h
      exact ⟨a :: A, a', b', B, by rw [e]; rfl, h1, h2⟩

theorem chainIn_of_split (c : Bool) (f : Nat → P K) (x : P K) (A B : List Nat) (a b : Nat)
    (h1 : Span (f a) (f b) x) (h2 : 0 < sg c * wind (f a) (f b) x) : ChainIn c ((A ++ a :: b :: B).map f) x := by
  rw [List.map_append, List.map_cons, List.map_cons, chainIn_append]
  exact Or.inr (Or.inl ⟨h1, h2⟩)

/-- a point between the first and the last entry of a chain is spanned by one of its edges -/
theorem span_exists (f : Nat → P K) (x : P K) :
    ∀ (l : List Nat) (i0 z : Nat), l.head? = some i0 → l.getLast? = some z → AfterEq x (f i0) → After (f z) x →
      ∃ A a b B, l = A ++ a :: b :: B ∧ Span (f a) (f b) x
  | [], _, _, h, _, _, _ => by simp at h
  | [a], i0, z, h1, h2, g1, g2 => by
    simp only [List.head?_cons, Option.some.injEq] at h1
    simp only [List.getLast?_singleton, Option.some.injEq] at h2
    exfalso
    rw [← h1] at g1; rw [← h2] at g2
    exact not_after_of_afterEq g1 g2
  | a :: b :: r, i0, z, h1, h2, g1, g2 => by
    simp only [List.head?_cons, Option.some.injEq] at h1
    rw [List.getLast?_cons_cons] at h2
    rcases after_total (f b) x with g | g | g
    · exact ⟨[], a, b, r, rfl, by rw [h1]; exact g1, g⟩
    · obtain ⟨A, a', b', B, e, h⟩ := span_exists f x (b :: r) b z rfl h2 (Or.inl g.symm) g2
      exact ⟨a :: A, a', b', B, by rw [e]; rfl, h⟩
    · obtain ⟨A, a', b', B, e, h⟩ := span_exists f x (b :: r) b z rfl h2 (Or.inr g) g2
      exact ⟨a :: A, a', b', B, by rw [e]; rfl, h⟩

variable (seq : List (P K × Bool)) (τ : Bool)

/-- the next entry of the future chain and what follows it -/
theorem futIds_next (n : Nat) : ∀ k, k < seq.length → seq.length - k = n →
    ∃ f, futIds seq τ k = f :: (if f + 1 < seq.length then futIds seq τ (f + 1) else []) ∧ k ≤ f ∧ f < seq.length ∧
      (∀ j, k ≤ j → j < f → sideAt seq j = !τ) ∧ (f + 1 = seq.length ∨ sideAt seq f = τ) := by
  induction n with
  | zero => intro k hk hn; omega
  | succ n ih =>
    intro k hk hn
    by_cases hl : k + 1 = seq.length
    · refine ⟨k, ?_, le_refl _, hk, fun j h1 h2 => by omega, Or.inl hl⟩
      rw [futIds_last seq τ hl, if_neg (by omega)]
    · have hk1 : k + 1 < seq.length := by omega
      by_cases hs : sideAt seq k = τ
      · refine ⟨k, ?_, le_refl _, hk, fun j h1 h2 => by omega, Or.inr hs⟩
        rw [futIds_same seq τ hk1 hs, if_pos hk1]
      · obtain ⟨f, e, h1, h2, h3, h4⟩ := ih (k + 1) hk1 (by omega)
        refine ⟨f, by rw [futIds_other seq τ hk1 hs, e], by omega, h2, ?_, h4⟩
        intro j hj1 hj2
        by_cases ej : j = k
        · rw [ej]; revert hs; cases sideAt seq k <;> cases τ <;> simp
        · exact h3 j (by omega) hj2

/-- two adjacent entries `i, j` of `i0 :: futIds seq τ k0` -/
theorem adj_props_aux (n : Nat) : ∀ (i0 k0 : Nat), i0 < k0 → k0 < seq.length → seq.length - k0 ≤ n →
    (i0 = 0 ∨ sideAt seq i0 = τ) → (∀ t, i0 < t → t < k0 → sideAt seq t = !τ) →
    ∀ A i j B, i0 :: futIds seq τ k0 = A ++ i :: j :: B →
      i < j ∧ j < seq.length ∧ (i = 0 ∨ sideAt seq i = τ) ∧ (j + 1 = seq.length ∨ sideAt seq j = τ) ∧
        ∀ t, i < t → t < j → sideAt seq t = !τ := by
  induction n with
  | zero => intro i0 k0 _ hk hn; omega
  | succ n ih =>
    intro i0 k0 hik hk hn h0 hbet A i j B e
    obtain ⟨f, ef, f1, f2, f3, f4⟩ := futIds_next seq τ _ k0 hk rfl
    rw [ef] at e
    cases A with
    | nil =>
      simp only [List.nil_append, List.cons.injEq] at e
      obtain ⟨e1, e2, _⟩ := e
      subst e1; subst e2
      refine ⟨by omega, f2, h0, f4, ?_⟩
      intro t ht1 ht2
      by_cases g : t < k0
      · exact hbet t ht1 g
      · exact f3 t (by omega) ht2
    | cons a A' =>
      simp only [List.cons_append, List.cons.injEq] at e
      obtain ⟨_, e'⟩ := e
      by_cases hf : f + 1 < seq.length
      · rw [if_pos hf] at e'
        have hsf : sideAt seq f = τ := by
          rcases f4 with g | g
          · omega
          · exact g
        exact ih f (f + 1) (by omega) hf (by omega) (Or.inr hsf) (fun t h1 h2 => by omega) A' i j B e'
      · rw [if_neg hf] at e'
        exfalso
        have := congrArg List.length e'
        simp at this
        omega

theorem adj_props (h2 : 2 ≤ seq.length) (A : List Nat) (i j : Nat) (B : List Nat)
    (e : 0 :: futIds seq τ 1 = A ++ i :: j :: B) :
    i < j ∧ j < seq.length ∧ (i = 0 ∨ sideAt seq i = τ) ∧ (j + 1 = seq.length ∨ sideAt seq j = τ) ∧
      ∀ t, i < t → t < j → sideAt seq t = !τ :=
  adj_props_aux seq τ _ 0 1 (by omega) (by omega) (le_refl _) (Or.inl rfl) (fun t h1 h2 => by omega) A i j B e

end Geometry

end Lyon.C02f
