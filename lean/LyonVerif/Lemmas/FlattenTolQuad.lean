/-
  Helper lemmas for the per-input tolerance CERTIFICATE of a flattened quadratic
  (Model/Geom/FlattenCert.lean; theorems in Props/C09b.lean):

  * `perp_cert_core`, `param_cert_core`: pure algebra — a point `lerp(A,B,s) − s(1−s)Δ²·dd` is within
    `k·tol` of the segment `AB` when the perpendicular resp. parametric certificate is `≤ k²`;
  * `quad_chord_point`: the curve point over a chord in that form (`chord_deviation` rearranged);
  * `flatCert_le`: the maximum dominates every chord's certificate;
  * `chain_cover`: a chain of parameter ranges from `t` to `e` covers `[t, e]`.
-/
import LyonVerif.Model.Geom.FlattenCert
import LyonVerif.Lemmas.Field
import LyonVerif.Lemmas.Flatten
import LyonVerif.Lemmas.FlattenTolCubic

set_option linter.unusedSectionVars false
set_option linter.unusedVariables false

namespace Lyon.Flat
open Lyon Scalar

variable {K : Type} [Field K] [LinearOrder K] [IsStrictOrderedRing K]

/-- the parametric certificate: `s' = s` -/
theorem param_cert_core (A B dd : P K) (d s tol k : K) (hs0 : 0 ≤ s) (hs1 : s ≤ 1)
    (htol : 0 < tol)
    (hc : (d * d) * (d * d) * dd.sqLen / (16 * (tol * tol)) ≤ k * k) :
    ((A.lerp B s + dd.smul (-(s * (1 - s) * (d * d)))) - A.lerp B s).sqLen ≤ (k * tol) * (k * tol) := by
  have e : ((A.lerp B s + dd.smul (-(s * (1 - s) * (d * d)))) - A.lerp B s).sqLen
      = (s * (1 - s)) ^ 2 * ((d * d) * (d * d) * dd.sqLen) := by
    simp only [geom, Nat.cast_one]; ring
  rw [e]
  have hw0 : 0 ≤ s * (1 - s) := mul_nonneg hs0 (by linarith)
  have hw1 : s * (1 - s) ≤ 1 / 4 := chord_factor s
  have hw2 : (s * (1 - s)) ^ 2 ≤ 1 / 16 := by nlinarith
  have ht2 : 0 < 16 * (tol * tol) := by positivity
  rw [div_le_iff₀ ht2] at hc
  have hE0 : 0 ≤ (d * d) * (d * d) * dd.sqLen :=
    mul_nonneg (mul_nonneg (mul_self_nonneg d) (mul_self_nonneg d)) (sqLen_nonneg dd)
  have := mul_le_mul hw2 hc hE0 (by norm_num : (0:K) ≤ 1 / 16)
  calc (s * (1 - s)) ^ 2 * ((d * d) * (d * d) * dd.sqLen) ≤ 1 / 16 * (k * k * (16 * (tol * tol))) := this
    _ = (k * tol) * (k * tol) := by ring

/-- the perpendicular certificate: the foot of the perpendicular `s' = s − s(1−s)·κ`,
`κ = Δ²(dd·v)/|v|²`, lies on the chord because `|κ| ≤ 1`, and the distance is
`s(1−s)·Δ²·|dd × v|/|v|` -/
theorem perp_cert_core (A B dd : P K) (d s tol k : K) (hs0 : 0 ≤ s) (hs1 : s ≤ 1)
    (htol : 0 < tol) (hvv : 0 < (B - A).sqLen)
    (hκ : |d * d * dd.dot (B - A)| ≤ (B - A).sqLen)
    (hc : (d * d) * (d * d) * (dd.cross (B - A) * dd.cross (B - A)) / (16 * (tol * tol) * (B - A).sqLen) ≤ k * k) :
    ∃ s2 : K, 0 ≤ s2 ∧ s2 ≤ 1 ∧
      ((A.lerp B s + dd.smul (-(s * (1 - s) * (d * d)))) - A.lerp B s2).sqLen ≤ (k * tol) * (k * tol) := by
  obtain ⟨vv, hvvdef⟩ : ∃ x : K, x = (B - A).sqLen := ⟨_, rfl⟩
  obtain ⟨dv, hdv⟩ : ∃ x : K, x = dd.dot (B - A) := ⟨_, rfl⟩
  obtain ⟨cr, hcr⟩ : ∃ x : K, x = dd.cross (B - A) := ⟨_, rfl⟩
  rw [← hvvdef] at hvv hκ hc
  rw [← hdv] at hκ
  rw [← hcr] at hc
  obtain ⟨κ, hκdef⟩ : ∃ x : K, x = d * d * dv / vv := ⟨_, rfl⟩
  have hκv : κ * vv = d * d * dv := by rw [hκdef]; field_simp
  have hκ1 : κ ≤ 1 := by
    rw [hκdef, div_le_one hvv]; exact le_trans (le_abs_self _) hκ
  have hκ2 : -1 ≤ κ := by
    rw [hκdef, le_div_iff₀ hvv]; have := neg_abs_le (d * d * dv); linarith
  have hw0 : 0 ≤ s * (1 - s) := mul_nonneg hs0 (by linarith)
  refine ⟨s - s * (1 - s) * κ, ?_, ?_, ?_⟩
  · have : s - s * (1 - s) * κ = s * (1 - (1 - s) * κ) := by ring
    rw [this]
    apply mul_nonneg hs0
    nlinarith
  · have : 1 - (s - s * (1 - s) * κ) = (1 - s) * (1 + s * κ) := by ring
    have h2 : 0 ≤ (1 - s) * (1 + s * κ) := mul_nonneg (by linarith) (by nlinarith)
    linarith
  · -- |diff|²·|v|² = (s(1−s))²·Δ⁴·(dd × v)²
    have hlag : dd.sqLen * vv = dv * dv + cr * cr := by
      rw [hvvdef, hdv, hcr]; simp only [geom]; ring
    have e : ((A.lerp B s + dd.smul (-(s * (1 - s) * (d * d)))) - A.lerp B (s - s * (1 - s) * κ)).sqLen * vv
        = (s * (1 - s)) ^ 2 * ((d * d) * (d * d) * (cr * cr)) := by
      have e1 : ((A.lerp B s + dd.smul (-(s * (1 - s) * (d * d)))) - A.lerp B (s - s * (1 - s) * κ)).sqLen
          = (s * (1 - s)) ^ 2 * (κ * κ * (B - A).sqLen - 2 * κ * (d * d) * dd.dot (B - A)
              + (d * d) * (d * d) * dd.sqLen) := by
        simp only [geom, Nat.cast_one]; ring
      rw [e1, ← hvvdef, ← hdv]
      linear_combination (s * (1 - s)) ^ 2 * (κ * vv - d * d * dv) * hκv
        + (s * (1 - s)) ^ 2 * ((d * d) * (d * d)) * hlag
    have ht2 : 0 < 16 * (tol * tol) * vv := by positivity
    rw [div_le_iff₀ ht2] at hc
    have hw1 : s * (1 - s) ≤ 1 / 4 := chord_factor s
    have hw2 : (s * (1 - s)) ^ 2 ≤ 1 / 16 := by nlinarith
    have hE0 : 0 ≤ (d * d) * (d * d) * (cr * cr) :=
      mul_nonneg (mul_nonneg (mul_self_nonneg d) (mul_self_nonneg d)) (mul_self_nonneg cr)
    have h3 := mul_le_mul hw2 hc hE0 (by norm_num : (0:K) ≤ 1 / 16)
    have h4 : ((A.lerp B s + dd.smul (-(s * (1 - s) * (d * d)))) - A.lerp B (s - s * (1 - s) * κ)).sqLen * vv
        ≤ (k * tol) * (k * tol) * vv := by
      rw [e]
      calc (s * (1 - s)) ^ 2 * ((d * d) * (d * d) * (cr * cr)) ≤ 1 / 16 * (k * k * (16 * (tol * tol) * vv)) := h3
        _ = (k * tol) * (k * tol) * vv := by ring
    exact le_of_mul_le_mul_right h4 hvv

/-- the curve point over the chord `[t0, t0 + Δ]` at relative position `s` is
`lerp(Q(t0), Q(t0+Δ), s) − s(1−s)Δ²·(P0 − 2P1 + P2)` (theorem `chord_deviation`, rearranged) -/
theorem quad_chord_point (q : Quad K) (t0 d s : K) :
    q.sample (t0 + s * d)
      = (q.sample t0).lerp (q.sample (t0 + d)) s + q.secondDiff.smul (-(s * (1 - s) * (d * d))) := by
  simp only [Quad.secondDiff]
  geom_ring

/-- one chord: certificate `≤ k²` ⟹ every curve point of the chord's range is within `k·tol` of it -/
theorem quad_chord_cert (q : Quad K) (tol k : K) (sg : FlatSeg K)
    (ha : sg.a = q.sample sg.t0) (hb : sg.b = q.sample sg.t1) (ht : 0 < tol)
    (hc : q.chordCertSq tol sg ≤ k * k) (s : K) (hs0 : 0 ≤ s) (hs1 : s ≤ 1) :
    ∃ s2 : K, 0 ≤ s2 ∧ s2 ≤ 1 ∧
      (q.sample (sg.t0 + s * (sg.t1 - sg.t0)) - sg.a.lerp sg.b s2).sqLen ≤ (k * tol) * (k * tol) := by
  have hb2 : sg.b = q.sample (sg.t0 + (sg.t1 - sg.t0)) := by rw [hb]; congr 1; ring
  rw [quad_chord_point, ← ha, ← hb2]
  unfold Quad.chordCertSq at hc
  by_cases hp : q.chordPerp sg = true
  · rw [if_pos hp] at hc
    simp only [Quad.chordPerp, Bool.and_eq_true, decide_eq_true_eq, sc_zero, sc_abs] at hp
    obtain ⟨hvv, hκ⟩ := hp
    simp only [Quad.chordPerpSq, ofNat_eq, Nat.cast_ofNat] at hc
    exact perp_cert_core sg.a sg.b q.secondDiff (sg.t1 - sg.t0) s tol k hs0 hs1 ht hvv hκ hc
  · rw [if_neg hp] at hc
    simp only [Quad.chordParamSq, ofNat_eq, Nat.cast_ofNat] at hc
    exact ⟨s, hs0, hs1, param_cert_core sg.a sg.b q.secondDiff (sg.t1 - sg.t0) s tol k hs0 hs1 ht hc⟩

/-- the maximum computed by `flatCert` dominates the certificate of every chord -/
theorem flatCert_le (q : Quad K) (tol b : K) (l : List (FlatSeg K)) (h : (q.flatCert tol l).2 ≤ b) :
    ∀ sg ∈ l, q.chordCertSq tol sg ≤ b := by
  induction l with
  | nil => intro sg hsg; cases hsg
  | cons x r ih =>
    simp only [Quad.flatCert, sc_max] at h
    intro sg hsg
    rcases List.mem_cons.mp hsg with rfl | hsg
    · exact le_trans (le_max_left _ _) h
    · exact ih (le_trans (le_max_right _ _) h) sg hsg

/-- a chain of parameter ranges from `t` to `e` covers `[t, e]` (the ranges need not be monotone) -/
theorem chain_cover (p : P K) (t e : K) (l : List (FlatSeg K)) (hc : Chain p t l) (hne : l ≠ [])
    (hl : lastT t l = e) (x : K) (hx0 : t ≤ x) (hx1 : x ≤ e) :
    ∃ sg ∈ l, ∃ s : K, 0 ≤ s ∧ s ≤ 1 ∧ x = sg.t0 + s * (sg.t1 - sg.t0) := by
  induction l generalizing p t with
  | nil => exact absurd rfl hne
  | cons sg r ih =>
    obtain ⟨_, ht0, hrest⟩ := hc
    rcases le_or_gt x sg.t1 with hle | hgt
    · refine ⟨sg, List.mem_cons_self, ?_⟩
      rcases eq_or_lt_of_le hx0 with heq | hlt
      · exact ⟨0, le_refl _, zero_le_one, by rw [ht0, ← heq]; ring⟩
      · have hd : 0 < sg.t1 - sg.t0 := by rw [ht0]; linarith
        refine ⟨(x - sg.t0) / (sg.t1 - sg.t0), div_nonneg (by rw [ht0]; linarith) (le_of_lt hd), ?_, ?_⟩
        · rw [div_le_one hd]; linarith
        · rw [div_mul_cancel₀ _ (ne_of_gt hd)]; ring
    · cases r with
      | nil => simp only [lastT] at hl; rw [hl] at hgt; exact absurd hx1 (not_le.mpr hgt)
      | cons y r2 =>
        obtain ⟨sg2, h2, h3⟩ := ih sg.b sg.t1 hrest (by simp) hl (le_of_lt hgt)
        exact ⟨sg2, List.mem_cons_of_mem _ h2, h3⟩

/-- the combined certificate of the pieces dominates each piece's own certificate -/
theorem piecesCert_le [Transc K] [FlatConst K] (tolF b : K) (qs : List (Quad K × K × K)) (r : Bool × K)
    (h : Cubic.piecesCert tolF qs = some r) (hb : r.2 ≤ b) :
    ∀ p ∈ qs, ∀ lq, p.1.forEachFlattenedWithT tolF = some lq → (p.1.flatCert tolF lq).2 ≤ b := by
  induction qs generalizing r with
  | nil => intro p hp; cases hp
  | cons x rest ih =>
    obtain ⟨q, r0, r1⟩ := x
    unfold Cubic.piecesCert at h
    cases hq : q.forEachFlattenedWithT tolF with
    | none => simp [hq] at h
    | some l =>
      cases hr : Cubic.piecesCert tolF rest with
      | none => simp [hq, hr] at h
      | some rr =>
        simp only [hq, hr, Option.some.injEq] at h
        subst h
        simp only [sc_max] at hb
        intro p hp lq hlq
        rcases List.mem_cons.mp hp with rfl | hp
        · rw [hq] at hlq
          cases hlq
          exact le_trans (le_max_left _ _) hb
        · exact ih rr hr (le_trans (le_max_right _ _) hb) p hp lq hlq

end Lyon.Flat
