/-
  C02 growth 4 (`Props/C02g.lean`), part 9: the chain polygon of a reached state lies inside the
  polygon as a REGION (`adv_state_chain_poly_inside`, through the covering by closed fan
  triangles), and the fans `Adv.end_` emits for the two chains of the final state are part of the
  output of `Adv.run` (`end_fans_emitted`, `adv_final_fans_emitted`).
-/
import LyonVerif.Lemmas.MonotoneTileAdvSetFanIn

set_option linter.unusedSectionVars false
set_option linter.unusedVariables false
set_option linter.unusedSimpArgs false

namespace Lyon.C02f
open Lyon Lyon.Mono Lyon.C02 Lyon.C02c

section Geometry
variable {K : Type} [Field K] [LinearOrder K] [IsStrictOrderedRing K]

/-- closed version of `inTri_side` for a non-degenerate triangle -/
theorem inTriC_side {τ : Bool} {a b c q o1 o2 : P K} (h : InTriC a b c q) (hW : 0 < wind a b c)
    (ha : 0 < sg τ * wind o1 o2 a) (hb : 0 < sg τ * wind o1 o2 b) (hc : 0 < sg τ * wind o1 o2 c) :
    0 < sg τ * wind o1 o2 q := by
  obtain ⟨w3, w1, w2⟩ := h
  have e := bary_wind a b c q o1 o2
  have es := bary_sum a b c q
  have : 0 < wind a b c * (sg τ * wind o1 o2 q) := by
    have e' : wind a b c * (sg τ * wind o1 o2 q) =
        wind b c q * (sg τ * wind o1 o2 a) + wind c a q * (sg τ * wind o1 o2 b) + wind a b q * (sg τ * wind o1 o2 c) := by
      linear_combination (sg τ) * e
    rw [e']
    -- the smallest of the three values times the total weight
    have m1 := mul_nonneg w1 ha.le
    have m2 := mul_nonneg w2 hb.le
    have m3 := mul_nonneg w3 hc.le
    by_contra hn
    have h0 : wind b c q * (sg τ * wind o1 o2 a) = 0 ∧ wind c a q * (sg τ * wind o1 o2 b) = 0 ∧
        wind a b q * (sg τ * wind o1 o2 c) = 0 := by
      refine ⟨?_, ?_, ?_⟩ <;> linarith [not_lt.mp hn]
    have z1 : wind b c q = 0 := by
      rcases mul_eq_zero.mp h0.1 with z | z
      · exact z
      · linarith
    have z2 : wind c a q = 0 := by
      rcases mul_eq_zero.mp h0.2.1 with z | z
      · exact z
      · linarith
    have z3 : wind a b q = 0 := by
      rcases mul_eq_zero.mp h0.2.2 with z | z
      · exact z
      · linarith
    rw [es, z1, z2, z3] at hW
    simp at hW
  exact (pos_iff_pos_of_mul_pos this).mp hW

variable (seq : List (P K × Bool))

/-- **the chain polygon of a buffered chain of a reached state lies inside the polygon** -/
theorem adv_state_chain_poly_inside (hval : SweepValid seq) (hnc : NoCollinear seq) (h2 : 2 ≤ seq.length) (i : Nat)
    (l : Bool) (s : SideEv K) (hs : s = (if l then (advState seq i).left else (advState seq i).right))
    (hl2 : 2 ≤ s.events.length) (x : P K)
    (hx : InPoly l (s.events.map (posOf seq)) [posOf seq (s.events.headD 0), s.last.pos] x) :
    InsidePoly seq x := by
  obtain ⟨hz, hcl, hcr, hk⟩ := adv_state_facts seq hval h2 i
  have key : ∀ (l : Bool) (s : SideEv K) (k : Nat), SideChain seq l k s → k + 1 ≤ seq.length → ChordClear seq l s →
      CInv (posOf seq) l s → 2 ≤ s.events.length →
      InPoly l (s.events.map (posOf seq)) [posOf seq (headId s), s.last.pos] x →
      ChainIn l ((0 :: futIds seq l 1).map (posOf seq)) x ∧ ChainIn (!l) ((0 :: futIds seq (!l) 1).map (posOf seq)) x := by
    intro l s k hc hk' hcc hci hl2' hx'
    have hg := chainGeneral_of seq hnc hc (by omega)
    refine chain_poly_inside seq hval h2 hc hk' hcc hl2' x hx' ?_
    intro i' j hi hj hjn hf
    have hcov := (flush_side_fan_tiles hci hg).cover x (by rw [chain_poly_eq seq hc]; exact hx')
    rcases hcov with g | ⟨t, ht, hin⟩
    · exact absurd g id
    have hge : ∀ v ∈ s.events, headId s ≤ v := by
      intro v hv
      have hinc := hc.inc
      rw [hc.head_mem seq] at hinc hv
      rcases List.mem_cons.mp hv with g | g
      · omega
      · exact Nat.le_of_lt (List.rel_of_pairwise_cons hinc g)
    have hid : ∀ p, p < s.events.length → i' < s.events.toArray.getD p 0 ∧ s.events.toArray.getD p 0 < j := by
      intro p hp
      have e : s.events.toArray.getD p 0 = s.events[p] := by simp [hp]
      have hm : s.events[p] ∈ s.events := List.getElem_mem hp
      have h1 := hc.le_last seq _ hm
      have h3 := hge _ hm
      rw [e]; omega
    -- the triangle is strictly positively oriented
    have hpos : 0 < triW (posOf seq) t := by
      have h1 := flush_tris_nonneg hci t ht
      obtain ⟨a, b, c, hab, hbc, hcl', hshape⟩ := flushLevels_ids s.events.toArray s.events.length (!l) t ht
      have ge : ∀ p, posOf seq (s.events.toArray.getD p 0) = evPos (posOf seq) s.events p := by
        intro p; simp [evPos, List.getD_eq_getElem?_getD]
      have hne := hg a b c hab hbc hcl'
      refine lt_of_le_of_ne h1 (Ne.symm ?_)
      cases l
      · simp only [Bool.not_false, if_true] at hshape
        rcases hshape with e | e <;> rw [e] <;> simp only [triW, ge]
        · rw [wind_swap]; exact neg_ne_zero.mpr hne
        · rw [wind_swap23]; exact neg_ne_zero.mpr hne
      · simp only [Bool.not_true, Bool.false_eq_true, if_false] at hshape
        rw [hshape]; simp only [triW, ge]; exact hne
    obtain ⟨a, b, c, hab, hbc, hcl', hshape⟩ := flushLevels_ids s.events.toArray s.events.length (!l) t ht
    have fa := hf _ (hid a (by omega)).1 (hid a (by omega)).2
    have fb := hf _ (hid b (by omega)).1 (hid b (by omega)).2
    have fc := hf _ (hid c hcl').1 (hid c hcl').2
    unfold TriInC at hin
    unfold triW at hpos
    cases l
    · simp only [Bool.not_false, if_true] at hshape
      rcases hshape with e | e <;> rw [e] at hin hpos
      · exact inTriC_side hin hpos fb fa fc
      · exact inTriC_side hin hpos fa fc fb
    · simp only [Bool.not_true, Bool.false_eq_true, if_false] at hshape
      rw [hshape] at hin hpos
      exact inTriC_side hin hpos fa fb fc
  rw [insidePoly_iff]
  cases l
  · simp only [Bool.false_eq_true, if_false] at hs
    subst hs
    have := key false _ _ hz.cb (by omega) hz.hb hcr hl2 hx
    simp only [Bool.not_false] at this
    exact ⟨this.2, this.1⟩
  · simp only [if_true] at hs
    subst hs
    exact key true _ _ hz.ca (by omega) hz.ha hcl hl2 hx

/-! ## the fans of the final state are part of the output -/

theorem basic_vertex_tris {α : Type} [Scalar α] (s : Basic α) (v : MV α) : ∃ nt, (s.vertex v).tris = s.tris ++ nt := by
  unfold Basic.vertex
  split
  · exact ⟨_, rfl⟩
  · cases s.stack with
    | nil => exact ⟨[], by simp⟩
    | cons top rest => exact ⟨_, rfl⟩

theorem basic_end_tris {α : Type} [Scalar α] (s : Basic α) (p : P α) (id : Nat) :
    ∃ nt, (s.end_ p id).tris = s.tris ++ nt := by
  obtain ⟨nt, e⟩ := basic_vertex_tris s ⟨p, id, !s.previous.left⟩
  exact ⟨nt, by simp only [Basic.end_]; exact e⟩

theorem endCore_tris {α : Type} [Scalar α] (tess : Basic α) (fa fb : List Tri × Option (MV α)) (p : P α) (id : Nat) :
    ∃ nt, (endCore tess fa fb p id).tris =
      tess.tris ++ (if fa.2.isSome then fa.1 else []) ++ (if fb.2.isSome then fb.1 else []) ++ nt := by
  unfold endCore
  generalize hT : (tess.pushTris (if fa.2.isSome then fa.1 else [])).pushTris (if fb.2.isSome then fb.1 else []) = T
  have hTt : T.tris = tess.tris ++ (if fa.2.isSome then fa.1 else []) ++ (if fb.2.isSome then fb.1 else []) := by
    rw [← hT]; simp [Basic.pushTris]
  rw [← hTt]
  rcases fa with ⟨ta, _ | va⟩ <;> rcases fb with ⟨tb, _ | vb⟩ <;> simp only
  · exact basic_end_tris T p id
  · obtain ⟨n1, e1⟩ := basic_vertex_tris T vb
    obtain ⟨n2, e2⟩ := basic_end_tris (T.vertex vb) p id
    exact ⟨n1 ++ n2, by rw [e2, e1, List.append_assoc]⟩
  · obtain ⟨n1, e1⟩ := basic_vertex_tris T va
    obtain ⟨n2, e2⟩ := basic_end_tris (T.vertex va) p id
    exact ⟨n1 ++ n2, by rw [e2, e1, List.append_assoc]⟩
  · split
    · obtain ⟨n1, e1⟩ := basic_vertex_tris T vb
      obtain ⟨n2, e2⟩ := basic_vertex_tris (T.vertex vb) va
      obtain ⟨n3, e3⟩ := basic_end_tris ((T.vertex vb).vertex va) p id
      exact ⟨n1 ++ n2 ++ n3, by rw [e3, e2, e1]; simp [List.append_assoc]⟩
    · obtain ⟨n1, e1⟩ := basic_vertex_tris T va
      obtain ⟨n2, e2⟩ := basic_vertex_tris (T.vertex va) vb
      obtain ⟨n3, e3⟩ := basic_end_tris ((T.vertex va).vertex vb) p id
      exact ⟨n1 ++ n2 ++ n3, by rw [e3, e2, e1]; simp [List.append_assoc]⟩

/-- **`Adv.end_` emits the fans of both buffered chains** (of ≥ 2 ids) -/
theorem end_fans_emitted {α : Type} [Scalar α] (st : Adv α) (p : P α) (id : Nat) :
    (2 ≤ st.left.events.length → ∀ t ∈ flushLevels st.left.events.toArray st.left.events.length false
        (st.left.events.length + 1) 1, t ∈ (st.end_ p id).tris) ∧
    (2 ≤ st.right.events.length → ∀ t ∈ flushLevels st.right.events.toArray st.right.events.length true
        (st.right.events.length + 1) 1, t ∈ (st.end_ p id).tris) := by
  rw [end_eq]
  obtain ⟨nt, e⟩ := endCore_tris st.tess (flushSide st.left false).2 (flushSide st.right true).2 p id
  rw [e]
  constructor
  · intro h2 t ht
    rcases flushSide_cases st.left false with ⟨hl, _⟩ | ⟨_, _, _, a3, a4⟩
    · omega
    · rw [a3, a4]
      simp only [Option.isSome_some, if_true, List.mem_append]
      exact Or.inl (Or.inl (Or.inr ht))
  · intro h2 t ht
    rcases flushSide_cases st.right true with ⟨hl, _⟩ | ⟨_, _, _, b3, b4⟩
    · omega
    · rw [b3, b4]
      simp only [Option.isSome_some, if_true, List.mem_append]
      exact Or.inl (Or.inr ht)

/-- `Adv.run` = `end` applied to the state after all middle vertices -/
theorem adv_run_eq_end (h2 : 2 ≤ seq.length) :
    Adv.run seq = ((advState seq (midsOf seq).length).end_ (posOf seq (seq.length - 1)) (seq.length - 1)).tris := by
  match seq, h2 with
  | (p0, b0) :: v1 :: rest, _ =>
    have hpe : posOf ((p0, b0) :: v1 :: rest) (v1 :: rest).length = ((v1 :: rest).getLast?.map (·.1)).getD p0 := by
      simp only [posOf, List.length_cons, List.getElem?_cons_succ]
      rw [List.getLast?_eq_getElem?]
      simp only [List.length_cons, Nat.add_sub_cancel]
      rw [List.getElem?_eq_getElem (by simp only [List.length_cons]; omega)]
      rfl
    simp only [Adv.run, foldl_zipIdx_eq_afeed, advState, List.take_length]
    rw [← hpe]
    simp [midsOf, posOf]

/-- the fans of the two chains of the final state are triangles of `Adv.run seq` -/
theorem adv_final_fans_emitted (h2 : 2 ≤ seq.length) (l : Bool) (s : SideEv K)
    (hs : s = (if l then (advState seq (midsOf seq).length).left else (advState seq (midsOf seq).length).right))
    (hl2 : 2 ≤ s.events.length) :
    ∀ t ∈ flushLevels s.events.toArray s.events.length (!l) (s.events.length + 1) 1, t ∈ Adv.run seq := by
  rw [adv_run_eq_end seq h2]
  have := end_fans_emitted (advState seq (midsOf seq).length) (posOf seq (seq.length - 1)) (seq.length - 1)
  cases l
  · simp only [Bool.false_eq_true, if_false] at hs
    subst hs
    exact this.2 hl2
  · simp only [if_true] at hs
    subst hs
    exact this.1 hl2

end Geometry

end Lyon.C02f
