/-
  SPAN / WINDING COHERENCE, part 4: `process_edges_above` on a coherent state never fails, and
  removes exactly `cntIn` spans.
-/
import LyonVerif.Lemmas.SweepSafeCohInv

set_option linter.unusedSectionVars false
set_option linter.unusedVariables false
set_option linter.unusedSimpArgs false
set_option mvcgen.warning false

namespace Lyon.SweepCoh
open Lyon Lyon.Scalar Lyon.Mono Lyon.Sweep Lyon.EQ Lyon.SweepSafe
open Std.Do

variable {α : Type} [Scalar α] [Wide α]

/-- number of live entries -/
def someCount {γ : Type} (a : Array (Option γ)) : Nat := (a.toList.filter (·.isSome)).length

theorem someCount_set_some {γ : Type} (a : Array (Option γ)) (k : Nat) (t t' : γ) (hk : k < a.size)
    (h : a[k] = some t) : someCount (a.setIfInBounds k (some t')) = someCount a := by
  unfold someCount
  rw [Array.toList_setIfInBounds]
  have hk' : k < a.toList.length := by simpa using hk
  have h' : a.toList[k] = some t := by simpa using h
  clear h hk
  generalize a.toList = l at hk' h'
  induction l generalizing k with
  | nil => simp at hk'
  | cons x l ih =>
    cases k with
    | zero =>
      simp only [List.getElem_cons_zero] at h'
      simp [List.set, List.filter, h']
    | succ k =>
      simp only [List.getElem_cons_succ] at h'
      have := ih k (by simpa using hk') h'
      simp only [List.set, List.filter]
      split <;> simp_all

theorem someCount_set_none {γ : Type} (a : Array (Option γ)) (k : Nat) (t : γ) (hk : k < a.size)
    (h : a[k] = some t) : someCount (a.setIfInBounds k none) + 1 = someCount a := by
  unfold someCount
  rw [Array.toList_setIfInBounds]
  have hk' : k < a.toList.length := by simpa using hk
  have h' : a.toList[k] = some t := by simpa using h
  clear h hk
  generalize a.toList = l at hk' h'
  induction l generalizing k with
  | nil => simp at hk'
  | cons x l ih =>
    cases k with
    | zero =>
      simp only [List.getElem_cons_zero] at h'
      simp [List.set, List.filter, h']
    | succ k =>
      simp only [List.getElem_cons_succ] at h'
      have := ih k (by simpa using hk') h'
      simp only [List.set, List.filter]
      split <;> simp_all <;> omega

theorem someCount_filter {γ : Type} (a : Array (Option γ)) : (a.filter (·.isSome)).size = someCount a := by
  unfold someCount
  rw [← Array.length_toList, Array.toList_filter]

theorem someCount_all {γ : Type} (a : Array (Option γ)) (h : ∀ k (hk : k < a.size), a[k] ≠ none) :
    someCount a = a.size := by
  unfold someCount
  rw [← Array.length_toList]
  congr 1
  rw [List.filter_eq_self]
  intro x hx
  rcases List.mem_iff_getElem.mp hx with ⟨k, hk, e⟩
  have := h k (by simpa using hk)
  cases x with
  | none => exact absurd (by simpa using e) this
  | some _ => rfl


variable {A : List String}

/-- the state during the vertex / end-span loops of `process_edges_above`, relative to the scanned
state `s0`: same number of span slots, the ended ones are exactly `D` many -/
structure SpA (s0 : St α) (D : List Int) (s : St α) : Prop where
  live : SomeExcept D s.spans
  size : s.spans.size = s0.spans.size
  cnt : someCount s.spans + D.length = s0.spans.size
  act : s.active = s0.active
  rule : s.rule = s0.rule
  tol : s.tolerance = s0.tolerance

theorem spanVertex_sp (s0 : St α) (D : List Int) (i : Int) (h0 : 0 ≤ i) (h1 : i < (s0.spans.size : Int))
    (hD : i ∉ D) (pos : P α) (id : Nat) (l : Bool) :
    ⦃fun s => ⌜SpA s0 D s⌝⦄ (spanVertex i pos id l : SM α Unit) ⦃safePost A fun _ s => SpA s0 D s⦄ := by
  unfold spanVertex
  mvcgen
  · rename_i s h hk
    exfalso
    rw [h.size, spanIdx_some h0 h1] at hk
    cases hk
  · rename_i s h k hk hd
    have hk' := spanIdx_lt hk
    exfalso
    rw [getD_eq hk'.1] at hd
    exact hD (hk'.2 ▸ h.live k hk'.1 hd)
  · rename_i s h k hk t ht
    have hk' := spanIdx_lt hk
    rw [getD_eq hk'.1] at ht
    exact ⟨someExcept_set h.live k _, by simp [h.size],
      by rw [someCount_set_some _ k t _ hk'.1 ht]; exact h.cnt, h.act, h.rule, h.tol⟩

theorem endSpan_sp (s0 : St α) (D : List Int) (i : Int) (h0 : 0 ≤ i) (h1 : i < (s0.spans.size : Int))
    (hD : i ∉ D) (pos : P α) (id : Nat) :
    ⦃fun s => ⌜SpA s0 D s⌝⦄ (endSpan i pos id : SM α Unit) ⦃safePost A fun _ s => SpA s0 (i :: D) s⦄ := by
  unfold endSpan
  mvcgen [emitTris]
  · rename_i s h hk
    exfalso
    rw [h.size, spanIdx_some h0 h1] at hk
    cases hk
  · rename_i s h k hk hd
    have hk' := spanIdx_lt hk
    exfalso
    rw [getD_eq hk'.1] at hd
    exact hD (hk'.2 ▸ h.live k hk'.1 hd)
  · rename_i s h k hk t ht b pooled _
    have hk' := spanIdx_lt hk
    rw [getD_eq hk'.1] at ht
    refine ⟨hk'.2 ▸ someExcept_kill h.live k, ?_, ?_, h.act, h.rule, h.tol⟩
    · show (s.spans.setIfInBounds k none).size = _
      rw [Array.size_setIfInBounds]; exact h.size
    · have := someCount_set_none _ k t hk'.1 ht
      have := h.cnt
      show someCount (s.spans.setIfInBounds k none) + (D.length + 1) = _
      omega


/-- every span index of `vertex_events` is valid in a coherent state -/
theorem ve_valid {s0 : St α} {scan : Scan} (hc : Coh s0) (hs : ScanSem s0 scan) (x : Int × Bool)
    (hx : x ∈ scan.vertexEvents) : 0 ≤ x.1 ∧ x.1 < (s0.spans.size : Int) := by
  rcases hs.ve x hx with ⟨h1, h2⟩ | ⟨h1, h2⟩ | ⟨hms, h1⟩
  · rw [h1]; exact hc.idx_ok h2
  · rw [h1]; exact hc.idx_ok h2
  · obtain ⟨hb, e, he, hm⟩ := hs.ms hms
    have hin := hc.merges _ e he hm
    have h0 := hc.idx_ok hin
    have hw : Wat s0 scan.aboveEnd = wstep s0.rule (Wat s0 scan.aboveStart) e := by
      rw [hb]; exact Wat_succ s0 _ e he
    have hin' : (Wat s0 scan.aboveEnd).isIn = true := by rw [hw]; simp [wstep, hm, hin]
    have hsi : (Wat s0 scan.aboveEnd).spanIndex = (Wat s0 scan.aboveStart).spanIndex + 1 := by
      rw [hw]; simp [wstep, hm]
    have h2 := hc.idx_ok hin'
    rcases h1 with h1 | h1 <;> (rw [h1]; omega)

theorem se_valid {s0 : St α} {scan : Scan} (hc : Coh s0) (hs : ScanSem s0 scan) (x : Int)
    (hx : x ∈ scan.spansToEnd) : 0 ≤ x ∧ x < (s0.spans.size : Int) := by
  obtain ⟨k, _, _, h1, h2⟩ := hs.se x hx
  rw [h1]; exact hc.idx_ok h2

theorem filter_lt_eq_pref {l p q : List Int} {c : Int} (h : l.Pairwise (· < ·)) (e : l = p ++ c :: q) :
    l.filter (· < c) = p := by
  rw [e, List.pairwise_append] at h
  rw [e, List.filter_append, List.filter_cons]
  have h1 : ∀ x ∈ p, decide (x < c) = true := fun x hx => by simpa using h.2.2 x hx c (by simp)
  have h2 : ∀ x ∈ q, decide (x < c) = false := fun x hx => by
    have := (List.pairwise_cons.mp h.2.1).1 x hx
    simp; omega
  rw [List.filter_eq_self.mpr h1, List.filter_eq_nil_iff.mpr (fun x hx => by simp [h2 x hx])]
  simp

/-- the state after `process_edges_above`, relative to the scanned state `s0` -/
structure RelA (s0 : St α) (scan : Scan) (s : St α) : Prop where
  live : SomeExcept [] s.spans
  size : s.spans.size + cntIn s0 scan.aboveStart scan.aboveEnd = s0.spans.size
  asize : s.active.size = s0.active.size
  sig : ∀ k, (scan.mergeEvent = true → k ≠ scan.aboveStart) →
    (s.active[k]?).map sigOf = (s0.active[k]?).map sigOf
  merged : scan.mergeEvent = true → (s.active[scan.aboveStart]?).map sigOf = some (true, 0)
  rule : s.rule = s0.rule
  tol : s.tolerance = s0.tolerance

/-- the state at entry of `process_edges_above`: the scanned state up to coverage marks -/
def Rel0 (s0 s : St α) : Prop :=
  s.spans = s0.spans ∧ s.active = s0.active ∧ s.rule = s0.rule ∧ s.tolerance = s0.tolerance

/-- between clean-up and the merge event: the active list's signatures are those of `s0` -/
structure RelS (s0 : St α) (scan : Scan) (s : St α) : Prop where
  live : SomeExcept [] s.spans
  size : s.spans.size + cntIn s0 scan.aboveStart scan.aboveEnd = s0.spans.size
  asize : s.active.size = s0.active.size
  sig : ∀ k : Nat, (s.active[k]?).map sigOf = (s0.active[k]?).map sigOf
  rule : s.rule = s0.rule
  tol : s.tolerance = s0.tolerance

theorem splitEdge_rel (s0 : St α) (scan : Scan) (ei : Nat) (hei : ei < s0.active.size) :
    ⦃fun s => ⌜RelS s0 scan s⌝⦄ (splitEdge ei : SM α Unit) ⦃safePost A fun _ s => RelS s0 scan s⦄ := by
  unfold splitEdge
  mvcgen
  · rename_i s h hlt _ _ _ _ _ _ _
    refine ⟨h.live, h.size, by simp [h.asize], ?_, h.rule, h.tol⟩
    intro k
    rw [← h.sig k]
    show ((s.active.setIfInBounds ei _)[k]?).map sigOf = _
    rw [Array.getElem?_setIfInBounds]
    split
    · rename_i hk
      rw [← hk]
      simp [hlt, sigOf]
      exact ⟨rfl, rfl⟩
    · rfl
  · rename_i s h hlt
    exact absurd (h.asize ▸ hei) hlt


/-- `process_edges_above` on a coherent scanned state: NO failure at all; exactly
`cntIn s0 above_start above_end` spans are removed; the active list keeps its signatures (except the
merge vertex created by a merge event) -/
theorem processEdgesAbove_rel (s0 : St α) (scan : Scan) (hok : ScanOk s0 scan) (hsem : ScanSem s0 scan)
    (hc : Coh s0) :
    ⦃fun s => ⌜Rel0 s0 s⌝⦄ (processEdgesAbove scan : SM α Scan)
    ⦃safePost A fun sc s => sc = aboveResult scan ∧ RelA s0 scan s⦄ := by
  unfold processEdgesAbove
  have h1 := fun (i : Int) (h0 : 0 ≤ i) (h1 : i < (s0.spans.size : Int)) =>
    spanVertex_sp (α := α) (A := A) s0 [] i h0 h1 (by simp)
  have h2 := fun (i : Int) (h0 : 0 ≤ i) (h1 : i < (s0.spans.size : Int)) =>
    endSpan_sp (α := α) (A := A) s0 (scan.spansToEnd.toList.filter (· < i)) i h0 h1 (by simp)
  have h3 := fun ei hei => splitEdge_rel (α := α) (A := A) s0 scan ei hei
  mvcgen [h1, h2, h3] invariants
  · post⟨fun _ s => ⌜SpA s0 [] s⌝, fun f _ => ⌜Allowed A f⌝⟩
  · post⟨fun r s => ⌜SpA s0 r.1.prefix s⌝, fun f _ => ⌜Allowed A f⌝⟩
  · post⟨fun _ s => ⌜RelS s0 scan s⌝, fun f _ => ⌜Allowed A f⌝⟩
  with skip
  case vc1 =>
    rename_i pref cur suff h _ _ _
    exact (ve_valid hc hsem cur (Array.mem_toList_iff.mp (by rw [h]; simp))).1
  case vc2 =>
    rename_i pref cur suff h _ _ _
    exact (ve_valid hc hsem cur (Array.mem_toList_iff.mp (by rw [h]; simp))).2
  case vc6 =>
    rename_i s h
    obtain ⟨h1, h2, h3, h4⟩ := h
    refine ⟨h1 ▸ hc.live, by rw [h1], ?_, h2, h3, h4⟩
    rw [h1]
    simp only [List.length_nil, Nat.add_zero]
    apply someCount_all
    intro k hk e
    have := hc.live k hk e
    simp at this
  case vc7 =>
    rename_i pref cur suff h _ _ _
    exact (se_valid hc hsem cur (Array.mem_toList_iff.mp (by rw [h]; simp))).1
  case vc8 =>
    rename_i pref cur suff h _ _ _
    exact (se_valid hc hsem cur (Array.mem_toList_iff.mp (by rw [h]; simp))).2
  case vc9 =>
    rename_i pref cur suff h _ s hs
    rw [filter_lt_eq_pref hok.ends_inc h]
    exact hs
  case vc10 =>
    rename_i pref cur suff h _ s1 hs1 _ s hs
    rw [filter_lt_eq_pref hok.ends_inc h] at hs
    refine ⟨someExcept_mono hs.live (by
      intro x hx
      rcases List.mem_cons.mp hx with h' | h'
      · simp [h']
      · simp [h']), hs.size, ?_, hs.act, hs.rule, hs.tol⟩
    have := hs.cnt
    simp only [List.length_cons, List.length_append, List.length_nil] at this ⊢
    omega
  case vc13 =>
    rename_i pref cur suff h _ _ _
    exact hok.split_lt cur (Array.mem_toList_iff.mp (by rw [h]; simp))
  case vc17 =>
    rename_i s h _
    refine ⟨someExcept_filter (D := []), ?_, by show s.active.size = _; rw [h.act], ?_, h.rule, h.tol⟩
    · show (Array.filter _ s.spans).size + _ = _
      rw [someCount_filter, ← hsem.se_count]
      have := h.cnt
      simp only [Array.length_toList] at this
      exact this
    · intro k; show (s.active[k]?).map sigOf = _; rw [h.act]
  case vc18 =>
    rename_i hm s h hlt e e'
    refine ⟨by simp [aboveResult, hm], h.live, h.size, by simp [h.asize], ?_, ?_, h.rule, h.tol⟩
    · intro k hk
      have hk' := hk hm
      rw [← h.sig k]
      show ((s.active.setIfInBounds scan.aboveStart _)[k]?).map sigOf = _
      rw [Array.getElem?_setIfInBounds]
      rw [if_neg (by intro e; exact hk' e.symm)]
    · intro _
      show ((s.active.setIfInBounds scan.aboveStart _)[scan.aboveStart]?).map sigOf = _
      rw [Array.getElem?_setIfInBounds]
      simp [hlt, sigOf]
      exact ⟨rfl, rfl⟩
  case vc19 =>
    rename_i hm s h hlt
    exact absurd (h.asize ▸ hok.merge_lt hm) hlt
  case vc20 =>
    rename_i hm s h
    refine ⟨by simp [aboveResult, hm], h.live, h.size, h.asize, fun k _ => h.sig k, fun h' => absurd h' hm, h.rule, h.tol⟩
  all_goals (intro _ h; exact h)

end Lyon.SweepCoh
