/-
  C13 over ℝ — helper lemmas for `Props/C13Real.lean`.

  `Props/C13.lean` instantiates the model's `Transc` at `ℝ` with Mathlib's `Real.sqrt / sin / cos /
  tan`, C's `fmod` (`x − trunc(x/m)·m`), `⌈·⌉` and `atan2(y, x) = Complex.arg (x + iy)`
  (`exampleTransc`), and proves the law bundles `exactTrig_real`, `sinSign_real`, `fmod_real_lt`,
  `cast_faithful_real`.  Here:

  * §1  `Complex.arg (x + iy)` IS the `atan2` of C / IEEE-754: the quadrant rules by `Real.arctan`
        (`atan2_real_quadrants`), its range `(-π, π]`, and `(cos, sin)(atan2 y x) = (x, y)/|(x,y)|`.
  * §2  the sweep angle computed by `Arc::from_svg_arc` over ℝ, for every non-degenerate input:
        `cos sweep = 1 − 2q`, `sin sweep = 2·coe·q` with `q = min(rf, 1)` the normalised squared half
        chord; hence `sweep ≠ 0` (`sweep_ne_zero_real`), `sweep = ±π` when the radii do not strictly
        span the chord (`sweep_half_turn_real`), and the closed form `|sweep| = arccos(1 − 2·rf)` resp.
        `2π − arccos(1 − 2·rf)` (`abs_sweep_real`).
  * §3  step counts of the Bézier conversions over ℝ (`nSteps_pos_real`, `nSteps_full_turn_real`,
        `step_bounds_real`).
  * §4  `SpansChord` / `rfWith` (`rfWith_le_one_of_spans`), range ends `tSeq_all_real`, points of an
        ellipse at angles differing by whole turns (`pointAt_eq_iff_real`).
-/
import LyonVerif.Props.C13

set_option linter.unusedSectionVars false
set_option linter.unusedVariables false
set_option linter.unusedSimpArgs false

namespace Lyon.C13
open Lyon Scalar ArcConv

/-! ## §0 the real instance, spelled out -/

theorem transc_cos_real (x : ℝ) : (Transc.cos x : ℝ) = Real.cos x := rfl
theorem transc_sin_real (x : ℝ) : (Transc.sin x : ℝ) = Real.sin x := rfl
theorem transc_tan_real (x : ℝ) : (Transc.tan x : ℝ) = Real.tan x := rfl
theorem transc_sqrt_real (x : ℝ) : (Transc.sqrt x : ℝ) = Real.sqrt x := rfl
theorem transc_pi_real : (Transc.pi : ℝ) = Real.pi := rfl
theorem transc_atan2_real (y x : ℝ) : (Transc.atan2 y x : ℝ) = Complex.arg ⟨x, y⟩ := rfl
theorem transc_ceil_real (x : ℝ) : (Transc.ceil x : ℝ) = ((⌈x⌉ : ℤ) : ℝ) := rfl
theorem transc_toNat_real (x : ℝ) : (Transc.toNat x : Nat) = ⌊x⌋.toNat := rfl

/-! ## §1 `atan2` -/

/-- `atan2(y, x)` of C / IEEE-754 on the reals, by quadrants, with `Real.arctan` -/
noncomputable def atan2Quadrant (y x : ℝ) : ℝ :=
  if 0 < x then Real.arctan (y / x)
  else if x < 0 then (if 0 ≤ y then Real.arctan (y / x) + Real.pi else Real.arctan (y / x) - Real.pi)
  else if 0 < y then Real.pi / 2
  else if y < 0 then -(Real.pi / 2)
  else 0

/-- **the `atan2` of the real instance follows the quadrant rules of libm's `atan2`**:
`x > 0`: `arctan(y/x)`; `x < 0`: `arctan(y/x) ± π` (sign of `y`, `+π` for `y = 0`);
`x = 0`: `±π/2` (sign of `y`), and `atan2(0, 0) = 0`. -/
theorem atan2_real_quadrants (y x : ℝ) : (Transc.atan2 y x : ℝ) = atan2Quadrant y x := by
  have hpi := Real.pi_pos
  rw [transc_atan2_real]
  unfold atan2Quadrant
  set z : ℂ := ⟨x, y⟩ with hz
  have hre : z.re = x := rfl
  have him : z.im = y := rfl
  have htan : Real.tan z.arg = y / x := by rw [Complex.tan_arg]
  by_cases hx : 0 < x
  · rw [if_pos hx]
    have h := Complex.abs_arg_lt_pi_div_two_iff.mpr (Or.inl (by rw [hre]; exact hx) : 0 < z.re ∨ z = 0)
    rw [abs_lt] at h
    rw [← htan, Real.arctan_tan h.1 h.2]
  · rw [if_neg hx]
    by_cases hx' : x < 0
    · rw [if_pos hx']
      by_cases hy : 0 ≤ y
      · rw [if_pos hy]
        have h1 : ¬ z.arg ≤ Real.pi / 2 := by
          rw [Complex.arg_le_pi_div_two_iff, hre, him]
          rw [not_or, not_le, not_lt]; exact ⟨hx', hy⟩
        have h2 := Complex.arg_le_pi z
        rw [← htan, ← Real.tan_sub_pi, Real.arctan_tan (by linarith) (by linarith)]
        ring
      · rw [if_neg hy]
        have h1 : ¬ -(Real.pi / 2) ≤ z.arg := by
          rw [Complex.neg_pi_div_two_le_arg_iff, hre, him]
          rw [not_or, not_le, not_le]; exact ⟨hx', not_le.mp hy⟩
        have h2 := Complex.neg_pi_lt_arg z
        rw [← htan, ← Real.tan_add_pi, Real.arctan_tan (by linarith) (by linarith)]
        ring
    · rw [if_neg hx']
      have hx0 : x = 0 := le_antisymm (not_lt.mp hx) (not_lt.mp hx')
      by_cases hy : 0 < y
      · rw [if_pos hy]
        exact Complex.arg_eq_pi_div_two_iff.mpr ⟨by rw [hre]; exact hx0, by rw [him]; exact hy⟩
      · rw [if_neg hy]
        by_cases hy' : y < 0
        · rw [if_pos hy']
          exact Complex.arg_eq_neg_pi_div_two_iff.mpr ⟨by rw [hre]; exact hx0, by rw [him]; exact hy'⟩
        · rw [if_neg hy']
          have hy0 : y = 0 := le_antisymm (not_lt.mp hy) (not_lt.mp hy')
          have : z = 0 := Complex.ext (by rw [hre, hx0]; rfl) (by rw [him, hy0]; rfl)
          rw [this, Complex.arg_zero]

/-- range of `atan2`: `(-π, π]` -/
theorem atan2_real_range (y x : ℝ) :
    -Real.pi < (Transc.atan2 y x : ℝ) ∧ (Transc.atan2 y x : ℝ) ≤ Real.pi :=
  ⟨Complex.neg_pi_lt_arg _, Complex.arg_le_pi _⟩

/-- `atan2(y, x)` is the polar angle of `(x, y)`: for `(x, y) ≠ (0, 0)`,
`(cos, sin)(atan2(y, x)) = (x, y) / √(x² + y²)` -/
theorem atan2_real_polar (y x : ℝ) (h : x ≠ 0 ∨ y ≠ 0) :
    Real.cos (Transc.atan2 y x : ℝ) = x / Real.sqrt (x * x + y * y)
    ∧ Real.sin (Transc.atan2 y x : ℝ) = y / Real.sqrt (x * x + y * y) := by
  rw [transc_atan2_real]
  have hz : (⟨x, y⟩ : ℂ) ≠ 0 := by
    intro h0
    have h1 := congrArg Complex.re h0
    have h2 := congrArg Complex.im h0
    simp only [Complex.zero_re, Complex.zero_im] at h1 h2
    rcases h with h | h
    · exact h h1
    · exact h h2
  have hn : ‖(⟨x, y⟩ : ℂ)‖ = Real.sqrt (x * x + y * y) := by
    rw [Complex.norm_def, Complex.normSq_apply]
  rw [Complex.cos_arg hz, Complex.sin_arg, hn]
  exact ⟨rfl, rfl⟩

/-! ## §2 the sweep angle of `from_svg_arc` over ℝ -/

/-- the normalised squared half chord `(p.x/rx)² + (p.y/ry)²` with the (scaled) radii: `min(rf, 1)` -/
noncomputable def qOf (a : SvgArc ℝ) : ℝ :=
  (pt a).x / rx a * ((pt a).x / rx a) + (pt a).y / ry a * ((pt a).y / ry a)

section sweep
variable (a : SvgArc ℝ) (hrx : a.radii.x ≠ 0) (hry : a.radii.y ≠ 0) (hne : a.from_ ≠ a.to)
include hrx hry hne

theorem qOf_bounds : 0 < qOf a ∧ qOf a ≤ 1 ∧ (1 < rf a → qOf a = 1) ∧ (rf a ≤ 1 → qOf a = rf a) := by
  obtain ⟨h0, h1, h2⟩ := q_bounds exactTrig_real a hrx hry hne
  exact ⟨h0, h1, h2, fun h => q_eq_rf exactTrig_real a hrx hry hne (not_lt.mpr h)⟩

/-- `q = min(rf, 1)` -/
theorem qOf_eq_min : qOf a = Min.min (rf a) 1 := by
  obtain ⟨_, _, h2, h3⟩ := qOf_bounds a hrx hry hne
  rcases le_or_gt (rf a) 1 with h | h
  · rw [h3 h, min_eq_left h]
  · rw [h2 h, min_eq_right (le_of_lt h)]

/-- the sweep is the difference of the two polar angles up to whole turns -/
theorem sweep_shift_real :
    ∃ m : ℤ, (fromSvgArc a).sweep = (exactAngle (endV a) - exactAngle (startV a)) + (m : ℝ) * (2 * Real.pi) := by
  obtain ⟨k, hk⟩ := exactTrig_real.fmod_shift (exactAngle (endV a) - exactAngle (startV a))
  obtain ⟨j, hj⟩ := adjust_shift exactTrig_real a hrx hry hne a.sweep
    (Transc.fmod (exactAngle (endV a) - exactAngle (startV a)) twoPi)
  refine ⟨k + j, ?_⟩
  show adjustSweep a.sweep (Transc.fmod (exactAngle (endV a) - exactAngle (startV a)) twoPi) = _
  rw [hj, hk, twoPi_real]; push_cast; ring

/-- `cos(sweep) = start_v · end_v = 1 − 2q` -/
theorem cos_sweep_real : Real.cos (fromSvgArc a).sweep = 1 - 2 * qOf a := by
  obtain ⟨hrxp, hryp⟩ := rx_ry_pos exactTrig_real a hrx hry hne
  obtain ⟨hsU, heU⟩ := startV_endV_unit exactTrig_real a hrx hry hne
  have hk := coe_sq exactTrig_real a hrx hry hne
  have h1 : rx a ≠ 0 := ne_of_gt hrxp
  have h2 : ry a ≠ 0 := ne_of_gt hryp
  obtain ⟨hcS, hsS⟩ := exactTrig_real.angle_exact _ hsU
  obtain ⟨hcE, hsE⟩ := exactTrig_real.angle_exact _ heU
  rw [transc_cos_real] at hcS hcE
  rw [transc_sin_real] at hsS hsE
  obtain ⟨m, hm⟩ := sweep_shift_real a hrx hry hne
  have sx : (startV a).x = (pt a).x / rx a - coe a * ((pt a).y / ry a) := by
    simp only [startV, tcx, rxpy]; field_simp
  have sy : (startV a).y = (pt a).y / ry a + coe a * ((pt a).x / rx a) := by
    simp only [startV, tcy, rypx]; field_simp; ring
  have ex : (endV a).x = -((pt a).x / rx a) - coe a * ((pt a).y / ry a) := by
    simp only [endV, tcx, rxpy]; field_simp
  have ey : (endV a).y = -((pt a).y / ry a) + coe a * ((pt a).x / rx a) := by
    simp only [endV, tcy, rypx]; field_simp; ring
  rw [hm, Real.cos_add_int_mul_two_pi, Real.cos_sub, hcS, hsS, hcE, hsE, sx, sy, ex, ey]
  unfold qOf
  linear_combination hk

/-- `sin(sweep) = start_v × end_v = 2·coe·q` -/
theorem sin_sweep_real : Real.sin (fromSvgArc a).sweep = 2 * coe a * qOf a :=
  sin_sweep exactTrig_real a hrx hry hne sinSign_real

/-- range of the sweep by the sweep flag -/
theorem sweep_range_real :
    (a.sweep = true → 0 ≤ (fromSvgArc a).sweep ∧ (fromSvgArc a).sweep < 2 * Real.pi)
    ∧ (a.sweep = false → -(2 * Real.pi) < (fromSvgArc a).sweep ∧ (fromSvgArc a).sweep ≤ 0) := by
  obtain ⟨h1, h2, _⟩ := svg_arc_sweep_sign exactAngle a fmod_real_lt
  rw [twoPi_real] at h1 h2
  exact ⟨h1, h2⟩

/-- **the sweep of a non-degenerate SVG arc is never zero** (the two polar angles differ because
`from ≠ to`) -/
theorem sweep_ne_zero_real : (fromSvgArc a).sweep ≠ 0 := by
  intro h0
  have hc := cos_sweep_real a hrx hry hne
  rw [h0, Real.cos_zero] at hc
  have := (qOf_bounds a hrx hry hne).1
  linarith

/-- strict version of the range: `0 < sweep < 2π` with the sweep flag, `-2π < sweep < 0` without -/
theorem sweep_range_strict_real :
    (a.sweep = true → 0 < (fromSvgArc a).sweep ∧ (fromSvgArc a).sweep < 2 * Real.pi)
    ∧ (a.sweep = false → -(2 * Real.pi) < (fromSvgArc a).sweep ∧ (fromSvgArc a).sweep < 0) := by
  obtain ⟨h1, h2⟩ := sweep_range_real a hrx hry hne
  have hne0 := sweep_ne_zero_real a hrx hry hne
  exact ⟨fun h => ⟨lt_of_le_of_ne (h1 h).1 (Ne.symm hne0), (h1 h).2⟩,
    fun h => ⟨(h2 h).1, lt_of_le_of_ne (h2 h).2 hne0⟩⟩

/-- **half turn when the radii do not strictly span the chord** (`rf ≥ 1`, incl. every case in which
the radii are scaled up): the sweep is exactly `π` with the sweep flag and `−π` without -/
theorem sweep_half_turn_real (h : 1 ≤ rf a) :
    (fromSvgArc a).sweep = if a.sweep = true then Real.pi else -Real.pi := by
  have hpi := Real.pi_pos
  have hq : qOf a = 1 := by
    rw [qOf_eq_min a hrx hry hne]; exact min_eq_right h
  have hc := cos_sweep_real a hrx hry hne
  rw [hq] at hc
  obtain ⟨h1, h2⟩ := sweep_range_real a hrx hry hne
  set s := (fromSvgArc a).sweep with hs
  cases hf : a.sweep
  · simp only [Bool.false_eq_true, if_false]
    obtain ⟨l, u⟩ := h2 hf
    -- cos (s + π) = 1 with s + π ∈ (-π, π]
    have hc' : Real.cos (s + Real.pi) = 1 := by rw [Real.cos_add_pi, hc]; norm_num
    have := (Real.cos_eq_one_iff_of_lt_of_lt (x := s + Real.pi) (by linarith) (by linarith)).mp hc'
    linarith
  · simp only [if_true]
    obtain ⟨l, u⟩ := h1 hf
    have hc' : Real.cos (s - Real.pi) = 1 := by rw [Real.cos_sub_pi, hc]; norm_num
    have := (Real.cos_eq_one_iff_of_lt_of_lt (x := s - Real.pi) (by linarith) (by linarith)).mp hc'
    linarith

/-- **`|sweep| ≥ π` iff the large-arc flag**, when the radii strictly span the chord -/
theorem large_iff_real (hq : rf a < 1) : (Real.pi ≤ |(fromSvgArc a).sweep| ↔ a.large = true) := by
  have h := svg_arc_large_flag exactTrig_real a hrx hry hne sinSign_real fmod_real_lt hq
  have e : (toSvgArc (fromSvgArcWith exactAngle a)).large
      = decide (Real.pi ≤ |(fromSvgArc a).sweep|) := by
    show decide (Scalar.abs (fromSvgArc a).sweep ≥ Transc.pi) = _
    simp only [sc_abs, ge_iff_le, transc_pi_real]
  rw [e] at h
  rw [← h]
  simp

/-- **closed form of the sweep's size**: with `rf < 1`, `|sweep| = arccos(1 − 2·rf)` for the small
arc and `2π − arccos(1 − 2·rf)` for the large one (`rf` = squared half chord in the unit-circle
frame of the ellipse: `arccos(1 − 2 sin²(θ/2)) = θ`) -/
theorem abs_sweep_real (hq : rf a < 1) :
    |(fromSvgArc a).sweep| =
      if a.large = true then 2 * Real.pi - Real.arccos (1 - 2 * rf a) else Real.arccos (1 - 2 * rf a) := by
  have hpi := Real.pi_pos
  have hc := cos_sweep_real a hrx hry hne
  rw [(qOf_bounds a hrx hry hne).2.2.2 (le_of_lt hq)] at hc
  have hl := large_iff_real a hrx hry hne hq
  obtain ⟨h1, h2⟩ := sweep_range_real a hrx hry hne
  set s := (fromSvgArc a).sweep with hs
  have habs : 0 ≤ |s| ∧ |s| < 2 * Real.pi := by
    refine ⟨abs_nonneg _, ?_⟩
    cases hf : a.sweep
    · obtain ⟨l, u⟩ := h2 hf; rw [abs_of_nonpos u]; linarith
    · obtain ⟨l, u⟩ := h1 hf; rw [abs_of_nonneg l]; exact u
  rw [← Real.cos_abs] at hc
  cases hL : a.large
  · simp only [Bool.false_eq_true, if_false]
    have : ¬ Real.pi ≤ |s| := by rw [hl, hL]; simp
    rw [← hc, Real.arccos_cos habs.1 (by linarith)]
  · simp only [if_true]
    have : Real.pi ≤ |s| := hl.mpr hL
    rw [← hc, ← Real.cos_two_pi_sub, Real.arccos_cos (by linarith) (by linarith)]
    ring

end sweep

/-! ## §3 step counts over ℝ -/

theorem effSweep_real (arc : Arc ℝ) : effSweep arc = Min.min |arc.sweep| (Real.pi * 2) := by
  simp only [effSweep, geom, Nat.cast_ofNat]; rfl

theorem nStepsQ_real (arc : Arc ℝ) : nStepsQ arc = ((⌈effSweep arc / (Real.pi / 4)⌉ : ℤ) : ℝ) := by
  simp only [nStepsQ, fracPi4, geom, Nat.cast_ofNat]; rfl

theorem nStepsC_real (arc : Arc ℝ) : nStepsC arc = ((⌈effSweep arc / (Real.pi / 2)⌉ : ℤ) : ℝ) := by
  simp only [nStepsC, fracPi2, geom, Nat.cast_ofNat]; rfl

theorem effSweep_nonneg_real (arc : Arc ℝ) : 0 ≤ effSweep arc := by
  rw [effSweep_real]; exact le_min (abs_nonneg _) (by have := Real.pi_pos; positivity)

/-- `n_steps ≥ sweep_angle / (π/4)` resp. `/(π/2)`: the law of `ceil` -/
theorem ceil_law_real (arc : Arc ℝ) :
    effSweep arc / fracPi4 ≤ nStepsQ arc ∧ effSweep arc / fracPi2 ≤ nStepsC arc := by
  constructor
  · show effSweep arc / fracPi4 ≤ ((⌈effSweep arc / fracPi4⌉ : ℤ) : ℝ)
    exact Int.le_ceil _
  · show effSweep arc / fracPi2 ≤ ((⌈effSweep arc / fracPi2⌉ : ℤ) : ℝ)
    exact Int.le_ceil _

/-- an arc with a non-zero sweep gets at least one quadratic and one cubic -/
theorem nSteps_pos_real (arc : Arc ℝ) (h : arc.sweep ≠ 0) :
    0 < nStepsQ arc ∧ 0 < nStepsC arc ∧ 0 < nQ arc ∧ 0 < nC arc := by
  have hpi := Real.pi_pos
  have he : 0 < effSweep arc := by
    rw [effSweep_real]; exact lt_min (abs_pos.mpr h) (by positivity)
  have hq : 0 < nStepsQ arc := by
    rw [nStepsQ_real]
    have : (0 : ℤ) < ⌈effSweep arc / (Real.pi / 4)⌉ := Int.ceil_pos.mpr (by positivity)
    exact_mod_cast this
  have hc : 0 < nStepsC arc := by
    rw [nStepsC_real]
    have : (0 : ℤ) < ⌈effSweep arc / (Real.pi / 2)⌉ := Int.ceil_pos.mpr (by positivity)
    exact_mod_cast this
  obtain ⟨c1, c2⟩ := cast_faithful_real arc
  refine ⟨hq, hc, ?_, ?_⟩
  · have : (0 : ℝ) < (nQ arc : ℝ) := by rw [c1]; exact hq
    exact_mod_cast this
  · have : (0 : ℝ) < (nC arc : ℝ) := by rw [c2]; exact hc
    exact_mod_cast this

/-- an arc with zero sweep gets no piece at all -/
theorem nSteps_zero_real (arc : Arc ℝ) (h : arc.sweep = 0) : nQ arc = 0 ∧ nC arc = 0 := by
  have he : effSweep arc = 0 := by
    rw [effSweep_real, h, abs_zero]; exact min_eq_left (by have := Real.pi_pos; positivity)
  obtain ⟨c1, c2⟩ := cast_faithful_real arc
  rw [nStepsQ_real, he, zero_div, Int.ceil_zero] at c1
  rw [nStepsC_real, he, zero_div, Int.ceil_zero] at c2
  exact ⟨by exact_mod_cast c1, by exact_mod_cast c2⟩

/-- at and beyond a full turn: exactly 8 quadratics and 4 cubics -/
theorem nSteps_full_turn_real (arc : Arc ℝ) (h : Real.pi * 2 ≤ |arc.sweep|) :
    effSweep arc = Real.pi * 2 ∧ nStepsQ arc = 8 ∧ nStepsC arc = 4 ∧ nQ arc = 8 ∧ nC arc = 4 := by
  have hpi := Real.pi_pos
  have he : effSweep arc = Real.pi * 2 := by rw [effSweep_real]; exact min_eq_right h
  have hq : nStepsQ arc = 8 := by
    rw [nStepsQ_real, he, show Real.pi * 2 / (Real.pi / 4) = ((8 : ℤ) : ℝ) by field_simp; norm_num,
      Int.ceil_intCast]
    norm_num
  have hc : nStepsC arc = 4 := by
    rw [nStepsC_real, he, show Real.pi * 2 / (Real.pi / 2) = ((4 : ℤ) : ℝ) by field_simp; norm_num,
      Int.ceil_intCast]
    norm_num
  obtain ⟨c1, c2⟩ := cast_faithful_real arc
  rw [hq] at c1
  rw [hc] at c2
  exact ⟨he, hq, hc, by exact_mod_cast c1, by exact_mod_cast c2⟩

/-- lyon's step never exceeds 45° (quadratics) resp. 90° (cubics), for every real arc -/
theorem step_bounds_real (arc : Arc ℝ) :
    |stepQ arc| ≤ Real.pi / 4 ∧ |stepC arc| ≤ Real.pi / 2 := by
  have hpi := Real.pi_pos
  have hsg : |signum arc.sweep| = (1 : ℝ) := by
    unfold signum; simp only [sc_zero, sc_one]; split_ifs <;> simp
  have he := effSweep_nonneg_real arc
  obtain ⟨l1, l2⟩ := ceil_law_real arc
  have h4 : (fracPi4 : ℝ) = Real.pi / 4 := by simp only [fracPi4, geom, Nat.cast_ofNat]; rfl
  have h2 : (fracPi2 : ℝ) = Real.pi / 2 := by simp only [fracPi2, geom, Nat.cast_ofNat]; rfl
  rw [h4] at l1
  rw [h2] at l2
  by_cases h0 : arc.sweep = 0
  · have e0 : effSweep arc = 0 := by
      rw [effSweep_real, h0, abs_zero]; exact min_eq_left (by positivity)
    simp only [stepQ, stepC, stepOf, e0, zero_div, zero_mul, abs_zero]
    constructor <;> positivity
  · obtain ⟨hq, hc, _, _⟩ := nSteps_pos_real arc h0
    constructor
    · simp only [stepQ, stepOf]
      rw [abs_mul, hsg, mul_one, abs_of_nonneg (div_nonneg he (le_of_lt hq)), div_le_iff₀ hq]
      rw [div_le_iff₀ (by positivity)] at l1
      linarith
    · simp only [stepC, stepOf]
      rw [abs_mul, hsg, mul_one, abs_of_nonneg (div_nonneg he (le_of_lt hc)), div_le_iff₀ hc]
      rw [div_le_iff₀ (by positivity)] at l2
      linarith

/-! ## §4 what `rf ≤ 1` means; whole turns -/

/-- an ellipse with radii `(r1, r2)` (non-zero), x-rotation `φ` and SOME centre passes through both
`p` and `q` -/
def SpansChord (r1 r2 φ : ℝ) (p q : P ℝ) : Prop :=
  ∃ (c : P ℝ) (θ1 θ2 : ℝ), p = c + Arc.sampleEllipse ⟨r1, r2⟩ φ θ1 ∧ q = c + Arc.sampleEllipse ⟨r1, r2⟩ φ θ2

/-- the quantity of F.6.6.2 for arbitrary radii: `(p.x/r1)² + (p.y/r2)²` with `p` the half chord in
the ellipse frame; `rf a = rfWith a |rx| |ry|` -/
noncomputable def rfWith (a : SvgArc ℝ) (r1 r2 : ℝ) : ℝ :=
  (pt a).x * (pt a).x / (r1 * r1) + (pt a).y * (pt a).y / (r2 * r2)

theorem rf_eq_rfWith (a : SvgArc ℝ) : rf a = rfWith a |a.radii.x| |a.radii.y| := by
  simp only [rf, rfWith, rx0, ry0, sc_abs]

theorem cos_sin_xr_real (a : SvgArc ℝ) : cosPhi a = Real.cos a.xrot ∧ sinPhi a = Real.sin a.xrot := by
  obtain ⟨k, hk⟩ := exactTrig_real.fmod_shift a.xrot
  have hper := exactTrig_real.periodic a.xrot k
  constructor
  · show Transc.cos (Transc.fmod a.xrot twoPi) = Transc.cos a.xrot
    rw [hk]; exact hper.1
  · show Transc.sin (Transc.fmod a.xrot twoPi) = Transc.sin a.xrot
    rw [hk]; exact hper.2

/-- if some ellipse with radii `r1, r2` and the arc's rotation passes through both end points then
`rfWith ≤ 1` (a half chord of the unit circle has length at most 1) -/
theorem rfWith_le_one_of_spans (a : SvgArc ℝ) (r1 r2 : ℝ) (h1 : r1 ≠ 0) (h2 : r2 ≠ 0)
    (h : SpansChord r1 r2 a.xrot a.from_ a.to) : rfWith a r1 r2 ≤ 1 := by
  obtain ⟨c, θ1, θ2, hp, hq⟩ := h
  obtain ⟨hc, hs⟩ := cos_sin_xr_real a
  have hφ := Real.cos_sq_add_sin_sq a.xrot
  have hpx := congrArg P.x hp
  have hpy := congrArg P.y hp
  have hqx := congrArg P.x hq
  have hqy := congrArg P.y hq
  simp only [Arc.sampleEllipse, Arc.rotate, P.add_def, transc_cos_real, transc_sin_real] at hpx hpy hqx hqy
  have hx : (pt a).x = r1 * (Real.cos θ1 - Real.cos θ2) / 2 := by
    simp only [pt, hd, hc, hs, hpx, hpy, hqx, hqy, geom, Nat.cast_ofNat]
    linear_combination (r1 * (Real.cos θ1 - Real.cos θ2) / 2) * hφ
  have hy : (pt a).y = r2 * (Real.sin θ1 - Real.sin θ2) / 2 := by
    simp only [pt, hd, hc, hs, hpx, hpy, hqx, hqy, geom, Nat.cast_ofNat]
    linear_combination (r2 * (Real.sin θ1 - Real.sin θ2) / 2) * hφ
  have e : rfWith a r1 r2 = ((Real.cos θ1 - Real.cos θ2) ^ 2 + (Real.sin θ1 - Real.sin θ2) ^ 2) / 4 := by
    simp only [rfWith, hx, hy]
    field_simp
    ring
  rw [e]
  nlinarith [Real.cos_sq_add_sin_sq θ1, Real.cos_sq_add_sin_sq θ2,
    sq_nonneg (Real.cos θ1 + Real.cos θ2), sq_nonneg (Real.sin θ1 + Real.sin θ2)]

theorem tSeq_all_real (arc : Arc ℝ) (j : Nat) (hj : j ≤ nQ arc) (hn : 0 < nQ arc) :
    tSeq (nQ arc) (dtQ arc) j = (j : ℝ) / (nQ arc : ℝ) := by
  have hc := (cast_faithful_real arc).1
  have hnpos : (0 : ℝ) < (nQ arc : ℝ) := by exact_mod_cast hn
  rcases lt_or_eq_of_le hj with h | h
  · rw [tSeq_lt _ _ j h, dtQ_eq, ← hc]; ring
  · rw [h, tSeq_last _ _ hn, div_self (ne_of_gt hnpos)]

/-- `arc.sample` at whole turns from the start angle -/
theorem pointAt_add_turn_real (arc : Arc ℝ) (θ : ℝ) (k : ℤ) :
    pointAt arc (θ + k * (2 * Real.pi)) = pointAt arc θ := by
  simp only [pointAt, Arc.sampleEllipse, transc_cos_real, transc_sin_real,
    Real.cos_add_int_mul_two_pi, Real.sin_add_int_mul_two_pi]

/-- two points of a non-degenerate ellipse coincide iff their angles differ by whole turns -/
theorem pointAt_eq_iff_real (arc : Arc ℝ) (h1 : arc.radii.x ≠ 0) (h2 : arc.radii.y ≠ 0) (θ ψ : ℝ) :
    pointAt arc θ = pointAt arc ψ ↔ ∃ k : ℤ, θ - ψ = 2 * Real.pi * k := by
  constructor
  · intro h
    have hx := congrArg P.x h
    have hy := congrArg P.y h
    simp only [pointAt, Arc.sampleEllipse, Arc.rotate, geom, transc_cos_real, transc_sin_real] at hx hy
    have hφ := Real.cos_sq_add_sin_sq arc.xrot
    have ec : arc.radii.x * (Real.cos θ - Real.cos ψ) = 0 := by
      linear_combination (Real.cos arc.xrot) * hx + (Real.sin arc.xrot) * hy
        - (arc.radii.x * (Real.cos θ - Real.cos ψ)) * hφ
    have es : arc.radii.y * (Real.sin θ - Real.sin ψ) = 0 := by
      linear_combination (Real.cos arc.xrot) * hy - (Real.sin arc.xrot) * hx
        - (arc.radii.y * (Real.sin θ - Real.sin ψ)) * hφ
    have hc : Real.cos θ = Real.cos ψ := by
      rcases mul_eq_zero.mp ec with h | h
      · exact absurd h h1
      · linarith
    have hs : Real.sin θ = Real.sin ψ := by
      rcases mul_eq_zero.mp es with h | h
      · exact absurd h h2
      · linarith
    exact Real.Angle.angle_eq_iff_two_pi_dvd_sub.mp (Real.Angle.cos_sin_inj hc hs)
  · rintro ⟨k, hk⟩
    have : θ = ψ + k * (2 * Real.pi) := by linarith
    rw [this, pointAt_add_turn_real]

end Lyon.C13
