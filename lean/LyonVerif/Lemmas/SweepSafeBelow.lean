/-
  NO-PANIC, part 3: `process_edges_below` (`sort_edges_below`, `merge_coincident_edges`,
  `handle_coincident_edges_below`, `split_event`).

  * the indices into `edges_below` used by `handle_coincident_edges_below` /
    `merge_coincident_edges` are always in range (the list shrinks by at most one per merge while
    the index goes down by one): `mBelowIdx` is unreachable, for every scalar type;
  * `above_start - 1` of the split event cannot underflow (`ScanOk.split_pos`): `mSub` is
    unreachable in `process_edges_below`;
  * what remains reachable as far as these lemmas go: the span indices handed to `begin_span` /
    `spans[..]` (`mSpanIns`, `mSpanIdx`) and the right neighbour of a split vertex (`mEdgeIdx`).
-/
import LyonVerif.Lemmas.SweepSafeSpans

set_option linter.unusedSectionVars false
set_option linter.unusedVariables false
set_option linter.unusedSimpArgs false
set_option mvcgen.warning false

namespace Lyon.SweepSafe
open Lyon Lyon.Scalar Lyon.Mono Lyon.Sweep Lyon.EQ
open Std.Do

variable {α : Type} [Scalar α] [Wide α]
variable {tol : α} {n : Nat} {A : List String}

/-- `Core` with every span live, and at least `c` pending edges -/
def CoreB (tol : α) (n c : Nat) (s : St α) : Prop := Core tol n [] s ∧ c ≤ s.below.size

theorem sortEdgesBelow_safe :
    ⦃fun s => ⌜Core tol n [] s⌝⦄ (sortEdgesBelow : SM α Unit) ⦃safePost A fun _ s => Core tol n [] s⦄ := by
  unfold sortEdgesBelow
  strip_mdata
  mvcgen
  all_goals first
    | exact allowed_unmodelled _
    | (rename_i s h _ _ _; exact h.frame rfl rfl rfl)

theorem size_erase_ge {γ : Type} (a : Array γ) (i : Nat) : a.size - 1 ≤ (a.eraseIdxIfInBounds i).size := by
  unfold Array.eraseIdxIfInBounds
  split
  · simp [Array.size_eraseIdx]
  · omega

theorem mergeCoincidentEdges_safe (a b : Nat) (hab : a < b) :
    ⦃fun s => ⌜CoreB tol n (b + 1) s⌝⦄ (mergeCoincidentEdges a b : SM α Unit)
    ⦃safePost A fun _ s => CoreB tol n b s⦄ := by
  unfold mergeCoincidentEdges
  mvcgen
  case vc3 =>
    rename_i s h x4 x3 hx hb ha
    exfalso
    have hb' : b < s.below.size := h.2
    have ha' : a < s.below.size := by omega
    exact hx s.below[a] s.below[b] (by rw [← ha]; simp [ha']) (by rw [← hb]; simp [hb'])
  all_goals
    have h := ‹CoreB tol n (b + 1) _›
    refine ⟨h.1.frame rfl rfl rfl, ?_⟩
    refine Nat.le_trans ?_ (size_erase_ge _ _)
    have := h.2
    show b ≤ (Array.setIfInBounds _ _ _).size - 1
    rw [Array.size_setIfInBounds]
    omega


theorem range_split {m : Nat} {p q : List Nat} {c : Nat} (h : [:m].toList = p ++ c :: q) :
    c = p.length ∧ m = p.length + 1 + q.length := by
  simp only [Std.Legacy.Range.toList, Nat.sub_zero, Nat.add_sub_cancel, Nat.div_one] at h
  have h1 := congrArg List.length h
  simp at h1
  have h2 := congrArg (fun l => l[p.length]?) h
  simp at h2
  rw [List.getElem?_range' (by omega)] at h2
  simp at h2
  omega

theorem range_length (m : Nat) : [:m].toList.length = m := by
  simp [Std.Legacy.Range.toList]

theorem CoreB.le {c c' : Nat} {s : St α} (h : CoreB tol n c s) (hc : c' ≤ c) : CoreB tol n c' s :=
  ⟨h.1, Nat.le_trans hc h.2⟩

theorem handleCoincidentEdgesBelow_safe :
    ⦃fun s => ⌜Core tol n [] s⌝⦄ (handleCoincidentEdgesBelow : SM α Unit)
    ⦃safePost A fun _ s => Core tol n [] s⦄ := by
  unfold handleCoincidentEdgesBelow
  have h1 := fun (a b : Nat) (hab : a < b) =>
    mergeCoincidentEdges_safe (α := α) (tol := tol) (n := n) (A := A) a b hab
  mvcgen [h1] invariants
  · post⟨fun r s => ⌜CoreB tol n (r.1.suffix.length + 1) s⌝, fun f _ => ⌜Allowed A f⌝⟩
  with skip
  case vc2 => omega
  case vc3 =>
    rename_i s0 _ m hm pref cur suff hr _ idx s h a b _ _ _ _ _ _ _ _ _ _ _ _ _
    have := range_split hr
    refine h.le ?_
    simp only [List.length_cons]
    show m - 2 - cur + 1 + 1 ≤ _
    omega
  case vc4 =>
    rename_i s0 _ m hm pref cur suff hr _ idx s1 _ a b _ _ _ _ _ _ _ _ _ _ _ _ _ _ s h
    have := range_split hr
    refine h.le ?_
    show _ ≤ m - 2 - cur + 1
    omega
  case vc6 =>
    refine CoreB.le (by assumption) ?_
    simp
  case vc7 =>
    rename_i s0 _ m hm pref cur suff hr _ idx s h x4 x3 hx hb ha
    exfalso
    have hr' := range_split hr
    have hsz := h.2
    simp only [List.length_cons] at hsz
    have e : idx = m - 2 - cur := rfl
    have hb' : idx + 1 < s.below.size := by omega
    have ha' : idx < s.below.size := by omega
    exact hx s.below[idx] s.below[idx + 1] (by rw [← ha]; simp [ha']) (by rw [← hb]; simp [hb'])
  case vc8 =>
    rename_i s h m hm
    refine ⟨h, ?_⟩
    rw [range_length]
    show m - 1 + 1 ≤ m
    omega
  case vc9 => exact (‹CoreB tol n _ _›).1
  all_goals first | (intro _ h; exact h) | assumption

/-- `split_event`: the reachable failures are the right neighbour of the split vertex and the span
indices -/
theorem splitEvent_safe (h1A : mEdgeIdx ∈ A) (h2A : mSpanIdx ∈ A) (h3A : mSpanIns ∈ A) (leftEdge : Nat)
    (leftSpan : Int) :
    ⦃fun s => ⌜Core tol n [] s⌝⦄ (splitEvent leftEdge leftSpan : SM α Unit)
    ⦃safePost A fun _ s => Core tol n [] s⦄ := by
  unfold splitEvent
  have h1 := spanVertex_safe (α := α) (tol := tol) (n := n) (A := A) h2A []
  have h2 := beginSpan_safe (α := α) (tol := tol) (n := n) (A := A) h3A
  mvcgen [h1, h2]
  all_goals first
    | exact allowed_panic h1A
    | exact ⟨by assumption, by simp⟩
    | assumption

/-- `process_edges_below` after a successful scan: `above_start - 1` does not underflow -/
theorem processEdgesBelow_safe (h1A : mEdgeIdx ∈ A) (h2A : mSpanIdx ∈ A) (h3A : mSpanIns ∈ A) (scan : Scan)
    (hsplit : scan.splitEvent = true → 1 ≤ scan.aboveStart) :
    ⦃fun s => ⌜Core tol n [] s⌝⦄ (processEdgesBelow scan : SM α Unit)
    ⦃safePost A fun _ s => Core tol n [] s⦄ := by
  unfold processEdgesBelow
  have h1 := sortEdgesBelow_safe (α := α) (tol := tol) (n := n) (A := A)
  have h2 := handleCoincidentEdgesBelow_safe (α := α) (tol := tol) (n := n) (A := A)
  have h3 := splitEvent_safe (α := α) (tol := tol) (n := n) (A := A) h1A h2A h3A
  have h4 := beginSpan_safe (α := α) (tol := tol) (n := n) (A := A) h3A
  mvcgen [h1, h2, h3, h4] invariants
  · post⟨fun _ s => ⌜Core tol n [] s⌝, fun f _ => ⌜Allowed A f⌝⟩
  · post⟨fun _ s => ⌜Core tol n [] s⌝, fun f _ => ⌜Allowed A f⌝⟩
  with skip
  all_goals first
    | (intro _ h; exact h)
    | (exfalso
       have h0 : (scan.aboveStart == 0) = true := by assumption
       have := hsplit (by assumption)
       simp at h0
       omega)

end Lyon.SweepSafe
