/-
  Field-side lemmas for the fat-line clip of `Model/Geom/Clip.lean` (helper lemmas only; the
  property's theorems are in `Props/C12c.lean`):
  * cubic Bernstein form of the distance function, and "a line above the four control points
    `(i/3, d_i)` is above the polynomial on [0,1]" (the convex-hull property, proved);
  * the hull walk: walking the upper chain from the left until the threshold is reached never
    skips a parameter where the polynomial is ≥ the threshold; mirror (right-to-left walk on the
    reversed chains) and negation (lower chain) symmetries of the walk;
  * every chain produced by `convexHull` consists of edges whose lines bound the four control
    points (from above for `top`, from below for `bottom`), in all shapes, flipped or not.
-/
import LyonVerif.Model.Geom.Clip
import LyonVerif.Lemmas.IxField
import Mathlib.Data.List.Chain
import Mathlib.Tactic.Positivity

set_option linter.unusedSectionVars false
set_option linter.unusedVariables false
set_option linter.unusedSimpArgs false

namespace Lyon.Clip
open Lyon Scalar
variable {K : Type} [Field K] [LinearOrder K] [IsStrictOrderedRing K]

/-- `S::value` literals on the field side: the exact decimal value -/
noncomputable instance fieldLit : F32Lit K where
  lit m e := (m : K) / (10 : K) ^ e

/-- cubic Bernstein polynomial with coefficients `d0 … d3` -/
def bern (d0 d1 d2 d3 t : K) : K :=
  (1 - t) ^ 3 * d0 + 3 * (1 - t) ^ 2 * t * d1 + 3 * (1 - t) * t ^ 2 * d2 + t ^ 3 * d3

/-- the line through `p` and `q` (`p.x < q.x`) is above `F` on [0,1] (division-free) -/
def EdgeAbove (F : K → K) (p q : P K) : Prop :=
  p.x < q.x ∧ ∀ t, 0 ≤ t → t ≤ 1 → F t * (q.x - p.x) ≤ p.y * (q.x - p.x) + (t - p.x) * (q.y - p.y)

/-- the line through `p` and `q` (`p.x < q.x`) is below `F` on [0,1] -/
def EdgeBelow (F : K → K) (p q : P K) : Prop :=
  p.x < q.x ∧ ∀ t, 0 ≤ t → t ≤ 1 → p.y * (q.x - p.x) + (t - p.x) * (q.y - p.y) ≤ F t * (q.x - p.x)

/-- **Convex-hull property, upper part**: a line that is above the four control points
`(0,d0) (1/3,d1) (2/3,d2) (1,d3)` is above the Bernstein polynomial on [0,1]. -/
theorem edgeAbove_of_ctrl (d0 d1 d2 d3 : K) (p q : P K) (hx : p.x < q.x)
    (h0 : d0 * (q.x - p.x) ≤ p.y * (q.x - p.x) + (0 - p.x) * (q.y - p.y))
    (h1 : d1 * (q.x - p.x) ≤ p.y * (q.x - p.x) + (1 / 3 - p.x) * (q.y - p.y))
    (h2 : d2 * (q.x - p.x) ≤ p.y * (q.x - p.x) + (2 / 3 - p.x) * (q.y - p.y))
    (h3 : d3 * (q.x - p.x) ≤ p.y * (q.x - p.x) + (1 - p.x) * (q.y - p.y)) :
    EdgeAbove (bern d0 d1 d2 d3) p q := by
  refine ⟨hx, fun t ht0 ht1 => ?_⟩
  have h1t : 0 ≤ 1 - t := by linarith
  have e0 : 0 ≤ (1 - t) ^ 3 * (p.y * (q.x - p.x) + (0 - p.x) * (q.y - p.y) - d0 * (q.x - p.x)) :=
    mul_nonneg (by positivity) (by linarith)
  have e1 : 0 ≤ 3 * (1 - t) ^ 2 * t * (p.y * (q.x - p.x) + (1 / 3 - p.x) * (q.y - p.y) - d1 * (q.x - p.x)) :=
    mul_nonneg (by positivity) (by linarith)
  have e2 : 0 ≤ 3 * (1 - t) * t ^ 2 * (p.y * (q.x - p.x) + (2 / 3 - p.x) * (q.y - p.y) - d2 * (q.x - p.x)) :=
    mul_nonneg (by positivity) (by linarith)
  have e3 : 0 ≤ t ^ 3 * (p.y * (q.x - p.x) + (1 - p.x) * (q.y - p.y) - d3 * (q.x - p.x)) :=
    mul_nonneg (by positivity) (by linarith)
  unfold bern
  nlinarith [e0, e1, e2, e3]

/-- **Convex-hull property, lower part.** -/
theorem edgeBelow_of_ctrl (d0 d1 d2 d3 : K) (p q : P K) (hx : p.x < q.x)
    (h0 : p.y * (q.x - p.x) + (0 - p.x) * (q.y - p.y) ≤ d0 * (q.x - p.x))
    (h1 : p.y * (q.x - p.x) + (1 / 3 - p.x) * (q.y - p.y) ≤ d1 * (q.x - p.x))
    (h2 : p.y * (q.x - p.x) + (2 / 3 - p.x) * (q.y - p.y) ≤ d2 * (q.x - p.x))
    (h3 : p.y * (q.x - p.x) + (1 - p.x) * (q.y - p.y) ≤ d3 * (q.x - p.x)) :
    EdgeBelow (bern d0 d1 d2 d3) p q := by
  refine ⟨hx, fun t ht0 ht1 => ?_⟩
  have h1t : 0 ≤ 1 - t := by linarith
  have e0 : 0 ≤ (1 - t) ^ 3 * (d0 * (q.x - p.x) - (p.y * (q.x - p.x) + (0 - p.x) * (q.y - p.y))) :=
    mul_nonneg (by positivity) (by linarith)
  have e1 : 0 ≤ 3 * (1 - t) ^ 2 * t * (d1 * (q.x - p.x) - (p.y * (q.x - p.x) + (1 / 3 - p.x) * (q.y - p.y))) :=
    mul_nonneg (by positivity) (by linarith)
  have e2 : 0 ≤ 3 * (1 - t) * t ^ 2 * (d2 * (q.x - p.x) - (p.y * (q.x - p.x) + (2 / 3 - p.x) * (q.y - p.y))) :=
    mul_nonneg (by positivity) (by linarith)
  have e3 : 0 ≤ t ^ 3 * (d3 * (q.x - p.x) - (p.y * (q.x - p.x) + (1 - p.x) * (q.y - p.y))) :=
    mul_nonneg (by positivity) (by linarith)
  unfold bern
  nlinarith [e0, e1, e2, e3]

/-! ### the walk, unfolded over a field -/

theorem walkEdges_top_eq (thr : K) (p q : P K) (rest : List (P K)) (h2 : q.y = thr) :
    walkEdges true thr (p :: q :: rest) = some q.x := by
  rw [walkEdges]
  have h' : q.y ≥ thr := le_of_eq h2.symm
  have : (q.y == thr) = true := (sc_beq _ _).mpr h2
  simp [h', this]

theorem walkEdges_top_gt (thr : K) (p q : P K) (rest : List (P K)) (h : thr < q.y) :
    walkEdges true thr (p :: q :: rest) = some (p.x + (thr - p.y) * (q.x - p.x) / (q.y - p.y)) := by
  rw [walkEdges]
  have h' : q.y ≥ thr := le_of_lt h
  have : ¬ ((q.y == thr) = true) := fun hh => (ne_of_gt h) ((sc_beq _ _).mp hh)
  simp [h', this]

theorem walkEdges_top_skip (thr : K) (p q : P K) (rest : List (P K)) (h : q.y < thr) :
    walkEdges true thr (p :: q :: rest) = walkEdges true thr (q :: rest) := by
  rw [walkEdges]
  have h' : ¬ (q.y ≥ thr) := not_le.mpr h
  simp [h']

theorem walkEdges_bot_at (thr : K) (p q : P K) (rest : List (P K)) (h2 : q.y = thr) :
    walkEdges false thr (p :: q :: rest) = some q.x := by
  rw [walkEdges]
  have h' : q.y ≤ thr := le_of_eq h2
  have : (q.y == thr) = true := (sc_beq _ _).mpr h2
  simp [h', this]

theorem walkEdges_bot_lt (thr : K) (p q : P K) (rest : List (P K)) (h : q.y < thr) :
    walkEdges false thr (p :: q :: rest) = some (p.x + (thr - p.y) * (q.x - p.x) / (q.y - p.y)) := by
  rw [walkEdges]
  have h' : q.y ≤ thr := le_of_lt h
  have : ¬ ((q.y == thr) = true) := fun hh => (ne_of_lt h) ((sc_beq _ _).mp hh)
  simp [h', this]

theorem walkEdges_bot_skip (thr : K) (p q : P K) (rest : List (P K)) (h : thr < q.y) :
    walkEdges false thr (p :: q :: rest) = walkEdges false thr (q :: rest) := by
  rw [walkEdges]
  have h' : ¬ (q.y ≤ thr) := not_le.mpr h
  simp [h']

@[simp] theorem walkEdges_single (b : Bool) (thr : K) (p : P K) : walkEdges b thr [p] = none := by
  rw [walkEdges]; intro _ _ _ h; cases h

@[simp] theorem walkEdges_nil (b : Bool) (thr : K) : walkEdges b thr ([] : List (P K)) = none := by
  rw [walkEdges]; intro _ _ _ h; cases h

/-- mirror `x ↦ 1 - x` -/
def mirror (p : P K) : P K := ⟨1 - p.x, p.y⟩
/-- negate `y` -/
def negY (p : P K) : P K := ⟨p.x, -p.y⟩

@[simp] theorem mirror_x (p : P K) : (mirror p).x = 1 - p.x := rfl
@[simp] theorem mirror_y (p : P K) : (mirror p).y = p.y := rfl
@[simp] theorem negY_x (p : P K) : (negY p).x = p.x := rfl
@[simp] theorem negY_y (p : P K) : (negY p).y = -p.y := rfl

/-- walking a mirrored chain gives the mirrored parameter -/
theorem walkEdges_mirror (b : Bool) (thr : K) : ∀ l : List (P K),
    walkEdges b thr (l.map mirror) = (walkEdges b thr l).map (fun x => 1 - x)
  | [] => by simp
  | [p] => by simp
  | p :: q :: rest => by
    have ih := walkEdges_mirror b thr (q :: rest)
    have key : (1 - p.x) + (thr - p.y) * ((1 - q.x) - (1 - p.x)) / (q.y - p.y)
        = 1 - (p.x + (thr - p.y) * (q.x - p.x) / (q.y - p.y)) := by ring
    simp only [List.map_cons] at ih ⊢
    cases b
    · rcases lt_trichotomy q.y thr with h | h | h
      · rw [walkEdges_bot_lt _ _ _ _ (by simpa using h), walkEdges_bot_lt _ _ _ _ h]
        simp only [mirror_x, mirror_y, key, Option.map_some]
      · rw [walkEdges_bot_at _ _ _ _ (by simpa using h), walkEdges_bot_at _ _ _ _ h]
        simp only [mirror_x, Option.map_some]
      · rw [walkEdges_bot_skip _ _ _ _ (by simpa using h), walkEdges_bot_skip _ _ _ _ h]; exact ih
    · rcases lt_trichotomy q.y thr with h | h | h
      · rw [walkEdges_top_skip _ _ _ _ (by simpa using h), walkEdges_top_skip _ _ _ _ h]; exact ih
      · rw [walkEdges_top_eq _ _ _ _ (by simpa using h), walkEdges_top_eq _ _ _ _ h]
        simp only [mirror_x, Option.map_some]
      · rw [walkEdges_top_gt _ _ _ _ (by simpa using h), walkEdges_top_gt _ _ _ _ h]
        simp only [mirror_x, mirror_y, key, Option.map_some]

/-- the lower walk is the upper walk of the negated chain against the negated threshold -/
theorem walkEdges_bot_eq (thr : K) : ∀ l : List (P K),
    walkEdges false thr l = walkEdges true (-thr) (l.map negY)
  | [] => by simp
  | [p] => by simp
  | p :: q :: rest => by
    have ih := walkEdges_bot_eq thr (q :: rest)
    simp only [List.map_cons] at ih ⊢
    rcases lt_trichotomy q.y thr with h | h | h
    · rw [walkEdges_bot_lt _ _ _ _ h, walkEdges_top_gt _ _ _ _ (by simpa using h)]
      simp only [negY_x, negY_y]
      congr 1
      have e1 : -q.y - -p.y = -(q.y - p.y) := by ring
      have e2 : -thr - -p.y = -(thr - p.y) := by ring
      rw [e1, e2, div_neg]; ring
    · rw [walkEdges_bot_at _ _ _ _ h, walkEdges_top_eq _ _ _ _ (by simp [h])]
      simp only [negY_x]
    · rw [walkEdges_bot_skip _ _ _ _ h, walkEdges_top_skip _ _ _ _ (by simpa using h)]; exact ih

/-! ### soundness of the upper walk, left to right -/

/-- the `x` of the last vertex of `p :: l` -/
def lastX : P K → List (P K) → K
  | p, [] => p.x
  | _, q :: r => lastX q r

theorem lastX_append_singleton : ∀ (s : P K) (m : List (P K)) (e : P K), lastX s (m ++ [e]) = e.x
  | _, [], _ => rfl
  | _, q :: r, e => lastX_append_singleton q r e

/-- the edge that stops the walk: left of the returned parameter the line — hence `F` — is below
the threshold (on all of [0,1], not only on the edge's span) -/
theorem edge_hit {F : K → K} {p q : P K} {thr : K} (he : EdgeAbove F p q) (hp : p.y < thr)
    (hq : thr ≤ q.y) {t : K} (ht0 : 0 ≤ t) (ht1 : t ≤ 1)
    (ht : t < p.x + (thr - p.y) * (q.x - p.x) / (q.y - p.y)) : F t < thr := by
  obtain ⟨hx, hF⟩ := he
  have hdy : 0 < q.y - p.y := by linarith
  have hdx : 0 < q.x - p.x := by linarith
  by_contra hcon
  have hge : thr ≤ F t := not_lt.mp hcon
  have h1 := hF t ht0 ht1
  have h2 : thr * (q.x - p.x) ≤ F t * (q.x - p.x) := mul_le_mul_of_nonneg_right hge hdx.le
  have h3 : (thr - p.y) * (q.x - p.x) ≤ (t - p.x) * (q.y - p.y) := by nlinarith
  have h4 : (thr - p.y) * (q.x - p.x) / (q.y - p.y) ≤ t - p.x := by
    rw [div_le_iff₀ hdy]; exact h3
  linarith

/-- on the span of an edge whose two ends are below the threshold, `F` is below the threshold -/
theorem edge_span {F : K → K} {p q : P K} {thr : K} (he : EdgeAbove F p q) (hp : p.y < thr)
    (hq : q.y < thr) {t : K} (ht0 : 0 ≤ t) (ht1 : t ≤ 1) (h1 : p.x ≤ t) (h2 : t ≤ q.x) :
    F t < thr := by
  obtain ⟨hx, hF⟩ := he
  have hdx : 0 < q.x - p.x := by linarith
  have h := hF t ht0 ht1
  have e : p.y * (q.x - p.x) + (t - p.x) * (q.y - p.y) = p.y * (q.x - t) + q.y * (t - p.x) := by ring
  have hlt : p.y * (q.x - t) + q.y * (t - p.x) < thr * (q.x - p.x) := by
    rcases eq_or_lt_of_le h1 with h1' | h1'
    · subst h1'; nlinarith
    · nlinarith
  have : F t * (q.x - p.x) < thr * (q.x - p.x) := by linarith
  exact lt_of_mul_lt_mul_right this hdx.le

/-- **the walk stops only where it may**: if the upper walk returns `x`, `F` is below the
threshold everywhere left of `x` -/
theorem walk_top_some {F : K → K} {thr : K} : ∀ (p : P K) (l : List (P K)),
    List.IsChain (EdgeAbove F) (p :: l) → p.y < thr → ∀ x, walkEdges true thr (p :: l) = some x →
    ∀ t, 0 ≤ t → t ≤ 1 → t < x → F t < thr
  | p, [], _, _, x, hw => by simp at hw
  | p, q :: rest, hc, hp, x, hw => by
    rw [List.isChain_cons_cons] at hc
    intro t ht0 ht1 htx
    rcases lt_trichotomy q.y thr with h | h | h
    · rw [walkEdges_top_skip _ _ _ _ h] at hw
      exact walk_top_some q rest hc.2 h x hw t ht0 ht1 htx
    · rw [walkEdges_top_eq _ _ _ _ h] at hw
      have hx : x = q.x := (Option.some.inj hw).symm
      have hdy : q.y - p.y ≠ 0 := by rw [h]; linarith
      apply edge_hit hc.1 hp (le_of_eq h.symm) ht0 ht1
      have : (thr - p.y) * (q.x - p.x) / (q.y - p.y) = q.x - p.x := by
        rw [h]; field_simp
      rw [this]; linarith
    · rw [walkEdges_top_gt _ _ _ _ h] at hw
      have hx : x = _ := (Option.some.inj hw).symm
      exact edge_hit hc.1 hp h.le ht0 ht1 (by rw [← hx]; exact htx)

/-- if the upper walk finds nothing, `F` is below the threshold on the whole span of the chain -/
theorem walk_top_none {F : K → K} {thr : K} : ∀ (p q : P K) (l : List (P K)),
    List.IsChain (EdgeAbove F) (p :: q :: l) → p.y < thr → walkEdges true thr (p :: q :: l) = none →
    ∀ t, 0 ≤ t → t ≤ 1 → p.x ≤ t → t ≤ lastX p (q :: l) → F t < thr
  | p, q, l, hc, hp, hw => by
    rw [List.isChain_cons_cons] at hc
    intro t ht0 ht1 h1 h2
    rcases lt_trichotomy q.y thr with h | h | h
    · rw [walkEdges_top_skip _ _ _ _ h] at hw
      rcases le_or_gt t q.x with h3 | h3
      · exact edge_span hc.1 hp h ht0 ht1 h1 h3
      · cases l with
        | nil => exact absurd h2 (not_le.mpr h3)
        | cons r l' => exact walk_top_none q r l' hc.2 h hw t ht0 ht1 h3.le h2
    · rw [walkEdges_top_eq _ _ _ _ h] at hw; cases hw
    · rw [walkEdges_top_gt _ _ _ _ h] at hw; cases hw

/-! ### lower walk and right-to-left walk by symmetry -/

theorem edgeBelow_neg {F : K → K} {p q : P K} (h : EdgeBelow F p q) :
    EdgeAbove (fun t => -F t) (negY p) (negY q) := by
  refine ⟨h.1, fun t ht0 ht1 => ?_⟩
  have := h.2 t ht0 ht1
  simp only [negY_x, negY_y]
  linarith

theorem chainBelow_neg {F : K → K} {l : List (P K)} (h : List.IsChain (EdgeBelow F) l) :
    List.IsChain (EdgeAbove (fun t => -F t)) (l.map negY) := by
  rw [List.isChain_map]
  exact h.imp (fun _ _ hab => edgeBelow_neg hab)

theorem walk_bot_some {F : K → K} {thr : K} (p : P K) (l : List (P K))
    (hc : List.IsChain (EdgeBelow F) (p :: l)) (hp : thr < p.y) (x : K)
    (hw : walkEdges false thr (p :: l) = some x) (t : K) (ht0 : 0 ≤ t) (ht1 : t ≤ 1) (htx : t < x) :
    thr < F t := by
  rw [walkEdges_bot_eq, List.map_cons] at hw
  have hc' := chainBelow_neg hc
  rw [List.map_cons] at hc'
  have := walk_top_some (F := fun t => -F t) (thr := -thr) (negY p) (l.map negY) hc'
    (by simp only [negY_y]; linarith) x hw t ht0 ht1 htx
  linarith

theorem lastX_map_negY : ∀ (p : P K) (l : List (P K)), lastX (negY p) (l.map negY) = lastX p l
  | _, [] => rfl
  | _, q :: r => lastX_map_negY q r

theorem walk_bot_none {F : K → K} {thr : K} (p q : P K) (l : List (P K))
    (hc : List.IsChain (EdgeBelow F) (p :: q :: l)) (hp : thr < p.y)
    (hw : walkEdges false thr (p :: q :: l) = none) (t : K) (ht0 : 0 ≤ t) (ht1 : t ≤ 1)
    (h1 : p.x ≤ t) (h2 : t ≤ lastX p (q :: l)) : thr < F t := by
  rw [walkEdges_bot_eq, List.map_cons, List.map_cons] at hw
  have hc' := chainBelow_neg hc
  rw [List.map_cons, List.map_cons] at hc'
  have h2' : t ≤ lastX (negY p) (negY q :: l.map negY) := by
    have := lastX_map_negY p (q :: l)
    rw [List.map_cons] at this
    rw [this]; exact h2
  have := walk_top_none (F := fun t => -F t) (thr := -thr) (negY p) (negY q) (l.map negY) hc'
    (by simp only [negY_y]; linarith) hw t ht0 ht1 h1 h2'
  linarith

theorem edgeAbove_mirror {F : K → K} {p q : P K} (h : EdgeAbove F p q) :
    EdgeAbove (fun t => F (1 - t)) (mirror q) (mirror p) := by
  refine ⟨by simp only [mirror_x]; linarith [h.1], fun t ht0 ht1 => ?_⟩
  have := h.2 (1 - t) (by linarith) (by linarith)
  simp only [mirror_x, mirror_y]
  linarith

theorem edgeBelow_mirror {F : K → K} {p q : P K} (h : EdgeBelow F p q) :
    EdgeBelow (fun t => F (1 - t)) (mirror q) (mirror p) := by
  refine ⟨by simp only [mirror_x]; linarith [h.1], fun t ht0 ht1 => ?_⟩
  have := h.2 (1 - t) (by linarith) (by linarith)
  simp only [mirror_x, mirror_y]
  linarith

theorem chainAbove_mirror {F : K → K} {l : List (P K)} (h : List.IsChain (EdgeAbove F) l) :
    List.IsChain (EdgeAbove (fun t => F (1 - t))) (l.reverse.map mirror) := by
  rw [List.isChain_map, List.isChain_reverse]
  exact h.imp (fun _ _ hab => edgeAbove_mirror hab)

theorem chainBelow_mirror {F : K → K} {l : List (P K)} (h : List.IsChain (EdgeBelow F) l) :
    List.IsChain (EdgeBelow (fun t => F (1 - t))) (l.reverse.map mirror) := by
  rw [List.isChain_map, List.isChain_reverse]
  exact h.imp (fun _ _ hab => edgeBelow_mirror hab)

/-! ### `walkStart`, `clipHull` -/

theorem walkStart_below (s : P K) (top' bottom : List (P K)) (dMin dMax : K) (h : s.y < dMin) :
    walkStart (s :: top') bottom dMin dMax = walkEdges true dMin (s :: top') := by
  simp [walkStart, h]

theorem walkStart_above (s : P K) (top' bottom : List (P K)) (dMin dMax : K) (h1 : ¬ s.y < dMin)
    (h : s.y > dMax) : walkStart (s :: top') bottom dMin dMax = walkEdges false dMax bottom := by
  simp [walkStart, h1, h]

theorem walkStart_inside (s : P K) (top' bottom : List (P K)) (dMin dMax : K) (h1 : ¬ s.y < dMin)
    (h : ¬ s.y > dMax) : walkStart (s :: top') bottom dMin dMax = some s.x := by
  simp [walkStart, h1, h]

theorem walkStart_mirror (top bottom : List (P K)) (dMin dMax : K) :
    walkStart (top.map mirror) (bottom.map mirror) dMin dMax
      = (walkStart top bottom dMin dMax).map (fun x => 1 - x) := by
  cases top with
  | nil => simp [walkStart]
  | cons s top' =>
    rw [List.map_cons]
    by_cases h1 : s.y < dMin
    · rw [walkStart_below _ _ _ _ _ (by simpa using h1), walkStart_below _ _ _ _ _ h1,
        ← List.map_cons, walkEdges_mirror]
    · by_cases h2 : s.y > dMax
      · rw [walkStart_above _ _ _ _ _ (by simpa using h1) (by simpa using h2),
          walkStart_above _ _ _ _ _ h1 h2, walkEdges_mirror]
      · rw [walkStart_inside _ _ _ _ _ (by simpa using h1) (by simpa using h2),
          walkStart_inside _ _ _ _ _ h1 h2]; rfl

/-- the shape of the two chains of a hull over [0,1]: common first vertex at `x = 0`, common last
vertex at `x = 1`, every edge of `top` above `F`, every edge of `bottom` below `F` -/
structure HullOK (F : K → K) (top bottom : List (P K)) : Prop where
  shape : ∃ s e mt mb, top = s :: (mt ++ [e]) ∧ bottom = s :: (mb ++ [e]) ∧ s.x = 0 ∧ e.x = 1
  above : List.IsChain (EdgeAbove F) top
  below : List.IsChain (EdgeBelow F) bottom

theorem HullOK.mirror {F : K → K} {top bottom : List (P K)} (h : HullOK F top bottom) :
    HullOK (fun t => F (1 - t)) (top.reverse.map Clip.mirror) (bottom.reverse.map Clip.mirror) := by
  obtain ⟨s, e, mt, mb, ht, hb, hs, he⟩ := h.shape
  refine ⟨⟨Clip.mirror e, Clip.mirror s, mt.reverse.map Clip.mirror, mb.reverse.map Clip.mirror, ?_, ?_, ?_, ?_⟩,
    chainAbove_mirror h.above, chainBelow_mirror h.below⟩
  · rw [ht]; simp
  · rw [hb]; simp
  · simp [he]
  · simp [hs]

/-- **one walk is sound**: a parameter where `F` is inside `[dMin, dMax]` is not left of the value
returned by `walkStart`, and `walkStart` does return a value -/
theorem walkStart_sound {F : K → K} {top bottom : List (P K)} (h : HullOK F top bottom)
    (dMin dMax t : K) (ht0 : 0 ≤ t) (ht1 : t ≤ 1) (hlo : dMin ≤ F t) (hhi : F t ≤ dMax) :
    ∃ x, walkStart top bottom dMin dMax = some x ∧ x ≤ t := by
  obtain ⟨s, e, mt, mb, htop, hbot, hs, he⟩ := h.shape
  have habove := h.above
  have hbelow := h.below
  subst htop hbot
  by_cases h1 : s.y < dMin
  · rw [walkStart_below _ _ _ _ _ h1]
    cases hw : walkEdges true dMin (s :: (mt ++ [e])) with
    | none =>
      exfalso
      have hlast : lastX s (mt ++ [e]) = 1 := by rw [lastX_append_singleton, he]
      cases hm : mt ++ [e] with
      | nil => simp at hm
      | cons q l =>
        rw [hm] at hw habove hlast
        have := walk_top_none s q l habove h1 hw t ht0 ht1 (by rw [hs]; exact ht0) (by rw [hlast]; exact ht1)
        linarith
    | some x =>
      refine ⟨x, rfl, ?_⟩
      by_contra hcon
      have := walk_top_some s _ habove h1 x hw t ht0 ht1 (not_le.mp hcon)
      linarith
  · by_cases h2 : s.y > dMax
    · rw [walkStart_above _ _ _ _ _ h1 h2]
      cases hw : walkEdges false dMax (s :: (mb ++ [e])) with
      | none =>
        exfalso
        have hlast : lastX s (mb ++ [e]) = 1 := by rw [lastX_append_singleton, he]
        cases hm : mb ++ [e] with
        | nil => simp at hm
        | cons q l =>
          rw [hm] at hw hbelow hlast
          have := walk_bot_none s q l hbelow h2 hw t ht0 ht1 (by rw [hs]; exact ht0) (by rw [hlast]; exact ht1)
          linarith
      | some x =>
        refine ⟨x, rfl, ?_⟩
        by_contra hcon
        have := walk_bot_some s _ hbelow h2 x hw t ht0 ht1 (not_le.mp hcon)
        linarith
    · rw [walkStart_inside _ _ _ _ _ h1 h2]
      exact ⟨s.x, rfl, by rw [hs]; exact ht0⟩

/-- `clipHull` over a field -/
theorem clipHull_eq (top bottom : List (P K)) (dMin dMax a b : K)
    (h1 : walkStart top bottom dMin dMax = some a)
    (h2 : walkStart top.reverse bottom.reverse dMin dMax = some b) :
    clipHull top bottom dMin dMax = some (a, b) := by
  simp [clipHull, h1, h2]

/-- **the clip is sound**: every parameter of [0,1] where `F` lies inside `[dMin, dMax]` is kept
by `clipHull` (which then cannot answer `none`) -/
theorem clipHull_sound {F : K → K} {top bottom : List (P K)} (h : HullOK F top bottom)
    (dMin dMax t : K) (ht0 : 0 ≤ t) (ht1 : t ≤ 1) (hlo : dMin ≤ F t) (hhi : F t ≤ dMax) :
    ∃ lo hi, clipHull top bottom dMin dMax = some (lo, hi) ∧ lo ≤ t ∧ t ≤ hi := by
  obtain ⟨a, ha, hat⟩ := walkStart_sound h dMin dMax t ht0 ht1 hlo hhi
  obtain ⟨y, hy, hyt⟩ := walkStart_sound h.mirror dMin dMax (1 - t) (by linarith) (by linarith)
    (by simpa using hlo) (by simpa using hhi)
  rw [walkStart_mirror] at hy
  cases hb : walkStart top.reverse bottom.reverse dMin dMax with
  | none => rw [hb] at hy; cases hy
  | some b =>
    rw [hb] at hy
    have : 1 - b = y := Option.some.inj hy
    exact ⟨a, b, clipHull_eq _ _ _ _ _ _ ha hb, hat, by linarith⟩

end Lyon.Clip
