/-
  Path-level bounding boxes (property C11): what `lyon_algorithms::aabb::bounding_box` folds over,
  from the builder calls to the box, so that the whole chain is tied and reasoned about:

    builder calls (`PCmd`)  --`Path::iter`-->  events with every field (`FEv`)
                            --`Path::reversed`-->  the events of the reversed path
    events  --`TightBoundingBox::min_max` fold (`Aabb.tightStep`, Model/Geom/Extrema.lean)-->  box
    events  --per segment exact boxes, closing edges included (`segBox`), joined (`segUnion`)--> box

  Mirrors crates/path/src/path.rs (`Iter::next`, `Reversed::next`: one event per stored verb, the
  verbs walked backwards, `Close`/`End` become `Begin` at the last endpoint, `Begin` becomes `End`)
  and crates/algorithms/src/aabb.rs.  The fold itself (`Aabb.tightStep`, `Aabb.fastStep`,
  `Aabb.boundingBox`, `Aabb.fastBoundingBox`) is the one in Model/Geom/Extrema.lean: it reads
  `PEv`, the projection `FEv.toPEv` forgets the fields of `End` (the fold ignores `End`).

  Mathlib-free.
-/
import LyonVerif.Model.Geom.Extrema

namespace Lyon
open Scalar

variable {α : Type} [Scalar α]

/-- a call on `path::Builder` (`begin`, `line_to`, `quadratic_bezier_to`, `cubic_bezier_to`, `end`) -/
inductive PCmd (α : Type) where
  | begin (at_ : P α)
  | lineTo (to : P α)
  | quadTo (ctrl to : P α)
  | cubicTo (c1 c2 to : P α)
  | end_ (close : Bool)

/-- `PathEvent` with all its fields -/
inductive FEv (α : Type) where
  | begin (at_ : P α)
  | line (from_ to : P α)
  | quad (from_ ctrl to : P α)
  | cubic (from_ c1 c2 to : P α)
  | end_ (last first : P α) (close : Bool)

namespace PathBox

/-- what the folds of `aabb.rs` read of an event -/
def toPEv : FEv α → PEv α
  | .begin p => .begin p
  | .line f p => .line f p
  | .quad f c p => .quad f c p
  | .cubic f c1 c2 p => .cubic f c1 c2 p
  | .end_ _ _ _ => .end_

/-- `Path::iter` (`Iter::next`): `cur` is the current endpoint, `first` the first endpoint of the
current sub-path -/
def eventsFrom (cur first : P α) : List (PCmd α) → List (FEv α)
  | [] => []
  | .begin p :: r => .begin p :: eventsFrom p p r
  | .lineTo p :: r => .line cur p :: eventsFrom p first r
  | .quadTo c p :: r => .quad cur c p :: eventsFrom p first r
  | .cubicTo c1 c2 p :: r => .cubic cur c1 c2 p :: eventsFrom p first r
  | .end_ close :: r => .end_ cur first close :: eventsFrom cur first r

/-- the events of the path the builder calls produce -/
def events (cmds : List (PCmd α)) : List (FEv α) := eventsFrom ⟨zero, zero⟩ ⟨zero, zero⟩ cmds

/-- `Reversed::next` over the events in reverse order: `first` = the `Begin` point emitted for the
current (reversed) sub-path, `close` = `need_close` -/
def reversedGo (first : P α) (close : Bool) : List (FEv α) → List (FEv α)
  | [] => []
  | .end_ last _ c :: r => .begin last :: reversedGo last c r
  | .begin p :: r => .end_ p first close :: reversedGo first false r
  | .line f p :: r => .line p f :: reversedGo first close r
  | .quad f c p :: r => .quad p c f :: reversedGo first close r
  | .cubic f c1 c2 p :: r => .cubic p c2 c1 f :: reversedGo first close r

/-- `Path::reversed` as an event list -/
def reversed (evs : List (FEv α)) : List (FEv α) := reversedGo ⟨zero, zero⟩ false evs.reverse

/-! ### sub-paths -/

/-- (calls before the first `begin`, the sub-paths: each starts with its `begin`) -/
def splitSubs : List (PCmd α) → List (PCmd α) × List (List (PCmd α))
  | [] => ([], [])
  | .begin p :: r => ([], (.begin p :: (splitSubs r).1) :: (splitSubs r).2)
  | .lineTo p :: r => (.lineTo p :: (splitSubs r).1, (splitSubs r).2)
  | .quadTo c p :: r => (.quadTo c p :: (splitSubs r).1, (splitSubs r).2)
  | .cubicTo c1 c2 p :: r => (.cubicTo c1 c2 p :: (splitSubs r).1, (splitSubs r).2)
  | .end_ c :: r => (.end_ c :: (splitSubs r).1, (splitSubs r).2)

/-- the same sub-paths, drawn in the order `k, k+1, …, n-1, 0, …, k-1` -/
def rotateSubs (k : Nat) (cmds : List (PCmd α)) : List (PCmd α) :=
  (splitSubs cmds).1 ++ (((splitSubs cmds).2.drop k) ++ ((splitSubs cmds).2.take k)).flatten

/-! ### the union of the segments' exact boxes -/

/-- the exact box of the piece of the path an event stands for: the point of a `Begin`, the
segment of a `Line` / `Quadratic` / `Cubic` (from `from`), the closing edge of a closing `End` -/
def segBox [Transc α] : FEv α → Option (Box α)
  | .begin p => some ⟨p, p⟩
  | .line f p => some (Seg.boundingBox ⟨f, p⟩)
  | .quad f c p => some (Quad.boundingBox ⟨f, c, p⟩)
  | .cubic f c1 c2 p => some (Cubic.boundingBox ⟨f, c1, c2, p⟩)
  | .end_ l f true => some (Seg.boundingBox ⟨l, f⟩)
  | .end_ _ _ false => none

/-- componentwise `Point2D::min` / `Point2D::max` of two boxes -/
def join (a b : Box α) : Box α := ⟨a.min.pmin b.min, a.max.pmax b.max⟩

/-- the smallest box around the boxes; the zero box if there is none (as `aabb.rs` answers for the
empty path) -/
def unionBoxes : List (Box α) → Box α
  | [] => ⟨⟨zero, zero⟩, ⟨zero, zero⟩⟩
  | b :: r => r.foldl join b

/-- union of the exact boxes of all pieces of the path -/
def segUnion [Transc α] (evs : List (FEv α)) : Box α := unionBoxes (evs.filterMap segBox)

/-- `aabb::bounding_box(path.iter())` -/
def pathBox [Transc α] (big : α) (evs : List (FEv α)) : Box α := Aabb.boundingBox big (evs.map toPEv)

/-- `aabb::fast_bounding_box(path.iter())` -/
def pathFastBox [Transc α] (big : α) (evs : List (FEv α)) : Box α :=
  Aabb.fastBoundingBox big (evs.map toPEv)

end PathBox

end Lyon
