/-
  `crates/algorithms/src/{hit_test,area,winding}.rs` for paths WITH quadratic / cubic events.

  * `path_winding_number_at_position`: `Line`/`End` → `test_segment`; `Quadratic`/`Cubic` →
    `fast_bounding_range_y` early-out, then `segment.for_each_flattened(tolerance, test_segment)`
    (lyon_geom callback flattening, `Model/Geom/Flatten.lean`);
  * `approximate_signed_area`: consumes `path.flattened(tolerance)` — the lyon_path iterator adapter
    `iterator::Flattened` (`crates/path/src/iterator.rs`), which replaces every curve event by the
    `Line` events of lyon_geom's *iterator* flattening (`QuadraticBezierSegment::flattened`,
    `CubicBezierSegment::flattened`: `QuadIter` / `CubicIter`) and forwards `Begin`/`Line`/`End`
    unchanged (so `End.last` is the original end point, not the last flattened point);
  * `compute_winding`: shoelace over the control polygon.

  A path is a list of sub-paths `first, [segment…]`; the `from` of every event is the previous
  end point (what `Path::iter()` yields) and every sub-path ends with `End { last, first }`.
  `none` = the Rust code panics (`count.to_u32().unwrap()` / `to_i32().unwrap()` inside the
  flattening).

  `fast_bounding_range_y` of the two curve types is written out here (`quadFastRangeY`,
  `cubicFastRangeY`: the expressions of `Quad.fastBoundingRangeY` / `Cubic.fastBoundingRangeY` in
  Model/Geom/Extrema.lean) instead of importing Extrema.lean: that file's `Box` / `Tri` clash with
  Model/Geom/Intersect.lean, which the sweep model needs, and C18's driver links both this file
  and the sweep model (family `fillprog`).

  Mathlib-free.
-/
import LyonVerif.Model.Algo.Winding
import LyonVerif.Model.Geom.Flatten

namespace Lyon.Winding
open Lyon Scalar

/-- one path event after `Begin` (its `from` is the current position) -/
inductive CSeg (α : Type) where
  | line (to : P α)
  | quad (ctrl to : P α)
  | cubic (ctrl1 ctrl2 to : P α)

def CSeg.to {α : Type} : CSeg α → P α
  | .line t => t
  | .quad _ t => t
  | .cubic _ _ t => t

/-- `Begin { at: first }`, the events, `End { last, first }` -/
structure CSub (α : Type) where
  first : P α
  segs : List (CSeg α)

variable {α : Type} [Scalar α]

/-- the position after the events (`End.last`) -/
def lastOf (cur : P α) : List (CSeg α) → P α
  | [] => cur
  | s :: r => lastOf s.to r

def CSub.last (s : CSub α) : P α := lastOf s.first s.segs

section
variable [Transc α] [FlatConst α]

/-- `QuadraticBezierSegment::fast_bounding_range_y`: `(from.y.min(ctrl.y).min(to.y), from.y.max(ctrl.y).max(to.y))` -/
def quadFastRangeY (s : Quad α) : α × α :=
  (Scalar.min (Scalar.min s.a.y s.c.y) s.b.y, Scalar.max (Scalar.max s.a.y s.c.y) s.b.y)

/-- `CubicBezierSegment::fast_bounding_range_y` -/
def cubicFastRangeY (s : Cubic α) : α × α :=
  (Scalar.min (Scalar.min (Scalar.min s.a.y s.c1.y) s.c2.y) s.b.y,
   Scalar.max (Scalar.max (Scalar.max s.a.y s.c1.y) s.c2.y) s.b.y)

/-- `if min > point.y || max < point.y { continue }` on a `fast_bounding_range_y` result -/
def skipRange (q : P α) (r : α × α) : Bool := decide (q.y < r.1) || decide (r.2 < q.y)

/-- the line segments handed to `test_segment` for one event: the event's own segment, or the
callback flattening of the curve unless the bounding-range early-out fires -/
def segEdges (q : P α) (tol : α) (cur : P α) : CSeg α → Option (List (P α × P α))
  | .line t => some [(cur, t)]
  | .quad c t =>
    let s : Quad α := ⟨cur, c, t⟩
    if skipRange q (quadFastRangeY s) then some []
    else (s.forEachFlattened tol).map (fun l => l.map (fun f => (f.a, f.b)))
  | .cubic c1 c2 t =>
    let s : Cubic α := ⟨cur, c1, c2, t⟩
    if skipRange q (cubicFastRangeY s) then some []
    else (s.forEachFlattened tol).map (fun l => l.map (fun f => (f.a, f.b)))

/-- the same without the early-out: the flattened outline of the event -/
def segEdgesFlat (tol : α) (cur : P α) : CSeg α → Option (List (P α × P α))
  | .line t => some [(cur, t)]
  | .quad c t => ((⟨cur, c, t⟩ : Quad α).forEachFlattened tol).map (fun l => l.map (fun f => (f.a, f.b)))
  | .cubic c1 c2 t =>
    ((⟨cur, c1, c2, t⟩ : Cubic α).forEachFlattened tol).map (fun l => l.map (fun f => (f.a, f.b)))

/-- all segments tested for the events of one sub-path, then the `End { last, first }` segment -/
def subEdgesC (q : P α) (tol : α) (first : P α) : P α → List (CSeg α) → Option (List (P α × P α))
  | cur, [] => some [(cur, first)]
  | cur, s :: r =>
    match segEdges q tol cur s, subEdgesC q tol first s.to r with
    | some a, some b => some (a ++ b)
    | _, _ => none

def subEdgesFlat (tol : α) (first : P α) : P α → List (CSeg α) → Option (List (P α × P α))
  | cur, [] => some [(cur, first)]
  | cur, s :: r =>
    match segEdgesFlat tol cur s, subEdgesFlat tol first s.to r with
    | some a, some b => some (a ++ b)
    | _, _ => none

def pathEdgesC (q : P α) (tol : α) : List (CSub α) → Option (List (P α × P α))
  | [] => some []
  | s :: r =>
    match subEdgesC q tol s.first s.first s.segs, pathEdgesC q tol r with
    | some a, some b => some (a ++ b)
    | _, _ => none

/-- the flattened outline of the whole path (what the hit test would look at without early-outs) -/
def pathEdgesFlat (tol : α) : List (CSub α) → Option (List (P α × P α))
  | [] => some []
  | s :: r =>
    match subEdgesFlat tol s.first s.first s.segs, pathEdgesFlat tol r with
    | some a, some b => some (a ++ b)
    | _, _ => none

/-- `path_winding_number_at_position(point, path, tolerance)` -/
def windingAtC (q : P α) (tol : α) (path : List (CSub α)) : Option Int :=
  (pathEdgesC q tol path).map (windingAt q)

/-- `hit_test_path` -/
def hitTestC (evenOdd : Bool) (q : P α) (tol : α) (path : List (CSub α)) : Option Bool :=
  (windingAtC q tol path).map (hitRule evenOdd)

/-- polygonal hit test of the flattened outline -/
def hitTestFlat (evenOdd : Bool) (q : P α) (tol : α) (path : List (CSub α)) : Option Bool :=
  (pathEdgesFlat tol path).map (fun e => hitRule evenOdd (windingAt q e))

/-! ### `approximate_signed_area` through `PathIterator::flattened` -/

/-- the `to` points of the `Line` events that `iterator::Flattened` yields for one event -/
def segFlatPts (tol : α) (fuel : Nat) (cur : P α) : CSeg α → Option (List (P α))
  | .line t => some [t]
  | .quad c t => some ((QuadIter.new ⟨cur, c, t⟩ tol).collect fuel)
  | .cubic c1 c2 t => (CubicIter.new ⟨cur, c1, c2, t⟩ tol).map (fun it => it.collect fuel)

def subFlatPts (tol : α) (fuel : Nat) : P α → List (CSeg α) → Option (List (P α))
  | _, [] => some []
  | cur, s :: r =>
    match segFlatPts tol fuel cur s, subFlatPts tol fuel s.to r with
    | some a, some b => some (a ++ b)
    | _, _ => none

/-- `approximate_sub_path_signed_area` given the flattened `Line.to` points `pts` and `End.last`:
`v0` after the loop is `lastLinePoint − first` (or zero without `Line` events). -/
def areaOfPts (first : P α) (pts : List (P α)) (last : P α) : α :=
  let dbl := areaLoop first ⟨zero, zero⟩ zero pts
  let v0 := if pts.isEmpty then (⟨zero, zero⟩ : P α) else pts.getLast?.getD first - first
  (dbl + v0.cross (last - first)) * half

def subAreaC (tol : α) (fuel : Nat) (s : CSub α) : Option α :=
  (subFlatPts tol fuel s.first s.segs).map (fun pts => areaOfPts s.first pts s.last)

/-- `approximate_signed_area`: `area = 0; area += sub_path_area` -/
def pathAreaC (tol : α) (fuel : Nat) : List (CSub α) → α → Option α
  | [], acc => some acc
  | s :: r, acc =>
    match subAreaC tol fuel s with
    | none => none
    | some a => pathAreaC tol fuel r (acc + a)

end

/-! ### `compute_winding` with curve events (control polygon) -/

/-- the event loop of `compute_winding`: state `v0`, `area` -/
def windLoop (first : P α) : P α → α → List (CSeg α) → P α × α
  | v0, acc, [] => (v0, acc)
  | v0, acc, .line t :: r =>
    let v1 := t - first
    windLoop first v1 (acc + v0.cross v1) r
  | v0, acc, .quad c t :: r =>
    let v1 := c - first
    let v2 := t - first
    windLoop first v2 (acc + (v0.cross v1 + v1.cross v2)) r
  | v0, acc, .cubic c1 c2 t :: r =>
    let v1 := c1 - first
    let v2 := c2 - first
    let v3 := t - first
    windLoop first v3 (acc + (v0.cross v1 + v1.cross v2 + v2.cross v3)) r

/-- the doubled control-polygon area accumulated by `compute_winding`, including the `End` event -/
def windArea (s : CSub α) : α :=
  let r := windLoop s.first ⟨zero, zero⟩ zero s.segs
  r.2 + r.1.cross (s.last - s.first)

/-- `compute_winding`: `Positive` (true) iff `area > 0` -/
def computeWindingC (s : CSub α) : Bool := decide (zero < windArea s)

/-- the control polygon of a sub-path as a point list (`first`, then every control and end point) -/
def ctrlPoints : List (CSeg α) → List (P α)
  | [] => []
  | .line t :: r => t :: ctrlPoints r
  | .quad c t :: r => c :: t :: ctrlPoints r
  | .cubic c1 c2 t :: r => c1 :: c2 :: t :: ctrlPoints r

end Lyon.Winding
