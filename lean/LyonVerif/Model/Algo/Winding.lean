/-
  `crates/algorithms/src/{hit_test,area,winding}.rs` for polygonal paths.

  A polygonal path is a list of sub-paths, each a non-empty list of points; every sub-path is
  closed by its `End { last, first }` event (open sub-paths are implicitly closed, exactly as in
  `path_winding_number_at_position`).
-/
import LyonVerif.Model.Scalar

namespace Lyon.Winding
open Lyon Scalar

variable {α : Type} [Scalar α]

/-- `test_segment`: contribution of the directed segment `a → b` to the winding number at `q` -/
def testSegment (q a b : P α) : Int :=
  let y0 := a.y
  let y1 := b.y
  let minY := Scalar.min y0 y1
  let maxY := Scalar.max y0 y1
  if q.y < minY || maxY ≤ q.y || q.x < Scalar.min a.x b.x then 0
  else if y0 == y1 then 0
  else
    let d := y1 - y0
    let t := (q.y - y0) / d
    let x := (one - t) * a.x + t * b.x      -- `segment.sample(t).x` (euclid `Point2D::lerp`)
    if q.x < x then 0
    else if zero < d then 1 else -1

/-- edges of one sub-path including the closing edge -/
def subEdgesFrom (first : P α) : List (P α) → List (P α × P α)
  | [] => []
  | [p] => [(p, first)]
  | p :: q :: r => (p, q) :: subEdgesFrom first (q :: r)

def subEdges : List (P α) → List (P α × P α)
  | [] => []
  | p :: r => subEdgesFrom p (p :: r)

def pathEdges (subs : List (List (P α))) : List (P α × P α) := subs.flatMap subEdges

/-- `path_winding_number_at_position` -/
def windingAt (q : P α) (edges : List (P α × P α)) : Int :=
  edges.foldl (fun w e => w + testSegment q e.1 e.2) 0

/-- `hit_test_path`'s `match fill_rule` on the `i32` winding (Rust `%` truncates) -/
def hitRule (evenOdd : Bool) (w : Int) : Bool :=
  if evenOdd then w.tmod 2 != 0 else w != 0

def hitTest (evenOdd : Bool) (q : P α) (subs : List (List (P α))) : Bool :=
  hitRule evenOdd (windingAt q (pathEdges subs))

/-- `approximate_sub_path_signed_area`'s accumulation over `Line` events (v0, doubled area) -/
def areaLoop (first : P α) : P α → α → List (P α) → α
  | _, acc, [] => acc
  | v0, acc, p :: r =>
    let v1 := p - first
    areaLoop first v1 (acc + v0.cross v1) r

/-- `approximate_sub_path_signed_area` of a polyline sub-path `first :: rest`:
the `End` event adds `v0 × (last − first)` where `v0 = last − first` already. -/
def subArea : List (P α) → α
  | [] => zero
  | first :: rest =>
    let dbl := areaLoop first ⟨zero, zero⟩ zero rest
    let last := (first :: rest).getLast?.getD first
    let v0 := if rest.isEmpty then (⟨zero, zero⟩ : P α) else last - first
    (dbl + v0.cross (last - first)) * half

def pathArea (subs : List (List (P α))) : α :=
  subs.foldl (fun a s => a + subArea s) zero

/-- `compute_winding`: `Positive` (true) iff the doubled area is `> 0` -/
def computeWinding : List (P α) → Bool
  | [] => false
  | first :: rest =>
    let dbl := areaLoop first ⟨zero, zero⟩ zero rest
    let last := (first :: rest).getLast?.getD first
    let v0 := if rest.isEmpty then (⟨zero, zero⟩ : P α) else last - first
    decide (zero < dbl + v0.cross (last - first))

end Lyon.Winding
