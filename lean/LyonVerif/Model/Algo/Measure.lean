/-
  `crates/algorithms/src/measure.rs` (and `length.rs`): several sub-paths, closed/open, zero-length
  edges, single-point sub-paths, line / quadratic / cubic segments.

  Layout mirrors the Rust code:

  * `Step`/`init1`        — the 1-D core of `PathMeasurements::initialize`: the running `distance`
                            and the pushes into the edge table (lengths are given numbers here);
  * `initTable`           — the 2-D wrapper computing the lengths with `sqrt`;
  * `length`, `inBounds`, `fwdLin`, `bwdLin`, `partPt`, `floorLog2`, `heurFwd`, `heurBwd`,
    `moveCursorWith`, `moveCursor`, `tParam` — `PathSampler::{length, in_bounds, move_cursor, t}`;
    the float heuristic only selects between the linear scan and the binary search, so
    `moveCursorWith` takes the two selections as arguments and `moveCursor` supplies the heuristic;
  * `sampleImpl`, `sampleZeroLength`, `toSegment`, `interp` — `sample_impl` & co;
    the `unreachable!()` after the dispatch is the explicit outcome `SampleOut.panic`;
  * `splitPieces` (1-D: which event segments, which parameter ranges), `addSegment`,
    `splitRange` — `split_range` and what it sends to its output builder, as a `Path.Call` trace;
  * `step` — the sampler as a state machine `cursor → Query → cursor × Output`.

  Curved segments: `initialize` flattens them through `for_each_flattened_with_t`, taken from
  C09's model (`Model/Geom/Flatten.lean`); `sample_impl` / `split_range` evaluate and split them
  with C10's `Quad`/`Cubic` operations (`SegW`).  They are part of the executable model and of the
  tie (family `curved`); the theorems about the table's shape are stated for polyline paths
  (`Ev.isPoly` / `Step.isPoly`), the cursor/search/split-trace/length theorems for every table.

  Mathlib-free.
-/
import LyonVerif.Model.Scalar
import LyonVerif.Model.Path.Trace
import LyonVerif.Model.Geom.Flatten

namespace Lyon.Measure
open Lyon Scalar

variable {α : Type} [Scalar α]

/-! ## Events of a polyline path (what `path.id_iter()` + the position/attribute stores give) -/

inductive Ev (α : Type) where
  | begin (at_ : P α) (a : List α)
  | line (from_ to : P α) (af at_ : List α)
  | quad (from_ ctrl to : P α) (af at_ : List α)
  | cubic (from_ ctrl1 ctrl2 to : P α) (af at_ : List α)
  | end_ (last first : P α) (al af : List α) (close : Bool)
deriving Inhabited

/-- builder commands of the measured path (`begin`, `line_to`, `end(close)`) -/
inductive Cmd (α : Type) where
  | begin (p : P α) (a : List α)
  | line (p : P α) (a : List α)
  | quad (c p : P α) (a : List α)
  | cubic (c1 c2 p : P α) (a : List α)
  | end_ (close : Bool)

/-- the events `Path::id_iter` yields for a command list; `st = (first, firstAttrs, cur, curAttrs)` -/
def evsFrom : P α × List α × P α × List α → List (Cmd α) → List (Ev α)
  | _, [] => []
  | _, .begin p a :: r => .begin p a :: evsFrom (p, a, p, a) r
  | (f, fa, c, ca), .line p a :: r => .line c p ca a :: evsFrom (f, fa, p, a) r
  | (f, fa, c, ca), .quad k p a :: r => .quad c k p ca a :: evsFrom (f, fa, p, a) r
  | (f, fa, c, ca), .cubic k1 k2 p a :: r => .cubic c k1 k2 p ca a :: evsFrom (f, fa, p, a) r
  | (f, fa, c, ca), .end_ cl :: r => .end_ c f ca fa cl :: evsFrom (f, fa, c, ca) r

def evsOf (cmds : List (Cmd α)) : List (Ev α) :=
  evsFrom (⟨zero, zero⟩, [], ⟨zero, zero⟩, []) cmds

/-! ## Edge table -/

structure Edge (α : Type) where
  distance : α
  index : Nat
  t : α

def Edge.zero : Edge α := ⟨Scalar.zero, 0, Scalar.zero⟩

/-- What one event does to the table: nothing (`End {close: false}`), push the running distance
unchanged (`Begin`), add a length and push (`Line`, `End {close: true}`), or — for a curve — push
one entry per flattened line: `(line.length(), t.end)` each, all with the event's index. -/
inductive Step (α : Type) where
  | skip
  | mark
  | add (len : α)
  | many (entries : List (α × α))

def Step.isPoly : Step α → Bool
  | .many _ => false
  | _ => true

/-- the entries a flattened curve pushes: `distance += line.length(); push(distance, index, t.end)` -/
def pushMany : α → Nat → List (α × α) → List (Edge α)
  | _, _, [] => []
  | d, i, (l, t) :: r => ⟨d + l, i, t⟩ :: pushMany (d + l) i r

/-- the running distance after them -/
def sumMany : α → List (α × α) → α
  | d, [] => d
  | d, (l, _) :: r => sumMany (d + l) r

/-- 1-D core of `initialize`: running distance `d`, event index `i`. -/
def init1 : α → Nat → List (Step α) → List (Edge α)
  | _, _, [] => []
  | d, i, .skip :: r => init1 d (i+1) r
  | d, i, .mark :: r => ⟨d, i, one⟩ :: init1 d (i+1) r
  | d, i, .add l :: r => ⟨d + l, i, one⟩ :: init1 (d + l) (i+1) r
  | d, i, .many es :: r => pushMany d i es ++ init1 (sumMany d es) (i+1) r

/-- euclid `Vector2D::length` -/
def vlen [Transc α] (v : P α) : α := Transc.sqrt (v.x * v.x + v.y * v.y)

/-- euclid `Vector2D::normalize`: `self / self.length()` -/
def normalize [Transc α] (v : P α) : P α := v.sdiv (vlen v)

/-- `(line.length(), t.end)` of the lines `for_each_flattened_with_t` emits (C09's model of the
flattening; `none` there is the `to_u32().unwrap()` panic on a non-finite count, not reachable
from finite input) -/
def flatEntries [Transc α] (l : Option (List (FlatSeg α))) : List (α × α) :=
  (l.getD []).map (fun s => (vlen (s.b - s.a), s.t1))

/-- what one event does, at flattening tolerance `tol` (already `tolerance.max(1e-4)`) -/
def stepOf [Transc α] [FlatConst α] (tol : α) : Ev α → Step α
  | .begin _ _ => .mark
  | .line f t _ _ => .add (vlen (f - t))
  | .quad f c t _ _ => .many (flatEntries (Quad.forEachFlattenedWithT ⟨f, c, t⟩ tol))
  | .cubic f c1 c2 t _ _ => .many (flatEntries (Cubic.forEachFlattenedWithT ⟨f, c1, c2, t⟩ tol))
  | .end_ l f _ _ true => .add (vlen (l - f))
  | .end_ _ _ _ _ false => .skip

def Ev.isPoly : Ev α → Bool
  | .quad _ _ _ _ _ => false
  | .cubic _ _ _ _ _ _ => false
  | _ => true

/-- `PathMeasurements::initialize` (edge table) -/
def initTable [Transc α] [FlatConst α] (tol : α) (evs : List (Ev α)) : List (Edge α) :=
  init1 zero 0 (evs.map (stepOf tol))

/-- `QuadraticBezierSegment::length` (closed form ported from kurbo, with the Legendre-Gauss
branch for almost straight curves), as of /repo 7d678f98: `<=` test (a point has length 0),
quadrature weights applied to differences, `sqrt(a+b+c)` computed as `|to − ctrl|`, `2a+b` as
`2 d2·(to − ctrl)`, sharp-turn test relative to `c2`, guarded logarithm (`¬ (0 < num)` is true for
a NaN `num`, as `!(num > S::ZERO)` in Rust); `S::value(x)` literals are `f32` literals.
Same expression tree as `Quad.length` (`Model/Geom/Length.lean`). -/
def quadLength [Transc α] [FlatConst α] (q : Quad α) : α :=
  let d2 := q.a - q.c.smul two + q.b
  let d1 := q.c - q.a
  let d3 := q.b - q.c
  let a := d2.x * d2.x + d2.y * d2.y
  let c := d1.x * d1.x + d1.y * d1.y
  if a ≤ FlatConst.value 1 4 * c then
    let k1 : α := FlatConst.value 430331482911935 15
    let k2 : α := FlatConst.value 626120363218102 16
    let chord := q.b - q.a
    vlen (d1.smul k1 + chord.smul k2)
      + vlen (chord.smul (FlatConst.value 4444444444444444 16))
      + vlen (d3.smul k1 + chord.smul k2)
  else
    let b := two * (d2.x * d1.x + d2.y * d1.y)
    let sqrAbc := vlen d3
    let a2 := Transc.pow a (-half)
    let c2 := two * Transc.sqrt c
    let baC2 := b * a2 + c2
    let num := two * (d2.x * d3.x + d2.y * d3.y) * a2 + two * sqrAbc
    let v0 := half * half * a2 * a2 * b * (two * sqrAbc - c2) + sqrAbc
    if baC2 ≤ FlatConst.epsilon * c2 ∨ ¬ (zero < num) then v0
    else v0 + half * half * ((four * c * a - b * b) * a2 * a2 * a2) * Transc.ln (num / baC2)

/-- `CubicBezierSegment::approximate_length(tolerance)`: the lengths of the approximating quadratics -/
def cubicApproxLength [Transc α] [FlatConst α] (c : Cubic α) (tol : α) : α :=
  (c.forEachQuadraticWithT tol).foldl (fun l q => l + quadLength q.1) zero

/-- the loop of `length.rs: approximate_length` (`tol` already `tolerance.max(1e-4)`) -/
def approxLengthFrom [Transc α] [FlatConst α] (tol : α) : α → List (Ev α) → α
  | l, [] => l
  | l, .line f t _ _ :: r => approxLengthFrom tol (l + vlen (t - f)) r
  | l, .quad f c t _ _ :: r => approxLengthFrom tol (l + quadLength ⟨f, c, t⟩) r
  | l, .cubic f c1 c2 t _ _ :: r => approxLengthFrom tol (l + cubicApproxLength ⟨f, c1, c2, t⟩ tol) r
  | l, .end_ la fi _ _ true :: r => approxLengthFrom tol (l + vlen (fi - la)) r
  | l, _ :: r => approxLengthFrom tol l r

/-- `length.rs: approximate_length(path, tolerance)` -/
def approxLength [Transc α] [FlatConst α] (tolerance : α) (evs : List (Ev α)) : α :=
  approxLengthFrom (Scalar.max tolerance (ofSci 1 4)) zero evs

/-- the path with every curve replaced by the lines of its flattening (what `initialize` measures) -/
def flattenEvs [Transc α] [FlatConst α] (tol : α) : List (Ev α) → List (Ev α)
  | [] => []
  | .quad f c t af at_ :: r =>
    ((Quad.forEachFlattenedWithT ⟨f, c, t⟩ tol).getD []).map (fun s => Ev.line s.a s.b af at_)
      ++ flattenEvs tol r
  | .cubic f c1 c2 t af at_ :: r =>
    ((Cubic.forEachFlattenedWithT ⟨f, c1, c2, t⟩ tol).getD []).map (fun s => Ev.line s.a s.b af at_)
      ++ flattenEvs tol r
  | e :: r => e :: flattenEvs tol r

/-! ## Cursor search (1-D) -/

def eAt (es : List (Edge α)) (i : Nat) : Edge α := es.getD i Edge.zero
def dAt (es : List (Edge α)) (i : Nat) : α := (eAt es i).distance

/-- `PathMeasurements::length` / `PathSampler::length` -/
def length (es : List (Edge α)) : α :=
  if es.isEmpty then zero else dAt es (es.length - 1)

/-- `in_bounds` -/
def inBounds (es : List (Edge α)) (c : Nat) (dist : α) : Prop :=
  c ≠ 0 ∧ dAt es (c - 1) ≤ dist ∧ dist ≤ dAt es c

instance (es : List (Edge α)) (c : Nat) (dist : α) : Decidable (inBounds es c dist) :=
  inferInstanceAs (Decidable (_ ∧ _ ∧ _))

/-- forward linear scan: `loop { cursor += 1; if dist <= edges[cursor].distance { break } }`.
Fuel = number of remaining table entries; running out of fuel is the index-out-of-bounds panic
of the Rust code (the returned cursor is then `≥ edges.len()`). -/
def fwdLin (es : List (Edge α)) (dist : α) : Nat → Nat → Nat
  | 0, c => c + 1
  | fuel+1, c => if dist ≤ dAt es (c + 1) then c + 1 else fwdLin es dist fuel (c + 1)

/-- backward linear scan:
`loop { cursor -= 1; if cursor == 0 || edges[cursor - 1].distance < dist { break } }`
(argument = cursor before the decrement; `0` is the underflow of the Rust code). -/
def bwdLin (es : List (Edge α)) (dist : α) : Nat → Nat
  | 0 => 0
  | c+1 => if c = 0 ∨ dAt es (c - 1) < dist then c else bwdLin es dist c

/-- the local `partition_point(first, last, pred)`; fuel ≥ last − first suffices -/
def partPt (pred : Nat → Bool) : Nat → Nat → Nat → Nat
  | 0, l, _ => l
  | fuel+1, l, r =>
    if l < r then
      (if pred ((l + r) / 2) then partPt pred fuel ((l + r) / 2 + 1) r
       else partPt pred fuel l ((l + r) / 2))
    else l

/-- `floor_log2` (for `num ≥ 1`) -/
def floorLog2 (n : Nat) : Nat := Nat.log2 n

/-- `(dist - start) / len * (num as f32) < floor_log2(num) as f32`, forward direction -/
def heurFwd (es : List (Edge α)) (c : Nat) (dist : α) : Bool :=
  decide ((dist - dAt es c) / (length es - dAt es c) * ofNat (es.length - c - 1)
    < ofNat (floorLog2 (es.length - c - 1)))

/-- `(start - dist) / len * (num as f32) < floor_log2(num) as f32`, backward direction -/
def heurBwd (es : List (Edge α)) (c : Nat) (dist : α) : Bool :=
  decide ((dAt es c - dist) / dAt es c * ofNat (c + 1) < ofNat (floorLog2 (c + 1)))

def ltPred (es : List (Edge α)) (dist : α) (p : Nat) : Bool := decide (dAt es p < dist)

def searchFwd (lin : Bool) (es : List (Edge α)) (c : Nat) (dist : α) : Nat :=
  if lin then fwdLin es dist (es.length - c - 1) c
  else partPt (ltPred es dist) es.length (c + 1) es.length

def searchBwd (lin : Bool) (es : List (Edge α)) (c : Nat) (dist : α) : Nat :=
  if lin then bwdLin es dist c
  else partPt (ltPred es dist) (c + 1) 0 c

/-- the `dist == 0.0` branch of `move_cursor` (as repaired by /repo commit 72673fa5):
`cursor = 1; while cursor + 1 < edges.len() && edges[cursor].distance == 0.0 { cursor += 1 }` —
rest on the first entry of non-zero length.  Fuel `edges.len()` suffices. -/
def zeroScan (es : List (Edge α)) : Nat → Nat → Nat
  | 0, c => c
  | fuel+1, c => if c + 1 < es.length ∧ (dAt es c == zero) = true then zeroScan es fuel (c + 1) else c

/-- `move_cursor`, with the two branch selections (`linF`: forward scan is linear, `linB`:
backward scan is linear) as parameters -/
def moveCursorWith (linF linB : Bool) (es : List (Edge α)) (c : Nat) (dist : α) : Nat :=
  if dist == zero then zeroScan es es.length 1
  else if inBounds es c dist then c
  else if dAt es c < dist then searchFwd linF es c dist
  else searchBwd linB es c dist

/-- `move_cursor` as it runs: branches selected by the float heuristic -/
def moveCursor (es : List (Edge α)) (c : Nat) (dist : α) : Nat :=
  moveCursorWith (heurFwd es c dist) (heurBwd es c dist) es c dist

def tBegin (es : List (Edge α)) (c : Nat) : α :=
  if (eAt es (c - 1)).index = (eAt es c).index then (eAt es (c - 1)).t else zero

/-- `PathSampler::t` -/
def tParam (es : List (Edge α)) (c : Nat) (dist : α) : α :=
  tBegin es c + ((eAt es c).t - tBegin es c)
    * ((dist - dAt es (c - 1)) / (dAt es c - dAt es (c - 1)))

/-! ## Sampling -/

inductive SampleOut (α : Type) where
  | ok (pos tan : P α) (attrs : List α)
  | panic

/-- `interpolate_attributes`: `from[i] * (1.0 - t) + to[i] * t` -/
def interp (a b : List α) (t : α) : List α :=
  List.zipWith (fun x y => x * (one - t) + y * t) a b

def nan : α := (zero : α) / zero

structure M (α : Type) where
  evs : List (Ev α)
  edges : List (Edge α)
  nattr : Nat

/-- `PathMeasurements::from_path(path, tolerance)`: `tolerance.max(1e-4)` -/
def mk [Transc α] [FlatConst α] (nattr : Nat) (tolerance : α) (cmds : List (Cmd α)) : M α :=
  ⟨evsOf cmds, initTable (Scalar.max tolerance (ofSci 1 4)) (evsOf cmds), nattr⟩

def evAt (m : M α) (i : Nat) : Ev α := m.evs.getD i (.end_ ⟨zero, zero⟩ ⟨zero, zero⟩ [] [] false)

/-- `SegmentWrapper` (without `Empty`) -/
inductive SegW (α : Type) where
  | line (s : Seg α)
  | quad (q : Quad α)
  | cubic (c : Cubic α)

def SegW.sample : SegW α → α → P α
  | .line s, t => s.sample t
  | .quad q, t => q.sample t
  | .cubic c, t => c.sample t

def SegW.derivative : SegW α → α → P α
  | .line s, _ => s.toVector
  | .quad q, t => q.derivative t
  | .cubic c, t => c.derivative t

/-- `SegmentWrapper::split(range)` -/
def SegW.split : SegW α → α → α → SegW α
  | .line s, a, b => .line (s.splitRange a b)
  | .quad q, a, b => .quad (q.splitRange a b)
  | .cubic c, a, b => .cubic (c.splitRange a b)

def SegW.start : SegW α → P α
  | .line s => s.a
  | .quad q => q.a
  | .cubic c => c.a

/-- `to_segment`: the segment with the attributes of its two endpoints, or `Empty` (`none`) -/
def toSegment : Ev α → Option (SegW α × List α × List α)
  | .line f t af at_ => some (.line ⟨f, t⟩, af, at_)
  | .quad f c t af at_ => some (.quad ⟨f, c, t⟩, af, at_)
  | .cubic f c1 c2 t af at_ => some (.cubic ⟨f, c1, c2, t⟩, af, at_)
  | .end_ l f al af true => some (.line ⟨l, f⟩, al, af)
  | _ => none

/-- `sample_zero_length` -/
def sampleZeroLength (m : M α) : SampleOut α :=
  match m.evs with
  | .begin p a :: _ => .ok p ⟨zero, zero⟩ a
  | _ => .ok ⟨nan, nan⟩ ⟨nan, nan⟩ (List.replicate m.nattr nan)

/-- the dispatch at the end of `sample_impl`, with `unreachable!()` as `panic` -/
def sampleOn [Transc α] (m : M α) (c : Nat) (t : α) : SampleOut α :=
  match toSegment (evAt m (eAt m.edges c).index) with
  | some (sg, af, at_) => .ok (sg.sample t) (normalize (sg.derivative t)) (interp af at_ t)
  | none => .panic

/-- `dist *= length` (normalized), `dist.max(0.0).min(length)` -/
def clampDist (normalized : Bool) (len dist : α) : α :=
  Scalar.min (Scalar.max (if normalized then dist * len else dist) zero) len

/-- `sample_impl`: new cursor and result -/
def sampleImpl [Transc α] (m : M α) (c : Nat) (normalized : Bool) (dist : α) : Nat × SampleOut α :=
  if length m.edges == zero then (c, sampleZeroLength m)
  else
    (moveCursor m.edges c (clampDist normalized (length m.edges) dist),
     sampleOn m (moveCursor m.edges c (clampDist normalized (length m.edges) dist))
       (tParam m.edges (moveCursor m.edges c (clampDist normalized (length m.edges) dist))
         (clampDist normalized (length m.edges) dist)))

/-! ## split_range -/

/-- the clamped range of `split_range` -/
def splitStart (normalized : Bool) (len a : α) : α :=
  Scalar.min (Scalar.max (if normalized then a * len else a) zero) len

def splitEnd (normalized : Bool) (len a b : α) : α :=
  Scalar.min (Scalar.max (if normalized then b * len else b)
    (Scalar.max (if normalized then a * len else a) zero)) len

/-- one `add_segment` call: event index and optional parameter range -/
structure Piece (α : Type) where
  seg : Nat
  range : Option (α × α)

/-- 1-D content of `split_range` after the first sample: cursors `p1` (at `start`) and `p2`
(at `end`), and the `add_segment` calls that follow -/
def splitPieces (es : List (Edge α)) (p1 p2 : Nat) (s e : α) : List (Piece α) :=
  if (eAt es p1).index = (eAt es p2).index then
    [⟨(eAt es p1).index, some (tParam es p1 s, tParam es p2 e)⟩]
  else
    ⟨(eAt es p1).index, some (tParam es p1 s, one)⟩
      :: ((List.range' ((eAt es p1).index + 1) ((eAt es p2).index - ((eAt es p1).index + 1))).map
            (fun i => (⟨i, none⟩ : Piece α)))
      ++ [⟨(eAt es p2).index, some (zero, tParam es p2 e)⟩]

abbrev Call (α : Type) := Path.Call (P α) (List α)

/-- `obtain_attrs!(pair, k)` -/
def obtainAttrs (range : Option (α × α)) (af at_ : List α) (which : Bool) : List α :=
  match range with
  | some (_, e) => if e == one then (if which then at_ else af) else interp af at_ e
  | none => if which then at_ else af

def isEdgeEv : Ev α → Bool
  | .line _ _ _ _ => true
  | .quad _ _ _ _ _ => true
  | .cubic _ _ _ _ _ _ => true
  | _ => false

/-- `match range { Some(range) => segment.split(range), None => segment }` -/
def applyRange (range : Option (α × α)) (sg : SegW α) : SegW α :=
  match range with
  | some (t0, t1) => sg.split t0 t1
  | none => sg

/-- `dest.line_to / quadratic_bezier_to / cubic_bezier_to` of the (split) segment -/
def SegW.edgeCall : SegW α → List α → Call α
  | .line s, a => .line s.b a
  | .quad q, a => .quad q.c q.b a
  | .cubic c, a => .cubic c.c1 c.c2 c.b a

def segCalls (inSub : Bool) (range : Option (α × α)) (sg : SegW α) (af at_ : List α) : List (Call α) :=
  (if inSub then [] else
    [.end_ false, .begin (applyRange range sg).start (obtainAttrs range af at_ false)])
    ++ [(applyRange range sg).edgeCall (obtainAttrs range af at_ true)]

/-- `add_segment`: calls sent to the builder and the new `is_in_subpath` -/
def addSegment (m : M α) (p : Piece α) (inSub : Bool) : List (Call α) × Bool :=
  (match toSegment (evAt m p.seg) with
   | some (sg, af, at_) => segCalls inSub p.range sg af at_
   | none => [],
   isEdgeEv (evAt m p.seg))

def addSegments (m : M α) : List (Piece α) → Bool → List (Call α)
  | [], _ => []
  | p :: r, inSub => (addSegment m p inSub).1 ++ addSegments m r (addSegment m p inSub).2

inductive SplitOut (α : Type) where
  | ok (calls : List (Call α))
  | panic

/-- the part of `split_range` after the first `sample_impl` succeeded at cursor `p1` -/
def splitTail (m : M α) (p1 : Nat) (pos : P α) (attrs : List α) (s e : α) : Nat × SplitOut α :=
  (moveCursor m.edges p1 e,
   .ok (.begin pos attrs
     :: (addSegments m (splitPieces m.edges p1 (moveCursor m.edges p1 e) s e) true
          ++ [.end_ false])))

/-- `split_range`: new cursor and the calls sent to the output builder -/
def splitRange [Transc α] (m : M α) (c : Nat) (normalized : Bool) (a b : α) : Nat × SplitOut α :=
  if splitStart normalized (length m.edges) a < splitEnd normalized (length m.edges) a b then
    match sampleImpl m c false (splitStart normalized (length m.edges) a) with
    | (p1, .ok pos _ attrs) =>
      splitTail m p1 pos attrs (splitStart normalized (length m.edges) a)
        (splitEnd normalized (length m.edges) a b)
    | (p1, .panic) => (p1, .panic)
  else (c, .ok [])

/-! ## The sampler as a state machine -/

inductive Query (α : Type) where
  | sample (d : α)
  | split (a b : α)

inductive Output (α : Type) where
  | sample (o : SampleOut α)
  | split (o : SplitOut α)

def step [Transc α] (m : M α) (normalized : Bool) (c : Nat) : Query α → Nat × Output α
  | .sample d => ((sampleImpl m c normalized d).1, .sample (sampleImpl m c normalized d).2)
  | .split a b => ((splitRange m c normalized a b).1, .split (splitRange m c normalized a b).2)

def Output.isPanic : Output α → Bool
  | .sample .panic => true
  | .split .panic => true
  | _ => false

/-- run a query sequence on one sampler; stops after a panic (as the harness does) -/
def run [Transc α] (m : M α) (normalized : Bool) : Nat → List (Query α) → List (Output α)
  | _, [] => []
  | c, q :: r =>
    (step m normalized c q).2 ::
      (if (step m normalized c q).2.isPanic then [] else run m normalized (step m normalized c q).1 r)

end Lyon.Measure
