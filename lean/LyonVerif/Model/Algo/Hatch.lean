/-
  Model of `crates/algorithms/src/hatching.rs` (hatching and dot patterns), mirrored function by
  function, operand order included (the tie is bit-level at `Float32`).

  * `EventsBuilder::{begin, line_to, end, add_edge, build}`            → `EB.step`, `addEdge`, `buildEvents`
  * `compare_positions`                                               → `cmpPos`
  * `Hatcher::{hatch_path, hatch, update_sweep_line, hatch_line}`       → `hatch`, `hatchEdges`, `rowsWhile`,
                                                                        `rowStep`, `updateSweep`, `lineLoop`
  * `Ordered` + `sort_by_key` (stable)                                → `isort` with the strict `<` on keys
  * `HatchesToDots::{add_segment, next_offset}`, `modulo`, `Hatcher::dot` → `h2d`, `dotsOfSeg`, `dotLoop`, `modulo`
  * `RegularHatchingPattern`, `RegularDotPattern`                      → `regularHatch`, `regularDots`

  A `HatchBuilder` is a state-passing record (`Builder σ α`): `add_segment`/`next_offset` take and
  return the builder's state, exactly the `&mut dyn HatchBuilder` of the Rust code.

  Curved input is flattened by `lyon_path` before it reaches `add_edge`; the model starts at the
  `begin / line_to / end` calls (polygonal paths; any event order, as the release build has no
  validator).  Rotations are the matrix `(cos, sin)` that `euclid::Rotation2D::transform_point`
  builds from `sin_cos(angle)`.

  Mirrors the code after the two repairs
  * 9b281594 `fix: Hatcher produces no output for a path without edges instead of panicking`
    (`if events.edges.is_empty() { return; }` in front of `events.edges.first().unwrap()`), and
  * 6b2eb1e7 `fix: HatchesToDots divides by the segment's u-extent instead of normalizing`
    (`ab = (b.position - a) / (b.u - a.u)`).
  Before them the model returned `none` (= panic) on an empty edge list and used
  `normalize (pb - pa)`; the former witnesses are recorded in `Props/C20.lean`.

  Still as in the code: the `while y < …` loops have no progress guard other than `offset <= 0`
  (fuel in the model).
-/
import LyonVerif.Model.Geom.Basic

namespace Lyon.Hatch
open Lyon Scalar

variable {α : Type} [Scalar α]

/-! ## Rotation, ordering of positions -/

/-- `Rotation2D::transform_point` with `(sin, cos) = sin_cos(angle)` already evaluated:
`(x*cos - y*sin, y*cos + x*sin)` -/
def rot (c s : α) (p : P α) : P α := ⟨p.x * c - p.y * s, p.y * c + p.x * s⟩

/-- `compare_positions` -/
def cmpPos (a b : P α) : Ordering :=
  if b.y < a.y then .gt
  else if a.y < b.y then .lt
  else if b.x < a.x then .gt
  else if a.x < b.x then .lt
  else .eq

/-- Stable insertion: `x` (which precedes every element of the list in the original order) is
placed before the first element that is not strictly less than it. -/
def insertBy {β : Type} (lt : β → β → Bool) (x : β) : List β → List β
  | [] => [x]
  | y :: ys => if lt y x then y :: insertBy lt x ys else x :: y :: ys

/-- Stable sort (`slice::sort_by` / `sort_by_key`): for a comparison that is a strict weak order
the result of every stable sort is the same list. -/
def isort {β : Type} (lt : β → β → Bool) : List β → List β
  | [] => []
  | x :: xs => insertBy lt x (isort lt xs)

/-! ## EventsBuilder -/

/-- the edge pushed by `add_edge` once both ends are rotated: oriented downward -/
def orient (a b : P α) : Seg α :=
  if cmpPos a b == .gt then ⟨b, a⟩ else ⟨a, b⟩

/-- `EventsBuilder::add_edge` -/
def addEdge (c s : α) (edges : List (Seg α)) (a b : P α) : List (Seg α) :=
  if a == b then edges else edges ++ [orient (rot c s a) (rot c s b)]

/-- the `PathBuilder` calls that reach `EventsBuilder` for a polygonal path -/
inductive PEv (α : Type) where
  | begin (p : P α)
  | line (p : P α)
  | close
deriving Inhabited

structure EB (α : Type) where
  edges : List (Seg α)
  first : P α
  current : P α

/-- `begin`, `line_to`, `end` -/
def EB.step (c s : α) (b : EB α) : PEv α → EB α
  | .begin p => { b with first := p, current := p }
  | .line p => { b with edges := addEdge c s b.edges b.current p, current := p }
  | .close => { b with edges := addEdge c s b.edges b.current b.first }

/-- `sort_by(|a, b| compare_positions(a.from, b.from))` -/
def ltFrom (e f : Seg α) : Bool := cmpPos e.a f.a == .lt

/-- `HatchingEvents::set_path` = feed the events, then `build` (sort by `from`) -/
def buildEvents (c s : α) (evs : List (PEv α)) : List (Seg α) :=
  isort ltFrom (evs.foldl (EB.step c s) ⟨[], ⟨zero, zero⟩, ⟨zero, zero⟩⟩).edges

/-! ## Hatcher -/

/-- `HatchSegment` (+ the two rotated-frame abscissae `prev_x`, `x` it was computed from, which
the Rust code holds in locals; they are not printed) -/
structure HSeg (α : Type) where
  xa : α
  xb : α
  pa : P α
  ua : α
  ta : P α
  pb : P α
  ub : α
  tb : P α
  row : Nat
  v : α

/-- `&mut dyn HatchBuilder` -/
structure Builder (σ α : Type) where
  addSeg : σ → HSeg α → σ
  nextOff : σ → Nat → α × σ

/-- what `hatch` derives from `HatchingOptions` -/
structure Cfg (α : Type) where
  /-- `transform = Rotation::new(-angle)`: cos, sin of `-angle` -/
  ci : α
  si : α
  /-- `uv_origin = Rotation::new(angle).transform_point(options.uv_origin)` -/
  uvo : P α
  /-- `compute_tangents` -/
  ct : Bool
  /-- `vector(NAN, NAN)` (a parameter: fields have no NaN) -/
  nan : P α

/-- `LineSegment::solve_x_for_y` = `x(solve_t_for_y(y))` -/
def solveX (e : Seg α) (y : α) : α := e.x (e.solveTForY y)

/-- `Vector2D::normalize`: `self / self.length()` -/
def normalize [Transc α] (v : P α) : P α := v.sdiv (Transc.sqrt (v.x * v.x + v.y * v.y))

/-- `transform.transform_vector(active_edge.to_vector()).normalize()`, or the NaN vector the
locals were initialised with when `compute_tangents` is off -/
def tangentOf [Transc α] (cfg : Cfg α) (e : Seg α) : P α :=
  if cfg.ct then normalize (rot cfg.ci cfg.si (e.b - e.a)) else cfg.nan

/-- the fields `hatch_line` writes before `output.add_segment(&self.segment)` -/
def mkSeg (cfg : Cfg α) (y : α) (row : Nat) (px x : α) (pt t : P α) : HSeg α :=
  { xa := px, xb := x,
    pa := rot cfg.ci cfg.si ⟨px, y⟩, ua := px - cfg.uvo.x, ta := pt,
    pb := rot cfg.ci cfg.si ⟨x, y⟩, ub := x - cfg.uvo.x, tb := t,
    row := row, v := y - cfg.uvo.y }

/-- the `for active_edge in &self.active_edges` loop of `hatch_line`:
state `(inside, prev_x, prev_tangent)`; returns the segments in the order they are emitted -/
def lineLoop [Transc α] (cfg : Cfg α) (y : α) (row : Nat) :
    List (Seg α) → Bool → α → P α → List (HSeg α)
  | [], _, _, _ => []
  | e :: es, inside, px, pt =>
    if e.b.y ≤ y then lineLoop cfg y row es inside px pt
    else if inside then
      mkSeg cfg y row px (solveX e y) pt (tangentOf cfg e)
        :: lineLoop cfg y row es false (solveX e y) (tangentOf cfg e)
    else lineLoop cfg y row es true (solveX e y) (tangentOf cfg e)

/-- `sort_by_key(|e| Ordered(e.solve_x_for_y(y)))`; `Ordered::cmp` is `Less` iff `a.0 < b.0` -/
def sortActive (y : α) (l : List (Seg α)) : List (Seg α) :=
  isort (fun e f => decide (solveX e y < solveX f y)) l

/-- `update_sweep_line` -/
def updateSweep (act : List (Seg α)) (e : Seg α) : List (Seg α) :=
  act.filter (fun a => cmpPos a.b e.a != .lt) ++ [e]

/-- one hatched row, kept for the theorems (the builder only sees `segs`) -/
structure Row (α : Type) where
  idx : Nat
  y : α
  /-- the active list after the sort of `hatch_line` -/
  active : List (Seg α)
  segs : List (HSeg α)

structure St (σ α : Type) where
  b : σ
  y : α
  ymax : α
  active : List (Seg α)
  row : Nat
  /-- rows hatched so far, newest first -/
  rows : List (Row α)
  /-- offsets returned by `next_offset` so far, newest first -/
  offs : List α
  /-- `return` taken (`offset <= 0.0`) -/
  stop : Bool
  fuelOut : Bool

variable {σ : Type}

/-- body of `while y < … { hatch_line(y); offset = next_offset(row); y += offset; … }` -/
def rowStep [Transc α] (cfg : Cfg α) (B : Builder σ α) (st : St σ α) : St σ α :=
  let act := sortActive st.y st.active
  let segs := lineLoop cfg st.y st.row act false cfg.nan.x cfg.nan
  let r := B.nextOff (segs.foldl B.addSeg st.b) (st.row + 1)
  { b := r.2, y := st.y + r.1, ymax := st.ymax, active := act, row := st.row + 1,
    rows := ⟨st.row, st.y, act, segs⟩ :: st.rows, offs := r.1 :: st.offs,
    stop := decide (r.1 ≤ zero), fuelOut := false }

/-- `while y < bound { … if offset <= 0.0 { return } }` -/
def rowsWhile [Transc α] (cfg : Cfg α) (B : Builder σ α) : Nat → α → St σ α → St σ α
  | 0, bound, st => if st.y < bound then { st with fuelOut := true } else st
  | f+1, bound, st =>
    if st.y < bound then
      (if (rowStep cfg B st).stop then rowStep cfg B st
       else rowsWhile cfg B f bound (rowStep cfg B st))
    else st

/-- `for edge in &events.edges { while y < edge.from.y {…}; y_max = max(y_max, edge.to.y);
update_sweep_line(edge) }` -/
def hatchEdges [Transc α] (cfg : Cfg α) (B : Builder σ α) (fuel : Nat) :
    List (Seg α) → St σ α → St σ α
  | [], st => st
  | e :: es, st =>
    if (rowsWhile cfg B fuel e.a.y st).stop || (rowsWhile cfg B fuel e.a.y st).fuelOut
    then rowsWhile cfg B fuel e.a.y st
    else hatchEdges cfg B fuel es
      { rowsWhile cfg B fuel e.a.y st with
        ymax := Scalar.max (rowsWhile cfg B fuel e.a.y st).ymax e.b.y,
        active := updateSweep (rowsWhile cfg B fuel e.a.y st).active e }

def initSt (b : σ) (y0 off0 : α) : St σ α :=
  { b := b, y := y0, ymax := y0, active := [], row := 0, rows := [], offs := [off0],
    stop := false, fuelOut := false }

def finish [Transc α] (cfg : Cfg α) (B : Builder σ α) (fuel : Nat) (st : St σ α) : St σ α :=
  if st.stop || st.fuelOut then st else rowsWhile cfg B fuel st.ymax st

/-- the state `hatch` leaves behind when it returns at the `is_empty` guard: the builder has not
been called -/
def emptySt (b0 : σ) : St σ α :=
  { b := b0, y := zero, ymax := zero, active := [], row := 0, rows := [], offs := [],
    stop := false, fuelOut := false }

/-- `Hatcher::hatch`: `if events.edges.is_empty() { return; }`, then
`events.edges.first().unwrap()` — `none` would be the `unwrap()` of `None` (a panic); the guard
makes it unreachable (`hatch_total`). -/
def hatch [Transc α] (cfg : Cfg α) (B : Builder σ α) (fuel : Nat) (edges : List (Seg α)) (b0 : σ) :
    Option (St σ α) :=
  if edges.isEmpty then some (emptySt b0) else
  match edges.head? with
  | none => none
  | some e0 =>
    some (finish cfg B fuel
      (hatchEdges cfg B fuel edges
        (initSt (B.nextOff b0 0).2 (e0.a.y + (B.nextOff b0 0).1) (B.nextOff b0 0).1)))

/-- `HatchingOptions` -/
structure Options (α : Type) where
  angle : α
  uvo : P α
  ct : Bool

def mkCfg [Transc α] (o : Options α) (nan : P α) : Cfg α :=
  { ci := Transc.cos (-o.angle), si := Transc.sin (-o.angle),
    uvo := rot (Transc.cos o.angle) (Transc.sin o.angle) o.uvo, ct := o.ct, nan := nan }

/-- `Hatcher::hatch_path` on a polygonal event stream -/
def hatchPath [Transc α] (o : Options α) (nan : P α) (B : Builder σ α) (fuel : Nat)
    (evs : List (PEv α)) (b0 : σ) : Option (St σ α) :=
  hatch (mkCfg o nan) B fuel (buildEvents (Transc.cos o.angle) (Transc.sin o.angle) evs) b0

/-! ## Patterns -/

/-- what a logging `HatchBuilder` sees -/
inductive HItem (α : Type) where
  | off (row : Nat)
  | seg (s : HSeg α)

/-- a `HatchBuilder` whose `next_offset(row)` is a function of the row, recording its calls
(newest first).  `RegularHatchingPattern { interval }` is `offs = fun _ => interval`. -/
def logHatch (offs : Nat → α) : Builder (List (HItem α)) α :=
  { addSeg := fun t s => .seg s :: t, nextOff := fun t row => (offs row, .off row :: t) }

def regularHatch (interval : α) : Builder (List (HItem α)) α := logHatch (fun _ => interval)

/-! ## Dots -/

structure Dot (α : Type) where
  pos : P α
  u : α
  v : α
  col : Nat
  row : Nat

/-- a `DotBuilder` whose offsets are functions of `(column, row)` -/
structure DotPat (α : Type) where
  firstCol : Nat → α
  align : Nat → Option α
  rowOff : Nat → Nat → α
  colOff : Nat → Nat → α

/-- `RegularDotPattern` -/
def regularDots (columnInterval rowInterval : α) : DotPat α :=
  { firstCol := fun _ => zero, align := fun _ => some columnInterval,
    rowOff := fun _ _ => rowInterval, colOff := fun _ _ => columnInterval }

/-- `fn modulo(a, m)` -/
def modulo [Transc α] (a m : α) : α :=
  if zero ≤ a then Transc.fmod a m else m + Transc.fmod a m

/-- `u` after the alignment step of `add_segment` -/
def alignU [Transc α] (u0 ua : α) : Option α → α
  | none => u0
  | some d => if modulo ua d == zero then u0 else u0 + (d - modulo ua d)

/-- `while u_start + u < segment.b.u { add_dot; column += 1; du = next_column_offset(column,row);
if du <= 0 { return }; u += du }` — the dots in emission order -/
def dotLoop (pat : DotPat α) (s : HSeg α) (ab : P α) : Nat → Nat → α → List (Dot α)
  | 0, _, _ => []
  | f+1, col, u =>
    if s.ua + u < s.ub then
      ⟨s.pa + ab.smul u, s.ua + u, s.v, col, s.row⟩ ::
        (if pat.colOff (col + 1) s.row ≤ zero then []
         else dotLoop pat s ab f (col + 1) (u + pat.colOff (col + 1) s.row))
    else []

/-- the dots `HatchesToDots::add_segment` emits for one hatch segment, starting at `column` -/
def dotsOfSeg [Transc α] (pat : DotPat α) (fuel : Nat) (s : HSeg α) (col : Nat) : List (Dot α) :=
  dotLoop pat s ((s.pb - s.pa).sdiv (s.ub - s.ua)) fuel col
    (alignU (pat.firstCol s.row) s.ua (pat.align s.row))

inductive DItem (α : Type) where
  | rowOff (col row : Nat)
  | dot (d : Dot α)

/-- state of `HatchesToDots` + the log of what the wrapped `DotBuilder` saw (newest first) -/
structure H2D (α : Type) where
  log : List (DItem α)
  column : Nat
  fuelOut : Bool

/-- `impl HatchBuilder for HatchesToDots` -/
def h2d [Transc α] (pat : DotPat α) (fuel : Nat) : Builder (H2D α) α :=
  { addSeg := fun st s =>
      { log := ((dotsOfSeg pat fuel s st.column).map DItem.dot).reverse ++ st.log,
        column := st.column + (dotsOfSeg pat fuel s st.column).length,
        fuelOut := st.fuelOut || decide (fuel ≤ (dotsOfSeg pat fuel s st.column).length) },
    nextOff := fun st row =>
      (pat.rowOff st.column row, { st with log := .rowOff st.column row :: st.log, column := 0 }) }

/-- `Hatcher::dot_path`: `dot` wraps the builder and calls `hatch` with `compute_tangents: false` -/
def dotPath [Transc α] (angle : α) (uvo nan : P α) (pat : DotPat α) (fuel : Nat)
    (evs : List (PEv α)) : Option (St (H2D α) α) :=
  hatchPath ⟨angle, uvo, false⟩ nan (h2d pat fuel) fuel evs ⟨[], 0, false⟩

end Lyon.Hatch
