/-
  The `Hatcher` as an OBJECT: what survives a call, and `hatch_path` / `dot_path` run on a Hatcher
  that has served earlier calls.

  `Model/Algo/Hatch.lean` models one call on a new `Hatcher` (its `initSt` starts with
  `active := []`, `row := 0`, and `lineLoop` takes every emitted field from the call's `Cfg`).  The
  Rust code keeps all of that in `self`:

      pub struct Hatcher {
          events: HatchingEvents,       // the edge list of the last call (capacity reuse)
          active_edges: Vec<Edge>,      // the sweep's active list — left as the last row sorted it
          transform: Rotation,          // Rotation::new(-angle) of the last call (euclid stores the angle)
          compute_tangents: bool,
          segment: HatchSegment,        // the segment last emitted; `row` = number of rows hatched
          uv_origin: Point,
      }

  Here every function reads what the Rust code reads from `self` from an `Obj`, and writes what it
  writes:

  * `hatch_path` / `dot_path`: `mem::replace(&mut self.events, new())`, `events.set_path(…)`
    (`self.edges.clear()` first, then the `EventsBuilder` pushes onto that vector), `self.hatch(&events, …)`,
    `self.events = events`                                                   → `setPath`, `objHatchPath`, `objDotPath`
  * `hatch`'s prologue (`self.transform = …; self.uv_origin = …; self.active_edges.clear();
    self.segment.row = 0; self.segment.{a,b}.tangent = NaN; self.compute_tangents = …`)  → `objPrologue`
  * `hatch_line`: sorts `self.active_edges` in place, writes `self.segment.v`, then per crossing
    `self.segment.{a,b}.{position,u}` and — only `if self.compute_tangents` — the tangents; the
    builder is handed `&self.segment`; `self.segment.row += 1`                 → `objLineLoop`, `objHatchLine`
  * `update_sweep_line`: `self.active_edges.retain(…); push`                   → `updateSweep` on `Obj.active`
  * the two row loops with their early `return`s (`offset <= 0.0`): whatever the object holds at
    that moment is what the next call finds                                    → `objRowsWhile`, `objHatchEdges`, `objFinish`

  A history is a list of `Call`s run on one object (`runHistory`); the driver prints the trace of
  every call and the harness does the same on one real `Hatcher` (tie, bit for bit).

  `Props/C20b.lean` proves that for EVERY object state the output of a call equals the output of
  the one-call model of `Hatch.lean` (`hatch_used_is_model`, `hatch_history_fresh`): the prologue
  overwrites every field before it is read.  The proof needs no arithmetic law at all, so it holds
  at `Float32` too.
-/
import LyonVerif.Model.Algo.Hatch
import LyonVerif.Model.Algo.HatchCurves

namespace Lyon.Hatch
open Lyon Scalar

variable {α : Type} [Scalar α]

/-- `struct Hatcher` -/
structure Obj (α : Type) where
  /-- `events.edges` -/
  events : List (Seg α)
  /-- `active_edges` -/
  active : List (Seg α)
  /-- `transform`: the angle the `Rotation2D` holds (`transform_point` evaluates `sin_cos` of it) -/
  tr : α
  /-- `compute_tangents` -/
  ct : Bool
  /-- `segment` (`HSeg.xa`, `xb` are the ghost abscissae of `Hatch.lean`; Rust has no such field) -/
  seg : HSeg α
  /-- `uv_origin` -/
  uvo : P α

/-- `Hatcher::new()` -/
def Obj.fresh (nan : P α) : Obj α :=
  { events := [], active := [], tr := zero, ct := true,
    seg := { xa := zero, xb := zero, pa := ⟨zero, zero⟩, ua := zero, ta := nan,
             pb := ⟨zero, zero⟩, ub := zero, tb := nan, row := 0, v := zero },
    uvo := ⟨zero, zero⟩ }

/-- `Vec::clear` -/
def vclear {β : Type} (_ : List β) : List β := []

/-- `HatchingEvents::set_path` on the edge vector of the previous call: `self.edges.clear()`, the
builder pushes onto that vector, `build` sorts it -/
def setPath (old : List (Seg α)) (c s : α) (evs : List (PEv α)) : List (Seg α) :=
  isort ltFrom (evs.foldl (EB.step c s) ⟨vclear old, ⟨zero, zero⟩, ⟨zero, zero⟩⟩).edges

/-- the prologue of `Hatcher::hatch` -/
def objPrologue [Transc α] (h : Obj α) (o : Options α) (nan : P α) : Obj α :=
  { h with
    tr := -o.angle,
    uvo := rot (Transc.cos o.angle) (Transc.sin o.angle) o.uvo,
    active := vclear h.active,
    seg := { h.seg with row := 0, ta := nan, tb := nan },
    ct := o.ct }

/-- `if self.compute_tangents { tangent = self.transform.transform_vector(e.to_vector()).normalize() }`
(`tangent` is a local of `hatch_line` that lives across the iterations) -/
def objTangent [Transc α] (ci si : α) (ct : Bool) (e : Seg α) (t : P α) : P α :=
  if ct then normalize (rot ci si (e.b - e.a)) else t

/-- the writes to `self.segment` in front of `output.add_segment(&self.segment)` -/
def writeSeg (ci si : α) (uvo : P α) (ct : Bool) (y px x : α) (pt t : P α) (sg : HSeg α) : HSeg α :=
  { sg with
    xa := px, xb := x,
    pa := rot ci si ⟨px, y⟩,
    pb := rot ci si ⟨x, y⟩,
    ua := px - uvo.x,
    ub := x - uvo.x,
    ta := if ct then pt else sg.ta,
    tb := if ct then t else sg.tb }

/-- `(emitted, rest)` ↦ `(s :: emitted, rest)` -/
def consFst {β γ : Type} (s : β) (r : List β × γ) : List β × γ := (s :: r.1, r.2)

/-- the `for active_edge in &self.active_edges` loop of `hatch_line` on the object's fields:
locals `(inside, prev_x, prev_tangent, tangent)`, and `self.segment`; returns the segments handed
to the builder (in order) and `self.segment` after the loop -/
def objLineLoop [Transc α] (ci si : α) (uvo : P α) (ct : Bool) (y : α) :
    List (Seg α) → Bool → α → P α → P α → HSeg α → List (HSeg α) × HSeg α
  | [], _, _, _, _, sg => ([], sg)
  | e :: es, inside, px, pt, t, sg =>
    if e.b.y ≤ y then objLineLoop ci si uvo ct y es inside px pt t sg
    else if inside then
      consFst (writeSeg ci si uvo ct y px (solveX e y) pt (objTangent ci si ct e t) sg)
        (objLineLoop ci si uvo ct y es false (solveX e y)
          (objTangent ci si ct e t) (objTangent ci si ct e t)
          (writeSeg ci si uvo ct y px (solveX e y) pt (objTangent ci si ct e t) sg))
    else objLineLoop ci si uvo ct y es true (solveX e y)
          (objTangent ci si ct e t) (objTangent ci si ct e t) sg

/-- `self.segment.row += 1` -/
def bumpRow (sg : HSeg α) : HSeg α := { sg with row := sg.row + 1 }

/-- `Hatcher::hatch_line`: the segments handed to the builder, and `self` afterwards -/
def objHatchLine [Transc α] (nan : P α) (h : Obj α) (y : α) : List (HSeg α) × Obj α :=
  ((objLineLoop (Transc.cos h.tr) (Transc.sin h.tr) h.uvo h.ct y (sortActive y h.active)
      false nan.x nan nan { h.seg with v := y - h.uvo.y }).1,
   { h with
     active := sortActive y h.active,
     seg := bumpRow (objLineLoop (Transc.cos h.tr) (Transc.sin h.tr) h.uvo h.ct y
       (sortActive y h.active) false nan.x nan nan { h.seg with v := y - h.uvo.y }).2 })

/-- `self` + the locals of `hatch` + the builder (`rows`, `offs`: ghosts as in `St`) -/
structure OSt (σ α : Type) where
  h : Obj α
  b : σ
  y : α
  ymax : α
  rows : List (Row α)
  offs : List α
  stop : Bool
  fuelOut : Bool

variable {σ : Type}

/-- what the one-call model's state records: `active` and `row` are fields of the object -/
def OSt.toSt (s : OSt σ α) : St σ α :=
  { b := s.b, y := s.y, ymax := s.ymax, active := s.h.active, row := s.h.seg.row,
    rows := s.rows, offs := s.offs, stop := s.stop, fuelOut := s.fuelOut }

/-- body of `while y < … { self.hatch_line(y, output); let offset = output.next_offset(self.segment.row);
y += offset; if offset <= 0.0 { return; } }` -/
def objRowStep [Transc α] (nan : P α) (B : Builder σ α) (st : OSt σ α) : OSt σ α :=
  let hl := objHatchLine nan st.h st.y
  let r := B.nextOff (hl.1.foldl B.addSeg st.b) hl.2.seg.row
  { h := hl.2, b := r.2, y := st.y + r.1, ymax := st.ymax,
    rows := ⟨st.h.seg.row, st.y, hl.2.active, hl.1⟩ :: st.rows, offs := r.1 :: st.offs,
    stop := decide (r.1 ≤ zero), fuelOut := false }

def objRowsWhile [Transc α] (nan : P α) (B : Builder σ α) : Nat → α → OSt σ α → OSt σ α
  | 0, bound, st => if st.y < bound then { st with fuelOut := true } else st
  | f+1, bound, st =>
    if st.y < bound then
      (if (objRowStep nan B st).stop then objRowStep nan B st
       else objRowsWhile nan B f bound (objRowStep nan B st))
    else st

/-- `y_max = f32::max(y_max, edge.to.y); self.update_sweep_line(edge)` -/
def objSweep (st : OSt σ α) (e : Seg α) : OSt σ α :=
  { st with ymax := Scalar.max st.ymax e.b.y,
            h := { st.h with active := updateSweep st.h.active e } }

def objHatchEdges [Transc α] (nan : P α) (B : Builder σ α) (fuel : Nat) :
    List (Seg α) → OSt σ α → OSt σ α
  | [], st => st
  | e :: es, st =>
    if (objRowsWhile nan B fuel e.a.y st).stop || (objRowsWhile nan B fuel e.a.y st).fuelOut
    then objRowsWhile nan B fuel e.a.y st
    else objHatchEdges nan B fuel es (objSweep (objRowsWhile nan B fuel e.a.y st) e)

def objFinish [Transc α] (nan : P α) (B : Builder σ α) (fuel : Nat) (st : OSt σ α) : OSt σ α :=
  if st.stop || st.fuelOut then st else objRowsWhile nan B fuel st.ymax st

def objInit (h : Obj α) (b : σ) (y0 off0 : α) : OSt σ α :=
  { h := h, b := b, y := y0, ymax := y0, rows := [], offs := [off0], stop := false, fuelOut := false }

/-- the state at the `is_empty` return: only the prologue has run -/
def objEmpty (h : Obj α) (b0 : σ) : OSt σ α :=
  { h := h, b := b0, y := zero, ymax := zero, rows := [], offs := [], stop := false, fuelOut := false }

/-- `Hatcher::hatch` on any `self` -/
def objHatch [Transc α] (h : Obj α) (o : Options α) (nan : P α) (B : Builder σ α) (fuel : Nat)
    (edges : List (Seg α)) (b0 : σ) : Option (OSt σ α) :=
  if edges.isEmpty then some (objEmpty (objPrologue h o nan) b0) else
  match edges.head? with
  | none => none
  | some e0 =>
    some (objFinish nan B fuel
      (objHatchEdges nan B fuel edges
        (objInit (objPrologue h o nan) (B.nextOff b0 0).2 (e0.a.y + (B.nextOff b0 0).1)
          (B.nextOff b0 0).1)))

/-- `self.events = events` -/
def OSt.putEvents (s : OSt σ α) (ev : List (Seg α)) : OSt σ α := { s with h := { s.h with events := ev } }

/-- `Hatcher::hatch_path` on any `self` (polygonal stream): `mem::replace(&mut self.events, new())`,
`set_path`, `hatch`, `self.events = events` -/
def objHatchPath [Transc α] (h : Obj α) (o : Options α) (nan : P α) (B : Builder σ α) (fuel : Nat)
    (evs : List (PEv α)) (b0 : σ) : Option (OSt σ α) :=
  (objHatch { h with events := [] } o nan B fuel
    (setPath h.events (Transc.cos o.angle) (Transc.sin o.angle) evs) b0).map
    (fun s => s.putEvents (setPath h.events (Transc.cos o.angle) (Transc.sin o.angle) evs))

/-- `Hatcher::dot_path` on any `self`: a new `HatchesToDots { column: 0 }` per call,
`compute_tangents: false` -/
def objDotPath [Transc α] (h : Obj α) (angle : α) (uvo nan : P α) (pat : DotPat α) (fuel : Nat)
    (evs : List (PEv α)) : Option (OSt (H2D α) α) :=
  objHatchPath h ⟨angle, uvo, false⟩ nan (h2d pat fuel) fuel evs ⟨[], 0, false⟩

section curved
variable [Transc α] [FlatConst α]

/-- `hatch_path` on any event stream; `none` = the flattening inside `set_path` panicked -/
def objHatchPathCurved (h : Obj α) (o : Options α) (tol : α) (nan : P α) (B : Builder σ α)
    (fuel : Nat) (evs : List (CEv α)) (b0 : σ) : Option (OSt σ α) :=
  match flattenEvents tol evs ⟨zero, zero⟩ with
  | none => none
  | some pe => objHatchPath h o nan B fuel pe b0

def objDotPathCurved (h : Obj α) (angle tol : α) (uvo nan : P α) (pat : DotPat α) (fuel : Nat)
    (evs : List (CEv α)) : Option (OSt (H2D α) α) :=
  match flattenEvents tol evs ⟨zero, zero⟩ with
  | none => none
  | some pe => objDotPath h angle uvo nan pat fuel pe

/-! ## Histories -/

/-- one call on the object, with a logging pattern (`logHatch offs`: any `HatchBuilder` whose
offsets are a function of the row, `RegularHatchingPattern` included; `DotPat`: any `DotBuilder`
whose offsets are functions of `(column, row)`, `RegularDotPattern` included) -/
inductive Call (α : Type) where
  | hatch (o : Options α) (tol : α) (offs : Nat → α) (evs : List (CEv α))
  | dots (angle : α) (uvo : P α) (tol : α) (pat : DotPat α) (evs : List (CEv α))

/-- what the pattern of one call saw (callbacks newest first, as `logHatch` / `h2d` record them) -/
inductive Trace (α : Type) where
  | hatch (items : List (HItem α)) (fuelOut : Bool)
  | dots (items : List (DItem α)) (fuelOut : Bool)
  | panic

def hatchTraceOf (r : Option (OSt (List (HItem α)) α)) : Trace α :=
  match r with
  | none => .panic
  | some s => .hatch s.b s.fuelOut

def dotTraceOf (r : Option (OSt (H2D α) α)) : Trace α :=
  match r with
  | none => .panic
  | some s => .dots s.b.log (s.fuelOut || s.b.fuelOut)

/-- the object after a call (after a panic the case ends; the object is not used again) -/
def objAfter {τ : Type} (h : Obj α) (r : Option (OSt τ α)) : Obj α :=
  match r with
  | none => h
  | some s => s.h

/-- run one call on `h`: its trace and the object afterwards -/
def Call.run (nan : P α) (fuel : Nat) (h : Obj α) : Call α → Trace α × Obj α
  | .hatch o tol offs evs =>
    let r := objHatchPathCurved h o tol nan (logHatch offs) fuel evs []
    (hatchTraceOf r, objAfter h r)
  | .dots angle uvo tol pat evs =>
    let r := objDotPathCurved h angle tol uvo nan pat fuel evs
    (dotTraceOf r, objAfter h r)

def Trace.isPanic : Trace α → Bool
  | .panic => true
  | _ => false

/-- the traces of a list of calls on ONE object, in order; ends at a panic -/
def runHistory (nan : P α) (fuel : Nat) : Obj α → List (Call α) → List (Trace α)
  | _, [] => []
  | h, c :: cs =>
    match c.run nan fuel h with
    | (t, h1) => if t.isPanic then [t] else t :: runHistory nan fuel h1 cs

/-- the same calls, each on its own new `Hatcher` (the one-call model of `Hatch.lean` /
`HatchCurves.lean`) -/
def Call.runFresh (nan : P α) (fuel : Nat) : Call α → Trace α
  | .hatch o tol offs evs =>
    match hatchPathCurved o tol nan (logHatch offs) fuel evs [] with
    | none => .panic
    | some s => .hatch s.b s.fuelOut
  | .dots angle uvo tol pat evs =>
    match dotPathCurved angle tol uvo nan pat fuel evs with
    | none => .panic
    | some s => .dots s.b.log (s.fuelOut || s.b.fuelOut)

/-- cut a list of traces after its first panic -/
def cutAtPanic : List (Trace α) → List (Trace α)
  | [] => []
  | t :: ts => if t.isPanic then [t] else t :: cutAtPanic ts

end curved

end Lyon.Hatch
