/-
  Curved input of the hatcher: `EventsBuilder::{quadratic_bezier_to, cubic_bezier_to}` call
  `lyon_path::private::flatten_{quadratic,cubic}_bezier(tolerance, self.current, …, self, …)`,
  which runs `for_each_flattened_with_t` of the curve (model: `Model/Geom/Flatten.lean`, property
  C09) and calls `self.line_to(line.to)` for every emitted line.  So a curved event stream is the
  polygonal stream obtained by replacing each curve by `line_to`s; everything proved about
  `hatchPath` on polygonal streams applies to the result.

  `none` = the flattening panics (`count.to_u32().unwrap()` on a segment count ≥ 2^32).
-/
import LyonVerif.Model.Algo.Hatch
import LyonVerif.Model.Geom.Flatten

namespace Lyon.Hatch
open Lyon Scalar

variable {α : Type} [Scalar α] [Transc α] [FlatConst α]

inductive CEv (α : Type) where
  | begin (p : P α)
  | line (p : P α)
  | quad (c p : P α)
  | cubic (c1 c2 p : P α)
  | close
deriving Inhabited

/-- the `line_to` calls of one flattened curve, and `self.current` afterwards -/
def curveLines (cur : P α) (segs : List (FlatSeg α)) : List (PEv α) × P α :=
  ((FlatSeg.points segs).map PEv.line, (FlatSeg.points segs).getLast?.getD cur)

/-- the polygonal calls `EventsBuilder` ends up making; the second argument is `self.current` -/
def flattenEvents (tol : α) : List (CEv α) → P α → Option (List (PEv α))
  | [], _ => some []
  | .begin p :: r, _ => (flattenEvents tol r p).map (PEv.begin p :: ·)
  | .line p :: r, _ => (flattenEvents tol r p).map (PEv.line p :: ·)
  | .quad c p :: r, cur =>
    match Quad.forEachFlattenedWithT ⟨cur, c, p⟩ tol with
    | none => none
    | some segs => (flattenEvents tol r (curveLines cur segs).2).map ((curveLines cur segs).1 ++ ·)
  | .cubic c1 c2 p :: r, cur =>
    match Cubic.forEachFlattenedWithT ⟨cur, c1, c2, p⟩ tol with
    | none => none
    | some segs => (flattenEvents tol r (curveLines cur segs).2).map ((curveLines cur segs).1 ++ ·)
  | .close :: r, cur => (flattenEvents tol r cur).map (PEv.close :: ·)

/-- `Hatcher::hatch_path` on any event stream (`EventsBuilder::new` starts at `current = (0,0)`) -/
def hatchPathCurved {σ : Type} (o : Options α) (tol : α) (nan : P α) (B : Builder σ α) (fuel : Nat)
    (evs : List (CEv α)) (b0 : σ) : Option (St σ α) :=
  match flattenEvents tol evs ⟨zero, zero⟩ with
  | none => none
  | some pe => hatchPath o nan B fuel pe b0

/-- `Hatcher::dot_path` on any event stream -/
def dotPathCurved (angle tol : α) (uvo nan : P α) (pat : DotPat α) (fuel : Nat)
    (evs : List (CEv α)) : Option (St (H2D α) α) :=
  match flattenEvents tol evs ⟨zero, zero⟩ with
  | none => none
  | some pe => dotPath angle uvo nan pat fuel pe

end Lyon.Hatch
