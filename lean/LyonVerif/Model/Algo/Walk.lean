/-
  `crates/algorithms/src/walk.rs`: `PathWalker::{edge, begin, line_to, end}`, `RegularPattern`,
  `RepeatedPattern`, `walk_along_path`, for polyline paths and without custom attributes
  (`walk_along_path` wraps the walker in `NoAttributes`).

  * `Pat`       — a pattern as the sequence of its answers: the `k`-th call of `Pattern::next`
                  returns `next k` (`none` = stop).  `RegularPattern` and `RepeatedPattern`
                  (with a callback that stops after a number of events) are instances.
  * `W1`/`edgeLoop` — the 1-D core of `PathWalker::edge` (the `while distance >= next_distance`
                  loop with its leftover arithmetic); fuel-driven, and the result says whether
                  the fuel ran out (the Rust loop has no bound: see `walker_needs_positive`).
  * `W`/`edge`/`begin`/`lineTo`/`end_`/`walk` — the 2-D walker on top of it.

  Mathlib-free.
-/
import LyonVerif.Model.Scalar
import LyonVerif.Model.Algo.Measure

namespace Lyon.Walk
open Lyon Scalar

variable {α : Type} [Scalar α]

/-- `Pattern::next` as a function of the number of calls made so far -/
abbrev Pat (α : Type) := Nat → Option α

/-- `RegularPattern { interval }` whose callback returns `false` at its `cap`-th call (0-based) -/
def regular (interval : α) (cap : Nat) : Pat α := fun k => if k < cap then some interval else none

/-- `RepeatedPattern { intervals, index }`, callback stopping as above.
(`index % intervals.len()` panics on an empty slice in Rust; the driver never sends one.) -/
def repeated (intervals : List α) (index cap : Nat) : Pat α := fun k =>
  if k < cap then some (intervals.getD ((index + k) % intervals.length) zero) else none

/-- 1-D walker state -/
structure W1 (α : Type) where
  advancement : α
  leftover : α
  nextDistance : α
  done : Bool
  /-- number of `Pattern::next` calls so far -/
  k : Nat

/-- one callback: position parameter `x` on the current edge and `WalkerEvent::distance` -/
structure Hit (α : Type) where
  x : α
  distance : α
  /-- number of this callback (0-based; not observable, used to state the theorems) -/
  k : Nat

structure LoopOut (α : Type) where
  w : W1 α
  hits : List (Hit α)
  /-- the fuel ran out while `distance >= next_distance` still held -/
  fuelOut : Bool

def consHit (h : Hit α) (r : LoopOut α) : LoopOut α := ⟨r.w, h :: r.hits, r.fuelOut⟩

/-- the `while distance >= self.next_distance { … }` loop of `PathWalker::edge` and the two
assignments after it; `invD = 1/d` -/
def edgeLoop (pat : Pat α) (invD : α) : Nat → W1 α → α → α → LoopOut α
  | 0, w, distance, _ =>
    if w.nextDistance ≤ distance then ⟨w, [], true⟩
    else ⟨{ w with leftover := distance }, [], false⟩
  | fuel+1, w, distance, x =>
    if w.nextDistance ≤ distance then
      match pat w.k with
      | some nd =>
        consHit ⟨x + (w.nextDistance - w.leftover) * invD, w.advancement + w.nextDistance, w.k⟩
          (edgeLoop pat invD fuel
            ⟨w.advancement + w.nextDistance, zero, nd, false, w.k + 1⟩
            (distance - w.nextDistance) (x + (w.nextDistance - w.leftover) * invD))
      | none =>
        ⟨⟨w.advancement + w.nextDistance, zero, w.nextDistance, true, w.k + 1⟩,
          [⟨x + (w.nextDistance - w.leftover) * invD, w.advancement + w.nextDistance, w.k⟩], false⟩
    else ⟨{ w with leftover := distance }, [], false⟩

/-- 1-D `edge`: an edge of length `d` (`d < 1e-5` is skipped) -/
def edge1 (pat : Pat α) (fuel : Nat) (w : W1 α) (d : α) : LoopOut α :=
  if d < ofSci 1 5 then ⟨w, [], false⟩
  else edgeLoop pat (one / d) fuel w (w.leftover + d) zero

def walk1Cons (o : LoopOut α) (rest : List (List (Hit α)) × W1 α × Bool) :
    List (List (Hit α)) × W1 α × Bool := (o.hits :: rest.1, rest.2.1, rest.2.2)

/-- walk a whole sequence of edge lengths (1-D `walk_along_path`): hits per edge, final state,
and whether the fuel ran out -/
def walk1 (pat : Pat α) (fuel : Nat) : W1 α → List α → List (List (Hit α)) × W1 α × Bool
  | w, [] => ([], w, false)
  | w, d :: r =>
    if w.done then ([], w, false)
    else if (edge1 pat fuel w d).fuelOut then ([(edge1 pat fuel w d).hits], (edge1 pat fuel w d).w, true)
    else walk1Cons (edge1 pat fuel w d) (walk1 pat fuel (edge1 pat fuel w d).w r)

/-! ## 2-D walker -/

structure W (α : Type) where
  prev : P α
  first : P α
  core : W1 α
  needMoveto : Bool

/-- `WalkerEvent` (no attributes) -/
structure WEvent (α : Type) where
  position : P α
  tangent : P α
  distance : α

/-- `PathWalker::with_attributes(0, start, …)` -/
def init (start : α) : W α :=
  ⟨⟨zero, zero⟩, ⟨zero, zero⟩, ⟨zero, zero, Scalar.max start zero, false, 0⟩, true⟩

def lastPos (dflt : P α) : List (WEvent α) → P α
  | [] => dflt
  | [e] => e.position
  | _ :: r => lastPos dflt r

/-- `PathWalker::edge` for a straight edge from `w.prev` to `to` with the callback of `line_to` -/
def edge [Transc α] (pat : Pat α) (fuel : Nat) (w : W α) (to : P α) (tangent : P α) :
    W α × List (WEvent α) × Bool :=
  let o := edge1 pat fuel w.core (Measure.vlen (to - w.prev))
  let evs := o.hits.map (fun h => (⟨w.prev.lerp to h.x, tangent, h.distance⟩ : WEvent α))
  if Measure.vlen (to - w.prev) < ofSci 1 5 then (w, [], false)
  else ({ w with core := o.w, prev := if o.w.done then lastPos w.prev evs else to }, evs, o.fuelOut)

inductive PEv (α : Type) where
  | begin (at_ : P α)
  | line (to : P α)
  | end_ (close : Bool)

/-- `path_event`: `begin` / `line_to` / `end(close)` -/
def pathEvent [Transc α] (pat : Pat α) (fuel : Nat) (w : W α) : PEv α → W α × List (WEvent α) × Bool
  | .begin p => ({ w with needMoveto := false, first := p, prev := p }, [], false)
  | .line to => edge pat fuel w to (Measure.normalize (to - w.prev))
  | .end_ true =>
    let r := edge pat fuel w w.first (Measure.normalize (w.first - w.prev))
    ({ r.1 with needMoveto := true }, r.2.1, r.2.2)
  | .end_ false => (w, [], false)

/-- `walk_along_path` -/
def walkFrom [Transc α] (pat : Pat α) (fuel : Nat) : W α → List (PEv α) → List (WEvent α) × Bool
  | _, [] => ([], false)
  | w, e :: r =>
    let o := pathEvent pat fuel w e
    if o.2.2 then (o.2.1, true)
    else if o.1.core.done then (o.2.1, false)
    else
      let rest := walkFrom pat fuel o.1 r
      (o.2.1 ++ rest.1, rest.2)

def walk [Transc α] (pat : Pat α) (fuel : Nat) (start : α) (evs : List (PEv α)) :
    List (WEvent α) × Bool :=
  walkFrom pat fuel (init start) evs

end Lyon.Walk
