/-
  `crates/algorithms/src/walk.rs`: `PathWalker::{with_attributes, edge, begin, line_to,
  quadratic_bezier_to, cubic_bezier_to, end}`, `RegularPattern`, `RepeatedPattern`,
  `walk_along_path` (which wraps the walker in `NoAttributes` = 0 attributes).  Curves are
  flattened through C09's model of `for_each_flattened_with_t`.

  * `Pat`       — a pattern as the sequence of its answers: the `k`-th call of `Pattern::next`
                  returns `next k` (`none` = stop).  `RegularPattern` and `RepeatedPattern`
                  (with a callback that stops after a number of events) are instances.
  * `W1`/`edgeLoop` — the 1-D core of `PathWalker::edge` (the `while distance >= next_distance`
                  loop with its leftover arithmetic); fuel-driven, and the result says whether
                  the fuel ran out (the Rust loop has no bound: see `walker_needs_positive`).
  * `W`/`edge`/`begin`/`lineTo`/`end_`/`walk` — the 2-D walker on top of it.

  Mathlib-free.
-/
import LyonVerif.Model.Scalar
import LyonVerif.Model.Algo.Measure

namespace Lyon.Walk
open Lyon Scalar

variable {α : Type} [Scalar α]

/-- `Pattern::next` as a function of the number of calls made so far -/
abbrev Pat (α : Type) := Nat → Option α

/-- `RegularPattern { interval }` whose callback returns `false` at its `cap`-th call (0-based) -/
def regular (interval : α) (cap : Nat) : Pat α := fun k => if k < cap then some interval else none

/-- `RepeatedPattern { intervals, index }`, callback stopping as above.
(`index % intervals.len()` panics on an empty slice in Rust; the driver never sends one.) -/
def repeated (intervals : List α) (index cap : Nat) : Pat α := fun k =>
  if k < cap then some (intervals.getD ((index + k) % intervals.length) zero) else none

/-- 1-D walker state -/
structure W1 (α : Type) where
  advancement : α
  leftover : α
  nextDistance : α
  done : Bool
  /-- number of `Pattern::next` calls so far -/
  k : Nat

/-- one callback: position parameter `x` on the current edge and `WalkerEvent::distance` -/
structure Hit (α : Type) where
  x : α
  distance : α
  /-- number of this callback (0-based; not observable, used to state the theorems) -/
  k : Nat
  /-- `next_distance` and `distance` when the callback was issued: the attribute interpolation of
  `PathWalker::edge` is `t2 = t.end * next_distance / distance` -/
  nd : α
  dist : α

structure LoopOut (α : Type) where
  w : W1 α
  hits : List (Hit α)
  /-- the fuel ran out while `distance >= next_distance` still held -/
  fuelOut : Bool

def consHit (h : Hit α) (r : LoopOut α) : LoopOut α := ⟨r.w, h :: r.hits, r.fuelOut⟩

/-- the `while distance >= self.next_distance { … }` loop of `PathWalker::edge` and the two
assignments after it; `invD = 1/d` -/
def edgeLoop (pat : Pat α) (invD : α) : Nat → W1 α → α → α → LoopOut α
  | 0, w, distance, _ =>
    if w.nextDistance ≤ distance then ⟨w, [], true⟩
    else ⟨{ w with leftover := distance }, [], false⟩
  | fuel+1, w, distance, x =>
    if w.nextDistance ≤ distance then
      match pat w.k with
      | some nd =>
        consHit ⟨x + (w.nextDistance - w.leftover) * invD, w.advancement + w.nextDistance, w.k,
            w.nextDistance, distance⟩
          (edgeLoop pat invD fuel
            ⟨w.advancement + w.nextDistance, zero, nd, false, w.k + 1⟩
            (distance - w.nextDistance) (x + (w.nextDistance - w.leftover) * invD))
      | none =>
        ⟨⟨w.advancement + w.nextDistance, zero, w.nextDistance, true, w.k + 1⟩,
          [⟨x + (w.nextDistance - w.leftover) * invD, w.advancement + w.nextDistance, w.k,
            w.nextDistance, distance⟩], false⟩
    else ⟨{ w with leftover := distance }, [], false⟩

/-- 1-D `edge`: an edge of length `d` (`d < 1e-5` is skipped) -/
def edge1 (pat : Pat α) (fuel : Nat) (w : W1 α) (d : α) : LoopOut α :=
  if d < ofSci 1 5 then ⟨w, [], false⟩
  else edgeLoop pat (one / d) fuel w (w.leftover + d) zero

def walk1Cons (o : LoopOut α) (rest : List (List (Hit α)) × W1 α × Bool) :
    List (List (Hit α)) × W1 α × Bool := (o.hits :: rest.1, rest.2.1, rest.2.2)

/-- walk a whole sequence of edge lengths (1-D `walk_along_path`): hits per edge, final state,
and whether the fuel ran out -/
def walk1 (pat : Pat α) (fuel : Nat) : W1 α → List α → List (List (Hit α)) × W1 α × Bool
  | w, [] => ([], w, false)
  | w, d :: r =>
    if w.done then ([], w, false)
    else if (edge1 pat fuel w d).fuelOut then ([(edge1 pat fuel w d).hits], (edge1 pat fuel w d).w, true)
    else walk1Cons (edge1 pat fuel w d) (walk1 pat fuel (edge1 pat fuel w d).w r)

/-! ## 2-D walker (`PathWalker`, with custom attributes and curves) -/

variable [Transc α] [FlatConst α]

structure W (α : Type) where
  prev : P α
  first : P α
  core : W1 α
  needMoveto : Bool
  prevAttrs : List α
  firstAttrs : List α

/-- `WalkerEvent` -/
structure WEvent (α : Type) where
  position : P α
  tangent : P α
  distance : α
  attributes : List α

/-- `PathWalker::with_attributes(num_attributes, start, …)` -/
def init (nattr : Nat) (start : α) : W α :=
  ⟨⟨zero, zero⟩, ⟨zero, zero⟩, ⟨zero, zero, Scalar.max start zero, false, 0⟩, true,
   List.replicate nattr zero, List.replicate nattr zero⟩

def lastPos (dflt : P α) : List (WEvent α) → P α
  | [] => dflt
  | [e] => e.position
  | _ :: r => lastPos dflt r

/-- `PathWalker::edge(to, t, attributes, pos_cb)`: the 1-D loop, the callback positions through
`pos_cb`, and the attribute buffer exactly as the code fills it:
`prev_attributes[i] * (1 - t2) + attributes[i] * t2` with `t2 = t.end * next_distance / distance`
(this is NOT the interpolation at the visited point once an edge carries a leftover or a second
callback — the property does not speak about walker attributes; the tie pins the behaviour). -/
def edge (pat : Pat α) (fuel : Nat) (w : W α) (to : P α) (tEnd : α) (attrs : List α)
    (posCb : α → P α × P α) : W α × List (WEvent α) × Bool :=
  let o := edge1 pat fuel w.core (Measure.vlen (to - w.prev))
  let evs := o.hits.map (fun h =>
    (⟨(posCb h.x).1, (posCb h.x).2, h.distance,
      Measure.interp w.prevAttrs attrs (tEnd * h.nd / h.dist)⟩ : WEvent α))
  if Measure.vlen (to - w.prev) < ofSci 1 5 then (w, [], false)
  else ({ w with core := o.w, prev := if o.w.done then lastPos w.prev evs else to }, evs, o.fuelOut)

/-- the callback of `line_to` / `end(close)`: `(LineSegment{from,to}.sample(x), tangent)` -/
def lineCb (frm to : P α) (x : α) : P α × P α := (frm.lerp to x, Measure.normalize (to - frm))

/-- the callback of `quadratic_bezier_to` for the flattened piece `t0..t1` -/
def quadCb (q : Quad α) (t0 t1 x : α) : P α × P α :=
  (q.sample (t0 + x * (t1 - t0)), Measure.normalize (q.derivative (t0 + x * (t1 - t0))))

def cubicCb (c : Cubic α) (t0 t1 x : α) : P α × P α :=
  (c.sample (t0 + x * (t1 - t0)), Measure.normalize (c.derivative (t0 + x * (t1 - t0))))

/-- the closure passed to `for_each_flattened_with_t`: `if !self.done { self.edge(line.to, t, …) }`
for each flattened piece in turn -/
def pieces (pat : Pat α) (fuel : Nat) (attrs : List α) (cb : α → α → α → P α × P α) :
    W α → List (FlatSeg α) → W α × List (WEvent α) × Bool
  | w, [] => (w, [], false)
  | w, s :: r =>
    if w.core.done then (w, [], false)
    else
      let o := edge pat fuel w s.b s.t1 attrs (cb s.t0 s.t1)
      if o.2.2 then o
      else
        let rest := pieces pat fuel attrs cb o.1 r
        (rest.1, o.2.1 ++ rest.2.1, rest.2.2)

inductive PEv (α : Type) where
  | begin (at_ : P α) (a : List α)
  | line (to : P α) (a : List α)
  | quad (ctrl to : P α) (a : List α)
  | cubic (ctrl1 ctrl2 to : P α) (a : List α)
  | end_ (close : Bool)

/-- `begin` / `line_to` / `quadratic_bezier_to` / `cubic_bezier_to` / `end(close)`;
`tol` is the walker's flattening tolerance (used as given, no clamping) -/
def pathEvent (pat : Pat α) (fuel : Nat) (tol : α) (w : W α) : PEv α → W α × List (WEvent α) × Bool
  | .begin p a =>
    ({ w with needMoveto := false, first := p, prev := p, prevAttrs := a, firstAttrs := a }, [], false)
  | .line to a =>
    let r := edge pat fuel w to one a (lineCb w.prev to)
    ({ r.1 with prevAttrs := a }, r.2.1, r.2.2)
  | .quad c to a =>
    let r := pieces pat fuel a (quadCb ⟨w.prev, c, to⟩) w
      ((Quad.forEachFlattenedWithT ⟨w.prev, c, to⟩ tol).getD [])
    ({ r.1 with prevAttrs := a }, r.2.1, r.2.2)
  | .cubic c1 c2 to a =>
    let r := pieces pat fuel a (cubicCb ⟨w.prev, c1, c2, to⟩) w
      ((Cubic.forEachFlattenedWithT ⟨w.prev, c1, c2, to⟩ tol).getD [])
    ({ r.1 with prevAttrs := a }, r.2.1, r.2.2)
  | .end_ true =>
    let r := edge pat fuel w w.first one w.firstAttrs (lineCb w.prev w.first)
    ({ r.1 with needMoveto := true }, r.2.1, r.2.2)
  | .end_ false => (w, [], false)

/-- `walk_along_path` (and, with attributes, the same loop over `PathWalker::with_attributes`) -/
def walkFrom (pat : Pat α) (fuel : Nat) (tol : α) : W α → List (PEv α) → List (WEvent α) × Bool
  | _, [] => ([], false)
  | w, e :: r =>
    let o := pathEvent pat fuel tol w e
    if o.2.2 then (o.2.1, true)
    else if o.1.core.done then (o.2.1, false)
    else
      let rest := walkFrom pat fuel tol o.1 r
      (o.2.1 ++ rest.1, rest.2)

def walk (pat : Pat α) (fuel : Nat) (nattr : Nat) (tol start : α) (evs : List (PEv α)) :
    List (WEvent α) × Bool :=
  walkFrom pat fuel tol (init nattr start) evs

end Lyon.Walk
