/-
  `crates/algorithms/src/measure.rs`: `PathMeasurements` as an OBJECT WITH A HISTORY.

  `Model/Algo/Measure.lean` models a freshly built table (`Measure.mk` = `from_path`).  The real
  object is meant to be cached and re-used ("it is usually a good idea to cache and reuse it"):
  `initialize` / `initialize_with_path` / `initialize_with_path_slice` recycle the two `Vec`s of an
  object that was initialised before with any other path.  This file models exactly that:

  * `PM`              — `PathMeasurements { events, edges }`, the two `Vec`s (all that survives);
  * `vtake`/`vclear`/`vextend`/`vpush` — the `Vec` operations `initialize` uses
                        (`core::mem::take`, `clear`, `extend`, `push`);
  * `pushEdges`       — the `for (index, event) in events …` loop of `initialize`, PUSHING onto
                        whatever vector it is handed (the accumulator is the recycled `edges`);
  * `PM.initialize`   — `initialize` line by line on a used object;
  * `PM.fromPath`     — `from_path` / `from_path_slice` / `from_iter` (`empty()` + `initialize`);
  * `PM.sampler`      — `create_sampler_with_attributes` / `create_sampler` (the latter's attribute
                        store is `()`: no attributes, every `attributes.get(id)` is `&[]`);
  * `History`/`PM.replay` — a whole life of one object: the list of paths it was initialised with.

  `Props/C19b.lean` proves `measure_initialize_fresh`: initialising ANY used object equals
  `from_path` (the table is a function of path and tolerance only).

  Mathlib-free.
-/
import LyonVerif.Model.Algo.Measure

namespace Lyon.Measure
open Lyon Scalar

variable {α : Type} [Scalar α]

/-! ## the `Vec` operations used by `initialize` -/

/-- `core::mem::take(&mut v)`: the value moved out (`self.v` is left empty, and is overwritten at the
end of `initialize`) -/
def vtake {β : Type} (v : List β) : List β := v

/-- `Vec::clear` -/
def vclear {β : Type} (_ : List β) : List β := []

/-- `Vec::extend` -/
def vextend {β : Type} (v : List β) (xs : List β) : List β := v ++ xs

/-- `Vec::push` -/
def vpush {β : Type} (v : List β) (x : β) : List β := v ++ [x]

/-- `PathMeasurements`: the two vectors -/
structure PM (α : Type) where
  events : List (Ev α)
  edges : List (Edge α)

/-- `PathMeasurements::empty()` -/
def PM.empty : PM α := ⟨[], []⟩

/-- the pushes of a flattened curve onto `edges`:
`distance += line.length(); edges.push(Edge { distance, index, t: t.end })` per flattened line -/
def pushManyOnto (edges : List (Edge α)) : α → Nat → List (α × α) → List (Edge α)
  | _, _, [] => edges
  | d, i, (l, t) :: r => pushManyOnto (vpush edges ⟨d + l, i, t⟩) (d + l) i r

/-- the loop `for (index, event) in events.iter().cloned().enumerate() { match event { … } }` of
`initialize`, pushing onto the vector `edges` it was handed; running distance `d`, event index `i` -/
def pushEdges (edges : List (Edge α)) : α → Nat → List (Step α) → List (Edge α)
  | _, _, [] => edges
  | d, i, .skip :: r => pushEdges edges d (i+1) r
  | d, i, .mark :: r => pushEdges (vpush edges ⟨d, i, one⟩) d (i+1) r
  | d, i, .add l :: r => pushEdges (vpush edges ⟨d + l, i, one⟩) (d + l) (i+1) r
  | d, i, .many es :: r => pushEdges (pushManyOnto edges d i es) (sumMany d es) (i+1) r

/-- `events = take(self.events); events.clear(); events.extend(path)` -/
def refillEvents (old : List (Ev α)) (path : List (Ev α)) : List (Ev α) :=
  vextend (vclear (vtake old)) path

/-- `edges = take(self.edges); edges.clear()` -/
def recycleEdges (old : List (Edge α)) : List (Edge α) := vclear (vtake old)

/-- `PathMeasurements::initialize(path, position_store, tolerance)` on a USED object:
```
let tolerance = tolerance.max(1e-4);
let mut events = take(&mut self.events); events.clear(); events.extend(path);
let mut edges = take(&mut self.edges);   edges.clear();
let mut distance = 0.0;
for (index, event) in events.iter().cloned().enumerate() { … edges.push(…) … }
self.events = events; self.edges = edges;
``` -/
def PM.initialize [Transc α] [FlatConst α] (self : PM α) (path : List (Ev α)) (tolerance : α) : PM α :=
  ⟨refillEvents self.events path,
   pushEdges (recycleEdges self.edges) zero 0
     ((refillEvents self.events path).map (stepOf (Scalar.max tolerance (ofSci 1 4))))⟩

/-- `from_path` / `from_path_slice` / `from_iter`: `let mut m = Self::empty(); m.initialize(…); m` -/
def PM.fromPath [Transc α] [FlatConst α] (tolerance : α) (cmds : List (Cmd α)) : PM α :=
  PM.empty.initialize (evsOf cmds) tolerance

/-- `initialize_with_path` → `initialize_with_path_slice` → `initialize(path.id_iter(), &path, tol)` -/
def PM.initializeWithPath [Transc α] [FlatConst α] (self : PM α) (tolerance : α) (cmds : List (Cmd α)) :
    PM α := self.initialize (evsOf cmds) tolerance

/-- `PathMeasurements::length` -/
def PM.length (self : PM α) : α := Measure.length self.edges

/-- an event as seen through the attribute store `()` of `create_sampler`: `get(id)` is `&[]` -/
def Ev.noAttrs : Ev α → Ev α
  | .begin p _ => .begin p []
  | .line f t _ _ => .line f t [] []
  | .quad f c t _ _ => .quad f c t [] []
  | .cubic f c1 c2 t _ _ => .cubic f c1 c2 t [] []
  | .end_ l f _ _ cl => .end_ l f [] [] cl

/-- what a sampler sees: `create_sampler_with_attributes(&path, &path, ty)` (attribute buffer of
`nattr` floats) or `create_sampler(&path, ty)` (store `()`, empty buffer) -/
def PM.sampler (self : PM α) (nattr : Nat) (withAttrs : Bool) : M α :=
  if withAttrs then ⟨self.events, self.edges, nattr⟩
  else ⟨self.events.map Ev.noAttrs, self.edges, 0⟩

/-! ## a whole life of one object -/

/-- one initialisation: tolerance and path -/
structure Init (α : Type) where
  tolerance : α
  cmds : List (Cmd α)

/-- the object after being initialised, in turn, with every path of `hist` -/
def PM.replay [Transc α] [FlatConst α] (self : PM α) : List (Init α) → PM α
  | [] => self
  | h :: r => PM.replay (self.initializeWithPath h.tolerance h.cmds) r

end Lyon.Measure
