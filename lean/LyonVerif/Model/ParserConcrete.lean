/-
  The CONCRETE numeric instance of the parser model's parameter `Num` (`Model/Parser.lean`): what
  `crates/extra/src/parser.rs` really computes on values.

  The `'a' | 'A'` branch of `PathParser::parse_path` does NOT go through an `SvgPathBuilder`
  (`output` is a plain `PathBuilder`): it converts the arc itself,

      let svg_arc = SvgArc { from, to, radii: vector(rx, ry),
                             x_rotation: Angle::degrees(x_rotation), flags };
      if svg_arc.is_straight_line() { output.line_to(to, ..) }            -- `ArcConv.isStraightLine`
      else { let arc = svg_arc.to_arc();                                   -- `ArcConv.fromSvgArc`
             arc.for_each_quadratic_bezier_with_t(&mut |curve, range| ..) } -- `ArcConv.quadsWithT`

  and `arc_to_quadratic_beziers_with_t` contains `cast::<S, i32>(n_steps).unwrap()`
  (`ArcConv.bezPanics`: `n_steps` is NaN).  `concreteNum` is this code (the model of lyon_geom's arc
  conversion `Model/Geom/SvgArc.lean`, tied bit for bit by C13), written once over
  `[Scalar α] [Transc α] [ArcConv.Eps α]`: the correspondence driver runs it at `Float32`
  (`Drive/C17.lean`: `numF32 = concreteNum f32OfLexeme`), `Props/C17b.lean` proves that its `arc`
  never answers `none`.  `Angle::degrees(x)` is `x * (PI / 180)` (`f32::to_radians`).

  Mathlib-free.
-/
import LyonVerif.Model.Parser
import LyonVerif.Model.Geom.SvgArc

namespace Lyon.Parser
open Lyon

variable {α : Type} [Scalar α] [Transc α]

/-- `f32::to_radians`: `self * (consts::PI / 180.0)` -/
def toRadians (x : α) : α := x * (Transc.pi / Scalar.ofNat 180)

/-- the `SvgArc` the arc branch builds from its parsed operands -/
def svgArcOf (a : ArcArgs α) : SvgArc α :=
  { from_ := ⟨a.from_.1, a.from_.2⟩, to := ⟨a.to.1, a.to.2⟩, radii := ⟨a.rx, a.ry⟩,
    xrot := toRadians a.rot, large := a.large, sweep := a.sweep }

variable [ArcConv.Eps α]

/-- `(curve.ctrl, curve.to, range.end)` of every callback of
`svg_arc.to_arc().for_each_quadratic_bezier_with_t` -/
def arcQuads (a : ArcArgs α) : List (Pt α × Pt α × α) :=
  (ArcConv.quadsWithT (ArcConv.fromSvgArc (svgArcOf a))).map
    (fun q => ((q.1.c.x, q.1.c.y), (q.1.b.x, q.1.b.y), q.2.2))

/-- the numeric parameters of the parser model as the code has them; `ofLexeme` (the value of an
accepted number token, `f32::from_str`) stays a parameter -/
def concreteNum (ofLexeme : List Char → α) : Num α where
  zero := Scalar.zero
  one := Scalar.one
  add := (· + ·)
  sub := (· - ·)
  mul := (· * ·)
  ofLexeme := ofLexeme
  arcStraight := fun a => ArcConv.isStraightLine (svgArcOf a)
  arc := fun _ a =>
    if ArcConv.bezPanics (ArcConv.fromSvgArc (svgArcOf a)) then none else some (arcQuads a)

end Lyon.Parser
