/-
  Scalar-generic arithmetic kernel.

  Every numeric model function is written once over `[Scalar α]` (and `[Transc α]`
  when it needs `sqrt`/trigonometry/rounding) and is instantiated
  * at `Float32` / `Float` for execution in the correspondence check (this file), and
  * at an arbitrary linearly ordered field for the theorems (`Lemmas/Field.lean`).

  This file must stay free of Mathlib imports so that the model driver links natively.
-/

namespace Lyon

/-- The arithmetic the models may use.  Comparisons are `Prop`-valued with decidability
carried by the class, so that the same `if a < b then … else …` runs on floats and is
an ordinary order statement on fields. -/
class Scalar (α : Type) extends Add α, Sub α, Mul α, Div α, Neg α, LT α, LE α, BEq α where
  /-- numeric literal `n` -/
  ofNat : Nat → α
  /-- decimal literal `m · 10^(-e)` (Rust float literals) -/
  ofSci : Nat → Nat → α
  dlt : DecidableRel (α := α) (· < ·)
  dle : DecidableRel (α := α) (· ≤ ·)
  /-- `abs` as in Rust (`f32::abs`) -/
  abs : α → α
  /-- `min`/`max` as in Rust's `f32::min/max` / `num_traits::Float` -/
  min : α → α → α
  max : α → α → α

attribute [instance_reducible, instance] Scalar.dlt Scalar.dle

namespace Scalar
variable {α : Type} [Scalar α]
@[reducible] def zero : α := ofNat 0
@[reducible] def one : α := ofNat 1
@[reducible] def two : α := ofNat 2
@[reducible] def three : α := ofNat 3
@[reducible] def four : α := ofNat 4
@[reducible] def five : α := ofNat 5
@[reducible] def six : α := ofNat 6
@[reducible] def eight : α := ofNat 8
@[reducible] def nine : α := ofNat 9
@[reducible] def ten : α := ofNat 10
/-- `0.5` -/
@[reducible] def half : α := ofSci 5 1
end Scalar

/-- Non-field functions (libm, rounding, casts).  Kept apart from `Scalar` so that the field
instance of `Scalar` is canonical while these stay parameters of the theorems that need them,
with the laws used stated as explicit hypotheses. -/
class Transc (α : Type) where
  sqrt : α → α
  cbrt : α → α
  sin : α → α
  cos : α → α
  tan : α → α
  acos : α → α
  atan2 : α → α → α
  pow : α → α → α
  log2 : α → α
  ln : α → α
  floor : α → α
  ceil : α → α
  /-- saturating float → unsigned cast (`as u32`/`as usize`): NaN ↦ 0, negative ↦ 0 -/
  toNat : α → Nat
  /-- C `fmod` (Rust `%` on floats) -/
  fmod : α → α → α
  /-- machine epsilon (`S::EPSILON`) -/
  eps : α
  pi : α
  isNaN : α → Bool
  isFinite : α → Bool

/-! ### IEEE instances (execution side) -/

instance : Scalar Float32 where
  ofNat := Float32.ofNat
  ofSci m e := Float32.ofScientific m true e
  dlt := fun a b => inferInstanceAs (Decidable (a < b))
  dle := fun a b => inferInstanceAs (Decidable (a ≤ b))
  abs := Float32.abs
  min a b := if a < b then a else if b < a then b else if a.isNaN then b else a
  max a b := if a > b then a else if b > a then b else if a.isNaN then b else a

instance : Scalar Float where
  ofNat := Float.ofNat
  ofSci m e := Float.ofScientific m true e
  dlt := fun a b => inferInstanceAs (Decidable (a < b))
  dle := fun a b => inferInstanceAs (Decidable (a ≤ b))
  abs := Float.abs
  min a b := if a < b then a else if b < a then b else if a.isNaN then b else a
  max a b := if a > b then a else if b > a then b else if a.isNaN then b else a

/-- exact `fmod` on non-negative finite doubles (`y > 0`): repeatedly subtract the largest
`y·2^k ≤ x`; each subtraction is exact in IEEE arithmetic. -/
private def fmodPos : Nat → Float → Float → Float
  | 0, x, _ => x
  | fuel+1, x, y =>
    if x < y then x else
      let rec up : Nat → Float → Float
        | 0, t => t
        | f+1, t => if t * 2 ≤ x then up f (t * 2) else t
      fmodPos fuel (x - up 2100 y) y

private def f64fmod (x y : Float) : Float :=
  if y == 0 || x.isNaN || y.isNaN || x.isInf then (0:Float)/0 else
  if y.isInf then x else
  let r := fmodPos 2100 x.abs y.abs
  if x < 0 then -r else if x == 0 then x else r

private def f32fmod (a b : Float32) : Float32 := (f64fmod a.toFloat b.toFloat).toFloat32

instance : Transc Float32 where
  sqrt := Float32.sqrt
  cbrt := Float32.cbrt
  sin := Float32.sin
  cos := Float32.cos
  tan := Float32.tan
  acos := Float32.acos
  atan2 := Float32.atan2
  pow := Float32.pow
  log2 := Float32.log2
  ln := Float32.log
  floor := Float32.floor
  ceil := Float32.ceil
  toNat x := if x.isNaN then 0 else if x ≤ 0 then 0 else
    if x ≥ 18446744073709551616.0 then 18446744073709551615 else x.toUInt64.toNat
  fmod := f32fmod
  eps := Float32.ofBits 0x34000000
  pi := Float32.ofBits 0x40490fdb
  isNaN := Float32.isNaN
  isFinite := Float32.isFinite

instance : Transc Float where
  sqrt := Float.sqrt
  cbrt := Float.cbrt
  sin := Float.sin
  cos := Float.cos
  tan := Float.tan
  acos := Float.acos
  atan2 := Float.atan2
  pow := Float.pow
  log2 := Float.log2
  ln := Float.log
  floor := Float.floor
  ceil := Float.ceil
  toNat x := if x.isNaN then 0 else if x ≤ 0 then 0 else
    if x ≥ 18446744073709551616.0 then 18446744073709551615 else x.toUInt64.toNat
  fmod := f64fmod
  eps := Float.ofBits 0x3cb0000000000000
  pi := Float.ofBits 0x400921fb54442d18
  isNaN := Float.isNaN
  isFinite := Float.isFinite

/-! ### 2-D points / vectors (euclid `Point2D` / `Vector2D`; one type serves both) -/

structure P (α : Type) where
  x : α
  y : α
deriving Repr, Inhabited

namespace P
variable {α : Type} [Scalar α]

@[inline] def add (a b : P α) : P α := ⟨a.x + b.x, a.y + b.y⟩
@[inline] def sub (a b : P α) : P α := ⟨a.x - b.x, a.y - b.y⟩
/-- `v * s` -/
@[inline] def smul (a : P α) (s : α) : P α := ⟨a.x * s, a.y * s⟩
/-- `v / s` -/
@[inline] def sdiv (a : P α) (s : α) : P α := ⟨a.x / s, a.y / s⟩
@[inline] def neg (a : P α) : P α := ⟨-a.x, -a.y⟩
instance : Add (P α) := ⟨add⟩
instance : Sub (P α) := ⟨sub⟩
instance : Neg (P α) := ⟨neg⟩

/-- euclid `Point2D::lerp`: `one_t = 1 - t; (one_t*a.x + t*b.x, one_t*a.y + t*b.y)` -/
@[inline] def lerp (a b : P α) (t : α) : P α :=
  let one_t := Scalar.one - t
  ⟨one_t * a.x + t * b.x, one_t * a.y + t * b.y⟩

/-- euclid `Vector2D::lerp`: `self * one_t + other * t` -/
@[inline] def vlerp (a b : P α) (t : α) : P α :=
  let one_t := Scalar.one - t
  ⟨a.x * one_t + b.x * t, a.y * one_t + b.y * t⟩

@[inline] def cross (a b : P α) : α := a.x * b.y - a.y * b.x
@[inline] def dot (a b : P α) : α := a.x * b.x + a.y * b.y
@[inline] def sqLen (a : P α) : α := a.x * a.x + a.y * a.y
@[inline] def beq (a b : P α) : Bool := a.x == b.x && a.y == b.y
instance : BEq (P α) := ⟨beq⟩
end P

/-! ### Wire format: floats as hex bit patterns, prefixed with `~` -/

class Wire (α : Type) where
  ofHex : String → α
  toHex : α → String

def hexDigit (c : Char) : Nat :=
  if '0' ≤ c ∧ c ≤ '9' then c.toNat - '0'.toNat
  else if 'a' ≤ c ∧ c ≤ 'f' then c.toNat - 'a'.toNat + 10
  else if 'A' ≤ c ∧ c ≤ 'F' then c.toNat - 'A'.toNat + 10 else 0

def parseHex (s : String) : Nat :=
  s.toList.foldl (fun acc c => if c == '~' then acc else acc * 16 + hexDigit c) 0

def toHexPad (n : Nat) (width : Nat) : String :=
  let ds := (Nat.toDigits 16 n)
  String.ofList ('~' :: (List.replicate (width - ds.length) '0' ++ ds))

instance : Wire Float32 where
  ofHex s := Float32.ofBits (parseHex s).toUInt32
  toHex x := toHexPad x.toBits.toNat 8

instance : Wire Float where
  ofHex s := Float.ofBits (parseHex s).toUInt64
  toHex x := toHexPad x.toBits.toNat 16

def fx {α} [Wire α] (x : α) : String := Wire.toHex x
def fp {α} [Wire α] (p : P α) : String := Wire.toHex p.x ++ " " ++ Wire.toHex p.y
def rd {α} [Wire α] (a : Array String) (i : Nat) : α := Wire.ofHex (a.getD i "0")
def rdP {α} [Wire α] (a : Array String) (i : Nat) : P α := ⟨rd a i, rd a (i+1)⟩
def rdNat (a : Array String) (i : Nat) : Nat := ((a.getD i "0").toNat?).getD 0
def fb (b : Bool) : String := if b then "1" else "0"
def fopt {α} [Wire α] : Option α → String
  | none => "none"
  | some x => "some " ++ fx x
def unwords (l : List String) : String := " ".intercalate l

end Lyon
