/-
  C08 on top of the complete sweep model, CURVED input and CUSTOM ATTRIBUTES: one call through any
  entry point of `FillTessellator` — `tessellate`, `tessellate_path`, `tessellate_with_ids` (without /
  with an attribute store), `builder()` / `builder_with_attributes(n)` … `build()`, a `FillBuilder`
  dropped without `build()` — on a USED object.

  Nothing is redefined: the queue builder is `SweepCurves.feedAll` (path commands incl. the curve
  flattening of `Model/Geom/Flatten.lean` inside `Sources.Builder.curveSegment`), the recycled queue
  is `Sweep.queueReset` / `Sweep.ofRecsFrom` (`ResetSweep.lean`), the sort is `Queue.sort`
  (`EventQueue.lean`), the sweep on the used object is `Sweep.tessellateImplFrom` (`ResetSweep.lean`:
  `FillTessellator::reset` + `tessellate_impl`, refusing builder, what is left behind), the attribute
  store is `SweepCurves.storeOf`, the vertex sources are `Sources.sources`, and
  `FillVertex::interpolated_attributes` ON THE OBJECT'S BUFFER is `Reset.interp` (`Reset.lean` §4,
  tied by family `chk_interp`) with `Reset.resizeAttrib` = the `resize` / `clear` of `tessellate_impl`.

  The object (`Obj`) = the sweep state `St` (every field of `struct FillTessellator` the sweep model
  has, the event queue `events` included) + `attrib_buffer`.  What survives into the next call, as in
  the Rust code:
  * `events`: `mem::replace(&mut self.events, EventQueue::new()).into_builder(tol)` hands the OLD queue
    to the builder; `into_builder` (and, for the non-builder entry points, `set_path*` once more) runs
    `EventQueue::reset` on it — `recycledQueue`.  `EventQueueBuilder { current, prev, second, nth,
    prev_endpoint_id, tolerance }` is a NEW struct in every call (`Sources.Builder.init`).  While the
    builder owns the queue the tessellator holds `EventQueue::new()`: that is what stays behind when
    the builder is dropped or a flattening panics (`Queue.empty`).
  * `attrib_buffer`: `resize(n, 0.0)` keeps the first `min(len, n)` stale values; `clear()` without a
    store; untouched by the early return on an invalid tolerance, a dropped builder, a panic before
    `tessellate_impl`.  During the call it is written by `interpolated_attributes` only (once per
    vertex handed to the geometry builder, in emission order; the refused vertex is not constructed).
  * `fill.pool`, and — after a failed call — spans, edges, registers: `tessellateImplFrom`.

  Mathlib-free.
-/
import LyonVerif.Model.Tess.SweepCurves
import LyonVerif.Model.Tess.ResetSweep

namespace Lyon.SweepCurves
open Lyon Lyon.Scalar Lyon.EQ Lyon.Sweep

variable {α : Type} [Scalar α]

/-! ### the entry points -/

/-- the entry points that take a path with curves / attributes -/
inductive EntryC where
  /-- `tessellate(path.iter())` (`tessellate_polygon` is this on `polygon.path_events()`) -/
  | events
  /-- `tessellate_path(&path)`: through the ids and with the path as attribute store exactly when
  the path has attributes -/
  | path
  /-- `tessellate_with_ids(path.id_iter(), &path, None | Some(&path))` -/
  | ids (store : Bool)
  /-- `builder()` / `builder_with_attributes(n)`, the path commands, `build()` -/
  | builder
deriving BEq

/-- how the entry point names endpoints, and whether `tessellate_impl` is handed an attribute store
(`FillBuilder::build`: `if self.attrib_store.num_attributes > 0 { Some(..) } else { None }`) -/
def EntryC.mode (e : EntryC) (nattr : Nat) : IdMode × Bool :=
  match e with
  | .events => (.none, false)
  | .path => if nattr > 0 then (.path nattr, true) else (.none, false)
  | .ids store => (.path nattr, store)
  | .builder => (.builder, decide (nattr > 0))

/-! ### the event queue in recycled storage -/

/-- the storage the queue builder pushes into: the old queue after `into_builder`
(`EventQueue::reset`), and after `EventQueueBuilder::reset` of `set_path` / `set_path_with_ids` for
the entry points that use them (`FillBuilder` calls `begin` / `line_segment` / … directly) -/
def recycledQueue (old : Queue α) (mode : IdMode) : Queue α :=
  match mode with
  | .builder => old
  | _ => queueReset old

section flat
variable [Transc α] [FlatConst α]

/-- `SweepCurves.buildQueue` on a used object: the same feeding of the commands to a NEW
`EventQueueBuilder` (`Sources.Builder.init`), the records pushed into the recycled queue
(`ofRecsFrom` resets it: `into_builder`). `none` = panic in a flattening. -/
def buildQueueFromC (old : Queue α) (mode : IdMode) (horizontal : Bool) (tol : α) (cmds : List (Cmd α)) :
    Option (Queue α × Array Nat) :=
  (feedAll mode horizontal tol cmds ⟨Sources.Builder.init, {}, ⟨zero, zero⟩, #[]⟩).map fun f =>
    (ofRecsFrom (recycledQueue old mode) f.bld.recs.reverse, f.endpointIds)

end flat

/-! ### `interpolated_attributes` on the object's buffer -/

def toSrc : Sources.Source α → Reset.Src α
  | .endpoint id => .endpoint id
  | .edge f t u => .edge f t u

/-- `AttributeStore::get(id)`: the `n` attributes of endpoint `id` as a slice (`storeOf`) -/
def storeL (ids : Array Nat) (values : Array (Array α)) (n : Nat) (id : Nat) : List α :=
  (List.range n).map (storeOf ids values id)

/-- `FillVertex::interpolated_attributes()` of the vertex with sibling records `recs`, on the
buffer `buf`: the result handed to the vertex constructor and the buffer afterwards -/
def interpVertex (store : Option (Nat → List α)) (n : Nat) (recs : List (P α × EdgeData α)) (buf : List α) :
    Reset.IRes α × List α :=
  Reset.interp store n ((Sources.sources (recs.map recOf)).map toSrc) buf

/-- what the geometry builder sees, with the attributes its vertex constructor reads -/
inductive EmitA (α : Type) where
  | vertex (pos : P α) (recs : List (P α × EdgeData α)) (attrs : Reset.IRes α)
  | tri (a b c : Nat)

/-- the emissions of one call in order, the buffer threaded through the vertices -/
def withAttrs (store : Option (Nat → List α)) (n : Nat) : List (Emit α) → List α → List (EmitA α) × List α
  | [], buf => ([], buf)
  | .vertex pos recs :: r, buf =>
    let a := interpVertex store n recs buf
    let t := withAttrs store n r a.2
    (.vertex pos recs a.1 :: t.1, t.2)
  | .tri a b c :: r, buf =>
    let t := withAttrs store n r buf
    (.tri a b c :: t.1, t.2)

/-! ### the object and one call -/

variable [Wide α]

/-- the long-lived `FillTessellator`: the sweep's fields (incl. `events`) and `attrib_buffer` -/
structure Obj (α : Type) where
  st : St α
  attribBuffer : List α

/-- `FillTessellator::new()` -/
def Obj.fresh : Obj α := ⟨St.fresh, []⟩

/-- one call on a path with curves / attributes -/
structure CallC (α : Type) where
  entry : EntryC
  /-- `path.num_attributes()` / the `n` of `builder_with_attributes(n)` -/
  nattr : Nat
  rule : Slab.Rule
  horizontal : Bool
  tol : α
  handleIx : Bool
  cmds : List (Cmd α)
  /-- the attributes of the endpoints, in command order -/
  values : Array (Array α)
  /-- the geometry builder refuses the vertex offered after this many accepted ones -/
  refuse : Option Nat := none
  /-- the `FillBuilder` is dropped without `build()` -/
  dropped : Bool := false

/-- outcome and emissions of a call -/
abbrev EmissionA (α : Type) := Option Fail × List (EmitA α)

/-- the object while the queue builder owns the recycled queue: `self.events = EventQueue::new()` -/
def Obj.queueTaken (o : Obj α) : Obj α := { o with st := { o.st with q := Queue.empty } }

section flat
variable [Transc α] [FlatConst α]

/-- one call on a used object: what the geometry builder (and its vertex constructor) sees, and
the object afterwards -/
def tessellateFromC (o : Obj α) (c : CallC α) : EmissionA α × Obj α :=
  let m := c.entry.mode c.nattr
  match buildQueueFromC o.st.q m.1 c.horizontal c.tol c.cmds with
  | none =>
    -- panic inside a flattening: the queue dies with the builder during unwinding
    ((some (.panic "flattening count.to_u32().unwrap()"), []), o.queueTaken)
  | some (q0, ids) =>
    if c.dropped then ((none, []), o.queueTaken)
    else
      let q := q0.sort
      if q.groups != Spec.sort q0.position q0.events.size then
        ((some (.unmodelled "sort-spec-mismatch"), []), { o with st := { o.st with q := q } })
      else
        let r := tessellateImplFrom o.st c.refuse q c.rule c.horizontal c.tol c.handleIx
        if Wide.isNaN c.tol || c.tol ≤ zero then
          -- early return of `tessellate_impl`: before `reset` and before the buffer is resized
          ((r.1.1, []), ⟨r.2, o.attribBuffer⟩)
        else
          let store : Option (Nat → List α) := if m.2 then some (storeL ids c.values c.nattr) else none
          let buf0 := Reset.resizeAttrib o.attribBuffer (if m.2 then some c.nattr else none)
          let e := withAttrs store c.nattr r.1.2.1.toList buf0
          ((r.1.1, e.1), ⟨r.2, e.2⟩)

/-- a call of the polygonal model (`ResetSweep.lean`: the five entry points on point lists, incl.
`tessellate_polygon`) on the same object: no attribute store, hence `attrib_buffer.clear()` when
`tessellate_impl` gets past the tolerance check -/
def tessellateFromP (o : Obj α) (c : FillCall α) : EmissionA α × Obj α :=
  let r := tessellateFrom o.st c
  let reached := !c.dropped && !(Wide.isNaN c.tol || c.tol ≤ zero)
  let e := withAttrs none 0 r.1.2.1.toList (if reached then Reset.resizeAttrib o.attribBuffer none else o.attribBuffer)
  ((r.1.1, e.1), ⟨r.2, e.2⟩)

/-- a call of a history: polygonal (`FillCall`) or curved / attribute-carrying (`CallC`) -/
inductive AnyCall (α : Type) where
  | poly (c : FillCall α)
  | curved (c : CallC α)

def tessellateFromAny (o : Obj α) : AnyCall α → EmissionA α × Obj α
  | .poly c => tessellateFromP o c
  | .curved c => tessellateFromC o c

/-- the long-lived `FillTessellator` as a call machine -/
def fillObjC : Reset.Machine (Obj α) (AnyCall α) (EmissionA α) :=
  ⟨fun o c => ((tessellateFromAny o c).2, (tessellateFromAny o c).1)⟩

/-! ### the reference: a freshly constructed tessellator (`SweepCurves.tessellate`, tied by `sweepc:32`) -/

/-- what `interpolated_attributes` returns according to the buffer-free model `vertexAttrs` that
family `sweepc:32` ties: `NO_ATTRIBUTES` without a store; the `sources.next().unwrap()` panic on an
event without records (there is none) -/
def vertexAttrsR (hasStore : Bool) (ids : Array Nat) (values : Array (Array α)) (n : Nat)
    (recs : List (P α × EdgeData α)) : Reset.IRes α :=
  if !hasStore then .noAttributes
  else if recs.isEmpty then .panic
  else .slice (vertexAttrs ids values n recs)

def annotate (hasStore : Bool) (ids : Array Nat) (values : Array (Array α)) (n : Nat) : Emit α → EmitA α
  | .vertex pos recs => .vertex pos recs (vertexAttrsR hasStore ids values n recs)
  | .tri a b c => .tri a b c

/-- a call on a NEW tessellator, with the models tied on fresh objects: `SweepCurves.tessellate`
and `vertexAttrs` -/
def tessellateFreshC (c : CallC α) : EmissionA α :=
  let m := c.entry.mode c.nattr
  let r := SweepCurves.tessellate m.1 c.rule c.horizontal c.tol c.handleIx c.cmds
  (r.1.1, r.1.2.1.toList.map (annotate m.2 r.2 c.values c.nattr))

end flat

end Lyon.SweepCurves
