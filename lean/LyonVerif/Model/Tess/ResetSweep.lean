/-
  C08 on top of the complete sweep model (`Model/Tess/Sweep.lean`): the fill tessellator as a
  LONG-LIVED OBJECT.  `Sweep.tessellateImpl` starts from a fixed initial `St`; here the same call is
  made on an object in an arbitrary state `old : St α` — whatever earlier calls (complete, failed,
  aborted by the geometry builder, made with an invalid tolerance, a builder dropped without
  `build`) left behind — mirroring what the Rust code does to a used object, statement by statement:

  * `Queue.reset`, `ofRecsFrom`, `buildQueueFrom`   `mem::replace(&mut self.events, EventQueue::new())
                                                     .into_builder(tol)` (= `EventQueue::reset` of the
                                                     recycled storage) … `set_path*` / `FillBuilder::*`
                                                     … `build()`
  * `St.fresh`                                       `FillTessellator::new()`
  * `St.reset`                                       `FillTessellator::reset()`: position, vertex, event
                                                     id, `active.edges.clear()`, `edges_below.clear()`,
                                                     `fill.spans.clear()` — and NOTHING else: `fill.pool`
                                                     (the recycled monotone tessellators with their stale
                                                     fields) survives
  * `St.prologue`                                    the writes of `tessellate_impl` between the
                                                     tolerance check and the first event
  * `Scan.reset`, `scanActiveEdgesFrom`              `ActiveEdgeScan::reset` at the top of
                                                     `scan_active_edges` on a dirty scan
  * `initializeEventsB`, `tessellatorLoopB`          the loop against a geometry builder that refuses
                                                     its k-th vertex (`add_fill_vertex(..)?`): the call
                                                     is aborted part-way and the object stays as it is
  * `tessellateImplFrom`                             `tessellate_impl` on a used object; returns what the
                                                     geometry builder saw AND the object afterwards
  * `FillCall`, `tessellateFrom`, `fillObj`          one call of an entry point; the object as a
                                                     `Reset.Machine` (histories)

  What is NOT state of `St` and therefore not here: the attribute buffer (`Reset.interpAll`,
  theorem `attrib_buffer_fresh` of `Props/C08.lean`) and the contents of the output buffers
  (`offset_shift`).  `St.out` / `St.nverts` are the model's record of what the geometry builder was
  handed in THIS call (`begin_geometry` starts them afresh); `St.cov` is instrumentation.

  Nothing of `Sweep.lean` is redefined: every step below the loop is the function of `Sweep.lean`.

  Mathlib-free.
-/
import LyonVerif.Model.Tess.Sweep
import LyonVerif.Model.Tess.Reset

namespace Lyon.Sweep
open Lyon Lyon.Scalar Lyon.EQ Lyon.Mono

variable {α : Type} [Scalar α] [Wide α]

/-! ### the event queue of a used object -/

/-- `EventQueue::reset` (`events.clear(); edge_data.clear(); first = INVALID; sorted = false`).
`fuelOut` is the model's own flag (a walk ran out of fuel), it has no counterpart in the object. -/
def queueReset (q : Queue α) : Queue α :=
  { q with events := #[], edgeData := #[], first := INVALID, sorted := false, fuelOut := false }

/-- `Queue.ofRecs` into recycled storage: `into_builder` resets the queue it is given -/
def ofRecsFrom (old : Queue α) (recs : List (Sources.EdgeRec α)) : Queue α :=
  recs.foldl (fun q r => q.pushUnsorted r.pos ⟨r.to, r.t0, r.t1, r.winding, r.isEdge, r.fromId, r.toId⟩)
    (queueReset old)

/-- `buildQueue` on a used object: the entry point takes the old queue out of the tessellator
(`mem::replace`), `into_builder` resets it and constructs a NEW `EventQueueBuilder` around it
(`current, prev, second = NaN`, `nth = 0`, `prev_endpoint_id = MAX` — `Sources.Builder.init`), the
path is fed (`set_path*` reset the queue once more). -/
def buildQueueFrom (old : Queue α) (entry : Entry) (horizontal : Bool) (subs : List (SubPath α)) : Queue α :=
  let useIds := entry == .ids || entry == .builder
  let step (acc : Sources.Builder α × Nat) (sp : SubPath α) : Sources.Builder α × Nat :=
    match sp.1 with
    | [] => acc
    | pts =>
      let b := feedSub horizontal useIds acc.1 acc.2 pts
      let next := acc.2 + pts.length + (if entry == .ids && sp.2 then 1 else 0)
      (b, next)
  let r := subs.foldl step (Sources.Builder.init, 0)
  ofRecsFrom old r.1.recs.reverse

/-! ### `ActiveEdgeScan` -/

/-- `ActiveEdgeScan::reset`, field by field as written (`above = 0..0`) -/
def Scan.reset (s : Scan) : Scan :=
  { s with vertexEvents := #[], edgesToSplit := #[], spansToEnd := #[], mergeEvent := false, splitEvent := false,
           mergeSplitEvent := false, aboveStart := 0, aboveEnd := 0, windingBefore := WindingState.new }

/-- `scan_active_edges(&mut scan)` on a scan that holds whatever the previous event (or the previous
call: `mem::replace(&mut self.scan, ..)` / `mem::swap` keep the buffers across calls) left in it:
`scan.reset()` first, then `Sweep.scanActiveEdges` fills it.  The model's `scanActiveEdges` builds
its result from `{ aboveStart := .., windingBefore := .. }`, i.e. from the all-default `Scan`. -/
def scanActiveEdgesFrom (dirty : Scan) (s : St α) : Except IErr Scan :=
  (scanActiveEdges s).map fun r =>
    let d := Scan.reset dirty
    { d with
      vertexEvents := r.vertexEvents, edgesToSplit := r.edgesToSplit, spansToEnd := r.spansToEnd,
      mergeEvent := r.mergeEvent, splitEvent := r.splitEvent, mergeSplitEvent := r.mergeSplitEvent,
      aboveStart := r.aboveStart, aboveEnd := r.aboveEnd, windingBefore := r.windingBefore }

/-! ### the object -/

/-- `FillTessellator::new()`: `current_position = (f32::MIN, f32::MIN)`, invalid ids, empty vectors,
`EvenOdd`, `Vertical`, `DEFAULT_TOLERANCE = 0.1`, `assume_no_intersection = false`, an empty queue -/
def St.fresh : St α :=
  { q := Queue.empty, curPos := ⟨Wide.fmin, Wide.fmin⟩, curVertex := INVALID, curEvent := INVALID,
    active := #[], below := #[], spans := #[], pool := [], rule := .evenOdd, horizontal := false,
    tolerance := ofSci 1 1, handleIntersections := true, out := #[], nverts := 0 }

/-- `FillTessellator::reset` — these six writes and nothing else -/
def St.reset (s : St α) : St α :=
  { s with curPos := ⟨Wide.fmin, Wide.fmin⟩, curVertex := INVALID, curEvent := INVALID,
           active := #[], below := #[], spans := #[] }

/-- The writes of a call between the tolerance check of `tessellate_impl` and the first event:
`self.events = queue_builder.build()` (in the entry point), `self.reset()`, the four option fields,
`builder.begin_geometry()` (the model's record of the emissions starts afresh), and
`self.current_event_id = self.events.first_id()` (first statement of `tessellator_loop`). -/
def St.prologue (old : St α) (q : Queue α) (rule : Slab.Rule) (horizontal : Bool) (tol : α) (handleIx : Bool) : St α :=
  let s1 : St α := { old with q := q }
  let s2 := s1.reset
  { s2 with rule := rule, horizontal := horizontal, tolerance := tol * half, handleIntersections := handleIx,
            out := #[], nverts := 0, cov := 0, curEvent := q.firstId }

/-! ### the loop against a geometry builder that may refuse a vertex -/

/-- does the geometry builder refuse the vertex it is offered after `n` accepted ones? -/
def refuses (limit : Option Nat) (n : Nat) : Bool :=
  match limit with
  | none => false
  | some k => n == k

/-- `initialize_events` with `output.add_fill_vertex(..)?` failing: `current_position` has been
written and checked for NaN, then the `?` returns `Err(GeometryBuilder(InvalidVertex))`; nothing
else of the event is done. -/
def initializeEventsB (limit : Option Nat) : SM α Unit := do
  let s ← get
  let cur := s.q.position s.curEvent
  if refuses limit s.nverts && !(Wide.isNaN cur.x || Wide.isNaN cur.y) then
    set { s with curPos := cur }
    throw (.err "GeometryBuilder(InvalidVertex)")
  else initializeEvents

/-- `tessellator_loop` (`Sweep.tessellatorLoop` with `initializeEventsB`) -/
def tessellatorLoopB (limit : Option Nat) : Nat → SM α Unit
  | 0 => throw .fuel
  | f+1 => do
    let s ← get
    if s.curEvent == INVALID then return
    initializeEventsB limit
    match ← processEvents with
    | none => pure ()
    | some _ =>
      recoverFromError
      match ← processEvents with
      | none => pure ()
      | some e =>
        mark 1
        throw (.err s!"Internal({e.toString})")
    let s ← get
    if s.q.fuelOut then throw .fuel
    set { s with curEvent := s.q.nextId s.curEvent }
    tessellatorLoopB limit f

/-- the flush of the spans left over when the loop ends normally -/
def flushLeftover (spans : Array (Option (Adv α))) (out : Array (Emit α)) : Array (Emit α) :=
  spans.foldl (fun o sp =>
    match sp with
    | some t => t.tess.tris.foldl (fun o t => o.push (.tri t.1 t.2.1 t.2.2)) o
    | none => o) out

/-- `tessellate_impl` on a USED object `old` whose queue has just been rebuilt to `q`, against a
geometry builder that refuses the vertex after `limit` accepted ones (`none`: never).
Result: what `Sweep.tessellateImpl` returns (outcome, emissions, coverage bits) and the object
afterwards:
* invalid tolerance: early return, only the queue has changed;
* error (`Err` of the sweep, a refused vertex, a panic unwinding out of the loop): `abort_geometry`,
  the object stays exactly as the loop left it — spans alive, edges, a half-processed event;
* success: the spans left over are flushed and `fill.spans.clear()`ed (they are NOT pooled). -/
def tessellateImplFrom (old : St α) (limit : Option Nat) (q : Queue α) (rule : Slab.Rule) (horizontal : Bool) (tol : α)
    (handleIx : Bool) : (Option Fail × Array (Emit α) × Nat) × St α :=
  if Wide.isNaN tol || tol ≤ zero then
    ((some (.err "UnsupportedParamater(ToleranceIsNaN)"), #[], 0), { old with q := q })
  else
    let s0 := old.prologue q rule horizontal tol handleIx
    let r := (tessellatorLoopB limit (4 * q.events.size * q.events.size + 1000)).run.run s0
    match r.1 with
    | .error f => ((some f, r.2.out, r.2.cov), r.2)
    | .ok _ =>
      let out := flushLeftover r.2.spans r.2.out
      ((none, out, if out.size == r.2.out.size then r.2.cov else r.2.cov ||| (1 <<< 22)), { r.2 with spans := #[] })

/-! ### calls and histories -/

/-- one call of an entry point on polygonal input -/
structure FillCall (α : Type) where
  entry : Entry
  rule : Slab.Rule
  horizontal : Bool
  tol : α
  handleIx : Bool
  subs : List (SubPath α)
  /-- the geometry builder refuses the vertex offered after this many accepted ones -/
  refuse : Option Nat := none
  /-- `builder(..)`, the path commands, and then the `FillBuilder` is dropped without `build()` -/
  dropped : Bool := false

/-- what the geometry builder saw: outcome and emissions (the coverage bits are instrumentation) -/
abbrev Emission (α : Type) := Option Fail × Array (Emit α)

def emission (r : Option Fail × Array (Emit α) × Nat) : Emission α := (r.1, r.2.1)

/-- one call on a used object: the emission and the object afterwards -/
def tessellateFrom (old : St α) (c : FillCall α) : (Option Fail × Array (Emit α) × Nat) × St α :=
  let q0 := buildQueueFrom old.q c.entry c.horizontal c.subs
  if c.dropped then
    -- `FillBuilder::new` took the queue (`mem::replace(.., EventQueue::new())`); it dies with the builder
    ((none, #[], 0), { old with q := Queue.empty })
  else
    let q := q0.sort
    if q.groups != Spec.sort q0.position q0.events.size then
      ((some (.unmodelled "sort-spec-mismatch"), #[], 0), { old with q := q })
    else tessellateImplFrom old c.refuse q c.rule c.horizontal c.tol c.handleIx

/-- the long-lived `FillTessellator` as a call machine -/
def fillObj : Reset.Machine (St α) (FillCall α) (Emission α) :=
  ⟨fun old c => ((tessellateFrom old c).2, emission (tessellateFrom old c).1)⟩

end Lyon.Sweep
