/-
  The `StrokeBuilder` object (`crates/tessellation/src/stroke.rs`: what `StrokeTessellator::builder` /
  `builder_with_attributes` return) as a PROGRAM: a sequence of calls on ONE builder - several
  sub-paths, the shape helpers, the option setters - and the state that survives from one call to
  the next.

  Modelled here, expression by expression:
    StrokeBuilder::{begin, line_to, quadratic_bezier_to, cubic_bezier_to, end} (endpoint ids are what
      `SimpleAttributeStore::add` returns: 0, 1, 2, ... in call order; `self.prev` is `Run.curId/curPos`)
    StrokeBuilder::{set_line_join, set_start_cap, set_end_cap, set_miter_limit}
      (assign `builder.options.*`; allowed at any point, also inside a sub-path)
    StrokeBuilder::add_rectangle (the override of the `PathBuilder` default): the thin-rectangle test
      `width.abs() < threshold || height.abs() < threshold` with `threshold = {Miter: 1.0, _: 0.05} *
      line_width` (fixed width only), the polygon otherwise (both windings)
    approximate_thin_rectangle: the centre segment, `options.line_width += d`, caps Square / Round,
      `add_line_segment`, options restored
    PathBuilder::{add_polygon, add_line_segment, add_point} (lyon_path defaults: begin, line_to*, end)
  The remaining helpers (add_circle, add_ellipse, add_rounded_rectangle) are generic lyon_path code
  that only calls begin / line_to / cubic_bezier_to / quadratic_bezier_to / end: the harness expands
  them with a recording `PathBuilder` and hands the events over as `Cmd.begin … Cmd.end_`.

  What survives between two calls: `builder.options` (mutated by the setters, and temporarily by the
  thin rectangle), the id counter of the attribute store, `self.prev`, and the whole
  `StrokeBuilderImpl` (`Full.St`: output, `sub_path_start_advancement`, …).  `square_merge_threshold`
  is computed ONCE in `StrokeBuilderImpl::new` from the options the builder was created with
  (`Env.thr`): the thin rectangle's wider line does not change it.  `self.vertex` (StrokeVertexData)
  is passed by value in `Full` (every emission site assigns all its fields): a site that forgets to
  re-assign `vertex.half_width` emits, in lyon, the half width of the previous sub-path - with a thin
  rectangle before it that is a DIFFERENT number, and the tie (`prog` family of the C05 check) breaks.

  The program is run in two stages: `expand` (pure bookkeeping: options, ids, attributes, the
  rectangle decision - independent of the stroker state) turns the calls into `Item`s = an event
  together with the options in force when it is executed; `runItems` folds `Full.runEvent` over them.

  Mathlib-free: linked into the native model driver.
-/
import LyonVerif.Model.Tess.StrokeFull

namespace Lyon.Stroke.Prog
open Lyon Scalar Lyon.Stroke Lyon.Stroke.Full

variable {α : Type} [Scalar α]

/-- one call on the `StrokeBuilder`; `a` = the custom attributes passed along -/
inductive Cmd (α : Type) where
  | begin (p : P α) (a : List α)
  | line (p : P α) (a : List α)
  | quad (c p : P α) (a : List α)
  | cubic (c1 c2 p : P α) (a : List α)
  | end_ (close : Bool)
  /-- `add_rectangle(&Box2D { min, max }, winding, a)` -/
  | rect (mn mx : P α) (positive : Bool) (a : List α)
  /-- `add_polygon(Polygon { points, closed }, a)` -/
  | polygon (pts : List (P α)) (closed : Bool) (a : List α)
  /-- `add_line_segment(&LineSegment { from, to }, a)` -/
  | segment (p q : P α) (a : List α)
  /-- `add_point(at, a)` -/
  | point (p : P α) (a : List α)
  | setJoin (j : LineJoin)
  | setStartCap (c : LineCap)
  | setEndCap (c : LineCap)
  | setMiterLimit (ml : α)

/-- the part of the `StrokeBuilder` state the expansion of a call depends on -/
structure BSt (α : Type) where
  /-- `builder.options` -/
  o : Opts α
  /-- `attrib_store.next_id` -/
  nextId : Nat

/-- an event as the `StrokeBuilderImpl` executes it: the options in force, the event with the id the
attribute store returned, the attributes stored under that id -/
structure Item (α : Type) where
  o : Opts α
  ev : IdEv α
  attrs : List α

/-- the `line_to` calls of `add_polygon`, ids from `n` -/
def lineEvents (n : Nat) : List (P α) → List (IdEv α)
  | [] => []
  | q :: r => IdEv.line n q :: lineEvents (n + 1) r

/-- `add_polygon` on a builder whose next id is `n` (lyon_path default: nothing for no points) -/
def polygonEvents (n : Nat) (pts : List (P α)) (closed : Bool) : List (IdEv α) :=
  match pts with
  | [] => []
  | p :: r => IdEv.begin n p :: lineEvents (n + 1) r ++ [IdEv.end_ closed]

/-- `Box2D::width`, `Box2D::height` -/
def rectW (mn mx : P α) : α := mx.x - mn.x
def rectH (mn mx : P α) : α := mx.y - mn.y

/-- the test at the head of `StrokeBuilder::add_rectangle` -/
def rectIsThin (o : Opts α) (mn mx : P α) : Bool :=
  let threshold := (if o.join == .miter then one else ofSci 5 2) * o.lineWidth
  !o.varWidth && (decide (abs (rectW mn mx) < threshold) || decide (abs (rectH mn mx) < threshold))

/-- `approximate_thin_rectangle`: `(from, to, d)` -/
def thinSegment (mn mx : P α) : P α × P α × α :=
  if rectW mn mx > rectH mn mx then
    let d := rectH mn mx * half
    let y := (mn.y + mx.y) * half
    (⟨mn.x + d, y⟩, ⟨mx.x - d, y⟩, d)
  else
    let d := rectW mn mx * half
    let x := (mn.x + mx.x) * half
    (⟨x, mn.y + d⟩, ⟨x, mx.y - d⟩, d)

/-- the options `approximate_thin_rectangle` strokes its segment with -/
def thinOpts (o : Opts α) (d : α) : Opts α :=
  let cap : LineCap := if o.join == .round then .round else .square
  { o with lineWidth := o.lineWidth + d, startCap := cap, endCap := cap }

/-- the four corners in the order of the winding -/
def rectCorners (mn mx : P α) (positive : Bool) : List (P α) :=
  if positive then [mn, ⟨mx.x, mn.y⟩, mx, ⟨mn.x, mx.y⟩] else [mn, ⟨mn.x, mx.y⟩, mx, ⟨mx.x, mn.y⟩]

def items (o : Opts α) (a : List α) (evs : List (IdEv α)) : List (Item α) := evs.map (fun ev => ⟨o, ev, a⟩)

/-- one call: the new builder state and the events it makes the `StrokeBuilderImpl` execute -/
def expandCmd (s : BSt α) : Cmd α → BSt α × List (Item α)
  | .begin p a => ({ s with nextId := s.nextId + 1 }, [⟨s.o, .begin s.nextId p, a⟩])
  | .line p a => ({ s with nextId := s.nextId + 1 }, [⟨s.o, .line s.nextId p, a⟩])
  | .quad c p a => ({ s with nextId := s.nextId + 1 }, [⟨s.o, .quad c s.nextId p, a⟩])
  | .cubic c1 c2 p a => ({ s with nextId := s.nextId + 1 }, [⟨s.o, .cubic c1 c2 s.nextId p, a⟩])
  | .end_ c => (s, [⟨s.o, .end_ c, []⟩])
  | .rect mn mx positive a =>
    if rectIsThin s.o mn mx then
      let t := thinSegment mn mx
      -- the options are saved before and restored after the segment
      ({ s with nextId := s.nextId + 2 }, items (thinOpts s.o t.2.2) a (polygonEvents s.nextId [t.1, t.2.1] false))
    else
      ({ s with nextId := s.nextId + 4 }, items s.o a (polygonEvents s.nextId (rectCorners mn mx positive) true))
  | .polygon pts closed a =>
    ({ s with nextId := s.nextId + pts.length }, items s.o a (polygonEvents s.nextId pts closed))
  | .segment p q a => ({ s with nextId := s.nextId + 2 }, items s.o a (polygonEvents s.nextId [p, q] false))
  | .point p a => ({ s with nextId := s.nextId + 1 }, items s.o a (polygonEvents s.nextId [p] false))
  | .setJoin j => ({ s with o := { s.o with join := j } }, [])
  | .setStartCap c => ({ s with o := { s.o with startCap := c } }, [])
  | .setEndCap c => ({ s with o := { s.o with endCap := c } }, [])
  | .setMiterLimit ml => ({ s with o := { s.o with miterLimit := ml } }, [])

/-- a whole program -/
def expand : BSt α → List (Cmd α) → List (Item α)
  | _, [] => []
  | s, c :: cs => (expandCmd s c).2 ++ expand (expandCmd s c).1 cs

/-- the builder state after a program -/
def finalBSt : BSt α → List (Cmd α) → BSt α
  | s, [] => s
  | s, c :: cs => finalBSt (expandCmd s c).1 cs

/-- the endpoint id an item's event introduces -/
def Item.id? (it : Item α) : Option Nat :=
  match it.ev with
  | .begin id _ => some id
  | .line id _ => some id
  | .quad _ id _ => some id
  | .cubic _ _ id _ => some id
  | .end_ _ => none

/-- the attribute store after the program: `attrib_store.get(id)` -/
def storeOf (its : List (Item α)) (id : Nat) : List α :=
  ((its.find? (fun it => it.id? == some id)).map (·.attrs)).getD []

section
variable [Transc α] [Asin α] [FlatConst α]

/-- the `StrokeBuilderImpl` under the items of a program: the options change from item to item, the
merge threshold and the intersection routine are those of the builder's creation (`e0`) -/
def runItems (e0 : Env α) (store : Nat → List α) (its : List (Item α)) : Run α :=
  its.foldl (fun r it => if r.panicked then r else runEvent { e0 with o := it.o } store r it.ev)
    ⟨St.new, unset, nanP, false⟩

/-- a program on a fresh builder created with options `o`; `ix` = the line intersection routine -/
def runProg (o : Opts α) (ix : Lyon.StrokeQuad.Ix α) (cmds : List (Cmd α)) : Run α :=
  let its := expand ⟨o, 0⟩ cmds
  runItems (Env.new o ix) (storeOf its) its

/-- `build()` after the program; `none` = a flattening loop panicked -/
def tessellateProg (o : Opts α) (ix : Lyon.StrokeQuad.Ix α) (cmds : List (Cmd α)) : Option (Out α) :=
  let r := runProg o ix cmds
  if r.panicked then none else some r.st.out

end

end Lyon.Stroke.Prog
