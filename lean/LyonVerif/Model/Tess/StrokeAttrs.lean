/-
  `StrokeVertex::interpolated_attributes` as the stroker's vertex constructors see it: the cached
  buffer of `StrokeVertexData` (`buffer`, `buffer_is_valid`) threaded through the emission sequence of
  `StrokeBuilderImpl` (`crates/tessellation/src/stroke.rs`).

      if self.0.buffer_is_valid { return self.0.buffer; }
      match self.0.src {
          Endpoint { id }       => self.1.get(id),                       // the buffer is not touched
          Edge { from, to, t }  => { buffer[i] = a[i]*(1-t) + b[i]*t; buffer_is_valid = true; buffer }
      }

  `buffer_is_valid = false` is assigned at the head of every function that assigns `vertex.src`:
  `step_impl`, `fixed_width_step_impl` (the join), `tessellate_last_edge`, `tessellate_first_edge`,
  `close`, and — since /repo fix f1c9127a — `tessellate_empty_cap`.  All vertices of one such site
  share one `src`; a read that follows a read of the same source without a reset returns the same
  list (`Lyon.C05c.attrCache_read_again`), so resetting once per site and resetting before every
  vertex are observationally the same: the model resets before every vertex.

  Before f1c9127a `tessellate_empty_cap` did not reset: the vertices of an empty cap (a sub-path whose
  points all merged into its first point) were answered from the cache when the vertex emitted before
  them had an `Edge` source, and reported that earlier vertex's interpolated attributes instead of
  their own endpoint's (finding `C05-empty-cap-stale-attributes`, found by the tie, fixed).  The
  `reset` parameter of `AttrCache.read` is kept so that the former behaviour can still be stated.

  Mathlib-free: linked into the native model driver.
-/
import LyonVerif.Model.Tess.StrokeFull

namespace Lyon.Stroke.Full
open Lyon Scalar Lyon.Stroke

variable {α : Type} [Scalar α]

/-- `(buffer_is_valid, buffer)` -/
structure AttrCache (α : Type) where
  valid : Bool
  buf : List α

/-- one `interpolated_attributes()` call on a vertex with source `s`; `reset`: the site that emits
the vertex assigned `buffer_is_valid = false` since the previous read -/
def AttrCache.read (c : AttrCache α) (store : Nat → List α) (reset : Bool) (s : Src α) : List α × AttrCache α :=
  let c1 : AttrCache α := if reset then { c with valid := false } else c
  if c1.valid then (c1.buf, c1)
  else match s with
    | .endpoint id => (store id, c1)
    | .edge f t u => (lerpAttributes (store f) (store t) u, ⟨true, lerpAttributes (store f) (store t) u⟩)

/-- the attributes every vertex of the emission sequence reports (every emission site resets the
cache) -/
def attrsSeq (store : Nat → List α) : List (VData α) → AttrCache α → List (List α)
  | [], _ => []
  | d :: ds, c =>
    let r := c.read store true d.src
    r.1 :: attrsSeq store ds r.2

section
variable [Transc α] [Asin α] [FlatConst α]

/-- what the vertex constructor reads from `interpolated_attributes()` for every vertex of the run -/
def runAttrs (e : Env α) (store : Nat → List α) (evs : List (IdEv α)) : List (List α) :=
  attrsSeq store (runEvents e store evs).st.out.verts ⟨false, []⟩

end

end Lyon.Stroke.Full
