/-
  `StrokeVertex::interpolated_attributes` as the stroker's vertex constructors see it: the cached
  buffer of `StrokeVertexData` (`buffer`, `buffer_is_valid`) threaded through the emission sequence of
  `StrokeBuilderImpl` (`crates/tessellation/src/stroke.rs`).

      if self.0.buffer_is_valid { return self.0.buffer; }
      match self.0.src {
          Endpoint { id }       => self.1.get(id),                       // the buffer is not touched
          Edge { from, to, t }  => { buffer[i] = a[i]*(1-t) + b[i]*t; buffer_is_valid = true; buffer }
      }

  `buffer_is_valid = false` is assigned at the head of every function that assigns `vertex.src`:
  `step_impl`, `fixed_width_step_impl` (the join), `tessellate_last_edge`, `tessellate_first_edge`,
  `close` — but NOT in `tessellate_empty_cap`.  All vertices of one such site share one `src`, so
  between two resets the cache is right.  The vertices of an empty cap (a sub-path whose points all
  merged into its first point) are therefore answered from the cache if the vertex emitted before
  them had an `Edge` source: they report the interpolated attributes of that earlier vertex instead
  of their own endpoint's (finding `C05-empty-cap-stale-attributes`; modelled as it is).

  Mathlib-free: linked into the native model driver.
-/
import LyonVerif.Model.Tess.StrokeFull

namespace Lyon.Stroke.Full
open Lyon Scalar Lyon.Stroke

variable {α : Type} [Scalar α]

/-- `(buffer_is_valid, buffer)` -/
structure AttrCache (α : Type) where
  valid : Bool
  buf : List α

/-- one `interpolated_attributes()` call on a vertex with source `s`; `reset`: the site that emits
the vertex assigned `buffer_is_valid = false` before (every site except `tessellate_empty_cap`) -/
def AttrCache.read (c : AttrCache α) (store : Nat → List α) (reset : Bool) (s : Src α) : List α × AttrCache α :=
  let c1 : AttrCache α := if reset then { c with valid := false } else c
  if c1.valid then (c1.buf, c1)
  else match s with
    | .endpoint id => (store id, c1)
    | .edge f t u => (lerpAttributes (store f) (store t) u, ⟨true, lerpAttributes (store f) (store t) u⟩)

/-- is vertex number `k` inside one of the ranges `[lo, hi)`? -/
def inRanges (rs : List (Nat × Nat)) (k : Nat) : Bool := rs.any (fun r => decide (r.1 ≤ k) && decide (k < r.2))

/-- the attributes every vertex of the emission sequence reports, given the index ranges of the
vertices emitted by `tessellate_empty_cap` -/
def attrsSeq (store : Nat → List α) (caps : List (Nat × Nat)) :
    List (VData α) → Nat → AttrCache α → List (List α)
  | [], _, _ => []
  | d :: ds, k, c =>
    let r := c.read store (!inRanges caps k) d.src
    r.1 :: attrsSeq store caps ds (k + 1) r.2

section
variable [Transc α] [Asin α] [FlatConst α]

/-- the vertex index ranges emitted by `tessellate_empty_cap`: an `end` event that finds a single
point in the window and `may_need_empty_cap` set (by a merged second point, or by `close`) -/
def capRanges (e : Env α) (store : Nat → List α) (evs : List (IdEv α)) : List (Nat × Nat) :=
  (evs.foldl (fun (acc : Run α × List (Nat × Nat)) ev =>
    if acc.1.panicked then acc else
      let r' := runEvent e store acc.1 ev
      match ev with
      | .end_ c =>
        if (acc.1.st.mayNeedEmptyCap || (c && acc.1.st.buf.count == 1)) && acc.1.st.buf.count == 1 then
          (r', acc.2 ++ [(acc.1.st.out.verts.length, r'.st.out.verts.length)])
        else (r', acc.2)
      | _ => (r', acc.2)) ((⟨St.new, unset, nanP, false⟩ : Run α), [])).2

/-- what the vertex constructor reads from `interpolated_attributes()` for every vertex of the run -/
def runAttrs (e : Env α) (store : Nat → List α) (evs : List (IdEv α)) : List (List α) :=
  attrsSeq store (capRanges e store evs) (runEvents e store evs).st.out.verts 0 ⟨false, []⟩

end

end Lyon.Stroke.Full
