/-
  `StrokeVertex::interpolated_attributes` reading the attribute buffer the way the code does — the
  interpolation loop runs over `buffer.len()`:

      if self.0.buffer_is_valid { return self.0.buffer; }
      match self.0.src {
          Endpoint { id }      => self.1.get(id),
          Edge { from, to, t } => { let a = self.1.get(from); let b = self.1.get(to);
                                    for i in 0..self.0.buffer.len() { self.0.buffer[i] = a[i] * (1.0 - t) + b[i] * t; }
                                    self.0.buffer_is_valid = true; self.0.buffer }
      }

  and what the entry points of `StrokeTessellator` make of the object's buffer before
  `StrokeBuilderImpl::new` borrows it (`prologueBuffer`) and leave in the object (`bufferAfter`).
  Kept apart from `StrokeAttrs.lean` (whose `AttrCache.read` assumes `buffer.len() = a.len() = b.len()`;
  `BufCache` is the same pair of fields); needs `StrokeParts.lean` only.  Run by the checker family
  `chk_stroke_attrs` of C08 on its own, and — composed with the complete stroker
  (`Model/Tess/ResetStrokeAttrs.lean`, `Model/Tess/ResetStrokeFull.lean`) — by family `stroke_reuse:32`
  (since the boxes / triangles of `Model/Geom/Intersect.lean` carry the prefix `Ix`, the sweep model
  and `StrokeFull.lean` link into one driver).

  Mathlib-free.
-/
import LyonVerif.Model.Tess.StrokeParts
import LyonVerif.Model.Tess.Reset

set_option linter.unusedVariables false

namespace Lyon.Stroke.Full
open Lyon Lyon.Scalar Lyon.Stroke

variable {α : Type} [Scalar α]

/-- `Vec::clear` followed by `push(0.0)` × `n` -/
def clearPush (old : List α) (n : Nat) : List α := ([] : List α) ++ List.replicate n zero

/-- the buffer `StrokeBuilderImpl::new` borrows, from the object's buffer `old`: `tessellate` /
`tessellate_polygon` / `tessellate_path` without attributes use a LOCAL `Vec::new()`;
`tessellate_with_ids` and `builder_with_attributes(n)`: `clear()` then `push(0.0)` × n; `builder()`:
`clear()` (`n = 0`) -/
def prologueBuffer (old : List α) : Reset.StrokeEntry → List α
  | .events => []
  | .withIds n => clearPush old n
  | .builder n | .builderDropped n => clearPush old n

/-- the object's buffer after the call: `tessellate` works on a local `Vec`, the object's own is not
touched; otherwise it is the borrowed buffer as the reads of the call left it -/
def bufferAfter (old : List α) (e : Reset.StrokeEntry) (final : List α) : List α :=
  match e with
  | .events => old
  | _ => final

/-- `(buffer_is_valid, buffer)` of `StrokeVertexData` -/
structure BufCache (α : Type) where
  valid : Bool
  buf : List α

/-- one `interpolated_attributes()` call with the interpolation loop running over `buffer.len()`:
`none` = `a[i]` / `b[i]` out of bounds (the call unwinds).  `reset`: the site that emits the vertex
assigned `buffer_is_valid = false` since the previous read. -/
def BufCache.readB (c : BufCache α) (store : Nat → List α) (reset : Bool) (s : Src α) :
    Option (List α) × BufCache α :=
  let c1 : BufCache α := if reset then { c with valid := false } else c
  if c1.valid then (some c1.buf, c1)
  else match s with
    | .endpoint id => (some (store id), c1)
    | .edge f t u =>
      if c1.buf.length ≤ (store f).length ∧ c1.buf.length ≤ (store t).length then
        (some ((lerpAttributes (store f) (store t) u).take c1.buf.length),
         ⟨true, (lerpAttributes (store f) (store t) u).take c1.buf.length⟩)
      else (none, c1)

/-- the attributes the vertices with sources `srcs` report, in emission order (`none` = a read
panicked), and the cache at the end (every emission site resets the cache) -/
def attrsSeqB (store : Nat → List α) : List (Src α) → BufCache α → Option (List (List α)) × BufCache α
  | [], c => (some [], c)
  | s :: ss, c =>
    match c.readB store true s with
    | (none, c') => (none, c')
    | (some a, c') =>
      let r := attrsSeqB store ss c'
      (r.1.map (a :: ·), r.2)

/-- the hypothetical grow-only prologue of the stored seeds C05-r3-2 / C08-r3-1
(`if buffer.len() < n { buffer.resize(n, 0.0) }`): NOT what the code does; used by the witness that
the buffer's length is observable -/
def growOnly (old : List α) (n : Nat) : List α := old ++ List.replicate (n - old.length) zero

end Lyon.Stroke.Full
