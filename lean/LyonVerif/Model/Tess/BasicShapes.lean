/-
  `crates/tessellation/src/basic_shapes.rs`: `fill_rectangle`, `fill_circle`,
  `circle_flattening_step`, `fill_border_radius` as producers of a vertex list and a triangle
  (index) list.  Vertex ids are the order of `add_fill_vertex` calls (what `BuffersBuilder` does).
-/
import LyonVerif.Model.Scalar

namespace Lyon.Shapes
open Lyon Scalar

variable {α : Type} [Scalar α] [Transc α]

abbrev Tri := Nat × Nat × Nat

structure Mesh (α : Type) where
  verts : List (P α)
  tris : List Tri

/-- `fill_rectangle`: a = min, b = bottom_left = (min.x, max.y), c = bottom_right = max,
d = top_right = (max.x, min.y); triangles (a,b,c), (a,c,d). -/
def fillRectangle (mn mx : P α) : Mesh α :=
  ⟨[mn, ⟨mn.x, mx.y⟩, mx, ⟨mx.x, mn.y⟩], [(0, 1, 2), (0, 2, 3)]⟩

/-- `circle_flattening_step` -/
def circleFlatteningStep (radius tolerance : α) : α :=
  let tol := Scalar.min tolerance radius
  two * Transc.sqrt (two * tol * radius - tol * tol)

/-- `fill_border_radius`: appends vertices/triangles; `next` = id of the next vertex -/
def fillBorderRadius (center : P α) (a0 a1 radius : α) (va vb : Nat) :
    Nat → Mesh α → Mesh α
  | 0, m => m
  | n+1, m =>
    let mid := (a0 + a1) * half
    let normal : P α := ⟨Transc.cos mid, Transc.sin mid⟩
    let position := center + normal.smul radius
    let v := m.verts.length
    let m1 : Mesh α := ⟨m.verts ++ [position], m.tris ++ [(vb, v, va)]⟩
    let m2 := fillBorderRadius center a0 mid radius va v n m1
    fillBorderRadius center mid a1 radius v vb n m2

/-- the recursion depth chosen by `fill_circle`: `(arc_len / step).ceil().log2().ceil() as u32`
(the `.ceil()` on the logarithm is the repair of the truncation defect, /repo "fix:" commit) -/
def circleRecursions (radius tolerance : α) : Nat :=
  let arcLen := half * Transc.pi * radius
  let step := circleFlatteningStep radius tolerance
  let numSegments := Transc.ceil (arcLen / step)
  Transc.toNat (Transc.ceil (Transc.log2 numSegments))

/-- `fill_circle`; `none` when `radius == 0` (no geometry at all, not even `begin_geometry`) -/
def fillCircle (center : P α) (radius0 tolerance : α) : Option (Mesh α) :=
  let radius := Scalar.abs radius0
  if radius == zero then none else
    let up : P α := ⟨zero, -one⟩
    let down : P α := ⟨zero, one⟩
    let left : P α := ⟨-one, zero⟩
    let right : P α := ⟨one, zero⟩
    let v : List (P α) := [center + left.smul radius, center + up.smul radius,
                          center + right.smul radius, center + down.smul radius]
    let m0 : Mesh α := ⟨v, [(0, 3, 1), (1, 3, 2)]⟩
    let pi := (Transc.pi : α)
    let n := circleRecursions radius tolerance
    let m1 := fillBorderRadius center pi (ofSci 15 1 * pi) radius 0 1 n m0
    let m2 := fillBorderRadius center (ofSci 15 1 * pi) (two * pi) radius 1 2 n m1
    let m3 := fillBorderRadius center zero (pi * half) radius 2 3 n m2
    let m4 := fillBorderRadius center (pi * half) pi radius 3 0 n m3
    some m4

end Lyon.Shapes
