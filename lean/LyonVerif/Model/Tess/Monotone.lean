/-
  `crates/tessellation/src/monotone.rs`: the y-monotone polygon triangulation stage.

  * `Basic`    — `BasicMonotoneTessellator` (stack algorithm)
  * `Adv`      — `AdvancedMonotoneTessellator` (per-side convex chains flushed by `flush_side`,
                 forwarding to `Basic`)

  Vertex ids are natural numbers; the vertex stack is a `List` with the TOP AT THE HEAD.
-/
import LyonVerif.Model.Scalar

namespace Lyon.Mono
open Lyon Scalar

variable {α : Type} [Scalar α]

structure MV (α : Type) where
  pos : P α
  id : Nat
  left : Bool
deriving Inhabited

abbrev Tri := Nat × Nat × Nat

structure Basic (α : Type) where
  /-- top of the stack first -/
  stack : List (MV α)
  previous : MV α
  /-- emitted triangles, oldest first -/
  tris : List Tri

def Basic.begin (pos : P α) (id : Nat) : Basic α :=
  let first : MV α := ⟨pos, id, true⟩
  ⟨[first], first, []⟩

/-- side changed: fan from `current` over consecutive stack pairs, bottom to top.
`l` is the stack BOTTOM FIRST. -/
def fanTri (cur a b : MV α) : Tri :=
  if zero ≤ (a.pos - b.pos).cross (cur.pos - b.pos) then (a.id, b.id, cur.id) else (b.id, a.id, cur.id)

def fanTris (cur : MV α) : List (MV α) → List Tri
  | a :: b :: r => fanTri cur a b :: fanTris cur (b :: r)
  | _ => []

/-- same side, one ear test: `a = last_popped, b = stack.last`, swapped when the current side is
right; the ear is cut when `cross(cur − b, a − b) ≥ 0`. -/
def earConvex (cur lp top : MV α) : Bool :=
  let a := if cur.left then lp else top
  let b := if cur.left then top else lp
  decide (zero ≤ (cur.pos - b.pos).cross (a.pos - b.pos))

/-- the triangle `(b, a, cur)` of that ear -/
def earTri (cur lp top : MV α) : Tri :=
  if cur.left then (top.id, lp.id, cur.id) else (lp.id, top.id, cur.id)

/-- same side: pop while the ear (`lastPopped`, top of `stack`, `cur`) is convex.
Returns the remaining stack (top first, with the last popped vertex pushed back) and the
triangles emitted. -/
def popLoop (cur : MV α) (lastPopped : MV α) : List (MV α) → List (MV α) × List Tri
  | [] => ([lastPopped], [])
  | top :: rest =>
    if earConvex cur lastPopped top then
      ((popLoop cur top rest).1, earTri cur lastPopped top :: (popLoop cur top rest).2)
    else
      (lastPopped :: top :: rest, [])

def Basic.vertex (s : Basic α) (cur : MV α) : Basic α :=
  if cur.left != s.previous.left then
    { stack := [cur, s.previous], previous := cur, tris := s.tris ++ fanTris cur s.stack.reverse }
  else
    match s.stack with
    | [] => { stack := [cur], previous := cur, tris := s.tris }   -- unreachable (stack is never empty)
    | top :: rest =>
      let r := popLoop cur top rest
      { stack := cur :: r.1, previous := cur, tris := s.tris ++ r.2 }

def Basic.end_ (s : Basic α) (pos : P α) (id : Nat) : Basic α :=
  let s' := s.vertex ⟨pos, id, !s.previous.left⟩
  { s' with stack := [] }

/-- feed `begin`, the middle vertices, `end` -/
def Basic.run (seq : List (P α × Bool)) : List Tri :=
  match seq with
  | [] => []
  | [_] => []
  | (p0, _) :: rest =>
    let n := rest.length
    let mids := rest.take (n - 1)
    let last := rest.getLast?.map (·.1) |>.getD p0
    let s0 : Basic α := Basic.begin p0 0
    let s1 := (mids.zipIdx).foldl (fun s (pi : (P α × Bool) × Nat) => s.vertex ⟨pi.1.1, pi.2 + 1, pi.1.2⟩) s0
    (s1.end_ last n).tris

/-! ### Advanced tessellator -/

structure SideEv (α : Type) where
  refPt : P α
  consRefX : α
  events : List Nat      -- oldest first
  prev : P α
  last : MV α

def SideEv.push (s : SideEv α) (v : MV α) : SideEv α :=
  { s with events := s.events ++ [v.id], prev := s.last.pos, last := v }

/-- one level of `flush_side`'s doubling loop: triangles `(ev[a], ev[b], ev[last])` -/
def flushLevel (ev : Array Nat) (len step : Nat) (right : Bool) : List Tri :=
  let imax := (len - 1) / (2 * step)
  let main := (List.range imax).map (fun i =>
    let a := i * 2 * step
    let b := a + step
    let li := b + step
    if right then (ev.getD b 0, ev.getD a 0, ev.getD li 0) else (ev.getD a 0, ev.getD b 0, ev.getD li 0))
  let lastIndex := if imax == 0 then 0 else (imax - 1) * 2 * step + step + step
  let extra :=
    if lastIndex + step < len then
      let b := lastIndex
      let c := lastIndex + step
      [if right then (ev.getD 0 0, ev.getD c 0, ev.getD b 0) else (ev.getD 0 0, ev.getD b 0, ev.getD c 0)]
    else []
  main ++ extra

def flushLevels (ev : Array Nat) (len : Nat) (right : Bool) : Nat → Nat → List Tri
  | 0, _ => []
  | fuel+1, step => if step * 2 < len then flushLevel ev len step right ++ flushLevels ev len right fuel (step * 2) else []

/-- `flush_side`: triangles of the convex chain, the reset side state and the vertex to forward -/
def flushSide (s : SideEv α) (right : Bool) : SideEv α × List Tri × Option (MV α) :=
  let len := s.events.length
  if len < 2 then (s, [], none) else
    let tris := flushLevels s.events.toArray len right (len + 1) 1
    let s' : SideEv α := { s with events := [s.last.id], prev := s.last.pos, refPt := s.last.pos }
    (s', tris, some s.last)

structure Adv (α : Type) where
  tess : Basic α
  left : SideEv α
  right : SideEv α

/-- `is_after(a, b)` of fill.rs: `a.y > b.y || (a.y == b.y && a.x > b.x)` -/
def isAfter (a b : P α) : Bool := b.y < a.y || (a.y == b.y && b.x < a.x)

/-- a freshly constructed tessellator (`AdvancedMonotoneTessellator::new`) -/
def Adv.new : Adv α :=
  let z : P α := ⟨zero, zero⟩
  let dummy : MV α := ⟨z, 0, true⟩
  let side : SideEv α := ⟨z, zero, [], z, dummy⟩
  ⟨⟨[], dummy, []⟩, side, side⟩

/-- `begin` on a tessellator in state `old` (they are pooled and reused).  Every field is
overwritten except that `push` sets `prev := old.last.pos`, a stale value that is overwritten by
the next `push` on that side before `prev` is ever read (it is read only when the side holds at
least two events) — see `Props/C08`. -/
def Adv.begin (old : Adv α) (pos : P α) (id : Nat) : Adv α :=
  let mk (o : SideEv α) (l : Bool) : SideEv α :=
    { refPt := pos, consRefX := pos.x, events := [id], prev := o.last.pos, last := ⟨pos, id, l⟩ }
  ⟨Basic.begin pos id, mk old.left true, mk old.right false⟩

/-- push triangle ids straight into the inner tessellator (as `flush_side` does) -/
def Basic.pushTris (s : Basic α) (t : List Tri) : Basic α := { s with tris := s.tris ++ t }

def Basic.fwd (s : Basic α) : Option (MV α) → Basic α
  | none => s
  | some v => s.vertex v

def Adv.vertex (st : Adv α) (pos : P α) (id : Nat) (isLeft : Bool) : Adv α :=
  -- update reference points
  let st : Adv α :=
    if isLeft then
      let rx := Scalar.max st.left.refPt.x pos.x
      { st with left := { st.left with refPt := ⟨rx, st.left.refPt.y⟩, consRefX := Scalar.max st.left.consRefX rx } }
    else
      let rx := Scalar.min st.right.refPt.x pos.x
      { st with right := { st.right with refPt := ⟨rx, st.right.refPt.y⟩, consRefX := Scalar.min st.right.consRefX rx } }
  let dx := st.right.consRefX - st.left.consRefX
  let sideEv := if isLeft then st.left else st.right
  let oppEv := if isLeft then st.right else st.left
  let dy := pos.y - sideEv.refPt.y
  let sidesAreClose := dx < dy * ofSci 1 1
  let len := sideEv.events.length
  let outwardTurn :=
    if !sidesAreClose && len ≥ 2 then
      let sign : α := if isLeft then one else -one
      decide ((sideEv.prev - sideEv.last.pos).cross (pos - sideEv.last.pos) * sign < zero)
    else false
  let (tess, sideEv, oppEv) :=
    if outwardTurn || sidesAreClose then
      let mustFlushOpp := isAfter sideEv.last.pos oppEv.last.pos
      let (tess, sideEv, oppEv) :=
        if mustFlushOpp then
          let (o', tr, v) := flushSide oppEv isLeft   -- opposite side: right iff current is left
          match v with
          | some mv => ((st.tess.pushTris tr).vertex mv, { sideEv with consRefX := sideEv.refPt.x }, o')
          | none => (st.tess, sideEv, oppEv)
        else (st.tess, sideEv, oppEv)
      let (s', tr, v) := flushSide sideEv (!isLeft)
      match v with
      | some mv =>
        -- lyon 9b7220fb: the vertex being added is part of the restarted chain's reference as well
        let rx := if isLeft then Scalar.max s'.refPt.x pos.x else Scalar.min s'.refPt.x pos.x
        ((tess.pushTris tr).vertex mv, { s' with refPt := ⟨rx, s'.refPt.y⟩ }, { oppEv with consRefX := oppEv.refPt.x })
      | none => (tess, sideEv, oppEv)
    else (st.tess, sideEv, oppEv)
  let sideEv := sideEv.push ⟨pos, id, isLeft⟩
  if isLeft then ⟨tess, sideEv, oppEv⟩ else ⟨tess, oppEv, sideEv⟩

def Adv.end_ (st : Adv α) (pos : P α) (id : Nat) : Basic α :=
  let (_, ta, a) := flushSide st.left false
  let (_, tb, b) := flushSide st.right true
  let tess := (st.tess.pushTris (if a.isSome then ta else [])).pushTris (if b.isSome then tb else [])
  let tess := match a, b with
    | some v, none => tess.vertex v
    | none, some v => tess.vertex v
    | some v1, some v2 =>
      if isAfter v1.pos v2.pos then (tess.vertex v2).vertex v1 else (tess.vertex v1).vertex v2
    | none, none => tess
  tess.end_ pos id

def Adv.run (seq : List (P α × Bool)) : List Tri :=
  match seq with
  | [] => []
  | [_] => []
  | (p0, _) :: rest =>
    let n := rest.length
    let mids := rest.take (n - 1)
    let last := rest.getLast?.map (·.1) |>.getD p0
    let s0 : Adv α := Adv.begin Adv.new p0 0
    let s1 := (mids.zipIdx).foldl (fun s (pi : (P α × Bool) × Nat) => s.vertex pi.1.1 (pi.2 + 1) pi.1.2) s0
    (s1.end_ last n).tris

end Lyon.Mono
