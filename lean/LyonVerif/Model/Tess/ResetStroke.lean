/-
  C08 on top of the complete stroker model (`Model/Tess/StrokeFull.lean`, tied bit for bit by
  family `full:32` of C05): the `StrokeTessellator` as a LONG-LIVED OBJECT.

  `struct StrokeTessellator { attrib_buffer: Vec<f32>, builder_attrib_store: SimpleAttributeStore }`
  (`Reset.StrokeT`).  Everything else the stroker works with (`StrokeBuilderImpl`: point buffer,
  first points, sub-path state, vertex scratch) is constructed inside the call
  (`StrokeBuilderImpl::new`) and dies with it — that is `Full.St.new` at the head of
  `Full.runEvents`.  The entry points, statement by statement:

  * `tessellate` / `tessellate_polygon` / `tessellate_path` without attributes: a LOCAL `Vec::new()`
    is the attribute buffer; `self` is not touched;
  * `tessellate_with_ids` / `tessellate_path` with attributes: `self.attrib_buffer.clear()`, then
    `push(0.0)` × `num_attributes`; the attribute store is the caller's;
  * `builder` / `builder_with_attributes(n)`: `self.builder_attrib_store.reset(n)`,
    `self.attrib_buffer.clear()`, `push(0.0)` × n; every endpoint `add`s its attributes to the
    recycled store and gets the next id; `build()` (or the builder is dropped: the emissions made
    while the path was fed are the same).

  Mathlib-free.
-/
import LyonVerif.Model.Tess.StrokeFull
import LyonVerif.Model.Tess.Reset

namespace Lyon.Stroke.Full
open Lyon Lyon.Scalar
open Lyon.StrokeQuad (Ix)

variable {α : Type} [Scalar α]

/-- `SimpleAttributeStore::get(id)`: `&data[id * n .. (id + 1) * n]` -/
def storeGet (s : Reset.Store α) (id : Nat) : List α :=
  (s.data.drop (id * s.numAttributes)).take s.numAttributes

/-- the `attrib_store.add(attributes)` calls of one `StrokeBuilder` run, one per endpoint, in order -/
def storeFeed (s : Reset.Store α) (attrs : List (List α)) : Reset.Store α :=
  attrs.foldl (fun s a => (s.add a).1) s

/-- one call of a stroke entry point -/
structure StrokeCall (α : Type) where
  entry : Reset.StrokeEntry
  evs : List (PathEv α)
  /-- one attribute vector per endpoint (`withIds`: the caller's store; builder entries: what the
  path commands carry) -/
  attrs : List (List α)
  opts : Opts α
  /-- what `interpolated_attributes` scribbled into the attribute buffer by the end of the call
  (any contents: nothing reads them later) -/
  scribble : List α

section
variable [Transc α] [Asin α] [FlatConst α]

/-- one call on the object `t`: the object afterwards and the complete output
(`none` = a flattening loop panicked) -/
def strokeFullCall (ix : Ix α) (t : Reset.StrokeT α) (c : StrokeCall α) : Reset.StrokeT α × Option (Out α) :=
  let e := Env.new c.opts ix
  match c.entry with
  | .events => (t, tessellateFw e c.evs)
  | .withIds _ =>
      ({ t with attribBuffer := c.scribble }, tessellateIds e (fun id => c.attrs.getD id []) (assignIds c.evs 0))
  | .builder n | .builderDropped n =>
      let st := storeFeed (t.store.reset n) c.attrs
      ({ attribBuffer := c.scribble, store := st }, tessellateIds e (storeGet st) (assignIds c.evs 0))

/-- the long-lived `StrokeTessellator` as a call machine -/
def strokeObj (ix : Ix α) : Reset.Machine (Reset.StrokeT α) (StrokeCall α) (Option (Out α)) :=
  ⟨strokeFullCall ix⟩

end

end Lyon.Stroke.Full
