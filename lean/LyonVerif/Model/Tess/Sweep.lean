/-
  `crates/tessellation/src/fill.rs`: the sweep-line fill tessellator itself, statement by
  statement, on top of the event queue (`Model/Tess/EventQueue.lean`), the edge-record operations
  (`Model/Tess/Sources.lean`), the monotone tessellators (`Model/Tess/Monotone.lean`, `Adv`) and
  the f64 segment intersection (`Model/Geom/Intersect.lean`, `Seg.intersectionT`).

  Modelled (function by function, same names in camelCase):
  `FillTessellator::{tessellate_impl, tessellator_loop, initialize_events, process_events,
  scan_active_edges, check_remaining_edges, is_edge_connecting, process_edges_above,
  process_edges_below, update_active_edges, split_event, handle_intersections,
  process_intersection, sort_active_edges, recover_from_error, sort_edges_below,
  handle_coincident_edges_below, merge_coincident_edges, reset}`, `Spans::{begin_span, end_span,
  cleanup_spans}` (with the tessellator pool), `WindingState::{new, update}`, `ActiveEdge::{min_x,
  max_x, solve_x_for_y}`, `ActiveEdgeScan`, `PendingEdge`, `slope`, `fmax`, `is_after`, `is_near`,
  `points_are_equal`, both `reorient`s, `FillRule::is_in` (= `Slab.Rule.isIn`), and the event
  stream that each of the five entry points feeds to the queue for polygonal input
  (`tessellate`, `tessellate_path`, `tessellate_with_ids`, `tessellate_polygon`, `builder`:
  they differ in the endpoint ids only).  Curved input (quadratic / cubic edges flattened inside
  the queue builder, the id-based and attribute-carrying entry points) is
  `Model/Tess/SweepCurves.lean`, which ends in `tessellateImpl` of this file.

  Arithmetic: `α` is the tessellator's `f32`, `Wide.W α` the `f64` that `handle_intersections` /
  `process_intersection` widen to (class `Wide`).  Integer overflow, out-of-range indexing,
  `unreachable!()` and the `assert!` of `process_intersection` are explicit `panic` outcomes (the
  harness is built with overflow checks).  The slice sorts (`sort_unstable_by` on the pending
  edges, `sort_by` on the active-edge keys) are Rust's insertion sort for `len ≤ 20`; for longer
  slices the result is determined by the sort's contract whenever the comparator is a total
  preorder on the elements (checked, see `consistentOn`), otherwise the outcome is
  `unmodelled sort-gt20-inconsistent`.

  State lives in `St`; every step is a function in `SM = ExceptT Fail (StateM St)` so that the
  output emitted before an error is kept (the geometry builder saw it).

  Mathlib-free.
-/
import LyonVerif.Model.Tess.EventQueue
import LyonVerif.Model.Tess.Monotone
import LyonVerif.Model.Geom.Intersect
import LyonVerif.Model.Slab

namespace Lyon.Sweep
open Lyon Lyon.Scalar Lyon.EQ Lyon.Mono

/-- what the sweep needs beyond `Scalar`: the `f64` it widens to (`W`, with its own arithmetic),
`f32::MIN`, `next_after(+inf)`, `is_nan` -/
class Wide (α : Type) where
  /-- the wide type (`f64`) of `handle_intersections` / `process_intersection` -/
  W : Type
  scalarW : Scalar W
  sgnW : Sgn W
  widen : α → W
  narrow : W → α
  /-- `x.next_after(f32::INFINITY)` (crate float_next_after) -/
  nextUp : α → α
  /-- `f32::MIN` -/
  fmin : α
  isNaN : α → Bool
  /-- `f32::sqrt` (used by `Vector::length` in `handle_coincident_edges_below`, lyon 748da73e) -/
  sqrt : α → α
  /-- `f32::EPSILON` (vertex-on-edge threshold, lyon 9151b7de) -/
  eps : α

attribute [instance_reducible, instance] Wide.scalarW Wide.sgnW

def f32NextUp (x : Float32) : Float32 :=
  if x.isNaN then x
  else if x.isInf then x                                  -- `y == x` for +inf, `is_infinite` for -inf
  else if x == 0 then Float32.ofBits 1                   -- copy_sign(1e-45, +inf)
  else if x > 0 then Float32.ofBits (x.toBits + 1)
  else Float32.ofBits (x.toBits - 1)                     -- -min-subnormal goes to -0.0 (sign kept)

instance : Wide Float32 where
  W := Float
  scalarW := inferInstance
  sgnW := inferInstance
  widen := Float32.toFloat
  narrow := Float.toFloat32
  nextUp := f32NextUp
  fmin := Float32.ofBits 0xff7fffff
  isNaN := Float32.isNaN
  sqrt := Float32.sqrt
  eps := Float32.ofBits 0x34000000

variable {α : Type} [Scalar α] [Wide α]

def widenP (p : P α) : P (Wide.W α) := ⟨Wide.widen p.x, Wide.widen p.y⟩
def narrowP (p : P (Wide.W α)) : P α := ⟨Wide.narrow p.x, Wide.narrow p.y⟩

/-! ### small helpers of fill.rs -/

/-- `fmax(a, b) = if a > b { a } else { b }` -/
def fmax (a b : α) : α := if b < a then a else b

/-- `slope(v) = v.x / v.y.max(f32::MIN)` -/
def slope (v : P α) : α := v.x / Scalar.max v.y (Wide.fmin (α := α))

def isAfter (a b : P α) : Bool := Sources.isAfter a b

/-- `is_near(a, b) = (a - b).square_length() < 0.000000001` -/
def isNear (a b : P α) : Bool := decide ((a - b).sqLen < ofSci 1 9)

/-- fill.rs `reorient(p) = point(p.y, -p.x)` (sweep space → output space) -/
def reorientOut (p : P α) : P α := ⟨p.y, -p.x⟩
/-- event_queue.rs `reorient(p) = point(-p.y, p.x)` = `FillBuilder::position` (input → sweep space) -/
def reorientIn (p : P α) : P α := ⟨-p.y, p.x⟩

/-! ### `WindingState` -/

structure WindingState where
  spanIndex : Int
  number : Int
  isIn : Bool

def WindingState.new : WindingState := ⟨-1, 0, false⟩

def WindingState.update (w : WindingState) (rule : Slab.Rule) (edgeWinding : Int) : WindingState :=
  let number := w.number + edgeWinding
  let isIn := rule.isIn number
  ⟨if isIn then w.spanIndex + 1 else w.spanIndex, number, isIn⟩

/-! ### edges -/

structure ActiveEdge (α : Type) where
  from_ : P α
  to : P α
  winding : Int
  isMerge : Bool
  fromId : Nat
  srcEdge : Nat
  rangeEnd : α

structure PendingEdge (α : Type) where
  to : P α
  sortKey : α
  srcEdge : Nat
  winding : Int
  rangeEnd : α

namespace ActiveEdge
def minX (e : ActiveEdge α) : α := Scalar.min e.from_.x e.to.x
def maxX (e : ActiveEdge α) : α := fmax e.from_.x e.to.x
/-- `LineSegment{from,to}.solve_x_for_y(y).max(min_x).min(max_x)` -/
def solveXForY (e : ActiveEdge α) (y : α) : α :=
  let s : Seg α := ⟨e.from_, e.to⟩
  Scalar.min (Scalar.max (s.x (s.solveTForY y)) e.minX) e.maxX
end ActiveEdge

/-! ### errors and outcomes -/

inductive IErr where
  | order (n : Nat)
  | insufficientSpans
  | mergeVertexOutside

def IErr.toString : IErr → String
  | .order n => s!"IncorrectActiveEdgeOrder({n})"
  | .insufficientSpans => "InsufficientNumberOfSpans"
  | .mergeVertexOutside => "MergeVertexOutside"

inductive Fail where
  /-- `Err(TessellationError)`, Debug-formatted -/
  | err (kind : String)
  | panic (what : String)
  | unmodelled (which : String)
  | fuel

/-- everything the geometry builder sees, in call order -/
inductive Emit (α : Type) where
  /-- `add_fill_vertex`: output position + the sibling records of the current event (hook H1) -/
  | vertex (pos : P α) (recs : List (P α × EdgeData α))
  | tri (a b c : Nat)

/-! ### `ActiveEdgeScan` -/

structure Scan where
  /-- `(span, side)`; `true` = `Side::Left` -/
  vertexEvents : Array (Int × Bool) := #[]
  edgesToSplit : Array Nat := #[]
  spansToEnd : Array Int := #[]
  mergeEvent : Bool := false
  splitEvent : Bool := false
  mergeSplitEvent : Bool := false
  aboveStart : Nat := 0
  aboveEnd : Nat := 0
  windingBefore : WindingState := WindingState.new

/-! ### state -/

structure St (α : Type) where
  q : Queue α
  curPos : P α
  curVertex : Nat
  curEvent : Nat
  active : Array (ActiveEdge α)
  below : Array (PendingEdge α)
  spans : Array (Option (Adv α))
  /-- `Spans::pool`, top first -/
  pool : List (Adv α)
  rule : Slab.Rule
  horizontal : Bool
  /-- `options.tolerance * 0.5` -/
  tolerance : α
  handleIntersections : Bool
  out : Array (Emit α)
  nverts : Nat
  /-- instrumentation only (never read by the model): bit set of the branches taken, see `covNames` -/
  cov : Nat := 0

abbrev SM (α : Type) := ExceptT Fail (StateM (St α))

/-- names of the coverage bits -/
def covNames : List String := [
  "recover", "second-error", "merge-event", "split-event", "merge-split-event", "edge-split-at-vertex",
  "coincident-equal", "coincident-split", "intersection", "intersection-at-current", "intersection-y-fixup",
  "snap-below-to", "snap-active-to", "flip-active", "flip-below", "double-flip", "insert-sibling",
  "merge-left-of-vertex", "merge-resolved", "recover-merge-fixup", "recover-begin-span", "recover-pop-span",
  "leftover-span", "pool-reuse", "recover-last-merge-swap", "intersection-no-active-cut", "intersection-no-below-cut"]

def mark (bit : Nat) : SM α Unit := modify fun s => { s with cov := s.cov ||| (1 <<< bit) }

def emitTris (tris : List Mono.Tri) : SM α Unit :=
  modify fun s => { s with out := tris.foldl (fun o t => o.push (.tri t.1 t.2.1 t.2.2)) s.out }

/-! ### step 1: `scan_active_edges` -/

/-- `self.tolerance.max(current_x.abs() * 2.0 * f32::EPSILON)` (lyon 9151b7de): the tolerance
cannot be finer than what `f32` resolves at the magnitude of the current abscissa -/
def onEdgeThreshold (tol x : α) : α := Scalar.max tol (abs x * two * Wide.eps (α := α))

/-- the `edge_is_before_current_point` block: `(is_before, sets connecting_edges)` -/
def edgeBefore (cur : P α) (tol : α) (e : ActiveEdge α) : Bool × Bool :=
  if cur == e.to then (false, true)
  else if e.maxX < cur.x then (true, false)
  else if e.minX > cur.x then (false, false)
  else if e.from_.y == e.to.y then (false, true)
  else
    let ex := e.solveXForY cur.y
    if abs (ex - cur.x) ≤ onEdgeThreshold tol cur.x then (false, true)
    else if ex > cur.x then (false, false)
    else (true, false)

/-- `is_edge_connecting`: `(connects, pushed to edges_to_split)` -/
def isEdgeConnecting (cur : P α) (tol0 : α) (e : ActiveEdge α) : Except IErr (Bool × Bool) :=
  let tol := onEdgeThreshold tol0 cur.x
  if cur == e.to then .ok (true, false)
  else if e.maxX + tol < cur.x ∨ e.to.y < cur.y then .error (.order 4)
  else if e.minX > cur.x then .ok (false, false)
  else
    let ex := if e.from_.y != e.to.y then e.solveXForY cur.y
              else if e.maxX ≥ cur.x ∧ e.minX ≤ cur.x then cur.x
              else e.to.x
    if abs (ex - cur.x) ≤ tol then .ok (true, true)
    else if ex < cur.x then .error (.order 5)
    else .ok (false, false)

/-- `check_remaining_edges` -/
def checkRemainingEdges (cur : P α) (edges : Array (ActiveEdge α)) (start : Nat) : Except IErr Unit := do
  for e in edges.extract start edges.size do
    if e.isMerge then continue
    if e.maxX < cur.x then throw (.order 1)
    if cur == e.to then throw (.order 2)
    if e.minX < cur.x ∧ e.solveXForY cur.y < cur.x then throw (.order 3)

def scanActiveEdges (s : St α) : Except IErr Scan := do
  let cur := s.curPos
  let mut connecting := false
  let mut idx : Nat := 0
  let mut w := WindingState.new
  let mut prevWasMerge := false
  -- Step 1: edges before the current point
  for e in s.active do
    if e.isMerge then
      w := { w with spanIndex := w.spanIndex + 1 }
      idx := idx + 1
      prevWasMerge := true
      continue
    let r := edgeBefore cur s.tolerance e
    if r.2 then connecting := true
    if !r.1 then break
    w := w.update s.rule e.winding
    prevWasMerge := false
    idx := idx + 1
  let mut scan : Scan := { aboveStart := idx, windingBefore := w }
  if prevWasMerge then
    scan := { scan with windingBefore := { w with spanIndex := w.spanIndex - 1 }, aboveStart := idx - 1 }
    if !connecting then
      scan := { scan with
        vertexEvents := (scan.vertexEvents.push (w.spanIndex - 1, false)).push (w.spanIndex, true),
        mergeSplitEvent := true }
  scan := { scan with splitEvent := !connecting && w.isIn && !scan.mergeSplitEvent }
  -- Step 2: edges connecting with the current point
  if connecting then
    let inBefore := w.isIn
    let mut firstConnecting := !prevWasMerge
    for e in s.active.extract idx s.active.size do
      if e.isMerge then
        if !w.isIn then throw .mergeVertexOutside
        scan := { scan with spansToEnd := scan.spansToEnd.push w.spanIndex }
        w := { w with spanIndex := w.spanIndex + 1 }
        idx := idx + 1
        firstConnecting := false
        continue
      let c ← isEdgeConnecting cur s.tolerance e
      if c.2 then scan := { scan with edgesToSplit := scan.edgesToSplit.push idx }
      if !c.1 then break
      if !firstConnecting && w.isIn then
        scan := { scan with spansToEnd := scan.spansToEnd.push w.spanIndex }
      w := w.update s.rule e.winding
      if w.isIn && w.spanIndex ≥ (s.spans.size : Int) then throw .insufficientSpans
      idx := idx + 1
      firstConnecting := false
    let inAfter := w.isIn
    if inBefore && inAfter && s.below.isEmpty && scan.edgesToSplit.isEmpty then
      scan := { scan with mergeEvent := true }
    if inBefore then
      scan := { scan with vertexEvents := scan.vertexEvents.push (scan.windingBefore.spanIndex, false) }
    if inAfter then
      scan := { scan with vertexEvents := scan.vertexEvents.push (w.spanIndex, true) }
  scan := { scan with aboveEnd := idx }
  -- Step 3: edges after the current point (error detection only)
  checkRemainingEdges cur s.active idx
  return scan

/-! ### `Spans` -/

/-- `span_idx as usize` checked against the length -/
def spanIdx (i : Int) (n : Nat) : Option Nat := if 0 ≤ i ∧ i.toNat < n then some i.toNat else none

/-- `self.fill.spans[i as usize].tess().vertex(pos, id, side)` -/
def spanVertex (i : Int) (pos : P α) (id : Nat) (isLeft : Bool) : SM α Unit := do
  let s ← get
  match spanIdx i s.spans.size with
  | none => throw (.panic "span index out of range")
  | some k =>
    match s.spans.getD k none with
    | none => throw (.panic "dead span")
    | some t => set { s with spans := s.spans.setIfInBounds k (some (t.vertex pos id isLeft)) }

/-- `Spans::begin_span` -/
def beginSpan (i : Int) (pos : P α) (id : Nat) : SM α Unit := do
  let s ← get
  let old : Adv α := match s.pool with | [] => Adv.new | t :: _ => t
  let pool := s.pool.drop 1
  let tess := Adv.begin old pos id
  if 0 ≤ i ∧ i.toNat ≤ s.spans.size then
    let k := i.toNat
    set { s with pool := pool, cov := (if s.pool.isEmpty then s.cov else s.cov ||| (1 <<< 23)),
                 spans := (s.spans.extract 0 k).push (some tess) ++ s.spans.extract k s.spans.size }
  else throw (.panic "span insertion index out of range")

/-- `Spans::end_span` -/
def endSpan (i : Int) (pos : P α) (id : Nat) : SM α Unit := do
  let s ← get
  match spanIdx i s.spans.size with
  | none => throw (.panic "span index out of range")
  | some k =>
    match s.spans.getD k none with
    | none => throw (.panic "dead span")
    | some t =>
      let b := t.end_ pos id
      let pooled : Adv α := ⟨{ b with tris := [] }, (flushSide t.left false).1, (flushSide t.right true).1⟩
      set { s with spans := s.spans.setIfInBounds k none, pool := pooled :: s.pool }
      emitTris b.tris

/-! ### step 2: `process_edges_above` -/

def splitEdge (ei : Nat) : SM α Unit := do
  let s ← get
  if h : ei < s.active.size then
    let ae := s.active[ei]
    let to := ae.to
    let src := s.q.ed ae.srcEdge
    let t := Sources.splitTAtVertex ae.from_ to s.curPos
    let src' : EdgeData α := { src with t0 := Sources.remapT t src.t0 ae.rangeEnd }
    let r := s.q.pushUnlinked s.curPos src'
    let pe : PendingEdge α := ⟨to, slope (to - s.curPos), r.2, ae.winding, ae.rangeEnd⟩
    set { s with q := r.1, below := s.below.push pe, cov := s.cov ||| (1 <<< 5),
                 active := s.active.setIfInBounds ei { ae with to := s.curPos } }
  else throw (.panic "edge index out of range")

def processEdgesAbove (scan : Scan) : SM α Scan := do
  for ve in scan.vertexEvents do
    let s ← get
    spanVertex ve.1 s.curPos s.curVertex ve.2
  for si in scan.spansToEnd do
    let s ← get
    endSpan si s.curPos s.curVertex
  -- cleanup_spans
  modify fun s => { s with spans := s.spans.filter (·.isSome) }
  for ei in scan.edgesToSplit do
    splitEdge ei
  if scan.mergeEvent then
    let s ← get
    if h : scan.aboveStart < s.active.size then
      let e := s.active[scan.aboveStart]
      let e' : ActiveEdge α := { e with isMerge := true, from_ := e.to, winding := 0, fromId := s.curVertex }
      set { s with active := s.active.setIfInBounds scan.aboveStart e' }
      return { scan with aboveStart := scan.aboveStart + 1 }
    else throw (.panic "edge index out of range")
  return scan

/-! ### step 3: `process_edges_below` -/

/-- `insert_tail` of Rust's `insertion_sort_shift_left`: `tmp = v[j+1]` is moved left while
`is_less(tmp, v[j])` -/
def siftLeft {γ : Type} (less : γ → γ → Bool) (tmp : γ) : Nat → Array γ → Array γ
  | 0, a => a.setIfInBounds 0 tmp
  | j+1, a =>
    if less tmp (a.getD j tmp) then siftLeft less tmp j (a.setIfInBounds (j+1) (a.getD j tmp))
    else a.setIfInBounds (j+1) tmp

/-- Rust's slice sort for `len ≤ 20` (both `sort_by` and `sort_unstable_by`): insertion sort -/
def insertionSort {γ : Type} (less : γ → γ → Bool) (a : Array γ) : Array γ :=
  (List.range a.size).foldl (fun a i =>
    match a[i]? with
    | some tmp => if i == 0 then a else siftLeft less tmp i a
    | none => a) a

/-! Slices longer than 20 elements: Rust switches to driftsort (`sort_by`) / ipnsort
(`sort_unstable_by`), which are not modelled.  Their CONTRACT is: for a comparator that is a total
order on the elements the result is sorted, and `sort_by` is stable.  So the model runs the
insertion sort and checks, on its output `b`, that the comparator is a total preorder on these very
elements (`consistentOn`: `less b[i] b[j]` holds exactly when the rank of `i` is below the rank of
`j`, ranks = the runs of mutually incomparable neighbours).  Then the stable sorted arrangement is
unique and equals `b` whatever the algorithm; for the unstable sort the elements must in addition
be pairwise strictly ordered (`strictChain`: no ties).  Otherwise the outcome is
`unmodelled sort-gt20-inconsistent`. -/

/-- rank of every position of a sorted array: neighbours that are not `less` share a rank -/
def sortRanks {γ : Type} (less : γ → γ → Bool) (b : Array γ) : Array Nat :=
  (List.range b.size).foldl (fun (r : Array Nat) i =>
    match i, b[i - 1]?, b[i]? with
    | 0, _, _ => r.push 0
    | _, some x, some y => r.push (r.getD (i - 1) 0 + (if less x y then 1 else 0))
    | _, _, _ => r.push 0) #[]

/-- `less` restricted to the elements of `b` is the strict weak order "smaller rank" -/
def consistentOn {γ : Type} (less : γ → γ → Bool) (b : Array γ) : Bool :=
  let r := sortRanks less b
  (List.range b.size).all fun j => (List.range j).all fun i =>
    match b[i]?, b[j]? with
    | some x, some y => (less x y == decide (r.getD i 0 < r.getD j 0)) && !less y x
    | _, _ => false

/-- every earlier element is strictly `less` than every later one, never the other way round -/
def strictChain {γ : Type} (less : γ → γ → Bool) (b : Array γ) : Bool :=
  (List.range b.size).all fun j => (List.range j).all fun i =>
    match b[i]?, b[j]? with
    | some x, some y => less x y && !less y x
    | _, _ => false

/-- `sort_edges_below` -/
def sortEdgesBelow : SM α Unit := do
  let s ← get
  let less := fun (a b : PendingEdge α) => decide (a.sortKey < b.sortKey)
  let sorted := insertionSort less s.below
  if s.below.size > 20 && !strictChain less sorted then throw (.unmodelled "sort-gt20-inconsistent")
  set { s with below := sorted }

/-- `merge_coincident_edges(a_idx, b_idx)` -/
def mergeCoincidentEdges (aIdx bIdx : Nat) : SM α Unit := do
  let s ← get
  match s.below[aIdx]?, s.below[bIdx]? with
  | some a, some b =>
    let c := comparePositions a.to b.to
    let lowerIdx := match c with | .gt => aIdx | .lt => bIdx | .eq => aIdx
    let upperIdx := match c with | .gt => bIdx | .lt => aIdx | .eq => bIdx
    let split := match c with | .eq => false | _ => true
    let lower := if lowerIdx == aIdx then a else b
    let upper := if upperIdx == aIdx then a else b
    let below := s.below.setIfInBounds upperIdx { upper with winding := upper.winding + lower.winding }
    let splitPoint := upper.to
    let below := below.eraseIdxIfInBounds lowerIdx
    let edge := lower
    if !split then
      set { s with below := below, cov := s.cov ||| (1 <<< 6) }
    else
      let src := s.q.ed edge.srcEdge
      let t := Sources.splitT s.curPos edge.to splitPoint
      let tRemapped := Sources.remapT t src.t0 edge.rangeEnd
      let d : EdgeData α := ⟨edge.to, tRemapped, edge.rangeEnd, edge.winding, true, src.fromId, src.toId⟩
      set { s with below := below, q := (s.q.insertSorted splitPoint d s.curEvent).1, cov := s.cov ||| (1 <<< 7) }
  | _, _ => throw (.panic "edge below index out of range")

/-- `handle_coincident_edges_below` -/
def handleCoincidentEdgesBelow : SM α Unit := do
  let s0 ← get
  let n := s0.below.size
  if n < 2 then return
  for k in [0:n-1] do
    let idx := n - 2 - k
    let s ← get
    match s.below[idx]?, s.below[idx+1]? with
    | some a, some b =>
      let aS := a.sortKey
      let bS := b.sortKey
      let close : Bool :=
        if abs aS ≤ (one : α) then decide (abs (aS - bS) < ofSci 5 5)
        else decide (abs (one / aS - one / bS) < ofSci 5 5)
      -- lyon 748da73e: only merge when the end of the shorter edge is within the tolerance of the longer one
      let gt := match comparePositions a.to b.to with | .gt => true | _ => false
      let shortTo := if gt then b.to else a.to
      let longTo := if gt then a.to else b.to
      let v := longTo - s.curPos
      let endsClose : Bool :=
        decide (abs (v.cross (shortTo - s.curPos)) ≤ s.tolerance * Wide.sqrt (v.x * v.x + v.y * v.y))
      -- lyon fix "split parameters stay inside the edge": the shorter edge must not reach beyond the
      -- longer one along the larger extent of the longer one
      let sv := shortTo - s.curPos
      let endsWithin : Bool :=
        decide (abs v.x ≤ abs v.y) || (decide (sv.x * v.x ≥ zero) && decide (abs sv.x ≤ abs v.x))
      if close && endsClose && endsWithin then mergeCoincidentEdges idx (idx+1)
    | _, _ => throw (.panic "edge below index out of range")

/-- `split_event(left_enclosing_edge_idx, left_span_idx)` -/
def splitEvent (leftEdge : Nat) (leftSpan : Int) : SM α Unit := do
  let s ← get
  match s.active[leftEdge]?, s.active[leftEdge+1]? with
  | some l, some r =>
    let rightSpan := leftSpan + 1
    if isAfter l.from_ r.from_ then
      beginSpan leftSpan l.from_ l.fromId
    else
      beginSpan rightSpan r.from_ r.fromId
    spanVertex leftSpan s.curPos s.curVertex false
    spanVertex rightSpan s.curPos s.curVertex true
  | _, _ => throw (.panic "edge index out of range")

def processEdgesBelow (scan : Scan) : SM α Unit := do
  sortEdgesBelow
  handleCoincidentEdgesBelow
  if scan.splitEvent then
    if scan.aboveStart == 0 then throw (.panic "subtract with overflow")
    splitEvent (scan.aboveStart - 1) scan.windingBefore.spanIndex
  let s ← get
  let mut w := scan.windingBefore
  let mut first := true
  for pe in s.below do
    if !first && w.isIn then
      let s' ← get
      beginSpan w.spanIndex s'.curPos s'.curVertex
    w := w.update s.rule pe.winding
    first := false

/-! ### step 4: `update_active_edges`, intersections -/

/-- `process_intersection(ta, tb, active_edge_idx, edge_below, below_segment)`; returns the
updated `edge_below` -/
def processIntersection (ta tb : Wide.W α) (aei : Nat) (eb0 : PendingEdge α) (belowSeg : Seg (Wide.W α)) :
    SM α (PendingEdge α) := do
  let s ← get
  match s.active[aei]? with
  | none => throw (.panic "edge index out of range")
  | some ae0 =>
    let cur := s.curPos
    let ip0 : P α := narrowP (belowSeg.sample tb)
    if cur == ip0 then
      let src := s.q.ed ae0.srcEdge
      let r := Sources.remapT (Wide.narrow ta) src.t0 ae0.rangeEnd
      set { s with
        cov := s.cov ||| (1 <<< 9),
        active := s.active.setIfInBounds aei { ae0 with from_ := ip0 },
        q := { s.q with edgeData := s.q.edgeData.modify ae0.srcEdge (fun d => { d with t0 := r }) } }
      return eb0
    let ip1 : P α := if !isAfter ip0 cur then ⟨ip0.x, Wide.nextUp cur.y⟩ else ip0
    if !isAfter ip1 cur then throw (.panic "assert is_after(intersection_position, current_position)")
    let ip : P α := if isNear ip1 eb0.to then eb0.to else if isNear ip1 ae0.to then ae0.to else ip1
    let aSrc := s.q.ed ae0.srcEdge
    let bSrc := s.q.ed eb0.srcEdge
    let mut q := s.q
    let mut cov := s.cov ||| (1 <<< 8)
    if !isAfter ip0 cur then cov := cov ||| (1 <<< 10)
    if isNear ip1 eb0.to then cov := cov ||| (1 <<< 11)
    else if isNear ip1 ae0.to then cov := cov ||| (1 <<< 12)
    let mut inserted : Option Nat := none
    let mut flippedActive := false
    let mut ae := ae0
    if ae.to != ip && ae.from_ != ip then
      let rta := Sources.remapT (Wide.narrow ta) aSrc.t0 ae.rangeEnd
      if isAfter ae.to ip then
        let r := q.insertSorted ip ⟨ae.to, rta, ae.rangeEnd, ae.winding, true, aSrc.fromId, aSrc.toId⟩ s.curEvent
        q := r.1
        inserted := some r.2
      else
        flippedActive := true
        cov := cov ||| (1 <<< 13)
        q := (q.insertSorted ae.to ⟨ip, ae.rangeEnd, rta, -ae.winding, true, aSrc.fromId, aSrc.toId⟩ s.curEvent).1
      ae := { ae with to := ip, rangeEnd := rta }
    else cov := cov ||| (1 <<< 25)
    let mut eb := eb0
    if eb.to != ip && cur != ip then
      let rtb := Sources.remapT (Wide.narrow tb) bSrc.t0 eb.rangeEnd
      if isAfter eb.to ip then
        let d : EdgeData α := ⟨eb.to, rtb, eb.rangeEnd, eb.winding, true, bSrc.fromId, bSrc.toId⟩
        match inserted with
        | some idx =>
          q := q.insertSibling idx ip d
          cov := cov ||| (1 <<< 16)
        | none => q := (q.insertSorted ip d s.curEvent).1
      else
        q := (q.insertSorted eb.to ⟨ip, eb.rangeEnd, rtb, -eb.winding, true, bSrc.fromId, bSrc.toId⟩ s.curEvent).1
        cov := cov ||| (1 <<< 14)
        if flippedActive then
          q := q.vertexEventOnEdgeSorted ip rtb bSrc.fromId bSrc.toId s.curEvent
          cov := cov ||| (1 <<< 15)
      eb := { eb with to := ip, rangeEnd := rtb }
    else cov := cov ||| (1 <<< 26)
    set { s with q := q, active := s.active.setIfInBounds aei ae, cov := cov }
    return eb

/-- `handle_intersections(skip_range)` -/
def handleIntersectionsStep (skipS skipE : Nat) : SM α Unit := do
  let s0 ← get
  let n := s0.below.size
  for bi in [0:n] do
    let s ← get
    match s.below[bi]? with
    | none => pure ()
    | some eb =>
      let cur := s.curPos
      let bminX := Scalar.min cur.x eb.to.x
      let bmaxX := fmax cur.x eb.to.x
      let bseg : Seg (Wide.W α) := ⟨widenP cur, widenP eb.to⟩
      let mut tbMin : Wide.W α := one
      let mut ix : Option (Wide.W α × Wide.W α × Nat) := none
      let mut i : Nat := 0
      for ae in s.active do
        let idx := i
        i := i + 1
        if skipS ≤ idx ∧ idx < skipE then continue
        if ae.isMerge || decide (bminX > ae.maxX) then continue
        if bmaxX < ae.minX then continue
        let aseg : Seg (Wide.W α) := ⟨widenP ae.from_, widenP ae.to⟩
        match Seg.intersectionT aseg bseg with
        | some t =>
          if t.2 < tbMin ∧ t.2 > zero ∧ t.1 > zero ∧ t.1 ≤ one then
            tbMin := t.2
            ix := some (t.1, t.2, idx)
        | none => pure ()
      match ix with
      | some r =>
        let eb' ← processIntersection r.1 r.2.1 r.2.2 eb bseg
        modify fun s => { s with below := s.below.setIfInBounds bi eb' }
      | none => pure ()

/-- `update_active_edges` -/
def updateActiveEdges (scan : Scan) : SM α Unit := do
  if (← get).handleIntersections then
    handleIntersectionsStep scan.aboveStart scan.aboveEnd
  let s ← get
  if scan.aboveStart > scan.aboveEnd ∨ scan.aboveEnd > s.active.size then
    throw (.panic "splice range")
  let new : Array (ActiveEdge α) := s.below.map fun e =>
    ⟨s.curPos, e.to, e.winding, false, s.curVertex, e.srcEdge, e.rangeEnd⟩
  set { s with
    active := s.active.extract 0 scan.aboveStart ++ new ++ s.active.extract scan.aboveEnd s.active.size,
    below := #[] }

/-! ### error recovery -/

/-- `partial_cmp(..).unwrap()` panics exactly when a key is NaN; with `≥ 2` keys the insertion
sort compares every key at least once -/
def anyNaNKey (keys : Array (α × Nat)) : Bool := keys.any (fun k => Wide.isNaN k.1)

/-- the comparison closure of `keys.sort_by` as `is_less` -/
def keyLess (edges : Array (ActiveEdge α)) (a b : α × Nat) : Bool :=
  if a.1 < b.1 then true
  else if b.1 < a.1 then false
  else
    match edges[a.2]?, edges[b.2]? with
    | some ea, some eb =>
      match ea.isMerge, eb.isMerge with
      | false, false =>
        -- `slope_b.partial_cmp(&slope_a)` is `Less`
        decide (slope (eb.to - eb.from_) < slope (ea.to - ea.from_))
      | true, false => false
      | false, true => true
      | true, true => false
    | _, _ => false

/-- the `needs_swap` fix-up loop of `sort_active_edges` for one merge vertex at index `i` -/
def swapBack (rule : Slab.Rule) : Nat → Array (ActiveEdge α) → (idx : Nat) → (w : Int) →
    Except Fail (Array (ActiveEdge α))
  | 0, _, _, _ => .error .fuel
  | f+1, a, idx, w =>
    -- lyon 747d7f78: no prefix of the re-sorted list is inside the shape: the merge vertex cannot be
    -- placed; `sort_active_edges` returns `Err(MergeVertexOutside)`, `recover_from_error` and
    -- `tessellator_loop` propagate it with `?` (before the fix: `idx - 1` underflowed)
    if idx == 0 then .error (.err "Internal(MergeVertexOutside)")
    else
      match a[idx]?, a[idx-1]? with
      | some x, some y =>
        let w' := w - y.winding
        let a' := (a.setIfInBounds idx y).setIfInBounds (idx-1) x
        if rule.isIn w' then .ok a' else swapBack rule f a' (idx - 1) w'
      | _, _ => .error (.panic "edge index out of range")

/-- `sort_active_edges` -/
def sortActiveEdges : SM α Unit := do
  let s ← get
  let y := s.curPos.y
  let mut keys : Array (α × Nat) := #[]
  let mut hasMerge := false
  let mut prevX : α := zero / zero
  let mut i : Nat := 0
  for e in s.active do
    if e.isMerge then
      hasMerge := true
      keys := keys.push (prevX, i)
    else
      let eqTo := e.to.y == y
      let eqFrom := e.from_.y == y
      let x : α :=
        if eqTo && eqFrom then
          (if e.maxX ≥ s.curPos.x ∧ e.minX ≤ s.curPos.x then s.curPos.x else e.minX)
        else if eqFrom then e.from_.x
        else if eqTo then e.to.x
        else e.solveXForY y
      keys := keys.push (fmax x e.minX, i)
      prevX := x
    i := i + 1
  if keys.size ≥ 2 && anyNaNKey keys then throw (.panic "partial_cmp unwrap on NaN")
  let sorted := insertionSort (keyLess s.active) keys
  if keys.size > 20 && !consistentOn (keyLess s.active) sorted then throw (.unmodelled "sort-gt20-inconsistent")
  let mut edges : Array (ActiveEdge α) := #[]
  for k in sorted do
    match s.active[k.2]? with
    | some e => edges := edges.push e
    | none => pure ()
  if hasMerge then
    let mut wn : Int := 0
    for j in [0:edges.size] do
      match edges[j]? with
      | none => pure ()
      | some e =>
        if e.isMerge then
          if !s.rule.isIn wn then
            match swapBack s.rule (edges.size + 2) edges j wn with
            | .ok a =>
              edges := a
              mark 19
            | .error f => throw f
        else
          wn := wn + e.winding
  -- (`modify`, not `set { s with .. }`: the coverage bit 19 marked above must survive)
  modify fun s' => { s' with active := edges }

/-- `recover_from_error` -/
def recoverFromError : SM α Unit := do
  mark 0
  sortActiveEdges
  let s ← get
  let len := s.active.size
  if len > 1 && (s.active[len-1]?.map (·.isMerge)).getD false then mark 24
  let active :=
    match s.active[len-1]?, s.active[len-2]? with
    | some l, some p => if len > 1 && l.isMerge then (s.active.setIfInBounds (len-1) p).setIfInBounds (len-2) l else s.active
    | _, _ => s.active
  -- (`modify`, not `set { s with .. }`: the coverage bit 24 marked above must survive)
  modify fun s' => { s' with active := active }
  let mut w := WindingState.new
  for e in active do
    if e.isMerge then
      w := { w with spanIndex := w.spanIndex + 1 }
    else
      w := w.update s.rule e.winding
    if w.spanIndex ≥ ((← get).spans.size : Int) then
      mark 20
      beginSpan w.spanIndex e.from_ e.fromId
  -- `while spans.len() > (span_index + 1) as usize { flush last; pop }`
  let target := w.spanIndex + 1
  let s ← get
  let keep := target.toNat
  if s.spans.size > keep then
    for _ in [0:s.spans.size - keep] do
      let s' ← get
      let last := s'.spans.size - 1
      match s'.spans.getD last none with
      | none => throw (.panic "dead span")
      | some t =>
        set { s' with spans := s'.spans.pop, cov := s'.cov ||| (1 <<< 21) }
        emitTris t.tess.tris

/-! ### the loop -/

/-- `initialize_events` -/
def initializeEvents : SM α Unit := do
  let s ← get
  let cur := s.q.position s.curEvent
  if Wide.isNaN cur.x || Wide.isNaN cur.y then
    set { s with curPos := cur }
    throw (.err "UnsupportedParamater(PositionIsNaN)")
  let outPos := if s.horizontal then reorientOut cur else cur
  let sibs := s.q.siblings s.q.fuel s.curEvent
  if sibs.length ≥ s.q.fuel then throw .fuel
  let recs := sibs.map fun i => (s.q.position i, s.q.ed i)
  let below := sibs.foldl (fun (b : Array (PendingEdge α)) i =>
    let e := s.q.ed i
    if e.isEdge then b.push ⟨e.to, slope (e.to - cur), i, e.winding, e.t1⟩ else b) s.below
  set { s with curPos := cur, curVertex := s.nverts, nverts := s.nverts + 1,
               out := s.out.push (.vertex outPos recs), below := below }

/-- `process_events`: `some e` = `Err(e)` from the scan (nothing was modified) -/
def processEvents : SM α (Option IErr) := do
  let s ← get
  match scanActiveEdges s with
  | .error e => return some e
  | .ok scan =>
    if scan.mergeEvent then mark 2
    if scan.splitEvent then mark 3
    if scan.mergeSplitEvent then mark 4
    if s.active.any (·.isMerge) then
      if (s.active.extract 0 scan.aboveStart).any (·.isMerge) then mark 17
      if (s.active.extract scan.aboveStart scan.aboveEnd).any (·.isMerge) then mark 18
    let scan ← processEdgesAbove scan
    processEdgesBelow scan
    updateActiveEdges scan
    return none

/-- `tessellator_loop` -/
def tessellatorLoop : Nat → SM α Unit
  | 0 => throw .fuel
  | f+1 => do
    let s ← get
    if s.curEvent == INVALID then return
    initializeEvents
    match ← processEvents with
    | none => pure ()
    | some _ =>
      recoverFromError
      match ← processEvents with
      | none => pure ()
      | some e =>
        mark 1
        throw (.err s!"Internal({e.toString})")
    let s ← get
    if s.q.fuelOut then throw .fuel
    set { s with curEvent := s.q.nextId s.curEvent }
    tessellatorLoop f

/-- `tessellate_impl` after the queue is built: the tolerance check, `reset`, the loop, the flush
of spans left over -/
def tessellateImpl (q : Queue α) (rule : Slab.Rule) (horizontal : Bool) (tol : α) (handleIx : Bool) :
    Option Fail × Array (Emit α) × Nat :=
  if Wide.isNaN tol || tol ≤ zero then (some (.err "UnsupportedParamater(ToleranceIsNaN)"), #[], 0)
  else
    let s0 : St α := {
      q := q, curPos := ⟨Wide.fmin, Wide.fmin⟩, curVertex := INVALID, curEvent := q.firstId,
      active := #[], below := #[], spans := #[], pool := [], rule := rule, horizontal := horizontal,
      tolerance := tol * half, handleIntersections := handleIx, out := #[], nverts := 0 }
    let r := (tessellatorLoop (4 * q.events.size * q.events.size + 1000)).run.run s0
    match r.1 with
    | .error f => (some f, r.2.out, r.2.cov)
    | .ok _ =>
      let out := r.2.spans.foldl (fun o sp =>
        match sp with
        | some t => t.tess.tris.foldl (fun o t => o.push (.tri t.1 t.2.1 t.2.2)) o
        | none => o) r.2.out
      (none, out, if out.size == r.2.out.size then r.2.cov else r.2.cov ||| (1 <<< 22))

/-! ### the event stream of the five entry points (polygonal input) -/

/-- a sub-path: points + `closed` flag -/
abbrev SubPath (α : Type) := List (P α) × Bool

/-- endpoint ids per entry point: `events`/`path`/`polygon` carry `u32::MAX`; `ids`
(`Path::id_iter`) the index into the path's point array (a closed sub-path stores its first
point once more, so the next sub-path starts one further); `builder` (`FillBuilder`, via
`SimpleAttributeStore::add`) counts the endpoints. -/
inductive Entry where
  | events | path | ids | polygon | builder
deriving BEq

def feedSub (horizontal : Bool) (useIds : Bool) (b : Sources.Builder α) (base : Nat) (pts : List (P α)) :
    Sources.Builder α :=
  match pts with
  | [] => b
  | p0 :: rest =>
    let xf (p : P α) : P α := if horizontal then reorientIn p else p
    let id (k : Nat) : Nat := if useIds then base + k else INVALID
    let b1 := b.begin (xf p0) (id 0)
    let b2 := (rest.zipIdx).foldl (fun b (pk : P α × Nat) => b.lineSegment (xf pk.1) (id (pk.2 + 1)) zero one) b1
    b2.endSub (xf p0) (id 0)

/-- the unsorted event queue the entry point builds (`set_path` / `set_path_with_ids` /
`FillBuilder::{begin, line_to, end}`) -/
def buildQueue (entry : Entry) (horizontal : Bool) (subs : List (SubPath α)) : Queue α :=
  let useIds := entry == .ids || entry == .builder
  let step (acc : Sources.Builder α × Nat) (sp : SubPath α) : Sources.Builder α × Nat :=
    match sp.1 with
    | [] => acc
    | pts =>
      let b := feedSub horizontal useIds acc.1 acc.2 pts
      let next := acc.2 + pts.length + (if entry == .ids && sp.2 then 1 else 0)
      (b, next)
  let r := subs.foldl step (Sources.Builder.init, 0)
  Queue.ofRecs r.1.recs.reverse

/-- the whole `FillTessellator` on polygonal input -/
def tessellate (entry : Entry) (rule : Slab.Rule) (horizontal : Bool) (tol : α) (handleIx : Bool)
    (subs : List (SubPath α)) : Option Fail × Array (Emit α) × Nat :=
  let q0 := buildQueue entry horizontal subs
  let q := q0.sort
  -- the linked lists built by `sort` must enumerate the list-level specification `Spec.sort`
  -- (for which `merge_sort_sorted_perm` is proved)
  if q.groups != Spec.sort q0.position q0.events.size then (some (.unmodelled "sort-spec-mismatch"), #[], 0)
  else tessellateImpl q rule horizontal tol handleIx

end Lyon.Sweep
