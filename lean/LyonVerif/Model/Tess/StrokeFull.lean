/-
  The stroke tessellator as a whole (`crates/tessellation/src/stroke.rs`, `StrokeBuilderImpl`),
  extending the component models of `StrokeParts.lean` (C05) and `StrokeQuad.lean` (C06) to a
  model of the COMPLETE output of the public entry points: every `add_stroke_vertex` call with all
  accessors, every `add_triangle` call, in emission order.

  Modelled here, expression by expression (operand order included, the tie is bit-level):
    EndpointData / SidePoints (defaults included: NaN side points, `VertexId(u32::MAX)`, NaN
      advancement = "not yet computed")
    StrokeBuilderImpl::{begin_fw, line_to_fw, fixed_width_step_impl, begin, line_to, step_impl,
      end, close, end_with_caps, tessellate_empty_cap, tessellate_fw (endpoint id counter),
      quadratic_bezier_to(_fw), cubic_bezier_to(_fw)}
    compute_join_side_positions_fixed_width (all branches), get_clip_intersections (through
      `StrokeQuad.clipIntersections`, the f64 round trip is the parameter `ix`),
    compute_edge_attachment_positions, compute_side_attachment_positions (asin / NaN guard),
    compute_join_side_positions (variable width), flattened_step, flatten_quad, find_sharp_turn,
    tessellate_last_edge, tessellate_first_edge (butt / square clipping, round caps),
    and, from StrokeParts: add_join_base_vertices, add_edge_triangles, tessellate_join,
    tessellate_round_join, tessellate_arc, tessellate_round_cap, tessellate_empty_*_cap,
    StrokeVertex accessors (`VData.read`), interpolated_attributes.

  `self.vertex` (StrokeVertexData) is passed down by value as in StrokeParts: every emission site
  of stroke.rs assigns all six fields before `add_stroke_vertex` (src, position_on_path,
  half_width, advancement at the head of the step / edge function, side and normal at the call), so
  no field is ever inherited from an earlier site.  A change of stroke.rs that drops one of these
  assignments makes the real code emit a stale value and breaks the tie.

  Error latching (`self.error`) is not modelled: the recording builder of the tie never fails.

  Mathlib-free: linked into the native model driver.
-/
import LyonVerif.Model.Tess.StrokeQuad
import LyonVerif.Model.Geom.Flatten
import LyonVerif.Model.Geom.Extrema

namespace Lyon.Stroke.Full
open Lyon Scalar Lyon.Stroke
open Lyon.StrokeQuad (Ix clipIntersections)

abbrev LineJoin := Lyon.StrokeQuad.Join
abbrev LineCap := Lyon.StrokeQuad.Cap

variable {α : Type} [Scalar α]

/-! ## EndpointData -/

/-- `f32::NAN` (what `..Default::default()` leaves in `advancement` and the side points) -/
def nan : α := zero / zero
def nanP : P α := ⟨nan, nan⟩
/-- `VertexId(u32::MAX)` -/
def unset : Nat := 4294967295

def sideDefault : SideGeom α := ⟨nanP, nanP, none, unset, unset⟩

/-- `EndpointData` -/
structure EP (α : Type) where
  position : P α
  halfWidth : α
  advancement : α
  lineJoin : LineJoin
  src : Src α
  pos : SideGeom α
  neg : SideGeom α
  foldPos : Bool
  foldNeg : Bool
  isFlat : Bool

/-- `EndpointData { position, half_width, advancement, line_join, src, is_flattening_step,
..Default::default() }` -/
def EP.mk' (position : P α) (hw adv : α) (lj : LineJoin) (src : Src α) (flat : Bool) : EP α :=
  ⟨position, hw, adv, lj, src, sideDefault, sideDefault, false, false, flat⟩

def EP.default : EP α :=
  EP.mk' ⟨zero, zero⟩ nan nan .miter (.endpoint unset) false

def EP.ids (e : EP α) : JoinIds :=
  ⟨e.pos.prevVertex, e.pos.nextVertex, e.neg.prevVertex, e.neg.nextVertex, e.foldPos, e.foldNeg⟩

/-- the view of an endpoint the join functions of StrokeParts read -/
def EP.toJoin (e : EP α) : Join α :=
  ⟨e.position, e.halfWidth, e.lineJoin == .round, e.pos, e.neg, e.foldPos, e.foldNeg⟩

/-- write the sides a StrokeParts join function updated back -/
def EP.withSides (e : EP α) (j : Join α) : EP α := { e with pos := j.pos, neg := j.neg }

/-- the four fields of `self.vertex` assigned at the head of a step / edge function; `normal` and
`side` are assigned at every `add_stroke_vertex` site -/
def baseVertex (src : Src α) (pop : P α) (hw adv : α) : VData α :=
  ⟨pop, hw, ⟨zero, zero⟩, adv, .negative, src⟩

/-! ## StrokeOptions -/

structure Opts (α : Type) where
  tolerance : α
  lineWidth : α
  miterLimit : α
  join : LineJoin
  startCap : LineCap
  endCap : LineCap
  /-- `variable_line_width.is_some()` -/
  varWidth : Bool
  /-- the attribute index of `variable_line_width` (read only when `varWidth`) -/
  varIdx : Nat := 0

section
variable [Transc α]

/-- euclid `Vector2D::length` -/
def len (v : P α) : α := Transc.sqrt v.sqLen

/-! ## fixed_width_step_impl, `count == 1`: side points of the first point, advancement of the second -/

def firstEdgeSetup (first next : EP α) : EP α × EP α :=
  let edge := next.position - first.position
  let length := len edge
  let adv := if Transc.isNaN next.advancement then first.advancement + length else next.advancement
  let tangent := edge.sdiv length
  let n := (perp tangent).smul next.halfWidth
  ({ first with pos := { first.pos with next := first.position + n },
                neg := { first.neg with next := first.position - n } },
   { next with advancement := adv })

/-! ## compute_join_side_positions_fixed_width -/

/-- the front side when the join does not fold: kept miter → single vertex; clipped `MiterClip` →
the two points move to the clip line; else unchanged -/
def frontFix (ix : Ix α) (lj : LineJoin) (unclipped : Bool) (s : SideGeom α) (j frontNormal miter : P α)
    (clipDistance : α) : SideGeom α :=
  if unclipped then { s with single := some miter }
  else if lj == .miterClip then
    let c := clipIntersections ix (s.prev - j) (s.next - j) frontNormal clipDistance
    { s with prev := j + c.1, next := j + c.2 }
  else s

/-- the numbers `compute_join_side_positions_fixed_width` derives from the three positions -/
structure FwGeo (α : Type) where
  pt : P α
  nt : P α
  pl : α
  nl : α
  normal : P α
  frontNeg : Bool
  frontNormal : P α
  unclipped : Bool
  fold : Bool

def fwGeo (prev join next : EP α) (ml vhw : α) : FwGeo α :=
  let pt0 := join.position - prev.position
  let nt0 := next.position - join.position
  let pl := len pt0
  let nl := len nt0
  let pt := pt0.sdiv pl
  let nt := nt0.sdiv nl
  let normal := computeNormal pt nt
  let frontNeg : Bool := decide (pt.cross nt ≥ zero)
  let frontNormal : P α := if frontNeg then -normal else normal
  let extruded := frontNormal.smul vhw
  let unclipped := (join.lineJoin == .miter || join.lineJoin == .miterClip) && !miterLimitIsExceeded frontNormal ml
  let sharp : Bool := decide (nt.dot pt < zero)
  let dNext := extruded.dot (-nt) - nl
  let dPrev := extruded.dot pt - pl
  let fold := !unclipped && sharp &&
    (decide (Scalar.min dNext dPrev > zero) || decide (normal.sqLen < ofSci 1 5))
  ⟨pt, nt, pl, nl, normal, frontNeg, frontNormal, unclipped, fold⟩

/-- `compute_join_side_positions_fixed_width(prev, join, next, miter_limit, vertex)`; `vhw` is
`vertex.half_width`.  Returns the updated join (its advancement is what `vertex.advancement`
is set to). -/
def joinSidesFw (ix : Ix α) (prev join next : EP α) (ml vhw : α) : EP α :=
  let g := fwGeo prev join next ml vhw
  let adv := if Transc.isNaN join.advancement then prev.advancement + g.pl else join.advancement
  let j := join.position
  let n0 := (perp g.pt).smul vhw
  let n1 := (perp g.nt).smul vhw
  let pos1 : SideGeom α := { join.pos with prev := j + n0, next := j + n1 }
  let neg1 : SideGeom α := { join.neg with prev := j - n0, next := j - n1 }
  let miterP := j + g.normal.smul vhw
  let miterN := j - g.normal.smul vhw
  let clipD := ml * vhw
  if g.fold then
    { join with advancement := adv, pos := pos1, neg := neg1,
                foldPos := join.foldPos || !g.frontNeg, foldNeg := join.foldNeg || g.frontNeg }
  else if g.frontNeg then
    { join with advancement := adv,
                pos := { pos1 with single := some miterP },
                neg := frontFix ix join.lineJoin g.unclipped neg1 j g.frontNormal miterN clipD }
  else
    { join with advancement := adv,
                pos := frontFix ix join.lineJoin g.unclipped pos1 j g.frontNormal miterP clipD,
                neg := { neg1 with single := some miterN } }

/-! ## the join part shared by both step functions: base vertices, edge triangles, join -/

/-- `add_join_base_vertices(…, Side::Negative)`, `add_join_base_vertices(…, Side::Positive)` -/
def baseVertices (join : EP α) (d : VData α) (o : Out α) : EP α × Out α :=
  let r := addJoinBaseVertices join.toJoin d o
  (join.withSides r.1, r.2)

/-- `if count > 2 { add_edge_triangles(prev, join) }  tessellate_join(join, …)` -/
def edgeAndJoin (tolerance : α) (count : Nat) (prev join : EP α) (d : VData α) (o : Out α) : Out α :=
  let o1 := if count > 2 then o.addTris (addEdgeTriangles prev.ids join.ids) else o
  tessellateJoin join.toJoin tolerance d o1

/-! ## flattened_step -/

structure FlatStep (α : Type) where
  join : EP α
  next : EP α
  skip : Bool
  out : Out α

/-- `flattened_step(prev, join, next, vertex, …)`; `d` carries src / position_on_path / half_width -/
def flattenedStep (prev join next : EP α) (d : VData α) (o : Out α) : FlatStep α :=
  let prevEdge := join.position - prev.position
  let prevLength := len prevEdge
  let prevTangent := prevEdge.sdiv prevLength
  let nextEdge := next.position - join.position
  let nextLength := len nextEdge
  let nextTangent := nextEdge.sdiv nextLength
  let normal := computeNormal prevTangent nextTangent
  let jAdv := if Transc.isNaN join.advancement then prev.advancement + prevLength else join.advancement
  let nAdv := if Transc.isNaN next.advancement then jAdv + nextLength else next.advancement
  let p0 := join.position + normal.smul d.halfWidth
  let p1 := join.position - normal.smul d.halfWidth
  let v0 := p0 - prev.pos.next
  let v1 := p1 - prev.neg.next
  let next' := { next with advancement := nAdv }
  let pos1 : SideGeom α := { join.pos with prev := p0, next := p0, single := some p0 }
  let neg1 : SideGeom α := { join.neg with prev := p1, next := p1, single := some p1 }
  if prevEdge.dot v0 < zero ∧ prevEdge.dot v1 < zero then
    ⟨{ join with advancement := jAdv, pos := pos1, neg := neg1 }, next', true, o⟩
  else
    let dd : VData α := { d with advancement := jAdv }
    let pv := o.nextId
    let o1 := o.addVertex { dd with normal := normal, side := .positive }
    let nv := o1.nextId
    let o2 := o1.addVertex { dd with normal := -normal, side := .negative }
    ⟨{ join with advancement := jAdv,
                 pos := { pos1 with prevVertex := pv, nextVertex := pv },
                 neg := { neg1 with prevVertex := nv, nextVertex := nv } }, next', false, o2⟩

/-! ## the builder state -/

structure St (α : Type) where
  buf : PointBuffer (EP α)
  firsts : List (EP α)
  subPathStartAdvancement : α
  mayNeedEmptyCap : Bool
  out : Out α

def St.new : St α := ⟨PointBuffer.new EP.default, [], zero, false, Out.empty 0⟩

def St.tooClose (thr : α) (st : St α) (p : P α) : Bool :=
  match st.buf.last with
  | some l => pointsAreTooClose thr l.position p
  | none => false

def St.setLast (st : St α) (e : EP α) : St α := { st with buf := (st.buf.replaceLast e).getD st.buf }
def St.push (st : St α) (e : EP α) : St α := { st with buf := (st.buf.push e).getD st.buf }

/-- is the join of `prev, join, next` on the fast path of a flattened curve? -/
def fastPath (prev join next : EP α) : Bool :=
  join.isFlat && decide ((join.position - prev.position).dot (next.position - join.position) > zero)

/-- the environment of one tessellation: options, merge threshold, f64 line intersection -/
structure Env (α : Type) where
  o : Opts α
  thr : α
  ix : Ix α

/-- the `count > 1` part of `fixed_width_step_impl`: the new state (join written back, output,
`firsts`) and `next` as it is pushed (`flattened_step` fills in its advancement) -/
def fwJoin (e : Env α) (st : St α) (prev join next : EP α) : St α × EP α :=
  let count := st.buf.count
  let d := baseVertex join.src join.position join.halfWidth nan
  if fastPath prev join next then
    -- the `Ok(bool)` of flattened_step is dropped by the fixed-width caller
    let r := flattenedStep prev { join with lineJoin := .miter } next d st.out
    let o := edgeAndJoin e.o.tolerance count prev r.join { d with advancement := r.join.advancement } r.out
    ({ st.setLast r.join with out := o, firsts := if count == 2 then [prev, r.join] else st.firsts }, r.next)
  else
    let j1 := joinSidesFw e.ix prev join next e.o.miterLimit d.halfWidth
    let dd : VData α := { d with advancement := j1.advancement }
    let (j2, o1) := baseVertices j1 dd st.out
    let o := edgeAndJoin e.o.tolerance count prev j2 dd o1
    ({ st.setLast j2 with out := o, firsts := if count == 2 then [prev, j2] else st.firsts }, next)

/-- `fixed_width_step_impl`; the flag is its `Ok(bool)` -/
def fwStep (e : Env α) (st : St α) (next : EP α) : St α × Bool :=
  if st.tooClose e.thr next.position then
    ({ st with mayNeedEmptyCap := st.mayNeedEmptyCap || st.buf.count == 1 }, false)
  else
    match st.buf.lastTwo with
    | some (prev, join) =>                       -- count > 1
      let r := fwJoin e st prev join next
      (r.1.push r.2, true)
    | none =>
      match st.buf.last with
      | some first =>                            -- count == 1
        let r := firstEdgeSetup first next
        ((st.setLast r.1).push r.2, true)
      | none => (st.push next, true)             -- count == 0

/-! ## tessellate_last_edge / tessellate_first_edge -/

def capClip (cap : LineCap) (hw : α) : Option α :=
  match cap with
  | .square => some hw
  | .butt => some zero
  | .round => none

/-- the clipped side position: intersection of the cap's clip line (through
`p + normalize(p - q) * clip`, direction `tangent(normal)`) with the side line through `sidePos`
with direction `sidePos - other`; `.unwrap_or(sidePos)` -/
def clipSidePos (ix : Ix α) (cap : LineCap) (p q : P α) (hw : α) (sidePos other : P α) : P α :=
  match capClip cap hw with
  | none => sidePos
  | some clip =>
    let normal := normalize (p - q)
    (ix (p + normal.smul clip) (perp normal) sidePos (sidePos - other)).getD sidePos

/-- `tessellate_last_edge(p0, p1, is_first_edge, …)`: returns the mutated `p1` -/
def lastEdge (e : Env α) (p0 p1 : EP α) (isFirst : Bool) (o : Out α) : EP α × Out α :=
  let v := p1.position - p0.position
  let adv := p0.advancement + len v
  let d := baseVertex p1.src p1.position p1.halfWidth adv
  let posPrev := clipSidePos e.ix e.o.endCap p1.position p0.position p1.halfWidth p1.pos.prev p0.pos.next
  let vp := o.nextId
  let o1 := o.addVertex { d with side := .positive, normal := (posPrev - p1.position).sdiv p1.halfWidth }
  let negPrev := clipSidePos e.ix e.o.endCap p1.position p0.position p1.halfWidth p1.neg.prev p0.neg.next
  let vn := o1.nextId
  let o2 := o1.addVertex { d with side := .negative, normal := (negPrev - p1.position).sdiv p1.halfWidth }
  let p1' : EP α := { p1 with advancement := adv,
                              pos := { p1.pos with prev := posPrev, prevVertex := vp },
                              neg := { p1.neg with prev := negPrev, prevVertex := vn } }
  let o3 := if isFirst then o2 else o2.addTris (addEdgeTriangles p0.ids p1'.ids)
  let o4 := if e.o.endCap == .round then
      tessellateRoundCap p1'.position p1'.halfWidth (p1'.pos.prev - p1'.position) vp vn v e.o.tolerance false d o3
    else o3
  (p1', o4)

/-- `tessellate_first_edge(first, second, …)` -/
def firstEdge (e : Env α) (first second : EP α) (o : Out α) : Out α :=
  let d := baseVertex first.src first.position first.halfWidth first.advancement
  let posNext := clipSidePos e.ix e.o.startCap first.position second.position first.halfWidth first.pos.next second.pos.prev
  let vp := o.nextId
  let o1 := o.addVertex { d with side := .positive, normal := (posNext - first.position).sdiv first.halfWidth }
  let negNext := clipSidePos e.ix e.o.startCap first.position second.position first.halfWidth first.neg.next second.neg.prev
  let vn := o1.nextId
  let o2 := o1.addVertex { d with side := .negative, normal := (negNext - first.position).sdiv first.halfWidth }
  let first' : EP α := { first with pos := { first.pos with nextVertex := vp }, neg := { first.neg with nextVertex := vn } }
  let o3 := o2.addTris (addEdgeTriangles first'.ids second.ids)
  if e.o.startCap == .round then
    tessellateRoundCap first.position first.halfWidth (first.neg.next - first.position) vn vp
      (first.position - second.position) e.o.tolerance true d o3
  else o3

/-! ## tessellate_empty_cap, end_with_caps, close, end -/

def emptyCap (e : Env α) (st : St α) : Out α :=
  match st.buf.get 0 with
  | none => st.out
  | some point =>
    let d := baseVertex point.src point.position point.halfWidth point.advancement
    match e.o.startCap with
    | .square => tessellateEmptySquareCap point.position d st.out
    | .round => tessellateEmptyRoundCap point.position e.o.tolerance d st.out
    | .butt => st.out

/-- the fixed-width hack of `end_with_caps`: side points of the last point from the last edge -/
def lastSidesFw (p0 p1 : EP α) : EP α :=
  let tangent := normalize (p1.position - p0.position)
  let n := (perp tangent).smul p1.halfWidth
  { p1 with pos := { p1.pos with prev := p1.position + n }, neg := { p1.neg with prev := p1.position - n } }

def endWithCaps (e : Env α) (st : St α) : St α :=
  let count := st.buf.count
  if st.mayNeedEmptyCap && count == 1 then { st with out := emptyCap e st }
  else match st.buf.lastTwo with
    | none => st
    | some (p0, p1) =>
      let p1a := if e.o.varWidth then p1 else lastSidesFw p0 p1
      let (p1b, o1) := lastEdge e p0 p1a (count == 2) st.out
      let f := if count > 2 then st.firsts.headD p0 else p0
      let s := if count > 2 then (st.firsts.drop 1).headD p1b else p1b
      { st with subPathStartAdvancement := p1b.advancement, out := firstEdge e f s o1 }

/-- the two vertices `close` re-creates at the first point, towards the second endpoint -/
def closeVertices (p0 : EP α) (advancement : α) (o : Out α) : EP α × Out α :=
  let d := baseVertex p0.src p0.position p0.halfWidth advancement
  let np := ((p0.pos.single.getD p0.pos.next) - p0.position).sdiv p0.halfWidth
  let vp := o.nextId
  let o1 := o.addVertex { d with side := .positive, normal := np }
  let nn := ((p0.neg.single.getD p0.neg.next) - p0.position).sdiv p0.halfWidth
  let vn := o1.nextId
  let o2 := o1.addVertex { d with side := .negative, normal := nn }
  ({ p0 with pos := { p0.pos with nextVertex := vp }, neg := { p0.neg with nextVertex := vn } }, o2)

end

/-- the two step functions as one parameter (`step_impl` needs more classes, see below) -/
abbrev StepFn (α : Type) := St α → EP α → St α × Bool

section
variable [Transc α]

/-- `close` (called with `count > 2`, so `firsts` has its two entries) -/
def close (step : StepFn α) (st : St α) : St α :=
  match st.firsts with
  | p :: p2 :: _ =>
    let advancement := p.advancement
    let (st1, added) := step st { p with advancement := nan }
    let st2 := if added then st1 else
      match st1.buf.last with
      | some l => st1.setLast { l with position := p.position }
      | none => st1
    let (st3, _) := step st2 p2
    match st3.buf.lastTwo with
    | some (q0, q1) =>
      let (q0', o1) := closeVertices q0 advancement st3.out
      { st3 with out := o1.addTris (addEdgeTriangles q0'.ids q1.ids) }
    | none => st3
  | _ => st

/-- `end(close)` -/
def endSub (e : Env α) (step : StepFn α) (st : St α) (closed : Bool) : St α :=
  let st0 := { st with mayNeedEmptyCap := st.mayNeedEmptyCap || (closed && st.buf.count == 1) }
  let st1 := if closed && st0.buf.count > 2 then close step st0 else endWithCaps e st0
  { st1 with buf := st1.buf.clear, firsts := [] }

end

/-! ## variable line width: compute_edge_attachment_positions, compute_join_side_positions, step_impl -/

/-- `f32::asin` (not in `Transc`) -/
class Asin (α : Type) where
  asin : α → α
instance : Asin Float32 := ⟨Float32.asin⟩
instance : Asin Float := ⟨Float.asin⟩

section
variable [Transc α]

/-- the normal of `compute_side_attachment_positions`; `nl = side_sign(side)` -/
def attachNormal (edgeAngle vwidthAngle nl : α) : P α :=
  let normalAngle := edgeAngle + nl * (Transc.pi * half + vwidthAngle)
  ⟨Transc.cos normalAngle, Transc.sin normalAngle⟩

/-- `compute_edge_attachment_positions(p0, p1)` -/
def edgeAttach [Asin α] (p0 p1 : EP α) : EP α × EP α :=
  let edge := p1.position - p0.position
  let d := len edge
  let edgeAngle := ArcConv.angleFromXAxis edge
  let sinV := (p1.halfWidth - p0.halfWidth) / d
  let a := Asin.asin sinV
  let vwa := if Transc.isNaN a then zero else a
  let np := attachNormal edgeAngle vwa one
  let nn := attachNormal edgeAngle vwa (-one)
  let adv := if Transc.isNaN p1.advancement then p0.advancement + d else p1.advancement
  ({ p0 with pos := { p0.pos with next := p0.position + np.smul p0.halfWidth },
             neg := { p0.neg with next := p0.position + nn.smul p0.halfWidth } },
   { p1 with advancement := adv,
             pos := { p1.pos with prev := p1.position + np.smul p1.halfWidth },
             neg := { p1.neg with prev := p1.position + nn.smul p1.halfWidth } })

def EP.side (e : EP α) (isNeg : Bool) : SideGeom α := if isNeg then e.neg else e.pos
def EP.fold (e : EP α) (isNeg : Bool) : Bool := if isNeg then e.foldNeg else e.foldPos
def EP.setSide (e : EP α) (isNeg : Bool) (s : SideGeom α) : EP α :=
  if isNeg then { e with neg := s } else { e with pos := s }
def EP.setFold (e : EP α) (isNeg : Bool) (b : Bool) : EP α :=
  if isNeg then { e with foldNeg := b } else { e with foldPos := b }

/-- the numbers `compute_join_side_positions` derives -/
structure VwGeo (α : Type) where
  normal : P α
  inward : Bool
  nss : Bool
  fold : Bool

def vwGeo (prev join next : EP α) (isNeg : Bool) : VwGeo α :=
  let sign : α := if isNeg then -one else one
  let v0 := normalize ((join.side isNeg).prev - (prev.side isNeg).next)
  let v1 := normalize ((next.side isNeg).prev - (join.side isNeg).next)
  let inward : Bool := decide (v0.cross v1 * sign > zero)
  let forward : Bool := decide (v0.dot v1 > zero)
  let normal := (computeNormal v0 v1).smul sign
  let pathV0 := normalize (join.position - prev.position)
  let pathV1 := normalize (next.position - join.position)
  let nss : Bool := decide ((v0 + v1).dot (pathV0 + pathV1) ≥ zero)
  let sharp := inward && !forward && nss
  let extruded := normal.smul join.halfWidth
  let prevLength := join.advancement - prev.advancement
  let nextLength := next.advancement - join.advancement
  let dNext := extruded.dot v1 - nextLength
  let dPrev := extruded.dot (-v0) - prevLength
  let fold := sharp && (decide (Scalar.min dNext dPrev ≥ zero) || decide (normal.sqLen < ofSci 1 5))
  ⟨normal, inward, nss, fold⟩

/-- `compute_join_side_positions(prev, join, next, miter_limit, side)` -/
def joinSideVw (ix : Ix α) (prev join next : EP α) (ml : α) (isNeg : Bool) : EP α :=
  let g := vwGeo prev join next isNeg
  let j1 := if g.fold then join.setFold isNeg true else join
  let concave := g.inward && g.nss && !(j1.fold isNeg)
  let s := j1.side isNeg
  let isMiter := join.lineJoin == .miter || join.lineJoin == .miterClip
  if concave || (isMiter && !miterLimitIsExceeded g.normal ml) then
    j1.setSide isNeg { s with single := some (join.position + g.normal.smul join.halfWidth) }
  else if join.lineJoin == .miterClip then
    let c := clipIntersections ix (s.prev - join.position) (s.next - join.position) g.normal (ml * join.halfWidth)
    j1.setSide isNeg { s with prev := join.position + c.1, next := join.position + c.2 }
  else j1

/-- both sides, then "prevent folding when the other side is concave" -/
def joinSidesVw (ix : Ix α) (prev join next : EP α) (ml : α) : EP α :=
  let j1 := joinSideVw ix prev join next ml false
  let j2 := joinSideVw ix prev j1 next ml true
  let j3 := if j2.pos.single.isSome then { j2 with foldNeg := false } else j2
  if j3.neg.single.isSome then { j3 with foldPos := false } else j3

/-- the `count > 1` part of `step_impl`; `next` already went through the edge attachment -/
def vwJoin (e : Env α) (st : St α) (prev join next : EP α) : St α :=
  let count := st.buf.count
  let d := baseVertex join.src join.position join.halfWidth join.advancement
  if fastPath prev join next then
    let r := flattenedStep prev { join with lineJoin := .miter } next d st.out
    if r.skip then ({ st with out := r.out }).setLast r.next
    else
      let o := edgeAndJoin e.o.tolerance count prev r.join { d with advancement := r.join.advancement } r.out
      ({ st.setLast r.join with out := o, firsts := if count == 2 then [prev, r.join] else st.firsts }).push r.next
  else
    let j1 := joinSidesVw e.ix prev join next e.o.miterLimit
    let (j2, o1) := baseVertices j1 d st.out
    let o := edgeAndJoin e.o.tolerance count prev j2 d o1
    ({ st.setLast j2 with out := o, firsts := if count == 2 then [prev, j2] else st.firsts }).push next

/-- `step_impl` -/
def vwStep [Asin α] (e : Env α) (st : St α) (next : EP α) : St α × Bool :=
  let count := st.buf.count
  if st.tooClose e.thr next.position then
    ({ st with mayNeedEmptyCap := st.mayNeedEmptyCap || count == 1 }, false)
  else
    match st.buf.last with
    | none => (st.push next, true)
    | some join0 =>
      let (j', n') := edgeAttach join0 next
      let st1 := st.setLast j'
      match st1.buf.lastTwo with
      | none => (st1.push n', true)
      | some (prev, join) => (vwJoin e st1 prev join n', true)

/-! ## curves: find_sharp_turn, flatten_quad, the callbacks of quadratic_bezier_to / cubic_bezier_to -/

/-- one call of the flattening callback: `(position, t, is_flattening_step)` -/
structure FlatPt (α : Type) where
  pos : P α
  t : α
  isFlat : Bool

variable [FlatConst α]

/-- `find_sharp_turn` -/
def findSharpTurn (q : Quad α) : Option α :=
  let baseline := q.b - q.a
  let v := q.c - q.a
  let n : P α := ⟨-baseline.y, baseline.x⟩
  let vDotB := v.dot baseline
  let vDotN := v.dot n
  let far : Bool := (decide (vDotB ≥ zero) && decide (vDotB ≤ baseline.dot baseline))
    || decide (abs vDotN * two ≥ abs vDotB)
  if far && decide (baseline.sqLen * ofNat 30 > v.sqLen) then none
  else
    let longAxis := if far then v else baseline
    let angle := -(ArcConv.angleFromXAxis longAxis)
    let rotated : Quad α := ⟨⟨zero, zero⟩, Arc.rotate angle v, Arc.rotate angle baseline⟩
    rotated.localXExtremumT

def segPts (l : List (FlatSeg α)) (f : α → α) : List (FlatPt α) :=
  l.map (fun s => ⟨s.b, f s.t1, !(s.t1 == one)⟩)

/-- `flatten_quad`; `none` = `for_each_flattened_with_t` panics (segment count ≥ 2³²) -/
def flattenQuad (q : Quad α) (tol : α) : Option (List (FlatPt α)) :=
  match findSharpTurn q with
  | some ts =>
    match (q.split ts).1.forEachFlattenedWithT tol, (q.split ts).2.forEachFlattenedWithT tol with
    | some l1, some l2 =>
      some (segPts l1 (fun t => t * ts) ++ segPts l2 (fun t => ts + t * (one - ts)))
    | _, _ => none
  | none => (q.forEachFlattenedWithT tol).map (fun l => segPts l id)

/-- the endpoints a quadratic contributes: `src = if t == 1.0 { Endpoint } else { Edge }` -/
def quadPoints (q : Quad α) (tol : α) (fromId toId : Nat) (hwAt : α → α) (lj : LineJoin) : Option (List (EP α)) :=
  (flattenQuad q tol).map (fun l => l.map (fun f =>
    EP.mk' f.pos (hwAt f.t) nan lj (if f.t == one then .endpoint toId else .edge fromId toId f.t) f.isFlat))

/-- the endpoints a cubic contributes: `src = if t.end != 1.0 { Edge } else { Endpoint }` -/
def cubicPoints (c : Cubic α) (tol : α) (fromId toId : Nat) (hwAt : α → α) (lj : LineJoin) : Option (List (EP α)) :=
  (c.forEachFlattenedWithT tol).map (fun l => l.map (fun s =>
    EP.mk' s.b (hwAt s.t1) nan lj (if s.t1 == one then .endpoint toId else .edge fromId toId s.t1) !(s.t1 == one)))

end

/-! ## the f64 round trip of the clip intersections -/

/-- how the stroker intersects two lines: `to_f64()`, `Line::intersection` (`EPSILON = 1e-8`),
`to_f32()` -/
class HasIx (α : Type) where
  ix : Ix α

def w64 (p : P Float32) : P Float := ⟨p.x.toFloat, p.y.toFloat⟩
def n32 (p : P Float) : P Float32 := ⟨p.x.toFloat32, p.y.toFloat32⟩
instance : HasIx Float32 where
  ix p1 v1 p2 v2 :=
    (Lyon.StrokeQuad.lineIntersection (α := Float) (Scalar.ofSci 1 8) (w64 p1) (w64 v1) (w64 p2) (w64 v2)).map n32
instance : HasIx Float where
  ix := Lyon.StrokeQuad.lineIntersection (Scalar.ofSci 1 8)

/-! ## fixed-width entry: `StrokeTessellator::tessellate` → `tessellate_fw` -/

inductive PathEv (α : Type) where
  | begin (at_ : P α)
  | line (to : P α)
  | quad (ctrl to : P α)
  | cubic (ctrl1 ctrl2 to : P α)
  | end_ (close : Bool)

section
variable [Transc α]

def Env.new (o : Opts α) (ix : Ix α) : Env α := ⟨o, squareMergeThreshold o.tolerance o.lineWidth, ix⟩

/-- `self.options.line_width * 0.5` -/
def Env.hwFw (e : Env α) : α := e.o.lineWidth * half

end

/-! ## the event loops: `tessellate_fw`, `tessellate_with_ids_fw`, `tessellate_with_ids_vw`, and the
`PathBuilder` interface of `StrokeBuilder` (`builder` / `builder_with_attributes`) -/

/-- an event with its endpoint id (`IdEvent` + positions; for `StrokeBuilder` the id is the one
`attrib_store.add` returns) -/
inductive IdEv (α : Type) where
  | begin (id : Nat) (at_ : P α)
  | line (id : Nat) (to : P α)
  | quad (ctrl : P α) (id : Nat) (to : P α)
  | cubic (ctrl1 ctrl2 : P α) (id : Nat) (to : P α)
  | end_ (close : Bool)

/-- `tessellate_fw`: the endpoint id counts the Begin / Line / Quadratic / Cubic events
(`prev_id = id - 1` of a curve is the id of the previous event) -/
def assignIds : List (PathEv α) → Nat → List (IdEv α)
  | [], _ => []
  | .begin p :: r, id => .begin id p :: assignIds r (id + 1)
  | .line p :: r, id => .line id p :: assignIds r (id + 1)
  | .quad c p :: r, id => .quad c id p :: assignIds r (id + 1)
  | .cubic c1 c2 p :: r, id => .cubic c1 c2 id p :: assignIds r (id + 1)
  | .end_ c :: r, id => .end_ c :: assignIds r id

section
variable [Transc α] [Asin α] [FlatConst α]

/-- `step` / `fixed_width_step` by `options.variable_line_width` -/
def Env.step (e : Env α) : StepFn α := if e.o.varWidth then vwStep e else fwStep e

/-- `base_width * attributes.get(id)[attrib_index]` -/
def Env.widthOf (e : Env α) (store : Nat → List α) (id : Nat) : α :=
  e.o.lineWidth * (store id).getD e.o.varIdx nan

/-- `half_width` of an endpoint -/
def Env.hwOf (e : Env α) (store : Nat → List α) (id : Nat) : α :=
  if e.o.varWidth then e.widthOf store id * half else e.hwFw

/-- `half_width` inside a curve: `(start_width * (1.0 - t) + end_width * t) * 0.5` -/
def Env.hwAt (e : Env α) (store : Nat → List α) (fromId toId : Nat) (t : α) : α :=
  if e.o.varWidth then (e.widthOf store fromId * (one - t) + e.widthOf store toId * t) * half else e.hwFw

structure Run (α : Type) where
  st : St α
  curId : Nat
  curPos : P α
  /-- a flattening loop panicked (segment count ≥ 2³²) -/
  panicked : Bool

def Run.feed (e : Env α) (r : Run α) (pts : Option (List (EP α))) (id : Nat) (p : P α) : Run α :=
  match pts with
  | none => { r with panicked := true }
  | some l => { r with st := l.foldl (fun s q => (e.step s q).1) r.st, curId := id, curPos := p }

def runEvent (e : Env α) (store : Nat → List α) (r : Run α) : IdEv α → Run α
  | .begin id p =>
    let st0 : St α := { r.st with mayNeedEmptyCap := false }
    let ep := EP.mk' p (e.hwOf store id) r.st.subPathStartAdvancement e.o.join (Src.endpoint id) false
    { r with st := (e.step st0 ep).1, curId := id, curPos := p }
  | .line id p =>
    let ep := EP.mk' p (e.hwOf store id) nan e.o.join (Src.endpoint id) false
    { r with st := (e.step r.st ep).1, curId := id, curPos := p }
  | .quad c id p =>
    r.feed e (quadPoints ⟨r.curPos, c, p⟩ e.o.tolerance r.curId id (e.hwAt store r.curId id) e.o.join) id p
  | .cubic c1 c2 id p =>
    r.feed e (cubicPoints ⟨r.curPos, c1, c2, p⟩ e.o.tolerance r.curId id (e.hwAt store r.curId id) e.o.join) id p
  | .end_ c => { r with st := endSub e e.step r.st c }

def runEvents (e : Env α) (store : Nat → List α) (evs : List (IdEv α)) : Run α :=
  evs.foldl (fun r ev => if r.panicked then r else runEvent e store r ev) ⟨St.new, unset, nanP, false⟩

/-- `tessellate_with_ids` / the `StrokeBuilder` interface -/
def tessellateIds (e : Env α) (store : Nat → List α) (evs : List (IdEv α)) : Option (Out α) :=
  let r := runEvents e store evs
  if r.panicked then none else some r.st.out

/-- `StrokeTessellator::tessellate` → `tessellate_fw` (forces the fixed-width paths) -/
def tessellateFw (e : Env α) (evs : List (PathEv α)) : Option (Out α) :=
  tessellateIds { e with o := { e.o with varWidth := false } } (fun _ => []) (assignIds evs 0)

end

end Lyon.Stroke.Full
