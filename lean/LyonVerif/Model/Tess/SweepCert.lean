/-
  The executable winding-conservation certificate of a run of the modelled sweep
  (`Model/Tess/Sweep.lean`), Mathlib-free so that the driver can evaluate it on every explored case.

  `Wat s k`     : the `WindingState` left of position `k` of the active list (the fold
                  `scan_active_edges` performs: a merge vertex counts one span, an edge updates the
                  winding number);
  `eventOkB`    : winding conservation at one event - the winding number right of the edges inserted
                  at the vertex equals the winding number right of the edges that ended (or were
                  split) there; a vertex without outgoing edges either ends edges or lies outside the
                  filled region; a merge event has no outgoing edges;
  `stepOkB`     : one `process_events` call: the scan succeeded (no recovery) and `eventOkB` holds
                  for the windings read off the new active list (`Wof`);
  `allOkB`/`cleanRunB`/`cleanB` : the whole run, replayed event by event.

  `Props/C01b.lean` (`sweep_no_panic_clean_partial`): a run whose certificate is `true` does not
  panic.  The theorems about these definitions are in `Lemmas/SweepSafeCoh*.lean`.
-/
import LyonVerif.Model.Tess.Sweep

namespace Lyon.SweepCoh
open Lyon Lyon.Scalar Lyon.Mono Lyon.Sweep Lyon.EQ

variable {α : Type} [Scalar α] [Wide α]

/-- one edge of the active list -/
def wstep (rule : Slab.Rule) (w : WindingState) (e : ActiveEdge α) : WindingState :=
  if e.isMerge then { w with spanIndex := w.spanIndex + 1 } else w.update rule e.winding

/-- the winding state after the edges `l`, starting from `w` -/
def wfold (rule : Slab.Rule) (w : WindingState) (l : List (ActiveEdge α)) : WindingState :=
  l.foldl (wstep rule) w

/-- the winding state left of position `k` of the active list -/
def Wat (s : St α) (k : Nat) : WindingState := wfold s.rule WindingState.new (s.active.toList.take k)

/-- the part of an active edge the winding fold reads -/
def sigOf (e : ActiveEdge α) : Bool × Int := (e.isMerge, e.winding)

/-- the winding fold on signatures -/
def sstep (rule : Slab.Rule) (w : WindingState) (x : Bool × Int) : WindingState :=
  if x.1 then { w with spanIndex := w.spanIndex + 1 } else w.update rule x.2

def sfold (rule : Slab.Rule) (w : WindingState) (l : List (Bool × Int)) : WindingState :=
  l.foldl (sstep rule) w

/-- the signatures of the active list -/
def sigs (s : St α) : List (Bool × Int) := s.active.toList.map sigOf

/-- indicator -/
def bi (b : Bool) : Nat := if b then 1 else 0

/-- the winding fold over pending edges (never merge vertices) -/
def pfold (rule : Slab.Rule) (w : WindingState) (l : List Int) : WindingState :=
  sfold rule w (l.map fun k => (false, k))

/-- the state handed to the next iteration of `tessellator_loop` -/
def nextSt (s : St α) : St α := { s with curEvent := s.q.nextId s.curEvent }

/-- the windings of the edges inserted by the event, read off the new active list -/
def Wof (s1 : St α) (scan : Scan) (s2 : St α) : List Int :=
  (((sigs s2).drop (scan.aboveStart + bi scan.mergeEvent)).take
    ((sigs s2).length - (scan.aboveStart + bi scan.mergeEvent) - (s1.active.size - scan.aboveEnd))).map (·.2)

def eventOkB (s1 : St α) (scan : Scan) (W : List Int) : Bool :=
  decide ((pfold s1.rule (Wat s1 scan.aboveStart) W).number = (Wat s1 scan.aboveEnd).number) &&
  (!W.isEmpty || scan.mergeEvent ||
    (decide (scan.aboveStart < scan.aboveEnd) && !scan.mergeSplitEvent && !(Wat s1 scan.aboveStart).isIn) ||
    (decide (scan.aboveStart = scan.aboveEnd) && !(Wat s1 scan.aboveStart).isIn)) &&
  (!scan.mergeEvent || W.isEmpty)

/-- the two consequences of "the on-edge tests of the scan agree" that the coherence proofs use, as a
check on the scan result itself: a merge event consumed at least one edge; a vertex inside the filled
region that connects to no edge is a split event -/
def scanAgreeB (s : St α) (scan : Scan) : Bool :=
  (!scan.mergeEvent || decide (scan.aboveStart < scan.aboveEnd)) &&
  (!(decide (scan.aboveStart = scan.aboveEnd) && (Wat s scan.aboveStart).isIn) || scan.splitEvent)

/-- the scan of `s1` succeeds and its result passes `scanAgreeB` -/
def scanGoodB (s1 : St α) : Bool :=
  match scanActiveEdges s1 with
  | .error _ => false
  | .ok scan => scanAgreeB s1 scan

def stepOkB (s1 s2 : St α) : Bool :=
  match scanActiveEdges s1 with
  | .error _ => false
  | .ok scan => eventOkB s1 scan (Wof s1 scan s2)

/-- the winding state to the right of the whole active list -/
def Wtot (s : St α) : WindingState := Wat s s.active.size

/-- the coherence invariant `Coh` of `Lemmas/SweepSafeCohInv.lean`, executable: every span live; number
of spans = span-index increments of the winding fold; total winding `out`; every merge vertex in an
`in` region and with winding 0.  (No longer part of the certificate: `Coh` is PROVED to hold after
every event and after every `recover_from_error`, `Lemmas/SweepSafeCohRecover.lean`; kept as a
diagnostic.) -/
def cohB (s : St α) : Bool :=
  s.spans.all (·.isSome) &&
  decide ((s.spans.size : Int) = (Wtot s).spanIndex + 1) &&
  !(Wtot s).isIn &&
  (List.range s.active.size).all (fun k =>
    match s.active[k]? with
    | some e => !e.isMerge || ((Wat s k).isIn && e.winding == 0)
    | none => true)

/-- `process_events` from a state whose scan passed: the step conserves the winding and the rest of
the run (`rec`) is fine -/
def procTailB (rec : St α → Bool) (s1 : St α) : Bool :=
  match ((processEvents : SM α (Option IErr)).run.run s1 : Except Fail (Option IErr) × St α) with
  | (.ok _, s2) => stepOkB s1 s2 && rec (nextSt s2)
  | (.error _, _) => true

/-- the second attempt, after `recover_from_error`: a second scan error ends the run with `Err`.
`g` = also check `scanAgreeB` (not needed where the agreement of the on-edge tests is a theorem:
ordered fields) -/
def secondGB (g : Bool) (rec : St α → Bool) (s3 : St α) : Bool :=
  match scanActiveEdges s3 with
  | .ok scan => (!g || scanAgreeB s3 scan) && procTailB rec s3
  | .error _ => true

/-- `recover_from_error`: nothing is checked about the recovery itself (that it re-establishes the
coherence invariant is proved for all inputs, `recoverFromError_coh`); the certificate just continues
with the second attempt at the event -/
def recTailGB (g : Bool) (rec : St α → Bool) (s : St α) : Bool :=
  match ((recoverFromError : SM α Unit).run.run s : Except Fail Unit × St α) with
  | (.ok _, s3) => secondGB g rec s3
  | (.error _, _) => true

/-- the first attempt at an event -/
def firstGB (g : Bool) (rec : St α → Bool) (s1 : St α) : Bool :=
  match scanActiveEdges s1 with
  | .ok scan => (!g || scanAgreeB s1 scan) && procTailB rec s1
  | .error _ =>
    match ((processEvents : SM α (Option IErr)).run.run s1 : Except Fail (Option IErr) × St α) with
    | (.ok _, s1') => recTailGB g rec s1'
    | (.error _, _) => true

def initTailGB (g : Bool) (rec : St α → Bool) (s : St α) : Bool :=
  match ((initializeEvents : SM α Unit).run.run s : Except Fail Unit × St α) with
  | (.ok _, s1) => firstGB g rec s1
  | (.error _, _) => true

/-- the certificate of the run of `tessellator_loop f` from `s`: at every event the step conserves the
winding (`stepOkB`) and - when `g` - the scan result passes `scanAgreeB`.  These two checks are exactly
the residue that is not proved for all inputs; everything else (in particular the state after
`recover_from_error`) is covered by theorems -/
def allOkGB (g : Bool) : Nat → St α → Bool
  | 0, _ => true
  | f+1, s => s.curEvent == INVALID || initTailGB g (allOkGB g f) s

/-- the certificate with both checks -/
def allOkB (f : Nat) (s : St α) : Bool := allOkGB true f s

/-- the initial state of `tessellate_impl` -/
def initSt (q : Queue α) (rule : Slab.Rule) (horizontal : Bool) (tol : α) (handleIx : Bool) : St α where
  q := q
  curPos := ⟨Wide.fmin, Wide.fmin⟩
  curVertex := INVALID
  curEvent := q.firstId
  active := #[]
  below := #[]
  spans := #[]
  pool := []
  rule := rule
  horizontal := horizontal
  tolerance := tol * half
  handleIntersections := handleIx
  out := #[]
  nverts := 0

/-- the executable certificate of a run of `tessellate_impl` -/
def cleanRunGB (g : Bool) (q : Queue α) (rule : Slab.Rule) (horizontal : Bool) (tol : α) (handleIx : Bool) : Bool :=
  allOkGB g (4 * q.events.size * q.events.size + 1000) (initSt q rule horizontal tol handleIx)

/-- the certificate for the whole `FillTessellator` on polygonal input -/
def cleanGB (g : Bool) (entry : Entry) (rule : Slab.Rule) (horizontal : Bool) (tol : α) (handleIx : Bool)
    (subs : List (SubPath α)) : Bool :=
  cleanRunGB g (buildQueue entry horizontal subs).sort rule horizontal tol handleIx

/-- both checks (the certificate evaluated by the C01 check on `f32`) -/
def cleanRunB (q : Queue α) (rule : Slab.Rule) (horizontal : Bool) (tol : α) (handleIx : Bool) : Bool :=
  cleanRunGB true q rule horizontal tol handleIx

def cleanB (entry : Entry) (rule : Slab.Rule) (horizontal : Bool) (tol : α) (handleIx : Bool)
    (subs : List (SubPath α)) : Bool :=
  cleanGB true entry rule horizontal tol handleIx subs

/-- winding conservation only (enough over ordered fields, where `scanAgreeB` is a theorem) -/
def windB (entry : Entry) (rule : Slab.Rule) (horizontal : Bool) (tol : α) (handleIx : Bool)
    (subs : List (SubPath α)) : Bool :=
  cleanGB false entry rule horizontal tol handleIx subs

end Lyon.SweepCoh
