/-
  C08, stroke tessellator: the ATTRIBUTE BUFFER of the long-lived `StrokeTessellator` handed to the
  complete stroker model, and `StrokeVertex::interpolated_attributes` reading it the way the code does.

  `Model/Tess/ResetStroke.lean` (`strokeFullCall`) runs the complete stroker on the reset attribute
  STORE but never hands it the object's attribute BUFFER: the attributes a vertex constructor reads
  are not part of its output, and the buffer left in the object is an arbitrary `scribble`.  The
  code, however, reads the buffer's LENGTH (`for i in 0..self.0.buffer.len()`), so a buffer that were
  only grown and never cleared (stored seeds C05-r3-2 / C08-r3-1) would make a call after one with
  more attributes index past the end of the store's slices.  `Model/Tess/StrokeAttrBuffer.lean` has the
  buffer-level pieces (`prologueBuffer`, `BufCache.readB`, `attrsSeqB`, `bufferAfter`; tied by the
  checker family `chk_stroke_attrs` of C08 on a reused real `StrokeTessellator`); here they are
  composed with the complete stroker:

  * `strokeFullCallB`  one call on a used object: the complete output of `strokeFullCall` PLUS the
                       attributes every vertex constructor reads through the object's own buffer,
                       and the object afterwards with the buffer as the call really leaves it.

  Nothing of `StrokeFull.lean` / `StrokeAttrs.lean` / `ResetStroke.lean` is redefined.  Mathlib-free.
-/
import LyonVerif.Model.Tess.ResetStroke
import LyonVerif.Model.Tess.StrokeAttrs
import LyonVerif.Model.Tess.StrokeAttrBuffer

set_option linter.unusedVariables false

namespace Lyon.Stroke.Full
open Lyon Lyon.Scalar Lyon.Stroke
open Lyon.StrokeQuad (Ix)

variable {α : Type} [Scalar α]

section
variable [Transc α] [Asin α] [FlatConst α]

/-- the attribute store the stroker of the call sees -/
def callStore (t : Reset.StrokeT α) (c : StrokeCall α) : Nat → List α :=
  match c.entry with
  | .events => fun _ => []
  | .withIds _ => fun id => c.attrs.getD id []
  | .builder n | .builderDropped n => storeGet (storeFeed (t.store.reset n) c.attrs)

/-- one call on the object `t`: the object afterwards (buffer as the reads of the call leave it),
the complete output of `strokeFullCall` and the attributes every vertex constructor reads
(`none` = the stroker or a read panicked) -/
def strokeFullCallB (ix : Ix α) (t : Reset.StrokeT α) (c : StrokeCall α) :
    Reset.StrokeT α × Option (Out α × List (List α)) :=
  let r := strokeFullCall ix t c
  let buf := prologueBuffer t.attribBuffer c.entry
  match r.2 with
  | none => ({ r.1 with attribBuffer := bufferAfter t.attribBuffer c.entry buf }, none)
  | some out =>
    let a := attrsSeqB (callStore t c) (out.verts.map (·.src)) ⟨false, buf⟩
    ({ r.1 with attribBuffer := bufferAfter t.attribBuffer c.entry a.2.buf }, a.1.map fun l => (out, l))

/-- the long-lived `StrokeTessellator` as a call machine, attributes included -/
def strokeObjB (ix : Ix α) : Reset.Machine (Reset.StrokeT α) (StrokeCall α) (Option (Out α × List (List α))) :=
  ⟨strokeFullCallB ix⟩

end

end Lyon.Stroke.Full
