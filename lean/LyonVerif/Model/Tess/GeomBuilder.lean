/-
  Model of `crates/tessellation/src/geometry_builder.rs` (C04, reused by C05).

  * `IndexTy`, `IndexTy.max`     — the ten `impl MaxIndex for …` constants, as a table.
  * `IdxCfg`                     — what `BuffersBuilder` needs to know about `OutputIndex`:
                                   `MaxIndex::MAX` and the modulus of `From<VertexId>` (`v.0 as u16`
                                   truncates; `u32`, `i32`, `usize` are exact below `2^31`).
  * `Buffers`                    — `VertexBuffers<OutputVertex, OutputIndex>`; a vertex is the
                                   payload the vertex constructor produced (a `Nat` here), an index
                                   is its numeric value.
  * `BB`                         — `BuffersBuilder`: `new`, `with_vertex_offset`, `begin_geometry`,
                                   `add_triangle`, `abort_geometry`, `end_geometry`,
                                   `add_fill_vertex` / `add_stroke_vertex` (same body).
  * `NoOut`                      — `NoOutput`.
  * `Sink σ`                     — the `GeometryBuilder + Fill/StrokeGeometryBuilder` vtable as a
                                   record of functions on a state `σ`; `bbSink`, `noOutSink`,
                                   `Sink.invert` (`InvertWinding`), `Sink.refuseAt` (the fault
                                   injector of the correspondence harness: refuses the k-th vertex).
  * `Call`, traces               — what a recording builder sees.

  `Index = u32`: `len as Index` is `len % 2^32` — kept in the model (`idxMod`), the theorems
  state the `< 2^32` hypotheses they need.

  Mathlib-free.
-/

namespace Lyon.Tess

/-- `GeometryBuilderError` -/
inductive GErr where
  | invalidVertex
  | tooManyVertices
deriving Repr, BEq, DecidableEq, Inhabited

/-- `TessellationError` (payloads of the variants that the protocol does not inspect are numbers). -/
inductive TErr where
  | unsupported (which : Nat)
  | geometryBuilder (e : GErr)
  | internal (code : Nat)
deriving Repr, BEq, DecidableEq, Inhabited

/-- `Result<VertexId, GeometryBuilderError>` -/
inductive VRes where
  | ok (id : Nat)
  | error (e : GErr)
deriving Repr, BEq, DecidableEq, Inhabited

/-- `type Index = u32` : modulus of `as Index`. -/
def idxMod : Nat := 4294967296

/-- `VertexId::INVALID = VertexId(u32::MAX)` -/
def invalidId : Nat := 4294967295

/-- The types with an `impl MaxIndex`. -/
inductive IndexTy where
  | u8 | i8 | u16 | i16 | u32 | i32 | u64 | i64 | usize | isize
deriving Repr, BEq, DecidableEq, Inhabited

/-- `<T as MaxIndex>::MAX` -/
def IndexTy.max : IndexTy → Nat
  | .u8 => 255
  | .i8 => 127
  | .u16 => 65535
  | .i16 => 32767
  | .u32 => 4294967295
  | .i32 => 2147483647
  | .u64 => 4294967295
  | .i64 => 4294967295
  | .usize => 4294967295
  | .isize => 4294967295

/-- Number of distinct values of the type = modulus of an `as` cast to it (64-bit target). -/
def IndexTy.modulus : IndexTy → Nat
  | .u8 | .i8 => 256
  | .u16 | .i16 => 65536
  | .u32 | .i32 => 4294967296
  | .u64 | .i64 | .usize | .isize => 18446744073709551616

/-- Largest non-negative value of the type. -/
def IndexTy.maxValue : IndexTy → Nat
  | .u8 => 255
  | .i8 => 127
  | .u16 => 65535
  | .i16 => 32767
  | .u32 => 4294967295
  | .i32 => 2147483647
  | .u64 => 18446744073709551615
  | .i64 => 9223372036854775807
  | .usize => 18446744073709551615
  | .isize => 9223372036854775807

def IndexTy.all : List IndexTy := [.u8, .i8, .u16, .i16, .u32, .i32, .u64, .i64, .usize, .isize]

/-- What `BuffersBuilder` uses of its `OutputIndex` parameter. -/
structure IdxCfg where
  /-- `MaxIndex::MAX` -/
  max : Nat
  /-- `From<VertexId>` is `v.0 as T`: value modulo this -/
  modulus : Nat
deriving Repr, BEq, DecidableEq, Inhabited

def IndexTy.cfg (t : IndexTy) : IdxCfg := ⟨t.max, t.modulus⟩

/-- `VertexBuffers` -/
structure Buffers where
  vertices : List Nat
  indices : List Nat
deriving Repr, BEq, DecidableEq, Inhabited

/-- `BuffersBuilder` -/
structure BB where
  buf : Buffers
  firstVertex : Nat
  firstIndex : Nat
  vertexOffset : Nat
  cfg : IdxCfg
deriving Repr, BEq, DecidableEq, Inhabited

namespace BB

/-- `BuffersBuilder::new` -/
def new (buf : Buffers) (cfg : IdxCfg) : BB :=
  { buf := buf
    firstVertex := buf.vertices.length % idxMod
    firstIndex := buf.indices.length % idxMod
    vertexOffset := 0
    cfg := cfg }

/-- `with_vertex_offset` -/
def withVertexOffset (b : BB) (off : Nat) : BB := { b with vertexOffset := off }

/-- `begin_geometry` -/
def begin (b : BB) : BB :=
  { b with firstVertex := b.buf.vertices.length % idxMod
           firstIndex := b.buf.indices.length % idxMod }

/-- `(a + self.vertex_offset).into()` : `u32` addition (wraps in release builds, panics with
overflow checks — the harness never gets there), then `as OutputIndex`. -/
def conv (b : BB) (a : Nat) : Nat := ((a + b.vertexOffset) % idxMod) % b.cfg.modulus

/-- `add_triangle` -/
def addTriangle (b : BB) (x y z : Nat) : BB :=
  { b with buf := { b.buf with indices := b.buf.indices ++ [b.conv x, b.conv y, b.conv z] } }

/-- `abort_geometry` -/
def abort (b : BB) : BB :=
  { b with buf := { vertices := b.buf.vertices.take b.firstVertex
                    indices := b.buf.indices.take b.firstIndex } }

/-- `end_geometry` (default method: nothing) -/
def endG (b : BB) : BB := b

/-- The vertex is pushed first and the length is checked afterwards: a refused vertex stays in
the buffer until `abort_geometry`.  (`(len - 1) as Index` is exact: `len ≤ MAX ≤ u32::MAX`.) -/
def addVertex (b : BB) (payload : Nat) : BB × VRes :=
  let b' := { b with buf := { b.buf with vertices := b.buf.vertices ++ [payload] } }
  if b'.buf.vertices.length > b.cfg.max then (b', .error .tooManyVertices)
  else (b', .ok (b'.buf.vertices.length - 1))

end BB

/-- `NoOutput` -/
structure NoOut where
  nextVertex : Nat
deriving Repr, BEq, DecidableEq, Inhabited

def NoOut.addVertex (n : NoOut) : NoOut × VRes :=
  if n.nextVertex = 4294967295 then (n, .error .tooManyVertices)
  else (⟨n.nextVertex + 1⟩, .ok n.nextVertex)

/-- The builder interface as seen by a tessellator (`&mut dyn FillGeometryBuilder`). -/
structure Sink (σ : Type) where
  begin : σ → σ
  vertex : σ → Nat → σ × VRes
  tri : σ → Nat → Nat → Nat → σ
  endG : σ → σ
  abort : σ → σ

def bbSink : Sink BB :=
  { begin := BB.begin, vertex := BB.addVertex, tri := BB.addTriangle, endG := BB.endG, abort := BB.abort }

def noOutSink : Sink NoOut :=
  { begin := id, vertex := fun n _ => n.addVertex, tri := fun n _ _ _ => n, endG := id, abort := id }

/-- `InvertWinding<B>` -/
def Sink.invert {σ : Type} (S : Sink σ) : Sink σ :=
  { S with tri := fun s a b c => S.tri s a c b }

/-- Fault injector used by the correspondence harness: the `k`-th `add_*_vertex` call since
construction (1-based) is refused with `e` and not forwarded; `k = 0` never refuses.
State: inner state × number of vertex calls seen. -/
def Sink.refuseAt {σ : Type} (S : Sink σ) (k : Nat) (e : GErr) : Sink (σ × Nat) :=
  { begin := fun s => (S.begin s.1, s.2)
    vertex := fun s p =>
      if s.2 + 1 = k then ((s.1, s.2 + 1), .error e)
      else (((S.vertex s.1 p).1, s.2 + 1), (S.vertex s.1 p).2)
    tri := fun s a b c => (S.tri s.1 a b c, s.2)
    endG := fun s => (S.endG s.1, s.2)
    abort := fun s => (S.abort s.1, s.2) }

/-- What a recording geometry builder sees. -/
inductive Call where
  | begin
  /-- `add_*_vertex` and what it returned -/
  | vertex (r : VRes)
  | tri (a b c : Nat)
  | endG
  | abort
deriving Repr, BEq, DecidableEq, Inhabited

def Call.isBody : Call → Bool
  | .vertex _ => true
  | .tri _ _ _ => true
  | _ => false

def Call.isTerminator : Call → Bool
  | .endG => true
  | .abort => true
  | _ => false

/-- Direct use of a builder (what the `bb` family of the harness does): any call sequence. -/
inductive Op where
  | begin
  | vertex (payload : Nat)
  | tri (a b c : Nat)
  | endG
  | abort
deriving Repr, BEq, DecidableEq, Inhabited

/-- Run a call sequence against a sink, recording what each call returned. -/
def Sink.exec {σ : Type} (S : Sink σ) : List Op → σ → σ × List Call
  | [], s => (s, [])
  | .begin :: r, s => let x := S.exec r (S.begin s); (x.1, .begin :: x.2)
  | .vertex p :: r, s =>
      let y := S.vertex s p
      let x := S.exec r y.1
      (x.1, .vertex y.2 :: x.2)
  | .tri a b c :: r, s => let x := S.exec r (S.tri s a b c); (x.1, .tri a b c :: x.2)
  | .endG :: r, s => let x := S.exec r (S.endG s); (x.1, .endG :: x.2)
  | .abort :: r, s => let x := S.exec r (S.abort s); (x.1, .abort :: x.2)

end Lyon.Tess
