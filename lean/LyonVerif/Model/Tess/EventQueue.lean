/-
  `crates/tessellation/src/event_queue.rs`: the event queue of the fill tessellator as it is —
  two parallel arrays `events` / `edge_data` and an index-linked list threaded through `events`
  (`next_event` links the distinct positions in sweep order, `next_sibling` chains the events that
  share a position).

  Mirrors `EventQueue::{push_unsorted, push_unlinked, insert_sorted, insert_sibling,
  vertex_event_sorted, vertex_event_on_edge_sorted, insert_into_sorted_list, sort, merge_sort,
  merge, find_last_sibling, first_id, next_id, next_sibling_id, valid_id, position}` and
  `fill::compare_positions`.  The builder side (`EventQueueBuilder::{begin, line_segment, end,
  add_edge, vertex_event}`) is `Model/Tess/Sources.lean` (`Sources.Builder`, tied by C07); `ofRecs`
  turns its record list into the unsorted queue.

  Ids are `Nat`; `INVALID = u32::MAX`.  Loops are fuel-bounded; a loop that runs out of fuel
  (a cyclic list — possible only when an insertion precondition of the Rust code is violated)
  is reported through `Queue.fuelOut`.

  Mathlib-free.
-/
import LyonVerif.Model.Tess.Sources

namespace Lyon.EQ
open Lyon Lyon.Scalar

variable {α : Type} [Scalar α]

/-- `INVALID_EVENT_ID = u32::MAX` -/
def INVALID : Nat := 4294967295

/-- `fill::compare_positions` -/
def comparePositions (a b : P α) : Ordering :=
  if b.y < a.y then .gt
  else if a.y < b.y then .lt
  else if b.x < a.x then .gt
  else if a.x < b.x then .lt
  else .eq

/-- `Event { next_sibling, next_event, position }` -/
structure Event (α : Type) where
  nextSibling : Nat
  nextEvent : Nat
  pos : P α

/-- `EdgeData { to, range, winding, is_edge, from_id, to_id }` -/
structure EdgeData (α : Type) where
  to : P α
  t0 : α
  t1 : α
  winding : Int
  isEdge : Bool
  fromId : Nat
  toId : Nat

def Event.dflt : Event α := ⟨INVALID, INVALID, ⟨zero, zero⟩⟩
def EdgeData.dflt : EdgeData α := ⟨⟨zero, zero⟩, zero, zero, 0, false, INVALID, INVALID⟩

/-- `EventQueue { events, edge_data, first, sorted }` (+ a flag: some loop ran out of fuel) -/
structure Queue (α : Type) where
  events : Array (Event α)
  edgeData : Array (EdgeData α)
  first : Nat
  sorted : Bool
  fuelOut : Bool := false

namespace Queue

def empty : Queue α := ⟨#[], #[], INVALID, false, false⟩

def ev (q : Queue α) (id : Nat) : Event α := q.events.getD id Event.dflt
def ed (q : Queue α) (id : Nat) : EdgeData α := q.edgeData.getD id EdgeData.dflt

def validId (id : Nat) : Bool := id != INVALID
def firstId (q : Queue α) : Nat := q.first
def nextId (q : Queue α) (id : Nat) : Nat := (q.ev id).nextEvent
def nextSiblingId (q : Queue α) (id : Nat) : Nat := (q.ev id).nextSibling
def position (q : Queue α) (id : Nat) : P α := (q.ev id).pos

/-- generous loop bound for walks along the lists -/
def fuel (q : Queue α) : Nat := 2 * q.events.size + 8

def setNextEvent (evs : Array (Event α)) (id nx : Nat) : Array (Event α) :=
  evs.modify id (fun e => { e with nextEvent := nx })

def setNextSibling (evs : Array (Event α)) (id nx : Nat) : Array (Event α) :=
  evs.modify id (fun e => { e with nextSibling := nx })

/-- `push_unsorted(position)` followed by `edge_data.push(data)` (they always come in pairs) -/
def pushUnsorted (q : Queue α) (p : P α) (d : EdgeData α) : Queue α :=
  { q with events := q.events.push ⟨INVALID, INVALID, p⟩, edgeData := q.edgeData.push d }

/-- `push_unlinked`: returns the new id -/
def pushUnlinked (q : Queue α) (p : P α) (d : EdgeData α) : Queue α × Nat :=
  (q.pushUnsorted p d, q.events.size)

/-! ### `sort` -/

/-- `find_last_sibling` on the raw array -/
def findLastSibling (evs : Array (Event α)) : Nat → Nat → Nat
  | 0, id => id
  | f+1, id =>
    let nx := (evs.getD id Event.dflt).nextSibling
    if nx == INVALID then id else findLastSibling evs f nx

/-- the `loop` of `merge`; returns the array, `sorted_head`, and the value of `a` at exit -/
def mergeLoop : Nat → Array (Event α) → (a b : Nat) → (first : Bool) → (head prev : Nat) →
    Array (Event α) × Nat × Nat
  | 0, evs, a, _, _, head, _ => (evs, head, a)
  | f+1, evs, a, b, first, head, prev =>
    if a == INVALID then
      ((if first then evs else setNextEvent evs prev b), head, a)
    else if b == INVALID then
      ((if first then evs else setNextEvent evs prev a), head, a)
    else
      match comparePositions (evs.getD a Event.dflt).pos (evs.getD b Event.dflt).pos with
      | .lt =>
        let a' := (evs.getD a Event.dflt).nextEvent
        if first then mergeLoop f evs a' b false a a
        else mergeLoop f (setNextEvent evs prev a) a' b false head a
      | .gt =>
        let b' := (evs.getD b Event.dflt).nextEvent
        if first then mergeLoop f evs a b' false b b
        else mergeLoop f (setNextEvent evs prev b) a b' false head b
      | .eq =>
        -- add b to a's sibling list
        let aSib := findLastSibling evs (evs.size + 1) a
        let b' := (evs.getD b Event.dflt).nextEvent
        mergeLoop f (setNextSibling evs aSib b) a b' first head prev

/-- `merge(a, b)` -/
def merge (evs : Array (Event α)) (a b : Nat) : Array (Event α) × Nat :=
  if a == INVALID then (evs, b)
  else if b == INVALID then (evs, a)
  else
    let r := mergeLoop (2 * evs.size + 4) evs a b true INVALID INVALID
    (r.1, if r.2.1 == INVALID then r.2.2 else r.2.1)

/-- `merge_sort(range)` with `range = s..e` -/
def mergeSort (evs : Array (Event α)) (s e : Nat) : Array (Event α) × Nat :=
  let split := (s + e) / 2
  if _h : split = s then (evs, s)
  else if _h2 : e ≤ split then (evs, s)     -- unreachable for `s < e`; keeps the recursion well-founded
  else
    let ra := mergeSort evs s split
    let rb := mergeSort ra.1 split e
    merge rb.1 ra.2 rb.2
termination_by e - s
decreasing_by all_goals omega

/-- `sort()` -/
def sort (q : Queue α) : Queue α :=
  if q.events.size == 0 then { q with sorted := true }
  else
    let r := mergeSort q.events 0 q.events.size
    { q with sorted := true, events := r.1, first := r.2 }

/-! ### insertion into the sorted list -/

/-- the `while` of `insert_into_sorted_list`; `none` = out of fuel -/
def insertLoop (idx : Nat) (p : P α) : Nat → Array (Event α) → (prev current : Nat) →
    Option (Array (Event α))
  | 0, _, _, _ => none
  | f+1, evs, prev, current =>
    if current == INVALID then some (setNextEvent evs prev idx)
    else
      let pos := (evs.getD current Event.dflt).pos
      if pos == p then
        some (setNextSibling (setNextSibling evs idx (evs.getD current Event.dflt).nextSibling) current idx)
      else if Sources.isAfter pos p then
        some (setNextEvent (setNextEvent evs prev idx) idx current)
      else insertLoop idx p f evs current (evs.getD current Event.dflt).nextEvent

/-- `insert_into_sorted_list(idx, position, after)` -/
def insertIntoSortedList (q : Queue α) (idx : Nat) (p : P α) (after : Nat) : Queue α :=
  match insertLoop idx p q.fuel q.events after after with
  | some evs => { q with events := evs }
  | none => { q with fuelOut := true }

/-- `insert_sorted(position, data, after)`: returns the new id -/
def insertSorted (q : Queue α) (p : P α) (d : EdgeData α) (after : Nat) : Queue α × Nat :=
  let idx := q.events.size
  ((q.pushUnsorted p d).insertIntoSortedList idx p after, idx)

/-- `insert_sibling(sibling, position, data)` -/
def insertSibling (q : Queue α) (sibling : Nat) (p : P α) (d : EdgeData α) : Queue α :=
  let idx := q.events.size
  let nx := (q.ev sibling).nextSibling
  { q with events := setNextSibling (q.events.push ⟨nx, INVALID, p⟩) sibling idx,
           edgeData := q.edgeData.push d }

/-- `vertex_event_on_edge_sorted(position, t, from_id, to_id, after)` -/
def vertexEventOnEdgeSorted (q : Queue α) (p : P α) (t : α) (fromId toId after : Nat) : Queue α :=
  let idx := q.events.size
  (q.pushUnsorted p ⟨Sources.nanPoint, t, t, 0, false, fromId, toId⟩).insertIntoSortedList idx p after

/-- `vertex_event_sorted(position, endpoint_id, after)` -/
def vertexEventSorted (q : Queue α) (p : P α) (id after : Nat) : Queue α :=
  let idx := q.events.size
  (q.pushUnsorted p ⟨Sources.nanPoint, zero, zero, 0, false, id, id⟩).insertIntoSortedList idx p after

/-- the ids of the sibling list starting at `id`, in list order (`verif_siblings`) -/
def siblings (q : Queue α) : Nat → Nat → List Nat
  | 0, _ => []
  | f+1, id => if id == INVALID then [] else id :: siblings q f (q.nextSiblingId id)

/-- the heads of the sorted list starting at `id` (the distinct positions in sweep order) -/
def heads (q : Queue α) : Nat → Nat → List Nat
  | 0, _ => []
  | f+1, id => if id == INVALID then [] else id :: heads q f (q.nextId id)

/-- the unsorted queue holding the builder's records (`EventQueueBuilder` → `queue`) -/
def ofRecs (recs : List (Sources.EdgeRec α)) : Queue α :=
  recs.foldl (fun q r => q.pushUnsorted r.pos ⟨r.to, r.t0, r.t1, r.winding, r.isEdge, r.fromId, r.toId⟩) empty

/-- the queue as a list of sibling groups (ids), in sweep order: what the linked lists enumerate -/
def groups (q : Queue α) : List (List Nat) :=
  (q.heads q.fuel q.first).map (q.siblings q.fuel)

end Queue

/-! ### list-level specification of `sort`

`merge` / `merge_sort` seen on what the index-linked lists ENUMERATE: a sorted list is a list of
sibling groups, each the ids that share a position, in sibling-list order.  `Props/Sweep.lean`
proves `merge_sort_sorted_perm` for this specification; that the pointer-level `Queue.sort`
enumerates exactly `Spec.sort` is checked on every explored case (`Sweep.tessellate` reports
`unmodelled sort-spec-mismatch` otherwise) — it is not a theorem. -/
namespace Spec

/-- `merge(a, b)` on group lists: the smaller head group goes first; on equal positions `b`'s
group is appended to `a`'s sibling list (`find_last_sibling(a).next_sibling = b`) and `a` stays
the candidate. -/
def mergeG (pos : Nat → P α) : List (List Nat) → List (List Nat) → List (List Nat)
  | [], lb => lb
  | la, [] => la
  | ga :: ra, gb :: rb =>
    match comparePositions (pos (ga.headD 0)) (pos (gb.headD 0)) with
    | .lt => ga :: mergeG pos ra (gb :: rb)
    | .gt => gb :: mergeG pos (ga :: ra) rb
    | .eq => mergeG pos ((ga ++ gb) :: ra) rb
termination_by la lb => la.length + lb.length

/-- `merge_sort(s..e)` on group lists -/
def mergeSortG (pos : Nat → P α) (s e : Nat) : List (List Nat) :=
  let split := (s + e) / 2
  if _h : split = s then [[s]]
  else if _h2 : e ≤ split then [[s]]
  else mergeG pos (mergeSortG pos s split) (mergeSortG pos split e)
termination_by e - s
decreasing_by all_goals omega

/-- `sort()` on group lists -/
def sort (pos : Nat → P α) (n : Nat) : List (List Nat) :=
  if n = 0 then [] else mergeSortG pos 0 n

end Spec

end Lyon.EQ
