/-
  C07 — where fill vertices come from: the edge records of the fill tessellator's event queue
  and everything that reads or rewrites their `t`-ranges.

  Mirrors (crates/tessellation/src)
  * event_queue.rs  `EdgeData{to, range, winding, is_edge, from_id, to_id}`, `add_edge`,
                    `vertex_event`, `vertex_event_on_curve`, `EventQueueBuilder::{begin,
                    line_segment, end, quadratic_bezier_segment, cubic_bezier_segment}`
                    (the flattening of a curve is an input: a list of pieces `(from, to, t0, t1)`);
  * fill.rs         `remap_t_in_range`, the range bookkeeping of `process_intersection`,
                    `merge_coincident_edges`, the `edges_to_split` branch of
                    `process_edges_above`, `initialize_events`/`update_active_edges` (pending →
                    active), `VertexSourceIterator`, `FillVertex::{as_endpoint_id,
                    interpolated_attributes}`;
  * lib.rs          `VertexSource`.

  The sweep itself is not modelled: the functions below are the operations on edge RECORDS.
  A record stands for the part `range.start .. range.end` of its source edge `from_id → to_id`;
  its event position is the point at `range.start`, `to` the point at `range.end`.

  The model mirrors the code as it is.  Three former defects are repaired in /repo and the model
  mirrors the repaired code: `curveSegment` (fix 8662f1bc: parameters of the original curve for a
  curve flattened from its end), `mergeCoincident` (fix 456c058b: split parameter solved along the
  larger extent) and `splitAtVertex` (fix 6bc52f98: the lower part of an edge split at a vertex
  gets its own edge data starting at the split parameter).

  Mathlib-free.
-/
import LyonVerif.Model.Scalar

namespace Lyon.Sources
open Lyon Lyon.Scalar

variable {α : Type} [Scalar α]

/-- `EdgeData` together with the position of its event. -/
structure EdgeRec (α : Type) where
  pos : P α
  to : P α
  /-- `range.start` -/
  t0 : α
  /-- `range.end` -/
  t1 : α
  winding : Int
  isEdge : Bool
  fromId : Nat
  toId : Nat

/-- fill.rs `is_after`: `a.y > b.y || (a.y == b.y && a.x > b.x)` -/
def isAfter (a b : P α) : Bool :=
  decide (b.y < a.y) || (a.y == b.y && decide (b.x < a.x))

/-- fill.rs `remap_t_in_range(val, range)` with `range = s..e` -/
def remapT (val s e : α) : α :=
  if s < e then s + val * (e - s)
  else e + (one - val) * (s - e)

/-- `point(f32::NAN, f32::NAN)` (only ever printed or compared on floats) -/
def nanPoint : P α := ⟨zero / zero, zero / zero⟩

/-- event_queue.rs `add_edge`: `none` when the edge is degenerate; a downward edge is stored as
is, an upward edge with ends, `t`-range swapped and winding negated. The endpoint ids are never
swapped. -/
def addEdge (a b : P α) (winding : Int) (fromId toId : Nat) (t0 t1 : α) : Option (EdgeRec α) :=
  if a == b then none
  else if isAfter a b then some ⟨b, a, t1, t0, -winding, true, fromId, toId⟩
  else some ⟨a, b, t0, t1, winding, true, fromId, toId⟩

/-- event_queue.rs `vertex_event` -/
def vertexEvent (p : P α) (id : Nat) : EdgeRec α :=
  ⟨p, nanPoint, zero, zero, 0, false, id, id⟩

/-- event_queue.rs `vertex_event_on_curve` -/
def vertexEventOnCurve (p : P α) (t : α) (fromId toId : Nat) : EdgeRec α :=
  ⟨p, nanPoint, t, t, 0, false, fromId, toId⟩

/-! ### `EventQueueBuilder` -/

/-- The builder's state; `recs` holds the stored records, newest first. -/
structure Builder (α : Type) where
  current : P α
  prev : P α
  second : P α
  nth : Nat
  prevId : Nat
  recs : List (EdgeRec α)

def Builder.init : Builder α := ⟨nanPoint, nanPoint, nanPoint, 0, 4294967295, []⟩

/-- push the result of `add_edge` (`nth` counts the stored edges of the sub-path) -/
def Builder.pushEdge (b : Builder α) (e : Option (EdgeRec α)) : Builder α :=
  match e with
  | none => b
  | some r => { b with recs := r :: b.recs, nth := b.nth + 1 }

def Builder.pushRec (b : Builder α) (r : EdgeRec α) : Builder α := { b with recs := r :: b.recs }

/-- `begin(to, to_id)` -/
def Builder.begin (b : Builder α) (p : P α) (id : Nat) : Builder α :=
  { b with nth := 0, current := p, prevId := id }

/-- `line_segment(to, to_id, t0, t1)` -/
def Builder.lineSegment (b : Builder α) (p : P α) (toId : Nat) (t0 t1 : α) : Builder α :=
  let a := b.current
  if a == p then b else
  let b1 := if isAfter a p && decide (0 < b.nth) && isAfter a b.prev
            then b.pushRec (vertexEvent a b.prevId) else b
  let b2 := if b1.nth = 0 then { b1 with second := p } else b1
  let b3 := b2.pushEdge (addEdge a p 1 b2.prevId toId t0 t1)
  { b3 with prev := b3.current, prevId := toId, current := p }

/-- the tail of `end` after the closing `line_segment` -/
def Builder.endTail (b : Builder α) (first : P α) (firstId : Nat) : Builder α :=
  let b1 := if isAfter first b.prev && isAfter first b.second
            then b.pushRec (vertexEvent first firstId) else b
  { b1 with prevId := firstId, nth := 0 }

/-- `end(first, first_endpoint_id)` -/
def Builder.endSub (b : Builder α) (first : P α) (firstId : Nat) : Builder α :=
  if b.nth = 0 then b
  else (b.lineSegment first firstId zero one).endTail first firstId

/-- one piece of a flattened curve: the callback arguments `(line, t)` of
`for_each_flattened_with_t` -/
structure Piece (α : Type) where
  a : P α
  b : P α
  t0 : α
  t1 : α

/-- loop state of the flattening callback in `quadratic_bezier_segment` / `cubic_bezier_segment` -/
structure CurveLoop (α : Type) where
  bld : Builder α
  prev : P α
  first : Option (P α)

/-- the parameter stored for a piece: the flattening's own, or — for a curve flattened from its
end (`needs_swap`, fix 8662f1bc) — `1.0 - t`, the parameter of the original curve -/
def pieceT (needsSwap : Bool) (t : α) : α := if needsSwap then one - t else t

/-- one call of the flattening callback -/
def curveStep (needsSwap : Bool) (winding : Int) (toId : Nat) (s : CurveLoop α) (l : Piece α) :
    CurveLoop α :=
  if l.a == l.b then s else
  let b1 := if s.first.isSome && isAfter l.a l.b && isAfter l.a s.prev
            then s.bld.pushRec (vertexEventOnCurve l.a (pieceT needsSwap l.t0) s.bld.prevId toId)
            else s.bld
  let b2 := b1.pushEdge (addEdge l.a l.b winding b1.prevId toId
    (pieceT needsSwap l.t0) (pieceT needsSwap l.t1))
  ⟨b2, l.a, if s.first.isSome then s.first else some l.b⟩

/-- the part of the curve builders after the flattening loop -/
def curveTail (b0 : Builder α) (s : CurveLoop α) (from_ to : P α) (toId : Nat) (needsSwap : Bool) :
    Builder α :=
  match s.first with
  | none => s.bld
  | some first =>
    let second := if needsSwap then s.prev else first
    let previous := if needsSwap then first else s.prev
    let b1 := if b0.nth = 0 then { s.bld with second := second }
              else if isAfter from_ s.bld.prev && isAfter from_ second
              then s.bld.pushRec (vertexEvent from_ s.bld.prevId) else s.bld
    { b1 with prev := previous, current := to, prevId := toId }

/-- `quadratic_bezier_segment` / `cubic_bezier_segment`: the curve is flattened from its upper
end (`needs_swap`: the flattening of the FLIPPED curve is used, winding −1), and the pieces are
stored with the parameters of the ORIGINAL curve (`1 - t` of the flipped flattening, since fix
8662f1bc) and the endpoint ids `prev_endpoint_id → to_id` of the original curve.
`flat` / `flatFlipped`: the flattening of the curve / of the flipped curve. -/
def Builder.curveSegment (b : Builder α) (to : P α) (toId : Nat) (flat flatFlipped : List (Piece α)) :
    Builder α :=
  let from_ := b.current
  let needsSwap := isAfter from_ to
  let start := if needsSwap then to else from_
  let s := (if needsSwap then flatFlipped else flat).foldl
    (curveStep needsSwap (if needsSwap then -1 else 1) toId) ⟨b, start, none⟩
  curveTail b s from_ to toId needsSwap

/-! ### The sweep's edges: pending (`PendingEdge`) and active (`ActiveEdge`) -/

/-- `PendingEdge{to, src_edge, winding, range_end}` starting at the current position; `src` is the
current content of `edge_data[src_edge]`. -/
structure Pending (α : Type) where
  to : P α
  src : EdgeRec α
  winding : Int
  rangeEnd : α

/-- `ActiveEdge{from, to, winding, src_edge, range_end}` -/
structure Active (α : Type) where
  from_ : P α
  to : P α
  winding : Int
  src : EdgeRec α
  rangeEnd : α

/-- `initialize_events`: an edge record of the current event becomes a pending edge -/
def pendingOf (r : EdgeRec α) : Pending α := ⟨r.to, r, r.winding, r.t1⟩

/-- `update_active_edges`: a pending edge becomes active, starting at the current position -/
def activate (cur : P α) (p : Pending α) : Active α := ⟨cur, p.to, p.winding, p.src, p.rangeEnd⟩

/-- `process_intersection`, active edge, general case (`current_position ≠ intersection`): the
edge is truncated at `ip`; the cut-off part becomes a new record (flipped when `ip` is after
the edge's lower end). -/
def cutActive (a : Active α) (ta : α) (ip : P α) : Active α × Option (EdgeRec α) :=
  if a.to == ip || a.from_ == ip then (a, none) else
  let remapped := remapT ta a.src.t0 a.rangeEnd
  let r : EdgeRec α :=
    if isAfter a.to ip then ⟨ip, a.to, remapped, a.rangeEnd, a.winding, true, a.src.fromId, a.src.toId⟩
    else ⟨a.to, ip, a.rangeEnd, remapped, -a.winding, true, a.src.fromId, a.src.toId⟩
  ({ a with to := ip, rangeEnd := remapped }, some r)

/-- `process_intersection`, the new edge below the current position -/
def cutBelow (cur : P α) (b : Pending α) (tb : α) (ip : P α) : Pending α × Option (EdgeRec α) :=
  if b.to == ip || cur == ip then (b, none) else
  let remapped := remapT tb b.src.t0 b.rangeEnd
  let r : EdgeRec α :=
    if isAfter b.to ip then ⟨ip, b.to, remapped, b.rangeEnd, b.winding, true, b.src.fromId, b.src.toId⟩
    else ⟨b.to, ip, b.rangeEnd, remapped, -b.winding, true, b.src.fromId, b.src.toId⟩
  ({ b with to := ip, rangeEnd := remapped }, some r)

/-- `process_intersection`, `current_position == intersection_position`: the active edge now
starts at the intersection and its source record's `range.start` is rewritten. -/
def touchActive (a : Active α) (ta : α) (ip : P α) : Active α :=
  { a with from_ := ip, src := { a.src with t0 := remapT ta a.src.t0 a.rangeEnd } }

/-- lyon_geom `LineSegment::solve_t_for_y` -/
def solveTForY (a b : P α) (y : α) : α :=
  if b.y - a.y == zero then zero else (y - a.y) / (b.y - a.y)

/-- lyon_geom `LineSegment::solve_t_for_x` -/
def solveTForX (a b : P α) (x : α) : α :=
  if b.x - a.x == zero then zero else (x - a.x) / (b.x - a.x)

/-- the split parameter of `merge_coincident_edges`: solved along the larger extent of the edge
(fix 456c058b; before: always `solve_t_for_y`) -/
def splitT (cur dest splitPoint : P α) : α :=
  if abs (dest.y - cur.y) < abs (dest.x - cur.x) then solveTForX cur dest splitPoint.x
  else solveTForY cur dest splitPoint.y

/-- the split parameter of `process_edges_above` (`edges_to_split`) since lyon fix "split parameters stay
inside the edge": along the larger extent of the edge, but along x only when that parameter is in `[0,1]`
(`is_edge_connecting` accepts a vertex up to the threshold beyond the x-extent of a flat edge); otherwise
at the vertex's own y, clamped (`solve_t_for_y(..).max(0.0).min(1.0)`) -/
def splitTAtVertex (from_ to cur : P α) : α :=
  if abs (to.y - from_.y) < abs (to.x - from_.x) then
    (if zero ≤ solveTForX from_ to cur.x ∧ solveTForX from_ to cur.x ≤ one then solveTForX from_ to cur.x
     else Scalar.min (Scalar.max (solveTForY from_ to cur.y) zero) one)
  else solveTForY from_ to cur.y

/-- `process_edges_above`, `edges_to_split`: the current position lies on the active edge. The
upper part ends here; the lower part is pushed as a pending edge with its OWN edge data
(`push_unlinked`, fix 6bc52f98): a copy of the source record whose `range.start` is the split
parameter — located along the larger extent of the active edge and remapped into the record's
range. (Before the fix the lower part shared the source record and kept its stale `range.start`.) -/
def splitAtVertex (cur : P α) (a : Active α) : Active α × Pending α :=
  let t := splitT a.from_ a.to cur
  let src : EdgeRec α := { a.src with pos := cur, t0 := remapT t a.src.t0 a.rangeEnd }
  ({ a with to := cur }, ⟨a.to, src, a.winding, a.rangeEnd⟩)

/-- `merge_coincident_edges` (`split = true`): the longer of two coincident pending edges is
removed and its part beyond the shorter one's end `splitPoint` becomes a new record. -/
def mergeCoincident (cur : P α) (lower : Pending α) (splitPoint : P α) : EdgeRec α :=
  let t := splitT cur lower.to splitPoint
  ⟨splitPoint, lower.to, remapT t lower.src.t0 lower.rangeEnd, lower.rangeEnd, lower.winding, true,
    lower.src.fromId, lower.src.toId⟩

/-! ### `VertexSource`, `VertexSourceIterator`, `FillVertex` -/

inductive Source (α : Type) where
  | endpoint (id : Nat)
  | edge (fromId toId : Nat) (t : α)

/-- derived `PartialEq` of `VertexSource` -/
def Source.beq : Source α → Source α → Bool
  | .endpoint a, .endpoint b => a == b
  | .edge a b t, .edge c d u => a == c && b == d && t == u
  | _, _ => false

/-- the source a record stands for (`VertexSourceIterator::next`, body of the loop) -/
def sourceOf (r : EdgeRec α) : Source α :=
  if r.t0 == zero then .endpoint r.fromId
  else if r.t0 == one then .endpoint r.toId
  else .edge r.fromId r.toId r.t0

/-- `VertexSourceIterator` over a sibling list: consecutive equal sources are reported once -/
def sourcesFrom : Option (Source α) → List (EdgeRec α) → List (Source α)
  | _, [] => []
  | prev, r :: rs =>
    match prev with
    | none => sourceOf r :: sourcesFrom (some (sourceOf r)) rs
    | some p =>
      if Source.beq (sourceOf r) p then sourcesFrom prev rs
      else sourceOf r :: sourcesFrom (some (sourceOf r)) rs

/-- `FillVertex::sources()` -/
def sources (rs : List (EdgeRec α)) : List (Source α) := sourcesFrom none rs

/-- `FillVertex::as_endpoint_id()` -/
def asEndpointId : List (EdgeRec α) → Option Nat
  | [] => none
  | r :: rs =>
    if r.t0 == zero then some r.fromId
    else if r.t0 == one then some r.toId
    else asEndpointId rs

/-- what one source contributes to attribute `i`: the endpoint's value, or
`a[i] * (1.0 - t) + b[i] * t` -/
def srcAttr (store : Nat → Nat → α) (i : Nat) : Source α → α
  | .endpoint id => store id i
  | .edge f t u => store f i * (one - u) + store t i * u

/-- `FillVertex::interpolated_attributes()`, component `i` (`store id i` = attribute `i` of
endpoint `id`): single-endpoint fast path, otherwise the contributions are accumulated in source
order and divided by their number (`div` is counted in floats, as in the code). -/
def interpAttr (store : Nat → Nat → α) (rs : List (EdgeRec α)) (i : Nat) : α :=
  match sources rs with
  | [] => zero
  | [.endpoint id] => store id i
  | first :: rest =>
    let acc := rest.foldl (fun b s => b + srcAttr store i s) (srcAttr store i first)
    let div := rest.foldl (fun d _ => d + one) (one : α)
    if one < div then acc / div else acc

end Lyon.Sources
