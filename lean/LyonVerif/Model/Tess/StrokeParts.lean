/-
  Component models of `crates/tessellation/src/stroke.rs` and `math_utils.rs` (property C05).

  Modelled, expression by expression (operand order included, the tie is bit-level):
    StrokeVertexData / StrokeVertex::{position, normal, position_on_path, line_width,
      advancement, side, source, interpolated_attributes}
    math_utils::compute_normal, miter_limit_is_exceeded, circle_flattening_step (the one of
      stroke.rs: `2·acos((r − tol)/r)`; basic_shapes.rs has a different function of the same name,
      modelled in `Model/Tess/BasicShapes.lean`)
    add_edge_triangles, add_join_base_vertices, tessellate_join, tessellate_round_join,
    tessellate_arc, tessellate_round_cap, tessellate_empty_square_cap, tessellate_empty_round_cap
    PointBuffer::{new, push, replace_last, clear, count, get, get_reverse, last, last_two_mut}
    square_merge_threshold (StrokeBuilderImpl::new), points_are_too_close and the merge rule at
      the head of step_impl / fixed_width_step_impl (the window automaton for polylines)

  NOT modelled: compute_join_side_positions(_fixed_width), flattened_step, the clipping of caps,
  get_clip_intersections, close()'s fix-ups, curve flattening: the join/cap *geometry* as a
  whole.  The end-to-end claims of C05 are carried by the oracle on the real code.

  `vertex: &mut StrokeVertexData` is threaded through the Rust functions; every emission site
  assigns the fields it does not inherit from its caller immediately before `add_stroke_vertex`,
  so the model passes the record down by value (`VData`) and does not thread it back up.

  Mathlib-free: this file is linked into the native model driver.
-/
import LyonVerif.Model.Scalar
import LyonVerif.Model.Geom.SvgArc

namespace Lyon.Stroke
open Lyon Scalar

variable {α : Type} [Scalar α]

/-! ## StrokeVertexData and the accessors of StrokeVertex -/

inductive Side where
  | positive
  | negative
deriving DecidableEq, Repr

def Side.opposite : Side → Side
  | .positive => .negative
  | .negative => .positive

/-- `VertexSource` (endpoint ids as naturals) -/
inductive Src (α : Type) where
  | endpoint (id : Nat)
  | edge (from_ to : Nat) (t : α)

/-- `StrokeVertexData` without the attribute buffer (see `interpolatedAttributes`) -/
structure VData (α : Type) where
  positionOnPath : P α
  halfWidth : α
  normal : P α
  advancement : α
  side : Side
  src : Src α

/-- what a `StrokeVertexConstructor` can read from a `StrokeVertex` -/
structure Vtx (α : Type) where
  position : P α
  normal : P α
  positionOnPath : P α
  lineWidth : α
  advancement : α
  side : Side
  src : Src α

namespace VData
/-- `StrokeVertex::position`: `position_on_path + normal * half_width` -/
def position (d : VData α) : P α := d.positionOnPath + d.normal.smul d.halfWidth
/-- `StrokeVertex::line_width`: `half_width * 2.0` -/
def lineWidth (d : VData α) : α := d.halfWidth * two
/-- all accessors read at one `add_stroke_vertex` call -/
def read (d : VData α) : Vtx α :=
  ⟨d.position, d.normal, d.positionOnPath, d.lineWidth, d.advancement, d.side, d.src⟩
end VData

/-- the interpolation loop of `interpolated_attributes`: `a[i] * (1.0 - t) + b[i] * t` over the
buffer (whose length is the number of attributes; `a`, `b` have that length) -/
def lerpAttributes (a b : List α) (t : α) : List α :=
  List.zipWith (fun x y => x * (one - t) + y * t) a b

/-- `StrokeVertex::interpolated_attributes` with the attribute store as a function.  The cached
buffer (`buffer_is_valid`) returns the same list on a second call: see `interpolatedTwice`. -/
def interpolatedAttributes (store : Nat → List α) : Src α → List α
  | .endpoint id => store id
  | .edge f t u => lerpAttributes (store f) (store t) u

/-- first and second call on the same vertex: the second call returns the buffer if the first
one filled it (edge source), else reads the store again -/
def interpolatedTwice (store : Nat → List α) (s : Src α) : List α × List α :=
  (interpolatedAttributes store s, interpolatedAttributes store s)

/-! ## math_utils::compute_normal, miter_limit_is_exceeded, circle_flattening_step -/

section
variable [Transc α]

/-- `1e-4` -/
def normalEpsilon : α := ofSci 1 4

/-- euclid `Vector2D::normalize`: `self / self.length()` -/
def normalize (v : P α) : P α := v.sdiv (Transc.sqrt v.sqLen)

def perp (v : P α) : P α := ⟨-v.y, v.x⟩

/-- the tail of `compute_normal` once `v12` passed the first guard -/
def computeNormalTail (n1 v12 : P α) : P α :=
  let n := perp (normalize v12)
  let invLen := n.dot n1
  if abs invLen < normalEpsilon then n1 else n.sdiv invLen

/-- `math_utils::compute_normal` -/
def computeNormal (v1 v2 : P α) : P α :=
  let n1 := perp v1
  let v12 := v1 + v2
  if v12.sqLen < normalEpsilon then ⟨zero, zero⟩ else computeNormalTail n1 v12

/-- `miter_limit_is_exceeded`: `normal.square_length() > miter_limit * miter_limit * 4.0` -/
def miterLimitIsExceeded (normal : P α) (miterLimit : α) : Bool :=
  decide (normal.sqLen > miterLimit * miterLimit * four)

/-- stroke.rs `circle_flattening_step`: `tolerance = min(tolerance, radius);
2.0 * ((radius - tolerance) / radius).acos()` -/
def circleFlatteningStep (radius tolerance : α) : α :=
  let tol := Scalar.min tolerance radius
  two * Transc.acos ((radius - tol) / radius)

/-- `f32::round` (half away from zero) from `floor`; `x - floor x` is exact in IEEE arithmetic.
(Used by the subdivision count before /repo fix da84e187; kept for reference, no longer called.) -/
def roundPos (x : α) : α :=
  let f := Transc.floor x
  if x - f ≥ half then f + one else f
def round (x : α) : α := if x < zero then -(roundPos (-x)) else roundPos x

/-- `x as u32` (saturating) -/
def toU32 (x : α) : Nat := Nat.min (Transc.toNat x) 4294967295

/-- `num_segments = (diff.abs() / step).ceil()` -/
def numSegments (diff radius tolerance : α) : α :=
  Transc.ceil (abs diff / circleFlatteningStep radius tolerance)

/-- `num_subdivisions = num_segments.log2().ceil() as u32` (round joins and round caps; the
ceiling is /repo fix da84e187, before it was `.round()`) -/
def numSubdivisions (diff radius tolerance : α) : Nat :=
  toU32 (Transc.ceil (Transc.log2 (numSegments diff radius tolerance)))

end

/-- `⌈log₂ n⌉` on naturals (0 for `n ≤ 1`): what `.log2().ceil() as u32` computes for an
integer-valued segment count `n` in exact arithmetic -/
def ceilLog2 (n : Nat) : Nat := if n ≤ 1 then 0 else Nat.log2 (n - 1) + 1

/-! ## Output recording (`StrokeGeometryBuilder` handing out consecutive ids) -/

abbrev Tri := Nat × Nat × Nat

structure Out (α : Type) where
  nextId : Nat
  verts : List (VData α)
  tris : List Tri

namespace Out
def empty (next : Nat) : Out α := ⟨next, [], []⟩
/-- `add_stroke_vertex`: record the vertex data, return the fresh id -/
def addVertex (o : Out α) (d : VData α) : Out α := ⟨o.nextId + 1, o.verts ++ [d], o.tris⟩
def addTri (o : Out α) (t : Tri) : Out α := ⟨o.nextId, o.verts, o.tris ++ [t]⟩
def addTris (o : Out α) (t : List Tri) : Out α := ⟨o.nextId, o.verts, o.tris ++ t⟩
end Out

/-! ## add_edge_triangles -/

/-- the part of `EndpointData` the id logic reads: `side_points[s].{prev,next}_vertex`, `fold` -/
structure JoinIds where
  posPrev : Nat
  posNext : Nat
  negPrev : Nat
  negNext : Nat
  foldPos : Bool
  foldNeg : Bool
deriving Repr

def edgeP0Neg (p0 : JoinIds) : Nat := if p0.foldPos then p0.posPrev else p0.negNext
def edgeP0Pos (p0 : JoinIds) : Nat := if p0.foldNeg then p0.negPrev else p0.posNext
def edgeP1Neg (p1 : JoinIds) : Nat := if p1.foldPos then p1.posNext else p1.negPrev
def edgeP1Pos (p1 : JoinIds) : Nat := if p1.foldNeg then p1.negNext else p1.posPrev

def edgeTri1 (a b c : Nat) : List Tri := if a ≠ b ∧ b ≠ c then [(a, b, c)] else []
def edgeTri2 (a c d : Nat) : List Tri := if a ≠ d ∧ c ≠ d then [(a, c, d)] else []

/-- `add_edge_triangles` with the issue_894 guards -/
def addEdgeTriangles (p0 p1 : JoinIds) : List Tri :=
  if edgeP0Neg p0 = edgeP1Pos p1 then []
  else edgeTri1 (edgeP0Neg p0) (edgeP0Pos p0) (edgeP1Pos p1)
    ++ edgeTri2 (edgeP0Neg p0) (edgeP1Pos p1) (edgeP1Neg p1)

/-! ## tessellate_arc -/

section
variable [Transc α]

/-- `tessellate_arc`: vertex at the mid angle, triangle `(va, v, vb)`, recurse left then right -/
def tessellateArc (a0 a1 : α) (va vb : Nat) : Nat → VData α → Out α → Out α
  | 0, _, o => o
  | n+1, d, o =>
    let mid := (a0 + a1) * half
    let d1 : VData α := { d with normal := ⟨Transc.cos mid, Transc.sin mid⟩ }
    let v := o.nextId
    let o1 := (o.addVertex d1).addTri (va, v, vb)
    let o2 := tessellateArc a0 mid va v n d1 o1
    tessellateArc mid a1 v vb n d1 o2

/-! ## add_join_base_vertices, tessellate_join, tessellate_round_join -/

/-- one side of a join: `SidePoints` -/
structure SideGeom (α : Type) where
  prev : P α
  next : P α
  single : Option (P α)
  prevVertex : Nat
  nextVertex : Nat

/-- the part of `EndpointData` read by the join functions -/
structure Join (α : Type) where
  position : P α
  halfWidth : α
  /-- `line_join == LineJoin::Round` -/
  round : Bool
  pos : SideGeom α
  neg : SideGeom α
  foldPos : Bool
  foldNeg : Bool

def Join.ids (j : Join α) : JoinIds :=
  ⟨j.pos.prevVertex, j.pos.nextVertex, j.neg.prevVertex, j.neg.nextVertex, j.foldPos, j.foldNeg⟩

/-- `(p - join.position) / join.half_width` -/
def joinNormal (j : Join α) (p : P α) : P α := (p - j.position).sdiv j.halfWidth

/-- `add_join_base_vertices` for one side: one vertex if the side has a single vertex, else the
`prev` and the `next` vertex; returns the updated side -/
def baseVerticesSide (j : Join α) (s : SideGeom α) (d : VData α) (o : Out α) : SideGeom α × Out α :=
  match s.single with
  | some p =>
    ({ s with prevVertex := o.nextId, nextVertex := o.nextId },
     o.addVertex { d with normal := joinNormal j p })
  | none =>
    ({ s with prevVertex := o.nextId, nextVertex := o.nextId + 1 },
     (o.addVertex { d with normal := joinNormal j s.prev }).addVertex { d with normal := joinNormal j s.next })

/-- the two `add_join_base_vertices` calls of the step functions: negative side first -/
def addJoinBaseVertices (j : Join α) (d : VData α) (o : Out α) : Join α × Out α :=
  let (n', o1) := baseVerticesSide j j.neg { d with side := .negative } o
  let (p', o2) := baseVerticesSide j j.pos { d with side := .positive } o1
  ({ j with neg := n', pos := p' }, o2)

/-- `side_needs_join` -/
def needsJoinPos (j : Join α) : Bool := j.pos.single.isNone && !j.foldNeg
def needsJoinNeg (j : Join α) : Bool := j.neg.single.isNone && !j.foldPos

/-- the interior triangles of `tessellate_join` -/
def joinInterior (i : JoinIds) (needPos needNeg : Bool) : List Tri :=
  if !i.foldPos && !i.foldNeg then
    match needPos, needNeg with
    | true, true => [(i.posPrev, i.posNext, i.negNext), (i.posPrev, i.negNext, i.negPrev)]
    | false, true => [(i.negPrev, i.posPrev, i.negNext)]
    | true, false => [(i.negPrev, i.posPrev, i.posNext)]
    | false, false => []
  else []

def adjustDiff (diff sign : α) : α :=
  if diff * sign < zero then sign * (two * Transc.pi - abs diff) else diff

/-- `tessellate_round_join` for one side (`isNeg`: the side is SIDE_NEGATIVE) -/
def tessellateRoundJoin (j : Join α) (isNeg : Bool) (tolerance : α) (d : VData α) (o : Out α) : Out α :=
  let s := if isNeg then j.neg else j.pos
  let startNormal := s.prev - j.position
  let endNormal := s.next - j.position
  let sign : α := if isNeg then one else -one
  let startAngle := ArcConv.angleFromXAxis startNormal
  let diff := adjustDiff (ArcConv.angleAngleTo startAngle (ArcConv.angleFromXAxis endNormal)) sign
  let endAngle := startAngle + diff
  let n := numSubdivisions diff j.halfWidth tolerance
  let d1 : VData α := { d with side := if isNeg then .negative else .positive }
  if isNeg then tessellateArc endAngle startAngle s.nextVertex s.prevVertex n d1 o
  else tessellateArc startAngle endAngle s.prevVertex s.nextVertex n d1 o

def roundJoinIf (c : Bool) (j : Join α) (isNeg : Bool) (tolerance : α) (d : VData α) (o : Out α) : Out α :=
  if c then tessellateRoundJoin j isNeg tolerance d o else o

/-- `tessellate_join` -/
def tessellateJoin (j : Join α) (tolerance : α) (d : VData α) (o : Out α) : Out α :=
  let o1 := o.addTris (joinInterior j.ids (needsJoinPos j) (needsJoinNeg j))
  let o2 := roundJoinIf (needsJoinPos j && j.round) j false tolerance d o1
  roundJoinIf (needsJoinNeg j && j.round) j true tolerance d o2

/-! ## caps -/

def capFirstSide (isStart : Bool) (edgeNormal startNormal : P α) : Side :=
  if Bool.xor isStart (decide (edgeNormal.cross startNormal ≥ zero)) then .positive else .negative

/-- `tessellate_round_cap` after the `radius < tolerance` early return -/
def roundCapBody (center : P α) (radius : α) (startNormal : P α) (startVertex endVertex : Nat)
    (edgeNormal : P α) (tolerance : α) (isStart : Bool) (d : VData α) (o : Out α) : Out α :=
  let firstSide := capFirstSide isStart edgeNormal startNormal
  let startAngle := ArcConv.angleFromXAxis startNormal
  let diff := ArcConv.angleAngleTo startAngle (ArcConv.angleFromXAxis edgeNormal)
  let midAngle := startAngle + diff
  let endAngle := midAngle + diff
  let n := numSubdivisions diff radius tolerance
  let d1 : VData α := { d with positionOnPath := center, halfWidth := radius, side := firstSide,
                                normal := normalize edgeNormal }
  let mid := o.nextId
  let o1 := (o.addVertex d1).addTri (startVertex, mid, endVertex)
  let o2 := tessellateArc startAngle midAngle startVertex mid n d1 o1
  tessellateArc midAngle endAngle mid endVertex n { d1 with side := firstSide.opposite } o2

/-- `tessellate_round_cap` -/
def tessellateRoundCap (center : P α) (radius : α) (startNormal : P α) (startVertex endVertex : Nat)
    (edgeNormal : P α) (tolerance : α) (isStart : Bool) (d : VData α) (o : Out α) : Out α :=
  if radius < tolerance then o
  else roundCapBody center radius startNormal startVertex endVertex edgeNormal tolerance isStart d o

/-- `tessellate_empty_square_cap` -/
def tessellateEmptySquareCap (position : P α) (d : VData α) (o : Out α) : Out α :=
  let a := o.nextId
  let da : VData α := { d with positionOnPath := position, normal := ⟨one, one⟩, side := .negative }
  let db : VData α := { da with normal := ⟨one, -one⟩, side := .positive }
  let dc : VData α := { da with normal := ⟨-one, -one⟩, side := .positive }
  let dd : VData α := { da with normal := ⟨-one, one⟩, side := .negative }
  let o4 := (((o.addVertex da).addVertex db).addVertex dc).addVertex dd
  (o4.addTri (a, a + 1, a + 2)).addTri (a, a + 2, a + 3)

/-- `tessellate_empty_round_cap` (radius = `vertex.half_width`) -/
def tessellateEmptyRoundCap (center : P α) (tolerance : α) (d : VData α) (o : Out α) : Out α :=
  let radius := d.halfWidth
  let left := o.nextId
  let right := o.nextId + 1
  let dl : VData α := { d with positionOnPath := center, normal := ⟨-one, zero⟩, side := .positive }
  let dr : VData α := { dl with normal := ⟨one, zero⟩, side := .negative }
  let o2 := (o.addVertex dl).addVertex dr
  let o3 := tessellateRoundCap center radius ⟨-one, zero⟩ left right ⟨zero, one⟩ tolerance true dr o2
  -- after the first cap the record carries `position_on_path = center`, `half_width = radius`
  tessellateRoundCap center radius ⟨one, zero⟩ right left ⟨zero, -one⟩ tolerance false dr o3

end

/-! ## PointBuffer: the 3-slot window -/

structure PointBuffer (β : Type) where
  s0 : β
  s1 : β
  s2 : β
  start : Nat
  count : Nat

/-! operations return `none` where the Rust code panics (failed `assert!`, index out of
bounds, `usize` underflow) -/
namespace PointBuffer
variable {β : Type}

def new (d : β) : PointBuffer β := ⟨d, d, d, 0, 0⟩

/-- `self.points[i]` -/
def slot (b : PointBuffer β) : Nat → Option β
  | 0 => some b.s0
  | 1 => some b.s1
  | 2 => some b.s2
  | _ => none

/-- `self.points[i] = p` -/
def setSlot (b : PointBuffer β) (p : β) : Nat → Option (PointBuffer β)
  | 0 => some { b with s0 := p }
  | 1 => some { b with s1 := p }
  | 2 => some { b with s2 := p }
  | _ => none

def bumpCount (b : PointBuffer β) : PointBuffer β := { b with count := b.count + 1 }
def bumpStart (b : PointBuffer β) : PointBuffer β :=
  { b with start := if b.start + 1 = 3 then 0 else b.start + 1 }

def push (b : PointBuffer β) (p : β) : Option (PointBuffer β) :=
  if b.count < 3 then (b.setSlot p b.count).map bumpCount
  else (b.setSlot p b.start).map bumpStart

/-- `idx = start; if idx == 0 { idx = count }; points[idx - 1] = point` -/
def replaceLast (b : PointBuffer β) (p : β) : Option (PointBuffer β) :=
  let idx := if b.start = 0 then b.count else b.start
  if idx = 0 then none else b.setSlot p (idx - 1)

def clear (b : PointBuffer β) : PointBuffer β := { b with count := 0, start := 0 }

def get (b : PointBuffer β) (i : Nat) : Option β :=
  if i < b.count then b.slot ((i + b.start) % 3) else none

def getReverse (b : PointBuffer β) (i : Nat) : Option β :=
  if i < b.count then b.get (b.count - 1 - i) else none

def last (b : PointBuffer β) : Option β :=
  if 0 < b.count then b.get (b.count - 1) else none

/-- `last_two_mut`: `(points[(start+count-2) % 3], points[(start+count-1) % 3])` (unchecked
indexing in Rust; `slot` never answers `none` here, see `point_buffer_refines`) -/
def lastTwo (b : PointBuffer β) : Option (β × β) :=
  if 2 ≤ b.count then
    match b.slot ((b.start + b.count - 2) % 3), b.slot ((b.start + b.count - 1) % 3) with
    | some x, some y => some (x, y)
    | _, _ => none
  else none

/-- the window as a list, oldest first -/
def toList (b : PointBuffer β) : List (Option β) := (List.range b.count).map b.get

end PointBuffer

inductive BufOp (β : Type) where
  | push (p : β)
  | replaceLast (p : β)
  | clear

def PointBuffer.apply {β : Type} (b : PointBuffer β) : BufOp β → Option (PointBuffer β)
  | .push p => b.push p
  | .replaceLast p => b.replaceLast p
  | .clear => some b.clear

def PointBuffer.run {β : Type} (b : PointBuffer β) : List (BufOp β) → Option (PointBuffer β)
  | [] => some b
  | op :: ops => match b.apply op with
    | none => none
    | some b' => b'.run ops

/-! ## The merge rule of `step_impl` / `fixed_width_step_impl` on polylines -/

/-- `square_merge_threshold`:
`(tolerance * tolerance * 0.5).min(line_width * line_width * 0.05).max(1e-8)` -/
def squareMergeThreshold (tolerance lineWidth : α) : α :=
  Scalar.max (Scalar.min (tolerance * tolerance * half) (lineWidth * lineWidth * ofSci 5 2)) (ofSci 1 8)

/-- `points_are_too_close` -/
def pointsAreTooClose (threshold : α) (p0 p1 : P α) : Bool := decide ((p0 - p1).sqLen < threshold)

/-- the window state of one sub-path -/
structure Window (α : Type) where
  buf : PointBuffer (P α)
  mayNeedEmptyCap : Bool

def Window.new : Window α := ⟨PointBuffer.new ⟨zero, zero⟩, false⟩

/-- is `next` merged into the last kept point? (`count > 0 && points_are_too_close(last, next)`) -/
def Window.merges (w : Window α) (threshold : α) (next : P α) : Bool :=
  match w.buf.last with
  | some l => pointsAreTooClose threshold l next
  | none => false

/-- head and tail of the step functions for a point that is not a flattening step: either
`return Ok(false)` (merged; remembers that an empty cap may be needed) or `point_buffer.push` -/
def Window.step (w : Window α) (threshold : α) (next : P α) : Option (Window α) :=
  if w.merges threshold next then
    some { w with mayNeedEmptyCap := w.mayNeedEmptyCap || w.buf.count == 1 }
  else (w.buf.push next).map (fun b => { w with buf := b })

/-- `begin` / `begin_fw`: `may_need_empty_cap = false`, then a step -/
def Window.begin (w : Window α) (threshold : α) (p : P α) : Option (Window α) :=
  ({ w with mayNeedEmptyCap := false } : Window α).step threshold p

/-! ## Fixed-width polylines with bevel joins and butt caps: the vertex / triangle skeleton

`fixed_width_step_impl` + `compute_join_side_positions_fixed_width` (the fold decision and which
side gets a single vertex) + `add_join_base_vertices` + `add_edge_triangles` + `tessellate_join` +
`end` / `end_with_caps` / `close` (with `tessellate_last_edge` / `tessellate_first_edge` reduced to
their two vertices and the edge triangles), for `LineJoin::Bevel`, `LineCap::Butt`, points that are
not flattening steps.  Predicts, per path, the sequence of `(source endpoint, side)` of the
emitted vertices and the triangle list; positions are not part of this skeleton. -/

namespace Poly
section
variable [Transc α]

/-- `VertexId(u32::MAX)`: the default of `SidePoints::{prev,next}_vertex` -/
def unsetId : Nat := 4294967295

/-- the part of `EndpointData` the skeleton needs -/
structure Pt (α : Type) where
  pos : P α
  src : Nat
  ids : JoinIds

def Pt.new (p : P α) (src : Nat) : Pt α := ⟨p, src, ⟨unsetId, unsetId, unsetId, unsetId, false, false⟩⟩

/-- discrete output: `(source endpoint, side)` per vertex, ids are positions in the list -/
structure Mesh where
  nextId : Nat
  verts : List (Nat × Side)
  tris : List Tri

def Mesh.add (m : Mesh) (src : Nat) (side : Side) : Mesh := ⟨m.nextId + 1, m.verts ++ [(src, side)], m.tris⟩
def Mesh.addTris (m : Mesh) (t : List Tri) : Mesh := ⟨m.nextId, m.verts, m.tris ++ t⟩
/-- one vertex if `single`, else two (`prev`, `next`) -/
def Mesh.addSide (m : Mesh) (src : Nat) (side : Side) (single : Bool) : Mesh :=
  if single then m.add src side else (m.add src side).add src side

/-- the decisions of `compute_join_side_positions_fixed_width` for a bevel join: which side is the
front (outer) side, and whether the join folds -/
structure JoinShape where
  frontNeg : Bool
  fold : Bool

def joinShape (prev join next : P α) (hw : α) : JoinShape :=
  let pt0 := join - prev
  let nt0 := next - join
  let pl := Transc.sqrt pt0.sqLen
  let nl := Transc.sqrt nt0.sqLen
  let pt := pt0.sdiv pl
  let nt := nt0.sdiv nl
  let normal := computeNormal pt nt
  let frontNeg := decide (pt.cross nt ≥ zero)
  let frontNormal : P α := if frontNeg then -normal else normal
  let ext := frontNormal.smul hw
  let sharp := decide (nt.dot pt < zero)
  let dNext := ext.dot (-nt) - nl
  let dPrev := ext.dot pt - pl
  ⟨frontNeg, sharp && (decide (Scalar.min dNext dPrev > zero) || decide (normal.sqLen < ofSci 1 5))⟩

/-- join vertices (`add_join_base_vertices`, negative side first) and the interior triangles of
`tessellate_join` for the join `join` between `prev` and the point at `nextPos` -/
def joinAt (hw : α) (prev join : Pt α) (nextPos : P α) (m : Mesh) : Pt α × Mesh × List Tri :=
  let sh := joinShape prev.pos join.pos nextPos hw
  -- the back side gets the single (inner miter) vertex unless the join folds
  let negSingle := !sh.fold && !sh.frontNeg
  let posSingle := !sh.fold && sh.frontNeg
  let n0 := m.nextId
  let m1 := m.addSide join.src .negative negSingle
  let p0 := m1.nextId
  let m2 := m1.addSide join.src .positive posSingle
  let foldPos := join.ids.foldPos || (sh.fold && !sh.frontNeg)
  let foldNeg := join.ids.foldNeg || (sh.fold && sh.frontNeg)
  let ids : JoinIds := ⟨p0, if posSingle then p0 else p0 + 1, n0, if negSingle then n0 else n0 + 1, foldPos, foldNeg⟩
  ({ join with ids := ids }, m2, joinInterior ids (!posSingle && !foldNeg) (!negSingle && !foldPos))

structure State (α : Type) where
  buf : PointBuffer (Pt α)
  firsts : List (Pt α)
  mesh : Mesh

def State.new (m : Mesh) : State α := ⟨PointBuffer.new (Pt.new ⟨zero, zero⟩ unsetId), [], m⟩

def isTooClose (thr : α) (st : State α) (p : P α) : Bool :=
  match st.buf.last with
  | some l => pointsAreTooClose thr l.pos p
  | none => false

/-- the join part of `fixed_width_step_impl` (`count > 1`) -/
def stepJoin (hw : α) (st : State α) (next : Pt α) : State α :=
  match st.buf.lastTwo with
  | some (prev, join) =>
    let (join', m1, inter) := joinAt hw prev join next.pos st.mesh
    let m2 := if st.buf.count > 2 then m1.addTris (addEdgeTriangles prev.ids join'.ids) else m1
    { buf := (st.buf.replaceLast join').getD st.buf
      firsts := if st.buf.count == 2 then [prev, join'] else st.firsts
      mesh := m2.addTris inter }
  | none => st

/-- `fixed_width_step_impl`; the flag is its `Ok(bool)` ("segment added") -/
def step (thr hw : α) (st : State α) (next : Pt α) : State α × Bool :=
  if isTooClose thr st next.pos then (st, false) else
    let st1 := if st.buf.count > 1 then stepJoin hw st next else st
    ({ st1 with buf := (st1.buf.push next).getD st1.buf }, true)

/-- `end_with_caps` for butt caps -/
def endWithCaps (st : State α) : Mesh :=
  match st.buf.lastTwo with
  | none => st.mesh
  | some (p0, p1) =>
    -- tessellate_last_edge: positive then negative vertex at p1, edge triangles unless it is the first edge
    let v := st.mesh.nextId
    let m1 := (st.mesh.add p1.src .positive).add p1.src .negative
    let p1' : Pt α := { p1 with ids := { p1.ids with posPrev := v, negPrev := v + 1 } }
    let m2 := if st.buf.count == 2 then m1 else m1.addTris (addEdgeTriangles p0.ids p1'.ids)
    let (f, s) : Pt α × Pt α := if st.buf.count > 2 then
        (st.firsts.headD p0, (st.firsts.drop 1).headD p1') else (p0, p1')
    -- tessellate_first_edge
    let w := m2.nextId
    let m3 := (m2.add f.src .positive).add f.src .negative
    let f' : Pt α := { f with ids := { f.ids with posNext := w, negNext := w + 1 } }
    m3.addTris (addEdgeTriangles f'.ids s.ids)

/-- the last-point fix-up of `close` when the step to the first point was merged -/
def fixUp (st : State α) (pos : P α) : State α :=
  match st.buf.last with
  | some l => { st with buf := (st.buf.replaceLast { l with pos := pos }).getD st.buf }
  | none => st

/-- `close` for `count > 2` -/
def close (thr hw : α) (st : State α) : Mesh :=
  match st.firsts with
  | p :: p2 :: _ =>
    let (st1, added) := step thr hw st p
    let st2 := if added then st1 else fixUp st1 p.pos
    let (st3, _) := step thr hw st2 p2
    match st3.buf.lastTwo with
    | some (q0, q1) =>
      -- re-create the two vertices of q0 on the edge towards the second endpoint
      let v := st3.mesh.nextId
      let m1 := (st3.mesh.add q0.src .positive).add q0.src .negative
      let q0' : Pt α := { q0 with ids := { q0.ids with posNext := v, negNext := v + 1 } }
      m1.addTris (addEdgeTriangles q0'.ids q1.ids)
    | none => st3.mesh
  | _ => st.mesh

/-- `end(close)`: closes when `close && count > 2`, else caps; the window and `firsts` are cleared -/
def finish (thr hw : α) (st : State α) (closed : Bool) : Mesh :=
  if closed && st.buf.count > 2 then close thr hw st else endWithCaps st

/-- one sub-path: `begin`, `line_to`*, `end(close)`; `src` numbers the endpoints -/
def subPath (thr hw : α) (m : Mesh) (src : Nat) (pts : List (P α)) (closed : Bool) : Mesh :=
  let go := pts.foldl (fun (acc : State α × Nat) p => ((step thr hw acc.1 (Pt.new p acc.2)).1, acc.2 + 1))
    (State.new m, src)
  finish thr hw go.1 closed

/-- a whole path through `StrokeTessellator::tessellate` (endpoint ids count the events) -/
def path (tolerance lineWidth : α) (subs : List (List (P α) × Bool)) : Mesh :=
  let thr := squareMergeThreshold tolerance lineWidth
  let hw := lineWidth * half
  (subs.foldl (fun (acc : Mesh × Nat) s => (subPath thr hw acc.1 acc.2 s.1 s.2, acc.2 + s.1.length))
    ((⟨0, [], []⟩ : Mesh), 0)).1

end
end Poly

end Lyon.Stroke
