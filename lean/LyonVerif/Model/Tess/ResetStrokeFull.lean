/-
  C08, stroke tessellator: the COMPLETE stroker model run as a long-lived OBJECT over a history of
  calls through every entry point of `StrokeTessellator` — the model family `stroke_reuse:32` of the
  C08 check runs, call after call, each call from the object the MODEL of the previous call left
  behind, against ONE real reused `StrokeTessellator`.

  `Model/Tess/ResetStroke.lean` / `ResetStrokeAttrs.lean` (`strokeFullCall`, `strokeFullCallB`) have
  the object (`Reset.StrokeT` = attribute buffer + the builder's `SimpleAttributeStore`) and the
  prologues of `tessellate` / `tessellate_with_ids` / `builder*`, with the path given as plain events
  whose endpoint ids are 0, 1, 2, … .  The real entry points hand the stroker the ids of the `Path`
  (control points use up ids too), a `StrokeBuilder` takes a PROGRAM (several sub-paths, shape helpers,
  option setters: `Model/Tess/StrokeBuilderProg.lean`), and a geometry builder may refuse a vertex.
  Here, on the same object and with the same buffer model (`Model/Tess/StrokeAttrBuffer.lean`):

  * `BodyF.fw`        `tessellate`, `tessellate_polygon`, `tessellate_path` of a path without
                      attributes: a LOCAL `Vec::new()` is the attribute buffer, `self` is not touched;
  * `BodyF.ids`       `tessellate_with_ids` (with or without a store), `tessellate_path` of a path
                      with `n` attributes: `self.attrib_buffer.clear()`, `push(0.0)` × n; the ids and
                      the store are the caller's;
  * `BodyF.prog`      `builder()` (`n = 0`) / `builder_with_attributes(n)` and a program of calls on
                      the returned `StrokeBuilder`, then `build()` or the builder is dropped;
                      `tessellate_rectangle` / `_circle` / `_ellipse` are `builder()` + one shape call +
                      `build()`: `self.builder_attrib_store.reset(n)`, `self.attrib_buffer.clear()`,
                      `push(0.0)` × n; every endpoint `add`s its attributes to the RECYCLED store
                      (`Reset.Store.add`) and the stroker reads them back through
                      `SimpleAttributeStore::get` (`storeGet`);
  * `BodyF.rejected`  `tessellate_rectangle` with `variable_line_width`: the `assert!` at its head
                      fires before `self` is touched.
  * `CallF.refuse = some (k, m)`: the geometry builder refuses the vertex with index `k` (0-based;
    `add_stroke_vertex` returns `Err`): the error is latched (`StrokeBuilderImpl::error`), nothing is
    emitted afterwards, the call returns `Err` (a dropped builder returns nothing).  What was emitted
    are the first `k` vertices and the first `m` triangles.  `Full.Out` keeps vertices and triangles
    in two lists (their interleaving is not modelled), so `m` — the number of `add_triangle` calls
    before the refused vertex — is an INPUT of the call (the harness measures it on a fresh real
    tessellator).  Whether the builder refuses that vertex once, twice or from then on makes no
    difference: no further `add_stroke_vertex` is attempted.
  * `CallF.ctorPanic = some j`: the caller's vertex constructor panics at the accepted vertex `j`;
    the panic unwinds out of the entry point (output `panic`), the object is left as the unwinding
    left it and is used again.

  Output of a call (`OutF`): the outcome, every emitted vertex (all accessors through `VData.read`),
  the attributes every vertex constructor reads through the object's own buffer
  (`attrsSeqB`: the interpolation loop runs over `buffer.len()`), every triangle.

  Nothing of `StrokeFull.lean` / `StrokeBuilderProg.lean` / `StrokeAttrBuffer.lean` / `ResetStroke.lean`
  is redefined.  Mathlib-free.
-/
import LyonVerif.Model.Tess.ResetStrokeAttrs
import LyonVerif.Model.Tess.StrokeBuilderProg

set_option linter.unusedVariables false

namespace Lyon.Stroke.Full
open Lyon Lyon.Scalar Lyon.Stroke
open Lyon.StrokeQuad (Ix)

variable {α : Type} [Scalar α]

/-- what an entry point is asked to stroke -/
inductive BodyF (α : Type) where
  | fw (o : Opts α) (evs : List (PathEv α))
  /-- `attrs`: the caller's attribute store as `(endpoint id, attributes)` -/
  | ids (o : Opts α) (n : Nat) (evs : List (IdEv α)) (attrs : List (Nat × List α))
  | prog (o : Opts α) (n : Nat) (dropped : Bool) (cmds : List (Prog.Cmd α))
  | rejected

/-- one call on the object -/
structure CallF (α : Type) where
  body : BodyF α
  refuse : Option (Nat × Nat)
  /-- the caller's `StrokeVertexConstructor` panics at the accepted vertex with this index (0-based):
  the call unwinds out of the entry point -/
  ctorPanic : Option Nat

inductive OutcomeF where
  | ok | err | panic | dropped
  deriving DecidableEq, Repr

/-- the complete observable output of one call -/
structure OutF (α : Type) where
  outcome : OutcomeF
  verts : List (VData α)
  attrs : List (List α)
  tris : List Tri
  /-- how many `add_stroke_vertex` calls the geometry builder refused: the error is latched at the
  first one, no further vertex is offered -/
  refusals : Nat

def OutF.panic : OutF α := ⟨.panic, [], [], [], 0⟩

def BodyF.entry : BodyF α → Reset.StrokeEntry
  | .fw .. => .events
  | .ids _ n _ _ => .withIds n
  | .prog _ n dropped _ => if dropped then .builderDropped n else .builder n
  | .rejected => .events

def BodyF.isDropped : BodyF α → Bool
  | .prog _ _ d _ => d
  | _ => false

/-- the attribute vectors `attrib_store.add` receives during a program, one per endpoint, in id order -/
def progAdds (its : List (Prog.Item α)) : List (List α) :=
  its.filterMap fun it => it.id?.map fun _ => it.attrs

/-- the builder's attribute store after the call: `reset(n)` + one `add` per endpoint for the builder
entry points (also when a vertex was refused: the path commands keep coming), untouched otherwise -/
def storeAfterF (s : Reset.Store α) : BodyF α → Reset.Store α
  | .prog o n _ cmds => storeFeed (s.reset n) (progAdds (Prog.expand ⟨o, 0⟩ cmds))
  | _ => s

/-- the attribute store the stroker of the call reads -/
def storeFnF (s : Reset.Store α) : BodyF α → Nat → List α
  | .fw .. => fun _ => []
  | .ids _ _ _ attrs => fun id => ((attrs.find? (fun a => a.1 == id)).map (·.2)).getD []
  | .prog o n d cmds => storeGet (storeAfterF s (.prog o n d cmds))
  | .rejected => fun _ => []

/-- vertices / triangles emitted before the refused vertex; `refused` = the refusal happened -/
def cutVerts (refuse : Option (Nat × Nat)) (vs : List (VData α)) : List (VData α) :=
  match refuse with
  | none => vs
  | some (k, _) => vs.take k

def wasRefused (refuse : Option (Nat × Nat)) (nverts : Nat) : Bool :=
  match refuse with
  | none => false
  | some (k, _) => k < nverts

def cutTris (refuse : Option (Nat × Nat)) (nverts : Nat) (ts : List Tri) : List Tri :=
  match refuse with
  | none => ts
  | some (_, m) => if wasRefused refuse nverts then ts.take m else ts

/-- the constructor's panic happens: the vertex it is set for is reached (it is not if a refusal
came first: nothing is emitted after a refused vertex) -/
def ctorPanics (ctorPanic : Option Nat) (naccepted : Nat) : Bool :=
  match ctorPanic with
  | none => false
  | some j => j < naccepted

section
variable [Transc α] [Asin α] [FlatConst α]

/-- the complete stroker on what the entry point hands it (`none` = a flattening loop panicked, or
the call was rejected) -/
def coreOutF (ix : Ix α) (s : Reset.Store α) : BodyF α → Option (Out α)
  | .fw o evs => tessellateFw (Env.new o ix) evs
  | .ids o n evs attrs => tessellateIds (Env.new o ix) (storeFnF s (.ids o n evs attrs)) evs
  | .prog o n d cmds =>
    let r := Prog.runItems (Env.new o ix) (storeFnF s (.prog o n d cmds)) (Prog.expand ⟨o, 0⟩ cmds)
    if r.panicked then none else some r.st.out
  | .rejected => none

/-- the output of the call given what the stroker emitted and the buffer the prologue built, and the
buffer at the end of the call -/
def finishF (c : CallF α) (store : Nat → List α) (buf : List α) : Option (Out α) → OutF α × List α
  | none => (OutF.panic, buf)
  | some out =>
    let vs := cutVerts c.refuse out.verts
    let a := attrsSeqB store (vs.map (·.src)) ⟨false, buf⟩
    match a.1 with
    | none => (OutF.panic, a.2.buf)
    | some l =>
      -- a panicking vertex constructor: the call unwinds; what it leaves in the buffer is not claimed
      -- (any buffer does: the next call's prologue forgets it)
      if ctorPanics c.ctorPanic vs.length then (OutF.panic, a.2.buf) else
      (⟨if c.body.isDropped then .dropped else if wasRefused c.refuse out.verts.length then .err else .ok,
        vs, l, cutTris c.refuse out.verts.length out.tris,
        if wasRefused c.refuse out.verts.length then 1 else 0⟩, a.2.buf)

/-- **one call on the object `t`**: the object afterwards and the complete output -/
def strokeCallF (ix : Ix α) (t : Reset.StrokeT α) (c : CallF α) : Reset.StrokeT α × OutF α :=
  match c.body with
  | .rejected => (t, OutF.panic)
  | body =>
    let r := finishF c (storeFnF t.store body) (prologueBuffer t.attribBuffer body.entry) (coreOutF ix t.store body)
    (⟨bufferAfter t.attribBuffer body.entry r.2, storeAfterF t.store body⟩, r.1)

/-- the long-lived `StrokeTessellator` as a call machine: the object of family `stroke_reuse:32` -/
def strokeObjF (ix : Ix α) : Reset.Machine (Reset.StrokeT α) (CallF α) (OutF α) := ⟨strokeCallF ix⟩

end

end Lyon.Stroke.Full
