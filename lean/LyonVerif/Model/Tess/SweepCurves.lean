/-
  The fill tessellator on CURVED input: what the entry points of `crates/tessellation/src/fill.rs`
  feed to the event queue when the path has quadratic / cubic edges, composed with the modelled
  sweep (`Model/Tess/Sweep.lean`, `tessellateImpl`).

  Modelled here (same names in camelCase):
  * `EventQueueBuilder::{set_path, set_path_with_ids}` (event_queue.rs): the dispatch of path
    events to `begin` / `line_segment` / `quadratic_bezier_segment` / `cubic_bezier_segment` /
    `end`, with `reorient` for the horizontal sweep.  The segment functions themselves are
    `Sources.Builder.{begin, lineSegment, curveSegment, endSub}` (`Model/Tess/Sources.lean`);
    `quadSegment` / `cubicSegment` below supply `curveSegment` with the flattening of the curve
    — `QuadraticBezierSegment::for_each_flattened_with_t` /
    `CubicBezierSegment::for_each_flattened_with_t` of `Model/Geom/Flatten.lean` at the builder's
    tolerance (`options.tolerance`, NOT the halved sweep tolerance) — of the curve itself or, when
    the curve goes upwards (`needs_swap`), of the curve with its ends (and control points)
    swapped.
  * `FillBuilder::{begin, line_to, quadratic_bezier_to, cubic_bezier_to, end, build}` and
    `SimpleAttributeStore::add` (endpoint ids = a counter).
  * `lyon_path::path::IdIter::next` (the ids `Path::id_iter()` hands to
    `tessellate_with_ids`: indices into the path's point array, where control points and the
    attribute slots `(num_attributes + 1) / 2` per endpoint take room, and a closed sub-path
    stores its first endpoint once more).
  * `FillTessellator::{tessellate, tessellate_path, tessellate_with_ids, builder,
    builder_with_attributes}`: which of the above they use (`tessellate_path` goes through the ids
    exactly when the path has attributes).
  * `FillVertex::interpolated_attributes` for every emitted vertex (through
    `Sources.interpAttr`), when the entry point carries an attribute store.

  A flattening whose segment count does not fit `u32` is the `count.to_u32().unwrap()` panic.

  Mathlib-free.
-/
import LyonVerif.Model.Tess.Sweep
import LyonVerif.Model.Geom.Flatten

namespace Lyon.SweepCurves
open Lyon Lyon.Scalar Lyon.EQ Lyon.Sweep

variable {α : Type} [Scalar α]

/-- a path command (what `PathBuilder` receives / what `PathEvent`s and `IdEvent`s spell) -/
inductive Cmd (α : Type) where
  | begin (at_ : P α)
  | line (to : P α)
  | quad (ctrl to : P α)
  | cubic (ctrl1 ctrl2 to : P α)
  | end_ (close : Bool)

/-- how the entry point names endpoints -/
inductive IdMode where
  /-- `tessellate(path_events)` (and `tessellate_path` of a path without attributes):
  `EndpointId(u32::MAX)` everywhere -/
  | none
  /-- `tessellate_with_ids(path.id_iter(), &path, ..)` for a `Path` with `numAttributes` custom
  attributes (and `tessellate_path` of such a path when `numAttributes > 0`) -/
  | path (numAttributes : Nat)
  /-- `FillBuilder` (`builder()` / `builder_with_attributes(n)`): `SimpleAttributeStore::add` -/
  | builder
deriving BEq

/-- `IdIter { current, first, endpoint_stride }` resp. `FillBuilder { next_id, first_id }` -/
structure IdState where
  current : Nat := 0
  first : Nat := 0

/-- `IdIter::new`: `endpoint_stride = (num_attributes + 1) / 2 + 1` -/
def endpointStride (numAttributes : Nat) : Nat := (numAttributes + 1) / 2 + 1

/-- one command: the new id state and the id of the endpoint the command names (`at` of Begin,
`to` of an edge, `first` of End) -/
def idStep (mode : IdMode) (s : IdState) (c : Cmd α) : IdState × Nat :=
  match mode with
  | .none => (s, INVALID)
  | .path k =>
    let stride := endpointStride k
    match c with
    | .begin _ => ({ s with first := s.current }, s.current)
    | .line _ => ({ s with current := s.current + stride }, s.current + stride)
    | .quad _ _ => ({ s with current := s.current + stride + 1 }, s.current + stride + 1)
    | .cubic _ _ _ => ({ s with current := s.current + stride + 2 }, s.current + stride + 2)
    | .end_ close => ({ s with current := s.current + (if close then stride * 2 else stride) }, s.first)
  | .builder =>
    match c with
    | .begin _ => (⟨s.current + 1, s.current⟩, s.current)
    | .end_ _ => (s, s.first)
    | _ => ({ s with current := s.current + 1 }, s.current)

section flat
variable [Transc α] [FlatConst α]

def toPieces (l : List (FlatSeg α)) : List (Sources.Piece α) := l.map fun s => ⟨s.a, s.b, s.t0, s.t1⟩

/-- `quadratic_bezier_segment(ctrl, to, to_id)`; `none` = panic inside the flattening -/
def quadSegment (b : Sources.Builder α) (tol : α) (ctrl to : P α) (toId : Nat) : Option (Sources.Builder α) :=
  let from_ := b.current
  let seg : Quad α := if Sources.isAfter from_ to then ⟨to, ctrl, from_⟩ else ⟨from_, ctrl, to⟩
  match seg.forEachFlattenedWithT tol with
  | none => none
  | some l => some (b.curveSegment to toId (toPieces l) (toPieces l))

/-- `cubic_bezier_segment(ctrl1, ctrl2, to, to_id)`; `none` = panic inside the flattening -/
def cubicSegment (b : Sources.Builder α) (tol : α) (ctrl1 ctrl2 to : P α) (toId : Nat) :
    Option (Sources.Builder α) :=
  let from_ := b.current
  let seg : Cubic α := if Sources.isAfter from_ to then ⟨to, ctrl2, ctrl1, from_⟩ else ⟨from_, ctrl1, ctrl2, to⟩
  match seg.forEachFlattenedWithT tol with
  | none => none
  | some l => some (b.curveSegment to toId (toPieces l) (toPieces l))

/-- state of feeding a command list to the queue builder -/
structure Feed (α : Type) where
  bld : Sources.Builder α
  ids : IdState := {}
  /-- `PathEvent::End.first` / `points[first]` / `FillBuilder::first_position` -/
  firstPos : P α
  /-- endpoint ids in command order (one per `begin` / edge command): the keys of the attribute store -/
  endpointIds : Array Nat := #[]

/-- one path event / builder call; `none` = panic -/
def feedCmd (mode : IdMode) (horizontal : Bool) (tol : α) (f : Feed α) (c : Cmd α) : Option (Feed α) :=
  let xf (p : P α) : P α := if horizontal then reorientIn p else p
  let r := idStep mode f.ids c
  match c with
  | .begin p =>
    some { f with bld := f.bld.begin (xf p) r.2, ids := r.1, firstPos := xf p, endpointIds := f.endpointIds.push r.2 }
  | .line p =>
    some { f with bld := f.bld.lineSegment (xf p) r.2 zero one, ids := r.1, endpointIds := f.endpointIds.push r.2 }
  | .quad c1 p =>
    (quadSegment f.bld tol (xf c1) (xf p) r.2).map fun b =>
      { f with bld := b, ids := r.1, endpointIds := f.endpointIds.push r.2 }
  | .cubic c1 c2 p =>
    (cubicSegment f.bld tol (xf c1) (xf c2) (xf p) r.2).map fun b =>
      { f with bld := b, ids := r.1, endpointIds := f.endpointIds.push r.2 }
  | .end_ _ =>
    some { f with bld := f.bld.endSub f.firstPos r.2, ids := r.1 }

def feedAll (mode : IdMode) (horizontal : Bool) (tol : α) : List (Cmd α) → Feed α → Option (Feed α)
  | [], f => some f
  | c :: cs, f =>
    match feedCmd mode horizontal tol f c with
    | none => none
    | some f' => feedAll mode horizontal tol cs f'

/-- `set_path` / `set_path_with_ids` / the `FillBuilder` calls: the unsorted queue (and the
endpoint ids in command order); `none` = panic in a flattening -/
def buildQueue (mode : IdMode) (horizontal : Bool) (tol : α) (cmds : List (Cmd α)) :
    Option (Queue α × Array Nat) :=
  (feedAll mode horizontal tol cmds ⟨Sources.Builder.init, {}, ⟨zero, zero⟩, #[]⟩).map fun f =>
    (Queue.ofRecs f.bld.recs.reverse, f.endpointIds)

variable [Wide α]

/-- the whole `FillTessellator` on a path with curves: queue building (with flattening), `sort`,
`tessellate_impl`.  Result as `Sweep.tessellate`, plus the endpoint ids in command order. -/
def tessellate (mode : IdMode) (rule : Slab.Rule) (horizontal : Bool) (tol : α) (handleIx : Bool)
    (cmds : List (Cmd α)) : (Option Fail × Array (Emit α) × Nat) × Array Nat :=
  match buildQueue mode horizontal tol cmds with
  | none => ((some (.panic "flattening count.to_u32().unwrap()"), #[], 0), #[])
  | some (q0, ids) =>
    let q := q0.sort
    if q.groups != Spec.sort q0.position q0.events.size then ((some (.unmodelled "sort-spec-mismatch"), #[], 0), ids)
    else (tessellateImpl q rule horizontal tol handleIx, ids)

end flat

/-! ### `FillVertex::interpolated_attributes` of an emitted vertex -/

def recOf (r : P α × EdgeData α) : Sources.EdgeRec α :=
  ⟨r.1, r.2.to, r.2.t0, r.2.t1, r.2.winding, r.2.isEdge, r.2.fromId, r.2.toId⟩

/-- the attribute store: `store id i` = attribute `i` of the endpoint named `id`
(`ids[k]` ↦ `values[k]`; an unknown id reads as zero — the Rust code would index out of range) -/
def storeOf (ids : Array Nat) (values : Array (Array α)) (id i : Nat) : α :=
  match ids.idxOf? id with
  | some k => (values.getD k #[]).getD i zero
  | none => zero

/-- `interpolated_attributes()` of the vertex emitted with sibling records `recs` -/
def vertexAttrs (ids : Array Nat) (values : Array (Array α)) (n : Nat) (recs : List (P α × EdgeData α)) :
    List α :=
  (List.range n).map (Sources.interpAttr (storeOf ids values) (recs.map recOf))

end Lyon.SweepCurves
