/-
  Component model of the fixed-width stroker's geometry (property C06), expression by expression
  from `crates/tessellation/src/stroke.rs`:

    compute_join_side_positions_fixed_width   → `joinSidesT` / `joinSides`   (all branches: the
        fold test, the back-side single vertex, kept miter, clipped MiterClip, bevel/round)
    get_clip_intersections + lyon_geom `Line::intersection`  → `clipIntersections`, `lineIntersection`
    the side points of the first point (`fixed_width_step_impl`, `count == 1`) and of the last
        point (`end_with_caps`)                 → `endSides`
    tessellate_first_edge / tessellate_last_edge: butt / square clipping as line intersections
                                               → `capSide`
    add_join_base_vertices: `normal = (p - position) / half_width`, and
    StrokeVertex::position: `position_on_path + normal * half_width`   → `emit`
    the whole mesh of an open two-segment polyline with a non-round join and butt/square caps
        (vertex order, triangle ids of tessellate_join's interior and of add_edge_triangles)
                                               → `stroke2`

  `math_utils::compute_normal`, `miter_limit_is_exceeded`, `add_edge_triangles`,
  `tessellate_join` (id logic) are the definitions of `Model/Tess/StrokeParts.lean` (C05).

  The Rust code converts the two lines of every clip to `f64` (`to_f64`), intersects them there and
  converts the point back (`to_f32`).  The functions below therefore take the intersection routine
  as a parameter `ix`: the driver passes "widen to Float, `lineIntersection`, narrow" at Float32,
  the theorems pass `lineIntersection eps` over the field.
  NOT modelled: round joins / round caps (arc fans: `StrokeParts.tessellateArc`), `close`,
  variable width, the flattened-curve fast path, merging of close points.

  Mathlib-free: linked into the native model driver.
-/
import LyonVerif.Model.Scalar
import LyonVerif.Model.Tess.StrokeParts

namespace Lyon.StrokeQuad
open Lyon Scalar Lyon.Stroke

variable {α : Type} [Scalar α] [Transc α]

/-- euclid `Vector2D::length`: `self.square_length().sqrt()` -/
def length (v : P α) : α := Transc.sqrt v.sqLen

/-! ## lyon_geom `Line::intersection` (lines as point + vector) -/

/-- the point computed once the determinant test passed -/
def lineIxPoint (p1 v1 p2 v2 : P α) : P α :=
  let invDet := one / v1.cross v2
  let a := p1.cross (p1 + v1)
  let b := p2.cross (p2 + v2)
  ⟨(b * v1.x - a * v2.x) * invDet, (b * v1.y - a * v2.y) * invDet⟩

/-- `Line::intersection`; `eps` is lyon's `Scalar::EPSILON` of the type the stroker intersects in
(`1e-8`, the lines are converted with `to_f64`) -/
def lineIntersection (eps : α) (p1 v1 p2 v2 : P α) : Option (P α) :=
  if abs (v1.cross v2) ≤ eps then none else some (lineIxPoint p1 v1 p2 v2)

/-- an intersection routine for lines given as point + vector: `self.intersection(&other)` with
`self = (p1, v1)`, `other = (p2, v2)` -/
abbrev Ix (α : Type) := P α → P α → P α → P α → Option (P α)

/-- `get_clip_intersections(previous_normal, next_normal, normal, clip_distance)`; without an
intersection the side point stays where it is (`.unwrap_or_else(|| previous_normal.to_point())`,
`.unwrap_or_else(|| next_normal.to_point())`: /repo fix ede203df; before it the fall-back was the
unscaled `normal`) -/
def clipIntersections (ix : Ix α) (prevN nextN normal : P α) (clipDistance : α) : P α × P α :=
  let cp := (normalize normal).smul clipDistance
  let cv := perp normal
  ((ix cp cv prevN (perp prevN)).getD prevN,
   (ix cp cv nextN (perp nextN)).getD nextN)

/-! ## compute_join_side_positions_fixed_width -/

inductive Join where
  | miter | miterClip | round | bevel
deriving DecidableEq, Repr

/-- `SidePoints` without the vertex ids -/
structure Side2 (α : Type) where
  prev : P α
  next : P α
  single : Option (P α)

/-- the geometric part of the join's `EndpointData` after the function ran -/
structure JoinSides (α : Type) where
  pos : Side2 α
  neg : Side2 α
  foldPos : Bool
  foldNeg : Bool

def Side2.setSingle (s : Side2 α) (p : P α) : Side2 α := { s with single := some p }

/-- the `MiterClip` branch: move the two points of the front side to the clip line -/
def clipSide (ix : Ix α) (s : Side2 α) (j frontNormal : P α) (clipDistance : α) : Side2 α :=
  let c := clipIntersections ix (s.prev - j) (s.next - j) frontNormal clipDistance
  { s with prev := j + c.1, next := j + c.2 }

/-- what happens to the front (outer) side when the join does not fold -/
def frontSide (ix : Ix α) (join : Join) (unclipped : Bool) (s : Side2 α) (j frontNormal miterFront : P α)
    (clipDistance : α) : Side2 α :=
  if unclipped then s.setSingle miterFront
  else if join = .miterClip then clipSide ix s j frontNormal clipDistance
  else s

/-- `1e-5` -/
def foldEpsilon : α := ofSci 1 5

/-- the fold test: `!unclipped_miter && angle_is_sharp && (d_next.min(d_prev) > 0.0 ||
normal.square_length() < 1e-5)` -/
def foldTest (unclipped : Bool) (t0 t1 normal extruded : P α) (l0 l1 : α) : Bool :=
  let dNext := extruded.dot (-t1) - l1
  let dPrev := extruded.dot t0 - l0
  !unclipped && decide (t1.dot t0 < zero) &&
    (decide (Scalar.min dNext dPrev > zero) || decide (normal.sqLen < foldEpsilon))

/-- `compute_join_side_positions_fixed_width` from the two unit tangents and edge lengths on
(`prev_tangent`, `next_tangent`, `prev_length`, `next_length` in the Rust code) -/
def joinSidesT (ix : Ix α) (t0 t1 : P α) (l0 l1 : α) (j : P α) (hw ml : α) (join : Join) : JoinSides α :=
  let normal := computeNormal t0 t1
  let frontIsNeg := decide (t0.cross t1 ≥ zero)
  let frontNormal := if frontIsNeg then -normal else normal
  let extruded := frontNormal.smul hw
  let unclipped := (decide (join = .miter) || decide (join = .miterClip)) && !miterLimitIsExceeded frontNormal ml
  let fold := foldTest unclipped t0 t1 normal extruded l0 l1
  let n0 := (perp t0).smul hw
  let n1 := (perp t1).smul hw
  let pos0 : Side2 α := ⟨j + n0, j + n1, none⟩
  let neg0 : Side2 α := ⟨j - n0, j - n1, none⟩
  let miterPos := j + normal.smul hw
  let miterNeg := j - normal.smul hw
  if fold then ⟨pos0, neg0, !frontIsNeg, frontIsNeg⟩
  else if frontIsNeg then
    ⟨pos0.setSingle miterPos, frontSide ix join unclipped neg0 j frontNormal miterNeg (ml * hw), false, false⟩
  else
    ⟨frontSide ix join unclipped pos0 j frontNormal miterPos (ml * hw), neg0.setSingle miterNeg, false, false⟩

/-- `compute_join_side_positions_fixed_width(prev, join, next, miter_limit, vertex)` -/
def joinSides (ix : Ix α) (prev j next : P α) (hw ml : α) (join : Join) : JoinSides α :=
  let pt := j - prev
  let nt := next - j
  let pl := length pt
  let nl := length nt
  joinSidesT ix (pt.sdiv pl) (nt.sdiv nl) pl nl j hw ml join

/-! ## end points, caps, vertex emission -/

/-- side points (positive, negative) of an end point `p` of the edge `a → b`:
`tangent = (b - a) / length; n = vector(-tangent.y, tangent.x) * half_width; p ± n` -/
def endSides (a b p : P α) (hw : α) : P α × P α :=
  let e := b - a
  let n := (perp (e.sdiv (length e))).smul hw
  (p + n, p - n)

inductive Cap where
  | butt | square | round
deriving DecidableEq, Repr

/-- `clip` of tessellate_first_edge / tessellate_last_edge -/
def Cap.clip (hw : α) : Cap → Option α
  | .square => some hw
  | .butt => some zero
  | .round => none

/-- One side of `tessellate_last_edge` (`p` = the end point, `q` = the other end of the edge,
`sidePos` = the end's side point, `other` = the matching side point at `q`): the side point is
moved to the intersection of the clip line through `p + normalize(p - q) * clip` with the side line.
`tessellate_first_edge` is the same computation with the roles of the two ends exchanged. -/
def capSide (ix : Ix α) (cap : Cap) (p q sidePos other : P α) (hw : α) : P α :=
  match cap.clip hw with
  | none => sidePos
  | some clip =>
    let normal := normalize (p - q)
    (ix (p + normal.smul clip) (perp normal) sidePos (sidePos - other)).getD sidePos

/-- the position a `StrokeVertexConstructor` reads for a side point `p` of the point `c`:
`vertex.normal = (p - c) / half_width`, `position() = c + normal * half_width` -/
def emit (c p : P α) (hw : α) : P α := c + ((p - c).sdiv hw).smul hw

/-! ## the mesh of an open two-segment polyline (non-round join, butt/square caps) -/

/-- vertex ids handed out by `add_join_base_vertices` (negative side first), starting at 0 -/
def joinIds (s : JoinSides α) : JoinIds :=
  let nNeg := if s.neg.single.isSome then 1 else 2
  let negPrev := 0
  let negNext := if s.neg.single.isSome then 0 else 1
  let posPrev := nNeg
  let posNext := if s.pos.single.isSome then nNeg else nNeg + 1
  ⟨posPrev, posNext, negPrev, negNext, s.foldPos, s.foldNeg⟩

def sideVertices (j : P α) (hw : α) (s : Side2 α) : List (P α) :=
  match s.single with
  | some p => [emit j p hw]
  | none => [emit j s.prev hw, emit j s.next hw]

structure Mesh (α : Type) where
  verts : List (P α)
  tris : List Tri

/-- `begin(a) line_to(j) line_to(b) end(false)` through `fixed_width_step_impl`, `end_with_caps`,
`tessellate_last_edge`, `tessellate_first_edge` -/
def stroke2 (ix : Ix α) (a j b : P α) (hw ml : α) (join : Join) (cap1 cap2 : Cap) : Mesh α :=
  let s := joinSides ix a j b hw ml join
  let ids := joinIds s
  let jv := sideVertices j hw s.neg ++ sideVertices j hw s.pos
  let k := jv.length
  -- last edge: j → b
  let lastS := endSides j b b hw
  let lastPos := capSide ix cap2 b j lastS.1 s.pos.next hw
  let lastNeg := capSide ix cap2 b j lastS.2 s.neg.next hw
  let lastIds : JoinIds := ⟨k, k, k + 1, k + 1, false, false⟩
  -- first edge: a → j
  let firstS := endSides a j a hw
  let firstPos := capSide ix cap1 a j firstS.1 s.pos.prev hw
  let firstNeg := capSide ix cap1 a j firstS.2 s.neg.prev hw
  let firstIds : JoinIds := ⟨k + 2, k + 2, k + 3, k + 3, false, false⟩
  let needPos := s.pos.single.isNone && !s.foldNeg
  let needNeg := s.neg.single.isNone && !s.foldPos
  ⟨jv ++ [emit b lastPos hw, emit b lastNeg hw, emit a firstPos hw, emit a firstNeg hw],
   joinInterior ids needPos needNeg ++ addEdgeTriangles ids lastIds ++ addEdgeTriangles firstIds ids⟩

/-! ## the edge quad as a point set -/

/-- The two triangles `add_edge_triangles` emits between the side points of the two ends of an
edge (`p0_neg, p0_pos, p1_pos` and `p0_neg, p1_pos, p1_neg`), as positions. -/
def edgeQuad (p0neg p0pos p1pos p1neg : P α) : (P α × P α × P α) × (P α × P α × P α) :=
  ((p0neg, p0pos, p1pos), (p0neg, p1pos, p1neg))

end Lyon.StrokeQuad
