/-
  Protocol skeletons of the tessellators (C04): how `fill.rs`, `stroke.rs` and `basic_shapes.rs`
  drive a geometry builder.  The numeric core (sweep line, joins, caps, flattening) is abstracted
  to the finite sequence of requests it issues,

      CReq = v payload | t a b c

  where a triangle names its corners by *ordinal*: `a` = the a-th vertex id returned since
  `begin_geometry` (0-based).  An ordinal that has not been returned yet resolves to
  `VertexId::INVALID`.  Every theorem quantifies over all such sequences, all builders and
  therefore all fault positions.

  * `runQ`        — requests issued under `?`: stops at the first refused vertex
                    (`fill.rs::initialize_events`, every `add_stroke_vertex(..)?` of `stroke.rs`,
                    `basic_shapes.rs`).
  * `tessellateImpl` — `FillTessellator::tessellate_impl` (= `tessellate*`, `FillBuilder::build`).
  * `strokeRun`   — `StrokeBuilderImpl::{new, error, step, fixed_width_step, tessellate_fw,
                    tessellate_with_ids_{fw,vw}, end, build}` (after fix 85d83d35: nothing is
                    issued once an error is latched).
  * `shapeRun`    — `basic_shapes::{fill_rectangle, fill_circle}` (after fix 34f2f5da: abort on
                    error).
  * `rectScript`, `circleScript` — the concrete request sequences of the two fast paths.

  Mathlib-free.
-/
import LyonVerif.Model.Tess.GeomBuilder

namespace Lyon.Tess

/-- A request of the tessellation core. -/
inductive CReq where
  | v (payload : Nat)
  | t (a b c : Nat)
deriving Repr, BEq, DecidableEq, Inhabited

/-- The id an ordinal stands for, given the ids returned since `begin_geometry`. -/
def resolve (ids : List Nat) (a : Nat) : Nat := ids.getD a invalidId

def nVerts : List CReq → Nat
  | [] => 0
  | .v _ :: r => nVerts r + 1
  | .t _ _ _ :: r => nVerts r

/-- Outcome of running requests: builder state, ids returned so far, calls made, first refusal. -/
structure RunOut (σ : Type) where
  st : σ
  ids : List Nat
  calls : List Call
  err : Option GErr

/-- Requests issued under `?`. -/
def runQ {σ : Type} (S : Sink σ) : List CReq → σ → List Nat → RunOut σ
  | [], s, ids => ⟨s, ids, [], none⟩
  | .v p :: r, s, ids =>
      match S.vertex s p with
      | (s', .ok i) => let x := runQ S r s' (ids ++ [i]); { x with calls := .vertex (.ok i) :: x.calls }
      | (s', .error e) => ⟨s', ids, [.vertex (.error e)], some e⟩
  | .t a b c :: r, s, ids =>
      let x := runQ S r (S.tri s (resolve ids a) (resolve ids b) (resolve ids c)) ids
      { x with calls := .tri (resolve ids a) (resolve ids b) (resolve ids c) :: x.calls }

/-- What a tessellation call leaves behind. -/
structure Outcome (σ : Type) where
  st : σ
  trace : List Call
  /-- `None` = `Ok(())` -/
  result : Option TErr

/-- `FillTessellator::tessellate_impl`.
`tolOk` : `!(tolerance.is_nan() || tolerance <= 0.0)`;
`core`  : requests of `tessellator_loop` followed (when it returned `Ok`) by the triangles of the
          final `span.tess.flush(builder)` loop;
`coreErr` : `Some(code)` when `tessellator_loop` itself fails (`InternalError`, `PositionIsNaN`)
          after having issued `core`. -/
def tessellateImpl {σ : Type} (S : Sink σ) (tolOk : Bool) (core : List CReq) (coreErr : Option TErr)
    (s : σ) : Outcome σ :=
  if !tolOk then ⟨s, [], some (.unsupported 1)⟩
  else
    let x := runQ S core (S.begin s) []
    match x.err with
    | some e => ⟨S.abort x.st, .begin :: x.calls ++ [.abort], some (.geometryBuilder e)⟩
    | none =>
      match coreErr with
      | some e => ⟨S.abort x.st, .begin :: x.calls ++ [.abort], some e⟩
      | none => ⟨S.endG x.st, .begin :: x.calls ++ [.endG], none⟩

/-- State of the `for evt in input { …; if let Some(err) = self.error { abort; return Err(err) } }`
loop of `tessellate_fw` / `tessellate_with_ids_{fw,vw}`: each event issues its requests under `?`
inside `step`/`end`, which latch the error; `pulled` counts the events taken from the iterator. -/
structure EvOut (σ : Type) where
  st : σ
  ids : List Nat
  calls : List Call
  err : Option GErr
  pulled : Nat

def strokeEvents {σ : Type} (S : Sink σ) : List (List CReq) → σ → List Nat → EvOut σ
  | [], s, ids => ⟨s, ids, [], none, 0⟩
  | ev :: rest, s, ids =>
      let x := runQ S ev s ids
      match x.err with
      | some e => ⟨x.st, x.ids, x.calls, some e, 1⟩
      | none =>
        let y := strokeEvents S rest x.st x.ids
        ⟨y.st, y.ids, x.calls ++ y.calls, y.err, y.pulled + 1⟩

structure StrokeOutcome (σ : Type) where
  st : σ
  trace : List Call
  result : Option TErr
  pulled : Nat

/-- The stroke tessellator seen from the builder (as repaired by lyon commit 85d83d35).
`StrokeBuilderImpl::new` calls `begin_geometry`; events issue requests under `?`; the first refusal
is latched (`error()` keeps the first) and from then on `step`, `fixed_width_step` and `end` return
before touching the builder — so neither the remaining flattening steps of the same curve event
(`tessellate*`) nor the later events pushed through `StrokeBuilder` (which only looks at the latch
in `build`) issue anything: the next builder call is `abort_geometry`, and `Err(first error)` is
returned.  Without a refusal: `end_geometry`, `Ok`.
(`pulled`: events consumed by the `for evt in input` loop of `tessellate*`.) -/
def strokeRun {σ : Type} (S : Sink σ) (events : List (List CReq)) (s : σ) : StrokeOutcome σ :=
  let x := strokeEvents S events (S.begin s) []
  match x.err with
  | none => ⟨S.endG x.st, .begin :: x.calls ++ [.endG], none, x.pulled⟩
  | some e => ⟨S.abort x.st, .begin :: x.calls ++ [.abort], some (.geometryBuilder e), x.pulled⟩

/-- `basic_shapes::fill_rectangle` / `fill_circle` (as repaired by lyon commit 34f2f5da):
`begin_geometry`, the requests of `fill_*_impl` under `?`; on `Err` `abort_geometry` and the error,
otherwise `end_geometry` and `Ok`. -/
def shapeRun {σ : Type} (S : Sink σ) (script : List CReq) (s : σ) : Outcome σ :=
  let x := runQ S script (S.begin s) []
  match x.err with
  | some e => ⟨S.abort x.st, .begin :: x.calls ++ [.abort], some (.geometryBuilder e)⟩
  | none => ⟨S.endG x.st, .begin :: x.calls ++ [.endG], none⟩

/-- `fill_rectangle`: four vertices, two triangles. -/
def rectScript : List CReq := [.v 0, .v 1, .v 2, .v 3, .t 0 1 2, .t 0 2 3]

/-- `fill_border_radius(va, vb, num_recursions)`; `next` = ordinal of the next vertex.
Returns the requests and the next free ordinal. -/
def borderRadius : Nat → Nat → Nat → Nat → List CReq × Nat
  | 0, _, _, next => ([], next)
  | n + 1, va, vb, next =>
      let l := borderRadius n va next (next + 1)
      let r := borderRadius n next vb l.2
      (.v next :: .t vb next va :: (l.1 ++ r.1), r.2)

def circleQuadrants (n : Nat) : Nat → Nat → List CReq × Nat
  | 0, next => ([], next)
  | q + 1, next =>
      let i := 3 - q
      let x := borderRadius n i ((i + 1) % 4) next
      let y := circleQuadrants n q x.2
      (x.1 ++ y.1, y.2)

/-- `fill_circle` with `num_recursions = n` (radius ≠ 0). -/
def circleScript (n : Nat) : List CReq :=
  [.v 0, .v 1, .v 2, .v 3, .t 0 3 1, .t 1 3 2] ++ (circleQuadrants n 4 4).1

/-- `fill_circle`: `radius == 0` returns `Ok(())` before `begin_geometry`. -/
def circleRun {σ : Type} (S : Sink σ) (radiusZero : Bool) (n : Nat) (s : σ) : Outcome σ :=
  if radiusZero then ⟨s, [], none⟩ else shapeRun S (circleScript n) s

end Lyon.Tess
