/-
  C18 — programs of shape helpers and sub-paths issued to ONE builder object, as the primitive
  calls they expand to, for the two receivers that matter to "the fill puts triangles exactly where
  the hit test says":

  * the fill tessellator's OWN builder, `FillTessellator::builder(..)` /
    `builder_with_attributes(n, ..)` (crates/tessellation/src/fill.rs `FillBuilder`).  `FillBuilder`
    overrides exactly one shape helper of `PathBuilder`: `add_circle` (inherent method and trait
    method, both the same routine: eight open single-quadratic sub-paths plus the inscribed octagon
    — `PathShapes.fillAddCircle`, transcribed in Model/Path/Shapes.lean).  `add_rectangle`,
    `add_polygon`, `add_ellipse`, `add_rounded_rectangle` are the `PathBuilder` defaults
    (crates/path/src/builder.rs), which call `begin / line_to / quadratic_bezier_to /
    cubic_bezier_to / end` of the `FillBuilder`.
  * `Path::builder()` / `Path::builder_with_attributes(n)` (`BuilderImpl`,
    `BuilderWithAttributes`): no overrides, `add_circle` is the free function of builder.rs (four
    cubics).  The same holds when `NoAttributes<FillBuilder>` is used through the `PathBuilder`
    TRAIT (generic code): `impl PathBuilder for NoAttributes<B>` does not forward `add_circle`, so
    the default (four cubics) feeds the `FillBuilder` primitives.

  `own = true` selects the receiver whose `add_circle` is `FillBuilder::add_circle`.

  The calls feed (a) the modelled event queue builder + sweep (`SweepCurves.tessellate` in
  `IdMode.builder`) and (b) the modelled `Path` → `path_winding_number_at_position` /
  `compute_winding` (`Model/Algo/WindingCurves.lean`).

  Mathlib-free.
-/
import LyonVerif.Model.Path.Shapes
import LyonVerif.Model.Tess.SweepCurves
import LyonVerif.Model.Algo.WindingCurves

namespace Lyon.FillBuilderShapes
open Lyon Lyon.Scalar Lyon.Path Lyon.PathShapes

variable {α : Type} [Scalar α]

/-- one call on the builder object -/
inductive Item (α : Type) where
  /-- `add_circle(center, radius, winding)` -/
  | circle (c : P α) (r : α) (positive : Bool)
  /-- `add_rectangle(&Box2D{min, max}, winding)` -/
  | rect (mn mx : P α) (positive : Bool)
  /-- `add_ellipse(center, radii, x_rotation, winding)` -/
  | ellipse (c radii : P α) (xrot : α) (positive : Bool)
  /-- `add_rounded_rectangle(&Box2D{min, max}, &BorderRadii{..}, winding)` -/
  | rrect (mn mx : P α) (radii : Radii α) (positive : Bool)
  /-- `add_polygon(Polygon{points, closed})` -/
  | polygon (pts : List (P α)) (closed : Bool)
  /-- a sub-path spelled with `begin / line_to / quadratic_bezier_to / cubic_bezier_to / end` -/
  | sub (calls : Calls α)

/-- the primitive calls one item makes on its receiver -/
def Item.calls [Transc α] (own : Bool) : Item α → Calls α
  | .circle c r p => if own then fillAddCircle c r p else addCircle c r p
  | .rect mn mx p => addRectangle mn mx p
  | .ellipse c radii xrot p => addEllipse c radii xrot p
  | .rrect mn mx radii p => addRoundedRectangle mn mx radii p
  | .polygon pts closed => addPolygon pts closed
  | .sub calls => calls

/-- the whole program -/
def programCalls [Transc α] (own : Bool) (prog : List (Item α)) : Calls α :=
  prog.flatMap (Item.calls own)

/-- a call that names an endpoint (everything but `end`) -/
def isEndpoint : Call (P α) Unit → Bool
  | .end_ _ => false
  | _ => true

/-- number of endpoints (= attribute slots `SimpleAttributeStore::add` hands out) of a call list -/
def numEndpoints (cs : Calls α) : Nat := (cs.filter isEndpoint).length

/-- a builder call as the command the modelled `FillBuilder` receives -/
def toCmd : Call (P α) Unit → SweepCurves.Cmd α
  | .begin p _ => .begin p
  | .line p _ => .line p
  | .quad c p _ => .quad c p
  | .cubic c1 c2 p _ => .cubic c1 c2 p
  | .end_ cl => .end_ cl

def toCmds (cs : Calls α) : List (SweepCurves.Cmd α) := cs.map toCmd

/-! ### the calls as the sub-paths of a `Path` (`Path::iter()`: `Begin`, events, `End`) -/

/-- the segment events up to the next `end`, and the calls after it -/
def takeSegs : Calls α → List (Winding.CSeg α) × Calls α
  | [] => ([], [])
  | .end_ _ :: r => ([], r)
  | .begin p a :: r => ([], .begin p a :: r)     -- malformed (no `end`): the sub-path stops here
  | .line p _ :: r => let t := takeSegs r; (.line p :: t.1, t.2)
  | .quad c p _ :: r => let t := takeSegs r; (.quad c p :: t.1, t.2)
  | .cubic c1 c2 p _ :: r => let t := takeSegs r; (.cubic c1 c2 p :: t.1, t.2)

/-- sub-paths of a well-formed call list (`fuel` ≥ number of calls) -/
def toSubsFuel : Nat → Calls α → List (Winding.CSub α)
  | 0, _ => []
  | _, [] => []
  | n+1, .begin p _ :: r => ⟨p, (takeSegs r).1⟩ :: toSubsFuel n (takeSegs r).2
  | n+1, _ :: r => toSubsFuel n r

def toSubs (cs : Calls α) : List (Winding.CSub α) := toSubsFuel (cs.length + 1) cs

end Lyon.FillBuilderShapes
