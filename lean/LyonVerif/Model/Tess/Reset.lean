/-
  C08 — the RESET DISCIPLINE of the tessellators: which fields of the long-lived objects are
  written before they are read.

  Every piece is a small record-of-fields state machine that mirrors the Rust field by field;
  `Vec::clear` is `[]` (capacity is not observable), `mem::replace(&mut x, new)` is an assignment.

  §1 `Machine`, `Machine.run`                     — `call : σ → ι → σ × ο`, histories.
  §2 pooled monotone tessellators                  — `fill.rs: Spans::{begin_span,end_span}`, on top of
                                                     `Mono.Adv` (`monotone.rs`, model of C02).
  §3 `Scan`                                        — `fill.rs: ActiveEdgeScan::{new,reset}`.
  §4 `interp`                                      — `fill.rs: FillVertex::interpolated_attributes`
                                                     and the `attrib_buffer` it scribbles on.
  §5 `Queue`, `QB`                                 — `event_queue.rs: EventQueue::{new,reset,into_builder}`,
                                                     `EventQueueBuilder::{reset,begin,end,line_segment,
                                                     quadratic_bezier_segment,cubic_bezier_segment,
                                                     set_path,set_path_with_ids,build}`; curve flattening
                                                     and the sort are parameters.
  §6 `FillT`, `fillCall`                           — `fill.rs: FillTessellator::{new,reset,tessellate,
                                                     tessellate_with_ids,tessellate_path,builder,
                                                     builder_with_attributes,tessellate_impl}`,
                                                     `FillBuilder::{new,build}`; the sweep is an abstract
                                                     function of the fields it READS (`SweepView`).
  §7 `StrokeT`, `strokeCall`                       — `stroke.rs: StrokeTessellator::{new,tessellate,
                                                     tessellate_with_ids,builder,builder_with_attributes}`,
                                                     `SimpleAttributeStore::{new,reset,add}`,
                                                     `StrokeBuilderImpl::new`.

  What the abstract cores may look at is explicit: `SweepView` contains every field of
  `FillTessellator` EXCEPT the contents of `fill.pool` (read only through `begin`, §2), the contents
  of `attrib_buffer` (only its length; every slot is written before it is read, §4) and `log`.
  That the real sweep reads nothing else is what the history oracle of `harness/src/bin/c08.rs`
  explores on the real code; it is not proved.

  Mathlib-free.
-/
import LyonVerif.Model.Tess.Monotone
import LyonVerif.Model.Tess.Skeleton

namespace Lyon.Reset
open Lyon Lyon.Mono Lyon.Tess Scalar

/-! ## §1 call machines and histories -/

/-- A long-lived object with one entry point: `call state input = (state', output)`.
An input may carry a fault position (the call then fails part-way): `call` is total. -/
structure Machine (σ ι ο : Type) where
  call : σ → ι → σ × ο

/-- state after a history of calls -/
def Machine.run {σ ι ο : Type} (m : Machine σ ι ο) : σ → List ι → σ
  | s, [] => s
  | s, i :: r => m.run (m.call s i).1 r

/-- outputs of a history of calls, call by call -/
def Machine.outputs {σ ι ο : Type} (m : Machine σ ι ο) : σ → List ι → List ο
  | _, [] => []
  | s, i :: r => (m.call s i).2 :: m.outputs (m.call s i).1 r

variable {α : Type} [Scalar α]

/-! ## §2 the pool of monotone tessellators -/

/-- `(position, id, is_left)` argument of `MonotoneTessellator::vertex` -/
abbrev VArg (α : Type) := P α × Nat × Bool

/-- a run of `vertex` calls -/
def feed (st : Adv α) (vs : List (VArg α)) : Adv α :=
  vs.foldl (fun s v => s.vertex v.1 v.2.1 v.2.2) st

/-- The object as `end` + `flush` leave it — what `Spans::end_span` pushes back into the pool:
both sides flushed, the inner stack cleared, the triangle list drained. -/
def afterEnd (st : Adv α) (pos : P α) (id : Nat) : Adv α :=
  ⟨{ (st.end_ pos id) with tris := [] }, (flushSide st.left false).1, (flushSide st.right true).1⟩

/-- `fill.rs: struct Spans`; the top of the pool (`Vec::pop`) is the head of the list. -/
structure Spans (α : Type) where
  spans : List (Option (Adv α))
  pool : List (Adv α)

/-- `pool.pop().unwrap_or_else(|| Box::new(MonotoneTessellator::new()))` -/
def Spans.take (s : Spans α) : Adv α × List (Adv α) :=
  match s.pool with
  | t :: r => (t, r)
  | [] => (Adv.new, [])

/-- `Spans::begin_span` -/
def Spans.beginSpan (s : Spans α) (idx : Nat) (pos : P α) (vertex : Nat) : Spans α :=
  { spans := s.spans.take idx ++ [some (Adv.begin s.take.1 pos vertex)] ++ s.spans.drop idx
    pool := s.take.2 }

/-- `Spans::end_span` (the triangles go to the output; the object goes back to the pool) -/
def Spans.endSpan (s : Spans α) (idx : Nat) (pos : P α) (id : Nat) : Spans α × List Tri :=
  match s.spans.getD idx none with
  | some t => ({ spans := s.spans.set idx none, pool := afterEnd t pos id :: s.pool }, (t.end_ pos id).tris)
  | none => (s, [])   -- unreachable!()

/-! ## §3 `ActiveEdgeScan` -/

structure WindingState where
  spanIndex : Int
  number : Int
  isIn : Bool
deriving Repr, BEq, DecidableEq, Inhabited

def WindingState.new : WindingState := ⟨-1, 0, false⟩

structure Scan where
  vertexEvents : List (Int × Bool)
  edgesToSplit : List Nat
  spansToEnd : List Int
  mergeEvent : Bool
  splitEvent : Bool
  mergeSplitEvent : Bool
  above : Nat × Nat
  windingBeforePoint : WindingState
deriving Repr, BEq, DecidableEq, Inhabited

/-- `ActiveEdgeScan::new` -/
def Scan.new : Scan := ⟨[], [], [], false, false, false, (0, 0), WindingState.new⟩

/-- `ActiveEdgeScan::reset`: field by field, as written -/
def Scan.reset (s : Scan) : Scan :=
  { s with vertexEvents := [], edgesToSplit := [], spansToEnd := [], mergeEvent := false, splitEvent := false,
           mergeSplitEvent := false, above := (0, 0), windingBeforePoint := WindingState.new }

/-! ## §4 `FillVertex::interpolated_attributes` and the attribute buffer -/

/-- `VertexSource` -/
inductive Src (α : Type) where
  | endpoint (id : Nat)
  | edge (a b : Nat) (t : α)

/-- what the call hands back -/
inductive IRes (α : Type) where
  /-- `NO_ATTRIBUTES` -/
  | noAttributes
  /-- a slice of the store or of the buffer -/
  | slice (v : List α)
  /-- `unwrap` on no source / a failed `assert_eq!` -/
  | panic

/-- the `assert_eq!(a.len(), num_attributes)` (and `b.len()`) of each arm -/
def Src.lenOk (store : Nat → List α) (n : Nat) : Src α → Bool
  | .endpoint id => (store id).length == n
  | .edge a b _ => (store a).length == n && (store b).length == n

/-- the value an arm writes / adds, slot by slot -/
def Src.val (store : Nat → List α) : Src α → List α
  | .endpoint id => store id
  | .edge a b t => List.zipWith (fun x y => x * (one - t) + y * t) (store a) (store b)

/-- the accumulation loop over the second, third, … source; `none` = an assertion failed -/
def accumulate (store : Nat → List α) (n : Nat) : List (Src α) → List α → α → Option (List α × α)
  | [], buf, div => some (buf, div)
  | s :: r, buf, div =>
      if s.lenOk store n && buf.length == n then
        accumulate store n r (List.zipWith (· + ·) buf (s.val store)) (div + one)
      else none

/-- the general path: the first source is taken out of the loop "to avoid initializing the buffer" —
slots `0..n` are ASSIGNED — then the other sources are added and the sum divided. -/
def interpMain (st : Nat → List α) (n : Nat) (first : Src α) (rest : List (Src α)) (buf : List α) : IRes α × List α :=
  if !(first.lenOk st n && buf.length == n) then (.panic, buf)
  else
    match accumulate st n rest ((first.val st).take n ++ buf.drop n) one with
    | none => (.panic, (first.val st).take n ++ buf.drop n)
    | some (acc, div) =>
      if one < div then (.slice (acc.map (· / div)), acc.map (· / div)) else (.slice acc, acc)

/-- `interpolated_attributes`: `store = none` ⇔ `attrib_store.is_none()`; `n = store.num_attributes()`;
`srcs` = what `VertexSourceIterator` yields.  Returns the result and the buffer afterwards. -/
def interp (store : Option (Nat → List α)) (n : Nat) (srcs : List (Src α)) (buf : List α) : IRes α × List α :=
  match store with
  | none => (.noAttributes, buf)
  | some st =>
    match srcs with
    | [] => (.panic, buf)                              -- `sources.next().unwrap()`
    | [.endpoint id] => (.slice (st id), buf)          -- fast path: the buffer is not touched
    | first :: rest => interpMain st n first rest buf

/-- `tessellate_impl`: `attrib_buffer.resize(n, 0.0)` with a store, `attrib_buffer.clear()` without -/
def resizeAttrib (buf : List α) : Option Nat → List α
  | none => []
  | some n => buf.take n ++ List.replicate (n - buf.length) zero

/-- all vertices of one call, in order, threading the buffer -/
def interpAll (store : Option (Nat → List α)) (n : Nat) : List (List (Src α)) → List α → List (IRes α)
  | [], _ => []
  | s :: r, buf => (interp store n s buf).1 :: interpAll store n r (interp store n s buf).2

/-! ## §5 the event queue and its builder -/

structure EdgeData (α : Type) where
  to : P α
  t0 : α
  t1 : α
  winding : Int
  isEdge : Bool
  fromId : Nat
  toId : Nat

/-- `EventQueue` before sorting: positions and edge data (the links are all `INVALID` until `sort`). -/
structure Queue (α : Type) where
  events : List (P α)
  edgeData : List (EdgeData α)
  first : Option Nat
  sorted : Bool

def Queue.new : Queue α := ⟨[], [], none, false⟩

/-- `EventQueue::reset` -/
def Queue.reset (q : Queue α) : Queue α := { q with events := [], edgeData := [], first := none, sorted := false }

/-- `EventQueueBuilder` (the `DebugValidator` is empty in release builds) -/
structure QB (α : Type) where
  current : P α
  prev : P α
  second : P α
  nth : Nat
  queue : Queue α
  tolerance : α
  prevEndpointId : Nat

def nanP : P α := ⟨zero / zero, zero / zero⟩
def noEndpoint : Nat := 4294967295

/-- `EventQueue::into_builder` -/
def Queue.intoBuilder (q : Queue α) (tol : α) : QB α :=
  ⟨nanP, nanP, nanP, 0, q.reset, tol, noEndpoint⟩

namespace QB

/-- `EventQueueBuilder::reset` — the queue and `nth` only -/
def reset (b : QB α) : QB α := { b with queue := b.queue.reset, nth := 0 }

def pushEvent (b : QB α) (at_ : P α) (d : EdgeData α) : QB α :=
  { b with queue := { b.queue with events := b.queue.events ++ [at_], edgeData := b.queue.edgeData ++ [d] } }

/-- `vertex_event` -/
def vertexEvent (b : QB α) (at_ : P α) (id : Nat) : QB α :=
  b.pushEvent at_ ⟨nanP, zero, zero, 0, false, id, id⟩

/-- `vertex_event_on_curve` -/
def vertexEventOnCurve (b : QB α) (at_ : P α) (t : α) (fromId toId : Nat) : QB α :=
  b.pushEvent at_ ⟨nanP, t, t, 0, false, fromId, toId⟩

/-- `add_edge` -/
def addEdge (b : QB α) (from_ to : P α) (winding : Int) (fromId toId : Nat) (t0 t1 : α) : QB α :=
  if from_ == to then b
  else if isAfter from_ to then
    { (b.pushEvent to ⟨from_, t1, t0, -winding, true, fromId, toId⟩) with nth := b.nth + 1 }
  else
    { (b.pushEvent from_ ⟨to, t0, t1, winding, true, fromId, toId⟩) with nth := b.nth + 1 }

/-- `begin` -/
def begin (b : QB α) (to : P α) (toId : Nat) : QB α :=
  { b with nth := 0, current := to, prevEndpointId := toId }

/-- `line_segment` -/
def lineSegment (b : QB α) (to : P α) (toId : Nat) (t0 t1 : α) : QB α :=
  if b.current == to then b
  else
    let b1 := if isAfter b.current to && decide (b.nth > 0) && isAfter b.current b.prev
      then b.vertexEvent b.current b.prevEndpointId else b
    let b2 := if b1.nth == 0 then { b1 with second := to } else b1
    let b3 := b2.addEdge b2.current to 1 b2.prevEndpointId toId t0 t1
    { b3 with prev := b3.current, prevEndpointId := toId, current := to }

/-- `end` -/
def end_ (b : QB α) (first : P α) (firstId : Nat) : QB α :=
  if b.nth == 0 then b
  else
    let b1 := b.lineSegment first firstId zero one
    let b2 := if isAfter first b1.prev && isAfter first b1.second then b1.vertexEvent first firstId else b1
    { b2 with prevEndpointId := firstId, nth := 0 }

/-- One flattened piece handed to the closure of `for_each_flattened_with_t`: `(line.from, line.to, t.start, t.end)`. -/
abbrev Piece (α : Type) := P α × P α × α × α

/-- state of the closure: the builder, the local `prev` and the local `first` -/
structure CurveSt (α : Type) where
  b : QB α
  prev : P α
  first : Option (P α)

/-- the closure body of `quadratic_bezier_segment` / `cubic_bezier_segment` (identical) -/
def curvePiece (winding : Int) (toId : Nat) (s : CurveSt α) (pc : Piece α) : CurveSt α :=
  if pc.1 == pc.2.1 then s
  else
    let b1 := match s.first with
      | none => s.b
      | some _ => if isAfter pc.1 pc.2.1 && isAfter pc.1 s.prev
          then s.b.vertexEventOnCurve pc.1 pc.2.2.1 s.b.prevEndpointId toId else s.b
    let first := match s.first with
      | none => some pc.2.1
      | some f => some f
    ⟨b1.addEdge pc.1 pc.2.1 winding b1.prevEndpointId toId pc.2.2.1 pc.2.2.2, pc.1, first⟩

/-- `quadratic_bezier_segment` / `cubic_bezier_segment` after the curve has been oriented downwards:
`pieces` is the flattening of the (possibly swapped) segment at `self.tolerance`;
`origFrom = self.current`, `segFrom` = start of the oriented segment. -/
def curveSegment (b : QB α) (pieces : List (Piece α)) (needsSwap : Bool) (segFrom origTo : P α) (toId : Nat) : QB α :=
  let isFirstEdge := b.nth == 0
  let origFrom := b.current
  let s := pieces.foldl (curvePiece (if needsSwap then -1 else 1) toId) ⟨b, segFrom, none⟩
  match s.first with
  | none => s.b
  | some first =>
    let second := if needsSwap then s.prev else first
    let previous := if needsSwap then first else s.prev
    let b1 := if isFirstEdge then { s.b with second := second }
      else if isAfter origFrom s.b.prev && isAfter origFrom second then s.b.vertexEvent origFrom s.b.prevEndpointId
      else s.b
    { b1 with prev := previous, current := origTo, prevEndpointId := toId }

end QB

/-- `PathEvent` / `IdEvent` with positions resolved; `set_path` passes `EndpointId(u32::MAX)` for every id. -/
inductive PEv (α : Type) where
  | begin (at_ : P α) (id : Nat)
  | line (to : P α) (id : Nat)
  | quad (ctrl to : P α) (id : Nat)
  | cubic (c1 c2 to : P α) (id : Nat)
  | end_ (first : P α) (id : Nat)

/-- the flatteners (`lyon_geom`): tolerance, control polygon ↦ pieces -/
structure Flat (α : Type) where
  quad : α → P α → P α → P α → List (QB.Piece α)
  cubic : α → P α → P α → P α → P α → List (QB.Piece α)

/-- `reorient` -/
def reorient (p : P α) : P α := ⟨-p.y, p.x⟩

def orientP (horizontal : Bool) (p : P α) : P α := if horizontal then reorient p else p

namespace QB

def quadSegment (F : Flat α) (b : QB α) (ctrl to : P α) (toId : Nat) : QB α :=
  let swap := isAfter b.current to
  let segFrom := if swap then to else b.current
  let segTo := if swap then b.current else to
  b.curveSegment (F.quad b.tolerance segFrom ctrl segTo) swap segFrom to toId

def cubicSegment (F : Flat α) (b : QB α) (c1 c2 to : P α) (toId : Nat) : QB α :=
  let swap := isAfter b.current to
  let segFrom := if swap then to else b.current
  let segTo := if swap then b.current else to
  b.curveSegment (F.cubic b.tolerance segFrom (if swap then c2 else c1) (if swap then c1 else c2) segTo) swap segFrom to toId

/-- one event of `set_path` / `set_path_with_ids` / `FillBuilder::{begin,line_to,…,end}` -/
def event (F : Flat α) (horizontal : Bool) (b : QB α) : PEv α → QB α
  | .begin p id => b.begin (orientP horizontal p) id
  | .line p id => b.lineSegment (orientP horizontal p) id zero one
  | .quad c p id => b.quadSegment F (orientP horizontal c) (orientP horizontal p) id
  | .cubic c1 c2 p id => b.cubicSegment F (orientP horizontal c1) (orientP horizontal c2) (orientP horizontal p) id
  | .end_ p id => b.end_ (orientP horizontal p) id

def events (F : Flat α) (horizontal : Bool) (b : QB α) (evs : List (PEv α)) : QB α :=
  evs.foldl (event F horizontal) b

/-- `set_path` / `set_path_with_ids`: `self.reset(); self.tolerance = tolerance; for evt in path {…}` -/
def setPath (F : Flat α) (b : QB α) (tol : α) (horizontal : Bool) (evs : List (PEv α)) : QB α :=
  events F horizontal { b.reset with tolerance := tol } evs

end QB

/-! ## §6 `FillTessellator` -/

structure FillOpts (α : Type) where
  tolerance : α
  fillRule : Nat
  horizontal : Bool
  handleIntersections : Bool

/-- The fields of `struct FillTessellator`; `active` / `edges_below` entries are opaque (`E`). -/
structure FillT (α E : Type) where
  currentPosition : P α
  currentVertex : Nat
  currentEventId : Nat
  active : List E
  edgesBelow : List E
  fillRule : Nat
  horizontal : Bool
  tolerance : α
  fill : Spans α
  log : Bool
  assumeNoIntersection : Bool
  attribBuffer : List α
  scan : Scan
  events : Queue α

/-- `f32::MIN` -/
def f32Min : α := zero - ofNat 340282346638528859811704183484516925440

/-- `FillTessellator::new` -/
def FillT.new {E : Type} : FillT α E :=
  { currentPosition := ⟨f32Min, f32Min⟩
    currentVertex := invalidId, currentEventId := invalidId, active := [], edgesBelow := []
    fillRule := 0, horizontal := false, tolerance := ofSci 1 1
    fill := ⟨[], []⟩, log := false, assumeNoIntersection := false, attribBuffer := [], scan := Scan.new
    events := Queue.new }

/-- `FillTessellator::reset` -/
def FillT.reset {E : Type} (t : FillT α E) : FillT α E :=
  { t with currentPosition := ⟨f32Min, f32Min⟩
           currentVertex := invalidId, currentEventId := invalidId, active := [], edgesBelow := []
           fill := { t.fill with spans := [] } }

/-- What the sweep (`tessellator_loop` and everything below it) may read: every field of the
tessellator except the contents of the pool and of the attribute buffer (§2, §4) and `log`.
`scan` is handed over as `scan_active_edges` first sees it: after `scan.reset()`. -/
structure SweepView (α E : Type) where
  currentPosition : P α
  currentVertex : Nat
  currentEventId : Nat
  active : List E
  edgesBelow : List E
  fillRule : Nat
  horizontal : Bool
  tolerance : α
  spans : List (Option (Adv α))
  assumeNoIntersection : Bool
  attribLen : Nat
  scan : Scan
  events : Queue α

def FillT.view {E : Type} (t : FillT α E) : SweepView α E :=
  ⟨t.currentPosition, t.currentVertex, t.currentEventId, t.active, t.edgesBelow, t.fillRule, t.horizontal, t.tolerance,
   t.fill.spans, t.assumeNoIntersection, t.attribBuffer.length, t.scan.reset, t.events⟩

/-- what the sweep asks of the geometry builder, and whether it fails by itself -/
structure SweepOut where
  core : List CReq
  coreErr : Option TErr

/-- the entry points -/
inductive FillEntry (α : Type) where
  /-- `tessellate`, `tessellate_polygon`, `tessellate_path` without attributes -/
  | events
  /-- `tessellate_with_ids` (custom attribute count, if a store is given); `tessellate_path` with attributes -/
  | withIds (attrs : Option Nat)
  /-- `builder` (`n = 0`) / `builder_with_attributes(n)` … `build()`; also `tessellate_ellipse` -/
  | builder (n : Nat)
  /-- a builder dropped without `build()` -/
  | builderDropped
  /-- `tessellate_rectangle` / `tessellate_circle`: the request script of `basic_shapes` -/
  | shape (script : List CReq)

structure FillIn (α : Type) where
  entry : FillEntry α
  path : List (PEv α)
  opts : FillOpts α

/-- the parameters of the model that are NOT modelled: flatteners, the sort, the sweep, and whatever
the call leaves behind in the object (`leftover` may depend on everything — in particular on where
the builder refused a vertex). -/
structure FillEnv (α E σ : Type) where
  flat : Flat α
  sort : Queue α → Queue α
  sweep : SweepView α E → FillIn α → SweepOut
  leftover : FillT α E → FillIn α → σ → FillT α E

/-- `tolerance.is_nan() || tolerance <= 0.0` negated (`0 < tol` is false for NaN) -/
def tolOk (tol : α) : Bool := decide (zero < tol)

/-- the event queue of the call: `mem::replace(&mut self.events, EventQueue::new()).into_builder(tol)`,
then `set_path*` (which resets again) or the `FillBuilder` calls, then `build()` = sort. -/
def buildQueue {E σ : Type} (env : FillEnv α E σ) (t : FillT α E) (i : FillIn α) : Queue α :=
  let qb := t.events.intoBuilder i.opts.tolerance
  match i.entry with
  | .builder _ => env.sort (QB.events env.flat i.opts.horizontal qb i.path).queue
  | _ => env.sort (QB.setPath env.flat qb i.opts.tolerance i.opts.horizontal i.path).queue

/-- number of custom attributes the sweep sees (`attrib_store`) -/
def FillEntry.attrs : FillEntry α → Option Nat
  | .withIds a => a
  | .builder n => if n > 0 then some n else none
  | _ => none

/-- the writes of `tessellate_impl` up to `tessellator_loop` -/
def FillT.prologue {E σ : Type} (env : FillEnv α E σ) (t : FillT α E) (i : FillIn α) : FillT α E :=
  let t1 := { t with events := buildQueue env t i }
  let t2 := t1.reset
  { t2 with attribBuffer := resizeAttrib t2.attribBuffer i.entry.attrs
            fillRule := i.opts.fillRule, horizontal := i.opts.horizontal
            tolerance := i.opts.tolerance * ofSci 5 1
            assumeNoIntersection := !i.opts.handleIntersections }

/-- one call of any entry point on builder `S` in state `b` -/
def fillCall {E σ : Type} (env : FillEnv α E σ) (S : Sink σ) (t : FillT α E) (ib : FillIn α × σ) : FillT α E × Outcome σ :=
  match ib.1.entry with
  | .shape script => (t, shapeRun S script ib.2)                          -- `self` is not touched
  | .builderDropped => ({ t with events := Queue.new }, ⟨ib.2, [], none⟩)  -- the queue went with the builder
  | _ =>
    if !tolOk ib.1.opts.tolerance then
      -- early return of `tessellate_impl`: only the queue has been rebuilt
      ({ t with events := buildQueue env t ib.1 }, ⟨ib.2, [], some (.unsupported 1)⟩)
    else
      let t' := t.prologue env ib.1
      let out := env.sweep t'.view ib.1
      (env.leftover t' ib.1 ib.2, tessellateImpl S true out.core out.coreErr ib.2)

def fillMachine {E σ : Type} (env : FillEnv α E σ) (S : Sink σ) : Machine (FillT α E) (FillIn α × σ) (Outcome σ) :=
  ⟨fillCall env S⟩

/-! ## §7 `StrokeTessellator` -/

/-- `SimpleAttributeStore` -/
structure Store (α : Type) where
  data : List α
  numAttributes : Nat
  nextId : Nat

def Store.new (n : Nat) : Store α := ⟨[], n, 0⟩
/-- `SimpleAttributeStore::reset` -/
def Store.reset (s : Store α) (n : Nat) : Store α := { s with data := [], nextId := 0, numAttributes := n }
/-- `SimpleAttributeStore::add` -/
def Store.add (s : Store α) (a : List α) : Store α × Nat := ({ s with data := s.data ++ a, nextId := s.nextId + 1 }, s.nextId)

/-- `struct StrokeTessellator` -/
structure StrokeT (α : Type) where
  attribBuffer : List α
  store : Store α

def StrokeT.new : StrokeT α := ⟨[], Store.new 0⟩

inductive StrokeEntry where
  /-- `tessellate`, `tessellate_polygon`: a LOCAL `Vec::new()` is the attribute buffer -/
  | events
  /-- `tessellate_with_ids` with `n = custom_attributes.num_attributes()` (0 without a store) -/
  | withIds (n : Nat)
  /-- `builder` (`n = 0`), `builder_with_attributes(n)`, then path commands, then `build()`;
  also `tessellate_rectangle / circle / ellipse` -/
  | builder (n : Nat)
  | builderDropped (n : Nat)

structure StrokeIn (α ω : Type) where
  entry : StrokeEntry
  path : List (PEv α)
  /-- one attribute vector per endpoint (builder entries) -/
  attrs : List (List α)
  opts : ω

/-- what `StrokeBuilderImpl` / `StrokeBuilder` start from: the options, the attribute buffer it was
lent, and (builder entries) the attribute store it was lent -/
structure StrokeView (α ω : Type) where
  opts : ω
  buffer : List α
  store : Option (Store α)

structure StrokeEnv (α ω σ : Type) where
  /-- events of the path ↦ requests per event (`strokeRun` of C04) -/
  core : StrokeView α ω → StrokeIn α ω → List (List CReq)
  /-- the store and buffer contents at the end of the call: whatever the core wrote -/
  leftover : StrokeT α → StrokeIn α ω → σ → StrokeT α

/-- the writes before `StrokeBuilderImpl::new` -/
def StrokeT.prologue {ω : Type} (t : StrokeT α) (i : StrokeIn α ω) : StrokeT α × StrokeView α ω :=
  match i.entry with
  | .events => (t, ⟨i.opts, [], none⟩)
  | .withIds n => ({ t with attribBuffer := List.replicate n zero }, ⟨i.opts, List.replicate n zero, none⟩)
  | .builder n | .builderDropped n =>
      ({ attribBuffer := List.replicate n zero, store := t.store.reset n },
       ⟨i.opts, List.replicate n zero, some (t.store.reset n)⟩)

def strokeCall {ω σ : Type} (env : StrokeEnv α ω σ) (S : Sink σ) (t : StrokeT α) (ib : StrokeIn α ω × σ) :
    StrokeT α × StrokeOutcome σ :=
  let pv := t.prologue ib.1
  let c := env.core pv.2 ib.1
  match ib.1.entry with
  | .builderDropped _ =>
      -- `begin_geometry` was called by `StrokeBuilderImpl::new`, the events were fed, nothing ends it
      let x := strokeEvents S c (S.begin ib.2) []
      (env.leftover pv.1 ib.1 ib.2, ⟨x.st, .begin :: x.calls, none, x.pulled⟩)
  | _ => (env.leftover pv.1 ib.1 ib.2, strokeRun S c ib.2)

def strokeMachine {ω σ : Type} (env : StrokeEnv α ω σ) (S : Sink σ) :
    Machine (StrokeT α) (StrokeIn α ω × σ) (StrokeOutcome σ) :=
  ⟨strokeCall env S⟩

end Lyon.Reset
