/-
  Exact rational instance of `Scalar` (execution side of the slab checker) and exact conversion
  of IEEE bit patterns to rationals.
-/
import LyonVerif.Model.Scalar

namespace Lyon

instance : Scalar Rat where
  ofNat n := (n : Rat)
  ofSci m e := (m : Rat) / ((10 : Rat) ^ e)
  dlt := fun a b => inferInstanceAs (Decidable (a < b))
  dle := fun a b => inferInstanceAs (Decidable (a ≤ b))
  abs a := if a < 0 then -a else a
  min a b := if a ≤ b then a else b
  max a b := if a ≤ b then b else a

def pow2 (e : Int) : Rat :=
  if e ≥ 0 then ((2 ^ e.toNat : Nat) : Rat) else 1 / ((2 ^ (-e).toNat : Nat) : Rat)

/-- exact value of a finite binary32 bit pattern (NaN/inf map to 0 with `none`) -/
def ratOfF32Bits (n : Nat) : Option Rat :=
  let sign : Nat := n / 2^31 % 2
  let ex : Nat := n / 2^23 % 256
  let man : Nat := n % 2^23
  if ex == 255 then none else
    let m1 : Nat := man + 2^23
    let v : Rat := if ex == 0 then (man : Rat) * pow2 (-149) else (m1 : Rat) * pow2 ((ex : Int) - 150)
    some (if sign == 1 then -v else v)

def ratOfF64Bits (n : Nat) : Option Rat :=
  let sign : Nat := n / 2^63 % 2
  let ex : Nat := n / 2^52 % 2048
  let man : Nat := n % 2^52
  if ex == 2047 then none else
    let m1 : Nat := man + 2^52
    let v : Rat := if ex == 0 then (man : Rat) * pow2 (-1074) else (m1 : Rat) * pow2 ((ex : Int) - 1075)
    some (if sign == 1 then -v else v)

/-- `~hhhhhhhh` (binary32) or `~hhhhhhhhhhhhhhhh` (binary64) to an exact rational -/
def ratOfHex (s : String) : Option Rat :=
  let n := parseHex s
  if s.length ≤ 9 then ratOfF32Bits n else ratOfF64Bits n

/-- approximate decimal rendering for replay files -/
def ratToFloat (r : Rat) : Float :=
  Float.ofInt r.num / Float.ofNat r.den

def ratStr (r : Rat) : String := toString r.num ++ "/" ++ toString r.den

end Lyon
