/-
  Model of `crates/extra/src/parser.rs` (the extended SVG path syntax parser) and of the printer
  `impl Debug for PathSlice` (`crates/path/src/path.rs`).

  * `Src`            — `Source<Iter>`: remaining characters (head = `current`), `line`, `col`.
                       `finished` ⇔ `inp = []`; the sentinel `current = '~'` of a finished source is
                       `Src.cur` of the empty list.  (The other sentinel, `' '` for an initially
                       empty input, is never observed: `parse_path` does not enter its loop.)
  * `lexNum`         — what `parse_number` collects into `float_buffer`.
  * `validF32`       — what `str::parse::<f32>` accepts among the strings `lexNum` can collect
                       (`-? (D+ | D+.D* | D*.D+) ([eE] [+-]? D+)?`, ASCII digits only).
  * `step` / `loop`  — one iteration / all iterations of the `while !src.finished` loop of
                       `parse_path`, with the `need_start / need_end / implicit_cmd` automaton.
  * `parse`          — `PathParser::parse` (fresh parser): runs the loop, then `end(false)` if
                       `need_end`.
  * history          — the model mirrors the code after the two repairs
                       00996849 (`need_start` starts `true`; the `need_start` test rejects the
                       drawing/close letters, an unknown letter still yields
                       `ParseError::Command`) and c7c34442 (`Source::with_position` sets the
                       column to -1 when the input starts with a newline).  Before them
                       `need_start` started `false` with the test `cmd != 'm' && cmd != 'M'`
                       (so `L 1 1`, `Z`, `H 3` were accepted and sent calls outside any
                       sub-path; with one attribute `A 1 1 0 0 0 5 5 7` panicked), and the initial
                       column was 0 also on a leading newline (`"\nx"` reported column 1).
  * numbers          — a number's VALUE is `Num.ofLexeme lexeme` (parameter); the arithmetic the
                       parser does on values (`+`, `-`, the `is_straight_line` test and the arc →
                       quadratic conversion of `lyon_geom`) are fields of `Num` as well.
  * characters       — `char::is_whitespace` is modelled exactly (the full White_Space set);
                       `char::is_numeric` is modelled on the alphabet
                       ASCII ∪ {², ³, ¹, ¼, ½, ¾, U+0660–0669, U+0966–096F, U+2160–2163,
                       U+FF10–FF19}: outside it the model says "not numeric".
  * `line`/`col` are `i32` in Rust; the model uses `Int` (inputs shorter than 2³¹ characters).

  Mathlib-free.
-/
import LyonVerif.Model.Path.Trace

namespace Lyon.Parser
open Lyon.Path

/-! ### Character classes -/

/-- `char::is_whitespace` (Unicode `White_Space`), complete. -/
def isWhiteN (n : Nat) : Bool :=
  (9 ≤ n && n ≤ 13) || n == 32 || n == 0x85 || n == 0xA0 || n == 0x1680 ||
  (0x2000 ≤ n && n ≤ 0x200A) || n == 0x2028 || n == 0x2029 || n == 0x202F || n == 0x205F ||
  n == 0x3000

def isWhite (c : Char) : Bool := isWhiteN c.toNat

/-- the non-ASCII part of `char::is_numeric` on the modelled alphabet -/
def nonAsciiNumeric (n : Nat) : Bool :=
  n == 0xB2 || n == 0xB3 || n == 0xB9 || (0xBC ≤ n && n ≤ 0xBE) || (0x660 ≤ n && n ≤ 0x669) ||
  (0x966 ≤ n && n ≤ 0x96F) || (0x2160 ≤ n && n ≤ 0x2163) || (0xFF10 ≤ n && n ≤ 0xFF19)

/-- `char::is_numeric` on the modelled alphabet. -/
def isNumeric (c : Char) : Bool := c.isDigit || nonAsciiNumeric c.toNat

/-- the separator test of `skip_whitespace` -/
def isSep (c : Char) : Bool := isWhite c || c == ','

/-! ### `Source` -/

structure Src where
  inp : List Char
  line : Int
  col : Int
deriving Repr, DecidableEq

/-- `line` after moving onto the head of `r` (`r` = what follows the current character). -/
def nextLine (r : List Char) (l : Int) : Int :=
  match r with
  | [] => l
  | c :: _ => if c == '\n' then l + 1 else l

/-- `col` after moving onto the head of `r`. -/
def nextCol (r : List Char) (c : Int) : Int :=
  match r with
  | [] => c
  | d :: _ => if d == '\n' then -1 else c + 1

/-- the column `with_position(_, 0, _)` starts with: -1 on a leading newline (as `advance_one`
does when it steps onto a newline), 0 otherwise -/
def startCol (inp : List Char) : Int :=
  match inp with
  | [] => 0
  | c :: _ => if c == '\n' then -1 else 0

/-- `Source::new` = `with_position(0, 0, _)`. -/
def Src.new (inp : List Char) : Src := ⟨inp, nextLine inp 0, startCol inp⟩

/-- `src.current` (`'~'` once finished). -/
def Src.cur (s : Src) : Char := s.inp.headD '~'

def Src.fin (s : Src) : Bool := s.inp.isEmpty

/-- `advance_one` -/
def Src.adv (s : Src) : Src :=
  match s.inp with
  | [] => s
  | _ :: r => ⟨r, nextLine r s.line, nextCol r s.col⟩

/-- `while !finished && p(current) { advance_one() }` -/
def advWhileL (p : Char → Bool) : List Char → Int → Int → Src
  | [], l, c => ⟨[], l, c⟩
  | ch :: r, l, c => if p ch then advWhileL p r (nextLine r l) (nextCol r c) else ⟨ch :: r, l, c⟩

def Src.advWhile (p : Char → Bool) (s : Src) : Src := advWhileL p s.inp s.line s.col

/-- `skip_whitespace` -/
def Src.skipWs (s : Src) : Src := s.advWhile isSep

/-! ### Number lexer -/

/-- `if current == c { buf.push(c); advance_one() }` for a class of characters -/
def optChar (p : Char → Bool) (s : Src) : List Char × Src :=
  match s.inp with
  | [] => ([], s)
  | c :: _ => if p c then ([c], s.adv) else ([], s)

/-- `while current.is_numeric() { buf.push(current); advance_one() }` -/
def digitsOf (s : Src) : List Char × Src := (s.inp.takeWhile isNumeric, s.advWhile isNumeric)

def lexMant (s : Src) : List Char × Src :=
  ((optChar (· == '-') s).1 ++ (digitsOf (optChar (· == '-') s).2).1,
   (digitsOf (optChar (· == '-') s).2).2)

def lexFrac (s : Src) : List Char × Src :=
  match s.inp with
  | [] => ([], s)
  | c :: _ => if c == '.' then ('.' :: (digitsOf s.adv).1, (digitsOf s.adv).2) else ([], s)

def lexExpTail (s : Src) : List Char × Src :=
  ((optChar (· == '-') s).1 ++ (digitsOf (optChar (· == '-') s).2).1,
   (digitsOf (optChar (· == '-') s).2).2)

def lexExp (s : Src) : List Char × Src :=
  match s.inp with
  | [] => ([], s)
  | c :: _ =>
    if c == 'e' || c == 'E' then (c :: (lexExpTail s.adv).1, (lexExpTail s.adv).2) else ([], s)

/-- the contents of `float_buffer` and the source after `parse_number`'s collection phase
(whitespace already skipped) -/
def lexNum (s : Src) : List Char × Src :=
  ((lexMant s).1 ++ (lexFrac (lexMant s).2).1 ++ (lexExp (lexFrac (lexMant s).2).2).1,
   (lexExp (lexFrac (lexMant s).2).2).2)

/-- exponent part accepted by `f32::from_str`: nothing, or `[eE][+-]?D+` -/
def validExp : List Char → Bool
  | [] => true
  | c :: r =>
    (c == 'e' || c == 'E') &&
      (match r with
       | [] => false
       | d :: t => if d == '-' || d == '+' then (!t.isEmpty && t.all Char.isDigit)
                   else (d :: t).all Char.isDigit)

def dropSign : List Char → List Char
  | [] => []
  | c :: r => if c == '-' || c == '+' then r else c :: r

/-- mantissa digits before/after the dot and the rest -/
def splitMant (l : List Char) : List Char × List Char × List Char :=
  match l.dropWhile Char.isDigit with
  | [] => (l.takeWhile Char.isDigit, [], [])
  | c :: r =>
    if c == '.' then (l.takeWhile Char.isDigit, r.takeWhile Char.isDigit, r.dropWhile Char.isDigit)
    else (l.takeWhile Char.isDigit, [], c :: r)

/-- what `str::parse::<f32>()` accepts (no `inf`/`nan`: those letters are never collected) -/
def validF32 (l : List Char) : Bool :=
  (0 < (splitMant (dropSign l)).1.length + (splitMant (dropSign l)).2.1.length) &&
    validExp (splitMant (dropSign l)).2.2

/-! ### Errors, results -/

inductive Err where
  | number (src : List Char) (line col : Int)
  | flag (src : Char) (line col : Int)
  | command (cmd : Char) (line col : Int)
  | missingMoveTo (cmd : Char) (line col : Int)
deriving Repr, DecidableEq

def Err.line : Err → Int
  | .number _ l _ | .flag _ l _ | .command _ l _ | .missingMoveTo _ l _ => l
def Err.col : Err → Int
  | .number _ _ c | .flag _ _ c | .command _ _ c | .missingMoveTo _ _ c => c

/-- result of a sub-parser: value or error, and the source where it stopped -/
inductive R (α : Type) where
  | ok (a : α) (s : Src)
  | err (e : Err) (s : Src)

def R.src {α} : R α → Src
  | .ok _ s => s
  | .err _ s => s

/-- sub-parsers: `&mut Source → Result<α, ParseError>` -/
def PM (α : Type) : Type := Src → R α

def PM.run {α} (m : PM α) (s : Src) : R α := m s

def PM.pure {α} (a : α) : PM α := fun s => .ok a s

def PM.bind {α β} (m : PM α) (f : α → PM β) : PM β := fun s =>
  match m s with
  | .ok a s' => f a s'
  | .err e s' => .err e s'

instance : Monad PM where
  pure := PM.pure
  bind := PM.bind

/-! ### Numeric parameters -/

abbrev Pt (ν : Type) := ν × ν
abbrev PCall (ν : Type) := Call (Pt ν) (List ν)

structure ArcArgs (ν : Type) where
  from_ : Pt ν
  rx : ν
  ry : ν
  rot : ν
  large : Bool
  sweep : Bool
  to : Pt ν
  /-- `attribute_buffer` before the arc's endpoint was parsed -/
  prevAttrs : List ν
  attrs : List ν

/-- What the parser needs from `f32` and `lyon_geom`:
`ofLexeme` = value of an accepted lexeme; `add`/`sub`/`mul`/`one` = `f32` arithmetic;
`arcStraight` = `SvgArc::is_straight_line`;
`arc pos a` = the `(ctrl, to, range.end)` list that
`SvgArc{from, to, radii: (rx, ry), x_rotation: Angle::degrees(rot), flags}.to_arc()
.for_each_quadratic_bezier_with_t` hands to the closure, or `none` if that code panics
(`cast::<f32,i32>(NaN).unwrap()`).  `pos` (number of characters not yet pulled from the
iterator) is not used by lyon — `arc` is a function of the `ArcArgs` alone; the correspondence
driver instantiates it with the arc model of C13 (`Model/Geom/SvgArc.lean`). -/
structure Num (ν : Type) where
  zero : ν
  one : ν
  add : ν → ν → ν
  sub : ν → ν → ν
  mul : ν → ν → ν
  ofLexeme : List Char → ν
  arcStraight : ArcArgs ν → Bool
  arc : Nat → ArcArgs ν → Option (List (Pt ν × Pt ν × ν))

variable {ν : Type}

/-! ### Token parsers -/

/-- `parse_number` -/
def parseNumber (N : Num ν) : PM ν := fun s0 =>
  if validF32 (lexNum s0.skipWs).1 then .ok (N.ofLexeme (lexNum s0.skipWs).1) (lexNum s0.skipWs).2
  else .err (.number (lexNum s0.skipWs).1 s0.skipWs.line s0.skipWs.col) (lexNum s0.skipWs).2

/-- `parse_flag` -/
def parseFlag : PM Bool := fun s0 =>
  if s0.skipWs.cur == '1' then .ok true s0.skipWs.adv
  else if s0.skipWs.cur == '0' then .ok false s0.skipWs.adv
  else .err (.flag s0.skipWs.cur s0.skipWs.line s0.skipWs.col) s0.skipWs

def relX (N : Num ν) (rel : Bool) (cur : Pt ν) (x : ν) : ν := if rel then N.add x cur.1 else x
def relY (N : Num ν) (rel : Bool) (cur : Pt ν) (y : ν) : ν := if rel then N.add y cur.2 else y

/-- `parse_point` (`cur` = `current_position`) -/
def parsePoint (N : Num ν) (rel : Bool) (cur : Pt ν) : PM (Pt ν) := do
  let x ← parseNumber N
  let y ← parseNumber N
  pure (relX N rel cur x, relY N rel cur y)

/-- `parse_attributes`: `n` numbers -/
def parseAttrs (N : Num ν) : Nat → PM (List ν)
  | 0 => pure []
  | n + 1 => do
    let v ← parseNumber N
    let r ← parseAttrs N n
    pure (v :: r)

/-- `parse_endpoint`: returns the position (the new `current_position`) and the attribute buffer -/
def parseEndpoint (N : Num ν) (na : Nat) (rel : Bool) (cur : Pt ν) : PM (Pt ν × List ν) := do
  let p ← parsePoint N rel cur
  let a ← parseAttrs N na
  pure (p, a)

/-- `get_smooth_ctrl` -/
def smoothCtrl (N : Num ν) (cur : Pt ν) : Option (Pt ν) → Pt ν
  | none => cur
  | some prev => (N.add cur.1 (N.sub cur.1 prev.1), N.add cur.2 (N.sub cur.2 prev.2))

/-! ### Parser state and one loop iteration -/

/-- `PathParser` fields (`attribute_buffer`, `current_position`, `need_end`) and the locals of
`parse_path`. -/
structure St (ν : Type) where
  attrs : List ν
  cur : Pt ν
  needEnd : Bool
  first : Pt ν
  needStart : Bool
  prevCubic : Option (Pt ν)
  prevQuad : Option (Pt ν)
  implicit : Char

/-- a builder call together with the number of characters not yet pulled from the iterator when
it was issued (`inp.length` of the source) -/
abbrev Emit (ν : Type) := Nat × PCall ν

def emitAt (s : Src) (l : List (PCall ν)) : List (Emit ν) := l.map (fun c => (s.inp.length, c))

/-- outcome of one iteration of the command loop -/
inductive StepOut (ν : Type) where
  /-- the iteration completed: new state, source, calls issued -/
  | cont (st : St ν) (s : Src) (em : List (Emit ν))
  /-- `return Err(e)`: `need_end` at that moment, calls issued in this iteration before it -/
  | fail (e : Err) (needEnd : Bool) (s : Src) (em : List (Emit ν))
  /-- a panic inside the arc conversion -/
  | panic (s : Src) (em : List (Emit ν))

/-- the two `match cmd` blocks after the command: previous control points and `implicit_cmd` -/
def nextImplicit (cmd : Char) : Char :=
  if cmd == 'm' then 'l' else if cmd == 'M' then 'L' else if cmd == 'z' then 'm'
  else if cmd == 'Z' then 'M' else cmd

def isCubicCmd (cmd : Char) : Bool := cmd == 'c' || cmd == 'C' || cmd == 's' || cmd == 'S'
def isQuadCmd (cmd : Char) : Bool := cmd == 'q' || cmd == 'Q' || cmd == 't' || cmd == 'T'

def St.after (st : St ν) (cmd : Char) : St ν :=
  { st with
    prevQuad := if isQuadCmd cmd then st.prevQuad else none
    prevCubic := if isCubicCmd cmd then st.prevCubic else none
    implicit := nextImplicit cmd }

/-- an edge command (everything except arc, move-to, close): the calls and the new state -/
abbrev EdgeOut (ν : Type) := List (PCall ν) × St ν

def cmdL (N : Num ν) (na : Nat) (rel : Bool) (st : St ν) : PM (EdgeOut ν) := do
  let e ← parseEndpoint N na rel st.cur
  pure ([.line e.1 e.2], { st with cur := e.1, attrs := e.2 })

def cmdH (N : Num ν) (na : Nat) (rel : Bool) (st : St ν) : PM (EdgeOut ν) := do
  let x ← parseNumber N
  let a ← parseAttrs N na
  pure ([.line (relX N rel st.cur x, st.cur.2) a],
        { st with cur := (relX N rel st.cur x, st.cur.2), attrs := a })

def cmdV (N : Num ν) (na : Nat) (rel : Bool) (st : St ν) : PM (EdgeOut ν) := do
  let y ← parseNumber N
  let a ← parseAttrs N na
  pure ([.line (st.cur.1, relY N rel st.cur y) a],
        { st with cur := (st.cur.1, relY N rel st.cur y), attrs := a })

def cmdQ (N : Num ν) (na : Nat) (rel : Bool) (st : St ν) : PM (EdgeOut ν) := do
  let c ← parsePoint N rel st.cur
  let e ← parseEndpoint N na rel st.cur
  pure ([.quad c e.1 e.2], { st with cur := e.1, attrs := e.2, prevQuad := some c })

def cmdT (N : Num ν) (na : Nat) (rel : Bool) (st : St ν) : PM (EdgeOut ν) := do
  let e ← parseEndpoint N na rel st.cur
  pure ([.quad (smoothCtrl N st.cur st.prevQuad) e.1 e.2],
        { st with cur := e.1, attrs := e.2, prevQuad := some (smoothCtrl N st.cur st.prevQuad) })

def cmdC (N : Num ν) (na : Nat) (rel : Bool) (st : St ν) : PM (EdgeOut ν) := do
  let c1 ← parsePoint N rel st.cur
  let c2 ← parsePoint N rel st.cur
  let e ← parseEndpoint N na rel st.cur
  pure ([.cubic c1 c2 e.1 e.2], { st with cur := e.1, attrs := e.2, prevCubic := some c2 })

def cmdS (N : Num ν) (na : Nat) (rel : Bool) (st : St ν) : PM (EdgeOut ν) := do
  let c2 ← parsePoint N rel st.cur
  let e ← parseEndpoint N na rel st.cur
  pure ([.cubic (smoothCtrl N st.cur st.prevCubic) c2 e.1 e.2],
        { st with cur := e.1, attrs := e.2, prevCubic := some c2 })

/-- the arguments of an arc command -/
def cmdAArgs (N : Num ν) (na : Nat) (rel : Bool) (st : St ν) : PM (ArcArgs ν) := do
  let rx ← parseNumber N
  let ry ← parseNumber N
  let rot ← parseNumber N
  let large ← parseFlag
  let sweep ← parseFlag
  let e ← parseEndpoint N na rel st.cur
  pure { from_ := st.cur, rx := rx, ry := ry, rot := rot, large := large, sweep := sweep,
         to := e.1, prevAttrs := st.attrs, attrs := e.2 }

/-- lower-case of an ASCII letter command -/
def lowerCmd (cmd : Char) : Char := cmd.toLower

/-- the parser for an edge command, if `cmd` is one -/
def edgeCmd (N : Num ν) (na : Nat) (cmd : Char) (st : St ν) : Option (PM (EdgeOut ν)) :=
  if cmd == 'l' || cmd == 'L' then some (cmdL N na cmd.isLower st)
  else if cmd == 'h' || cmd == 'H' then some (cmdH N na cmd.isLower st)
  else if cmd == 'v' || cmd == 'V' then some (cmdV N na cmd.isLower st)
  else if cmd == 'q' || cmd == 'Q' then some (cmdQ N na cmd.isLower st)
  else if cmd == 't' || cmd == 'T' then some (cmdT N na cmd.isLower st)
  else if cmd == 'c' || cmd == 'C' then some (cmdC N na cmd.isLower st)
  else if cmd == 's' || cmd == 'S' then some (cmdS N na cmd.isLower st)
  else none

def runEdge (m : PM (EdgeOut ν)) (cmd : Char) (st : St ν) (s : Src) : StepOut ν :=
  match m s with
  | .ok o s' => .cont (o.2.after cmd) s' (emitAt s' o.1)
  | .err e s' => .fail e st.needEnd s' []

/-- `interpolated_attributes[i] = prev_attributes[i] * (1.0 - range.end) + attribute_buffer[i] *
range.end` -/
def interpAttrs (N : Num ν) (prev cur : List ν) (t : ν) : List ν :=
  List.zipWith (fun p c => N.add (N.mul p (N.sub N.one t)) (N.mul c t)) prev cur

/-- what the arc branch sends to the builder once its arguments are parsed -/
def arcEmit (N : Num ν) (na : Nat) (a : ArcArgs ν) (cmd : Char) (st : St ν) (s' : Src) :
    StepOut ν :=
  if N.arcStraight a then
    .cont ({ st with cur := a.to, attrs := a.attrs }.after cmd) s' (emitAt s' [.line a.to a.attrs])
  else
    match N.arc s'.inp.length a with
    | none => .panic s' []
    | some qs =>
      -- `interpolated_attributes[i] = prev_attributes[i] * …` for `i < num_attributes`:
      -- out of bounds in the first callback if the buffer was shorter
      if !qs.isEmpty && decide (a.prevAttrs.length < na) then .panic s' []
      else .cont ({ st with cur := a.to, attrs := a.attrs }.after cmd) s'
                 (emitAt s' (qs.map (fun q =>
                    Call.quad q.1 q.2.1 (interpAttrs N a.prevAttrs a.attrs q.2.2))))

def runArc (N : Num ν) (na : Nat) (cmd : Char) (st : St ν) (s : Src) : StepOut ν :=
  match cmdAArgs N na cmd.isLower st s with
  | .ok a s' => arcEmit N na a cmd st s'
  | .err e s' => .fail e st.needEnd s' []

/-- the `'m' | 'M'` branch; `s` = source after the command letter -/
def runMove (N : Num ν) (na : Nat) (cmd : Char) (st : St ν) (s : Src) : StepOut ν :=
  match parseEndpoint N na cmd.isLower st.cur s with
  | .ok e s' =>
    .cont ({ st with cur := e.1, attrs := e.2, first := e.1, needEnd := true,
                     needStart := false }.after cmd) s'
          ((if st.needEnd then emitAt s [.end_ false] else []) ++ emitAt s' [.begin e.1 e.2])
  | .err e s' => .fail e false s' (if st.needEnd then emitAt s [.end_ false] else [])

def runClose (cmd : Char) (st : St ν) (s : Src) : StepOut ν :=
  .cont ({ st with cur := st.first, needEnd := false, needStart := true }.after cmd) s
        (emitAt s [.end_ true])

/-- the body of the command `match`; `s` = source after the command letter (if explicit),
`l0 c0` = `cmd_line`, `cmd_col` -/
def dispatchCmd (N : Num ν) (na : Nat) (cmd : Char) (l0 c0 : Int) (st : St ν) (s : Src) :
    StepOut ν :=
  match edgeCmd N na cmd st with
  | some m => runEdge m cmd st s
  | none =>
    if cmd == 'a' || cmd == 'A' then runArc N na cmd st s
    else if cmd == 'm' || cmd == 'M' then runMove N na cmd st s
    else if cmd == 'z' || cmd == 'Z' then runClose cmd st s
    else .fail (.command cmd l0 c0) st.needEnd s []

/-- the command of this iteration: the current character if it is an ASCII letter (consumed),
`implicit_cmd` otherwise -/
def cmdOf (st : St ν) (s : Src) : Char := if s.cur.isAlpha then s.cur else st.implicit
def afterCmd (s : Src) : Src := if s.cur.isAlpha then s.adv else s

/-- the command letters that draw or close (everything the `match` accepts except move-to) -/
def isDrawingCmd (cmd : Char) : Bool :=
  cmd == 'l' || cmd == 'L' || cmd == 'h' || cmd == 'H' || cmd == 'v' || cmd == 'V' ||
  cmd == 'q' || cmd == 'Q' || cmd == 't' || cmd == 'T' || cmd == 'c' || cmd == 'C' ||
  cmd == 's' || cmd == 'S' || cmd == 'a' || cmd == 'A' || cmd == 'z' || cmd == 'Z'

/-- one iteration of the `while` loop body after the `stop_at` test -/
def step (N : Num ν) (na : Nat) (st : St ν) (s : Src) : StepOut ν :=
  if st.needStart && isDrawingCmd (cmdOf st s) then
    .fail (.missingMoveTo (cmdOf st s) s.line s.col) st.needEnd (afterCmd s) []
  else dispatchCmd N na (cmdOf st s) s.line s.col st (afterCmd s)

/-! ### The loop and `parse` -/

inductive Outcome where
  | ok
  | err (e : Err)
  | panic
  /-- the loop fuel ran out (`parse_total`: never happens) -/
  | stuck
deriving Repr, DecidableEq

structure Result (ν : Type) where
  calls : List (Emit ν)
  outcome : Outcome
  /-- the source as `Source::unwrap` would show it afterwards -/
  final : Src

/-- `if self.need_end { output.end(false) }` at the end of `parse` -/
def closing (needEnd : Bool) (s : Src) : List (Emit ν) :=
  if needEnd then emitAt s [.end_ false] else []

def Result.cons (em : List (Emit ν)) (r : Result ν) : Result ν := { r with calls := em ++ r.calls }

/-- the `while !src.finished` loop (entered after a `skip_whitespace`), followed by the clean-up
of `parse`.  `fuel` bounds the number of iterations; `parse` supplies `length + 1`. -/
def loop (N : Num ν) (na : Nat) (stop : Option Char) : Nat → St ν → Src → Result ν
  | 0, _, s => ⟨[], .stuck, s⟩
  | fuel + 1, st, s =>
    if s.fin then ⟨closing st.needEnd s, .ok, s⟩
    else if stop == some s.cur then ⟨closing st.needEnd s, .ok, s⟩
    else
      match step N na st s with
      | .cont st' s' em => (loop N na stop fuel st' s'.skipWs).cons em
      | .fail e ne s' em => ⟨em ++ closing ne s', .err e, s'⟩
      | .panic s' em => ⟨em, .panic, s'⟩

/-- the state at the start of `parse_path` (`need_start = true`) -/
def St.init (N : Num ν) : St ν :=
  { attrs := [], cur := (N.zero, N.zero), needEnd := false, first := (N.zero, N.zero),
    needStart := true, prevCubic := none, prevQuad := none, implicit := 'M' }

/-- `PathParser::new().parse(&ParserOptions{num_attributes: na, stop_at: stop}, &mut
Source::new(inp), output)` -/
def parse (N : Num ν) (na : Nat) (stop : Option Char) (inp : List Char) : Result ν :=
  loop N na stop (inp.length + 1) (St.init N) (Src.new inp).skipWs

def Result.trace (r : Result ν) : List (PCall ν) := r.calls.map Prod.snd

/-! ### The printer: `impl Debug for PathSlice`

The stored path is represented by the builder calls that created it (C14 shows that the events of
the stored path are `specEvents` of those calls).  `pn` = `<f32 as Debug>::fmt`. -/

def printPt (pn : ν → List Char) (p : Pt ν) : List Char := ' ' :: pn p.1 ++ ' ' :: pn p.2

def printAttrs (pn : ν → List Char) : List ν → List Char
  | [] => []
  | a :: r => ' ' :: pn a ++ printAttrs pn r

def printCall (pn : ν → List Char) : PCall ν → List Char
  | .begin p a => ' ' :: 'M' :: printPt pn p ++ printAttrs pn a
  | .line p a => ' ' :: 'L' :: printPt pn p ++ printAttrs pn a
  | .quad c p a => ' ' :: 'Q' :: printPt pn c ++ printPt pn p ++ printAttrs pn a
  | .cubic c1 c2 p a => ' ' :: 'C' :: printPt pn c1 ++ printPt pn c2 ++ printPt pn p ++ printAttrs pn a
  | .end_ true => [' ', 'Z']
  | .end_ false => []

/-- the text between the two `"` that `{:?}` prints -/
def printCalls (pn : ν → List Char) : List (PCall ν) → List Char
  | [] => []
  | c :: r => printCall pn c ++ printCalls pn r

end Lyon.Parser
