/-
  The slab checker (DESIGN.md 4.3).

  Input: a finite set of directed "outline" edges `E` (winding contributions) and a finite list of
  triangles `T`.  For a point `q` of the plane that is generic (not on a segment, not level with a
  vertex or with a crossing of two segments) put

    W(q) = Σ over edges crossing the leftward horizontal ray from q of ±1   (winding number)
    F(q) = number of triangles containing q
         = number of triangles with an odd number of their edges crossing that ray.

  The checker decides statements "∀ generic q, Φ(W q, F q)" exactly: it cuts the plane into
  horizontal slabs at every endpoint ordinate and every ordinate where two segments (both
  spanning it) cross, orders the segments spanning each slab by abscissa at the slab's middle, and
  evaluates Φ once per gap.  Where Φ fails it tries to certify that the whole gap trapezoid lies
  within distance δ of the outline: its four corners are within δ of a single outline edge (the
  δ-neighbourhood of a segment is convex), or, after cutting the trapezoid into four (at the
  mid-ordinate and along the mid line) a bounded number of times, that holds for every piece — the tolerance band the properties allow.

  Written once over `[Scalar α]`: executed on exact rationals (`Model/RatScalar.lean`), reasoned
  about over ordered fields (`Props/Slab.lean`).
-/
import LyonVerif.Model.Scalar

namespace Lyon.Slab
open Lyon Scalar

variable {α : Type} [Scalar α]

/-- A non-horizontal segment stored upward (`a.y < b.y`).
`dir` = winding contribution of an outline edge (+1 if it was given upward, −1 downward, 0 for a
triangle edge); `tri` = index+1 of the owning triangle (0 for outline edges). -/
structure Item (α : Type) where
  a : P α
  b : P α
  dir : Int
  tri : Nat

/-- normalise a directed segment `p → q`; horizontal segments carry no crossing information -/
def mkItem (p q : P α) (isEdge : Bool) (tri : Nat) : Option (Item α) :=
  if p.y < q.y then some ⟨p, q, if isEdge then 1 else 0, tri⟩
  else if q.y < p.y then some ⟨q, p, if isEdge then -1 else 0, tri⟩
  else none

/-- abscissa of the item's supporting line at ordinate `y` -/
def Item.xAt (it : Item α) (y : α) : α :=
  it.a.x + (it.b.x - it.a.x) * (y - it.a.y) / (it.b.y - it.a.y)

def Item.spans (it : Item α) (y0 y1 : α) : Bool := it.a.y ≤ y0 && y1 ≤ it.b.y

/-- ordinate where the supporting lines of two items cross, if they are not parallel and the
ordinate lies in both items' closed y-ranges -/
def crossYLines (i j : Item α) : Option α :=
  let si := (i.b.x - i.a.x) / (i.b.y - i.a.y)
  let sj := (j.b.x - j.a.x) / (j.b.y - j.a.y)
  if si == sj then none else
    let ci := i.a.x - si * i.a.y
    let cj := j.a.x - sj * j.a.y
    let y := (cj - ci) / (si - sj)
    if i.a.y ≤ y && y ≤ i.b.y && j.a.y ≤ y && y ≤ j.b.y then some y else none

/-- `crossYLines`, skipping the arithmetic for pairs whose closed y-ranges are disjoint (the
range test would reject the ordinate anyway) -/
def crossY (i j : Item α) : Option α :=
  if i.b.y < j.a.y || j.b.y < i.a.y then none else crossYLines i j

def allCrossings : List (Item α) → List α
  | [] => []
  | i :: r => (r.filterMap (crossY i)) ++ allCrossings r

/-- sorted, duplicate-free list of cut ordinates -/
def dedupSorted : List α → List α
  | [] => []
  | [x] => [x]
  | x :: y :: r => if x < y then x :: dedupSorted (y :: r) else dedupSorted (y :: r)

def ordinates (items : List (Item α)) (extra : List α) : List α :=
  let ys := items.flatMap (fun it => [it.a.y, it.b.y]) ++ extra ++ allCrossings items
  dedupSorted (ys.mergeSort (fun a b => a ≤ b))

/-- fill rules as in `FillRule::is_in` -/
inductive Rule where
  | evenOdd | nonZero
deriving Repr, BEq, DecidableEq

def Rule.isIn : Rule → Int → Bool
  | .evenOdd, w => w % 2 != 0
  | .nonZero, w => w != 0

/-- What must hold at every generic point. -/
inductive Mode where
  /-- `F ≥ 1 ↔ rule W` (C01) -/
  | fill
  /-- `F ≤ 1 ∧ (F ≥ 1 ↔ rule W)` (C02) -/
  | tiling
  /-- `rule W → F ≥ 1` -/
  | covers
  /-- `F ≥ 1 → rule W` -/
  | within
deriving Repr, BEq, DecidableEq

def Mode.holds (m : Mode) (r : Rule) (w : Int) (f : Nat) : Bool :=
  match m with
  | .fill => (decide (f ≥ 1)) == r.isIn w
  | .tiling => decide (f ≤ 1) && ((decide (f ≥ 1)) == r.isIn w)
  | .covers => !(r.isIn w) || decide (f ≥ 1)
  | .within => !(decide (f ≥ 1)) || r.isIn w

/-! ### distance to a segment (squared), for the tolerance band -/

def sqDistSeg (p a b : P α) : α :=
  let v := b - a
  let w := p - a
  let l2 := v.sqLen
  if l2 == zero then w.sqLen else
    let t := w.dot v / l2
    if t ≤ zero then w.sqLen
    else if one ≤ t then (p - b).sqLen
    else (p - (a + v.smul t)).sqLen

/-- all the given points within `δ` of one outline edge -/
def bandCovers (edges : List (P α × P α)) (d2 : α) (corners : List (P α)) : Bool :=
  edges.any (fun e => corners.all (fun c => sqDistSeg c e.1 e.2 ≤ d2))

/-- corners of the trapezoid between the lines `(l0,y0)–(l1,y1)` and `(r0,y0)–(r1,y1)` -/
def quadCorners (y0 y1 l0 l1 r0 r1 : α) : List (P α) := [⟨l0, y0⟩, ⟨r0, y0⟩, ⟨l1, y1⟩, ⟨r1, y1⟩]

/-- the trapezoid lies in the tolerance band: its four corners are within `δ` of ONE outline edge
(the `δ`-neighbourhood of a segment is convex), or — up to `depth` times — each of the four pieces
obtained by cutting it at the mid-ordinate and along the mid line between the two bounding lines
does (a long thin trapezoid next to a finely flattened outline is near the outline everywhere
without being near a single short edge) -/
def bandRec (edges : List (P α × P α)) (d2 : α) : Nat → α → α → α → α → α → α → Bool
  | 0, y0, y1, l0, l1, r0, r1 => bandCovers edges d2 (quadCorners y0 y1 l0 l1 r0 r1)
  | d+1, y0, y1, l0, l1, r0, r1 =>
    let ym := (y0 + y1) / two
    let lm := (l0 + l1) / two
    let rm := (r0 + r1) / two
    let m0 := (l0 + r0) / two
    let mm := (lm + rm) / two
    let m1 := (l1 + r1) / two
    bandCovers edges d2 (quadCorners y0 y1 l0 l1 r0 r1) ||
      (bandRec edges d2 d y0 ym l0 lm m0 mm && bandRec edges d2 d y0 ym m0 mm r0 rm &&
        bandRec edges d2 d ym y1 lm l1 mm m1 && bandRec edges d2 d ym y1 mm m1 rm r1)

/-- subdivision depth of the band test -/
def bandDepth : Nat := 9

/-! ### one slab -/

structure Fail (α : Type) where
  x : α
  y : α
  w : Int
  f : Nat

/-- sweep counters after a prefix of the sorted items: winding number, per-triangle edge
parities, number of odd parities (= coverage) -/
structure Acc where
  w : Int
  par : Array Bool
  f : Nat

def Acc.init (nTri : Nat) : Acc := ⟨0, Array.replicate nTri false, 0⟩

def toggle (par : Array Bool) (f : Nat) (tri : Nat) : Array Bool × Nat :=
  if tri == 0 then (par, f) else
    let i := tri - 1
    let b := par.getD i false
    (par.setIfInBounds i (!b), if b then f - 1 else f + 1)

/-- pass one item -/
def Acc.step (st : Acc) (it : Item α) : Acc :=
  let t := toggle st.par st.f it.tri
  ⟨st.w + it.dir, t.1, t.2⟩

/-- the gap between `l` and `r` (both spanning the slab `(y0,y1)`, `x_l(ym) < x_r(ym)`) is accepted:
the mode's formula holds for the counters `w`, `f`, or the whole gap trapezoid is in the band -/
def gapOk (m : Mode) (rule : Rule) (edges : List (P α × P α)) (d2 : α) (y0 y1 : α)
    (w : Int) (f : Nat) (l r : Item α) : Bool :=
  m.holds rule w f ||
    bandRec edges d2 bandDepth y0 y1 (l.xAt y0) (l.xAt y1) (r.xAt y0) (r.xAt y1)

/-- evaluate one gap: the failures to record and the number of gaps evaluated -/
def gapAt (m : Mode) (rule : Rule) (edges : List (P α × P α)) (d2 : α) (y0 y1 ym : α)
    (w : Int) (f : Nat) (l : Item α) (x : α) (r : Item α) : List (Fail α) × Nat :=
  -- a gap is closed when the next item is strictly to the right of the last one passed
  if l.xAt ym < x then
    (if gapOk m rule edges d2 y0 y1 w f l r then [] else [⟨(l.xAt ym + r.xAt ym) / two, ym, w, f⟩], 1)
  else ([], 0)

/-- sweep the rest of the sorted items; `st` = counters after the items passed so far, `l` = last
item passed (left boundary of the current gap).  Later failures come first. -/
def sweepGo (m : Mode) (rule : Rule) (edges : List (P α × P α)) (d2 : α) (y0 y1 ym : α)
    (st : Acc) (l : Item α) : List (α × Item α) → List (Fail α) × Nat
  | [] =>
    -- the unbounded gap on the right: W and F must be back to "outside"
    (if m.holds rule st.w st.f then [] else [⟨l.xAt ym + one, ym, st.w, st.f⟩], 0)
  | xi :: rest =>
    let g := gapAt m rule edges d2 y0 y1 ym st.w st.f l xi.1 xi.2
    let r := sweepGo m rule edges d2 y0 y1 ym (st.step xi.2) xi.2 rest
    (r.1 ++ g.1, r.2 + g.2)

/-- items spanning the slab, keyed and sorted by abscissa at the mid-ordinate -/
def slabSorted (items : List (Item α)) (y0 y1 : α) : List (α × Item α) :=
  ((items.filter (fun it => it.spans y0 y1)).map (fun it => (it.xAt ((y0 + y1) / two), it))).mergeSort
    (fun a b => a.1 ≤ b.1)

/-- failures and number of gaps of one slab -/
def sweepSlab (m : Mode) (rule : Rule) (edges : List (P α × P α)) (d2 : α) (nTri : Nat)
    (items : List (Item α)) (y0 y1 : α) : List (Fail α) × Nat :=
  match slabSorted items y0 y1 with
  | [] => ([], 0)
  | xi :: rest => sweepGo m rule edges d2 y0 y1 ((y0 + y1) / two) ((Acc.init nTri).step xi.2) xi.2 rest

/-! ### whole check -/

structure Input (α : Type) where
  /-- directed outline edges -/
  edges : List (P α × P α)
  tris : List (P α × P α × P α)
  rule : Rule
  mode : Mode
  /-- squared band half-width -/
  d2 : α

structure Result (α : Type) where
  slabs : Nat
  gaps : Nat
  fails : List (Fail α)
  /-- triangles with zero area (indices) -/
  degenerate : List Nat

def triItems (tris : List (P α × P α × P α)) : List (Item α) :=
  (tris.zipIdx).flatMap (fun (t, i) =>
    let (a, b, c) := t
    [mkItem a b false (i+1), mkItem b c false (i+1), mkItem c a false (i+1)].filterMap id)

def edgeItems (edges : List (P α × P α)) : List (Item α) :=
  edges.filterMap (fun e => mkItem e.1 e.2 true 0)

def triArea2 (t : P α × P α × P α) : α :=
  let (a, b, c) := t
  (b - a).cross (c - a)

def slabPairs : List α → List (α × α)
  | [] => []
  | [_] => []
  | x :: y :: r => (x, y) :: slabPairs (y :: r)

/-- all non-horizontal segments: outline edges first, then triangle edges tagged with index+1 -/
def checkItems (inp : Input α) : List (Item α) := edgeItems inp.edges ++ triItems inp.tris

/-- ordinates of all vertices (also those of horizontal edges) -/
def checkExtra (inp : Input α) : List α :=
  inp.edges.flatMap (fun e => [e.1.y, e.2.y]) ++ inp.tris.flatMap (fun t => [t.1.y, t.2.1.y, t.2.2.y])

def check (inp : Input α) : Result α :=
  let items := checkItems inp
  let ys := ordinates items (checkExtra inp)
  let nT := inp.tris.length
  let res := (slabPairs ys).foldl (fun (acc : Nat × Nat × List (Fail α)) (yy : α × α) =>
      let st := sweepSlab inp.mode inp.rule inp.edges inp.d2 nT items yy.1 yy.2
      (acc.1 + 1, acc.2.1 + st.2, st.1 ++ acc.2.2)) (0, 0, [])
  let deg := (inp.tris.zipIdx).filterMap (fun (t, i) => if triArea2 t == zero then some i else none)
  ⟨res.1, res.2.1, res.2.2, deg⟩

/-! ### semantic definitions (what the checker's answer means) -/

/-- the leftward ray from `q` crosses the (upward-normalised) item -/
def Item.leftOf (it : Item α) (q : P α) : Bool :=
  it.a.y ≤ q.y && q.y < it.b.y && it.xAt q.y < q.x

/-- winding number of the outline around `q` -/
def winding (edges : List (P α × P α)) (q : P α) : Int :=
  ((edgeItems edges).filter (fun it => it.leftOf q)).foldl (fun w it => w + it.dir) 0

/-- number of triangles whose boundary the leftward ray from `q` crosses an odd number of times -/
def coverage (tris : List (P α × P α × P α)) (q : P α) : Nat :=
  (tris.filter (fun t =>
    let its := [mkItem t.1 t.2.1 false 1, mkItem t.2.1 t.2.2 false 1, mkItem t.2.2 t.1 false 1].filterMap id
    (its.filter (fun it => it.leftOf q)).length % 2 == 1)).length

end Lyon.Slab
