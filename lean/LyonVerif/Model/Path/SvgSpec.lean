/-
  Reference semantics of SVG path commands, written independently of `WithSvg`'s fields
  (specification side of C15; nothing here is executed by the driver).

  State: current point, initial point of the current sub-path, "a sub-path is open",
  "nothing was started yet", and the *previous command* as far as smooth commands care
  (`Prev`: a quadratic with its control point, a cubic with its second control point, an arc,
  anything else).

  Rules (SVG 1.1 §8.3 / SVG 2 §9.3, plus lyon's documented convention for invalid path data):
  * relative operands are offsets from the current point; `H`/`V` keep the other coordinate;
  * `M` ends an open sub-path without closing it and starts a new one;
  * `Z` closes the open sub-path; the current point returns to its initial point; a drawing
    command after `Z` starts a new sub-path at that same initial point;
  * `S`/`T`: the first control point is the reflection of the previous command's (second)
    control point about the current point **if the previous command was C/S (resp. Q/T)**,
    otherwise the current point — in particular after an arc;
  * a drawing command that is the very first command of the path is replaced by a move-to to
    its target (documented on `SvgPathBuilder::line_to` etc.; SVG itself rejects such data);
  * arcs: the numeric geometry is the `Geo` parameter shared with the model (the conversion to
    quadratics is lyon_geom's business, C13); the rule stated here is what surrounds it:
    start a sub-path if none is open, draw the pieces, current point = end of the last piece,
    and the previous command is then "an arc" (no reflection afterwards).
-/
import LyonVerif.Model.Path.Svg

namespace Lyon.Svg
open Lyon.Path

inductive Prev (α : Type) where
  | other
  | quad (ctrl : Pt α)
  | cubic (ctrl2 : Pt α)
  | arc
deriving Repr

structure Spec (α : Type) where
  cur : Pt α
  start : Pt α
  isOpen : Bool
  fresh : Bool
  prev : Prev α
deriving Repr

section
variable {α ρ : Type}

def Spec.init (zero : α) : Spec α :=
  { cur := ⟨zero, zero⟩, start := ⟨zero, zero⟩, isOpen := false, fresh := true, prev := .other }

/-- `M p` -/
def Spec.moveTo (s : Spec α) (p : Pt α) : Spec α × Calls α :=
  ({ cur := p, start := p, isOpen := true, fresh := false, prev := .other },
   (if s.isOpen then [.end_ false] else []) ++ [.begin p ()])

/-- a drawing command with target `to`, emitting `edge`, remembered as `prev` -/
def Spec.draw (s : Spec α) (to : Pt α) (edge : Call (Pt α) Unit) (prev : Prev α) :
    Spec α × Calls α :=
  if s.isOpen then ({ s with cur := to, prev := prev }, [edge])
  else if s.fresh then s.moveTo to
  else ({ cur := to, start := s.start, isOpen := true, fresh := false, prev := prev },
        [.begin s.start (), edge])

/-- `Z` -/
def Spec.close (s : Spec α) : Spec α × Calls α :=
  if s.isOpen then ({ s with cur := s.start, isOpen := false, prev := .other }, [.end_ true])
  else ({ s with prev := .other }, [])

def lastTo (d : Pt α) : List (Pt α × Pt α) → Pt α
  | [] => d
  | (_, t) :: r => lastTo t r

def quadCalls (qs : List (Pt α × Pt α)) : Calls α := qs.map fun q => .quad q.1 q.2 ()

/-- the pieces of a (non-degenerate) arc whose first piece starts at `start`; a connecting line to
`start` moves the current point there (so also when no piece follows) -/
def Spec.arcOut (s : Spec α) : ArcOut α → Spec α × Calls α
  | .skip => ({ s with prev := .arc }, [])
  | .curve start near quads =>
    if s.isOpen then
      ({ s with cur := lastTo (if near then start else s.cur) quads, prev := .arc },
       (if near then [.line start ()] else []) ++ quadCalls quads)
    else
      ({ cur := lastTo start quads, start := start, isOpen := true, fresh := false, prev := .arc },
       (.begin start () : Call (Pt α) Unit) :: quadCalls quads)

def Spec.arcTo (s : Spec α) (to : Pt α) : SvgArcOut α → Spec α × Calls α
  | .straight => s.draw to (.line to ()) .other
  | .arc o => s.arcOut o

section
variable [Add α] [Sub α]

/-- first control point of `S` -/
def Spec.smoothCubic (s : Spec α) : Pt α :=
  match s.prev with
  | .cubic c => s.cur + (s.cur - c)
  | _ => s.cur

/-- control point of `T` -/
def Spec.smoothQuad (s : Spec α) : Pt α :=
  match s.prev with
  | .quad c => s.cur + (s.cur - c)
  | _ => s.cur

def Spec.step (g : Geo α ρ) (s : Spec α) : Cmd α ρ → Spec α × Calls α
  | .moveTo p => s.moveTo p
  | .relMoveTo v => s.moveTo (s.cur + v)
  | .close => s.close
  | .lineTo p => s.draw p (.line p ()) .other
  | .relLineTo v => s.draw (s.cur + v) (.line (s.cur + v) ()) .other
  | .hLineTo x => s.draw ⟨x, s.cur.y⟩ (.line ⟨x, s.cur.y⟩ ()) .other
  | .relHLineTo dx => s.draw ⟨s.cur.x + dx, s.cur.y⟩ (.line ⟨s.cur.x + dx, s.cur.y⟩ ()) .other
  | .vLineTo y => s.draw ⟨s.cur.x, y⟩ (.line ⟨s.cur.x, y⟩ ()) .other
  | .relVLineTo dy => s.draw ⟨s.cur.x, s.cur.y + dy⟩ (.line ⟨s.cur.x, s.cur.y + dy⟩ ()) .other
  | .quadTo c p => s.draw p (.quad c p ()) (.quad c)
  | .relQuadTo c v => s.draw (s.cur + v) (.quad (s.cur + c) (s.cur + v) ()) (.quad (s.cur + c))
  | .smoothQuadTo p => s.draw p (.quad s.smoothQuad p ()) (.quad s.smoothQuad)
  | .smoothRelQuadTo v =>
    s.draw (s.cur + v) (.quad s.smoothQuad (s.cur + v) ()) (.quad s.smoothQuad)
  | .cubicTo c1 c2 p => s.draw p (.cubic c1 c2 p ()) (.cubic c2)
  | .relCubicTo c1 c2 v =>
    s.draw (s.cur + v) (.cubic (s.cur + c1) (s.cur + c2) (s.cur + v) ()) (.cubic (s.cur + c2))
  | .smoothCubicTo c2 p => s.draw p (.cubic s.smoothCubic c2 p ()) (.cubic c2)
  | .smoothRelCubicTo c2 v =>
    s.draw (s.cur + v) (.cubic s.smoothCubic (s.cur + c2) (s.cur + v) ()) (.cubic (s.cur + c2))
  | .arcTo r p => s.arcTo p (g.endpoint r s.cur p)
  | .relArcTo r v => s.arcTo (s.cur + v) (g.endpoint r s.cur (s.cur + v))
  | .arc r => s.arcOut (g.center r s.cur)

def Spec.run (g : Geo α ρ) (s : Spec α) : List (Cmd α ρ) → Spec α × Calls α
  | [] => (s, [])
  | c :: r => ((Spec.run g (s.step g c).1 r).1, (s.step g c).2 ++ (Spec.run g (s.step g c).1 r).2)

/-- the path denoted by a command sequence: all sub-paths, the last one ended (not closed) if
still open -/
def specBuild (g : Geo α ρ) (zero : α) (cmds : List (Cmd α ρ)) : Calls α :=
  (Spec.run g (Spec.init zero) cmds).2 ++
    (if (Spec.run g (Spec.init zero) cmds).1.isOpen then [.end_ false] else [])

end

/-! syntactic classes of commands -/

def Cmd.isArc : Cmd α ρ → Bool
  | .arcTo .. | .relArcTo .. | .arc .. => true
  | _ => false

def Cmd.isSmooth : Cmd α ρ → Bool
  | .smoothCubicTo .. | .smoothRelCubicTo .. | .smoothQuadTo .. | .smoothRelQuadTo .. => true
  | _ => false

end

end Lyon.Svg
