/-
  Model of `crates/path/src/commands.rs` (C14): a path encoded as one array of `u32`
  (verb, ids …, and for End/Close the index of the sub-path's first event), with endpoints and
  control points stored externally.

  `CmdIter::next` is consumption of the remaining list; `.unwrap()` on an exhausted iterator,
  `cmds[i]`, `endpoints[i]`, `idx - 1` are `Option`s (`none` = Rust panics / reads outside).
  Mathlib-free.
-/
import LyonVerif.Model.Path.Trace

namespace Lyon.Path.Cmd

open Lyon.Path

def LINE : Nat := 0
def QUADRATIC : Nat := 1
def CUBIC : Nat := 2
def BEGIN : Nat := 3
def CLOSE : Nat := 4
def END : Nat := 5

/-- `PathCommandsBuilder` -/
structure Builder where
  cmds : List Nat
  firstEventIndex : Nat
deriving Repr

def Builder.new : Builder := ⟨[], 0⟩

/-- One builder call (endpoint and control point ids are the payload); returns the `EventId`. -/
def Builder.call {A : Type} (b : Builder) : Call Nat A → Builder × Nat
  | .begin to _ => (⟨b.cmds ++ [BEGIN, to], b.cmds.length⟩, b.cmds.length)
  | .line to _ => (⟨b.cmds ++ [LINE, to], b.firstEventIndex⟩, b.cmds.length)
  | .quad c to _ => (⟨b.cmds ++ [QUADRATIC, c, to], b.firstEventIndex⟩, b.cmds.length)
  | .cubic c1 c2 to _ => (⟨b.cmds ++ [CUBIC, c1, c2, to], b.firstEventIndex⟩, b.cmds.length)
  | .end_ cl =>
    (⟨b.cmds ++ [if cl then CLOSE else END, b.firstEventIndex], b.firstEventIndex⟩, b.cmds.length)

def Builder.run {A : Type} (b : Builder) : List (Call Nat A) → Builder × List Nat
  | [] => (b, [])
  | c :: r =>
    let s := b.call c
    let t := Builder.run s.1 r
    (t.1, s.2 :: t.2)

/-- `PathCommands::builder()…build()`: the command array and the event ids handed back -/
def build {A : Type} (prog : List (Call Nat A)) : List Nat × List Nat :=
  let r := Builder.new.run prog
  (r.1.cmds, r.2)

/-- `commands::Iter` (id events).  `prev`/`first` = `prev_endpoint`/`first_endpoint`. -/
def iterGo : List Nat → Nat → Nat → Option (List (Event Nat))
  | [], _, _ => some []
  | v :: r, prev, first =>
    if v = BEGIN then
      match r with
      | to :: r' => (iterGo r' to to).map fun t => Event.begin to :: t
      | [] => none
    else if v = LINE then
      match r with
      | to :: r' => (iterGo r' to first).map fun t => Event.line prev to :: t
      | [] => none
    else if v = QUADRATIC then
      match r with
      | c :: to :: r' => (iterGo r' to first).map fun t => Event.quad prev c to :: t
      | _ => none
    else if v = CUBIC then
      match r with
      | c1 :: c2 :: to :: r' => (iterGo r' to first).map fun t => Event.cubic prev c1 c2 to :: t
      | _ => none
    else
      -- END, and everything else is taken to be CLOSE; the back-pointer is skipped without unwrap
      match r with
      | _ :: r' => (iterGo r' first first).map fun t => Event.end_ prev first (v != END) :: t
      | [] => some [Event.end_ prev first (v != END)]

/-- `PathCommands::iter` -/
def iter (cmds : List Nat) : Option (List (Event Nat)) := iterGo cmds 0 0

/-- `commands::Events` / `PointEvents`: the same walk, each id looked up in the external stores
at the moment the event is produced. -/
def eventsGo {π : Type} (eps cps : List π) : List Nat → Nat → Nat → Option (List (Event π))
  | [], _, _ => some []
  | v :: r, prev, first =>
    if v = BEGIN then
      match r with
      | to :: r' => eps[to]?.bind fun a => (eventsGo eps cps r' to to).map fun t => Event.begin a :: t
      | [] => none
    else if v = LINE then
      match r with
      | to :: r' =>
        eps[prev]?.bind fun a => eps[to]?.bind fun b =>
          (eventsGo eps cps r' to first).map fun t => Event.line a b :: t
      | [] => none
    else if v = QUADRATIC then
      match r with
      | c :: to :: r' =>
        eps[prev]?.bind fun a => cps[c]?.bind fun k => eps[to]?.bind fun b =>
          (eventsGo eps cps r' to first).map fun t => Event.quad a k b :: t
      | _ => none
    else if v = CUBIC then
      match r with
      | c1 :: c2 :: to :: r' =>
        eps[prev]?.bind fun a => cps[c1]?.bind fun k1 => cps[c2]?.bind fun k2 => eps[to]?.bind fun b =>
          (eventsGo eps cps r' to first).map fun t => Event.cubic a k1 k2 b :: t
      | _ => none
    else
      match r with
      | _ :: r' =>
        eps[prev]?.bind fun a => eps[first]?.bind fun b =>
          (eventsGo eps cps r' first first).map fun t => Event.end_ a b (v != END) :: t
      | [] => eps[prev]?.bind fun a => eps[first]?.map fun b => [Event.end_ a b (v != END)]

/-- `PathCommands::events(endpoints, control_points)` -/
def events {π : Type} (cmds : List Nat) (eps cps : List π) : Option (List (Event π)) :=
  eventsGo eps cps cmds 0 0

/-- `PathCommandsSlice::event` -/
def event (cmds : List Nat) (idx : Nat) : Option (Event Nat) :=
  cmds[idx]?.bind fun v =>
    if v = LINE then
      (csubC idx).bind fun i => cmds[i]?.bind fun a => cmds[idx + 1]?.map fun b => Event.line a b
    else if v = QUADRATIC then
      (csubC idx).bind fun i => cmds[i]?.bind fun a => cmds[idx + 1]?.bind fun c =>
        cmds[idx + 2]?.map fun b => Event.quad a c b
    else if v = CUBIC then
      (csubC idx).bind fun i => cmds[i]?.bind fun a => cmds[idx + 1]?.bind fun c1 =>
        cmds[idx + 2]?.bind fun c2 => cmds[idx + 3]?.map fun b => Event.cubic a c1 c2 b
    else if v = BEGIN then
      cmds[idx + 1]?.map fun a => Event.begin a
    else
      cmds[idx + 1]?.bind fun firstEvent => (csubC idx).bind fun i => cmds[i]?.bind fun l =>
        cmds[firstEvent + 1]?.map fun f => Event.end_ l f (v != END)
where
  /-- `idx - 1` on `usize` -/
  csubC (idx : Nat) : Option Nat := if 1 ≤ idx then some (idx - 1) else none

/-- `next_event_id_in_sub_path` -/
def nextEventIdInSubPath (cmds : List Nat) (id : Nat) : Option Nat :=
  cmds[id]?.bind fun v =>
    if v = LINE ∨ v = BEGIN then some (id + 2)
    else if v = QUADRATIC then some (id + 3)
    else if v = CUBIC then some (id + 4)
    else cmds[id + 1]?

/-- `next_event_id_in_path`; outer `Option`: in bounds, inner: the function's result -/
def nextEventIdInPath (cmds : List Nat) (id : Nat) : Option (Option Nat) :=
  cmds[id]?.map fun v =>
    let next := if v = QUADRATIC then id + 3 else if v = CUBIC then id + 4 else id + 2
    if next < cmds.length then some next else none

/-- The event ids reached from `id` by `next_event_id_in_path` (at most `fuel` of them). -/
def walkIds (cmds : List Nat) : Nat → Nat → Option (List Nat)
  | 0, _ => some []
  | fuel + 1, id =>
    (nextEventIdInPath cmds id).bind fun n =>
      match n with
      | none => some [id]
      | some id' => (walkIds cmds fuel id').map fun t => id :: t

/-- all events by random access: ids `0, next(0), …` each through `event` -/
def eventsByWalk (cmds : List Nat) : Option (List (Event Nat)) :=
  if cmds.isEmpty then some []
  else (walkIds cmds cmds.length 0).bind fun ids => ids.mapM (event cmds)

end Lyon.Path.Cmd
