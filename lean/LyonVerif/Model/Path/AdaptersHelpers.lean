/-
  C16 — the PROVIDED methods of `PathBuilder` (crates/path/src/builder.rs) sent THROUGH the
  adapters of `Model/Path/Adapters.lean`.

  A builder program no longer consists of the five primitive calls only: `Cmd α` is one call
  on a `PathBuilder`, a primitive or one of the provided methods

      close, path_event, event, add_polygon, add_point, add_line_segment,
      add_rectangle, add_rounded_rectangle, add_circle, add_ellipse.

  A provided method has a default body that calls the builder's OWN primitive methods;
  `Cmd.expand` is that body as the list of primitive calls it makes (the shape helpers are the
  C03 model `Model/Path/Shapes.lean`, expression tree by expression tree; here every call of a
  helper carries the helper's `attributes` argument).  None of the adapters of lyon_path
  (`Flattened`, `Transformed`, `NoAttributes`, `Path::builder()`, `BuilderWithAttributes`)
  overrides a provided method, so an adapter that receives a helper call sees exactly the
  primitive calls of `Cmd.expand`, in its own (source) space:

      adapter(cmds)  :=  adapter(expandProg cmds).

  That is what the driver runs and what the tie compares bit for bit with the real adapters
  driven through the real provided methods: an adapter that overrode a helper with something
  that is not its default body followed by the adapter (e.g. `Transformed::add_rectangle`
  forwarding the box spanned by the transformed `min` / `max`: `Cmd.mapParams`, which is right
  only for maps without rotation / skew — `Props/C16d.lean`) shows as a mismatch.

  `NoAttributes<B>`'s inherent methods of the same names forward to `B`'s provided methods with
  `NO_ATTRIBUTES`: `noAttrCmd`.

  `Cmd.cut` is not a builder call: it marks where the harness builds the next piece of the
  program as a `Path` of its own and appends it with `extend_from_paths` (path concatenation);
  no primitive call corresponds to it — the concatenated storage must be the storage of the
  whole program.

  Mathlib-free.
-/
import LyonVerif.Model.Path.Shapes
import LyonVerif.Model.Path.Adapters

namespace Lyon.Adapt
open Lyon Lyon.Path Lyon.Scalar

/-- every call a shape helper makes carries the helper's `attributes` argument -/
def withAttr {π A B : Type} (a : B) : Call π A → Call π B
  | .begin p _ => .begin p a
  | .line p _ => .line p a
  | .quad c p _ => .quad c p a
  | .cubic c1 c2 p _ => .cubic c1 c2 p a
  | .end_ cl => .end_ cl

/-- one call on a `PathBuilder`: a primitive or a provided method -/
inductive Cmd (α : Type) where
  /-- `begin / line_to / quadratic_bezier_to / cubic_bezier_to / end` -/
  | prim (c : Call (P α) (List α))
  /-- `close()` -/
  | close
  /-- `path_event(event, attributes)`; `from` / `last` / `first` of the event are not used -/
  | pathEvent (e : Event (P α)) (a : List α)
  /-- `event(Event<(Point, Attributes), Point>)`: the attributes are those of the event's `to` -/
  | event (e : Event (AP (P α) α))
  /-- `add_polygon(Polygon{points, closed}, attributes)` -/
  | polygon (pts : List (P α)) (closed : Bool) (a : List α)
  /-- `add_point(at, attributes)` -/
  | point (p : P α) (a : List α)
  /-- `add_line_segment(&LineSegment{from, to}, attributes)` -/
  | segment (p q : P α) (a : List α)
  /-- `add_rectangle(&Box2D{min, max}, winding, attributes)` -/
  | rectangle (mn mx : P α) (positive : Bool) (a : List α)
  /-- `add_rounded_rectangle(&Box2D{min, max}, &BorderRadii{..}, winding, attributes)` -/
  | roundedRectangle (mn mx : P α) (radii : PathShapes.Radii α) (positive : Bool) (a : List α)
  /-- `add_circle(center, radius, winding, attributes)` -/
  | circle (c : P α) (r : α) (positive : Bool) (a : List α)
  /-- `add_ellipse(center, radii, x_rotation, winding, attributes)` -/
  | ellipse (c radii : P α) (xrot : α) (positive : Bool) (a : List α)
  /-- harness marker (path concatenation), not a builder call -/
  | cut

section Expand
variable {α : Type} [Scalar α] [Transc α]

/-- `PathBuilder::path_event`: `match event { Begin{at} => begin(at, attributes), Line{to, ..}
=> line_to(to, attributes), …, End{close, ..} => end(close) }` -/
def pathEventCall (a : List α) : Event (P α) → Call (P α) (List α)
  | .begin p => .begin p a
  | .line _ b => .line b a
  | .quad _ c b => .quad c b a
  | .cubic _ c d b => .cubic c d b a
  | .end_ _ _ cl => .end_ cl

/-- `PathBuilder::event`: `Begin{at} => begin(at.0, at.1), Line{to, ..} => line_to(to.0, to.1),
Quadratic{ctrl, to, ..} => quadratic_bezier_to(ctrl, to.0, to.1), …` -/
def eventCall : Event (AP (P α) α) → Call (P α) (List α)
  | .begin p => .begin p.1 p.2
  | .line _ b => .line b.1 b.2
  | .quad _ c b => .quad c.1 b.1 b.2
  | .cubic _ c d b => .cubic c.1 d.1 b.1 b.2
  | .end_ _ _ cl => .end_ cl

/-- the default body of a provided method, as the primitive calls it makes on `self` -/
def Cmd.expand : Cmd α → List (Call (P α) (List α))
  | .prim c => [c]
  | .close => [.end_ true]
  | .pathEvent e a => [pathEventCall a e]
  | .event e => [eventCall e]
  | .polygon pts closed a => (PathShapes.addPolygon pts closed).map (withAttr a)
  | .point p a => [.begin p a, .end_ false]
  | .segment p q a => [.begin p a, .line q a, .end_ false]
  | .rectangle mn mx w a => (PathShapes.addRectangle mn mx w).map (withAttr a)
  | .roundedRectangle mn mx r w a => (PathShapes.addRoundedRectangle mn mx r w).map (withAttr a)
  | .circle c r w a => (PathShapes.addCircle c r w).map (withAttr a)
  | .ellipse c radii xrot w a => (PathShapes.addEllipse c radii xrot w).map (withAttr a)
  | .cut => []

/-- what a builder without overrides receives for a program with helper calls -/
def expandProg (cmds : List (Cmd α)) : List (Call (P α) (List α)) := cmds.flatMap Cmd.expand

/-- the seeded-defect shape, kept as a definition so that the theorems can say for which maps it
is right: a helper called with TRANSFORMED PARAMETERS (points through `g`; radii, rotation and
winding as they are) — what an override `Transformed::add_x` that forwards to the wrapped
builder's `add_x` sends on.  Helpers whose parameters are all points are `mapParams`-exact for
every `g`; for boxes / circles / ellipses it equals the transformed expansion only for special
`g` (`Props/C16d.lean`: diagonal maps for `add_rectangle`, and a rotation witness). -/
def Cmd.mapParams (g : P α → P α) : Cmd α → Cmd α
  | .prim c => .prim (mapCall g c)
  | .close => .close
  | .pathEvent e a => .pathEvent (mapEvent g e) a
  | .event e => .event (mapEvent (fun q => (g q.1, q.2)) e)
  | .polygon pts closed a => .polygon (pts.map g) closed a
  | .point p a => .point (g p) a
  | .segment p q a => .segment (g p) (g q) a
  | .rectangle mn mx w a => .rectangle (g mn) (g mx) w a
  | .roundedRectangle mn mx r w a => .roundedRectangle (g mn) (g mx) r w a
  | .circle c r w a => .circle (g c) r w a
  | .ellipse c radii xrot w a => .ellipse (g c) radii xrot w a
  | .cut => .cut

/-- `NoAttributes<B>`'s inherent `add_x(..)` = `self.inner.add_x(.., NO_ATTRIBUTES)` -/
def noAttrCmd : Cmd α → Cmd α
  | .prim c => .prim (noAttrCall c)
  | .close => .close
  | .pathEvent e _ => .pathEvent e []
  | .event e => .event (mapEvent (fun q => (q.1, [])) e)
  | .polygon pts closed _ => .polygon pts closed []
  | .point p _ => .point p []
  | .segment p q _ => .segment p q []
  | .rectangle mn mx w _ => .rectangle mn mx w []
  | .roundedRectangle mn mx r w _ => .roundedRectangle mn mx r w []
  | .circle c r w _ => .circle c r w []
  | .ellipse c radii xrot w _ => .ellipse c radii xrot w []
  | .cut => .cut

/-- what a call is to the protocol `(begin edge* end)*` -/
inductive Role where
  | begin | edge | end_ | shape
deriving DecidableEq, Repr

def callRole {π A : Type} : Call π A → Role
  | .begin .. => .begin
  | .end_ _ => .end_
  | _ => .edge

def eventRole {π : Type} : Event π → Role
  | .begin _ => .begin
  | .end_ .. => .end_
  | _ => .edge

/-- `close`, `path_event` and `event` count as the primitive they stand for; an `add_*` helper
makes a whole sub-path of its own (`shape`: must be called with no sub-path in progress, leaves
none in progress); so does, trivially, the harness marker `cut` -/
def Cmd.role : Cmd α → Role
  | .prim c => callRole c
  | .close => .end_
  | .pathEvent e _ => eventRole e
  | .event e => eventRole e
  | _ => .shape

/-- the protocol of a program with helper calls: `(begin edge* end | add_*)*`.  `inSub` = a
sub-path is in progress. -/
def cmdsNestedFrom : Bool → List (Cmd α) → Bool
  | inSub, [] => !inSub
  | inSub, c :: r =>
    match c.role with
    | .shape => !inSub && cmdsNestedFrom false r
    | .begin => !inSub && cmdsNestedFrom true r
    | .edge => inSub && cmdsNestedFrom true r
    | .end_ => inSub && cmdsNestedFrom false r

def CmdsNested (cmds : List (Cmd α)) : Prop := cmdsNestedFrom false cmds = true

instance (cmds : List (Cmd α)) : Decidable (CmdsNested cmds) :=
  inferInstanceAs (Decidable (_ = true))

/-- every endpoint / helper call carries exactly `n` attributes -/
def Cmd.attrsLen (n : Nat) : Cmd α → Bool
  | .prim c => Adapt.attrsLen n [c]
  | .close => true
  | .pathEvent e a => eventRole e == .end_ || a.length == n
  | .event e => Adapt.attrsLen n [eventCall e]
  | .polygon _ _ a => a.length == n
  | .point _ a => a.length == n
  | .segment _ _ a => a.length == n
  | .rectangle _ _ _ a => a.length == n
  | .roundedRectangle _ _ _ _ a => a.length == n
  | .circle _ _ _ a => a.length == n
  | .ellipse _ _ _ _ a => a.length == n
  | .cut => true

/-! ### Path concatenation: the pieces between `cut` marks (harness `pieces`) -/

/-- the program split at its `cut` marks (always at least one chunk) -/
def splitCuts : List (Cmd α) → List (List (Cmd α))
  | [] => [[]]
  | c :: r =>
    match c, splitCuts r with
    | .cut, t => [] :: t
    | c, [] => [[c]]
    | c, h :: t => (c :: h) :: t

/-- chunks after the first: an EMPTY chunk means "the next chunk is driven directly into the
final builder again"; every other chunk is built as a path of its own (`direct = false`) unless
it follows an empty one -/
def markPieces : Bool → List (List (Cmd α)) → List (List (Cmd α) × Bool)
  | _, [] => []
  | d, p :: r => if p.isEmpty then markPieces true r else (p, d) :: markPieces false r

/-- `(piece, direct)`: chunk 0 is always driven directly into the final builder -/
def piecesOf (cmds : List (Cmd α)) : List (List (Cmd α) × Bool) :=
  match splitCuts cmds with
  | [] => []
  | p0 :: r => (p0, true) :: markPieces false r

end Expand

/-! ## Stored by concatenation: `extend_from_paths` (crates/path/src/path.rs) -/

section Concat
variable {S : Type} [Inhabited S]

/-- `concatenate_paths(&mut points, &mut verbs, paths, num_attributes)` on a built path:
`assert_eq!(path.num_attributes(), num_attributes)` for every path (`none` = panic), then the
verbs and the points (attribute slots included) of each path are appended -/
def concatPaths (p : PathData S) (paths : List (PathData S)) : Option (PathData S) :=
  if paths.all (fun q => q.numAttributes == p.numAttributes) then
    some { p with points := p.points ++ paths.flatMap (·.points),
                  verbs := p.verbs ++ paths.flatMap (·.verbs) }
  else none

/-- `BuilderWithAttributes::extend_from_paths(&[PathSlice])`: the same on the builder's
storage; `first` / `first_attributes` keep their old contents -/
def extendFromPaths (b : BuilderWithAttributes S) (paths : List (PathData S)) :
    Option (BuilderWithAttributes S) :=
  if paths.all (fun q => q.numAttributes == b.numAttributes) then
    some { b with builder := { b.builder with
      points := b.builder.points ++ paths.flatMap (·.points),
      verbs := b.builder.verbs ++ paths.flatMap (·.verbs) } }
  else none

/-- how the harness stores a program with `cut` marks (`build_path`): direct pieces are driven
into the final builder, the others are built by `Path::builder_with_attributes(n)` on their own
and every run of them is appended with one `extend_from_paths` call.  `pending` = the paths
built and not yet appended. -/
def storePieces (n : Nat) (b : BuilderWithAttributes S) (pending : List (PathData S)) :
    List (List (Call (Pt S) (List S)) × Bool) → Option (PathData S)
  | [] => (extendFromPaths b pending).map BuilderWithAttributes.build
  | (p, true) :: r =>
    (extendFromPaths b pending).bind fun b1 => (b1.run p).bind fun s => storePieces n s.1 [] r
  | (p, false) :: r =>
    (buildWithAttributes n p).bind fun q => storePieces n b (pending ++ [q]) r

end Concat

/-! ## The iterator-side adapters, event by event

`iterator::Transformed` / `iterator::Flattened` / `for_each_flattened` are adapters over ANY
stream of events (a suffix after some `next()` calls, `skip` / `filter` / `take` / `chain`
upstream), not only over the complete stream of a well-formed path.  Their contract there:
what each yields for an event depends on THAT event only. -/

section PerEvent
variable {π α : Type} [Scalar α]

/-- `iterator::Flattened` on one event: a curve event is replaced by the chain through the
points of the lyon_geom iterator on its own `from / ctrl / to`; every other event passes -/
def flatEvent (G : IterFlattener π) : Event π → List (Event π)
  | .quad a c b => chain a (G.quad a c b)
  | .cubic a c d b => chain a (G.cubic a c d b)
  | e => [e]

/-- `for_each_flattened` on one event (attributes interpolated between this event's endpoints) -/
def flatAttrEvent (F : Flattener π α) : Event (AP π α) → List (Event (AP π α))
  | .quad a c b => linesA a.2 b.2 a.2 (F.quad a.1 c.1 b.1)
  | .cubic a c d b => linesA a.2 b.2 a.2 (F.cubic a.1 c.1 d.1 b.1)
  | e => [e]

/-- `Event::is_edge` (events.rs): `Line | Quadratic | Cubic | End { close: true }` -/
def Event.isEdge : Event π → Bool
  | .line .. => true
  | .quad .. => true
  | .cubic .. => true
  | .end_ _ _ true => true
  | _ => false

end PerEvent

end Lyon.Adapt
