/-
  Model of `crates/path/src/path_buffer.rs` (C14): several paths stored contiguously, one
  descriptor per path, endpoint ids rebased to the path's own start (`adjust_id`).

  `BuilderWithAttributes::build` records the builder's attribute count in the descriptor.
  (Former defect, repaired by /repo commit 61889d0a: it used to record `num_attributes: 0`, so an
  entry written with attributes was read back as if it had none.)
  Mathlib-free.
-/
import LyonVerif.Model.Path.Store

namespace Lyon.Path

structure PathDescriptor where
  points : Nat × Nat
  verbs : Nat × Nat
  numAttributes : Nat
deriving Repr

structure PathBuffer (S : Type) where
  points : List (Pt S)
  verbs : List Verb
  paths : List PathDescriptor
deriving Repr

section
variable {S : Type} [Inhabited S]

def PathBuffer.new : PathBuffer S := ⟨[], [], []⟩

/-- `PathBuffer::get` (`none`: descriptor index or one of the two ranges out of bounds) -/
def PathBuffer.get (b : PathBuffer S) (index : Nat) : Option (PathData S) :=
  b.paths[index]?.bind fun desc =>
    (sliceRange b.points desc.points.1 desc.points.2).bind fun pts =>
      (sliceRange b.verbs desc.verbs.1 desc.verbs.2).map fun vs => ⟨pts, vs, desc.numAttributes⟩

/-- `adjust_id` -/
def adjustId (pointsStart : Nat) (id : Nat) : Option Nat := csub id pointsStart

def adjustIds (pointsStart : Nat) : List Nat → Option (List Nat)
  | [] => some []
  | i :: r => (adjustId pointsStart i).bind fun j => (adjustIds pointsStart r).map fun t => j :: t

/-- `buffer.builder()`, a program, `.build()`: returns the buffer, the rebased endpoint ids and
the index of the new path. -/
def PathBuffer.addPlain {A : Type} (b : PathBuffer S) (prog : List (Call (Pt S) A)) :
    Option (PathBuffer S × List Nat × Nat) :=
  -- Builder::new: the buffer's vectors are swapped into a fresh `path::Builder`
  let start : BuilderImpl S := { points := b.points, verbs := b.verbs, first := zeroPt }
  let pointsStart := b.points.length
  let verbsStart := b.verbs.length
  let r := start.run prog
  (adjustIds pointsStart r.2).map fun ids =>
    ({ points := r.1.points, verbs := r.1.verbs,
       paths := b.paths ++ [{ points := (pointsStart, r.1.points.length),
                              verbs := (verbsStart, r.1.verbs.length), numAttributes := 0 }] },
     ids, b.paths.length)

/-- `buffer.builder().with_attributes(n)` (or `BuilderWithAttributes::new`), a program, `.build()`. -/
def PathBuffer.addWithAttributes (b : PathBuffer S) (n : Nat) (prog : List (Call (Pt S) (List S))) :
    Option (PathBuffer S × List Nat × Nat) :=
  let start : BuilderWithAttributes S :=
    { builder := { points := b.points, verbs := b.verbs, first := zeroPt },
      numAttributes := n, firstAttributes := List.replicate n default }
  let pointsStart := b.points.length
  let verbsStart := b.verbs.length
  (start.run prog).bind fun r =>
    (adjustIds pointsStart r.2).map fun ids =>
      ({ points := r.1.builder.points, verbs := r.1.builder.verbs,
         paths := b.paths ++ [{ points := (pointsStart, r.1.builder.points.length),
                                verbs := (verbsStart, r.1.builder.verbs.length),
                                numAttributes := r.1.numAttributes }] },
       ids, b.paths.length)

end

end Lyon.Path
