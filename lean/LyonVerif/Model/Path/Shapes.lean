/-
  C03 — the shape helpers of the path builders, as the sequence of builder calls they make.

  Mirrors, expression by expression (operand order included: the tie is bit-level at `Float32`)
  * crates/path/src/builder.rs  `PathBuilder::{add_polygon, add_rectangle, add_ellipse}` (default
                                methods), the free functions `add_circle` (four cubics, constant
                                0.55191505) and `add_rounded_rectangle` (radius clamping, the 16
                                points, both windings) behind `PathBuilder::{add_circle,
                                add_rounded_rectangle}`;
  * crates/tessellation/src/fill.rs  `FillBuilder::add_circle` (its own routine: eight single-quadratic
                                sub-paths plus the inscribed octagon, constant tan(π/8) = 0.41421357);
                                `FillBuilder`'s other helpers are the `PathBuilder` defaults above.

  A helper is modelled as the list of `Call`s (`Model/Path/Trace.lean`) it sends to the builder,
  with the attribute slot `Unit`.  `positive = true` is `Winding::Positive`.

  `add_ellipse` goes through `Arc::for_each_quadratic_bezier`, i.e. `ArcConv.quadsWithT`
  (`Model/Geom/SvgArc.lean`).

  Mathlib-free.
-/
import LyonVerif.Model.Path.Trace
import LyonVerif.Model.Geom.SvgArc

namespace Lyon.PathShapes
open Lyon Lyon.Scalar Lyon.Path

variable {α : Type} [Scalar α]

abbrev Calls (α : Type) := List (Call (P α) Unit)

/-- `match winding { Positive => 1.0, Negative => -1.0 }` -/
def dirOf (positive : Bool) : α := if positive then one else -one

/-! ### `add_polygon`, `add_rectangle` -/

/-- `PathBuilder::add_polygon(Polygon{points, closed})` -/
def addPolygon (pts : List (P α)) (closed : Bool) : Calls α :=
  match pts with
  | [] => []
  | p :: r => Call.begin p () :: (r.map (fun q => Call.line q ())) ++ [Call.end_ closed]

/-- the four corners handed to `add_polygon` by `add_rectangle` -/
def rectPoints (mn mx : P α) (positive : Bool) : List (P α) :=
  if positive then [mn, ⟨mx.x, mn.y⟩, mx, ⟨mn.x, mx.y⟩]
  else [mn, ⟨mn.x, mx.y⟩, mx, ⟨mx.x, mn.y⟩]

/-- `PathBuilder::add_rectangle(&Box2D{min, max}, winding)` -/
def addRectangle (mn mx : P α) (positive : Bool) : Calls α :=
  addPolygon (rectPoints mn mx positive) true

/-! ### `add_circle` (builder.rs free function) -/

/-- `CONSTANT_FACTOR: f32 = 0.55191505` -/
def circleK : α := ofSci 55191505 8

/-- `center + vector(x, y)` -/
def off (c : P α) (x y : α) : P α := c + ⟨x, y⟩

/-- builder.rs `add_circle(builder, center, radius, winding)` -/
def addCircle (c : P α) (radius : α) (positive : Bool) : Calls α :=
  let r := abs radius
  let dir : α := dirOf positive
  let d := r * circleK
  [ Call.begin (off c (-r) zero) (),
    Call.cubic (off c (-r) ((-d) * dir)) (off c (-d) ((-r) * dir)) (off c zero ((-r) * dir)) (),
    Call.cubic (off c d ((-r) * dir)) (off c r ((-d) * dir)) (off c r zero) (),
    Call.cubic (off c r (d * dir)) (off c d (r * dir)) (off c zero (r * dir)) (),
    Call.cubic (off c (-d) (r * dir)) (off c (-r) (d * dir)) (off c (-r) zero) (),
    Call.end_ true ]

/-! ### `add_ellipse` -/

section
variable [Transc α]

/-- the `Arc` of `add_ellipse`: start 0, sweep `Angle::radians(2.0 * PI) * dir` -/
def ellipseArc (c radii : P α) (xrot : α) (positive : Bool) : Arc α :=
  { center := c, radii := radii, start := zero, sweep := (two * Transc.pi) * dirOf positive, xrot := xrot }

/-- `PathBuilder::add_ellipse(center, radii, x_rotation, winding)` -/
def addEllipse (c radii : P α) (xrot : α) (positive : Bool) : Calls α :=
  let arc := ellipseArc c radii xrot positive
  Call.begin (arc.sample zero) ()
    :: ((ArcConv.quadsWithT arc).map (fun q => Call.quad q.1.c q.1.b ())) ++ [Call.end_ true]

/-- `cast::<S, i32>(n_steps).unwrap()` inside `for_each_quadratic_bezier` panics on NaN
(non-finite radii/centre do not matter, only the sweep, which is ±2π here: never) -/
def addEllipsePanics (c radii : P α) (xrot : α) (positive : Bool) : Bool :=
  ArcConv.bezPanics (ellipseArc c radii xrot positive)
end

/-! ### `add_rounded_rectangle` (builder.rs free function) -/

/-- the four corner radii while they are being clamped -/
structure Radii (α : Type) where
  tl : α
  tr : α
  bl : α
  br : α

/-- `radii.X.abs().min(min_wh)` for the four corners (`min_wh = w.min(h)`) -/
def radiiInit (w h : α) (r : Radii α) : Radii α :=
  let m := Scalar.min w h
  ⟨Scalar.min (abs r.tl) m, Scalar.min (abs r.tr) m, Scalar.min (abs r.bl) m, Scalar.min (abs r.br) m⟩

/-- `(a + b - w) * 0.5` -/
def excess (a b w : α) : α := (a + b - w) * half

/-- `if tl + tr > w { let x = (tl + tr - w) * 0.5; tl -= x; tr -= x; }` -/
def clampTop (w : α) (r : Radii α) : Radii α :=
  if r.tl + r.tr > w then { r with tl := r.tl - excess r.tl r.tr w, tr := r.tr - excess r.tl r.tr w } else r
/-- `if bl + br > w { … }` -/
def clampBottom (w : α) (r : Radii α) : Radii α :=
  if r.bl + r.br > w then { r with bl := r.bl - excess r.bl r.br w, br := r.br - excess r.bl r.br w } else r
/-- `if tr + br > h { … }` -/
def clampRight (h : α) (r : Radii α) : Radii α :=
  if r.tr + r.br > h then { r with tr := r.tr - excess r.tr r.br h, br := r.br - excess r.tr r.br h } else r
/-- `if tl + bl > h { … }` -/
def clampLeft (h : α) (r : Radii α) : Radii α :=
  if r.tl + r.bl > h then { r with tl := r.tl - excess r.tl r.bl h, bl := r.bl - excess r.tl r.bl h } else r

/-- the radii actually used -/
def clampRadii (w h : α) (r : Radii α) : Radii α :=
  clampLeft h (clampRight h (clampBottom w (clampTop w (radiiInit w h r))))

/-- the array `points[0..16]` -/
def rrPoints (mn mx : P α) (r : Radii α) : Array (P α) :=
  let tlD := r.tl * circleK
  let trD := r.tr * circleK
  let brD := r.br * circleK
  let blD := r.bl * circleK
  let tlC : P α := ⟨mn.x, mn.y⟩
  let trC : P α := ⟨mx.x, mn.y⟩
  let brC : P α := ⟨mx.x, mx.y⟩
  let blC : P α := ⟨mn.x, mx.y⟩
  #[ ⟨mn.x, mn.y + r.tl⟩,
     off tlC zero (r.tl - tlD),
     off tlC (r.tl - tlD) zero,
     off tlC r.tl zero,
     ⟨mx.x - r.tr, mn.y⟩,
     off trC ((-r.tr) + trD) zero,
     off trC zero (r.tr - trD),
     off trC zero r.tr,
     ⟨mx.x, mx.y - r.br⟩,
     off brC zero ((-r.br) + brD),
     off brC ((-r.br) + brD) zero,
     off brC (-r.br) zero,
     ⟨mn.x + r.bl, mx.y⟩,
     off blC (r.bl - blD) zero,
     off blC zero ((-r.bl) + blD),
     off blC zero (-r.bl) ]

/-- `if r > 0.0 { builder.cubic_bezier_to(a, b, c) }` -/
def cornerCubic (r : α) (a b c : P α) : Calls α :=
  if r > zero then [Call.cubic a b c ()] else []

def origin : P α := ⟨zero, zero⟩

/-- the calls, from the clamped radii and the 16 points -/
def rrCalls (p : Array (P α)) (r : Radii α) (positive : Bool) : Calls α :=
  let g := fun (i : Nat) => p.getD i origin
  if positive then
    [Call.begin (g 0) ()] ++ cornerCubic r.tl (g 1) (g 2) (g 3) ++
    [Call.line (g 4) ()] ++ cornerCubic r.tr (g 5) (g 6) (g 7) ++
    [Call.line (g 8) ()] ++ cornerCubic r.br (g 9) (g 10) (g 11) ++
    [Call.line (g 12) ()] ++ cornerCubic r.bl (g 13) (g 14) (g 15) ++
    [Call.end_ true]
  else
    [Call.begin (g 15) ()] ++ cornerCubic r.bl (g 14) (g 13) (g 12) ++
    [Call.line (g 11) ()] ++ cornerCubic r.br (g 10) (g 9) (g 8) ++
    [Call.line (g 7) ()] ++ cornerCubic r.tr (g 6) (g 5) (g 4) ++
    [Call.line (g 3) ()] ++ cornerCubic r.tl (g 2) (g 1) (g 0) ++
    [Call.end_ true]

/-- builder.rs `add_rounded_rectangle(builder, &Box2D{min, max}, &BorderRadii{..}, winding)`;
`radii` = (top_left, top_right, bottom_left, bottom_right) -/
def addRoundedRectangle (mn mx : P α) (radii : Radii α) (positive : Bool) : Calls α :=
  let w := mx.x - mn.x
  let h := mx.y - mn.y
  let r := clampRadii w h radii
  rrCalls (rrPoints mn mx r) r positive

/-! ### `FillBuilder::add_circle` (fill.rs) -/

/-- `tan_pi_over_8 = 0.41421357` -/
def tanPi8 : α := ofSci 41421357 8
/-- `core::f32::consts::FRAC_1_SQRT_2` -/
def frac1Sqrt2 : α := ofSci 70710678118654752440 20

/-- `center + vector(sx, sy) * radius * FRAC_1_SQRT_2` -/
def diag (c : P α) (sx sy r : α) : P α := c + ((⟨sx, sy⟩ : P α).smul r).smul frac1Sqrt2

/-- `begin(a); quadratic_bezier_to(k, b); end(false)` -/
def quadSub (a k b : P α) : Calls α := [Call.begin a (), Call.quad k b (), Call.end_ false]

/-- fill.rs `FillBuilder::add_circle(center, radius, winding)`: every eighth of the circle in a
sub-path of its own, then the inscribed octagon -/
def fillAddCircle (c : P α) (radius : α) (positive : Bool) : Calls α :=
  let r := abs radius
  let dir : α := dirOf positive
  let d := r * tanPi8
  let start := off c (-r) zero
  let m0 := diag c (-one) (-dir) r
  let m1 := off c zero ((-r) * dir)
  let m2 := diag c one (-dir) r
  let m3 := off c r zero
  let m4 := diag c one dir r
  let m5 := off c zero (r * dir)
  let m6 := diag c (-one) dir r
  quadSub start (off c (-r) ((-d) * dir)) m0 ++
  quadSub m0 (off c (-d) ((-r) * dir)) m1 ++
  quadSub m1 (off c d ((-r) * dir)) m2 ++
  quadSub m2 (off c r ((-d) * dir)) m3 ++
  quadSub m3 (off c r (d * dir)) m4 ++
  quadSub m4 (off c d (r * dir)) m5 ++
  quadSub m5 (off c (-d) (r * dir)) m6 ++
  quadSub m6 (off c (-r) (d * dir)) start ++
  [ Call.begin start (), Call.line m0 (), Call.line m1 (), Call.line m2 (), Call.line m3 (),
    Call.line m4 (), Call.line m5 (), Call.line m6 (), Call.end_ true ]

end Lyon.PathShapes
