/-
  Protocol trace language shared by the path-related properties (C14–C17, C19).

  * `Call π A`  — what a `PathBuilder` receives (`begin / line_to / quadratic_bezier_to /
                  cubic_bezier_to / end(close)`), with endpoint attributes of type `A`.
  * `WellNested` — the calls form `(begin edge* end)*`.
  * `Event π`   — what a path iterator yields (`PathEvent`).
  * `WellFormed` — Begin, edges each starting where the previous ended, End naming the last
                  point and the sub-path's first point.
  * `specEvents` — the specification: the events a well-nested program denotes.

  Generic in the point type `π` (integers for the discrete models, `P α` for numeric ones).
  Mathlib-free.
-/

namespace Lyon.Path

inductive Call (π A : Type) where
  | begin (p : π) (a : A)
  | line (p : π) (a : A)
  | quad (c p : π) (a : A)
  | cubic (c1 c2 p : π) (a : A)
  | end_ (close : Bool)
deriving Repr, BEq, DecidableEq

inductive Event (π : Type) where
  | begin (at_ : π)
  | line (from_ to : π)
  | quad (from_ ctrl to : π)
  | cubic (from_ ctrl1 ctrl2 to : π)
  | end_ (last first : π) (close : Bool)
deriving Repr, BEq, DecidableEq

variable {π A : Type}

/-- `(begin edge* end)*`, starting inside a sub-path iff `inSub`. -/
def wellNestedFrom : Bool → List (Call π A) → Bool
  | inSub, [] => !inSub
  | false, .begin _ _ :: r => wellNestedFrom true r
  | true, .line _ _ :: r => wellNestedFrom true r
  | true, .quad _ _ _ :: r => wellNestedFrom true r
  | true, .cubic _ _ _ _ :: r => wellNestedFrom true r
  | true, .end_ _ :: r => wellNestedFrom false r
  | _, _ :: _ => false

def WellNested (l : List (Call π A)) : Prop := wellNestedFrom false l = true

instance (l : List (Call π A)) : Decidable (WellNested l) :=
  inferInstanceAs (Decidable (_ = true))

/-- Prefix-closed variant: every prefix can still be completed (no call out of place so far).
Returns the state after the prefix, or `none` if some call was out of place. -/
def nestState : Bool → List (Call π A) → Option Bool
  | s, [] => some s
  | false, .begin _ _ :: r => nestState true r
  | true, .line _ _ :: r => nestState true r
  | true, .quad _ _ _ :: r => nestState true r
  | true, .cubic _ _ _ _ :: r => nestState true r
  | true, .end_ _ :: r => nestState false r
  | _, _ :: _ => none

theorem wellNestedFrom_iff_nestState (s : Bool) (l : List (Call π A)) :
    wellNestedFrom s l = true ↔ nestState s l = some false := by
  induction l generalizing s with
  | nil => cases s <;> simp [wellNestedFrom, nestState]
  | cons c r ih =>
    cases s <;> cases c <;> simp [wellNestedFrom, nestState, ih]

/-- The events denoted by a program (specification semantics).  `st = some (first, cur)` inside
a sub-path.  Calls out of place are ignored (the function is total; use it on `WellNested` input). -/
def specFrom : Option (π × π) → List (Call π A) → List (Event π)
  | _, [] => []
  | none, .begin p _ :: r => .begin p :: specFrom (some (p, p)) r
  | some (f, c), .line p _ :: r => .line c p :: specFrom (some (f, p)) r
  | some (f, c), .quad k p _ :: r => .quad c k p :: specFrom (some (f, p)) r
  | some (f, c), .cubic k1 k2 p _ :: r => .cubic c k1 k2 p :: specFrom (some (f, p)) r
  | some (f, c), .end_ cl :: r => .end_ c f cl :: specFrom none r
  | st, _ :: r => specFrom st r

def specEvents (l : List (Call π A)) : List (Event π) := specFrom none l

/-- Well-formed event sequence, from state `st` (`some (first, cur)` inside a sub-path). -/
def wellFormedFrom [BEq π] : Option (π × π) → List (Event π) → Bool
  | st, [] => st.isNone
  | none, .begin p :: r => wellFormedFrom (some (p, p)) r
  | some (f, c), .line a b :: r => a == c && wellFormedFrom (some (f, b)) r
  | some (f, c), .quad a _ b :: r => a == c && wellFormedFrom (some (f, b)) r
  | some (f, c), .cubic a _ _ b :: r => a == c && wellFormedFrom (some (f, b)) r
  | some (f, c), .end_ l fst _ :: r => l == c && fst == f && wellFormedFrom none r
  | _, _ :: _ => false

def WellFormed [BEq π] (l : List (Event π)) : Prop := wellFormedFrom none l = true

/-- The specification events of a well-nested program are well-formed. -/
theorem specFrom_wellFormed [BEq π] [LawfulBEq π] (st : Option (π × π)) (l : List (Call π A))
    (h : wellNestedFrom st.isSome l = true) : wellFormedFrom st (specFrom st l) = true := by
  induction l generalizing st with
  | nil => cases st <;> simp_all [wellNestedFrom, specFrom, wellFormedFrom]
  | cons c r ih =>
    cases st with
    | none =>
      cases c <;> simp_all [wellNestedFrom, specFrom, wellFormedFrom]
    | some fc =>
      obtain ⟨f, cur⟩ := fc
      cases c <;> simp_all [wellNestedFrom, specFrom, wellFormedFrom]

theorem specEvents_wellFormed [BEq π] [LawfulBEq π] (l : List (Call π A)) (h : WellNested l) :
    WellFormed (specEvents l) :=
  specFrom_wellFormed none l h

end Lyon.Path
