/-
  Model of the flattening / transforming adapters of `lyon_path` (C16):

  * builder side  — `builder.rs`: `Flattened` (`begin / line_to / quadratic_bezier_to /
                    cubic_bezier_to / end`, `prev_attributes`, `attribute_buffer`) with
                    `private.rs::flatten_{quadratic,cubic}_bezier`, `Transformed`, `NoAttributes`;
  * iterator side — `iterator.rs`: `Flattened`, `Transformed` (through `PathEvent::transformed`,
                    `events.rs`), `path.rs`: `IterWithAttributes::for_each_flattened`;
  * stored        — `path.rs`: `Path::transformed` / `apply_transform` (an `IdIter` walk writing
                    through `self.points[id]`, incl. the copy of the first endpoint that
                    `end(true)` stores).

  A builder adapter is a function from the calls it receives to the calls the wrapped builder
  receives (as in the C15 model); an iterator adapter is a function on event lists.

  The curve flattener (lyon_geom, property C09) is a PARAMETER:
  `Flattener π α` gives, for a curve, the `(line.from, line.to, t.end)` triples that
  `for_each_flattened_with_t` hands to its callback; `IterFlattener π` gives the points the
  `Flattened` iterators of lyon_geom yield.  The driver instantiates both from what the real
  flattener returned for each curve (advice in the CASE line); the theorems hold for every
  flattener.

  Generic in the point type `π` (positions are never computed with here, only moved around) and
  in the scalar type `α` of the custom attributes.  Mathlib-free.
-/
import LyonVerif.Model.Scalar
import LyonVerif.Model.Path.Trace
import LyonVerif.Model.Path.Store

namespace Lyon.Adapt
open Lyon Lyon.Path

/-! ## Point maps (the `Transformed` adapters) -/

section Maps
variable {π π' A : Type}

/-- `builder::Transformed`: every position of a call goes through `transform_point`;
attributes and `end` are forwarded unchanged. -/
def mapCall (f : π → π') : Call π A → Call π' A
  | .begin p a => .begin (f p) a
  | .line p a => .line (f p) a
  | .quad c p a => .quad (f c) (f p) a
  | .cubic c1 c2 p a => .cubic (f c1) (f c2) (f p) a
  | .end_ cl => .end_ cl

/-- `PathEvent::transformed` (`events.rs`) -/
def mapEvent (f : π → π') : Event π → Event π'
  | .begin p => .begin (f p)
  | .line a b => .line (f a) (f b)
  | .quad a c b => .quad (f a) (f c) (f b)
  | .cubic a c d b => .cubic (f a) (f c) (f d) (f b)
  | .end_ l fst cl => .end_ (f l) (f fst) cl

/-- `builder::Transformed<B, T>` as a function on programs -/
def xfBuilder (f : π → π') (prog : List (Call π A)) : List (Call π' A) := prog.map (mapCall f)

/-- `iterator::Transformed` as a function on event streams -/
def xfIter (f : π → π') (evs : List (Event π)) : List (Event π') := evs.map (mapEvent f)

/-- `builder::NoAttributes`: forwards every call with `NO_ATTRIBUTES` -/
def noAttrCall {B : Type} : Call π A → Call π (List B)
  | .begin p _ => .begin p []
  | .line p _ => .line p []
  | .quad c p _ => .quad c p []
  | .cubic c1 c2 p _ => .cubic c1 c2 p []
  | .end_ cl => .end_ cl

def noAttrBuilder {B : Type} (prog : List (Call π A)) : List (Call π (List B)) :=
  prog.map noAttrCall

end Maps

/-! ## The curve flattener as a parameter -/

/-- one callback of `for_each_flattened_with_t`: `line.from`, `line.to`, `t.end` -/
structure FSeg (π α : Type) where
  a : π
  b : π
  t : α

/-- `QuadraticBezierSegment{from,ctrl,to}.for_each_flattened_with_t(tolerance, cb)` and the cubic
form, as the list of callbacks (the tolerance is fixed inside). -/
structure Flattener (π α : Type) where
  quad : π → π → π → List (FSeg π α)
  cubic : π → π → π → π → List (FSeg π α)

/-- `QuadraticBezierSegment::flattened(tolerance)` / `CubicBezierSegment::flattened(tolerance)`:
the points the lyon_geom iterators yield. -/
structure IterFlattener (π : Type) where
  quad : π → π → π → List π
  cubic : π → π → π → π → List π

/-! ## Builder side: `Flattened` -/

section Flat
variable {π α : Type} [Scalar α]
open Scalar

/-- the loop of `private.rs::flatten_*`:
`buffer[i] = prev_attributes[i] * (1.0 - t.end) + attributes[i] * t.end` -/
def interp (prev attrs : List α) (t : α) : List α :=
  List.zipWith (fun p a => p * (one - t) + a * t) prev attrs

/-- `let attr = if t.end == 1.0 { attributes } else { …buffer… }` -/
def emitAttr (prev attrs : List α) (t : α) : List α :=
  if t == one then attrs else interp prev attrs t

/-- `flatten_quadratic_bezier` / `flatten_cubic_bezier`: one `line_to(line.to, attr)` per
callback of the flattener -/
def emitLines (segs : List (FSeg π α)) (prev attrs : List α) : List (Call π (List α)) :=
  segs.map fun s => Call.line s.b (emitAttr prev attrs s.t)

/-- state of `builder::Flattened` (besides the wrapped builder and the tolerance) -/
structure FlatB (π α : Type) where
  cur : π
  prev : List α

/-- `Flattened::new`: `current_position: point(0,0)`, `prev_attributes: vec![0.0; n]` -/
def FlatB.init (origin : π) (n : Nat) : FlatB π α := ⟨origin, List.replicate n zero⟩

/-- One `PathBuilder` call on `Flattened<B>`: the new state and the calls `B` receives.
`begin` records the position AND the attributes of the first endpoint (lyon commit babe4617;
before it `prev_attributes` kept its old contents there — finding
`C16-flattened-begin-prev-attributes`, fixed). -/
def FlatB.step (F : Flattener π α) (s : FlatB π α) : Call π (List α) → FlatB π α × List (Call π (List α))
  | .begin p a => (⟨p, a⟩, [.begin p a])
  | .line p a => (⟨p, a⟩, [.line p a])
  | .quad c p a => (⟨p, a⟩, emitLines (F.quad s.cur c p) s.prev a)
  | .cubic c1 c2 p a => (⟨p, a⟩, emitLines (F.cubic s.cur c1 c2 p) s.prev a)
  | .end_ cl => (s, [.end_ cl])

def FlatB.run (F : Flattener π α) : FlatB π α → List (Call π (List α)) → List (Call π (List α))
  | _, [] => []
  | s, c :: r => (s.step F c).2 ++ FlatB.run F (s.step F c).1 r

/-- `Flattened::new(inner, tol)` driven by `prog`: what `inner` receives -/
def flatBuilder (F : Flattener π α) (origin : π) (n : Nat) (prog : List (Call π (List α))) :
    List (Call π (List α)) :=
  FlatB.run F (FlatB.init origin n) prog

/-- the state after a program (used to state the invariant) -/
def FlatB.after (F : Flattener π α) : FlatB π α → List (Call π (List α)) → FlatB π α
  | s, [] => s
  | s, c :: r => FlatB.after F (s.step F c).1 r

/-! ### Reference: what the property asks of a flattening builder

Same traversal — the state is the current endpoint and its attributes — but every emitted point
carries the interpolation at the reported `t` by definition (no `t == 1` shortcut). -/

def specLines (segs : List (FSeg π α)) (fromA toA : List α) : List (Call π (List α)) :=
  segs.map fun s => Call.line s.b (interp fromA toA s.t)

def FlatB.specStep (F : Flattener π α) (s : FlatB π α) : Call π (List α) → FlatB π α × List (Call π (List α))
  | .begin p a => (⟨p, a⟩, [.begin p a])
  | .line p a => (⟨p, a⟩, [.line p a])
  | .quad c p a => (⟨p, a⟩, specLines (F.quad s.cur c p) s.prev a)
  | .cubic c1 c2 p a => (⟨p, a⟩, specLines (F.cubic s.cur c1 c2 p) s.prev a)
  | .end_ cl => (s, [.end_ cl])

def FlatB.specRun (F : Flattener π α) : FlatB π α → List (Call π (List α)) → List (Call π (List α))
  | _, [] => []
  | s, c :: r => (s.specStep F c).2 ++ FlatB.specRun F (s.specStep F c).1 r

def flatSpec (F : Flattener π α) (origin : π) (n : Nat) (prog : List (Call π (List α))) :
    List (Call π (List α)) :=
  FlatB.specRun F (FlatB.init origin n) prog

/-! ## Iterator side: `iterator::Flattened` -/

/-- `Some(PathEvent::Line { from: self.current_position, to })` for each point the curve
iterator yields, `current_position` starting at the curve's `from` -/
def chain : π → List π → List (Event π)
  | _, [] => []
  | cur, p :: r => Event.line cur p :: chain p r

/-- `iterator::Flattened::next`, collected: Begin / Line / End pass through, a curve event is
replaced by the chain through the points of its lyon_geom flattening iterator. -/
def flatIter (G : IterFlattener π) : List (Event π) → List (Event π)
  | [] => []
  | .begin p :: r => .begin p :: flatIter G r
  | .line a b :: r => .line a b :: flatIter G r
  | .quad a c b :: r => chain a (G.quad a c b) ++ flatIter G r
  | .cubic a c d b :: r => chain a (G.cubic a c d b) ++ flatIter G r
  | .end_ l f cl :: r => .end_ l f cl :: flatIter G r

/-! ## `IterWithAttributes::for_each_flattened` -/

/-- an endpoint with its attributes; control points are embedded with `[]` (as in C14) -/
abbrev AP (π α : Type) := π × List α

/-- `buffer[offset + i] = (1.0 - t.end) * from_attr[i] + t.end * to_attr[i]` -/
def interpI (fromA toA : List α) (t : α) : List α :=
  List.zipWith (fun f g => (one - t) * f + t * g) fromA toA

/-- the callback of `for_each_flattened`: `Line{from: (line.from, previous buffer half),
to: (line.to, interpolated)}`; `ca` = the attributes written by the previous callback
(initially `from_attr`) -/
def linesA (fromA toA : List α) : List α → List (FSeg π α) → List (Event (AP π α))
  | _, [] => []
  | ca, s :: r =>
    Event.line (s.a, ca) (s.b, interpI fromA toA s.t) :: linesA fromA toA (interpI fromA toA s.t) r

def flatAttrIter (F : Flattener π α) : List (Event (AP π α)) → List (Event (AP π α))
  | [] => []
  | .begin p :: r => .begin p :: flatAttrIter F r
  | .line a b :: r => .line a b :: flatAttrIter F r
  | .quad a c b :: r => linesA a.2 b.2 a.2 (F.quad a.1 c.1 b.1) ++ flatAttrIter F r
  | .cubic a c d b :: r => linesA a.2 b.2 a.2 (F.cubic a.1 c.1 d.1 b.1) ++ flatAttrIter F r
  | .end_ l f cl :: r => .end_ l f cl :: flatAttrIter F r

end Flat

/-- a call with its endpoint paired with its attributes (what `iter_with_attributes` shows of
it); control points get `[]` -/
def aCall {π α : Type} : Call π (List α) → Call (AP π α) (List α)
  | .begin p a => .begin (p, a) a
  | .line p a => .line (p, a) a
  | .quad c p a => .quad (c, []) (p, a) a
  | .cubic c1 c2 p a => .cubic (c1, []) (c2, []) (p, a) a
  | .end_ cl => .end_ cl

/-- the events `Path::iter_with_attributes` yields for a stored program (C14 `with_attributes_eq`) -/
def attrEvents {π α : Type} (prog : List (Call π (List α))) : List (Event (AP π α)) :=
  specEvents (prog.map aCall)

/-! ## Observations used by the property -/

section Obs
variable {π A : Type}

/-- begin / line / end only -/
def Call.isFlat : Call π A → Bool
  | .quad .. => false
  | .cubic .. => false
  | _ => true

def Event.isFlat : Event π → Bool
  | .quad .. => false
  | .cubic .. => false
  | _ => true

/-- the endpoints of a program, in order, with their attributes -/
def endpoints : List (Call π A) → List (π × A)
  | [] => []
  | .begin p a :: r => (p, a) :: endpoints r
  | .line p a :: r => (p, a) :: endpoints r
  | .quad _ p a :: r => (p, a) :: endpoints r
  | .cubic _ _ p a :: r => (p, a) :: endpoints r
  | .end_ _ :: r => endpoints r

/-- the endpoints an event stream visits, in order (`Begin.at`, then every edge's `to`) -/
def eventEndpoints : List (Event π) → List π
  | [] => []
  | .begin p :: r => p :: eventEndpoints r
  | .line _ b :: r => b :: eventEndpoints r
  | .quad _ _ b :: r => b :: eventEndpoints r
  | .cubic _ _ _ b :: r => b :: eventEndpoints r
  | .end_ .. :: r => eventEndpoints r

/-- the sub-path skeleton of a program: its `begin` and `end` calls -/
def Call.isMark : Call π A → Bool
  | .begin .. => true
  | .end_ _ => true
  | _ => false

/-- no curve is the first edge of its sub-path (the case in which the builder-side adapter
interpolates from stale attributes).  `ab` = a `begin` has been seen and no edge since. -/
def noCurveAfterBegin : Bool → List (Call π A) → Bool
  | _, [] => true
  | _, .begin _ _ :: r => noCurveAfterBegin true r
  | _, .line _ _ :: r => noCurveAfterBegin false r
  | ab, .quad _ _ _ :: r => !ab && noCurveAfterBegin false r
  | ab, .cubic _ _ _ _ :: r => !ab && noCurveAfterBegin false r
  | ab, .end_ _ :: r => noCurveAfterBegin ab r

/-- every endpoint carries exactly `n` attributes -/
def attrsLen (n : Nat) : List (Call π (List A)) → Bool
  | [] => true
  | .begin _ a :: r => a.length == n && attrsLen n r
  | .line _ a :: r => a.length == n && attrsLen n r
  | .quad _ _ a :: r => a.length == n && attrsLen n r
  | .cubic _ _ _ a :: r => a.length == n && attrsLen n r
  | .end_ _ :: r => attrsLen n r

end Obs

/-! ## Stored: `Path::transformed` / `apply_transform` -/

section Stored
variable {S : Type} [Inhabited S]

/-- `self.points[i] = transform.transform_point(self.points[i])`: a checked index read followed
by a checked index write.  `none` = the index is outside the storage (Rust: panic).  `id_iter` of
a built path never produces one — `stored_transform` (`Lemmas/AdaptersStored.lean`), C14
`transformed_no_oob`. -/
def applyAt (g : Pt S → Pt S) (pts : List (Pt S)) (i : Nat) : Option (List (Pt S)) :=
  if i < pts.length then some (pts.modify i g) else none

/-- the `match evt` of `apply_transform`; `stride` = `(self.num_attributes + 1) / 2`.
`IdEvent::End { last, close: true, .. }`: `end(true)` stored a copy of the sub-path's first
endpoint right after the last endpoint's slots, at `last + stride + 1` (it is what
`last_endpoint` reads); it is transformed too (lyon commit f78412c3; before it every `End` was
skipped and that slot kept the untransformed point — finding
`C14-transformed-close-point-stale`, fixed). -/
def applyEvent (g : Pt S → Pt S) (stride : Nat) (pts : List (Pt S)) : Event Nat → Option (List (Pt S))
  | .begin a => applyAt g pts a
  | .line _ b => applyAt g pts b
  | .quad _ c b => (applyAt g pts c).bind fun q => applyAt g q b
  | .cubic _ c d b => (applyAt g pts c).bind fun q => (applyAt g q d).bind fun q' => applyAt g q' b
  | .end_ last _ true => applyAt g pts (last + stride + 1)
  | .end_ _ _ false => some pts

/-- `for evt in iter { match evt { … } }` -/
def applyAll (g : Pt S → Pt S) (stride : Nat) : List (Event Nat) → List (Pt S) → Option (List (Pt S))
  | [], pts => some pts
  | e :: r, pts => (applyEvent g stride pts e).bind fun q => applyAll g stride r q

/-- `Path::apply_transform`: `for evt in IdIter::new(num_attributes, verbs) { … }`;
`none` = some `self.points[…]` of the walk indexes outside the storage (Rust: panic). -/
def applyTransform (g : Pt S → Pt S) (p : PathData S) : Option (PathData S) :=
  (applyAll g (attribStride p.numAttributes) p.idIter p.points).map fun pts =>
    { p with points := pts }

end Stored

/-! ## Conversions between the numeric point type `P α` and the storage point `Pt α` -/

section Conv
variable {α : Type}
def toPt (p : P α) : Pt α := (p.x, p.y)
def ofPt (p : Pt α) : P α := ⟨p.1, p.2⟩
/-- a map on `P α` as a map on storage points -/
def onPt (g : P α → P α) (p : Pt α) : Pt α := toPt (g (ofPt p))
end Conv

end Lyon.Adapt
