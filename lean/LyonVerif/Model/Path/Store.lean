/-
  Model of `crates/path/src/path.rs`: the verbs + interleaved points/attributes storage, its two
  builders and all its views (C14).

  * Scalars are an opaque type `S` with a distinguished value `default` (Rust: `0.0`); a point is
    `S × S`.  Custom attributes are `List S`; they are stored in the point array two per slot, an
    odd count padded with `default` (`push_attributes_impl`).
  * `Vec::push` is `++ [x]`; `Box<[T]>` / slices are `List`.
  * Every slice index, pointer read, checked subtraction (`overflow-checks`) and `assert!` of the
    Rust code is an `Option`: `none` = "this read is outside the storage (Rust: panic, or the
    `NaN` sentinel of `PointIter::next` followed by the `advance_n` assertion)".  "No
    out-of-bounds read" is the statement that a view returns `some`.
  * Pointer iteration (`PointIter`, `slice::Iter<Verb>`) is consumption of the remaining list;
    index-based code (`IdIter` + stores, `Reversed`, `interpolated_attributes`,
    `first/last_endpoint`) keeps its index arithmetic and reads through `l[i]?`.
  * `u32`/`usize` are `Nat` (paths with fewer than 2³² stored points).
  Mathlib-free.
-/
import LyonVerif.Model.Path.Trace

namespace Lyon.Path

abbrev Pt (S : Type) := S × S

/-- An endpoint together with its custom attributes (`(Point, Attributes)`). -/
abbrev APt (S : Type) := Pt S × List S

/-- `path::Verb` -/
inductive Verb where
  | lineTo | quadraticTo | cubicTo | begin | close | end_
deriving Repr, BEq, DecidableEq

/-- `Path` / `PathSlice` -/
structure PathData (S : Type) where
  points : List (Pt S)
  verbs : List Verb
  numAttributes : Nat
deriving Repr

/-- checked `a - b` on unsigned integers -/
def csub (a b : Nat) : Option Nat := if b ≤ a then some (a - b) else none

/-- `&l[a..b]` -/
def sliceRange {α : Type} (l : List α) (a b : Nat) : Option (List α) :=
  if a ≤ b ∧ b ≤ l.length then some ((l.drop a).take (b - a)) else none

section
variable {S : Type} [Inhabited S]

def zeroPt : Pt S := (default, default)

/-! ### Attribute packing -/

/-- `push_attributes_impl`: two attributes per point slot, an odd one padded with zero. -/
def packAttrs : List S → List (Pt S)
  | [] => []
  | [x] => [(x, default)]
  | x :: y :: r => (x, y) :: packAttrs r

/-- the `*const f32` view of a point slice -/
def flatPts : List (Pt S) → List S
  | [] => []
  | (x, y) :: r => x :: y :: flatPts r

/-- `(num_attributes + 1) / 2` -/
def attribStride (n : Nat) : Nat := (n + 1) / 2

/-- `interpolated_attributes` -/
def interpolatedAttributes (n : Nat) (points : List (Pt S)) (endpoint : Nat) : Option (List S) :=
  if n = 0 then some []
  else if endpoint + 1 + attribStride n ≤ points.length then
    some ((flatPts (points.drop (endpoint + 1))).take n)
  else none

/-! ### `BuilderImpl` -/

structure BuilderImpl (S : Type) where
  points : List (Pt S)
  verbs : List Verb
  first : Pt S
deriving Repr

def BuilderImpl.new : BuilderImpl S := ⟨[], [], zeroPt⟩

def BuilderImpl.begin (b : BuilderImpl S) (at_ : Pt S) : BuilderImpl S × Nat :=
  ({ points := b.points ++ [at_], verbs := b.verbs ++ [Verb.begin], first := at_ }, b.points.length)

def BuilderImpl.end_ (b : BuilderImpl S) (close : Bool) : BuilderImpl S :=
  { points := if close then b.points ++ [b.first] else b.points,
    verbs := b.verbs ++ [if close then Verb.close else Verb.end_],
    first := b.first }

def BuilderImpl.lineTo (b : BuilderImpl S) (to : Pt S) : BuilderImpl S × Nat :=
  ({ points := b.points ++ [to], verbs := b.verbs ++ [Verb.lineTo], first := b.first }, b.points.length)

def BuilderImpl.quadraticBezierTo (b : BuilderImpl S) (ctrl to : Pt S) : BuilderImpl S × Nat :=
  ({ points := b.points ++ [ctrl] ++ [to], verbs := b.verbs ++ [Verb.quadraticTo], first := b.first },
   b.points.length + 1)

def BuilderImpl.cubicBezierTo (b : BuilderImpl S) (ctrl1 ctrl2 to : Pt S) : BuilderImpl S × Nat :=
  ({ points := b.points ++ [ctrl1] ++ [ctrl2] ++ [to], verbs := b.verbs ++ [Verb.cubicTo],
     first := b.first }, b.points.length + 2)

def BuilderImpl.build (b : BuilderImpl S) : PathData S := ⟨b.points, b.verbs, 0⟩

/-- One `PathBuilder` call on `NoAttributes<BuilderImpl>` (attributes are ignored). -/
def BuilderImpl.call {A : Type} (b : BuilderImpl S) : Call (Pt S) A → BuilderImpl S × Option Nat
  | .begin p _ => let r := b.begin p; (r.1, some r.2)
  | .line p _ => let r := b.lineTo p; (r.1, some r.2)
  | .quad c p _ => let r := b.quadraticBezierTo c p; (r.1, some r.2)
  | .cubic c1 c2 p _ => let r := b.cubicBezierTo c1 c2 p; (r.1, some r.2)
  | .end_ cl => (b.end_ cl, none)

def consId (id : Option Nat) (ids : List Nat) : List Nat :=
  match id with
  | some i => i :: ids
  | none => ids

/-- A whole program; returns the builder and the endpoint ids handed back to the caller. -/
def BuilderImpl.run {A : Type} (b : BuilderImpl S) : List (Call (Pt S) A) → BuilderImpl S × List Nat
  | [] => (b, [])
  | c :: r =>
    let s := b.call c
    let t := BuilderImpl.run s.1 r
    (t.1, consId s.2 t.2)

/-! ### `BuilderWithAttributes` -/

structure BuilderWithAttributes (S : Type) where
  builder : BuilderImpl S
  numAttributes : Nat
  firstAttributes : List S
deriving Repr

def BuilderWithAttributes.new (n : Nat) : BuilderWithAttributes S :=
  ⟨BuilderImpl.new, n, List.replicate n default⟩

/-- `push_attributes_impl` (with its `assert_eq!(attributes.len(), num_attributes)`) -/
def pushAttributesImpl (points : List (Pt S)) (n : Nat) (attrs : List S) : Option (List (Pt S)) :=
  if attrs.length = n then some (points ++ packAttrs attrs) else none

def BuilderWithAttributes.withPoints (b : BuilderWithAttributes S) (bi : BuilderImpl S)
    (pts : List (Pt S)) : BuilderWithAttributes S :=
  { builder := { points := pts, verbs := bi.verbs, first := bi.first },
    numAttributes := b.numAttributes, firstAttributes := b.firstAttributes }

def BuilderWithAttributes.begin (b : BuilderWithAttributes S) (at_ : Pt S) (attrs : List S) :
    Option (BuilderWithAttributes S × Nat) :=
  let r := b.builder.begin at_
  (pushAttributesImpl r.1.points b.numAttributes attrs).map fun pts =>
    -- `first_attributes.copy_from_slice(attributes)`: same length, checked just above
    ({ builder := { points := pts, verbs := r.1.verbs, first := r.1.first },
       numAttributes := b.numAttributes, firstAttributes := attrs }, r.2)

def BuilderWithAttributes.end_ (b : BuilderWithAttributes S) (close : Bool) :
    Option (BuilderWithAttributes S) :=
  let bi := b.builder.end_ close
  if close then
    (pushAttributesImpl bi.points b.numAttributes b.firstAttributes).map fun pts => b.withPoints bi pts
  else some (b.withPoints bi bi.points)

def BuilderWithAttributes.lineTo (b : BuilderWithAttributes S) (to : Pt S) (attrs : List S) :
    Option (BuilderWithAttributes S × Nat) :=
  let r := b.builder.lineTo to
  (pushAttributesImpl r.1.points b.numAttributes attrs).map fun pts => (b.withPoints r.1 pts, r.2)

def BuilderWithAttributes.quadraticBezierTo (b : BuilderWithAttributes S) (ctrl to : Pt S)
    (attrs : List S) : Option (BuilderWithAttributes S × Nat) :=
  let r := b.builder.quadraticBezierTo ctrl to
  (pushAttributesImpl r.1.points b.numAttributes attrs).map fun pts => (b.withPoints r.1 pts, r.2)

def BuilderWithAttributes.cubicBezierTo (b : BuilderWithAttributes S) (ctrl1 ctrl2 to : Pt S)
    (attrs : List S) : Option (BuilderWithAttributes S × Nat) :=
  let r := b.builder.cubicBezierTo ctrl1 ctrl2 to
  (pushAttributesImpl r.1.points b.numAttributes attrs).map fun pts => (b.withPoints r.1 pts, r.2)

def BuilderWithAttributes.build (b : BuilderWithAttributes S) : PathData S :=
  ⟨b.builder.points, b.builder.verbs, b.numAttributes⟩

def BuilderWithAttributes.call (b : BuilderWithAttributes S) :
    Call (Pt S) (List S) → Option (BuilderWithAttributes S × Option Nat)
  | .begin p a => (b.begin p a).map fun r => (r.1, some r.2)
  | .line p a => (b.lineTo p a).map fun r => (r.1, some r.2)
  | .quad c p a => (b.quadraticBezierTo c p a).map fun r => (r.1, some r.2)
  | .cubic c1 c2 p a => (b.cubicBezierTo c1 c2 p a).map fun r => (r.1, some r.2)
  | .end_ cl => (b.end_ cl).map fun r => (r, none)

/-- A whole program; `none` = an attribute-count assertion failed (Rust: panic). -/
def BuilderWithAttributes.run (b : BuilderWithAttributes S) :
    List (Call (Pt S) (List S)) → Option (BuilderWithAttributes S × List Nat)
  | [] => some (b, [])
  | c :: r =>
    (b.call c).bind fun s =>
      (BuilderWithAttributes.run s.1 r).map fun t => (t.1, consId s.2 t.2)

/-- `Path::builder()…build()` -/
def buildPlain {A : Type} (prog : List (Call (Pt S) A)) : PathData S :=
  ((BuilderImpl.new (S := S)).run prog).1.build

/-- `Path::builder_with_attributes(n)…build()` -/
def buildWithAttributes (n : Nat) (prog : List (Call (Pt S) (List S))) : Option (PathData S) :=
  ((BuilderWithAttributes.new (S := S) n).run prog).map fun r => r.1.build

/-! ### `PointIter` -/

/-- `PointIter::next` (`none`: the `ptr >= end` branch) -/
def popPt (pts : List (Pt S)) : Option (Pt S × List (Pt S)) :=
  match pts with
  | [] => none
  | p :: r => some (p, r)

/-- `PointIter::advance_n` (with its `assert!(remaining_len() >= n)`) -/
def advanceN (n : Nat) (pts : List (Pt S)) : Option (List (Pt S)) :=
  if n ≤ pts.length then some (pts.drop n) else none

/-- `next()` followed by `skip_attributes()` -/
def popSkip (stride : Nat) (pts : List (Pt S)) : Option (Pt S × List (Pt S)) :=
  (popPt pts).bind fun r => (advanceN stride r.2).map fun rest => (r.1, rest)

/-! ### `Iter` -/

def iterGo (stride : Nat) : List Verb → List (Pt S) → Pt S → Pt S → Option (List (Event (Pt S)))
  | [], _, _, _ => some []
  | .begin :: vs, pts, _, _ =>
    (popSkip stride pts).bind fun r =>
      (iterGo stride vs r.2 r.1 r.1).map fun t => Event.begin r.1 :: t
  | .lineTo :: vs, pts, cur, first =>
    (popSkip stride pts).bind fun r =>
      (iterGo stride vs r.2 r.1 first).map fun t => Event.line cur r.1 :: t
  | .quadraticTo :: vs, pts, cur, first =>
    (popPt pts).bind fun c => (popSkip stride c.2).bind fun r =>
      (iterGo stride vs r.2 r.1 first).map fun t => Event.quad cur c.1 r.1 :: t
  | .cubicTo :: vs, pts, cur, first =>
    (popPt pts).bind fun c1 => (popPt c1.2).bind fun c2 => (popSkip stride c2.2).bind fun r =>
      (iterGo stride vs r.2 r.1 first).map fun t => Event.cubic cur c1.1 c2.1 r.1 :: t
  | .close :: vs, pts, cur, first =>
    (popSkip stride pts).bind fun r =>
      (iterGo stride vs r.2 cur first).map fun t => Event.end_ cur first true :: t
  | .end_ :: vs, pts, cur, first =>
    (iterGo stride vs pts first first).map fun t => Event.end_ cur first false :: t

/-- `Path::iter` / `PathSlice::iter` -/
def PathData.iter (p : PathData S) : Option (List (Event (Pt S))) :=
  iterGo (attribStride p.numAttributes) p.verbs p.points zeroPt zeroPt

/-! ### `IterWithAttributes` -/

/-- `pop_endpoint` -/
def popEndpoint (n : Nat) (pts : List (Pt S)) : Option (APt S × List (Pt S)) :=
  (popPt pts).bind fun r =>
    (advanceN (attribStride n) r.2).map fun rest => ((r.1, (flatPts r.2).take n), rest)

/-- control points carry no attributes; they are embedded with an empty list so that the
shared `Event` type can be used -/
def ctl (p : Pt S) : APt S := (p, [])

def iterAttrGo (n : Nat) : List Verb → List (Pt S) → APt S → APt S → Option (List (Event (APt S)))
  | [], _, _, _ => some []
  | .begin :: vs, pts, _, _ =>
    (popEndpoint n pts).bind fun r =>
      (iterAttrGo n vs r.2 r.1 r.1).map fun t => Event.begin r.1 :: t
  | .lineTo :: vs, pts, cur, first =>
    (popEndpoint n pts).bind fun r =>
      (iterAttrGo n vs r.2 r.1 first).map fun t => Event.line cur r.1 :: t
  | .quadraticTo :: vs, pts, cur, first =>
    (popPt pts).bind fun c => (popEndpoint n c.2).bind fun r =>
      (iterAttrGo n vs r.2 r.1 first).map fun t => Event.quad cur (ctl c.1) r.1 :: t
  | .cubicTo :: vs, pts, cur, first =>
    (popPt pts).bind fun c1 => (popPt c1.2).bind fun c2 => (popEndpoint n c2.2).bind fun r =>
      (iterAttrGo n vs r.2 r.1 first).map fun t => Event.cubic cur (ctl c1.1) (ctl c2.1) r.1 :: t
  | .close :: vs, pts, cur, first =>
    (popEndpoint n pts).bind fun r =>
      (iterAttrGo n vs r.2 r.1 first).map fun t => Event.end_ cur first true :: t
  | .end_ :: vs, pts, cur, first =>
    (iterAttrGo n vs pts first first).map fun t => Event.end_ cur first false :: t

/-- `Path::iter_with_attributes` -/
def PathData.iterWithAttributes (p : PathData S) : Option (List (Event (APt S))) :=
  iterAttrGo p.numAttributes p.verbs p.points (zeroPt, []) (zeroPt, [])

/-! ### `IdIter` -/

def idIterGo (es : Nat) : List Verb → Nat → Nat → List (Event Nat)
  | [], _, _ => []
  | .begin :: vs, cur, _ => Event.begin cur :: idIterGo es vs cur cur
  | .lineTo :: vs, cur, first => Event.line cur (cur + es) :: idIterGo es vs (cur + es) first
  | .quadraticTo :: vs, cur, first =>
    Event.quad cur (cur + es) (cur + es + 1) :: idIterGo es vs (cur + es + 1) first
  | .cubicTo :: vs, cur, first =>
    Event.cubic cur (cur + es) (cur + es + 1) (cur + es + 2) :: idIterGo es vs (cur + es + 2) first
  | .close :: vs, cur, first => Event.end_ cur first true :: idIterGo es vs (cur + es * 2) first
  | .end_ :: vs, cur, first => Event.end_ cur first false :: idIterGo es vs (cur + es) first

/-- `Path::id_iter` -/
def PathData.idIter (p : PathData S) : List (Event Nat) :=
  idIterGo (attribStride p.numAttributes + 1) p.verbs 0 0

/-- `Index<EndpointId>` / `Index<ControlPointId>` / `PositionStore` on a path -/
def PathData.point (p : PathData S) (id : Nat) : Option (Pt S) := p.points[id]?

/-- `Path::attributes` / `AttributeStore::get` -/
def PathData.attributes (p : PathData S) (id : Nat) : Option (List S) :=
  interpolatedAttributes p.numAttributes p.points id

/-- An id event resolved through a position store. -/
def resolveEvent {π : Type} (ep cp : Nat → Option π) : Event Nat → Option (Event π)
  | .begin a => (ep a).map Event.begin
  | .line a b => (ep a).bind fun a => (ep b).map fun b => Event.line a b
  | .quad a c b => (ep a).bind fun a => (cp c).bind fun c => (ep b).map fun b => Event.quad a c b
  | .cubic a c d b =>
    (ep a).bind fun a => (cp c).bind fun c => (cp d).bind fun d => (ep b).map fun b =>
      Event.cubic a c d b
  | .end_ l f cl => (ep l).bind fun l => (ep f).map fun f => Event.end_ l f cl

def resolveAll {π : Type} (ep cp : Nat → Option π) : List (Event Nat) → Option (List (Event π))
  | [] => some []
  | e :: r => (resolveEvent ep cp e).bind fun e' => (resolveAll ep cp r).map fun r' => e' :: r'

/-- endpoint with attributes through the path's position and attribute stores -/
def PathData.endpointA (p : PathData S) (id : Nat) : Option (APt S) :=
  (p.point id).bind fun q => (p.attributes id).map fun a => (q, a)

def PathData.ctrlA (p : PathData S) (id : Nat) : Option (APt S) := (p.point id).map ctl

/-! ### `Reversed` -/

/-- `n_stored_points` -/
def nStoredPoints (v : Verb) (attribStride : Nat) : Nat :=
  match v with
  | .begin => attribStride + 1
  | .lineTo => attribStride + 1
  | .quadraticTo => attribStride + 2
  | .cubicTo => attribStride + 3
  | .close => attribStride + 1
  | .end_ => 0

/-- the rest of the iteration after an event was produced: `self.p -= n_stored_points(..)` -/
def revStep (rest : Nat → Option (List (Event (APt S)))) (p : Nat) (v : Verb) (stride : Nat)
    (e : Event (APt S)) : Option (List (Event (APt S))) :=
  (csub p (nStoredPoints v stride)).bind fun p' => (rest p').map fun t => e :: t

/-- `Reversed::next`, over the verbs in reverse order. `es` = `attrib_stride + 1`. -/
def reversedGo (path : PathData S) (stride : Nat) :
    List Verb → Nat → Bool → Option (APt S) → Option (List (Event (APt S)))
  | [], _, _, _ => some []
  | .close :: vs, p, _, _ =>
    (csub p (2 * (stride + 1))).bind fun idx => (path.endpointA idx).bind fun first =>
      revStep (fun p' => reversedGo path stride vs p' true (some first)) p .close stride
        (Event.begin first)
  | .end_ :: vs, p, _, _ =>
    (csub p (stride + 1)).bind fun idx => (path.endpointA idx).bind fun first =>
      revStep (fun p' => reversedGo path stride vs p' false (some first)) p .end_ stride
        (Event.begin first)
  | .begin :: vs, p, needClose, first =>
    (csub p (stride + 1)).bind fun idx => (path.endpointA idx).bind fun last =>
      first.bind fun f =>
        revStep (fun p' => reversedGo path stride vs p' false none) p .begin stride
          (Event.end_ last f needClose)
  | .lineTo :: vs, p, needClose, first =>
    (csub p (stride + 1)).bind fun from_ => (csub from_ (stride + 1)).bind fun to =>
      (path.endpointA from_).bind fun a => (path.endpointA to).bind fun b =>
        revStep (fun p' => reversedGo path stride vs p' needClose first) p .lineTo stride
          (Event.line a b)
  | .quadraticTo :: vs, p, needClose, first =>
    (csub p (stride + 1)).bind fun from_ => (csub from_ 1).bind fun ctrl =>
      (csub ctrl (stride + 1)).bind fun to =>
        (path.endpointA from_).bind fun a => (path.ctrlA ctrl).bind fun c =>
          (path.endpointA to).bind fun b =>
            revStep (fun p' => reversedGo path stride vs p' needClose first) p .quadraticTo stride
              (Event.quad a c b)
  | .cubicTo :: vs, p, needClose, first =>
    (csub p (stride + 1)).bind fun from_ => (csub from_ 1).bind fun ctrl1 =>
      (csub ctrl1 1).bind fun ctrl2 => (csub ctrl2 (stride + 1)).bind fun to =>
        (path.endpointA from_).bind fun a => (path.ctrlA ctrl1).bind fun c1 =>
          (path.ctrlA ctrl2).bind fun c2 => (path.endpointA to).bind fun b =>
            revStep (fun p' => reversedGo path stride vs p' needClose first) p .cubicTo stride
              (Event.cubic a c1 c2 b)

/-- `Path::reversed().with_attributes()` -/
def PathData.reversedWithAttributes (p : PathData S) : Option (List (Event (APt S))) :=
  reversedGo p (attribStride p.numAttributes) p.verbs.reverse p.points.length false none

/-- `Event::with_points` on attribute-carrying events (`NoAttributes` iterator adapter) -/
def withPoints {π β : Type} (f : π → β) : Event π → Event β
  | .begin a => .begin (f a)
  | .line a b => .line (f a) (f b)
  | .quad a c b => .quad (f a) (f c) (f b)
  | .cubic a c d b => .cubic (f a) (f c) (f d) (f b)
  | .end_ l fst cl => .end_ (f l) (f fst) cl

/-- `Path::reversed()` -/
def PathData.reversed (p : PathData S) : Option (List (Event (Pt S))) :=
  p.reversedWithAttributes.map fun l => l.map (withPoints Prod.fst)

/-- `PathBuilder::event` fed with attribute-carrying events: the builder program they denote -/
def eventToCall : Event (APt S) → Call (Pt S) (List S)
  | .begin a => .begin a.1 a.2
  | .line _ b => .line b.1 b.2
  | .quad _ c b => .quad c.1 b.1 b.2
  | .cubic _ c d b => .cubic c.1 d.1 b.1 b.2
  | .end_ _ _ cl => .end_ cl

/-- `Reversed::into_path` -/
def PathData.reversedIntoPath (p : PathData S) : Option (PathData S) :=
  p.reversedWithAttributes.bind fun evs => buildWithAttributes p.numAttributes (evs.map eventToCall)

/-! ### `as_slice` -/

/-- `Path::as_slice`: `PathSlice { points: &self.points[..], verbs: &self.verbs[..],
num_attributes }`.  `PathSlice` has the same three fields and its views call the same iterator
constructors, so it is the same `PathData` in the model. -/
def PathData.asSlice (p : PathData S) : Option (PathData S) :=
  (sliceRange p.points 0 p.points.length).bind fun pts =>
    (sliceRange p.verbs 0 p.verbs.length).map fun vs => ⟨pts, vs, p.numAttributes⟩

/-! ### `first_endpoint`, `last_endpoint` -/

/-- outer `Option`: in bounds; inner: the function's own `Option` result -/
def PathData.firstEndpoint (p : PathData S) : Option (Option (APt S)) :=
  if p.points.isEmpty then some none
  else (p.endpointA 0).map some

def PathData.lastEndpoint (p : PathData S) : Option (Option (APt S)) :=
  if p.points.isEmpty then some none
  else
    (csub p.points.length (attribStride p.numAttributes)).bind fun a => (csub a 1).bind fun offset =>
      (p.endpointA offset).map some

/-! ### `concatenate_paths` / `extend_from_paths` -/

/-- `concatenate_paths` (with its `assert_eq!(path.num_attributes(), num_attributes)`) -/
def concatenatePaths (points : List (Pt S)) (verbs : List Verb) (paths : List (PathData S))
    (n : Nat) : Option (List (Pt S) × List Verb) :=
  if paths.all (fun p => p.numAttributes == n) then
    some (paths.foldl (fun acc p => (acc.1 ++ p.points, acc.2 ++ p.verbs)) (points, verbs))
  else none

def BuilderImpl.extendFromPaths (b : BuilderImpl S) (paths : List (PathData S)) :
    Option (BuilderImpl S) :=
  (concatenatePaths b.points b.verbs paths 0).map fun r =>
    { points := r.1, verbs := r.2, first := b.first }

def BuilderWithAttributes.extendFromPaths (b : BuilderWithAttributes S) (paths : List (PathData S)) :
    Option (BuilderWithAttributes S) :=
  (concatenatePaths b.builder.points b.builder.verbs paths b.numAttributes).map fun r =>
    { builder := { points := r.1, verbs := r.2, first := b.builder.first },
      numAttributes := b.numAttributes, firstAttributes := b.firstAttributes }

end

end Lyon.Path
