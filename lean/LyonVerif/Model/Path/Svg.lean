/-
  Model of `lyon_path::builder::WithSvg` (crates/path/src/builder.rs), the adapter that turns
  SVG-style commands into `PathBuilder` calls.

  * `St`      — the adapter's fields (`first_position, current_position, last_ctrl, last_cmd,
                need_moveto, is_empty`).  The attribute buffer is a constant vector of zeros
                (`vec![0.0; num_attributes]`, never written), so attributes are `Unit` here.
  * `Cmd`     — the 19 commands of `SvgPathBuilder` (`reserve` has no effect) plus the inherent
                `WithSvg::arc` (centre form).
  * `Geo`     — the numeric part of the two arc commands (`SvgArc::is_straight_line`,
                `SvgArc::to_arc`, `approx_eq`, `Arc::from`, `for_each_quadratic_bezier`) is a
                *parameter*: it returns which branch `arc`/`arc_to` takes and the list of
                `(ctrl, to)` pairs emitted.  All theorems hold for every `Geo`.
  * `step`    — one command: new state and the calls received by the wrapped builder.
  * `runBuild`— a command sequence followed by `build`.

  Generic in the scalar type `α` (`[Add α] [Sub α]` only; the branch tests of the arc commands
  additionally exist numerically over `[Scalar α]`, `numGeo`): run at `Float32` by the driver,
  reasoned about at `Int` / any commutative group in `Props/C15.lean`.  Mathlib-free.
-/
import LyonVerif.Model.Path.Trace
import LyonVerif.Model.Scalar

namespace Lyon.Svg
open Lyon.Path

structure Pt (α : Type) where
  x : α
  y : α
deriving Repr, DecidableEq, Inhabited

instance {α : Type} [Add α] : Add (Pt α) := ⟨fun a b => ⟨a.x + b.x, a.y + b.y⟩⟩
instance {α : Type} [Sub α] : Sub (Pt α) := ⟨fun a b => ⟨a.x - b.x, a.y - b.y⟩⟩

/-- `lyon_path::path::Verb`, in declaration order (`as u8` = `code`). -/
inductive Verb where
  | lineTo | quadraticTo | cubicTo | begin | close | end_
deriving Repr, DecidableEq, Inhabited

def Verb.code : Verb → Nat
  | .lineTo => 0 | .quadraticTo => 1 | .cubicTo => 2 | .begin => 3 | .close => 4 | .end_ => 5

/-- What `WithSvg::arc` does after `self.last_ctrl = self.current_position`:
`skip` = `current_position.approx_eq(&center)`; otherwise the arc's start point `arc.from()`,
whether `(arc_start - current_position).square_length() < 0.01`, and the `(ctrl, to)` pairs of
`arc.cast::<f64>().for_each_quadratic_bezier(..)` cast back to `f32`. -/
inductive ArcOut (α : Type) where
  | skip
  | curve (start : Pt α) (near : Bool) (quads : List (Pt α × Pt α))
deriving Repr

/-- `arc_to`: `svg_arc.is_straight_line()` or the centre-form arc handed to `arc`. -/
inductive SvgArcOut (α : Type) where
  | straight
  | arc (o : ArcOut α)
deriving Repr

/-- The numeric geometry of the arc commands, abstracted.  `ρ` stands for the remaining
operands (radii, x-rotation, flags / centre, radii, sweep, x-rotation). -/
structure Geo (α ρ : Type) where
  /-- `WithSvg::arc(center, radii, sweep, x_rotation)` issued at `cur` -/
  center : ρ → (cur : Pt α) → ArcOut α
  /-- `arc_to(radii, x_rotation, flags, to)` issued at `cur` -/
  endpoint : ρ → (cur to : Pt α) → SvgArcOut α

inductive Cmd (α ρ : Type) where
  | moveTo (to : Pt α)
  | close
  | lineTo (to : Pt α)
  | quadTo (ctrl to : Pt α)
  | cubicTo (ctrl1 ctrl2 to : Pt α)
  | relMoveTo (v : Pt α)
  | relLineTo (v : Pt α)
  | relQuadTo (ctrl v : Pt α)
  | relCubicTo (ctrl1 ctrl2 v : Pt α)
  | smoothCubicTo (ctrl2 to : Pt α)
  | smoothRelCubicTo (ctrl2 v : Pt α)
  | smoothQuadTo (to : Pt α)
  | smoothRelQuadTo (v : Pt α)
  | hLineTo (x : α)
  | relHLineTo (dx : α)
  | vLineTo (y : α)
  | relVLineTo (dy : α)
  | arcTo (r : ρ) (to : Pt α)
  | relArcTo (r : ρ) (v : Pt α)
  | arc (r : ρ)
deriving Repr

structure St (α : Type) where
  first : Pt α
  cur : Pt α
  lastCtrl : Pt α
  lastCmd : Verb
  needMoveTo : Bool
  isEmpty : Bool
deriving Repr

abbrev Calls (α : Type) := List (Call (Pt α) Unit)

section
variable {α ρ : Type}

/-- `WithSvg::new` -/
def St.init (zero : α) : St α :=
  { first := ⟨zero, zero⟩, cur := ⟨zero, zero⟩, lastCtrl := ⟨zero, zero⟩,
    lastCmd := .end_, needMoveTo := true, isEmpty := true }

/-- `end_if_needed`: `(last_cmd as u8) <= (Verb::Begin as u8)` -/
def endIfNeeded (s : St α) : Calls α :=
  if s.lastCmd.code ≤ Verb.begin.code then [.end_ false] else []

/-- `WithSvg::move_to` -/
def moveTo (s : St α) (to : Pt α) : St α × Calls α :=
  ({ s with isEmpty := false, needMoveTo := false, first := to, cur := to, lastCmd := .begin },
   endIfNeeded s ++ [.begin to ()])

/-- `begin_if_needed` + `insert_move_to`.  The `Bool` is "the command is replaced by the
move-to and returns" (`Some(id)`). -/
def beginIfNeeded (s : St α) (default : Pt α) : St α × Calls α × Bool :=
  if s.needMoveTo then
    if s.isEmpty then ((moveTo s default).1, (moveTo s default).2, true)
    else ((moveTo s s.first).1, (moveTo s s.first).2, false)
  else (s, [], false)

/-- `WithSvg::line_to` -/
def lineTo (s : St α) (to : Pt α) : St α × Calls α :=
  match beginIfNeeded s to with
  | (s1, c1, true) => (s1, c1)
  | (s1, c1, false) => ({ s1 with cur := to, lastCmd := .lineTo }, c1 ++ [.line to ()])

/-- `WithSvg::close` (the wrapped builder's `close()` is `end(true)`) -/
def close (s : St α) : St α × Calls α :=
  if s.needMoveTo then (s, [])
  else ({ s with cur := s.first, needMoveTo := true, lastCmd := .close }, [.end_ true])

/-- `WithSvg::quadratic_bezier_to` -/
def quadTo (s : St α) (ctrl to : Pt α) : St α × Calls α :=
  match beginIfNeeded s to with
  | (s1, c1, true) => (s1, c1)
  | (s1, c1, false) =>
    ({ s1 with cur := to, lastCmd := .quadraticTo, lastCtrl := ctrl }, c1 ++ [.quad ctrl to ()])

/-- `WithSvg::cubic_bezier_to` -/
def cubicTo (s : St α) (ctrl1 ctrl2 to : Pt α) : St α × Calls α :=
  match beginIfNeeded s to with
  | (s1, c1, true) => (s1, c1)
  | (s1, c1, false) =>
    ({ s1 with cur := to, lastCmd := .cubicTo, lastCtrl := ctrl2 },
     c1 ++ [.cubic ctrl1 ctrl2 to ()])

/-- the closure passed to `for_each_quadratic_bezier`: one `quadratic_bezier_to` per piece,
`current_position = curve.to` -/
def emitQuads (s : St α) : List (Pt α × Pt α) → St α × Calls α
  | [] => (s, [])
  | (c, t) :: r =>
    ((emitQuads { s with cur := t } r).1, .quad c t () :: (emitQuads { s with cur := t } r).2)

/-- `arc`, the part after the early return: move-to / line-to the arc's start, then the pieces.
`last_cmd` is not touched here (it stays whatever `≤ Begin` verb it was, or becomes `Begin`).
The connecting `line_to(arc_start)` sets `current_position = arc_start` (lyon commit 250152af,
repair of finding C15-arc-zero-sweep-stale-position). -/
def arcCurve (s : St α) (start : Pt α) (near : Bool) (quads : List (Pt α × Pt α)) :
    St α × Calls α :=
  if s.needMoveTo then
    ((emitQuads (moveTo s start).1 quads).1, (moveTo s start).2 ++ (emitQuads (moveTo s start).1 quads).2)
  else if near then
    ((emitQuads { s with cur := start } quads).1,
     .line start () :: (emitQuads { s with cur := start } quads).2)
  else emitQuads s quads

/-- `WithSvg::arc` (as repaired by lyon commit 059d9c0c): `last_ctrl = current_position` on
entry (all that happens on the early return) and again after the pieces were emitted, so that
a smooth command after the arc reflects nothing whatever `last_cmd` still says. -/
def arc (s : St α) : ArcOut α → St α × Calls α
  | .skip => ({ s with lastCtrl := s.cur }, [])
  | .curve start near quads =>
    ({ (arcCurve { s with lastCtrl := s.cur } start near quads).1 with
         lastCtrl := (arcCurve { s with lastCtrl := s.cur } start near quads).1.cur },
     (arcCurve { s with lastCtrl := s.cur } start near quads).2)

/-- `SvgPathBuilder::arc_to` -/
def arcTo (s : St α) (to : Pt α) : SvgArcOut α → St α × Calls α
  | .straight => lineTo s to
  | .arc o => arc s o

section
variable [Add α] [Sub α]

/-- `relative_to_absolute` -/
def relToAbs (s : St α) (v : Pt α) : Pt α := s.cur + v

/-- `get_smooth_cubic_ctrl` -/
def smoothCubicCtrl (s : St α) : Pt α :=
  match s.lastCmd with
  | .cubicTo => s.cur + (s.cur - s.lastCtrl)
  | _ => s.cur

/-- `get_smooth_quadratic_ctrl` -/
def smoothQuadCtrl (s : St α) : Pt α :=
  match s.lastCmd with
  | .quadraticTo => s.cur + (s.cur - s.lastCtrl)
  | _ => s.cur

/-- One command of `impl SvgPathBuilder for WithSvg` (and the inherent `arc`). -/
def step (g : Geo α ρ) (s : St α) : Cmd α ρ → St α × Calls α
  | .moveTo to => moveTo s to
  | .close => close s
  | .lineTo to => lineTo s to
  | .quadTo c to => quadTo s c to
  | .cubicTo c1 c2 to => cubicTo s c1 c2 to
  | .relMoveTo v => moveTo s (relToAbs s v)
  | .relLineTo v => lineTo s (relToAbs s v)
  | .relQuadTo c v => quadTo s (relToAbs s c) (relToAbs s v)
  | .relCubicTo c1 c2 v => cubicTo s (relToAbs s c1) (relToAbs s c2) (relToAbs s v)
  | .smoothCubicTo c2 to => cubicTo s (smoothCubicCtrl s) c2 to
  | .smoothRelCubicTo c2 v => cubicTo s (smoothCubicCtrl s) (relToAbs s c2) (relToAbs s v)
  | .smoothQuadTo to => quadTo s (smoothQuadCtrl s) to
  | .smoothRelQuadTo v => quadTo s (smoothQuadCtrl s) (relToAbs s v)
  | .hLineTo x => lineTo s ⟨x, s.cur.y⟩
  | .relHLineTo dx => lineTo s ⟨s.cur.x + dx, s.cur.y⟩
  | .vLineTo y => lineTo s ⟨s.cur.x, y⟩
  | .relVLineTo dy => lineTo s ⟨s.cur.x, s.cur.y + dy⟩
  | .arcTo r to => arcTo s to (g.endpoint r s.cur to)
  | .relArcTo r v => arcTo s (relToAbs s v) (g.endpoint r s.cur (relToAbs s v))
  | .arc r => arc s (g.center r s.cur)

/-- A command sequence from state `s`: final state and all calls, in order. -/
def run (g : Geo α ρ) (s : St α) : List (Cmd α ρ) → St α × Calls α
  | [] => (s, [])
  | c :: r => ((run g (step g s c).1 r).1, (step g s c).2 ++ (run g (step g s c).1 r).2)

/-- `WithSvg::build` after the commands: `end_if_needed`, then the wrapped builder's `build`. -/
def runBuild (g : Geo α ρ) (zero : α) (cmds : List (Cmd α ρ)) : Calls α :=
  (run g (St.init zero) cmds).2 ++ endIfNeeded (run g (St.init zero) cmds).1

end

/-! ### The branch tests of `arc` / `arc_to`, numerically

`isStraightLine`, `approxEqPt`, `nearStart` are what `Model/Path/SvgConcrete.lean` (`concreteGeo`,
the geometry the tie and the theorems of `Props/C15b.lean` use) is built from.  `numGeo` below is
the earlier, advice-fed instance (centre, start point and pieces handed in from lyon_geom, the
branches decided here); the driver no longer uses it. -/

section numeric
variable [Scalar α] [Transc α]

/-- `SvgArc::is_straight_line`: `|rx| <= EPSILON || |ry| <= EPSILON || from == to`, with lyon's own
`Scalar::EPSILON` for `f32` (`1e-4`; `WithSvg` works on `f32` points) — not the machine epsilon -/
def isStraightLine (radii from_ to : Pt α) : Bool :=
  decide (Scalar.abs radii.x ≤ Scalar.ofSci 1 4) || decide (Scalar.abs radii.y ≤ Scalar.ofSci 1 4) ||
    (from_.x == to.x && from_.y == to.y)

/-- euclid `Point2D::approx_eq` (`|a - b| < 1.0e-6` on both coordinates) -/
def approxEqPt (a b : Pt α) : Bool :=
  decide (Scalar.abs (a.x - b.x) < Scalar.ofSci 1 6) &&
    decide (Scalar.abs (a.y - b.y) < Scalar.ofSci 1 6)

/-- `(arc_start - self.current_position).square_length() < 0.01` -/
def nearStart (start cur : Pt α) : Bool :=
  decide ((start.x - cur.x) * (start.x - cur.x) + (start.y - cur.y) * (start.y - cur.y) <
    Scalar.ofSci 1 2)

/-- operands of an arc command and what lyon_geom computes for it at the current position:
the centre (`SvgArc::to_arc().center`, or the given one for `arc`), `Arc::from()` and the
`(ctrl, to)` pairs of `for_each_quadratic_bezier` -/
structure ArcOps (α : Type) where
  radii : Pt α
  center : Pt α
  start : Pt α
  quads : List (Pt α × Pt α)

def arcOutOf (r : ArcOps α) (cur : Pt α) : ArcOut α :=
  if approxEqPt cur r.center then .skip else .curve r.start (nearStart r.start cur) r.quads

def svgArcOutOf (r : ArcOps α) (cur to : Pt α) : SvgArcOut α :=
  if isStraightLine r.radii cur to then .straight else .arc (arcOutOf r cur)

def numGeo : Geo α (ArcOps α) := ⟨arcOutOf, svgArcOutOf⟩

end numeric
end

end Lyon.Svg
