/-
  The flattening adapters of `lyon_path` (C16, `Model/Path/Adapters.lean`) instantiated with the
  CONCRETE curve flatteners of lyon_geom (`Model/Geom/Flatten.lean`, property C09):

  * `cbModel tol`        — `for_each_flattened_with_t(tol, cb)` of quadratic / cubic segments: what
                           `builder::Flattened` (through `private::flatten_*`) and
                           `IterWithAttributes::for_each_flattened` call;
  * `itModel fuel tol`   — the `Flattened` iterators of lyon_geom (`QuadIter`, `CubicIter`), collected
                           with a fuel: what `iterator::Flattened` pulls from.

  These are the definitions the driver (`Drive/C16.lean`, family `e2e`) runs at `Float32` and the
  theorems of `Props/C16b.lean` are about.  Scalar-generic; Mathlib-free.

  Outcomes that are not a list of lines are explicit: lyon_geom PANICS when a segment count does
  not fit (`count.to_u32().unwrap()` in the callback form, `num_quadratics.to_i32().unwrap()` in
  `cubic_bezier::Flattened::new`), and a curve iterator may run longer than the fuel.  The `…C`
  forms of the adapters return `none` in those cases (`flatBuilderC`, `flatIterC`,
  `flatAttrIterC`); the predicates `cbOk…` / `itOk…` say which curves an adapter hands to
  lyon_geom: the curve's `from` is the adapter's `current_position` (builder side) resp. the
  event's `from` (iterator side).
-/
import LyonVerif.Model.Geom.Flatten
import LyonVerif.Model.Path.Adapters

namespace Lyon.Adapt
open Lyon Lyon.Path Scalar

section
variable {α : Type} [Scalar α] [Transc α] [FlatConst α]

/-- what `private::flatten_*` / `for_each_flattened` look at in one callback:
`line.from`, `line.to`, `t.end` -/
def segOf (s : FlatSeg α) : FSeg (P α) α := ⟨s.a, s.b, s.t1⟩

/-- lyon_geom's callback flatteners at tolerance `tol` (a panic shows as no callback at all;
`cbOkQuad` / `cbOkCubic` tell) -/
def cbModel (tol : α) : Flattener (P α) α where
  quad a c b := ((Quad.forEachFlattenedWithT ⟨a, c, b⟩ tol).getD []).map segOf
  cubic a c1 c2 b := ((Cubic.forEachFlattenedWithT ⟨a, c1, c2, b⟩ tol).getD []).map segOf

/-- lyon_geom's `Flattened` iterators at tolerance `tol`, pulled at most `fuel` times -/
def itModel (fuel : Nat) (tol : α) : IterFlattener (P α) where
  quad a c b := (QuadIter.new ⟨a, c, b⟩ tol).collect fuel
  cubic a c1 c2 b :=
    match CubicIter.new ⟨a, c1, c2, b⟩ tol with
    | some it => it.collect fuel
    | none => []

/-! ### which curves are flattened without a panic / within the fuel -/

def cbOkQuad (tol : α) (a c b : P α) : Bool := (Quad.forEachFlattenedWithT ⟨a, c, b⟩ tol).isSome
def cbOkCubic (tol : α) (a c1 c2 b : P α) : Bool :=
  (Cubic.forEachFlattenedWithT ⟨a, c1, c2, b⟩ tol).isSome

end

/-- `collect` that tells whether the iterator finished: `none` = still yielding after `fuel`
pulls (then `collect` is a proper prefix) -/
def _root_.Lyon.QuadIter.collectDone {α : Type} [Scalar α] [Transc α] [FlatConst α] :
    Nat → QuadIter α → Option (List (P α))
  | 0, _ => none
  | f+1, s => match s.next with
    | (none, _) => some []
    | (some p, s') => (QuadIter.collectDone f s').map (p :: ·)

def _root_.Lyon.CubicIter.collectDone {α : Type} [Scalar α] [Transc α] [FlatConst α] :
    Nat → CubicIter α → Option (List (P α))
  | 0, _ => none
  | f+1, s => match s.next with
    | (none, _) => some []
    | (some p, s') => (CubicIter.collectDone f s').map (p :: ·)

section
variable {α : Type} [Scalar α] [Transc α] [FlatConst α]

def itOkQuad (fuel : Nat) (tol : α) (a c b : P α) : Bool :=
  ((QuadIter.new ⟨a, c, b⟩ tol).collectDone fuel).isSome

/-- `false` also when `cubic_bezier::Flattened::new` panics -/
def itOkCubic (fuel : Nat) (tol : α) (a c1 c2 b : P α) : Bool :=
  match CubicIter.new ⟨a, c1, c2, b⟩ tol with
  | some it => (it.collectDone fuel).isSome
  | none => false

/-- every curve `builder::Flattened` hands to lyon_geom while it receives `prog`, starting with
`current_position = cur`, is flattened without a panic (same traversal as `FlatB.run`) -/
def cbOkRun {A : Type} (tol : α) : P α → List (Call (P α) A) → Bool
  | _, [] => true
  | _, .begin p _ :: r => cbOkRun tol p r
  | _, .line p _ :: r => cbOkRun tol p r
  | cur, .quad c p _ :: r => cbOkQuad tol cur c p && cbOkRun tol p r
  | cur, .cubic c1 c2 p _ :: r => cbOkCubic tol cur c1 c2 p && cbOkRun tol p r
  | cur, .end_ _ :: r => cbOkRun tol cur r

/-- the same for `for_each_flattened` over an event stream with attributes -/
def cbOkEvents (tol : α) : List (Event (AP (P α) α)) → Bool
  | [] => true
  | .quad a c b :: r => cbOkQuad tol a.1 c.1 b.1 && cbOkEvents tol r
  | .cubic a c d b :: r => cbOkCubic tol a.1 c.1 d.1 b.1 && cbOkEvents tol r
  | _ :: r => cbOkEvents tol r

/-- … and for `iterator::Flattened`: every curve iterator is created without a panic and
finishes within the fuel -/
def itOkEvents (fuel : Nat) (tol : α) : List (Event (P α)) → Bool
  | [] => true
  | .quad a c b :: r => itOkQuad fuel tol a c b && itOkEvents fuel tol r
  | .cubic a c d b :: r => itOkCubic fuel tol a c d b && itOkEvents fuel tol r
  | _ :: r => itOkEvents fuel tol r

/-! ### the concrete adapters; `none` = lyon_geom panics on a curve (resp. fuel) -/

/-- `Flattened::new(inner, tol)` driven by `prog`: the calls `inner` receives -/
def flatBuilderC (tol : α) (origin : P α) (n : Nat) (prog : List (Call (P α) (List α))) :
    Option (List (Call (P α) (List α))) :=
  if cbOkRun tol origin prog then some (flatBuilder (cbModel tol) origin n prog) else none

/-- `events.flattened(tol)` (`iterator::Flattened`), collected -/
def flatIterC (fuel : Nat) (tol : α) (evs : List (Event (P α))) : Option (List (Event (P α))) :=
  if itOkEvents fuel tol evs then some (flatIter (itModel fuel tol) evs) else none

/-- `iter_with_attributes().for_each_flattened(tol, cb)`: the callbacks -/
def flatAttrIterC (tol : α) (aevs : List (Event (AP (P α) α))) :
    Option (List (Event (AP (P α) α))) :=
  if cbOkEvents tol aevs then some (flatAttrIter (cbModel tol) aevs) else none

end

end Lyon.Adapt
