/-
  The CONCRETE arc geometry of `lyon_path::builder::WithSvg` (crates/path/src/builder.rs), i.e. the
  instance of the parameter `Geo` of `Model/Path/Svg.lean` that the code really uses:

    arc_to(radii, x_rotation, flags, to)
        svg_arc = SvgArc { from: current_position, to, radii, x_rotation, flags }
        if svg_arc.is_straight_line() { line_to(to) }                      -- `ArcConv.isStraightLine`
        else { arc = svg_arc.to_arc();                                      -- `ArcConv.fromSvgArc`
               self.arc(arc.center, arc.radii, arc.sweep_angle, arc.x_rotation) }

    arc(center, radii, sweep_angle, x_rotation)              (as repaired by lyon commit 40e30eb0)
        if current_position.approx_eq(&center) { return }                   -- `Svg.approxEqPt`
        v = Rotation::new(-x_rotation).transform_vector(current_position - center)
        start_angle = (v.y / radii.y).atan2(v.x / radii.x)                  -- `startAngle`
        arc = Arc { center, radii, start_angle, sweep_angle, x_rotation }   -- `centerArc`
        arc_start = arc.from()                                              -- `arc.sample 0`
        … move_to(arc_start) / line_to(arc_start) if `< 0.01` away          -- `Svg.nearStart`
          (both set current_position = arc_start; the line_to since lyon commit 250152af)
        arc.cast::<f64>().for_each_quadratic_bezier(|c| c.cast::<f32>() …)  -- `conv`

  Everything is the code of `Model/Geom/SvgArc.lean` (tied bit-exactly to lyon_geom by C13) and of
  `Model/Path/Svg.lean`.  The only parameter left is `conv`, the arc → quadratic pieces conversion
  with its casts: `quadsOf` (no cast) over a field, `quadsVia64` (f32 → f64 → pieces → f32) for
  the `Float32` run of the driver.  Pieces are kept WITH their start point (`Quad.a`); what the
  wrapped builder receives is the `(ctrl, to)` projection.

  Mathlib-free.
-/
import LyonVerif.Model.Path.Svg
import LyonVerif.Model.Geom.SvgArc

namespace Lyon.Svg
open Lyon Lyon.Path

/-- operands of the arc commands: `arc_to`/`relative_arc_to` use `radii xrot large sweepFlag`,
the centre form `arc` uses `center radii sweepAngle xrot` -/
structure ArcArgs (α : Type) where
  radii : Pt α
  xrot : α
  large : Bool
  sweepFlag : Bool
  center : Pt α
  sweepAngle : α
deriving Repr

variable {α : Type}

def toP (p : Pt α) : P α := ⟨p.x, p.y⟩
def ofP (p : P α) : Pt α := ⟨p.x, p.y⟩

/-- what `arc` does with a piece: `quadratic_bezier_to(curve.ctrl, curve.to)` -/
def pieceCall (q : Quad α) : Pt α × Pt α := (ofP q.c, ofP q.b)

section
variable [Scalar α] [Transc α]

/-- `Rotation::new(-x_rotation).transform_vector(self.current_position - center)` -/
def startVec (center : P α) (xrot : α) (cur : P α) : P α := Arc.rotate (-xrot) (cur - center)

/-- `Angle::radians((v.y / radii.y).atan2(v.x / radii.x))` -/
def startAngle (center radii : P α) (xrot : α) (cur : P α) : α :=
  Transc.atan2 ((startVec center xrot cur).y / radii.y) ((startVec center xrot cur).x / radii.x)

/-- `Arc { center, radii, start_angle, sweep_angle, x_rotation }` -/
def centerArc (center radii : P α) (sweep xrot : α) (cur : P α) : Arc α :=
  ⟨center, radii, startAngle center radii xrot cur, sweep, xrot⟩

/-- `arc_to_quadratic_beziers_with_t` without the ranges (`for_each_quadratic_bezier`) -/
def quadsOf (arc : Arc α) : List (Quad α) := (ArcConv.quadsWithT arc).map (·.1)

/-- `WithSvg::arc` after `last_ctrl = current_position`, pieces with their start points -/
inductive ArcOutQ (α : Type) where
  | skip
  | curve (start : Pt α) (near : Bool) (pieces : List (Quad α))

inductive SvgArcOutQ (α : Type) where
  | straight
  | arc (o : ArcOutQ α)

def ArcOutQ.erase : ArcOutQ α → ArcOut α
  | .skip => .skip
  | .curve start near pieces => .curve start near (pieces.map pieceCall)

def SvgArcOutQ.erase : SvgArcOutQ α → SvgArcOut α
  | .straight => .straight
  | .arc o => .arc o.erase

/-- the part of `WithSvg::arc` that is geometry -/
def arcOutQ (conv : Arc α → List (Quad α)) (center radii : P α) (sweep xrot : α) (cur : Pt α) :
    ArcOutQ α :=
  if approxEqPt cur (ofP center) then .skip
  else .curve (ofP ((centerArc center radii sweep xrot (toP cur)).sample Scalar.zero))
    (nearStart (ofP ((centerArc center radii sweep xrot (toP cur)).sample Scalar.zero)) cur)
    (conv (centerArc center radii sweep xrot (toP cur)))

variable [ArcConv.Eps α]

/-- the `SvgArc` built by `arc_to` -/
def svgArcOf (r : ArcArgs α) (cur to : Pt α) : SvgArc α :=
  ⟨toP cur, toP to, toP r.radii, r.xrot, r.large, r.sweepFlag⟩

/-- `arc_to`: `is_straight_line`, else `to_arc` and `arc` -/
def svgArcOutQ (conv : Arc α → List (Quad α)) (r : ArcArgs α) (cur to : Pt α) : SvgArcOutQ α :=
  if ArcConv.isStraightLine (svgArcOf r cur to) then .straight
  else .arc (arcOutQ conv (ArcConv.fromSvgArc (svgArcOf r cur to)).center
    (ArcConv.fromSvgArc (svgArcOf r cur to)).radii (ArcConv.fromSvgArc (svgArcOf r cur to)).sweep
    (ArcConv.fromSvgArc (svgArcOf r cur to)).xrot cur)

/-- the centre-form command -/
def centerOutQ (conv : Arc α → List (Quad α)) (r : ArcArgs α) (cur : Pt α) : ArcOutQ α :=
  arcOutQ conv (toP r.center) (toP r.radii) r.sweepAngle r.xrot cur

/-- **the arc geometry of `WithSvg`**, as an instance of the model's parameter `Geo` -/
def concreteGeo (conv : Arc α → List (Quad α)) : Geo α (ArcArgs α) where
  center r cur := (centerOutQ conv r cur).erase
  endpoint r cur to := (svgArcOutQ conv r cur to).erase

/-- `cast::<S, i32>(n_steps).unwrap()` in `arc_to_quadratic_beziers_with_t` (NaN sweep/angles) -/
def arcPanics (arc : Arc α) : Bool := ArcConv.bezPanics arc

end

/-! ### the `Float32` instance: pieces computed at `f64` and cast back -/

def castP64 (p : P Float32) : P Float := ⟨p.x.toFloat, p.y.toFloat⟩
def castP32 (p : P Float) : P Float32 := ⟨p.x.toFloat32, p.y.toFloat32⟩
/-- `Arc::cast::<f64>()` (exact) -/
def castArc64 (a : Arc Float32) : Arc Float :=
  ⟨castP64 a.center, castP64 a.radii, a.start.toFloat, a.sweep.toFloat, a.xrot.toFloat⟩
/-- `QuadraticBezierSegment::cast::<f32>()` (round to nearest) -/
def castQuad32 (q : Quad Float) : Quad Float32 := ⟨castP32 q.a, castP32 q.c, castP32 q.b⟩

/-- `arc.cast::<f64>().for_each_quadratic_bezier(&mut |curve| curve.cast::<f32>() …)` -/
def quadsVia64 (arc : Arc Float32) : List (Quad Float32) :=
  (quadsOf (castArc64 arc)).map castQuad32

/-- the geometry the driver runs: no advice from lyon_geom -/
def geoF32 : Geo Float32 (ArcArgs Float32) := concreteGeo quadsVia64

end Lyon.Svg
