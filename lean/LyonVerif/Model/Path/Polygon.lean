/-
  Model of `crates/path/src/polygon.rs` (`Polygon`, `IdPolygon` and their five iterators and two
  `event` functions) and of `iterator.rs::FromPolyline` (C14).

  Former defects, repaired in /repo and mirrored here in their repaired form:
  * `Polygon::event` answered `End` at `idx == len - 1` (commit 8a7d6750: now `idx == len`, like
    `IdPolygon::event`);
  * `PolygonIdIter` on an empty range yielded a lone `Begin` (commit e1fd69dd: now nothing);
  * `FromPolyline` on an empty point iterator yielded a lone `End` (commit 468b373e: now nothing).
  Slice indexing and `len - 1` are `Option`s (`none` = Rust panics).
  Mathlib-free.
-/
import LyonVerif.Model.Path.Trace

namespace Lyon.Path.Poly

open Lyon.Path

/-- `PolygonIter` / `PathEvents` / `IdPolygonIter`: the three share one state machine
(`prev`, `first`, remaining points); they differ only in the element type. -/
def iterGo {π : Type} (closed : Bool) : List π → Option π → Option π → Option (List (Event π))
  | to :: r, some from_, first => (iterGo closed r (some to) first).map fun t => Event.line from_ to :: t
  | at_ :: r, none, _ => (iterGo closed r (some at_) (some at_)).map fun t => Event.begin at_ :: t
  | [], some last, first =>
    -- `self.first.unwrap()`
    first.map fun f => [Event.end_ last f closed]
  | [], none, _ => some []

/-- `Polygon::iter`, `Polygon::path_events`, `IdPolygon::iter` -/
def iter {π : Type} (points : List π) (closed : Bool) : Option (List (Event π)) :=
  iterGo closed points none none

/-- `PolygonIdIter::next` as a function of the iterator's `idx` -/
def idIterAt (start end_ : Nat) (closed : Bool) (idx : Nat) : Option (Option (Event Nat)) :=
  if start = end_ then some none
  else if idx = start then some (some (Event.begin start))
  else if idx < end_ then (csub1 idx).map fun i => some (Event.line i idx)
  else if idx = end_ then (csub1 end_).map fun l => some (Event.end_ l start closed)
  else some none
where
  csub1 (a : Nat) : Option Nat := if 1 ≤ a then some (a - 1) else none

/-- all events of `PolygonIdIter::new(start..end, closed)`; `fuel` bounds the number of `next`
calls (`end - start + 2` suffices) -/
def idIterGo (start end_ : Nat) (closed : Bool) : Nat → Nat → Option (List (Event Nat))
  | 0, _ => some []
  | fuel + 1, idx =>
    (idIterAt start end_ closed idx).bind fun e =>
      match e with
      | none => some []
      | some ev => (idIterGo start end_ closed fuel (idx + 1)).map fun t => ev :: t

/-- `Polygon::id_iter` -/
def idIter (len : Nat) (closed : Bool) : Option (List (Event Nat)) :=
  idIterGo 0 len closed (len + 2) 0

/-- `Polygon::event` -/
def polygonEvent {π : Type} (points : List π) (closed : Bool) (idx : Nat) : Option (Event π) :=
  if idx = 0 then points[0]?.map Event.begin
  else if idx = points.length then
    (csub points.length 1).bind fun lastIdx =>
      points[lastIdx]?.bind fun l => points[0]?.map fun f => Event.end_ l f closed
  else
    (csub idx 1).bind fun i => points[i]?.bind fun a => points[idx]?.map fun b => Event.line a b
where
  csub (a b : Nat) : Option Nat := if b ≤ a then some (a - b) else none

/-- `IdPolygon::event` -/
def idPolygonEvent {π : Type} (points : List π) (closed : Bool) (idx : Nat) : Option (Event π) :=
  if idx = 0 then points[0]?.map Event.begin
  else if idx = points.length then
    (csub points.length 1).bind fun lastIdx =>
      points[lastIdx]?.bind fun l => points[0]?.map fun f => Event.end_ l f closed
  else
    (csub idx 1).bind fun i => points[i]?.bind fun a => points[idx]?.map fun b => Event.line a b
where
  csub (a b : Nat) : Option Nat := if b ≤ a then some (a - b) else none

/-- `FromPolyline::next` until exhaustion -/
def fromPolylineGo {π : Type} (close : Bool) : List π → π → π → Bool → List (Event π)
  | next :: r, _, _, true => Event.begin next :: fromPolylineGo close r next next false
  | next :: r, cur, first, false => Event.line cur next :: fromPolylineGo close r next first false
  | [], cur, first, isFirst => if isFirst then [] else [Event.end_ cur first close]

/-- `FromPolyline::new(close, points)` collected; `zero` is `point(0.0, 0.0)` -/
def fromPolyline {π : Type} (zero : π) (close : Bool) (points : List π) : List (Event π) :=
  fromPolylineGo close points zero zero true

end Lyon.Path.Poly
