/-
  Elliptic arcs: SVG end-point form ↔ centre form, and the Bézier approximations of
  `crates/geom/src/arc.rs`, mirrored expression by expression (operand order included):

    Arc::from_svg_arc, Arc::to_svg_arc, SvgArc::{to_arc, is_straight_line,
    for_each_quadratic_bezier(_with_t), for_each_cubic_bezier},
    arc_to_quadratic_beziers_with_t, arc_to_cubic_beziers, sample_ellipse (Basic.lean),
    tangent_at_angle,

  plus the euclid 0.22.9 arithmetic they call (trig.rs / vector.rs / angle.rs):
  `Trig::fast_atan2` (a degree-7 odd polynomial, NOT libm atan2), `Vector2D::angle_from_x_axis`,
  `Vector2D::angle_to`, `Angle::positive`, `Angle::angle_to`.

  Everything is written once over `[Scalar α] [Transc α] [ArcConv.Eps α]`; it runs at
  `Float32`/`Float` in the correspondence check and is the object of the theorems of `Props/C13`
  at an ordered field.  The angle function used by `from_svg_arc` is a parameter of
  `fromSvgArcWith`; lyon's code is the instance `fromSvgArc = fromSvgArcWith exactAngle`
  (libm `atan2`).

  History (the model mirrors the code that exists):
  * up to /repo efc24b99 `from_svg_arc` took its angles with euclid's `angle_from_x_axis`
    (`fast_atan2`, kept below because `Vector2D::angle_from_x_axis`/`angle_to` are still euclid's
    API and `Props/C13` documents why it must not be used here); the model instance was
    `fromSvgArcWith angleFromXAxis`.
  * up to /repo 863c17b2 the quadratic control point was `l2.intersection(&l1).unwrap_or(from)`
    (`Line::intersection` on the two end tangents, `None` when `|det| <= S::EPSILON`); it is now
    `from + tangent(a1) * tan(step / 2)`.

  Constants: `S::PI()` = `core::fN::consts::PI` = `Transc.pi`; `FRAC_PI_2`/`FRAC_PI_4` are the same
  significand with a smaller exponent, i.e. exactly `pi/2`, `pi/4` in binary floating point;
  `S::EPSILON` is lyon's own constant (1e-4 for f32, 1e-8 for f64), not the machine epsilon.
-/
import LyonVerif.Model.Geom.Basic

namespace Lyon
open Scalar

/-- `lyon_geom::SvgArc` (+ `ArcFlags`) -/
structure SvgArc (α : Type) where
  from_ : P α
  to : P α
  radii : P α
  xrot : α
  large : Bool
  sweep : Bool

namespace ArcConv

/-- lyon's `Scalar::EPSILON`: `1e-4` (f32), `1e-8` (f64) -/
class Eps (α : Type) where
  eps : α

instance : Eps Float32 := ⟨Float32.ofScientific 1 true 4⟩
instance : Eps Float := ⟨Float.ofScientific 1 true 8⟩

variable {α : Type} [Scalar α] [Transc α]

/-- `S::TWO * S::PI()` -/
def twoPi : α := two * Transc.pi
/-- `FRAC_PI_2` -/
def fracPi2 : α := Transc.pi / two
/-- `FRAC_PI_4` -/
def fracPi4 : α := Transc.pi / four

/-! ## euclid: `Trig::fast_atan2` and friends -/

/-- the odd polynomial of `fast_atan2` on `a = min/max ∈ [0,1]`:
`((-0.0464964749 * s + 0.15931422) * s - 0.327622764) * s * a + a` with `s = a*a` -/
def atanPoly (a : α) : α :=
  let s := a * a
  (((-(ofSci 464964749 10)) * s + ofSci 15931422 8) * s - ofSci 327622764 9) * s * a + a

def atanFold1 (ya xa r : α) : α := if ya > xa then fracPi2 - r else r
def atanFold2 (x r : α) : α := if x < zero then Transc.pi - r else r
def atanFold3 (y r : α) : α := if y < zero then -r else r

/-- `Trig::fast_atan2(y, x)` (no guard for `x = y = 0`: `0/0`) -/
def fastAtan2 (y x : α) : α :=
  let xa := abs x
  let ya := abs y
  let a := Scalar.min xa ya / Scalar.max xa ya
  atanFold3 y (atanFold2 x (atanFold1 ya xa (atanPoly a)))

/-- `Vector2D::angle_from_x_axis` -/
def angleFromXAxis (v : P α) : α := fastAtan2 v.y v.x
/-- `Vector2D::angle_to` -/
def vecAngleTo (a b : P α) : α := fastAtan2 (a.cross b) (a.dot b)
/-- `Angle::positive`: `two_pi = PI + PI; a = r % two_pi; if a < 0 { a + two_pi }` -/
def anglePositive (r : α) : α :=
  let tp : α := Transc.pi + Transc.pi
  let a := Transc.fmod r tp
  if a < zero then a + tp else a
/-- `Angle::angle_to`: `max = PI * two; d = (to - self) % max; two * d % max - d` -/
def angleAngleTo (self to : α) : α :=
  let tw : α := one + one
  let mx : α := Transc.pi * tw
  let d := Transc.fmod (to - self) mx
  Transc.fmod (tw * d) mx - d

/-! ## `SvgArc::is_straight_line`, `Arc::from_svg_arc`, `Arc::to_svg_arc` -/

variable [Eps α]

def isStraightLine (a : SvgArc α) : Bool :=
  decide (abs a.radii.x ≤ Eps.eps) || decide (abs a.radii.y ≤ Eps.eps) || (a.from_ == a.to)

/-- `x_rotation % (2π)` -/
def xr (a : SvgArc α) : α := Transc.fmod a.xrot twoPi
def cosPhi (a : SvgArc α) : α := Transc.cos (xr a)
def sinPhi (a : SvgArc α) : α := Transc.sin (xr a)
/-- half difference / half sum of the end points -/
def hd (a : SvgArc α) : P α := ⟨(a.from_.x - a.to.x) / two, (a.from_.y - a.to.y) / two⟩
def hs (a : SvgArc α) : P α := ⟨(a.from_.x + a.to.x) / two, (a.from_.y + a.to.y) / two⟩
/-- F.6.5.1 -/
def pt (a : SvgArc α) : P α :=
  ⟨cosPhi a * (hd a).x + sinPhi a * (hd a).y, (-(sinPhi a)) * (hd a).x + cosPhi a * (hd a).y⟩
def rx0 (a : SvgArc α) : α := abs a.radii.x
def ry0 (a : SvgArc α) : α := abs a.radii.y
/-- F.6.6.2 -/
def rf (a : SvgArc α) : α :=
  (pt a).x * (pt a).x / (rx0 a * rx0 a) + (pt a).y * (pt a).y / (ry0 a * ry0 a)
/-- `if rf > 1 { r *= sqrt(rf) }` -/
def scaleRadius (rf r : α) : α := if rf > one then r * Transc.sqrt rf else r
def rx (a : SvgArc α) : α := scaleRadius (rf a) (rx0 a)
def ry (a : SvgArc α) : α := scaleRadius (rf a) (ry0 a)
def rxry (a : SvgArc α) : α := rx a * ry a
def rxpy (a : SvgArc α) : α := rx a * (pt a).y
def rypx (a : SvgArc α) : α := ry a * (pt a).x
def sumOfSq (a : SvgArc α) : α := rxpy a * rxpy a + rypx a * rypx a
def signCoe (large sweep : Bool) : α := if large = sweep then -one else one
/-- F.6.5.2 -/
def coe (a : SvgArc α) : α :=
  signCoe a.large a.sweep * Transc.sqrt (abs ((rxry a * rxry a - sumOfSq a) / sumOfSq a))
def tcx (a : SvgArc α) : α := coe a * rxpy a / ry a
def tcy (a : SvgArc α) : α := (-(coe a)) * rypx a / rx a
/-- F.6.5.3 -/
def center (a : SvgArc α) : P α :=
  ⟨cosPhi a * tcx a - sinPhi a * tcy a + (hs a).x, sinPhi a * tcx a + cosPhi a * tcy a + (hs a).y⟩
def startV (a : SvgArc α) : P α := ⟨((pt a).x - tcx a) / rx a, ((pt a).y - tcy a) / ry a⟩
def endV (a : SvgArc α) : P α := ⟨(-(pt a).x - tcx a) / rx a, (-(pt a).y - tcy a) / ry a⟩

/-- the flag-driven correction of the sweep angle -/
def adjustSweep (flag : Bool) (s : α) : α :=
  if flag = true ∧ s < zero then s + twoPi
  else if flag = false ∧ s > zero then s - twoPi
  else s

/-- `Arc::from_svg_arc` with the angle function as a parameter (precondition
`!is_straight_line`, checked by an `assert!` in lyon: see `fromSvgArcPanics`). -/
def fromSvgArcWith (ang : P α → α) (a : SvgArc α) : Arc α :=
  { center := center a
    radii := ⟨rx a, ry a⟩
    start := ang (startV a)
    sweep := adjustSweep a.sweep (Transc.fmod (ang (endV a) - ang (startV a)) twoPi)
    xrot := a.xrot }

/-- `Angle::radians(Float::atan2(v.y, v.x))` -/
def exactAngle (v : P α) : α := Transc.atan2 v.y v.x

/-- `Arc::from_svg_arc` as it is (since /repo efc24b99): angles by libm `atan2`. -/
def fromSvgArc (a : SvgArc α) : Arc α := fromSvgArcWith exactAngle a
/-- `assert!(!arc.is_straight_line())` -/
def fromSvgArcPanics (a : SvgArc α) : Bool := isStraightLine a

/-- `Arc::to_svg_arc` -/
def toSvgArc (arc : Arc α) : SvgArc α :=
  { from_ := arc.sample zero
    to := arc.sample one
    radii := arc.radii
    xrot := arc.xrot
    large := decide (abs arc.sweep ≥ Transc.pi)
    sweep := decide (arc.sweep ≥ zero) }

/-! ## tangents -/

/-- `Arc::tangent_at_angle` -/
def tangentAtAngle (arc : Arc α) (a : α) : P α :=
  Arc.rotate arc.xrot ⟨(-arc.radii.x) * Transc.sin a, arc.radii.y * Transc.cos a⟩

/-- `Arc::sample_tangent` -/
def sampleTangent (arc : Arc α) (t : α) : P α := tangentAtAngle arc (arc.getAngle t)

/-! ## `arc_to_quadratic_beziers_with_t`, `arc_to_cubic_beziers` -/

/-- `S::abs(sweep).min(S::PI() * S::TWO)` -/
def effSweep (arc : Arc α) : α := Scalar.min (abs arc.sweep) (Transc.pi * two)
/-- `signum` (`-0.0` is unobservable here: it gives zero steps) -/
def signum (x : α) : α := if x < zero then -one else one
def nStepsQ (arc : Arc α) : α := Transc.ceil (effSweep arc / fracPi4)
def nStepsC (arc : Arc α) : α := Transc.ceil (effSweep arc / fracPi2)
/-- `sweep_angle / n_steps * sign` -/
def stepOf (arc : Arc α) (ns : α) : α := effSweep arc / ns * signum arc.sweep
/-- `arc.center + sample_ellipse(arc.radii, arc.x_rotation, a)` -/
def pointAt (arc : Arc α) (a : α) : P α := arc.center + Arc.sampleEllipse arc.radii arc.xrot a
/-- `arc.start_angle + step * cast(i)` -/
def angleAt (arc : Arc α) (step : α) (i : Nat) : α := arc.start + step * ofNat i

/-- `from + arc.tangent_at_angle(a1) * Float::tan(step.get() * S::HALF)` -/
def quadCtrl (arc : Arc α) (a1 step : α) : P α :=
  pointAt arc a1 + (tangentAtAngle arc a1).smul (Transc.tan (step * half))

def quadPiece (arc : Arc α) (step : α) (i : Nat) : Quad α :=
  ⟨pointAt arc (angleAt arc step i),
   quadCtrl arc (angleAt arc step i) step,
   pointAt arc (angleAt arc step (i+1))⟩

/-- `t1 = if i + 1 == n { 1 } else { t0 + dt }` -/
def nextT (n i : Nat) (t0 dt : α) : α := if i + 1 = n then one else t0 + dt

/-- the `for i in 0..n` loop; `k` = iterations left, `i` = current index, `t0` = running start -/
def quadLoop (arc : Arc α) (step dt : α) (n : Nat) : Nat → Nat → α → List (Quad α × α × α)
  | 0, _, _ => []
  | k+1, i, t0 =>
    (quadPiece arc step i, t0, nextT n i t0 dt) :: quadLoop arc step dt n k (i+1) (nextT n i t0 dt)

/-- `arc_to_quadratic_beziers_with_t` (callback sequence as a list of `(curve, t0, t1)`) -/
def quadsWithT (arc : Arc α) : List (Quad α × α × α) :=
  quadLoop arc (stepOf arc (nStepsQ arc)) (one / nStepsQ arc) (Transc.toNat (nStepsQ arc))
    (Transc.toNat (nStepsQ arc)) 0 zero

/-- `cast::<S, i32>(n_steps).unwrap()` panics on NaN -/
def bezPanics (arc : Arc α) : Bool := Transc.isNaN (nStepsQ arc)

def cubicAlpha (da : α) : α :=
  let tanDa := Transc.tan (da * half)
  let alphaSqrt := Transc.sqrt (four + three * tanDa * tanDa)
  Transc.sin da * (alphaSqrt - one) / three

def cubicPiece (arc : Arc α) (step : α) (i : Nat) : Cubic α :=
  let a1 := angleAt arc step i
  let a2 := angleAt arc step (i+1)
  let alpha := cubicAlpha (a2 - a1)
  ⟨pointAt arc a1,
   pointAt arc a1 + (tangentAtAngle arc a1).smul alpha,
   pointAt arc a2 - (tangentAtAngle arc a2).smul alpha,
   pointAt arc a2⟩

def cubicLoop (arc : Arc α) (step : α) : Nat → Nat → List (Cubic α)
  | 0, _ => []
  | k+1, i => cubicPiece arc step i :: cubicLoop arc step k (i+1)

/-- `arc_to_cubic_beziers` -/
def cubics (arc : Arc α) : List (Cubic α) :=
  cubicLoop arc (stepOf arc (nStepsC arc)) (Transc.toNat (nStepsC arc)) 0

/-! ## `SvgArc::for_each_*` wrappers -/

def svgQuadsWithT (a : SvgArc α) : List (Quad α × α × α) :=
  if isStraightLine a then [(⟨a.from_, a.from_, a.to⟩, zero, one)] else quadsWithT (fromSvgArc a)

def svgCubics (a : SvgArc α) : List (Cubic α) :=
  if isStraightLine a then [⟨a.from_, a.from_, a.to, a.to⟩] else cubics (fromSvgArc a)

end ArcConv
end Lyon
