/-
  EXACT per-input checker for the output of lyon's ARC flattening (`chk_arc`), in rationals, without
  trigonometry.

  The ellipse is the image of the unit circle under the affine map
  `A(p) = center + Rot(c,s)·(rx·p.x, ry·p.y)` with a rational unit vector `(c,s)` (`c² + s² = 1`
  EXACTLY: the rotation is supplied as the half-angle tangent `w`, `(c,s) = ((1−w²)/(1+w²), 2w/(1+w²))`,
  possibly negated). Every emitted vertex comes with an ADVICE point of the unit circle (again a
  half-angle tangent, so it is on the circle exactly); the checker verifies
    * structure: the segments are chained exactly (`chainOK`), the advice of consecutive segments agrees;
    * vertices: each emitted end point is within `eps` of the ellipse point `A(advice)`;
    * chords: for unit points `P0, P1` the short arc between them is within the sagitta
      `1 − √(1 − L²/4)` of the chord, `L = |P1 − P0|`; the test `L² ≤ 4τ(2 − τ)`, `τ = min(k·tol/R, 1)`,
      is the rational form of `sagitta ≤ τ`; `A` contracts the unit circle scaled by `R ≥ |rx|, |ry|`.
  Theorem `chk_arc_sound` (Props/C09d.lean): every point `A(Q)`, `Q` a unit vector in the cone spanned
  by the advice points of a segment, is within `k·tol + eps` of that EMITTED segment.

  Mathlib-free.
-/
import LyonVerif.Model.Geom.FlattenCertExact

namespace Lyon.ArcChk
open Lyon Scalar Lyon.FlatChk

variable {α : Type} [Scalar α]

structure Frame (α : Type) where
  center : P α
  rx : α
  ry : α
  c : α
  s : α

/-- `center + Rot(c,s)·(rx·p.x, ry·p.y)` -/
def Frame.map (f : Frame α) (p : P α) : P α :=
  ⟨f.center.x + (f.c * (f.rx * p.x) - f.s * (f.ry * p.y)),
   f.center.y + (f.s * (f.rx * p.x) + f.c * (f.ry * p.y))⟩

/-- the point of the unit circle with half-angle tangent `u` (negated if `flip`): on the circle by
construction -/
def unitPt (u : α) (flip : Bool) : P α :=
  if flip then ⟨-((one - u * u) / (one + u * u)), -(two * u / (one + u * u))⟩
  else ⟨(one - u * u) / (one + u * u), two * u / (one + u * u)⟩

/-- an emitted segment with the advice points of its two ends -/
structure ArcSeg (α : Type) where
  sg : FlatSeg α
  pa : P α
  pb : P α

/-- `min(k·tol/R, 1)` -/
def tau (R kt : α) : α := if kt ≤ R then kt / R else one

def segOK (f : Frame α) (R kt eps : α) (x : ArcSeg α) : Bool :=
  (x.pa.sqLen == one) && (x.pb.sqLen == one)
    && decide ((x.sg.a - f.map x.pa).sqLen ≤ eps * eps) && decide ((x.sg.b - f.map x.pb).sqLen ≤ eps * eps)
    && decide ((x.pb - x.pa).sqLen ≤ four * tau R kt * (two - tau R kt))

/-- the advice of consecutive segments agrees -/
def adviceChain : List (ArcSeg α) → Bool
  | x :: y :: r => (x.pb == y.pa) && adviceChain (y :: r)
  | _ => true

/-- **the checker** for a flattened arc: `kt = k·tol` -/
def chkArc (f : Frame α) (R kt eps : α) (p0 pe : P α) (l : List (ArcSeg α)) : Bool :=
  decide (zero ≤ eps) && decide (zero ≤ kt) && decide (zero < R)
    && decide (f.rx * f.rx ≤ R * R) && decide (f.ry * f.ry ≤ R * R) && (f.c * f.c + f.s * f.s == one)
    && chainOK p0 zero pe one (l.map (·.sg)) && adviceChain l && l.all (segOK f R kt eps)

/-! ## violation certificate -/

/-- `q` is in the cone spanned by `p0` and `p1` (not parallel): the cross products `p0 × q` and
`q × p1` have the sign of `p0 × p1` -/
def inCone (p0 p1 q : P α) : Bool :=
  (decide (zero < p0.cross p1) && decide (zero ≤ p0.cross q) && decide (zero ≤ q.cross p1))
    || (decide (p0.cross p1 < zero) && decide (p0.cross q ≤ zero) && decide (q.cross p1 ≤ zero))

/-- **certified failing arc**: `q` is a point of the unit circle in the cone of the advice points of the
segment `x` (so `A(q)` is a point of the arc between them), and `A(q)` is farther than `√r2` from every
emitted segment -/
def arcViol (f : Frame α) (r2 : α) (x : ArcSeg α) (q : P α) (l : List (ArcSeg α)) : Bool :=
  (q.sqLen == one) && inCone x.pa x.pb q && farFrom (f.map q) r2 (l.map (·.sg))

end Lyon.ArcChk
