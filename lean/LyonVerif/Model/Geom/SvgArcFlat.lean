/-
  `SvgArc::for_each_flattened` / `for_each_flattened_with_t` (crates/geom/src/arc.rs): the
  `is_straight_line` branch emits the single segment `from → to` (range `0..1`); otherwise the
  arc is converted with `Arc::from_svg_arc` and flattened by `Arc::for_each_flattened(_with_t)`,
  which is C09's model (`Model/Geom/Flatten.lean`, `Arc.forEachFlattenedWithT`: the callback
  sequence as a list of `(from, to, t0, t1)`; the version without `t` is the same loop).
-/
import LyonVerif.Model.Geom.SvgArc
import LyonVerif.Model.Geom.Flatten

namespace Lyon
open Scalar

namespace ArcConv
variable {α : Type} [Scalar α] [Transc α] [Eps α] [FlatConst α]

/-- `SvgArc::for_each_flattened_with_t` (fuel: see `Arc.flatLoop`) -/
def svgFlattenedWithT (a : SvgArc α) (tol : α) (fuel : Nat) : List (FlatSeg α) :=
  if isStraightLine a then [⟨a.from_, a.to, zero, one⟩]
  else (fromSvgArc a).forEachFlattenedWithT tol fuel

end ArcConv
end Lyon
