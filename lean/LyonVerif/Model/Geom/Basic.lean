/-
  Line / quadratic / cubic / arc segments: the evaluation-related operations of
  `crates/geom/src/{line,quadratic_bezier,cubic_bezier,arc}.rs`, mirrored expression by
  expression (operand order included: the tie is bit-level on IEEE floats).
-/
import LyonVerif.Model.Scalar

namespace Lyon
open Scalar

variable {α : Type} [Scalar α]

/-! ## Affine maps (`euclid::Transform2D`, row-vector convention) -/

structure Xf (α : Type) where
  m11 : α
  m12 : α
  m21 : α
  m22 : α
  m31 : α
  m32 : α

/-- `Transform2D::transform_point`: `(x*m11 + y*m21 + m31, x*m12 + y*m22 + m32)` -/
def Xf.apply (m : Xf α) (p : P α) : P α :=
  ⟨p.x * m.m11 + p.y * m.m21 + m.m31, p.x * m.m12 + p.y * m.m22 + m.m32⟩

/-! ## LineSegment -/

structure Seg (α : Type) where
  a : P α
  b : P α

namespace Seg
def sample (s : Seg α) (t : α) : P α := s.a.lerp s.b t
def x (s : Seg α) (t : α) : α := s.a.x * (one - t) + s.b.x * t
def y (s : Seg α) (t : α) : α := s.a.y * (one - t) + s.b.y * t
def flip (s : Seg α) : Seg α := ⟨s.b, s.a⟩
def splitRange (s : Seg α) (t0 t1 : α) : Seg α := ⟨s.a.lerp s.b t0, s.a.lerp s.b t1⟩
def split (s : Seg α) (t : α) : Seg α × Seg α :=
  let sp := s.sample t
  (⟨s.a, sp⟩, ⟨sp, s.b⟩)
def beforeSplit (s : Seg α) (t : α) : Seg α := ⟨s.a, s.sample t⟩
def afterSplit (s : Seg α) (t : α) : Seg α := ⟨s.sample t, s.b⟩
def toVector (s : Seg α) : P α := s.b - s.a
def sqLength (s : Seg α) : α := s.toVector.sqLen
def length [Transc α] (s : Seg α) : α := Transc.sqrt s.toVector.sqLen
def transformed (s : Seg α) (m : Xf α) : Seg α := ⟨m.apply s.a, m.apply s.b⟩
def solveTForX (s : Seg α) (x : α) : α :=
  let dx := s.b.x - s.a.x
  if dx == zero then zero else (x - s.a.x) / dx
def solveTForY (s : Seg α) (y : α) : α :=
  let dy := s.b.y - s.a.y
  if dy == zero then zero else (y - s.a.y) / dy
end Seg

/-! ## QuadraticBezierSegment -/

structure Quad (α : Type) where
  a : P α
  c : P α
  b : P α

namespace Quad
def sample (q : Quad α) (t : α) : P α :=
  let t2 := t * t
  let one_t := one - t
  let one_t2 := one_t * one_t
  q.a.smul one_t2 + ((q.c.smul two).smul one_t).smul t + q.b.smul t2

def x (q : Quad α) (t : α) : α :=
  let t2 := t * t
  let one_t := one - t
  let one_t2 := one_t * one_t
  q.a.x * one_t2 + q.c.x * two * one_t * t + q.b.x * t2

def y (q : Quad α) (t : α) : α :=
  let t2 := t * t
  let one_t := one - t
  let one_t2 := one_t * one_t
  q.a.y * one_t2 + q.c.y * two * one_t * t + q.b.y * t2

def dc0 (t : α) : α := two * t - two
def dc1 (t : α) : α := -four * t + two
def dc2 (t : α) : α := two * t

def derivative (q : Quad α) (t : α) : P α :=
  q.a.smul (dc0 t) + q.c.smul (dc1 t) + q.b.smul (dc2 t)
def dx (q : Quad α) (t : α) : α := q.a.x * dc0 t + q.c.x * dc1 t + q.b.x * dc2 t
def dy (q : Quad α) (t : α) : α := q.a.y * dc0 t + q.c.y * dc1 t + q.b.y * dc2 t

def flip (q : Quad α) : Quad α := ⟨q.b, q.c, q.a⟩

def splitRange (q : Quad α) (t0 t1 : α) : Quad α :=
  let a := q.sample t0
  let b := q.sample t1
  let c := a + ((q.c - q.a).vlerp (q.b - q.c) t0).smul (t1 - t0)
  ⟨a, c, b⟩

def split (q : Quad α) (t : α) : Quad α × Quad α :=
  let sp := q.sample t
  (⟨q.a, q.a.lerp q.c t, sp⟩, ⟨sp, q.c.lerp q.b t, q.b⟩)
def beforeSplit (q : Quad α) (t : α) : Quad α := ⟨q.a, q.a.lerp q.c t, q.sample t⟩
def afterSplit (q : Quad α) (t : α) : Quad α := ⟨q.sample t, q.c.lerp q.b t, q.b⟩
def baseline (q : Quad α) : Seg α := ⟨q.a, q.b⟩
def transformed (q : Quad α) (m : Xf α) : Quad α := ⟨m.apply q.a, m.apply q.c, m.apply q.b⟩
end Quad

/-! ## CubicBezierSegment -/

structure Cubic (α : Type) where
  a : P α
  c1 : P α
  c2 : P α
  b : P α

namespace Cubic
def sample (c : Cubic α) (t : α) : P α :=
  let t2 := t * t
  let t3 := t2 * t
  let one_t := one - t
  let one_t2 := one_t * one_t
  let one_t3 := one_t2 * one_t
  c.a.smul one_t3 + ((c.c1.smul three).smul one_t2).smul t
    + ((c.c2.smul three).smul one_t).smul t2 + c.b.smul t3

def x (c : Cubic α) (t : α) : α :=
  let t2 := t * t
  let t3 := t2 * t
  let one_t := one - t
  let one_t2 := one_t * one_t
  let one_t3 := one_t2 * one_t
  c.a.x * one_t3 + c.c1.x * three * one_t2 * t + c.c2.x * three * one_t * t2 + c.b.x * t3

def y (c : Cubic α) (t : α) : α :=
  let t2 := t * t
  let t3 := t2 * t
  let one_t := one - t
  let one_t2 := one_t * one_t
  let one_t3 := one_t2 * one_t
  c.a.y * one_t3 + c.c1.y * three * one_t2 * t + c.c2.y * three * one_t * t2 + c.b.y * t3

def dc0 (t : α) : α := -three * (t * t) + six * t - three
def dc1 (t : α) : α := nine * (t * t) - ofNat 12 * t + three
def dc2 (t : α) : α := -nine * (t * t) + six * t
def dc3 (t : α) : α := three * (t * t)

def derivative (c : Cubic α) (t : α) : P α :=
  c.a.smul (dc0 t) + c.c1.smul (dc1 t) + c.c2.smul (dc2 t) + c.b.smul (dc3 t)
def dx (c : Cubic α) (t : α) : α :=
  c.a.x * dc0 t + c.c1.x * dc1 t + c.c2.x * dc2 t + c.b.x * dc3 t
def dy (c : Cubic α) (t : α) : α :=
  c.a.y * dc0 t + c.c1.y * dc1 t + c.c2.y * dc2 t + c.b.y * dc3 t

def splitRange (c : Cubic α) (t0 t1 : α) : Cubic α :=
  let a := c.sample t0
  let b := c.sample t1
  let d : Quad α := ⟨c.c1 - c.a, c.c2 - c.c1, c.b - c.c2⟩
  let dt := t1 - t0
  let c1 := a + (d.sample t0).smul dt
  let c2 := b - (d.sample t1).smul dt
  ⟨a, c1, c2, b⟩

def split (c : Cubic α) (t : α) : Cubic α × Cubic α :=
  let ctrl1a := c.a + (c.c1 - c.a).smul t
  let ctrl2a := c.c1 + (c.c2 - c.c1).smul t
  let ctrl1aa := ctrl1a + (ctrl2a - ctrl1a).smul t
  let ctrl3a := c.c2 + (c.b - c.c2).smul t
  let ctrl2aa := ctrl2a + (ctrl3a - ctrl2a).smul t
  let ctrl1aaa := ctrl1aa + (ctrl2aa - ctrl1aa).smul t
  (⟨c.a, ctrl1a, ctrl1aa, ctrl1aaa⟩, ⟨ctrl1aaa, ctrl2aa, ctrl3a, c.b⟩)

def beforeSplit (c : Cubic α) (t : α) : Cubic α :=
  let ctrl1a := c.a + (c.c1 - c.a).smul t
  let ctrl2a := c.c1 + (c.c2 - c.c1).smul t
  let ctrl1aa := ctrl1a + (ctrl2a - ctrl1a).smul t
  let ctrl3a := c.c2 + (c.b - c.c2).smul t
  let ctrl2aa := ctrl2a + (ctrl3a - ctrl2a).smul t
  let ctrl1aaa := ctrl1aa + (ctrl2aa - ctrl1aa).smul t
  ⟨c.a, ctrl1a, ctrl1aa, ctrl1aaa⟩

def afterSplit (c : Cubic α) (t : α) : Cubic α :=
  let ctrl1a := c.a + (c.c1 - c.a).smul t
  let ctrl2a := c.c1 + (c.c2 - c.c1).smul t
  let ctrl1aa := ctrl1a + (ctrl2a - ctrl1a).smul t
  let ctrl3a := c.c2 + (c.b - c.c2).smul t
  let ctrl2aa := ctrl2a + (ctrl3a - ctrl2a).smul t
  ⟨ctrl1aa + (ctrl2aa - ctrl1aa).smul t, ctrl2a + (ctrl3a - ctrl2a).smul t, ctrl3a, c.b⟩

def flip (c : Cubic α) : Cubic α := ⟨c.b, c.c2, c.c1, c.a⟩
def baseline (c : Cubic α) : Seg α := ⟨c.a, c.b⟩
def transformed (c : Cubic α) (m : Xf α) : Cubic α :=
  ⟨m.apply c.a, m.apply c.c1, m.apply c.c2, m.apply c.b⟩

/-- `to_quadratic` -/
def toQuadratic (c : Cubic α) : Quad α :=
  let k1 := (c.c1.smul three - c.a).smul half
  let k2 := (c.c2.smul three - c.b).smul half
  ⟨c.a, (k1 + k2).smul half, c.b⟩
end Cubic

/-- `QuadraticBezierSegment::to_cubic` -/
def Quad.toCubic (q : Quad α) : Cubic α :=
  ⟨q.a, (q.a + q.c.smul two).sdiv three, (q.b + q.c.smul two).sdiv three, q.b⟩

/-! ## Arc (centre form).  Angles are plain scalars (radians). -/

structure Arc (α : Type) where
  center : P α
  radii : P α
  start : α
  sweep : α
  xrot : α

namespace Arc
variable [Transc α]

/-- `Rotation2D::transform_point`: `(x*cos - y*sin, y*cos + x*sin)` -/
def rotate (angle : α) (p : P α) : P α :=
  let s := Transc.sin angle
  let c := Transc.cos angle
  ⟨p.x * c - p.y * s, p.y * c + p.x * s⟩

def sampleEllipse (radii : P α) (xrot angle : α) : P α :=
  rotate xrot ⟨radii.x * Transc.cos angle, radii.y * Transc.sin angle⟩

def getAngle (a : Arc α) (t : α) : α := a.start + a.sweep * t
def sample (a : Arc α) (t : α) : P α := a.center + sampleEllipse a.radii a.xrot (a.getAngle t)
def split (a : Arc α) (t : α) : Arc α × Arc α :=
  let sa := a.sweep * t
  ({ a with sweep := sa }, { a with start := a.start + sa, sweep := a.sweep - sa })
def beforeSplit (a : Arc α) (t : α) : Arc α := { a with sweep := a.sweep * t }
def afterSplit (a : Arc α) (t : α) : Arc α :=
  let sa := a.sweep * t
  { a with start := a.start + sa, sweep := a.sweep - sa }
def flip (a : Arc α) : Arc α := { a with start := a.start + a.sweep, sweep := -a.sweep }
def splitRange (a : Arc α) (t0 t1 : α) : Arc α :=
  let a1 := a.sweep * t0
  let a2 := a.sweep * t1
  { a with start := a.start + a1, sweep := a2 - a1 }
end Arc

end Lyon
