/-
  EXACT per-input checker for the output of lyon's flattening (`chk_flat`, translation validation of
  the within-tolerance clause of C09 with a verified checker — like `Lyon.Slab` for fills).

  The checker does not look at the flattening MODEL at all: its input is the curve, the tolerance and
  the line segments (end points and parameter ranges) that the REAL `for_each_flattened_with_t`
  emitted, all converted exactly from IEEE bit patterns to rationals (`Model/RatScalar.lean`), and it
  decides with exact rational arithmetic (no square root: every comparison is between squares).

  Quadratic `q`, segments `l`, bound factor `k`, stated rounding allowance `eps`:
    * structure: the segments are chained from `(q.a, 0)` (each `from` / range start IS the previous
      `to` / range end), every range is strictly increasing, the last one ends at parameter 1 in `q.b`;
    * vertices: both ends of every segment are within `eps` of the exact curve point at the segment's
      own parameters (in floats the emitted vertex is `sample(t)` ROUNDED: `eps` carries that);
    * deviation: over the range `[t0,t1]` of a segment the curve point at relative position `s` is
      `lerp(A,B,s) − s(1−s)·Δ²·dd` (`A = q(t0)`, `B = q(t1)`, `dd = P0 − 2P1 + P2`: theorem
      `chord_deviation`), and `devSq` is an exact upper bound of its squared distance to the chord `AB`:
        - `A = B`: `|Δ²dd|²/16`;
        - foot of the perpendicular on the chord for every `s` (`|κ| ≤ 1`, `κ = Δ²dd·v/|v|²`):
          `(Δ²·dd × v)²/(16|v|²)` — attained at `s = ½`;
        - HAIRPIN chord (`|κ| > 1`: the curve leaves the strip over the chord at one end): there the
          nearest chord point is the nearer END point; the squared distance to it is
          `w²·(Δ²dd × v)²/|v|² + (s − wκ)²|v|²`, `w = s(1−s)`, with `|s − wκ| ≤ (|κ|−1)²/(4|κ|)` and
          `w ≤ (|κ|−1)/κ²` (when `|κ| ≤ 2`, else `¼`) on that stretch; elsewhere the perpendicular
          bound holds: the maximum of the two.
      The check is `devSq ≤ (k·tol)²` for every segment.
  Theorem `chk_flat_sound` (Props/C09c.lean): acceptance ⟹ every curve point is within `k·tol + eps` of
  the emitted polyline (and every vertex within `eps` of the curve, parameters strictly increasing from
  0 to exactly 1, start and end exact).

  `farFrom` is the converse certificate: the exact squared distance of ONE concrete curve point to
  EVERY emitted segment exceeds a bound — a certified failing input (`chk_flat_violation_sound`).

  Cubic: lyon's quadratic pieces `(q_j, [T0,T1])` (as emitted, in floats) and the segments of each:
  the pieces' ranges tile [0,1], every `q_j` has its control points within `eps` of the exact
  `to_quadratic` of the exact sub-range, `|P3−3P2+3P1−P0|²·(T1−T0)⁶/432 ≤ (k·tolc)²`
  (`cubic_piece_deviation`), and `chkFlat q_j tolq k eps` — theorem `chk_flat_cubic_sound`: within
  `k·tolq + k·tolc + 2·eps`.

  Mathlib-free; generic in the scalar (run at `Rat`, proved over ordered fields).
-/
import LyonVerif.Model.Geom.FlattenCert
import LyonVerif.Model.Slab

namespace Lyon.FlatChk
open Lyon Scalar

variable {α : Type} [Scalar α]

/-! ## deviation bound of one chord -/

/-- `(dd × v)² / (16·|v|²)` -/
def perpSq (v dd : P α) : α := dd.cross v * dd.cross v / (ofNat 16 * v.sqLen)

/-- `|dd·v| − |v|²` (`= (|κ|−1)·|v|²`) -/
def hairEx (v dd : P α) : α := Scalar.abs (dd.dot v) - v.sqLen

/-- `((|κ|−1)²/(4|κ|))²·|v|²` -/
def hairAlongSq (v dd : P α) : α :=
  (hairEx v dd * hairEx v dd) * (hairEx v dd * hairEx v dd)
    / (ofNat 16 * (dd.dot v * dd.dot v) * v.sqLen)

/-- bound of `s(1−s)` where the foot of the perpendicular is off the chord:
`(|κ|−1)/κ²` if `|κ| ≤ 2`, else `¼` -/
def hairW (v dd : P α) : α :=
  if Scalar.abs (dd.dot v) ≤ two * v.sqLen then hairEx v dd * v.sqLen / (dd.dot v * dd.dot v)
  else one / four

/-- squared distance bound to the nearer end point on the stretch where the foot is off the chord -/
def hairEndSq (v dd : P α) : α :=
  hairW v dd * hairW v dd * (dd.cross v * dd.cross v) / v.sqLen + hairAlongSq v dd

/-- exact upper bound of the squared distance between `lerp(A,B,s) − s(1−s)·dd` (`0 ≤ s ≤ 1`) and the
segment `AB`, `v = B − A` -/
def devSq (v dd : P α) : α :=
  if zero < v.sqLen then
    if Scalar.abs (dd.dot v) ≤ v.sqLen then perpSq v dd
    else Scalar.max (perpSq v dd) (hairEndSq v dd)
  else dd.sqLen / ofNat 16

/-- which case of `devSq` applies: 0 degenerate chord, 1 perpendicular, 2 hairpin -/
def devKind (v dd : P α) : Nat :=
  if zero < v.sqLen then (if Scalar.abs (dd.dot v) ≤ v.sqLen then 1 else 2) else 0

/-! ## quadratic -/

/-- `Δ²·(P0 − 2P1 + P2)` for the range of `sg` -/
def segDD (q : Quad α) (sg : FlatSeg α) : P α :=
  q.secondDiff.smul ((sg.t1 - sg.t0) * (sg.t1 - sg.t0))

/-- the exact chord `q(t1) − q(t0)` -/
def segV (q : Quad α) (sg : FlatSeg α) : P α := q.sample sg.t1 - q.sample sg.t0

/-- deviation bound (squared) of the curve over the range of `sg` from the EXACT chord -/
def segDevSq (q : Quad α) (sg : FlatSeg α) : α := devSq (segV q sg) (segDD q sg)

/-- squared distance of the emitted end points from the exact curve points (the larger one) -/
def segVtxSq (q : Quad α) (sg : FlatSeg α) : α :=
  Scalar.max (sg.a - q.sample sg.t0).sqLen (sg.b - q.sample sg.t1).sqLen

def flatDevSq (q : Quad α) : List (FlatSeg α) → α
  | [] => zero
  | sg :: r => Scalar.max (segDevSq q sg) (flatDevSq q r)

def flatVtxSq (q : Quad α) : List (FlatSeg α) → α
  | [] => zero
  | sg :: r => Scalar.max (segVtxSq q sg) (flatVtxSq q r)

/-- chained from `(p, t)`: every `from` / range start is the previous `to` / range end, exactly;
ranges strictly increasing; ends in `(pe, te)` -/
def chainOK (p : P α) (t : α) (pe : P α) (te : α) : List (FlatSeg α) → Bool
  | [] => false
  | [sg] => (sg.a == p) && (sg.t0 == t) && decide (sg.t0 < sg.t1) && (sg.b == pe) && (sg.t1 == te)
  | sg :: r => (sg.a == p) && (sg.t0 == t) && decide (sg.t0 < sg.t1) && chainOK sg.b sg.t1 pe te r

/-- **the checker** for a flattened quadratic -/
def chkFlat (q : Quad α) (tol k eps : α) (l : List (FlatSeg α)) : Bool :=
  decide (zero ≤ eps) && decide (zero ≤ k * tol) && chainOK q.a zero q.b one l
    && decide (flatVtxSq q l ≤ eps * eps) && decide (flatDevSq q l ≤ (k * tol) * (k * tol))

/-- the point `p` is farther than `√r2` from every point of every segment -/
def farFrom (p : P α) (r2 : α) (l : List (FlatSeg α)) : Bool :=
  l.all (fun sg => decide (r2 < Slab.sqDistSeg p sg.a sg.b))

/-! ## cubic -/

/-- one quadratic piece as lyon emitted it: the quadratic, its range on the cubic, its segments
(parameters local to the piece) -/
structure Piece (α : Type) where
  q : Quad α
  t0 : α
  t1 : α
  l : List (FlatSeg α)

/-- `P3 − 3P2 + 3P1 − P0` -/
def thirdDiff (c : Cubic α) : P α := ((c.b - c.c2.smul three) + c.c1.smul three) - c.a

/-- squared bound of the distance between the cubic over `[t0,t1]` and the exact `to_quadratic` of
that sub-range: `|D|²·(t1−t0)⁶/432` -/
def pieceDevSq (c : Cubic α) (pc : Piece α) : α :=
  (thirdDiff c).sqLen * (((pc.t1 - pc.t0) * (pc.t1 - pc.t0) * (pc.t1 - pc.t0))
    * ((pc.t1 - pc.t0) * (pc.t1 - pc.t0) * (pc.t1 - pc.t0))) / ofNat 432

/-- the exact quadratic approximation of the exact sub-range -/
def pieceExact (c : Cubic α) (pc : Piece α) : Quad α := (c.splitRange pc.t0 pc.t1).toQuadratic

/-- largest squared distance between the control points of the emitted piece and the exact ones -/
def pieceCtrlSq (c : Cubic α) (pc : Piece α) : α :=
  Scalar.max (pc.q.a - (pieceExact c pc).a).sqLen
    (Scalar.max (pc.q.c - (pieceExact c pc).c).sqLen (pc.q.b - (pieceExact c pc).b).sqLen)

/-- the ranges tile `[t, 1]` in order, each strictly increasing -/
def rangesOK (t : α) : List (Piece α) → Bool
  | [] => false
  | [pc] => (pc.t0 == t) && decide (pc.t0 < pc.t1) && (pc.t1 == one)
  | pc :: r => (pc.t0 == t) && decide (pc.t0 < pc.t1) && rangesOK pc.t1 r

/-- consecutive pieces share their end point exactly, from `p` to `pe` -/
def joinsOK (p pe : P α) : List (Piece α) → Bool
  | [] => false
  | [pc] => (pc.q.a == p) && (pc.q.b == pe)
  | pc :: r => (pc.q.a == p) && joinsOK pc.q.b pe r

def pieceOK (c : Cubic α) (tolq tolc k eps : α) (pc : Piece α) : Bool :=
  decide (pieceCtrlSq c pc ≤ eps * eps) && decide (pieceDevSq c pc ≤ (k * tolc) * (k * tolc))
    && chkFlat pc.q tolq k eps pc.l

/-- **the checker** for a flattened cubic -/
def chkFlatCubic (c : Cubic α) (tolq tolc k eps : α) (ps : List (Piece α)) : Bool :=
  decide (zero ≤ eps) && decide (zero ≤ k * tolq) && decide (zero ≤ k * tolc)
    && rangesOK zero ps && joinsOK c.a c.b ps
    && ps.all (pieceOK c tolq tolc k eps)

/-- all emitted segments of a cubic, in order -/
def allSegs (ps : List (Piece α)) : List (FlatSeg α) := ps.flatMap (·.l)

/-! ## convex-hull certificate (no `eps`, no case analysis, cubics directly)

A Bézier curve over a sub-range of its parameter lies in the convex hull of the control points of that
sub-range (`split_range`, exact in rationals), and the set of points within a given distance of a
segment is convex: if all control points of a sub-range are within `√r2` of ONE emitted segment, so is
every curve point of the sub-range. The range of every emitted segment is cut into `m` equal
sub-ranges (`m` from the list `ms`, the first that works), each of which must be near one of the
segments in a window of `w` neighbours on either side (the own chord first of all: a hairpin whose
overshoot runs along the NEXT segment is covered by that one). The distances are to the segments
between the EMITTED (rounded) vertices: no allowance for their rounding is needed, and the bound
`r2 = (k·tol)²` is about the polyline as it is. Theorems `chk_hull_quad_sound`,
`chk_hull_cubic_sound` (Props/C09c.lean). -/

/-- all the given points within `√r2` of the segment -/
def ptsNear (pts : List (P α)) (r2 : α) (sg : FlatSeg α) : Bool :=
  pts.all (fun p => decide (Slab.sqDistSeg p sg.a sg.b ≤ r2))

/-- `t0 + (t1 − t0)·j/m` -/
def subParam (t0 t1 : α) (m j : Nat) : α := t0 + (t1 - t0) * (ofNat j / ofNat m)

/-- the control points of each of the `m` equal sub-ranges of `[t0,t1]` are near ONE candidate -/
def rangeCovered (ctrl : α → α → List (P α)) (r2 : α) (cands : List (FlatSeg α)) (t0 t1 : α) (m : Nat) : Bool :=
  (List.range m).all (fun j =>
    cands.any (ptsNear (ctrl (subParam t0 t1 m j) (subParam t0 t1 m (j+1))) r2))

/-- some subdivision count of the list works for the range of `sg` -/
def chordHullOK (ctrl : α → α → List (P α)) (r2 : α) (ms : List Nat) (cands : List (FlatSeg α))
    (sg : FlatSeg α) : Bool :=
  ms.any (fun m => decide (0 < m) && rangeCovered ctrl r2 cands sg.t0 sg.t1 m)

/-- the segments number `i−w … i+w` -/
def window (all : List (FlatSeg α)) (w i : Nat) : List (FlatSeg α) := (all.drop (i - w)).take (2 * w + 1)

/-- segment number `i` first, then its neighbours -/
def candidates (all : List (FlatSeg α)) (w i : Nat) (sg : FlatSeg α) : List (FlatSeg α) :=
  sg :: window all w i

def hullAll (ctrl : α → α → List (P α)) (r2 : α) (ms : List Nat) (w : Nat) (all : List (FlatSeg α)) :
    List (FlatSeg α) → Nat → Bool
  | [], _ => true
  | sg :: r, i => chordHullOK ctrl r2 ms (candidates all w i sg) sg && hullAll ctrl r2 ms w all r (i + 1)

/-- every emitted end point within `√r2` of the curve point at its own parameter -/
def vtxNear (sample : α → P α) (r2 : α) (l : List (FlatSeg α)) : Bool :=
  l.all (fun sg => decide ((sg.b - sample sg.t1).sqLen ≤ r2))

/-- **the convex-hull checker**, generic in the curve (`sample`, control points of a sub-range) -/
def chkHull (sample : α → P α) (ctrl : α → α → List (P α)) (p0 p1 : P α) (r2 : α) (ms : List Nat) (w : Nat)
    (l : List (FlatSeg α)) : Bool :=
  chainOK p0 zero p1 one l && vtxNear sample r2 l && hullAll ctrl r2 ms w l l 0

def quadCtrl (q : Quad α) (t0 t1 : α) : List (P α) :=
  [(q.splitRange t0 t1).a, (q.splitRange t0 t1).c, (q.splitRange t0 t1).b]

def cubicCtrl (c : Cubic α) (t0 t1 : α) : List (P α) :=
  [(c.splitRange t0 t1).a, (c.splitRange t0 t1).c1, (c.splitRange t0 t1).c2, (c.splitRange t0 t1).b]

/-- the checker for the segments of a flattened quadratic: `r2 = (k·tol)²` -/
def chkHullQuad (q : Quad α) (r2 : α) (ms : List Nat) (w : Nat) (l : List (FlatSeg α)) : Bool :=
  chkHull q.sample (quadCtrl q) q.a q.b r2 ms w l

/-- the checker for the segments of a flattened cubic, with the parameter ranges ON THE CUBIC as
`for_each_flattened_with_t` reports them -/
def chkHullCubic (c : Cubic α) (r2 : α) (ms : List Nat) (w : Nat) (l : List (FlatSeg α)) : Bool :=
  chkHull c.sample (cubicCtrl c) c.a c.b r2 ms w l

end Lyon.FlatChk
