/-
  Bounding boxes, extremum parameters and monotone splits (property C11), mirrored expression by
  expression from
    crates/geom/src/{quadratic_bezier,cubic_bezier,arc,line,triangle,utils}.rs,
    crates/algorithms/src/aabb.rs
  and the euclid helpers they call (`approxord::{min,max}`, `Point2D::{min,max}`,
  `Box2D::from_points`, `Transform2D::{rotation,outer_transformed_box}`, `Angle::positive`).

  The x- and the y- variant of every lyon function are the same code on the other coordinate, so
  the arithmetic is written once on the coordinate triple / quadruple (`Quad1`, `Cubic1`) and the
  segment-level functions only select the coordinates.  `Quad1.ev a c b t` is literally the body of
  `Quad.x` (resp. `Quad.y`); likewise `Cubic1.ev`.

  Mathlib-free.
-/
import LyonVerif.Model.Geom.Basic

namespace Lyon
open Scalar

variable {α : Type} [Scalar α]

/-! ## euclid helpers -/

/-- `euclid::Box2D` -/
structure Box (α : Type) where
  min : P α
  max : P α

/-- `euclid::approxord::min`: `if x <= y { x } else { y }` -/
def emin (x y : α) : α := if x ≤ y then x else y
/-- `euclid::approxord::max`: `if x >= y { x } else { y }` -/
def emax (x y : α) : α := if x ≥ y then x else y
/-- `Point2D::min` -/
def P.pmin (a b : P α) : P α := ⟨emin a.x b.x, emin a.y b.y⟩
/-- `Point2D::max` -/
def P.pmax (a b : P α) : P α := ⟨emax a.x b.x, emax a.y b.y⟩

/-- `lyon_geom::utils::min_max` -/
def minMax (a b : α) : α × α := if a < b then (a, b) else (b, a)

/-- `v.max(lo).min(hi)` with Rust's `f32::max/min` -/
def clampTo (v lo hi : α) : α := Scalar.min (Scalar.max v lo) hi

def Box.ofRanges (rx ry : α × α) : Box α := ⟨⟨rx.1, ry.1⟩, ⟨rx.2, ry.2⟩⟩

/-- one step of the loop of `Box2D::from_points` -/
def Box.grow (b : Box α) (p : P α) : Box α :=
  ⟨⟨if p.x < b.min.x then p.x else b.min.x, if p.y < b.min.y then p.y else b.min.y⟩,
   ⟨if p.x > b.max.x then p.x else b.max.x, if p.y > b.max.y then p.y else b.max.y⟩⟩

/-- `Box2D::from_points` on a non-empty sequence -/
def Box.fromPoints (p0 : P α) (rest : List (P α)) : Box α := rest.foldl Box.grow ⟨p0, p0⟩

/-! ## LineSegment, Triangle -/

namespace Seg
def boundingRangeX (s : Seg α) : α × α := minMax s.a.x s.b.x
def boundingRangeY (s : Seg α) : α × α := minMax s.a.y s.b.y
def boundingBox (s : Seg α) : Box α := Box.ofRanges s.boundingRangeX s.boundingRangeY
end Seg

structure Tri (α : Type) where
  a : P α
  b : P α
  c : P α

namespace Tri
def boundingRangeX (t : Tri α) : α × α :=
  (Scalar.min (Scalar.min t.a.x t.b.x) t.c.x, Scalar.max (Scalar.max t.a.x t.b.x) t.c.x)
def boundingRangeY (t : Tri α) : α × α :=
  (Scalar.min (Scalar.min t.a.y t.b.y) t.c.y, Scalar.max (Scalar.max t.a.y t.b.y) t.c.y)
def boundingBox (t : Tri α) : Box α := Box.ofRanges t.boundingRangeX t.boundingRangeY
end Tri

/-! ## One coordinate of a quadratic Bézier: `(from, ctrl, to) = (a, c, b)` -/

namespace Quad1

/-- body of `QuadraticBezierSegment::x` / `::y` -/
def ev (a c b t : α) : α :=
  let t2 := t * t
  let one_t := one - t
  let one_t2 := one_t * one_t
  a * one_t2 + c * two * one_t * t + b * t2

/-- `let div = self.from.x - S::TWO * self.ctrl.x + self.to.x;` -/
def div (a c b : α) : α := a - two * c + b
/-- `let t = (self.from.x - self.ctrl.x) / div;` -/
def extT (a c b : α) : α := (a - c) / div a c b

/-- `local_x_extremum_t` / `local_y_extremum_t` -/
def localExt (a c b : α) : Option α :=
  if div a c b == zero then none
  else if extT a c b > zero ∧ extT a c b < one then some (extT a c b) else none

/-- `if self.from.x > self.to.x { S::ZERO } else { S::ONE }` -/
def endMax (a b : α) : α := if a > b then zero else one
/-- `if self.from.x < self.to.x { S::ZERO } else { S::ONE }` -/
def endMin (a b : α) : α := if a < b then zero else one

/-- `x_maximum_t` / `y_maximum_t` -/
def maxT (a c b : α) : α :=
  match localExt a c b with
  | some t => if ev a c b t > a ∧ ev a c b t > b then t else endMax a b
  | none => endMax a b

/-- `x_minimum_t` / `y_minimum_t` -/
def minT (a c b : α) : α :=
  match localExt a c b with
  | some t => if ev a c b t < a ∧ ev a c b t < b then t else endMin a b
  | none => endMin a b

/-- `bounding_range_x` / `_y` -/
def range (a c b : α) : α × α := (ev a c b (minT a c b), ev a c b (maxT a c b))

/-- `fast_bounding_range_x` / `_y` -/
def fastRange (a c b : α) : α × α :=
  (Scalar.min (Scalar.min a c) b, Scalar.max (Scalar.max a c) b)

end Quad1

namespace Quad

def localXExtremumT (q : Quad α) : Option α := Quad1.localExt q.a.x q.c.x q.b.x
def localYExtremumT (q : Quad α) : Option α := Quad1.localExt q.a.y q.c.y q.b.y
def xMaximumT (q : Quad α) : α := Quad1.maxT q.a.x q.c.x q.b.x
def xMinimumT (q : Quad α) : α := Quad1.minT q.a.x q.c.x q.b.x
def yMaximumT (q : Quad α) : α := Quad1.maxT q.a.y q.c.y q.b.y
def yMinimumT (q : Quad α) : α := Quad1.minT q.a.y q.c.y q.b.y
def boundingRangeX (q : Quad α) : α × α := Quad1.range q.a.x q.c.x q.b.x
def boundingRangeY (q : Quad α) : α × α := Quad1.range q.a.y q.c.y q.b.y
def fastBoundingRangeX (q : Quad α) : α × α := Quad1.fastRange q.a.x q.c.x q.b.x
def fastBoundingRangeY (q : Quad α) : α × α := Quad1.fastRange q.a.y q.c.y q.b.y
def boundingBox (q : Quad α) : Box α := Box.ofRanges q.boundingRangeX q.boundingRangeY
def fastBoundingBox (q : Quad α) : Box α := Box.ofRanges q.fastBoundingRangeX q.fastBoundingRangeY
def isXMonotonic (q : Quad α) : Bool := q.localXExtremumT.isNone
def isYMonotonic (q : Quad α) : Bool := q.localYExtremumT.isNone
def isMonotonic (q : Quad α) : Bool := q.isXMonotonic && q.isYMonotonic

/-- the tail of `for_each_monotonic_range` once `t0`, `t1` are in order:
`start = 0; if let Some(t) = t0 { cb(start..t); start = t }`
`if let Some(t) = t1 { if t != start { cb(start..t); start = t } }; cb(start..1)` -/
def monoRangesOf : Option α → Option α → List (α × α)
  | none, none => [(zero, one)]
  | some t, none => [(zero, t), (t, one)]
  | none, some t => if t != zero then [(zero, t), (t, one)] else [(zero, one)]
  | some s, some t => if t != s then [(zero, s), (s, t), (t, one)] else [(zero, s), (s, one)]

/-- `for_each_monotonic_range` (the callback sequence as a list) -/
def monotonicRanges (q : Quad α) : List (α × α) :=
  match q.localXExtremumT, q.localYExtremumT with
  | some tx, some ty =>
    if tx > ty then monoRangesOf (some ty) (some tx) else monoRangesOf (some tx) (some ty)
  | t0, t1 => monoRangesOf t0 t1

/-- the control-point clamp of `for_each_monotonic` -/
def clampXY (s : Quad α) : Quad α :=
  ⟨s.a,
   ⟨clampTo s.c.x (Scalar.min s.a.x s.b.x) (Scalar.max s.a.x s.b.x),
    clampTo s.c.y (Scalar.min s.a.y s.b.y) (Scalar.max s.a.y s.b.y)⟩,
   s.b⟩

/-- the control-point clamp of `for_each_x_monotonic` (x only) -/
def clampX (s : Quad α) : Quad α :=
  ⟨s.a, ⟨clampTo s.c.x (Scalar.min s.a.x s.b.x) (Scalar.max s.a.x s.b.x), s.c.y⟩, s.b⟩

/-- `for_each_monotonic` -/
def monotonicPieces (q : Quad α) : List (Quad α) :=
  q.monotonicRanges.map (fun r => clampXY (q.splitRange r.1 r.2))

def rangesAt : Option α → List (α × α)
  | some t => [(zero, t), (t, one)]
  | none => [(zero, one)]

/-- `for_each_x_monotonic_range` -/
def xMonotonicRanges (q : Quad α) : List (α × α) := rangesAt q.localXExtremumT
/-- `for_each_y_monotonic_range` -/
def yMonotonicRanges (q : Quad α) : List (α × α) := rangesAt q.localYExtremumT

/-- `for_each_x_monotonic` (splits with `split`, clamps x) -/
def xMonotonicPieces (q : Quad α) : List (Quad α) :=
  match q.localXExtremumT with
  | some t => [clampX (q.split t).1, clampX (q.split t).2]
  | none => [q]

/-- `for_each_y_monotonic` (splits with `split`, no clamp in the code) -/
def yMonotonicPieces (q : Quad α) : List (Quad α) :=
  match q.localYExtremumT with
  | some t => [(q.split t).1, (q.split t).2]
  | none => [q]

end Quad

/-! ## One coordinate of a cubic Bézier: `(from, ctrl1, ctrl2, to) = (p0, p1, p2, p3)` -/

namespace Cubic1

/-- body of `CubicBezierSegment::x` / `::y` -/
def ev (p0 p1 p2 p3 t : α) : α :=
  let t2 := t * t
  let t3 := t2 * t
  let one_t := one - t
  let one_t2 := one_t * one_t
  let one_t3 := one_t2 * one_t
  p0 * one_t3 + p1 * three * one_t2 * t + p2 * three * one_t * t2 + p3 * t3

/-- `let a = S::THREE * (p3 + S::THREE * (p1 - p2) - p0);` -/
def ca (p0 p1 p2 p3 : α) : α := three * (p3 + three * (p1 - p2) - p0)
/-- `let b = S::SIX * (p2 - S::TWO * p1 + p0);` -/
def cb (p0 p1 p2 : α) : α := six * (p2 - two * p1 + p0)
/-- `let c = S::THREE * (p1 - p0);` -/
def cc (p0 p1 : α) : α := three * (p1 - p0)

/-- `if in_range(t) { cb(t) }` with `in_range(t) = t > 0 && t < 1` -/
def keep (t : α) : List α := if t > zero ∧ t < one then [t] else []

/-- `b * b - S::FOUR * a * c` -/
def disc (a b c : α) : α := b * b - four * a * c

/-- `b.signum()`: `1` for `b ≥ +0.0`, `-1` for `b ≤ -0.0` (the sign bit of a zero is read through
`1 / b`, which is `±inf` on floats; over a field `1 / 0 = 0` and the result is `1`) -/
def signum (b : α) : α :=
  if b < zero then -one else if b == zero ∧ one / b < zero then -one else one

/-- `let q = -(b + b.signum() * discriminant_sqrt) / S::TWO;` -/
def rootQ (b s : α) : α := -(b + signum b * s) / two

/-- the two-root branch (as repaired by lyon commit 67fbe059): `q / a` and `c / q`, swapped into
increasing order, each kept if in range.
(Before the fix: `(-b ∓ sqrt d) / (2a)`, which is the same pair of roots over a field but cancels
in floating point when `|4ac| ≪ b²` — former finding `C11-cubic-extremum-cancellation`.) -/
def twoRoots (a b c s : α) : List α :=
  if rootQ b s / a > c / rootQ b s
  then keep (c / rootQ b s) ++ keep (rootQ b s / a)
  else keep (rootQ b s / a) ++ keep (c / rootQ b s)

/-- `for_each_local_extremum` on the derivative coefficients -/
def extremaOf [Transc α] (a b c : α) : List α :=
  if a == zero then (if b != zero then keep (-c / b) else [])
  else if disc a b c < zero then []
  else if disc a b c == zero then keep (-b / (two * a))
  else twoRoots a b c (Transc.sqrt (disc a b c))

/-- `for_each_local_extremum(p0, p1, p2, p3, cb)` (callback sequence as a list) -/
def localExtrema [Transc α] (p0 p1 p2 p3 : α) : List α :=
  extremaOf (ca p0 p1 p2 p3) (cb p0 p1 p2) (cc p0 p1)

/-- `max_t = 0; max_x = from.x; if to.x > max_x { max_t = 1; max_x = to.x }` -/
def maxInit (p0 p3 : α) : α × α := if p3 > p0 then (one, p3) else (zero, p0)
def minInit (p0 p3 : α) : α × α := if p3 < p0 then (one, p3) else (zero, p0)
/-- `let x = self.x(t); if x > max_x { max_t = t; max_x = x }` -/
def maxStep (p0 p1 p2 p3 : α) (st : α × α) (t : α) : α × α :=
  if ev p0 p1 p2 p3 t > st.2 then (t, ev p0 p1 p2 p3 t) else st
def minStep (p0 p1 p2 p3 : α) (st : α × α) (t : α) : α × α :=
  if ev p0 p1 p2 p3 t < st.2 then (t, ev p0 p1 p2 p3 t) else st

/-- `x_maximum_t` / `y_maximum_t` -/
def maxT [Transc α] (p0 p1 p2 p3 : α) : α :=
  ((localExtrema p0 p1 p2 p3).foldl (maxStep p0 p1 p2 p3) (maxInit p0 p3)).1
/-- `x_minimum_t` / `y_minimum_t` -/
def minT [Transc α] (p0 p1 p2 p3 : α) : α :=
  ((localExtrema p0 p1 p2 p3).foldl (minStep p0 p1 p2 p3) (minInit p0 p3)).1

def range [Transc α] (p0 p1 p2 p3 : α) : α × α :=
  (ev p0 p1 p2 p3 (minT p0 p1 p2 p3), ev p0 p1 p2 p3 (maxT p0 p1 p2 p3))

def fastRange (p0 p1 p2 p3 : α) : α × α :=
  (Scalar.min (Scalar.min (Scalar.min p0 p1) p2) p3, Scalar.max (Scalar.max (Scalar.max p0 p1) p2) p3)

end Cubic1

namespace Cubic
variable [Transc α]

def localXExtremaT (c : Cubic α) : List α := Cubic1.localExtrema c.a.x c.c1.x c.c2.x c.b.x
def localYExtremaT (c : Cubic α) : List α := Cubic1.localExtrema c.a.y c.c1.y c.c2.y c.b.y
def xMaximumT (c : Cubic α) : α := Cubic1.maxT c.a.x c.c1.x c.c2.x c.b.x
def xMinimumT (c : Cubic α) : α := Cubic1.minT c.a.x c.c1.x c.c2.x c.b.x
def yMaximumT (c : Cubic α) : α := Cubic1.maxT c.a.y c.c1.y c.c2.y c.b.y
def yMinimumT (c : Cubic α) : α := Cubic1.minT c.a.y c.c1.y c.c2.y c.b.y
def boundingRangeX (c : Cubic α) : α × α := Cubic1.range c.a.x c.c1.x c.c2.x c.b.x
def boundingRangeY (c : Cubic α) : α × α := Cubic1.range c.a.y c.c1.y c.c2.y c.b.y
def fastBoundingRangeX (c : Cubic α) : α × α := Cubic1.fastRange c.a.x c.c1.x c.c2.x c.b.x
def fastBoundingRangeY (c : Cubic α) : α × α := Cubic1.fastRange c.a.y c.c1.y c.c2.y c.b.y
def boundingBox (c : Cubic α) : Box α := Box.ofRanges c.boundingRangeX c.boundingRangeY
def fastBoundingBox (c : Cubic α) : Box α := Box.ofRanges c.fastBoundingRangeX c.fastBoundingRangeY
def isXMonotonic (c : Cubic α) : Bool := c.localXExtremaT.isEmpty
def isYMonotonic (c : Cubic α) : Bool := c.localYExtremaT.isEmpty
def isMonotonic (c : Cubic α) : Bool := c.isXMonotonic && c.isYMonotonic

/-- insertion into an increasing list (the result of `sort_unstable_by(partial_cmp)` on at most
four in-range, hence non-NaN and non-negative-zero, values is determined by the values) -/
def insertAsc (t : α) : List α → List α
  | [] => [t]
  | h :: r => if t < h then t :: h :: r else h :: insertAsc t r
def sortAsc (l : List α) : List α := l.foldr insertAsc []

/-- `for &t in &extrema { if t != t0 { cb(t0..t); t0 = t } }; cb(t0..1)` -/
def rangesSkip (t0 : α) : List α → List (α × α)
  | [] => [(t0, one)]
  | t :: r => if t != t0 then (t0, t) :: rangesSkip t r else rangesSkip t0 r

/-- `for_each_local_*_extremum_t(|t| { cb(t0..t); t0 = t }); cb(t0..1)` -/
def rangesAll (t0 : α) : List α → List (α × α)
  | [] => [(t0, one)]
  | t :: r => (t0, t) :: rangesAll t r

/-- `for_each_monotonic_range` -/
def monotonicRanges (c : Cubic α) : List (α × α) :=
  rangesSkip zero (sortAsc (c.localXExtremaT ++ c.localYExtremaT))
def xMonotonicRanges (c : Cubic α) : List (α × α) := rangesAll zero c.localXExtremaT
def yMonotonicRanges (c : Cubic α) : List (α × α) := rangesAll zero c.localYExtremaT

/-- `if up { ctrl1.max(from) } else { ctrl1.min(from) }` with `up = to >= from` -/
def clampEnd1 (c1 a b : α) : α := if b ≥ a then Scalar.max c1 a else Scalar.min c1 a
/-- `if up { ctrl2.min(to) } else { ctrl2.max(to) }` with `up = to >= from` -/
def clampEnd2 (c2 a b : α) : α := if b ≥ a then Scalar.min c2 b else Scalar.max c2 b

/-- the end-tangent clamp of `for_each_monotonic` (as repaired by lyon commit 821d0dd7; before the
fix both control points were clamped into the coordinate range of the endpoints, which changed
monotone cubics such as `(0,0) (1,1) (−1,2) (4,3)` — former finding `C11-cubic-monotonic-clamp`) -/
def clampXY (s : Cubic α) : Cubic α :=
  ⟨s.a,
   ⟨clampEnd1 s.c1.x s.a.x s.b.x, clampEnd1 s.c1.y s.a.y s.b.y⟩,
   ⟨clampEnd2 s.c2.x s.a.x s.b.x, clampEnd2 s.c2.y s.a.y s.b.y⟩,
   s.b⟩
def clampX (s : Cubic α) : Cubic α :=
  ⟨s.a, ⟨clampEnd1 s.c1.x s.a.x s.b.x, s.c1.y⟩, ⟨clampEnd2 s.c2.x s.a.x s.b.x, s.c2.y⟩, s.b⟩
def clampY (s : Cubic α) : Cubic α :=
  ⟨s.a, ⟨s.c1.x, clampEnd1 s.c1.y s.a.y s.b.y⟩, ⟨s.c2.x, clampEnd2 s.c2.y s.a.y s.b.y⟩, s.b⟩

/-- `for_each_monotonic` -/
def monotonicPieces (c : Cubic α) : List (Cubic α) :=
  c.monotonicRanges.map (fun r => clampXY (c.splitRange r.1 r.2))
def xMonotonicPieces (c : Cubic α) : List (Cubic α) :=
  c.xMonotonicRanges.map (fun r => clampX (c.splitRange r.1 r.2))
def yMonotonicPieces (c : Cubic α) : List (Cubic α) :=
  c.yMonotonicRanges.map (fun r => clampY (c.splitRange r.1 r.2))

end Cubic

/-! ## Arc -/

/-- `atan` is not part of `Transc`; supplied here (Float32/Float: libm `atanf`/`atan`). -/
class Atan (α : Type) where
  atan : α → α
  /-- `atan(y / x)` as IEEE arithmetic evaluates it: the quotient lives in the extended reals
  (`y / ±0 = ±∞` for `y ≠ 0`, and `atan(±∞) = ±π/2`).  On floats this is literally
  `atan (y / x)`; a field instance has to spell the `x = 0` case out, because `y / 0 = 0` there. -/
  atanQuot : α → α → α

instance : Atan Float32 := ⟨Float32.atan, fun y x => Float32.atan (y / x)⟩
instance : Atan Float := ⟨Float.atan, fun y x => Float.atan (y / x)⟩

namespace Arc
variable [Transc α]

/-- `Angle::positive`: `two_pi = PI + PI; a = radians % two_pi; if a < 0 { a = a + two_pi }` -/
def positive (a : α) : α :=
  if Transc.fmod a (Transc.pi + Transc.pi) < zero
  then Transc.fmod a (Transc.pi + Transc.pi) + (Transc.pi + Transc.pi)
  else Transc.fmod a (Transc.pi + Transc.pi)

/-- `S::signum(sweep)`.  (`signum(-0.0) = -1` and `signum(NaN) = NaN` in Rust; for those sweeps
`abs_sweep` is `0`/NaN and no branch of `for_each_extremum_inner` emits anything, so the
difference is unobservable.) -/
def signum (x : α) : α := if x < zero then -one else one

/-- `if a1 * sign > a2 * sign { swap(&mut a1, &mut a2) }` — first / second after the swap -/
def ordFst (a1 a2 sign : α) : α := if a1 * sign > a2 * sign then a2 else a1
def ordSnd (a1 a2 sign : α) : α := if a1 * sign > a2 * sign then a1 else a2

/-- `if a < abs_sweep { cb(a / abs_sweep) }` -/
def emitPos (a absSweep : α) : List α := if a < absSweep then [a / absSweep] else []
/-- `if a > two_pi - abs_sweep { cb((two_pi - a) / abs_sweep) }`  (as repaired by lyon commit
3f341fdf; before the fix `a / abs_sweep` was emitted — former finding
`C11-arc-negative-sweep-extremum`) -/
def emitNeg (a absSweep twoPi : α) : List α :=
  if a > twoPi - absSweep then [(twoPi - a) / absSweep] else []

/-- `for_each_extremum_inner(a1, a2, cb)`, callback sequence as a list -/
def extremumInner (arc : Arc α) (a1 a2 : α) : List α :=
  let sweep := arc.sweep
  let absSweep := Scalar.abs sweep
  let sign := signum sweep
  let b1 := positive (a1 - arc.start)
  let b2 := positive (a2 - arc.start)
  let c1 := ordFst b1 b2 sign
  let c2 := ordSnd b1 b2 sign
  let twoPi := two * Transc.pi
  if sweep ≥ zero then emitPos c1 absSweep ++ emitPos c2 absSweep
  else emitNeg c1 absSweep twoPi ++ emitNeg c2 absSweep twoPi

variable [Atan α]

/-- `a1 = -atan(ry * tan(x_rotation) / rx)` -/
def xExtAngle (arc : Arc α) : α := -(Atan.atan (arc.radii.y * Transc.tan arc.xrot / arc.radii.x))
/-- `a1 = atan(ry / (tan(x_rotation) * rx))`; for an unrotated ellipse `tan = 0` and the code relies
on IEEE `ry / 0 = ±inf`, `atan(±inf) = ±π/2`: that is what `Atan.atanQuot` stands for -/
def yExtAngle (arc : Arc α) : α := Atan.atanQuot arc.radii.y (Transc.tan arc.xrot * arc.radii.x)

/-- `for_each_local_x_extremum_t` -/
def localXExtremaT (arc : Arc α) : List α :=
  arc.extremumInner arc.xExtAngle (Transc.pi + arc.xExtAngle)
/-- `for_each_local_y_extremum_t` -/
def localYExtremaT (arc : Arc α) : List α :=
  arc.extremumInner arc.yExtAngle (Transc.pi + arc.yExtAngle)

/-- `min.x = S::min(min.x, p.x); max.x = S::max(max.x, p.x)` -/
def growX (arc : Arc α) (r : α × α) (t : α) : α × α :=
  (Scalar.min r.1 (arc.sample t).x, Scalar.max r.2 (arc.sample t).x)
def growY (arc : Arc α) (r : α × α) (t : α) : α × α :=
  (Scalar.min r.1 (arc.sample t).y, Scalar.max r.2 (arc.sample t).y)

/-- `bounding_range_x` (= the x part of `bounding_box`) -/
def boundingRangeX (arc : Arc α) : α × α :=
  arc.localXExtremaT.foldl arc.growX
    (emin (arc.sample zero).x (arc.sample one).x, emax (arc.sample zero).x (arc.sample one).x)
def boundingRangeY (arc : Arc α) : α × α :=
  arc.localYExtremaT.foldl arc.growY
    (emin (arc.sample zero).y (arc.sample one).y, emax (arc.sample zero).y (arc.sample one).y)

/-- `bounding_box` -/
def boundingBox (arc : Arc α) : Box α := Box.ofRanges arc.boundingRangeX arc.boundingRangeY

/-- `Transform::rotation(theta)`: `(cos, sin, 0 - sin, cos, 0, 0)` -/
def rotationXf (theta : α) : Xf α :=
  ⟨Transc.cos theta, Transc.sin theta, zero - Transc.sin theta, Transc.cos theta, zero, zero⟩

/-- `outer_transformed_box`: `from_points([T(min), T(max), T(max.x,min.y), T(min.x,max.y)])` -/
def outerTransformedBox (m : Xf α) (b : Box α) : Box α :=
  Box.fromPoints (m.apply b.min)
    [m.apply b.max, m.apply ⟨b.max.x, b.min.y⟩, m.apply ⟨b.min.x, b.max.y⟩]

/-- `Box2D::translate(by)`: `{ min: min + by, max: max + by }` -/
def translateBox (b : Box α) (v : P α) : Box α := ⟨b.min + v, b.max + v⟩

/-- `fast_bounding_box` (as repaired by lyon commit c4f6194c): the box of the radii around the
origin is rotated, then translated to the centre.  (Before the fix the box around the *centre* was
rotated about the origin — former finding `C11-arc-fast-box-rotates-about-origin`.) -/
def fastBoundingBox (arc : Arc α) : Box α :=
  translateBox
    (outerTransformedBox (rotationXf arc.xrot)
      ⟨(⟨zero, zero⟩ : P α) - arc.radii, (⟨zero, zero⟩ : P α) + arc.radii⟩)
    arc.center

end Arc

/-! ## Path-level folds (`lyon_algorithms::aabb`) -/

/-- `PathEvent` with the fields the folds read -/
inductive PEv (α : Type) where
  | begin (at_ : P α)
  | line (from_ to : P α)
  | quad (from_ ctrl to : P α)
  | cubic (from_ c1 c2 to : P α)
  | end_

namespace Aabb
variable [Transc α]

/-- `impl FastBoundingBox for PathEvent :: min_max` -/
def fastStep (b : Box α) : PEv α → Box α
  | .begin p => ⟨b.min.pmin p, b.max.pmax p⟩
  | .line _ p => ⟨b.min.pmin p, b.max.pmax p⟩
  | .quad _ c p => ⟨b.min.pmin (c.pmin p), b.max.pmax (c.pmax p)⟩
  | .cubic _ c1 c2 p => ⟨b.min.pmin (c1.pmin (c2.pmin p)), b.max.pmax (c1.pmax (c2.pmax p))⟩
  | .end_ => b

/-- `impl TightBoundingBox for PathEvent :: min_max` -/
def tightStep (b : Box α) : PEv α → Box α
  | .begin p => ⟨b.min.pmin p, b.max.pmax p⟩
  | .line _ p => ⟨b.min.pmin p, b.max.pmax p⟩
  | .quad f c p =>
    ⟨b.min.pmin (Quad.boundingBox ⟨f, c, p⟩).min, b.max.pmax (Quad.boundingBox ⟨f, c, p⟩).max⟩
  | .cubic f c1 c2 p =>
    ⟨b.min.pmin (Cubic.boundingBox ⟨f, c1, c2, p⟩).min, b.max.pmax (Cubic.boundingBox ⟨f, c1, c2, p⟩).max⟩
  | .end_ => b

/-- `if min == point(f32::MAX, f32::MAX) { return Box2D::zero() }; Box2D { min, max }` -/
def finish (big : α) (b : Box α) : Box α :=
  if b.min == (⟨big, big⟩ : P α) then ⟨⟨zero, zero⟩, ⟨zero, zero⟩⟩ else b

/-- start value: `min = (MAX, MAX)`, `max = (MIN, MIN)` with `MIN = -MAX` -/
def start (big : α) : Box α := ⟨⟨big, big⟩, ⟨-big, -big⟩⟩

/-- `aabb::fast_bounding_box` -/
def fastBoundingBox (big : α) (evs : List (PEv α)) : Box α :=
  finish big (evs.foldl fastStep (start big))
/-- `aabb::bounding_box` -/
def boundingBox (big : α) (evs : List (PEv α)) : Box α :=
  finish big (evs.foldl tightStep (start big))

end Aabb

/-! ## `lyon_algorithms::fit` -/

/-- `Transform2D::then` -/
def Xf.andThen (s m : Xf α) : Xf α :=
  ⟨s.m11 * m.m11 + s.m12 * m.m21, s.m11 * m.m12 + s.m12 * m.m22,
   s.m21 * m.m11 + s.m22 * m.m21, s.m21 * m.m12 + s.m22 * m.m22,
   s.m31 * m.m11 + s.m32 * m.m21 + m.m31, s.m31 * m.m12 + s.m32 * m.m22 + m.m32⟩
/-- `Transform2D::translation(x, y)` -/
def Xf.translation (x y : α) : Xf α := ⟨one, zero, zero, one, x, y⟩
/-- `Transform2D::scale(x, y)` -/
def Xf.scale (x y : α) : Xf α := ⟨x, zero, zero, y, zero, zero⟩

inductive FitStyle where
  | stretch | min | max | horizontal | vertical
deriving DecidableEq

namespace Fit

def width (b : Box α) : α := b.max.x - b.min.x
def height (b : Box α) : α := b.max.y - b.min.y

/-- the `match style { … }` of `fit_box` on `scale = (dst.w / src.w, dst.h / src.h)` -/
def pickScale (sx sy : α) : FitStyle → P α
  | .stretch => ⟨sx, sy⟩
  | .min => ⟨Scalar.min sx sy, Scalar.min sx sy⟩
  | .max => ⟨Scalar.max sx sy, Scalar.max sx sy⟩
  | .horizontal => ⟨sx, sx⟩
  | .vertical => ⟨sy, sy⟩

/-- `fit_box(src_rect, dst_rect, style)` -/
def fitBox (src dst : Box α) (style : FitStyle) : Xf α :=
  let scale := pickScale (width dst / width src) (height dst / height src) style
  let srcCenter := src.min.lerp src.max half
  let dstCenter := dst.min.lerp dst.max half
  ((Xf.translation (-srcCenter.x) (-srcCenter.y)).andThen (Xf.scale scale.x scale.y)).andThen
    (Xf.translation dstCenter.x dstCenter.y)

/-- `PathEvent::transformed` (`End` carries no point the folds read) -/
def mapEv (m : Xf α) : PEv α → PEv α
  | .begin p => .begin (m.apply p)
  | .line f p => .line (m.apply f) (m.apply p)
  | .quad f c p => .quad (m.apply f) (m.apply c) (m.apply p)
  | .cubic f c1 c2 p => .cubic (m.apply f) (m.apply c1) (m.apply c2) (m.apply p)
  | .end_ => .end_

/-- `fit_path(path, output_rect, style)` as an event list: the path's `aabb::bounding_box` is
fitted into `dst` and every event is transformed -/
def fitPath [Transc α] (big : α) (evs : List (PEv α)) (dst : Box α) (style : FitStyle) : List (PEv α) :=
  evs.map (mapEv (fitBox (Aabb.boundingBox big evs) dst style))

end Fit

end Lyon
